package histlib

import (
	"context"
	"database/sql"
	"errors"
	"fmt"
	"io"
	"os"
	"path/filepath"
	"sort"
	"strings"
	"time"

	"github.com/benbjohnson/litestream"
	"github.com/superfly/ltx"
)

func blob(k, i, n int) []byte {
	b := make([]byte, n)
	x := uint32(k*2654435761 + i*40503 + 12345)
	for j := range b {
		x = x*1664525 + 1013904223
		b[j] = byte(x >> 24)
	}
	return b
}

// appTxn runs fn in one application transaction that also bumps the ledger
// counter; after commit the logical digest of the user data is recorded.
func (e *Env) appTxn(fn func(tx *sql.Tx, k int) error) error {
	if e.App == nil {
		if err := e.openApp(); err != nil {
			return err
		}
	}
	tx, err := e.App.Begin()
	if err != nil {
		return err
	}
	k := e.K + 1
	if err := fn(tx, k); err != nil {
		tx.Rollback()
		return err
	}
	if _, err := tx.Exec("UPDATE ledger SET k = ? WHERE id = 1", k); err != nil {
		tx.Rollback()
		return err
	}
	if err := tx.Commit(); err != nil {
		return err
	}
	e.K = k
	d, err := UserDigest(e.App)
	if err != nil {
		return err
	}
	e.Ledger = append(e.Ledger, d)
	return nil
}

func (e *Env) lastTable() string { return fmt.Sprintf("t%d", e.NTables-1) }

// Exec runs one operation. ack is true when the operation is an acknowledged
// replication round (SyncAndWait nil, clean Close nil). outcome is "ok" or "err:<text>".
func (e *Env) Exec(op Op) (outcome string, ack bool) {
	err := e.exec(op, &ack)
	if err != nil {
		ack = false
		return "err:" + err.Error(), false
	}
	return "ok", ack
}

func (e *Env) ls() (*litestream.DB, error) {
	if e.LS == nil {
		return nil, fmt.Errorf("litestream is down")
	}
	return e.LS, nil
}

func (e *Env) exec(op Op, ack *bool) error {
	// Daemon-style operations run under the long-lived context (like the monitor
	// goroutine's db.ctx). Only "syncwaitreq" uses a request-scoped context that
	// is cancelled when the request returns (like the `sync -wait` IPC handler).
	ctx := e.Ctx
	switch op.K {
	case "syncwaitreq":
		db, err := e.ls()
		if err != nil {
			return err
		}
		rctx, cancel := context.WithTimeout(e.Ctx, 30*time.Second)
		err = db.SyncAndWait(rctx)
		cancel()
		if err != nil {
			return err
		}
		*ack = true
		return nil
	case "ins":
		return e.appTxn(func(tx *sql.Tx, k int) error {
			for i := 0; i < op.A; i++ {
				if _, err := tx.Exec("INSERT INTO "+e.lastTable()+" (a, v) VALUES (?, ?)", k*1000+i, blob(k, i, op.B)); err != nil {
					return err
				}
			}
			return nil
		})
	case "upd":
		m := op.A
		if m < 1 {
			m = 1
		}
		return e.appTxn(func(tx *sql.Tx, k int) error {
			_, err := tx.Exec("UPDATE t0 SET a = a + 1, v = ? WHERE id % ? = 0", blob(k, 7, op.B), m)
			return err
		})
	case "del":
		m := op.A
		if m < 1 {
			m = 1
		}
		return e.appTxn(func(tx *sql.Tx, k int) error {
			_, err := tx.Exec("DELETE FROM t0 WHERE id % ? = ?", m, op.B%m)
			return err
		})
	case "rb":
		if e.App == nil {
			if err := e.openApp(); err != nil {
				return err
			}
		}
		tx, err := e.App.Begin()
		if err != nil {
			return err
		}
		for i := 0; i < op.A; i++ {
			if _, err := tx.Exec("INSERT INTO t0 (a, v) VALUES (?, ?)", -1, blob(9999, i, op.B)); err != nil {
				tx.Rollback()
				return err
			}
		}
		return tx.Rollback()
	case "ddl":
		return e.appTxn(func(tx *sql.Tx, k int) error {
			n := e.NTables
			if _, err := tx.Exec(fmt.Sprintf("CREATE TABLE t%d (id INTEGER PRIMARY KEY, a INTEGER, v BLOB)", n)); err != nil {
				return err
			}
			if _, err := tx.Exec(fmt.Sprintf("CREATE INDEX i%d ON t%d (a)", n, n)); err != nil {
				return err
			}
			e.NTables++
			return nil
		})
	case "drop":
		if e.NTables <= 1 {
			return nil
		}
		return e.appTxn(func(tx *sql.Tx, k int) error {
			if _, err := tx.Exec("DROP TABLE " + e.lastTable()); err != nil {
				return err
			}
			e.NTables--
			return nil
		})
	case "vac":
		if e.App == nil {
			if err := e.openApp(); err != nil {
				return err
			}
		}
		_, err := e.App.Exec("VACUUM")
		if err != nil && strings.Contains(err.Error(), "SQL statements in progress") {
			return nil
		}
		return err
	case "incvac":
		if e.App == nil {
			if err := e.openApp(); err != nil {
				return err
			}
		}
		_, err := e.App.Exec(fmt.Sprintf("PRAGMA incremental_vacuum(%d)", op.A))
		return err
	case "actl":
		if e.App == nil {
			if err := e.openApp(); err != nil {
				return err
			}
		}
		var a, b, c int
		return e.App.QueryRow("PRAGMA wal_checkpoint("+op.S+")").Scan(&a, &b, &c)
	case "aclose":
		e.endReader()
		if e.App != nil {
			err := e.App.Close()
			e.App = nil
			return err
		}
		return nil
	case "rbegin":
		if e.Reader != nil {
			return nil
		}
		if e.App == nil {
			if err := e.openApp(); err != nil {
				return err
			}
		}
		c, err := e.App.Conn(e.Ctx)
		if err != nil {
			return err
		}
		tx, err := c.BeginTx(e.Ctx, &sql.TxOptions{ReadOnly: true})
		if err != nil {
			c.Close()
			return err
		}
		var n int
		if err := tx.QueryRow("SELECT count(*) FROM t0").Scan(&n); err != nil {
			tx.Rollback()
			c.Close()
			return err
		}
		e.Reader, e.rtx = c, tx
		return nil
	case "rend":
		e.endReader()
		return nil
	case "sync":
		db, err := e.ls()
		if err != nil {
			return err
		}
		return db.Sync(ctx)
	case "rsync":
		db, err := e.ls()
		if err != nil {
			return err
		}
		return db.Replica.Sync(ctx)
	case "lckpt":
		db, err := e.ls()
		if err != nil {
			return err
		}
		return db.Checkpoint(ctx, op.S)
	case "lckptwin": // litestream checkpoint (mode S); inside its window — after its PRAGMA, before it re-acquires its read lock — the application updates A rows and runs its own complete RESTART checkpoint
		db, err := e.ls()
		if err != nil {
			return err
		}
		if e.bgDone != nil {
			return db.Checkpoint(ctx, op.S)
		}
		var inner error
		e.Logs.mu.Lock()
		e.Logs.onCheckpoint = func() {
			var a bool
			if inner = e.exec(Op{K: "upd", A: op.A, B: op.B}, &a); inner == nil {
				inner = e.exec(Op{K: "actl", S: "RESTART"}, &a)
			}
		}
		e.Logs.mu.Unlock()
		err = db.Checkpoint(ctx, op.S)
		e.Logs.mu.Lock()
		e.Logs.onCheckpoint = nil
		e.Logs.mu.Unlock()
		if err == nil && inner != nil && !isBusyText(inner.Error()) {
			return fmt.Errorf("application work in the checkpoint window: %w", inner)
		}
		return err
	case "syncwait":
		db, err := e.ls()
		if err != nil {
			return err
		}
		if err := db.SyncAndWait(ctx); err != nil {
			return err
		}
		*ack = true
		return nil
	case "snap":
		db, err := e.ls()
		if err != nil {
			return err
		}
		_, err = db.Snapshot(ctx)
		return err
	case "snapfail": // replica fault: the upload of one snapshot breaks after A bytes (full disk, dropped connection)
		db, err := e.ls()
		if err != nil {
			return err
		}
		orig := db.Replica.Client
		db.Replica.Client = &failSnapClient{ReplicaClient: orig, n: int64(op.A)}
		_, err = db.Snapshot(ctx)
		db.Replica.Client = orig
		if err == nil || errors.Is(err, errSnapUpload) || strings.Contains(err.Error(), errSnapUpload.Error()) {
			return nil // the fault (or nothing to upload) — not an outcome to judge
		}
		return err
	case "compact":
		db, err := e.ls()
		if err != nil {
			return err
		}
		_, err = db.Compact(ctx, op.A)
		if err != nil && (strings.Contains(err.Error(), "no files") || strings.Contains(err.Error(), "nothing to compact") || err == litestream.ErrNoCompaction) {
			return nil
		}
		return err
	case "close": // clean shutdown of the process, then a new process (new DB object)
		db, err := e.ls()
		if err != nil {
			return err
		}
		e.LS = nil
		// A DB object that never ran a sync is not initialised: its Close is not a
		// replication round (nothing was copied, nothing is acknowledged).
		initialised := db.SQLDB() != nil
		if err := db.Close(ctx); err != nil {
			_ = e.attach()
			return err
		}
		*ack = initialised
		return nil
	case "down": // clean stop, stay down (same as close but named for C04 histories)
		db, err := e.ls()
		if err != nil {
			return err
		}
		e.LS = nil
		e.downObj = db
		return db.Close(ctx)
	case "crash": // the process dies: in-memory state lost, no final sync
		db, err := e.ls()
		if err != nil {
			return err
		}
		e.LS = nil
		e.downObj = nil
		if s := db.SQLDB(); s != nil {
			s.Close() // ends litestream's read transaction like a dead process would
		}
		return nil
	case "up": // start a new process (new DB object)
		if e.LS != nil {
			return nil
		}
		return e.attach()
	case "upsame": // IPC start of the same, previously stopped, DB object
		if e.LS != nil {
			return nil
		}
		if e.downObj == nil {
			return e.attach()
		}
		db := e.downObj
		e.downObj = nil
		if err := db.Open(); err != nil {
			return err
		}
		e.LS = db
		return nil
	case "save": // keep a copy of the current committed database for a later "replace"
		img, err := e.SourceImage()
		if err != nil {
			return err
		}
		e.Saved = filepath.Join(e.Dir, "saved.db")
		e.SavedK = e.K
		e.SavedLedger = append([]string(nil), e.Ledger...)
		e.SavedTables = e.NTables
		return os.WriteFile(e.Saved, img, 0o644)
	case "savefiles": // keep raw copies of the database file AND its WAL (a cold file-level backup / volume snapshot)
		e.endReader()
		if e.App != nil {
			// quiesce our own connections so the copy is a consistent pair
			e.App.Close()
			e.App = nil
		}
		if err := copyFile(e.DBPath, filepath.Join(e.Dir, "raw.db")); err != nil {
			return err
		}
		os.Remove(filepath.Join(e.Dir, "raw.db-wal"))
		if _, err := os.Stat(e.DBPath + "-wal"); err == nil {
			if err := copyFile(e.DBPath+"-wal", filepath.Join(e.Dir, "raw.db-wal")); err != nil {
				return err
			}
		}
		e.RawSaved = true
		e.RawK, e.RawLedger, e.RawTables = e.K, append([]string(nil), e.Ledger...), e.NTables
		return nil
	case "rollbackfiles": // while down: database file and WAL rolled back to the raw copies (same WAL generation)
		if e.LS != nil || !e.RawSaved {
			return nil
		}
		e.endReader()
		if e.App != nil {
			e.App.Close()
			e.App = nil
		}
		os.Remove(e.DBPath + "-shm")
		os.Remove(e.DBPath + "-wal")
		os.Remove(e.DBPath)
		if err := copyFile(filepath.Join(e.Dir, "raw.db"), e.DBPath); err != nil {
			return err
		}
		if _, err := os.Stat(filepath.Join(e.Dir, "raw.db-wal")); err == nil {
			if err := copyFile(filepath.Join(e.Dir, "raw.db-wal"), e.DBPath+"-wal"); err != nil {
				return err
			}
		}
		e.K, e.Ledger, e.NTables = e.RawK, append([]string(nil), e.RawLedger...), e.RawTables
		return nil
	case "replace": // while down: the database file is replaced by an older version
		if e.LS != nil || e.Saved == "" {
			return nil
		}
		e.endReader()
		if e.App != nil {
			e.App.Close()
			e.App = nil
		}
		os.Remove(e.DBPath + "-wal")
		os.Remove(e.DBPath + "-shm")
		os.Remove(e.DBPath) // a replaced file is a new inode, like restoring a backup over it
		if err := copyFile(e.Saved, e.DBPath); err != nil {
			return err
		}
		e.K, e.Ledger, e.NTables = e.SavedK, append([]string(nil), e.SavedLedger...), e.SavedTables
		return nil
	case "resetmeta": // while down: local state directory lost
		if e.LS != nil {
			return nil
		}
		return os.RemoveAll(litestream.NewDB(e.DBPath).MetaPath())
	case "breakremote": // transient replica fault: the newest level-0 file on the replica cannot be read (a directory sits at its path)
		if e.Cfg.NoLitestream {
			return nil
		}
		ms, _ := filepath.Glob(filepath.Join(e.RepDir, "ltx", "0", "*.ltx"))
		if len(ms) == 0 {
			return nil
		}
		sort.Strings(ms)
		newest := ms[len(ms)-1]
		if fi, err := os.Stat(newest); err != nil || fi.IsDir() {
			return nil
		}
		if err := os.Rename(newest, newest+".hidden"); err != nil {
			return err
		}
		return os.Mkdir(newest, 0o755)
	case "fixremote": // the fault goes away
		if e.Cfg.NoLitestream {
			return nil
		}
		ms, _ := filepath.Glob(filepath.Join(e.RepDir, "ltx", "0", "*.ltx.hidden"))
		for _, m := range ms {
			orig := strings.TrimSuffix(m, ".hidden")
			os.Remove(orig)
			if err := os.Rename(m, orig); err != nil {
				return err
			}
		}
		return nil
	case "blocktmp": // local storage fault: the staging file of the L0 file for TXID pos+A cannot be created (a directory sits at its path)
		if e.LS == nil || e.Cfg.NoLitestream {
			return nil
		}
		pos, err := e.LS.Pos()
		if err != nil {
			return nil
		}
		t := pos.TXID + ltx.TXID(op.A)
		return os.MkdirAll(e.LS.LTXPath(0, t, t)+".tmp", 0o755)
	case "unblocktmp": // the fault goes away
		if e.Cfg.NoLitestream {
			return nil
		}
		ms, _ := filepath.Glob(filepath.Join(litestream.NewDB(e.DBPath).LTXLevelDir(0), "*.ltx.tmp"))
		for _, m := range ms {
			if fi, err := os.Stat(m); err == nil && fi.IsDir() {
				os.RemoveAll(m)
			}
		}
		return nil
	case "autorecover": // run-time reset of local state (what auto-recover does)
		db, err := e.ls()
		if err != nil {
			return err
		}
		return db.ResetLocalState(ctx)
	case "cw": // concurrent application writer: A transactions of multi-statement work, some rolled back
		if e.bgDone != nil {
			return nil
		}
		if e.App == nil {
			if err := e.openApp(); err != nil {
				return err
			}
		}
		done := make(chan error, 1)
		e.bgDone = done
		n, sz := op.A, op.B
		go func() {
			var err error
			for i := 0; i < n && err == nil; i++ {
				if i%4 == 3 {
					tx, e2 := e.App.Begin()
					if e2 != nil {
						err = e2
						break
					}
					for j := 0; j < 3; j++ {
						tx.Exec("INSERT INTO t0 (a, v) VALUES (?, ?)", -7, blob(777, j, sz))
					}
					tx.Rollback()
					continue
				}
				err = e.appTxn(func(tx *sql.Tx, k int) error {
					for j := 0; j < 1+i%3; j++ {
						if _, err := tx.Exec("INSERT INTO t0 (a, v) VALUES (?, ?)", k*1000+j, blob(k, j, sz)); err != nil {
							return err
						}
					}
					if i%2 == 1 {
						if _, err := tx.Exec("UPDATE t0 SET a = a + 1 WHERE id % 3 = 0"); err != nil {
							return err
						}
					}
					if i%5 == 4 {
						if _, err := tx.Exec("DELETE FROM t0 WHERE id % 4 = 1"); err != nil {
							return err
						}
					}
					return nil
				})
				time.Sleep(time.Duration(i%3) * time.Millisecond)
			}
			done <- err
		}()
		return nil
	case "cwhold": // a transaction that is in flight (write lock held) for A ms, then commits
		if e.bgDone != nil {
			return nil
		}
		if e.App == nil {
			if err := e.openApp(); err != nil {
				return err
			}
		}
		done := make(chan error, 1)
		started := make(chan struct{})
		e.bgDone = done
		hold, sz := op.A, op.B
		go func() {
			first := true
			done <- e.appTxn(func(tx *sql.Tx, k int) error {
				for j := 0; j < 3; j++ {
					if _, err := tx.Exec("INSERT INTO t0 (a, v) VALUES (?, ?)", k*1000+j, blob(k, j, sz)); err != nil {
						if first {
							close(started)
							first = false
						}
						return err
					}
				}
				if first {
					close(started)
					first = false
				}
				time.Sleep(time.Duration(hold) * time.Millisecond)
				return nil
			})
		}()
		<-started
		return nil
	case "cwait":
		if e.bgDone == nil {
			return nil
		}
		err := <-e.bgDone
		e.bgDone = nil
		return err
	case "sleep":
		time.Sleep(time.Duration(op.A) * time.Millisecond)
		return nil
	}
	return fmt.Errorf("unknown op %q", op.K)
}

func (e *Env) endReader() {
	if e.rtx != nil {
		e.rtx.Rollback()
		e.rtx = nil
	}
	if e.Reader != nil {
		e.Reader.Close()
		e.Reader = nil
	}
}

// Up reports whether litestream is attached.
func (e *Env) Up() bool { return e.LS != nil }

var errSnapUpload = errors.New("verif: injected snapshot upload fault")

// failSnapClient fails the upload of a snapshot-level file after reading n bytes of it.
type failSnapClient struct {
	litestream.ReplicaClient
	n int64
}

func (c *failSnapClient) WriteLTXFile(ctx context.Context, level int, minTXID, maxTXID ltx.TXID, rd io.Reader) (*ltx.FileInfo, error) {
	if level != litestream.SnapshotLevel {
		return c.ReplicaClient.WriteLTXFile(ctx, level, minTXID, maxTXID, rd)
	}
	_, _ = io.CopyN(io.Discard, rd, c.n)
	return nil, errSnapUpload
}
