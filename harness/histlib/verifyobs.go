package histlib

import (
	"crypto/sha256"
	"encoding/binary"
	"errors"
	"fmt"
	"io"
	"os"
	"reflect"
	"sort"
	"strings"

	"github.com/superfly/ltx"
)

func tok(b []byte) uint64 {
	h := sha256.Sum256(b)
	return binary.BigEndian.Uint64(h[:8]) >> 16 // 48 bits: fits comfortably, collisions irrelevant at this scale
}

// verifyObs gathers, independently of litestream, the facts verify depends on
// (last local L0 file header and pages, WAL header salts, physical frames, the
// in-memory flags) and asks the real code for its decision.
func (e *Env) verifyObs() *VerifyObs {
	db := e.LS
	st := db.VerifSyncState()
	ents, _ := os.ReadDir(db.LTXLevelDir(0))
	var names []string
	for _, x := range ents {
		if strings.HasSuffix(x.Name(), ".ltx") {
			names = append(names, x.Name())
		}
	}
	sort.Strings(names)
	ps := db.PageSize()
	if ps == 0 {
		return nil
	}
	fs := int64(24 + ps)
	line := "verify"
	if len(names) == 0 {
		line += " POS0=1 LS=0 LE=0 LP="
	} else {
		f, err := os.Open(db.LTXLevelDir(0) + "/" + names[len(names)-1])
		if err != nil {
			return nil
		}
		defer f.Close()
		dec := ltx.NewDecoder(f)
		if err := dec.DecodeHeader(); err != nil {
			return nil
		}
		hdr := dec.Header()
		end := hdr.WALOffset + hdr.WALSize
		if end < 32 || (end-32)%fs != 0 {
			return nil
		}
		var pages []string
		buf := make([]byte, hdr.PageSize)
		for {
			var ph ltx.PageHeader
			if err := dec.DecodePage(&ph, buf); errors.Is(err, io.EOF) {
				break
			} else if err != nil {
				return nil
			}
			pages = append(pages, fmt.Sprintf("%d:%d", ph.Pgno, tok(buf)))
		}
		line += fmt.Sprintf(" POS0=0 LS=%d LE=%d LP=%s", uint64(hdr.WALSalt1)<<32|uint64(hdr.WALSalt2), (end-32)/fs, strings.Join(pages, ","))
	}
	wal, err := os.ReadFile(e.DBPath + "-wal")
	if err != nil {
		return nil
	}
	hs := uint64(0)
	if len(wal) >= 32 {
		hs = uint64(binary.BigEndian.Uint32(wal[16:]))<<32 | uint64(binary.BigEndian.Uint32(wal[20:]))
	} else if len(names) > 0 {
		return nil // header unreadable: the real code errors or takes the truncated branch before reading it
	}
	var frames []string
	for off := int64(32); off+fs <= int64(len(wal)); off += fs {
		fr := wal[off : off+fs]
		frames = append(frames, fmt.Sprintf("%d:%d:%d", uint64(binary.BigEndian.Uint32(fr[8:]))<<32|uint64(binary.BigEndian.Uint32(fr[12:])),
			binary.BigEndian.Uint32(fr[0:]), tok(fr[24:])))
	}
	line += fmt.Sprintf(" HS=%d F=%s STE=%d FRESH=%d UNRES=%d", hs, strings.Join(frames, ","), b2i(st.SyncedToWALEnd), b2i(st.LastSyncedWALOffset == 0), b2i(unresolved(st)))
	info, err := db.VerifVerify(e.Ctx)
	if err != nil {
		return &VerifyObs{Line: line, Real: "err"}
	}
	if info.Offset < 32 || (info.Offset-32)%fs != 0 {
		return nil
	}
	useHdr := 0
	if len(names) > 0 && len(wal) >= 32 {
		got := uint64(info.Salt1)<<32 | uint64(info.Salt2)
		if got == hs && !strings.Contains(line, fmt.Sprintf(" LS=%d ", hs)) {
			useHdr = 1
		}
	}
	real := fmt.Sprintf("snap=%d idx=%d clear=%d", b2i(info.Snapshotting), (info.Offset-32)/fs, b2i(info.ClearSyncedToWALEnd))
	if !info.Snapshotting {
		real += fmt.Sprintf(" hdr=%d", useHdr)
	}
	return &VerifyObs{Line: line, Real: real}
}

// unresolved reads VerifSyncState.CheckpointUnresolved when the tree has it (scratch trees cut
// before the repair 98a2369 do not).
func unresolved(st any) bool {
	f := reflect.ValueOf(st).FieldByName("CheckpointUnresolved")
	return f.IsValid() && f.Kind() == reflect.Bool && f.Bool()
}
