// Package histlib is the history engine: real modernc SQLite application
// connections + real litestream DB/Replica over the file replica client,
// driven by generated operation histories, with the page-image oracles that
// C01/C02/C04/C13/C14 share.
package histlib

import (
	"bytes"
	"context"
	"crypto/sha256"
	"database/sql"
	"encoding/binary"
	"encoding/hex"
	"errors"
	"fmt"
	"io"
	"log/slog"
	"os"
	"path/filepath"
	"sort"
	"strings"
	"sync"
	"time"

	"github.com/benbjohnson/litestream"
	"github.com/benbjohnson/litestream/file"
	"github.com/superfly/ltx"
	_ "modernc.org/sqlite"
)

// Cfg is the configuration a history runs under.
type Cfg struct {
	PageSize           int    `json:"page_size"`
	AutoVacuum         string `json:"auto_vacuum"` // none|full|incremental
	MinCheckpointPageN int    `json:"min_checkpoint_page_n"`
	TruncatePageN      int    `json:"truncate_page_n"`
	CheckpointInterval int    `json:"checkpoint_interval_ms"` // 0 = disabled
	MaxSyncWALBytes    int64  `json:"max_sync_wal_bytes"`
	NoLitestream       bool   `json:"no_litestream,omitempty"` // control run (C14)
}

// Op is one step of a history.
type Op struct {
	K string `json:"k"`           // kind
	A int    `json:"a,omitempty"` // first numeric argument
	B int    `json:"b,omitempty"` // second numeric argument
	S string `json:"s,omitempty"` // string argument (checkpoint mode …)
}

func (o Op) String() string {
	s := o.K
	if o.S != "" {
		s += ":" + o.S
	}
	if o.A != 0 || o.B != 0 {
		s += fmt.Sprintf(":%d:%d", o.A, o.B)
	}
	return s
}

// logCapture records litestream's log lines we care about (checkpoints, reasons).
type logCapture struct {
	mu   sync.Mutex
	recs []string
	// onCheckpoint, when set, runs once at litestream's next "checkpoint" log line — emitted
	// right after its PRAGMA wal_checkpoint and before it re-acquires its read lock.
	onCheckpoint func()
}

func (l *logCapture) Enabled(context.Context, slog.Level) bool { return true }
func (l *logCapture) Handle(_ context.Context, r slog.Record) error {
	if r.Message != "checkpoint" && r.Message != "sync" && !strings.Contains(r.Message, "snapshot") {
		return nil
	}
	if r.Message == "checkpoint" {
		l.mu.Lock()
		f := l.onCheckpoint
		l.onCheckpoint = nil
		l.mu.Unlock()
		if f != nil {
			f()
		}
	}
	var sb strings.Builder
	sb.WriteString(r.Message)
	r.Attrs(func(a slog.Attr) bool {
		if a.Key == "mode" || a.Key == "reason" || a.Key == "snap" || a.Key == "txid" {
			fmt.Fprintf(&sb, " %s=%v", a.Key, a.Value)
		}
		return true
	})
	l.mu.Lock()
	l.recs = append(l.recs, sb.String())
	l.mu.Unlock()
	return nil
}
func (l *logCapture) WithAttrs([]slog.Attr) slog.Handler { return l }
func (l *logCapture) WithGroup(string) slog.Handler      { return l }
func (l *logCapture) take() []string {
	l.mu.Lock()
	defer l.mu.Unlock()
	r := l.recs
	l.recs = nil
	return r
}

// Env is one running world: a source database with its application
// connection(s), litestream attached to it, and a file replica.
type Env struct {
	Cfg         Cfg
	Dir         string
	DBPath      string
	RepDir      string
	App         *sql.DB
	Reader      *sql.Conn // pinned long reader, if any
	rtx         *sql.Tx
	LS          *litestream.DB
	Logs        *logCapture
	Ctx         context.Context
	Ledger      []string // ledger[k] = logical digest of the user data after the k-th application commit
	K           int      // number of application commits so far
	NTables     int
	Saved       string // path of a saved copy of the database file (for replace)
	SavedK      int
	SavedLedger []string
	SavedTables int
	downObj     *litestream.DB // stopped DB object (IPC stop), for upsame
	bgDone      chan error     // concurrent writer in flight
	RawSaved    bool
	RawK        int
	RawLedger   []string
	RawTables   int
	Acked       int // number of acknowledged instants checked
	Trace       []string
	restoreN    int
}

// NewEnv creates the database (page size / auto_vacuum fixed before the first table) and attaches litestream.
func NewEnv(cfg Cfg) (*Env, error) {
	quietOnce.Do(func() { slog.SetDefault(slog.New(slog.NewTextHandler(io.Discard, nil))) })
	dir, err := os.MkdirTemp("", "hist-")
	if err != nil {
		return nil, err
	}
	e := &Env{Cfg: cfg, Dir: dir, DBPath: filepath.Join(dir, "db"), RepDir: filepath.Join(dir, "replica"), Ctx: context.Background(), Logs: &logCapture{}}
	if err := e.openApp(); err != nil {
		e.Destroy()
		return nil, err
	}
	av := map[string]int{"none": 0, "": 0, "full": 1, "incremental": 2}[cfg.AutoVacuum]
	for _, q := range []string{
		fmt.Sprintf("PRAGMA page_size = %d", cfg.PageSize),
		fmt.Sprintf("PRAGMA auto_vacuum = %d", av),
		"PRAGMA journal_mode = wal",
		"CREATE TABLE ledger (id INTEGER PRIMARY KEY, k INTEGER)",
		"INSERT INTO ledger VALUES (1, 0)",
		"CREATE TABLE t0 (id INTEGER PRIMARY KEY, a INTEGER, v BLOB)",
		// application tables whose names resemble litestream's own: they are the application's, not litestream's
		"CREATE TABLE _litestream_audit (id INTEGER PRIMARY KEY, note TEXT)",
		"INSERT INTO _litestream_audit VALUES (1, 'owned by the application')",
		"CREATE TABLE xlitestream_cfg (k TEXT PRIMARY KEY, v TEXT)",
		"INSERT INTO xlitestream_cfg VALUES ('a', 'b')",
		"CREATE INDEX i0 ON t0 (a)", // an index that was never analyzed: anything that runs ANALYZE / PRAGMA optimize on the application's database shows up as sqlite_stat tables
	} {
		if _, err := e.App.Exec(q); err != nil {
			e.Destroy()
			return nil, fmt.Errorf("%s: %w", q, err)
		}
	}
	e.NTables = 1
	d, err := e.userDigest(e.App)
	if err != nil {
		e.Destroy()
		return nil, err
	}
	e.Ledger = []string{d}
	if !cfg.NoLitestream {
		if err := e.attach(); err != nil {
			e.Destroy()
			return nil, err
		}
	}
	return e, nil
}

func (e *Env) openApp() error {
	db, err := sql.Open("sqlite", "file:"+e.DBPath+"?_pragma=busy_timeout(2000)&_pragma=wal_autocheckpoint(0)")
	if err != nil {
		return err
	}
	db.SetMaxOpenConns(2)
	e.App = db
	return db.Ping()
}

// attach creates a new litestream DB object on the paths (a "process start").
func (e *Env) attach() error {
	db := litestream.NewDB(e.DBPath)
	db.Logger = slog.New(e.Logs)
	db.MonitorInterval = 0
	db.MinCheckpointPageN = e.Cfg.MinCheckpointPageN
	db.TruncatePageN = e.Cfg.TruncatePageN
	db.CheckpointInterval = time.Duration(e.Cfg.CheckpointInterval) * time.Millisecond
	db.MaxSyncWALBytes = e.Cfg.MaxSyncWALBytes
	db.ShutdownSyncTimeout = 0
	db.Replica = litestream.NewReplicaWithClient(db, file.NewReplicaClient(e.RepDir))
	db.Replica.MonitorEnabled = false
	if err := db.Open(); err != nil {
		return err
	}
	e.LS = db
	return nil
}

func (e *Env) Destroy() {
	if e.bgDone != nil {
		<-e.bgDone
		e.bgDone = nil
	}
	if e.rtx != nil {
		e.rtx.Rollback()
	}
	if e.Reader != nil {
		e.Reader.Close()
	}
	if e.LS != nil {
		ctx, c := context.WithTimeout(context.Background(), 5*time.Second)
		e.LS.Close(ctx)
		c()
	}
	if e.App != nil {
		e.App.Close()
	}
	os.RemoveAll(e.Dir)
}

// userDigest is a logical digest of everything the application can read:
// schema and rows of all tables except litestream's two bookkeeping tables.
func (e *Env) userDigest(q interface {
	Query(string, ...any) (*sql.Rows, error)
}) (string, error) {
	return UserDigest(q)
}

func UserDigest(q interface {
	Query(string, ...any) (*sql.Rows, error)
}) (string, error) {
	h := sha256.New()
	rows, err := q.Query("SELECT type, name, tbl_name, COALESCE(sql,'') FROM sqlite_master WHERE name NOT IN ('_litestream_seq','_litestream_lock') ORDER BY name")
	if err != nil {
		return "", err
	}
	var tables []string
	for rows.Next() {
		var typ, name, tbl, s string
		if err := rows.Scan(&typ, &name, &tbl, &s); err != nil {
			rows.Close()
			return "", err
		}
		fmt.Fprintf(h, "%s|%s|%s|%s\n", typ, name, tbl, s)
		if typ == "table" {
			tables = append(tables, name)
		}
	}
	rows.Close()
	if err := rows.Err(); err != nil {
		return "", err
	}
	sort.Strings(tables)
	for _, t := range tables {
		rs, err := q.Query("SELECT * FROM \"" + t + "\" ORDER BY 1")
		if err != nil {
			return "", err
		}
		cols, _ := rs.Columns()
		vals := make([]any, len(cols))
		ptrs := make([]any, len(cols))
		for i := range vals {
			ptrs[i] = &vals[i]
		}
		for rs.Next() {
			if err := rs.Scan(ptrs...); err != nil {
				rs.Close()
				return "", err
			}
			for _, v := range vals {
				switch x := v.(type) {
				case []byte:
					fmt.Fprintf(h, "b%x|", x)
				default:
					fmt.Fprintf(h, "%v|", x)
				}
			}
			h.Write([]byte{'\n'})
		}
		rs.Close()
		if err := rs.Err(); err != nil {
			return "", err
		}
	}
	return hex.EncodeToString(h.Sum(nil)[:10]), nil
}

// ---------------------------------------------------------------- WAL scanning (independent of litestream's reader)

type WalInfo struct {
	Exists     bool
	Size       int64
	Salt1      uint32
	Salt2      uint32
	PageSize   int
	LiveFrames int // frames of the live generation: salts match the header and the checksum chain holds
	LastCommit int // index (1-based) of the last commit frame among them, 0 if none
}

func walChecksum(bo binary.ByteOrder, s0, s1 uint32, b []byte) (uint32, uint32) {
	for i := 0; i+8 <= len(b); i += 8 {
		s0 += bo.Uint32(b[i:]) + s1
		s1 += bo.Uint32(b[i+4:]) + s0
	}
	return s0, s1
}

func ScanWAL(path string) WalInfo {
	b, err := os.ReadFile(path)
	if err != nil {
		return WalInfo{}
	}
	w := WalInfo{Exists: true, Size: int64(len(b))}
	if len(b) < 32 {
		return w
	}
	magic := binary.BigEndian.Uint32(b[0:])
	var bo binary.ByteOrder = binary.LittleEndian
	if magic == 0x377f0683 {
		bo = binary.BigEndian
	} else if magic != 0x377f0682 {
		return w
	}
	w.PageSize = int(binary.BigEndian.Uint32(b[8:]))
	w.Salt1 = binary.BigEndian.Uint32(b[16:])
	w.Salt2 = binary.BigEndian.Uint32(b[20:])
	s0, s1 := walChecksum(bo, 0, 0, b[:24])
	if s0 != binary.BigEndian.Uint32(b[24:]) || s1 != binary.BigEndian.Uint32(b[28:]) {
		return w
	}
	fs := 24 + w.PageSize
	if w.PageSize < 512 {
		return w
	}
	for off := 32; off+fs <= len(b); off += fs {
		f := b[off : off+fs]
		if binary.BigEndian.Uint32(f[8:]) != w.Salt1 || binary.BigEndian.Uint32(f[12:]) != w.Salt2 {
			break
		}
		s0, s1 = walChecksum(bo, s0, s1, f[:8])
		s0, s1 = walChecksum(bo, s0, s1, f[24:])
		if s0 != binary.BigEndian.Uint32(f[16:]) || s1 != binary.BigEndian.Uint32(f[20:]) {
			break
		}
		w.LiveFrames++
		if binary.BigEndian.Uint32(f[4:]) != 0 {
			w.LastCommit = w.LiveFrames
		}
	}
	return w
}

// ---------------------------------------------------------------- images

func copyFile(src, dst string) error {
	in, err := os.Open(src)
	if err != nil {
		return err
	}
	defer in.Close()
	out, err := os.Create(dst)
	if err != nil {
		return err
	}
	if _, err := io.Copy(out, in); err != nil {
		out.Close()
		return err
	}
	return out.Close()
}

// SourceImage returns the committed state of the source right now as a single
// database file image: a copy of (db, -wal) is recovered and checkpointed by
// SQLite itself, away from the source.
func (e *Env) SourceImage() ([]byte, error) {
	d, err := os.MkdirTemp(e.Dir, "src-")
	if err != nil {
		return nil, err
	}
	defer os.RemoveAll(d)
	p := filepath.Join(d, "db")
	if err := copyFile(e.DBPath, p); err != nil {
		return nil, err
	}
	if _, err := os.Stat(e.DBPath + "-wal"); err == nil {
		if err := copyFile(e.DBPath+"-wal", p+"-wal"); err != nil {
			return nil, err
		}
	}
	if err := checkpointCopy(p); err != nil {
		return nil, err
	}
	return os.ReadFile(p)
}

func checkpointCopy(p string) error {
	db, err := sql.Open("sqlite", "file:"+p+"?_pragma=busy_timeout(2000)")
	if err != nil {
		return err
	}
	defer db.Close()
	db.SetMaxOpenConns(1)
	var a, b, c int
	if err := db.QueryRow("PRAGMA wal_checkpoint(TRUNCATE)").Scan(&a, &b, &c); err != nil {
		return fmt.Errorf("checkpoint copy: %w", err)
	}
	if a != 0 {
		return fmt.Errorf("checkpoint of copy was blocked")
	}
	return nil
}

// Restore restores from the replica alone (fresh Replica + client objects) and returns the file image and the path.
func (e *Env) Restore(txid ltx.TXID, ts time.Time, integrity bool) ([]byte, error) {
	e.restoreN++
	out := filepath.Join(e.Dir, fmt.Sprintf("restore-%d.db", e.restoreN))
	defer func() {
		os.Remove(out)
		os.Remove(out + "-wal")
		os.Remove(out + "-shm")
	}()
	r := litestream.NewReplicaWithClient(nil, file.NewReplicaClient(e.RepDir))
	opt := litestream.NewRestoreOptions()
	opt.OutputPath = out
	opt.TXID = txid
	opt.Timestamp = ts
	if integrity {
		opt.IntegrityCheck = litestream.IntegrityCheckFull
	}
	if err := r.Restore(e.Ctx, opt); err != nil {
		return nil, err
	}
	return os.ReadFile(out)
}

// RestoreSubset restores to txid from a view of the replica that holds only the files
// keep() selects (hard links in a scratch directory): another plan for the same TXID.
func (e *Env) RestoreSubset(txid ltx.TXID, keep func(level int, f *ltx.FileInfo) bool) ([]byte, error) {
	e.restoreN++
	alt := filepath.Join(e.Dir, fmt.Sprintf("altrep-%d", e.restoreN))
	defer os.RemoveAll(alt)
	src, dst := file.NewReplicaClient(e.RepDir), file.NewReplicaClient(alt)
	n := 0
	for lvl := 0; lvl <= litestream.SnapshotLevel; lvl++ {
		for _, f := range e.Listing(lvl) {
			if !keep(lvl, f) {
				continue
			}
			if err := os.MkdirAll(dst.LTXLevelDir(lvl), 0o755); err != nil {
				return nil, err
			}
			from, to := src.LTXFilePath(lvl, f.MinTXID, f.MaxTXID), dst.LTXFilePath(lvl, f.MinTXID, f.MaxTXID)
			if err := os.Link(from, to); err != nil {
				b, rerr := os.ReadFile(from)
				if rerr != nil {
					return nil, rerr
				}
				if werr := os.WriteFile(to, b, 0o644); werr != nil {
					return nil, werr
				}
			}
			n++
		}
	}
	if n == 0 {
		return nil, litestream.ErrTxNotAvailable
	}
	out := filepath.Join(e.Dir, fmt.Sprintf("restore-%d.db", e.restoreN))
	defer func() {
		os.Remove(out)
		os.Remove(out + "-wal")
		os.Remove(out + "-shm")
	}()
	r := litestream.NewReplicaWithClient(nil, dst)
	opt := litestream.NewRestoreOptions()
	opt.OutputPath = out
	opt.TXID = txid
	if err := r.Restore(e.Ctx, opt); err != nil {
		return nil, err
	}
	return os.ReadFile(out)
}

// DiffPages lists the 1-based numbers of pages that differ (including a size difference as page 0).
func DiffPages(a, b []byte, ps int) []int {
	var d []int
	if len(a) != len(b) {
		d = append(d, 0)
	}
	n := len(a)
	if len(b) < n {
		n = len(b)
	}
	for i := 0; i+ps <= n; i += ps {
		if !bytes.Equal(a[i:i+ps], b[i:i+ps]) {
			d = append(d, i/ps+1)
		}
	}
	return d
}

// imageInfo opens an image with SQLite and returns user digest, ledger k, seq root page, integrity.
type ImageInfo struct {
	Digest    string
	K         int
	SeqRoot   int
	Integrity string
	LockRows  int
}

func InspectImage(dir string, img []byte) (ImageInfo, error) {
	var ii ImageInfo
	f, err := os.CreateTemp(dir, "img-*.db")
	if err != nil {
		return ii, err
	}
	p := f.Name()
	f.Write(img)
	f.Close()
	defer func() { os.Remove(p); os.Remove(p + "-wal"); os.Remove(p + "-shm") }()
	db, err := sql.Open("sqlite", "file:"+p+"?_pragma=busy_timeout(2000)")
	if err != nil {
		return ii, err
	}
	defer db.Close()
	db.SetMaxOpenConns(1)
	if err := db.QueryRow("PRAGMA integrity_check").Scan(&ii.Integrity); err != nil {
		return ii, fmt.Errorf("integrity_check: %w", err)
	}
	if ii.Digest, err = UserDigest(db); err != nil {
		return ii, err
	}
	_ = db.QueryRow("SELECT k FROM ledger WHERE id=1").Scan(&ii.K)
	_ = db.QueryRow("SELECT rootpage FROM sqlite_master WHERE name='_litestream_seq'").Scan(&ii.SeqRoot)
	_ = db.QueryRow("SELECT count(*) FROM _litestream_lock").Scan(&ii.LockRows)
	return ii, nil
}

// CheckRestoreEqualsSource is the C01 oracle at an acknowledged instant.
// It returns "" or a description of the violation.
func (e *Env) CheckRestoreEqualsSource() string {
	src, err := e.SourceImage()
	if err != nil {
		return "" // cannot observe (harness problem, not a violation); counted by caller
	}
	got, err := e.Restore(0, time.Time{}, true)
	if err != nil {
		return "RESTORE-ERROR restore after acknowledged sync failed: " + err.Error()
	}
	d := DiffPages(src, got, e.Cfg.PageSize)
	if len(d) == 0 {
		return ""
	}
	// Only litestream's own sequence row may differ: page 1 (header counters) and the _litestream_seq root page.
	si, err1 := InspectImage(e.Dir, src)
	gi, err2 := InspectImage(e.Dir, got)
	if err1 != nil || err2 != nil {
		return fmt.Sprintf("restored database differs from source in pages %v and cannot be inspected: %v %v", head(d), err1, err2)
	}
	if gi.Integrity != "ok" {
		return "restored database fails integrity_check: " + gi.Integrity
	}
	for _, p := range d {
		if p != 1 && p != si.SeqRoot {
			return fmt.Sprintf("restored database differs from the source's committed state in pages %v (user digest src=%s restored=%s, ledger k src=%d restored=%d)", head(d), si.Digest, gi.Digest, si.K, gi.K)
		}
	}
	if si.Digest != gi.Digest {
		return fmt.Sprintf("restored database differs logically from the source (k src=%d restored=%d)", si.K, gi.K)
	}
	return ""
}

func head(d []int) []int {
	if len(d) > 8 {
		return d[:8]
	}
	return d
}

// L0 lists the level-0 TXIDs on the replica.
func (e *Env) Listing(level int) []*ltx.FileInfo {
	c := file.NewReplicaClient(e.RepDir)
	itr, err := c.LTXFiles(e.Ctx, level, 0, false)
	if err != nil {
		return nil
	}
	defer itr.Close()
	var out []*ltx.FileInfo
	for itr.Next() {
		out = append(out, itr.Item())
	}
	return out
}

func (e *Env) LocalL0Count() int {
	ents, _ := os.ReadDir(e.LS.LTXLevelDir(0))
	n := 0
	for _, x := range ents {
		if strings.HasSuffix(x.Name(), ".ltx") {
			n++
		}
	}
	return n
}

var ErrSkip = errors.New("skip")
var quietOnce sync.Once

func fileClient(dir string) *file.ReplicaClient { return file.NewReplicaClient(dir) }

// Take exposes the captured log lines (debugging aid).
func (l *logCapture) Take() []string { return l.take() }
