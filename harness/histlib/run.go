package histlib

import (
	"database/sql"
	"errors"
	"fmt"
	"io"
	"log/slog"
	"os"
	"path/filepath"
	"strconv"
	"strings"
	"syscall"
	"time"

	"github.com/benbjohnson/litestream"
	"github.com/superfly/ltx"

	"verif/harness/hx"
)

// History is a configuration plus an operation list: the replay unit.
type History struct {
	Cfg Cfg  `json:"cfg"`
	Ops []Op `json:"ops"`
}

func (h History) String() string {
	s := make([]string, len(h.Ops))
	for i, o := range h.Ops {
		s[i] = o.String()
	}
	return fmt.Sprintf("ps=%d av=%s min=%d trunc=%d ivl=%d max=%d | %s", h.Cfg.PageSize, h.Cfg.AutoVacuum,
		h.Cfg.MinCheckpointPageN, h.Cfg.TruncatePageN, h.Cfg.CheckpointInterval, h.Cfg.MaxSyncWALBytes, strings.Join(s, " "))
}

// Fail is a property violation observed while running a history.
type Fail struct {
	Sig  string `json:"sig"`
	What string `json:"what"`
	At   int    `json:"at"` // op index
	// Verify is the most recent observation of verify (facts gathered from the files, decision of the real code) before the failure, if any.
	Verify *VerifyObs `json:"-"`
	// Earlier holds the signatures of the failures already recorded in this run (a later failure can be a consequence of an earlier one).
	Earlier []string `json:"-"`
	// EarlierAt holds the op index of each entry of Earlier.
	EarlierAt []int `json:"-"`
}

// Oracles selects which property oracles run.
type Oracles struct {
	AckRestore  bool // C01/C04: restore == source at every acknowledged instant
	NoStall     bool // C04: rsync ok => replica pos == db pos
	Ledger      bool // C02: every TXID restores to one ledger state, monotone; L0 gapless
	WalBound    bool // C13: live frames bounded after each successful sync
	IdleQuiet   bool // C13: idle syncs stop producing files
	StrictError bool // any litestream op error is reported (harness visibility)
	FinalSyncOK bool // C04/C03: the last SyncAndWait of a history (litestream up, nothing pinned) must succeed: replication resumes without manual intervention
	TraceCk     bool // record checkpointIfNeeded inputs/observed attempts per sync (C13 correspondence)
	TraceVerify bool // record verify inputs/decision before each sync (C04 correspondence)
	TraceL0     bool // describe every level-0 file litestream writes (C01/C02 correspondence)
	// Classify maps a failure to a signature refinement (known findings). Optional.
	Classify func(h History, at int, f *Fail)
}

// RunStats is what a run observed (for the input distribution).
type RunStats struct {
	Acks, Syncs, SnapshotSyncs, Checkpoints, Errors int
	Kinds                                           map[string]int
	ErrKinds                                        []string
	CkObs                                           []CkObs
	VerifyObs                                       []VerifyObs
	L0Obs                                           []L0Obs
	L0Skipped                                       int
	Outcomes                                        []string
}

func isLitestreamOp(k string) bool {
	switch k {
	case "sync", "rsync", "lckpt", "syncwait", "syncwaitreq", "snap", "snapfail", "lckptwin", "compact", "close", "down", "up", "upsame", "autorecover":
		return true
	}
	return false
}

// Run executes the history against real SQLite + real litestream and applies the oracles.
func Run(h History, or Oracles) (fails []Fail, st RunStats, err error) {
	st.Kinds = map[string]int{}
	e, err := NewEnv(h.Cfg)
	if err != nil {
		return nil, st, err
	}
	defer e.Destroy()
	add := func(at int, sig, what string) {
		f := Fail{Sig: sig, What: what, At: at}
		if n := len(st.VerifyObs); n > 0 {
			v := st.VerifyObs[n-1]
			f.Verify = &v
		}
		for _, p := range fails {
			f.Earlier = append(f.Earlier, p.Sig)
			f.EarlierAt = append(f.EarlierAt, p.At)
		}
		if or.Classify != nil {
			or.Classify(h, at, &f)
		}
		fails = append(fails, f)
	}
	lastSyncwait := -1
	for i, op := range h.Ops {
		if op.K == "syncwait" {
			lastSyncwait = i
		}
	}
	l0Seen := uint64(0)
	l0Commits := map[uint64]uint32{}
	for i, op := range h.Ops {
		st.Kinds[op.K]++
		if or.TraceL0 && (op.K == "down" || op.K == "crash" || op.K == "close" || op.K == "resetmeta" || op.K == "autorecover" || op.K == "up" || op.K == "upsame") {
			l0Seen, l0Commits = 0, map[uint64]uint32{} // local numbering may restart
		}
		if op.K == "idle" {
			if e.LS == nil {
				continue
			}
			counts := []int{}
			for j := 0; j < op.A; j++ {
				if err := e.LS.Sync(e.Ctx); err != nil {
					st.Errors++
					break
				}
				counts = append(counts, e.LocalL0Max())
			}
			st.Outcomes = append(st.Outcomes, fmt.Sprintf("idle%v", counts))
			if or.WalBound && len(counts) == op.A && op.A > 0 && e.Reader == nil && e.bgDone == nil {
				// the same bound holds after idle syncs: a threshold crossed while a reader pinned the WAL must be
				// honoured once the reader is gone, even if the application has gone idle
				w := ScanWAL(e.DBPath + "-wal")
				lowest := h.Cfg.MinCheckpointPageN
				tr := h.Cfg.TruncatePageN
				if tr == 0 {
					tr = litestream.DefaultTruncatePageN
				}
				if tr > 0 && tr < lowest {
					lowest = tr
				}
				if w.LiveFrames >= lowest+1 && lowest >= 1 {
					add(i, "wal-not-bounded-after-sync", fmt.Sprintf("after %d successful idle syncs with no pinned application transaction the live WAL holds %d frames, threshold %d (+1 bookkeeping)", op.A, w.LiveFrames, lowest))
				}
			}
			if or.IdleQuiet && len(counts) >= 4 {
				// at most a small constant number of further files, then none
				n := len(counts)
				if counts[n-1] != counts[n-2] || counts[n-2] != counts[n-3] {
					add(i, "idle-syncs-keep-creating-files", fmt.Sprintf("idle syncs keep creating LTX files: highest local L0 TXID after each idle sync %v", counts))
				} else if counts[n-1]-counts[0] > 3 {
					add(i, "idle-syncs-too-many-files", fmt.Sprintf("idle syncs created %d further files %v", counts[n-1]-counts[0], counts))
				}
			}
			continue
		}
		e.Logs.take()
		var ck *CkObs
		if or.TraceCk && op.K == "sync" && e.LS != nil && e.Reader == nil && h.Cfg.MaxSyncWALBytes == 0 && h.Cfg.CheckpointInterval == 0 && e.LS.SQLDB() != nil {
			ck = e.ckBefore()
		}
		if or.TraceVerify && (op.K == "sync" || op.K == "syncwait") && e.LS != nil {
			if ok, err := e.LS.VerifInit(e.Ctx); err != nil || !ok {
				// init fails or no database: the sync below reports it
			} else if vo := e.verifyObs(); vo != nil {
				st.VerifyObs = append(st.VerifyObs, *vo)
			}
		}
		out, ack := e.Exec(op)
		logs := e.Logs.take()
		if ck != nil && out == "ok" {
			for _, l := range logs {
				if strings.HasPrefix(l, "checkpoint mode=") {
					ck.Observed = append(ck.Observed, strings.TrimPrefix(strings.Fields(l)[1], "mode="))
				}
			}
			st.CkObs = append(st.CkObs, *ck)
		}
		for _, l := range logs {
			if strings.HasPrefix(l, "checkpoint") {
				st.Checkpoints++
			}
			if strings.HasPrefix(l, "sync") && strings.Contains(l, "snap=true") {
				st.SnapshotSyncs++
			}
		}
		if or.TraceL0 && e.LS != nil && isLitestreamOp(op.K) {
			obs, max, sk := e.collectL0(l0Seen, l0Commits)
			st.L0Obs = append(st.L0Obs, obs...)
			st.L0Skipped += sk
			l0Seen = max
		}
		st.Outcomes = append(st.Outcomes, out)
		if out != "ok" {
			st.Errors++
			st.ErrKinds = append(st.ErrKinds, op.K+" "+trunc(out, 70))
			if or.StrictError && isLitestreamOp(op.K) {
				add(i, "litestream-op-error", fmt.Sprintf("%s failed: %s", op, out))
			}
		}
		if or.FinalSyncOK && i == lastSyncwait && out != "ok" && e.LS != nil && e.Reader == nil && e.bgDone == nil {
			add(i, "sync-keeps-failing", fmt.Sprintf("the final SyncAndWait of the history fails (%s): replication does not resume without manual intervention", trunc(out, 200)))
		}
		if op.K == "sync" || op.K == "syncwait" || op.K == "syncwaitreq" {
			st.Syncs++
		}
		if ack {
			st.Acks++
			if or.AckRestore && e.bgDone == nil { // with a live writer the source keeps moving: compare at the next quiet acknowledgement
				if v := e.CheckRestoreEqualsSource(); v != "" {
					sig := "ack-restore-differs"
					if strings.HasPrefix(v, "RESTORE-ERROR") {
						sig = "ack-restore-fails"
					}
					add(i, sig, fmt.Sprintf("after acknowledged %s: %s", op, v))
				}
			}
		}
		if or.NoStall && op.K == "rsync" && out == "ok" && e.LS != nil {
			dp, err1 := e.LS.Pos()
			rp := e.LS.Replica.Pos()
			if err1 == nil && rp.TXID != dp.TXID {
				// a fresh look at the remote, not the cache
				max := ltx.TXID(0)
				for _, f := range e.Listing(0) {
					if f.MaxTXID > max {
						max = f.MaxTXID
					}
				}
				if max != dp.TXID {
					add(i, "replica-sync-ok-but-stalled", fmt.Sprintf("Replica.Sync returned nil but replica L0 max TXID %d != database TXID %d", max, dp.TXID))
				}
			}
		}
		if or.WalBound && (op.K == "sync" || op.K == "syncwait" || op.K == "syncwaitreq") && out == "ok" && e.Reader == nil && e.LS != nil {
			w := ScanWAL(e.DBPath + "-wal")
			lowest := h.Cfg.MinCheckpointPageN
			tr := h.Cfg.TruncatePageN
			if tr == 0 {
				tr = litestream.DefaultTruncatePageN
			}
			if tr > 0 && tr < lowest {
				lowest = tr
			}
			if w.LiveFrames >= lowest+1 && lowest >= 1 {
				add(i, "wal-not-bounded-after-sync", fmt.Sprintf("after successful %s with no pinned application transaction the live WAL holds %d frames, threshold %d (+1 bookkeeping)", op, w.LiveFrames, lowest))
			}
		}
	}
	if or.Ledger {
		for _, f := range CheckLedger(e) {
			add(len(h.Ops), f.Sig, f.What)
		}
	}
	return fails, st, nil
}

// LocalL0Max is the highest local level-0 TXID (the count of files ever created).
func (e *Env) LocalL0Max() int {
	if e.LS == nil {
		return 0
	}
	p, err := e.LS.Pos()
	if err != nil {
		return -1
	}
	return int(p.TXID)
}

// CheckLedger is the C02 oracle over the final replica: every TXID present at
// any level restores to exactly one ledger state; the map TXID -> commit is
// monotone; level-0 TXIDs are gapless (as a contiguous run).
func CheckLedger(e *Env) []Fail {
	var fails []Fail
	type item struct {
		txid ltx.TXID
	}
	seen := map[ltx.TXID]bool{}
	var txids []ltx.TXID
	for lvl := 0; lvl <= litestream.SnapshotLevel; lvl++ {
		fs := e.Listing(lvl)
		if lvl == 0 {
			for i := 1; i < len(fs); i++ {
				if fs[i].MinTXID != fs[i-1].MaxTXID+1 {
					fails = append(fails, Fail{Sig: "l0-gap", What: fmt.Sprintf("level-0 files not gapless: %s then %s", fs[i-1].MaxTXID, fs[i].MinTXID)})
				}
			}
		}
		for _, f := range fs {
			if !seen[f.MaxTXID] {
				seen[f.MaxTXID] = true
				txids = append(txids, f.MaxTXID)
			}
		}
	}
	for i := 1; i < len(txids); i++ {
		for j := i; j > 0 && txids[j] < txids[j-1]; j-- {
			txids[j], txids[j-1] = txids[j-1], txids[j]
		}
	}
	lastK := -1
	for _, n := range txids {
		img, err := e.Restore(n, time.Time{}, false)
		if err != nil {
			if errors.Is(err, litestream.ErrTxNotAvailable) || strings.Contains(err.Error(), "non-contiguous") {
				continue // pruned by retention: not restorable, not a wrong state
			}
			fails = append(fails, Fail{Sig: "txid-restore-error", What: fmt.Sprintf("restore to listed TXID %d failed: %v", n, err)})
			continue
		}
		ii, err := InspectImage(e.Dir, img)
		if err != nil {
			fails = append(fails, Fail{Sig: "txid-restore-unreadable", What: fmt.Sprintf("restore to TXID %d is not a readable database: %v", n, err)})
			continue
		}
		if ii.Integrity != "ok" {
			fails = append(fails, Fail{Sig: "txid-restore-integrity", What: fmt.Sprintf("restore to TXID %d fails integrity_check: %s", n, ii.Integrity)})
			continue
		}
		if ii.K < 0 || ii.K >= len(e.Ledger) || e.Ledger[ii.K] != ii.Digest {
			fails = append(fails, Fail{Sig: "txid-not-a-commit", What: fmt.Sprintf("restore to TXID %d is not the state after any application commit (ledger k=%d digest=%s, plan %s)", n, ii.K, ii.Digest, e.PlanText(n))})
			continue
		}
		if ii.LockRows != 0 {
			fails = append(fails, Fail{Sig: "txid-has-lock-row", What: fmt.Sprintf("restore to TXID %d contains a row in _litestream_lock", n)})
		}
		// "exactly one state": the same TXID through another plan — the level-0 chain alone
		// (when it still starts at 1) and each snapshot-level file ending at n alone.
		alts := map[string]func(int, *ltx.FileInfo) bool{}
		if l0 := e.Listing(0); len(l0) > 0 && l0[0].MinTXID == 1 {
			alts["the level-0 chain alone"] = func(lvl int, f *ltx.FileInfo) bool { return lvl == 0 }
		}
		for _, f := range e.Listing(litestream.SnapshotLevel) {
			if f.MaxTXID == n && f.MinTXID == 1 {
				alts["the snapshot-level file alone"] = func(lvl int, g *ltx.FileInfo) bool {
					return lvl == litestream.SnapshotLevel && g.MaxTXID == n
				}
			}
		}
		for _, name := range []string{"the level-0 chain alone", "the snapshot-level file alone"} {
			keep, ok := alts[name]
			if !ok {
				continue
			}
			img2, err := e.RestoreSubset(n, keep)
			if err != nil {
				continue // that view cannot reach n (retention, gap): no second plan
			}
			i2, err := InspectImage(e.Dir, img2)
			if err != nil || i2.Integrity != "ok" {
				fails = append(fails, Fail{Sig: "txid-two-states", What: fmt.Sprintf("TXID %d restored through %s is not a readable, consistent database (%v)", n, name, err)})
				continue
			}
			if i2.K != ii.K || i2.Digest != ii.Digest {
				fails = append(fails, Fail{Sig: "txid-two-states", What: fmt.Sprintf("TXID %d denotes two states: the default plan (%s) restores commit %d, %s restores commit %d", n, e.PlanText(n), ii.K, name, i2.K)})
			}
		}
		if ii.K < lastK {
			fails = append(fails, Fail{Sig: "txid-not-monotone", What: fmt.Sprintf("TXID %d maps to commit %d, earlier than commit %d of a lower TXID", n, ii.K, lastK)})
		}
		lastK = ii.K
	}
	return fails
}

// Shrink delta-debugs the op list while pred keeps holding.
func Shrink(h History, pred func(History) bool, budget int) History {
	cur := h
	n := 2
	for len(cur.Ops) >= 2 && budget > 0 {
		chunk := (len(cur.Ops) + n - 1) / n
		reduced := false
		for start := 0; start < len(cur.Ops) && budget > 0; start += chunk {
			end := start + chunk
			if end > len(cur.Ops) {
				end = len(cur.Ops)
			}
			cand := History{Cfg: cur.Cfg, Ops: append(append([]Op(nil), cur.Ops[:start]...), cur.Ops[end:]...)}
			budget--
			if pred(cand) {
				cur = cand
				if n > 2 {
					n--
				}
				reduced = true
				break
			}
		}
		if !reduced {
			if n >= len(cur.Ops) {
				break
			}
			n *= 2
			if n > len(cur.Ops) {
				n = len(cur.Ops)
			}
		}
	}
	return cur
}

// ---------------------------------------------------------------- generators

var PageSizes = []int{512, 1024, 2048, 4096, 8192, 16384, 32768, 65536}
var Modes = []string{"PASSIVE", "FULL", "RESTART", "TRUNCATE"}

func GenCfg(r *hx.Rand, thorough bool) Cfg {
	ps := []int{512, 4096, 1024}[r.Intn(3)]
	if thorough || r.Chance(15) {
		ps = PageSizes[r.Intn(len(PageSizes))]
	}
	c := Cfg{PageSize: ps, AutoVacuum: []string{"none", "none", "full", "incremental"}[r.Intn(4)]}
	c.MinCheckpointPageN = []int{2, 3, 5, 10, 50, 1000}[r.Intn(6)]
	c.TruncatePageN = []int{0, 0, 4, 20, 200}[r.Intn(5)]
	if r.Chance(25) {
		c.MaxSyncWALBytes = int64((24 + ps) * (1 + r.Intn(6)))
	}
	return c
}

func genAppOp(r *hx.Rand, ps int) Op {
	sz := []int{10, 100, ps / 2, ps + 50, 3 * ps}[r.Intn(5)]
	switch x := r.Intn(100); {
	case x < 40:
		return Op{K: "ins", A: 1 + r.Intn(8), B: sz}
	case x < 55:
		return Op{K: "upd", A: 1 + r.Intn(4), B: sz}
	case x < 65:
		return Op{K: "del", A: 1 + r.Intn(3), B: r.Intn(3)}
	case x < 72:
		return Op{K: "rb", A: 1 + r.Intn(4), B: sz}
	case x < 78:
		return Op{K: "ddl"}
	case x < 81:
		return Op{K: "drop"}
	case x < 86:
		return Op{K: "vac"}
	case x < 90:
		return Op{K: "incvac", A: 1 + r.Intn(6)}
	default:
		return Op{K: "actl", S: Modes[r.Intn(4)]}
	}
}

// GenC01 generates a history over the C01 operation set (litestream stays up).
func GenC01(r *hx.Rand, thorough bool) History {
	if r.Chance(6) {
		return genLongWALRace(r)
	}
	if r.Chance(6) {
		return genRestartIdleSnapshot(r)
	}
	if r.Chance(6) {
		return genCheckpointWindow(r)
	}
	h := History{Cfg: GenCfg(r, thorough)}
	n := 8 + r.Intn(25)
	reader := false
	for i := 0; i < n; i++ {
		switch x := r.Intn(100); {
		case x < 50:
			h.Ops = append(h.Ops, genAppOp(r, h.Cfg.PageSize))
		case x < 60:
			h.Ops = append(h.Ops, Op{K: "sync"})
		case x < 65:
			h.Ops = append(h.Ops, Op{K: "rsync"})
		case x < 80:
			h.Ops = append(h.Ops, Op{K: "syncwait"})
		case x < 82:
			h.Ops = append(h.Ops, Op{K: "syncwaitreq"})
		case x < 88:
			h.Ops = append(h.Ops, Op{K: "lckpt", S: Modes[r.Intn(4)]})
		case x < 92:
			if reader {
				h.Ops = append(h.Ops, Op{K: "rend"})
			} else {
				h.Ops = append(h.Ops, Op{K: "rbegin"})
			}
			reader = !reader
		case x < 94:
			h.Ops = append(h.Ops, Op{K: "close"}, Op{K: "up"})
		case x < 96:
			h.Ops = append(h.Ops, Op{K: "snap"})
		case x < 98:
			h.Ops = append(h.Ops, Op{K: "compact", A: 1 + r.Intn(2)})
		default:
			// litestream works while an application transaction is in flight or a writer is committing
			if r.Bool() {
				h.Ops = append(h.Ops, Op{K: "cwhold", A: 40 + r.Intn(200), B: 100})
			} else {
				h.Ops = append(h.Ops, Op{K: "cw", A: 4 + r.Intn(10), B: []int{10, h.Cfg.PageSize}[r.Intn(2)]})
			}
			for j, m := 0, 1+r.Intn(3); j < m; j++ {
				switch y := r.Intn(10); {
				case y < 4:
					h.Ops = append(h.Ops, Op{K: "lckpt", S: []string{"PASSIVE", "PASSIVE", "FULL", "RESTART", "TRUNCATE"}[r.Intn(5)]})
				case y < 8:
					h.Ops = append(h.Ops, Op{K: "sync"})
				default:
					h.Ops = append(h.Ops, Op{K: "snap"})
				}
			}
			h.Ops = append(h.Ops, Op{K: "cwait"}, Op{K: "syncwait"})
		}
	}
	if reader {
		h.Ops = append(h.Ops, Op{K: "rend"})
	}
	h.Ops = append(h.Ops, Op{K: "syncwait"})
	return h
}

func trunc(s string, n int) string {
	if len(s) > n {
		return s[:n]
	}
	return s
}

// downActivity is application activity while litestream is not running.
func downActivity(r *hx.Rand, ps int) []Op {
	var ops []Op
	n := r.Intn(5)
	for i := 0; i < n; i++ {
		switch x := r.Intn(100); {
		case x < 45:
			ops = append(ops, Op{K: "ins", A: 1 + r.Intn(6), B: []int{10, ps / 2, 3 * ps}[r.Intn(3)]})
		case x < 60:
			ops = append(ops, Op{K: "upd", A: 1 + r.Intn(3), B: []int{10, ps + 50}[r.Intn(2)]})
		case x < 68:
			ops = append(ops, Op{K: "del", A: 1 + r.Intn(3), B: r.Intn(3)})
		case x < 90:
			ops = append(ops, Op{K: "actl", S: Modes[r.Intn(4)]})
		case x < 95:
			ops = append(ops, Op{K: "aclose"})
		default:
			ops = append(ops, Op{K: "vac"})
		}
	}
	return ops
}

// GenC04 generates histories with disturbances: litestream stopped / crashed /
// restarted as a new or the same DB object while the application keeps
// writing, checkpointing, truncating or deleting the WAL; database file
// replaced; local state lost or reset.
// genResetAfterTruncateLagging: the replica lags local level-0 files whose transactions rewrite existing
// pages; litestream's own TRUNCATE checkpoint empties the WAL with the last sync at the exact WAL end; a
// run-time reset of the local state (auto-recover) on the live object; then a small write, so that the
// new WAL is shorter than the cursor recorded in the baseline file fetched from the replica. Continuity
// cannot be shown there (the in-memory state described the removed files): a snapshot is required.
func genResetAfterTruncateLagging(r *hx.Rand) History {
	ps := []int{1024, 4096}[r.Intn(2)]
	h := History{Cfg: Cfg{PageSize: ps, AutoVacuum: "none", MinCheckpointPageN: 100000, TruncatePageN: 500000}}
	h.Ops = append(h.Ops, Op{K: "ins", A: 20 + r.Intn(30), B: ps - ps/4}, Op{K: "syncwait"}, Op{K: "rsync"})
	for i, n := 0, 1+r.Intn(3); i < n; i++ {
		h.Ops = append(h.Ops, Op{K: "upd", A: 2 + r.Intn(4), B: ps / 2}, Op{K: "sync"})
	}
	h.Ops = append(h.Ops, Op{K: "lckpt", S: []string{"TRUNCATE", "TRUNCATE", "RESTART"}[r.Intn(3)]})
	h.Ops = append(h.Ops, Op{K: "autorecover"})
	h.Ops = append(h.Ops, Op{K: "ins", A: 1, B: 10})
	if r.Chance(30) {
		h.Ops = append(h.Ops, Op{K: "sync"}, Op{K: "ins", A: 1, B: 10})
	}
	h.Ops = append(h.Ops, Op{K: "syncwait"}, Op{K: "rsync"})
	for i, n := 0, r.Intn(3); i < n; i++ {
		h.Ops = append(h.Ops, genAppOp(r, ps))
	}
	h.Ops = append(h.Ops, Op{K: "syncwait"}, Op{K: "rsync"})
	return h
}

func GenC04(r *hx.Rand, thorough bool) History {
	if r.Chance(6) {
		return genResetAfterTruncateLagging(r)
	}
	h := History{Cfg: GenCfg(r, thorough)}
	h.Cfg.MaxSyncWALBytes = 0
	if r.Chance(70) {
		h.Cfg.MinCheckpointPageN = 1000 // keep litestream's own checkpoints out of the way most of the time
	}
	ps := h.Cfg.PageSize
	rounds := 1 + r.Intn(3)
	saved := false
	rawSaved := false
	for k := 0; k < rounds; k++ {
		for i, n := 0, 1+r.Intn(5); i < n; i++ {
			h.Ops = append(h.Ops, genAppOp(r, ps))
			if r.Chance(35) {
				h.Ops = append(h.Ops, Op{K: []string{"sync", "syncwait", "syncwait", "lckpt"}[r.Intn(4)], S: Modes[r.Intn(4)]})
			}
		}
		if r.Chance(70) {
			h.Ops = append(h.Ops, Op{K: "syncwait"})
		}
		if !saved && r.Chance(25) {
			h.Ops = append(h.Ops, Op{K: "save"})
			saved = true
		}
		if !rawSaved && r.Chance(20) {
			h.Ops = append(h.Ops, Op{K: "savefiles"})
			rawSaved = true
			for i, n := 0, 1+r.Intn(3); i < n; i++ {
				h.Ops = append(h.Ops, genAppOp(r, ps))
			}
			h.Ops = append(h.Ops, Op{K: "syncwait"})
		}
		switch x := r.Intn(100); {
		case x < 30: // clean stop, activity, new process
			h.Ops = append(h.Ops, Op{K: "down"})
			h.Ops = append(h.Ops, downActivity(r, ps)...)
			h.Ops = append(h.Ops, Op{K: "up"})
		case x < 50: // IPC stop/start of the same object
			h.Ops = append(h.Ops, Op{K: "down"})
			h.Ops = append(h.Ops, downActivity(r, ps)...)
			h.Ops = append(h.Ops, Op{K: "upsame"})
		case x < 70: // crash
			h.Ops = append(h.Ops, Op{K: "crash"})
			h.Ops = append(h.Ops, downActivity(r, ps)...)
			h.Ops = append(h.Ops, Op{K: "up"})
		case x < 78 && saved: // database replaced by an older version while down
			h.Ops = append(h.Ops, Op{K: "down"}, Op{K: "replace"})
			h.Ops = append(h.Ops, downActivity(r, ps)...)
			h.Ops = append(h.Ops, Op{K: "up"})
		case x < 84 && rawSaved: // database file and WAL rolled back to an earlier raw copy while down
			h.Ops = append(h.Ops, Op{K: "down"}, Op{K: "rollbackfiles"})
			h.Ops = append(h.Ops, downActivity(r, ps)...)
			h.Ops = append(h.Ops, Op{K: "up"})
		case x < 88: // local state directory lost while down
			h.Ops = append(h.Ops, Op{K: "down"})
			h.Ops = append(h.Ops, downActivity(r, ps)...)
			h.Ops = append(h.Ops, Op{K: "resetmeta"})
			if r.Chance(50) {
				// the replica cannot be read during the first initialisation after the loss (the baseline
				// cannot be fetched), then the fault goes away
				h.Ops = append(h.Ops, Op{K: "breakremote"}, Op{K: "up"}, Op{K: "sync"})
				if r.Chance(50) {
					h.Ops = append(h.Ops, Op{K: "sync"})
				}
				h.Ops = append(h.Ops, Op{K: "fixremote"})
			} else {
				h.Ops = append(h.Ops, Op{K: "up"})
			}
		case x < 94: // run-time reset (auto-recover)
			if r.Chance(50) {
				// the replica lags the local files (DB.Sync without Replica.Sync) and litestream restarts the WAL before the reset
				for i, n := 0, 1+r.Intn(3); i < n; i++ {
					h.Ops = append(h.Ops, genAppOp(r, ps), Op{K: "sync"})
				}
				h.Ops = append(h.Ops, Op{K: "lckpt", S: []string{"PASSIVE", "TRUNCATE", "RESTART"}[r.Intn(3)]})
				if r.Chance(50) {
					h.Ops = append(h.Ops, genAppOp(r, ps))
				}
			}
			h.Ops = append(h.Ops, Op{K: "autorecover"})
			if r.Chance(50) {
				// a transient replica fault during the first sync after the reset, then it goes away
				h.Ops = append(h.Ops, Op{K: "breakremote"}, Op{K: "sync"}, Op{K: "fixremote"})
			}
		default:
		}
		for i, n := 0, r.Intn(3); i < n; i++ {
			h.Ops = append(h.Ops, genAppOp(r, ps))
		}
		h.Ops = append(h.Ops, Op{K: "syncwait"}, Op{K: "rsync"})
	}
	return h
}

// GenC02 generates histories for the TXID/commit correspondence: litestream
// syncs, checkpoints, snapshots and compactions run while a concurrent
// application writer commits multi-statement transactions and rolls some back.
// genLongWALRace: a long replicated WAL (tens to hundreds of frames, small pages), then a
// RESTART/FULL checkpoint by litestream while a small application transaction is in flight and
// commits between the copy before the checkpoint and the checkpoint itself; then writes to other
// pages. The frame arithmetic that notices the racing commit depends on the WAL length.
func genLongWALRace(r *hx.Rand) History {
	ps := []int{512, 512, 1024, 4096}[r.Intn(4)]
	h := History{Cfg: Cfg{PageSize: ps, AutoVacuum: "none", MinCheckpointPageN: 100000, TruncatePageN: 500000}}
	batches := 2 + r.Intn(6)
	for i := 0; i < batches; i++ {
		h.Ops = append(h.Ops, Op{K: "ins", A: 4 + r.Intn(8), B: ps*2 + r.Intn(ps*2)})
		if r.Chance(60) {
			h.Ops = append(h.Ops, Op{K: "sync"})
		}
	}
	h.Ops = append(h.Ops, Op{K: "syncwait"})
	h.Ops = append(h.Ops, Op{K: "cwhold", A: 80 + r.Intn(250), B: []int{10, 10, 100}[r.Intn(3)]})
	h.Ops = append(h.Ops, Op{K: "lckpt", S: []string{"RESTART", "FULL", "RESTART", "TRUNCATE"}[r.Intn(4)]})
	h.Ops = append(h.Ops, Op{K: "cwait"})
	for i := 0; i < 1+r.Intn(3); i++ {
		h.Ops = append(h.Ops, genAppOp(r, ps))
		h.Ops = append(h.Ops, Op{K: "sync"})
	}
	if r.Chance(40) {
		h.Ops = append(h.Ops, Op{K: "snap"})
	}
	h.Ops = append(h.Ops, Op{K: "syncwait"})
	return h
}

// genRestartIdleSnapshot: litestream is restarted (new DB object) on a database whose replicated
// frames are still in the WAL, only idle syncs follow (the in-memory WAL position stays unset), then a
// snapshot is taken: its content must be the state of the TXID it is labelled with.
func genRestartIdleSnapshot(r *hx.Rand) History {
	ps := []int{512, 1024, 4096}[r.Intn(3)]
	h := History{Cfg: Cfg{PageSize: ps, AutoVacuum: "none", MinCheckpointPageN: 100000, TruncatePageN: 500000}}
	for i, n := 0, 1+r.Intn(4); i < n; i++ {
		h.Ops = append(h.Ops, genAppOp(r, ps))
		if r.Chance(50) {
			h.Ops = append(h.Ops, Op{K: "sync"})
		}
	}
	h.Ops = append(h.Ops, Op{K: "syncwait"})
	if r.Chance(50) {
		// a stale tail: the WAL grows, is checkpointed completely without being truncated and
		// restarts at frame 0, so the file is longer than its live frames
		h.Ops = append(h.Ops, Op{K: "ins", A: 4 + r.Intn(8), B: ps}, Op{K: "syncwait"},
			Op{K: "lckpt", S: Modes[r.Intn(3)]}, Op{K: "ins", A: 1, B: 10}, Op{K: "syncwait"})
	}
	h.Ops = append(h.Ops, Op{K: []string{"close", "down", "crash"}[r.Intn(3)]})
	h.Ops = append(h.Ops, Op{K: "up"})
	for i, n := 0, r.Intn(3); i < n; i++ {
		h.Ops = append(h.Ops, Op{K: "sync"})
	}
	if r.Chance(50) {
		// a commit the snapshot must not contain: nothing has synced it yet
		h.Ops = append(h.Ops, Op{K: "ins", A: 1 + r.Intn(2), B: []int{10, ps / 2}[r.Intn(2)]})
	}
	h.Ops = append(h.Ops, Op{K: "snap"})
	if r.Chance(50) {
		h.Ops = append(h.Ops, genAppOp(r, ps), Op{K: "sync"})
	}
	h.Ops = append(h.Ops, Op{K: "syncwait"})
	return h
}

// genCheckpointWindow: a long replicated WAL generation; litestream checkpoints (FULL/RESTART/
// TRUNCATE) and, inside the window between its PRAGMA and the re-acquisition of its read lock, the
// application commits a shorter transaction and runs its own complete RESTART checkpoint: a WAL
// generation litestream never saw is already in the database file when it looks again.
func genCheckpointWindow(r *hx.Rand) History {
	ps := []int{1024, 4096, 4096}[r.Intn(3)]
	h := History{Cfg: Cfg{PageSize: ps, AutoVacuum: "none", MinCheckpointPageN: 100000, TruncatePageN: 500000}}
	rows := 12 + r.Intn(30)
	h.Ops = append(h.Ops, Op{K: "ins", A: rows, B: ps - ps/4})
	if r.Chance(50) {
		h.Ops = append(h.Ops, Op{K: "sync"}, Op{K: "ins", A: 2 + r.Intn(4), B: ps / 2})
	}
	h.Ops = append(h.Ops, Op{K: "syncwait"})
	h.Ops = append(h.Ops, Op{K: "lckptwin", S: []string{"RESTART", "FULL", "RESTART", "TRUNCATE"}[r.Intn(4)], A: 3 + r.Intn(6), B: ps - ps/4})
	for i, n := 0, 1+r.Intn(3); i < n; i++ {
		h.Ops = append(h.Ops, genAppOp(r, ps))
		if r.Chance(50) {
			h.Ops = append(h.Ops, Op{K: "sync"})
		}
	}
	h.Ops = append(h.Ops, Op{K: "syncwait"})
	return h
}

func GenC02(r *hx.Rand, thorough bool) History {
	if r.Chance(15) {
		return genLongWALRace(r)
	}
	if r.Chance(12) {
		return genRestartIdleSnapshot(r)
	}
	h := History{Cfg: GenCfg(r, thorough)}
	ps := h.Cfg.PageSize
	n := 6 + r.Intn(18)
	writer := false
	for i := 0; i < n; i++ {
		if !writer && r.Chance(30) {
			h.Ops = append(h.Ops, Op{K: "cw", A: 3 + r.Intn(12), B: []int{10, ps / 2, ps + 50}[r.Intn(3)]})
			writer = true
			continue
		}
		if writer {
			switch x := r.Intn(100); {
			case x < 45:
				h.Ops = append(h.Ops, Op{K: "sync"})
			case x < 60:
				h.Ops = append(h.Ops, Op{K: "syncwait"})
			case x < 70:
				h.Ops = append(h.Ops, Op{K: "lckpt", S: Modes[r.Intn(4)]})
			case x < 77:
				h.Ops = append(h.Ops, Op{K: "snap"})
			case x < 84:
				h.Ops = append(h.Ops, Op{K: "compact", A: 1 + r.Intn(2)})
			case x < 90:
				h.Ops = append(h.Ops, Op{K: "sleep", A: 1 + r.Intn(4)})
			default:
				h.Ops = append(h.Ops, Op{K: "cwait"})
				writer = false
			}
			continue
		}
		switch x := r.Intn(100); {
		case x < 45:
			h.Ops = append(h.Ops, genAppOp(r, ps))
		case x < 65:
			h.Ops = append(h.Ops, Op{K: "sync"})
		case x < 80:
			h.Ops = append(h.Ops, Op{K: "syncwait"})
		case x < 87:
			h.Ops = append(h.Ops, Op{K: "lckpt", S: Modes[r.Intn(4)]})
		case x < 93:
			h.Ops = append(h.Ops, Op{K: "snap"})
		default:
			h.Ops = append(h.Ops, Op{K: "compact", A: 1 + r.Intn(2)})
		}
	}
	if writer {
		h.Ops = append(h.Ops, Op{K: "cwait"})
	}
	h.Ops = append(h.Ops, Op{K: "syncwait"})
	return h
}

// GenC13 generates write/sync histories followed by k idle syncs under
// configurations drawn around the WAL sizes the history produces.
func GenC13(r *hx.Rand, thorough bool) History {
	h := History{Cfg: GenCfg(r, thorough)}
	h.Cfg.MinCheckpointPageN = []int{1, 2, 3, 4, 8, 20, 1000}[r.Intn(7)]
	h.Cfg.TruncatePageN = []int{0, 0, 1, 2, 3, 6, 30}[r.Intn(7)]
	if r.Chance(30) {
		h.Cfg.CheckpointInterval = []int{1, 50, 100000}[r.Intn(3)]
	}
	ps := h.Cfg.PageSize
	n := 4 + r.Intn(16)
	for i := 0; i < n; i++ {
		switch x := r.Intn(100); {
		case x < 55:
			h.Ops = append(h.Ops, genAppOp(r, ps))
		case x < 90:
			h.Ops = append(h.Ops, Op{K: "sync"})
		case x < 94:
			h.Ops = append(h.Ops, Op{K: "syncwait"})
		case x < 97:
			h.Ops = append(h.Ops, Op{K: "snapfail", A: []int{0, 64, ps, 3 * ps}[r.Intn(4)]})
		default:
			h.Ops = append(h.Ops, Op{K: "sleep", A: 2})
		}
	}
	if r.Chance(12) {
		// the upload of a snapshot breaks off part-way; the application keeps writing past the
		// thresholds: every later successful sync must still leave the WAL bounded
		h.Ops = append(h.Ops, Op{K: "ins", A: 3 + r.Intn(4), B: ps}, Op{K: "sync"},
			Op{K: "snapfail", A: []int{0, 64, ps}[r.Intn(3)]})
		for i, k := 0, 2+r.Intn(4); i < k; i++ {
			h.Ops = append(h.Ops, Op{K: "ins", A: 2 + r.Intn(6), B: ps + r.Intn(2*ps)}, Op{K: "sync"})
		}
	}
	if r.Chance(10) {
		// a non-PASSIVE checkpoint that fails after its PRAGMA ran: the application holds the write lock
		// longer than litestream's busy timeout (PRAGMA wait + bookkeeping write wait); it then commits
		// and goes idle: one re-base snapshot, then silence
		h.Ops = append(h.Ops, Op{K: "sync"}, Op{K: "cwhold", A: 3000 + r.Intn(600), B: 10},
			Op{K: "lckpt", S: []string{"TRUNCATE", "RESTART", "FULL"}[r.Intn(3)]}, Op{K: "cwait"})
		if r.Chance(50) {
			// a snapshot is requested while the failed checkpoint is still unresolved (it is refused), then the
			// application writes past the thresholds again: later syncs must still checkpoint
			h.Ops = append(h.Ops, Op{K: "snap"})
			for i, k := 0, 2+r.Intn(3); i < k; i++ {
				h.Ops = append(h.Ops, Op{K: "ins", A: 2 + r.Intn(6), B: ps + r.Intn(2*ps)}, Op{K: "sync"})
			}
		}
		if r.Chance(50) {
			h.Ops = append(h.Ops, genAppOp(r, ps))
		}
		h.Ops = append(h.Ops, Op{K: "sync"})
	}
	if r.Chance(25) {
		// a reader pins the WAL while the application writes past the threshold; litestream syncs (its checkpoint
		// cannot restart the WAL); the reader goes away; the application goes idle
		h.Ops = append(h.Ops, Op{K: "sync"}, Op{K: "rbegin"})
		for i, k := 0, 2+r.Intn(4); i < k; i++ {
			h.Ops = append(h.Ops, Op{K: "ins", A: 2 + r.Intn(6), B: ps + r.Intn(2*ps)})
		}
		h.Ops = append(h.Ops, Op{K: "sync"})
		if r.Chance(40) {
			h.Ops = append(h.Ops, Op{K: "sync"})
		}
		h.Ops = append(h.Ops, Op{K: "rend"})
	}
	h.Ops = append(h.Ops, Op{K: "sync"}, Op{K: "idle", A: 6 + r.Intn(5)})
	return h
}

// PlanText renders the restore plan for a TXID (diagnostics).
func (e *Env) PlanText(n ltx.TXID) string {
	infos, err := litestream.CalcRestorePlan(e.Ctx, fileClient(e.RepDir), n, time.Time{}, slog.New(slog.NewTextHandler(io.Discard, nil)))
	if err != nil {
		return "err:" + err.Error()
	}
	var parts []string
	for _, f := range infos {
		parts = append(parts, fmt.Sprintf("L%d:%d-%d", f.Level, f.MinTXID, f.MaxTXID))
	}
	return strings.Join(parts, ",")
}

// FinalState is what the application can observe of the source at the end of a history.
type FinalState struct {
	Digest       string
	LockRows     int
	Integrity    string
	JournalMode  string
	HasSeq       bool
	HasLock      bool
	Tables       int
	FreshDigest  string // the same digest read through a connection opened after everything else finished (what any other process sees)
	FreshErr     string
	AppBlocked   []string // foreground application statements that failed with SQLITE_BUSY/locked while nothing else was running
	LocksDropped []string // litestream operations after which this process held no POSIX lock on the database file or its -shm any more, although it did before (a descriptor on that file was closed inside the process: every SQLite lock of the process on it is gone, silently)
	AppBusy      bool     // an application statement failed with SQLITE_BUSY/locked (it lost a race for a lock): the run is not the same application history as one where it succeeded
}

// RunFinal executes the history (ignoring litestream-only operations when
// cfg.NoLitestream) and reports the application-visible final state of the source.
func RunFinal(h History) (FinalState, RunStats, error) {
	var fs FinalState
	st := RunStats{Kinds: map[string]int{}}
	e, err := NewEnv(h.Cfg)
	if err != nil {
		return fs, st, err
	}
	defer e.Destroy()
	for _, op := range h.Ops {
		st.Kinds[op.K]++
		if op.K == "idle" {
			continue
		}
		if h.Cfg.NoLitestream && isLitestreamOp(op.K) {
			continue
		}
		watch := WatchLocks && !h.Cfg.NoLitestream && isLitestreamOp(op.K) && e.LS != nil && e.App != nil &&
			op.K != "close" && op.K != "down" && op.K != "crash" && op.K != "up" && op.K != "upsame"
		var lockedBefore [2]int
		if watch {
			lockedBefore = [2]int{PosixLocksOn(e.DBPath), PosixLocksOn(e.DBPath + "-shm")}
		}
		out, ack := e.Exec(op)
		if os.Getenv("VERIF_LOCKDBG") != "" {
			fmt.Fprintf(os.Stderr, "lockdbg %s -> %s db=%d shm=%d\n", op.String(), trunc(out, 40), PosixLocksOn(e.DBPath), PosixLocksOn(e.DBPath+"-shm"))
		}
		if watch && e.LS != nil && e.App != nil {
			for i, p := range []string{e.DBPath, e.DBPath + "-shm"} {
				if lockedBefore[i] > 0 && stablyUnlocked(p) {
					fs.LocksDropped = append(fs.LocksDropped, fmt.Sprintf("%s: %d POSIX lock(s) of this process on %s before, none after", op.String(), lockedBefore[i], filepath.Base(p)))
				}
			}
		}
		if ack {
			st.Acks++
		}
		if out != "ok" {
			st.Errors++
			st.ErrKinds = append(st.ErrKinds, op.K+" "+trunc(out, 70))
			if !isLitestreamOp(op.K) && isBusyText(out) {
				if e.bgDone != nil || op.K == "cwait" {
					fs.AppBusy = true // lost a race against the concurrent background writer / litestream working at the same time
				} else {
					// a foreground statement with nothing else running: litestream is idle at this point and must not hold a lock
					fs.AppBlocked = append(fs.AppBlocked, op.String()+": "+trunc(out, 80))
				}
			}
		}
	}
	if e.bgDone != nil {
		if err := <-e.bgDone; err != nil && isBusyText(err.Error()) {
			fs.AppBusy = true
		}
		e.bgDone = nil
	}
	e.endReader()
	if e.LS != nil {
		db := e.LS
		e.LS = nil
		if err := db.Close(e.Ctx); err != nil {
			st.Errors++
		}
	}
	if e.App == nil {
		if err := e.openApp(); err != nil {
			return fs, st, err
		}
	}
	if fs.Digest, err = UserDigest(e.App); err != nil {
		return fs, st, err
	}
	if fresh, err := sql.Open("sqlite", "file:"+e.DBPath+"?_pragma=busy_timeout(2000)"); err == nil {
		if d, err := UserDigest(fresh); err != nil {
			fs.FreshErr = err.Error()
		} else {
			fs.FreshDigest = d
		}
		fresh.Close()
	}
	_ = e.App.QueryRow("PRAGMA integrity_check").Scan(&fs.Integrity)
	_ = e.App.QueryRow("PRAGMA journal_mode").Scan(&fs.JournalMode)
	var n int
	if e.App.QueryRow("SELECT count(*) FROM sqlite_master WHERE name='_litestream_seq'").Scan(&n) == nil && n > 0 {
		fs.HasSeq = true
	}
	if e.App.QueryRow("SELECT count(*) FROM sqlite_master WHERE name='_litestream_lock'").Scan(&n) == nil && n > 0 {
		fs.HasLock = true
		_ = e.App.QueryRow("SELECT count(*) FROM _litestream_lock").Scan(&fs.LockRows)
	}
	_ = e.App.QueryRow("SELECT count(*) FROM sqlite_master WHERE type='table' AND name LIKE '\\_litestream\\_%' ESCAPE '\\' AND name NOT IN ('_litestream_audit')").Scan(&fs.Tables)
	return fs, st, nil
}

func isBusyText(s string) bool {
	s = strings.ToLower(s)
	return strings.Contains(s, "database is locked") || strings.Contains(s, "sqlite_busy") || strings.Contains(s, "database table is locked")
}

// GenC14 generates deterministic application histories with litestream activity in between.
// genOpenCloseUninitialised: litestream is opened and closed again without ever syncing (never
// initialised) while the application stays connected — with the WAL just truncated to zero bytes by an
// application checkpoint, or not — and the application keeps committing afterwards.
func genOpenCloseUninitialised(r *hx.Rand) History {
	ps := []int{512, 1024, 4096}[r.Intn(3)]
	h := History{Cfg: Cfg{PageSize: ps, AutoVacuum: "none", MinCheckpointPageN: 1000, TruncatePageN: 0}}
	h.Ops = append(h.Ops, genAppOp(r, ps), Op{K: "syncwait"}, Op{K: "down"})
	if r.Chance(70) {
		h.Ops = append(h.Ops, genAppOp(r, ps))
	}
	h.Ops = append(h.Ops, Op{K: "actl", S: []string{"TRUNCATE", "TRUNCATE", "RESTART", "PASSIVE"}[r.Intn(4)]})
	h.Ops = append(h.Ops, Op{K: "up"}, Op{K: "down"})
	for i, n := 0, 1+r.Intn(3); i < n; i++ {
		h.Ops = append(h.Ops, genAppOp(r, ps))
	}
	if r.Chance(50) {
		h.Ops = append(h.Ops, Op{K: "up"}, Op{K: "syncwait"})
	}
	return h
}

// genBusyRetryWindow: the application holds the write lock for between one and two of litestream's busy
// timeouts (1 s) while litestream checkpoints (write barrier / boundary lock insert into _litestream_lock
// waits, fails busy, and whatever retries runs while the lock is free again); then ordinary work.
func genBusyRetryWindow(r *hx.Rand) History {
	ps := 4096
	h := History{Cfg: Cfg{PageSize: ps, AutoVacuum: "none", MinCheckpointPageN: 100000, TruncatePageN: 500000}}
	h.Ops = append(h.Ops, Op{K: "ins", A: 5 + r.Intn(10), B: ps / 2}, Op{K: "syncwait"}, Op{K: "ins", A: 2, B: 100}, Op{K: "sync"})
	for i, n := 0, 1+r.Intn(2); i < n; i++ {
		h.Ops = append(h.Ops, Op{K: "cwhold", A: 1150 + r.Intn(700), B: 100},
			Op{K: "lckpt", S: []string{"PASSIVE", "PASSIVE", "TRUNCATE", "RESTART"}[r.Intn(4)]}, Op{K: "cwait"}, Op{K: "sync"})
	}
	h.Ops = append(h.Ops, genAppOp(r, ps), Op{K: "syncwait"})
	return h
}

func GenC14(r *hx.Rand, thorough bool) History {
	if r.Chance(8) {
		return genOpenCloseUninitialised(r)
	}
	if r.Chance(5) {
		return genBusyRetryWindow(r)
	}
	h := GenC01(r, thorough)
	// also exercise stop/start and snapshots/compactions more often
	var ops []Op
	inBg := false // a background writer is in flight: no foreground application op until cwait (it would race for the write lock differently in the control run)
	for _, op := range h.Ops {
		if op.K == "lckptwin" {
			// the control run skips litestream operations: keep the application's part as its own operations
			ops = append(ops, Op{K: "lckpt", S: op.S}, Op{K: "upd", A: op.A, B: op.B}, Op{K: "actl", S: "RESTART"})
			continue
		}
		ops = append(ops, op)
		switch op.K {
		case "cw", "cwhold":
			inBg = true
		case "cwait":
			inBg = false
		}
		if r.Chance(8) {
			ops = append(ops, Op{K: "lckpt", S: Modes[r.Intn(4)]})
		}
		if r.Chance(4) {
			ops = append(ops, Op{K: "snap"})
		}
		if r.Chance(4) {
			// checkpoints with nothing new to copy, then the application writes again
			m := Modes[r.Intn(4)]
			ops = append(ops, Op{K: "sync"}, Op{K: "lckpt", S: m}, Op{K: "lckpt", S: []string{"PASSIVE", m}[r.Intn(2)]})
			if !inBg {
				ops = append(ops, genAppOp(r, h.Cfg.PageSize))
			}
		}
		if r.Chance(6) {
			// a local storage fault while litestream checkpoints / syncs / snapshots, then it goes away
			ops = append(ops, Op{K: "blocktmp", A: 1 + r.Intn(3)})
			if !inBg && r.Chance(50) {
				ops = append(ops, genAppOp(r, h.Cfg.PageSize))
			}
			switch r.Intn(4) {
			case 0:
				ops = append(ops, Op{K: "sync"})
			case 1:
				ops = append(ops, Op{K: "snap"})
			default:
				ops = append(ops, Op{K: "lckpt", S: Modes[r.Intn(4)]})
			}
			if r.Chance(30) {
				ops = append(ops, Op{K: "lckpt", S: Modes[r.Intn(4)]})
			}
			ops = append(ops, Op{K: "unblocktmp"}, Op{K: "sync"})
		}
	}
	h.Ops = ops
	return h
}

// CkObs is one observation of checkpointIfNeeded: its inputs reconstructed
// independently of litestream (WAL scan, sync state before the call) and the
// checkpoint modes litestream actually executed.
type CkObs struct {
	Line     string   // driver line
	Observed []string // modes executed, in order
}

func b2i(b bool) int {
	if b {
		return 1
	}
	return 0
}

func (e *Env) ckBefore() *CkObs {
	st0 := e.LS.VerifSyncState()
	w := ScanWAL(e.DBPath + "-wal")
	if !w.Exists || w.PageSize == 0 {
		return nil
	}
	fs := int64(24 + w.PageSize)
	orig := st0.LastSyncedWALOffset
	if orig == 0 {
		orig = w.Size
	}
	newSz := st0.LastSyncedWALOffset
	end := int64(32) + int64(w.LastCommit)*fs
	synced := false
	if w.LastCommit > 0 && end != st0.LastSyncedWALOffset {
		newSz = end
		synced = true
	}
	if st0.LastSyncedWALOffset == 0 {
		return nil // first sync after start: verify decides (snapshot); not a steady-state observation
	}
	one := int64(32) + fs
	return &CkObs{Line: fmt.Sprintf("ck PS=%d MIN=%d TRUNC=%d IVL=0 LS=%d TPF=%d SSC=%d ORIG=%d NEW=%d AGE=0 O1=restarted:%d O2=restarted:%d",
		w.PageSize, e.Cfg.MinCheckpointPageN, e.Cfg.TruncatePageN, newSz, b2i(st0.TruncatePassiveFailed), b2i(st0.SyncedSinceCheckpoint || synced), orig, newSz, one, one)}
}

// VerifyObs is one observation of verify: the facts it depends on, gathered
// independently from the files, and the decision the real code took.
type VerifyObs struct {
	Line string
	Real string
}

// PosixLocksOn counts the POSIX (fcntl) locks this process holds on the file, from /proc/locks.
// -1 when the file or /proc/locks cannot be read (nothing is judged then).
func PosixLocksOn(path string) int {
	var st syscall.Stat_t
	if err := syscall.Stat(path, &st); err != nil {
		return -1
	}
	b, err := os.ReadFile("/proc/locks")
	if err != nil {
		return -1
	}
	pid := strconv.Itoa(os.Getpid())
	ino := ":" + strconv.FormatUint(st.Ino, 10)
	n := 0
	for _, line := range strings.Split(string(b), "\n") {
		f := strings.Fields(line)
		// "1: POSIX ADVISORY READ 1234 08:01:5678 0 EOF"
		if len(f) >= 8 && f[1] == "POSIX" && f[4] == pid && strings.HasSuffix(f[5], ino) {
			n++
		}
	}
	return n
}

// stablyUnlocked: /proc/locks is not an atomic snapshot (entries move while other threads of
// this process lock other files), so a lock counts as gone only if it stays gone.
func stablyUnlocked(path string) bool {
	for i := 0; i < 6; i++ {
		if PosixLocksOn(path) != 0 {
			return false
		}
		time.Sleep(3 * time.Millisecond)
	}
	return true
}

// WatchLocks turns the POSIX-lock observation of RunFinal on. Only meaningful while a single
// history runs in the process: /proc/locks read while other goroutines lock and unlock other
// database files is not reliable (entries of this process were seen to vanish for tens of ms).
var WatchLocks bool
