package histlib

import (
	"encoding/json"
	"fmt"
	"os"
	"path/filepath"
	"runtime"
	"sort"
	"strings"
	"sync"

	"verif/harness/hx"
)

// EngineSpec describes one history-engine check.
type EngineSpec struct {
	ID        string
	Gen       func(r *hx.Rand, thorough bool) History
	Oracles   Oracles
	NQuick    int
	NThorough int
	// Nontrivial decides whether a run counts as a non-trivial case.
	Nontrivial func(st RunStats) bool
	// Extra is called after each run (model correspondence etc.); it may add findings.
	Extra   func(h History, st RunStats, res *hx.Result, mu *sync.Mutex)
	Workers int
}

func LoadHistory(p string) (History, bool) {
	b, err := os.ReadFile(p)
	if err != nil {
		return History{}, false
	}
	var w struct {
		Replay struct {
			History History `json:"history"`
		} `json:"replay"`
	}
	if json.Unmarshal(b, &w) != nil || len(w.Replay.History.Ops) == 0 {
		return History{}, false
	}
	return w.Replay.History, true
}

func ReplayMain(o *hx.Opts, or Oracles) int {
	h, ok := LoadHistory(o.Replay)
	if !ok {
		fmt.Println("cannot read replay")
		return 3
	}
	fails, st, err := Run(h, or)
	fmt.Println("history:", h.String())
	fmt.Println("outcomes:", st.Outcomes, "err:", err)
	for _, f := range fails {
		fmt.Printf("FAIL at op %d [%s]: %s\n", f.At, f.Sig, f.What)
	}
	if len(fails) > 0 {
		return 1
	}
	return 0
}

// RunEngine runs corpus + generated histories in parallel, shrinks failures, records findings.
func RunEngine(o *hx.Opts, res *hx.Result, spec EngineSpec) {
	n := spec.NQuick
	if o.Tier == "thorough" {
		n = spec.NThorough
	}
	var hs []History
	if o.Corpus != "" {
		ents, _ := filepath.Glob(filepath.Join(o.Corpus, "*.json"))
		sort.Strings(ents)
		for _, p := range ents {
			if h, ok := LoadHistory(p); ok {
				hs = append(hs, h)
				res.Count("corpus")
			}
		}
	}
	rnd := hx.NewRand(o.Seed)
	for i := 0; i < n; i++ {
		hs = append(hs, spec.Gen(rnd.Fork(), o.Tier == "thorough"))
	}
	var mu sync.Mutex
	var wg sync.WaitGroup
	ch := make(chan History)
	workers := spec.Workers
	if workers == 0 {
		workers = runtime.NumCPU()
	}
	seenSig := map[string]int{}
	for w := 0; w < workers; w++ {
		wg.Add(1)
		go func() {
			defer wg.Done()
			for h := range ch {
				fails, st, err := Run(h, spec.Oracles)
				mu.Lock()
				if err != nil {
					res.Count("harness-error")
					mu.Unlock()
					continue
				}
				nt := st.Acks > 0
				if spec.Nontrivial != nil {
					nt = spec.Nontrivial(st)
				}
				res.Case(h.String(), nt)
				res.Count(fmt.Sprintf("ps:%d", h.Cfg.PageSize))
				res.Count("av:" + h.Cfg.AutoVacuum)
				for k, v := range st.Kinds {
					res.Distribution["op:"+k] += v
				}
				res.Distribution["acks"] += st.Acks
				res.Distribution["checkpoints-by-litestream"] += st.Checkpoints
				res.Distribution["snapshot-syncs"] += st.SnapshotSyncs
				res.Distribution["op-errors"] += st.Errors
				for _, ek := range st.ErrKinds {
					res.Distribution["err:"+ek]++
				}
				if res.Evaluations%40 == 1 {
					res.Sample(map[string]any{"history": h.String(), "acks": st.Acks, "outcomes": st.Outcomes})
				}
				mu.Unlock()
				if spec.Extra != nil {
					spec.Extra(h, st, res, &mu)
				}
				done := map[string]bool{}
				for _, f := range fails {
					sig := f.Sig
					if done[sig] {
						continue
					}
					done[sig] = true
					mu.Lock()
					seenSig[sig]++
					skip := seenSig[sig] > 3
					mu.Unlock()
					if skip {
						continue
					}
					sh := Shrink(h, func(c History) bool {
						fs, _, err := Run(c, spec.Oracles)
						if err != nil {
							return false
						}
						for _, g := range fs {
							if g.Sig == sig {
								return true
							}
						}
						return false
					}, 80)
					what := f.What
					if fs, _, err := Run(sh, spec.Oracles); err == nil {
						for _, g := range fs {
							if g.Sig == sig {
								what = g.What
							}
						}
					}
					mu.Lock()
					res.AddFinding("violation", spec.ID+"/"+sig, what, map[string]any{"history": sh, "text": sh.String(), "original": h})
					mu.Unlock()
				}
			}
		}()
	}
	for _, h := range hs {
		ch <- h
	}
	close(ch)
	wg.Wait()
}

// L0Extra compares every level-0 file litestream wrote with the page-level sync
// model (driver_c01): an incremental file must hold exactly the latest version
// of each page of its WAL segment trimmed to the final size; a snapshot file
// exactly the pages 1..commit without the lock page.
func L0Extra(o *hx.Opts, id string) func(h History, st RunStats, res *hx.Result, mu *sync.Mutex) {
	var drv *hx.Driver
	var once sync.Once
	return func(h History, st RunStats, res *hx.Result, mu *sync.Mutex) {
		once.Do(func() {
			d, err := hx.StartDriver(o.Driver)
			if err != nil {
				hx.Fatal(err)
			}
			drv = d
		})
		mu.Lock()
		defer mu.Unlock()
		res.Distribution["l0-files-skipped(wal-range-overwritten)"] += st.L0Skipped
		for _, ob := range st.L0Obs {
			model, err := drv.Ask(ob.Line)
			if err != nil {
				hx.Fatal(err)
			}
			res.Count("l0-file:" + ob.Kind)
			m := model
			if ob.Kind == "incr" {
				if strings.Contains(model, "segok=0") {
					res.Count("l0-file:segment-outside-SegOK(environment assumption)")
				}
				m = strings.Replace(strings.Replace(model, " segok=1", "", 1), " segok=0", "", 1)
			}
			if hx.Differs(ob.Real, m) && model != "-" {
				// A disagreement must reproduce to be reported: the history is run once more and its level-0
				// files are described and compared again. The description reads the live -wal file while a
				// concurrent application writer of the history may be appending to it, and histories with such
				// a writer are not deterministic; a mismatch seen once (vp check 5, C02, fresh sandbox) and not
				// again is counted below, visible in the evidence, and not raised.
				confirmed := false
				if _, st2, err := Run(h, Oracles{TraceL0: true}); err == nil {
					for _, ob2 := range st2.L0Obs {
						m2, err := drv.Ask(ob2.Line)
						if err != nil {
							hx.Fatal(err)
						}
						m2n := strings.Replace(strings.Replace(m2, " segok=1", "", 1), " segok=0", "", 1)
						if m2 != "-" && hx.Differs(ob2.Real, m2n) {
							confirmed = true
						}
					}
				}
				if !confirmed {
					res.Count("l0-file:disagreement-not-reproduced-on-rerun")
					res.Notes = append(res.Notes, fmt.Sprintf("level-0 file vs sync model differed once and not on the re-run of the same history: real %.300q model %.300q history %s", ob.Real, m, h.String()))
					continue
				}
				res.DisagreementsChecked++
				res.AddFinding("disagreement", id+"/l0-file-model-vs-impl", fmt.Sprintf("level-0 file differs from the sync model: real %.600q model %.600q", ob.Real, m),
					map[string]any{"history": h, "text": h.String(), "line": ob.Line, "real": ob.Real})
			}
		}
	}
}
