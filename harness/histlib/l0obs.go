package histlib

import (
	"encoding/binary"
	"errors"
	"fmt"
	"io"
	"os"
	"sort"
	"strings"

	"github.com/superfly/ltx"
)

// L0Obs is one level-0 file litestream wrote, described independently: the WAL
// frames of its range (grouped into transactions by the harness's own scanner)
// and the pages the real file holds.
type L0Obs struct {
	Line string // driver line (l0 … or snap …)
	Real string // what the real file holds, in the driver's output format
	Kind string // "incr" | "snap"
}

// collectL0 describes the local level-0 files with TXID > after.
func (e *Env) collectL0(after uint64, commits map[uint64]uint32) (obs []L0Obs, max uint64, skipped int) {
	max = after
	if e.LS == nil {
		return
	}
	dir := e.LS.LTXLevelDir(0)
	ents, _ := os.ReadDir(dir)
	var names []string
	for _, x := range ents {
		if strings.HasSuffix(x.Name(), ".ltx") {
			names = append(names, x.Name())
		}
	}
	sort.Strings(names)
	wal, _ := os.ReadFile(e.DBPath + "-wal")
	for _, n := range names {
		minT, maxT, err := ltx.ParseFilename(n)
		if err != nil || uint64(maxT) <= after {
			if err == nil {
				// remember commit of earlier files for PREV
				if _, ok := commits[uint64(maxT)]; !ok {
					if c, ok := headerCommit(dir + "/" + n); ok {
						commits[uint64(maxT)] = c
					}
				}
			}
			continue
		}
		_ = minT
		if uint64(maxT) > max {
			max = uint64(maxT)
		}
		f, err := os.Open(dir + "/" + n)
		if err != nil {
			skipped++
			continue
		}
		dec := ltx.NewDecoder(f)
		if err := dec.DecodeHeader(); err != nil {
			f.Close()
			skipped++
			continue
		}
		hdr := dec.Header()
		commits[uint64(maxT)] = hdr.Commit
		var pgs []string
		var pgnos []string
		buf := make([]byte, hdr.PageSize)
		bad := false
		for {
			var ph ltx.PageHeader
			if err := dec.DecodePage(&ph, buf); errors.Is(err, io.EOF) {
				break
			} else if err != nil {
				bad = true
				break
			}
			pgs = append(pgs, fmt.Sprintf("%d=%d", ph.Pgno, tok(buf)))
			pgnos = append(pgnos, fmt.Sprint(ph.Pgno))
		}
		f.Close()
		if bad {
			skipped++
			continue
		}
		lock := ltx.LockPgno(hdr.PageSize)
		want := int(hdr.Commit)
		if lock <= hdr.Commit {
			want--
		}
		if len(pgs) == want { // every page: a snapshot (or an incremental file that happens to touch every page)
			obs = append(obs, L0Obs{Kind: "snap", Line: fmt.Sprintf("snap LOCK=%d COMMIT=%d PG=%s", lock, hdr.Commit, strings.Join(pgnos, ",")), Real: "ok"})
			continue
		}
		prev, ok := commits[uint64(maxT)-1]
		if !ok {
			skipped++
			continue
		}
		// the WAL range of the file must still carry the file's salts (it may have been overwritten by a later restart)
		fs := int64(24 + hdr.PageSize)
		if hdr.WALOffset < 32 || hdr.WALSize <= 0 || (hdr.WALOffset-32)%fs != 0 || hdr.WALSize%fs != 0 || hdr.WALOffset+hdr.WALSize > int64(len(wal)) {
			skipped++
			continue
		}
		var seg []string
		var cur []string
		okRange := true
		for off := hdr.WALOffset; off < hdr.WALOffset+hdr.WALSize; off += fs {
			fr := wal[off : off+fs]
			if binary.BigEndian.Uint32(fr[8:]) != hdr.WALSalt1 || binary.BigEndian.Uint32(fr[12:]) != hdr.WALSalt2 {
				okRange = false
				break
			}
			cur = append(cur, fmt.Sprintf("%d=%d", binary.BigEndian.Uint32(fr[0:]), tok(fr[24:])))
			if c := binary.BigEndian.Uint32(fr[4:]); c != 0 {
				seg = append(seg, strings.Join(cur, ",")+fmt.Sprintf("@%d", c))
				cur = nil
			}
		}
		if !okRange || len(cur) != 0 || len(seg) == 0 {
			skipped++
			continue
		}
		obs = append(obs, L0Obs{Kind: "incr",
			Line: fmt.Sprintf("l0 LOCK=%d PREV=%d SEG=%s", lock, prev, strings.Join(seg, "|")),
			Real: fmt.Sprintf("ok commit=%d pages=%s", hdr.Commit, strings.Join(pgs, ","))})
	}
	return
}

func headerCommit(path string) (uint32, bool) {
	f, err := os.Open(path)
	if err != nil {
		return 0, false
	}
	defer f.Close()
	dec := ltx.NewDecoder(f)
	if err := dec.DecodeHeader(); err != nil {
		return 0, false
	}
	return dec.Header().Commit, true
}
