// Package prim is a small "primary": a real SQLite database (modernc driver)
// with real litestream DB/Replica over the file replica client, driven
// operation by operation, with compaction and retention run explicitly.
// Shared by the C16 (follow) and C18 (VFS) engines.
package prim

import (
	"context"
	"database/sql"
	"errors"
	"fmt"
	"io"
	"log/slog"
	"os"
	"path/filepath"
	"sort"
	"time"

	"github.com/benbjohnson/litestream"
	"github.com/benbjohnson/litestream/file"
	"github.com/superfly/ltx"
	_ "modernc.org/sqlite"

	"verif/harness/hx"
)

var Quiet = slog.New(slog.NewTextHandler(io.Discard, &slog.HandlerOptions{Level: slog.LevelError + 10}))

// Op is one step of a primary history (also the replay format).
type Op struct {
	K string `json:"k"`           // write|update|delete|shrink|vacuum|sync|compact|snapshot|retain|checkpoint
	A int    `json:"a,omitempty"` // rows / level / …
	B int    `json:"b,omitempty"`
}

func (o Op) String() string { return fmt.Sprintf("%s:%d:%d", o.K, o.A, o.B) }

type Cfg struct {
	PageSize   int  `json:"page_size"`
	AutoVacuum bool `json:"auto_vacuum"` // incremental
}

type Primary struct {
	Cfg    Cfg
	Dir    string
	DBPath string
	RepDir string
	App    *sql.DB
	LS     *litestream.DB
	Client *file.ReplicaClient
	Ctx    context.Context
	nextID int
}

func New(dir string, cfg Cfg) (*Primary, error) {
	p := &Primary{Cfg: cfg, Dir: dir, DBPath: filepath.Join(dir, "db"), RepDir: filepath.Join(dir, "replica"), Ctx: context.Background(), nextID: 1}
	app, err := sql.Open("sqlite", "file:"+p.DBPath+"?_pragma=busy_timeout(5000)&_pragma=wal_autocheckpoint(0)")
	if err != nil {
		return nil, err
	}
	app.SetMaxOpenConns(1)
	p.App = app
	av := 0
	if cfg.AutoVacuum {
		av = 2
	}
	for _, q := range []string{
		fmt.Sprintf("PRAGMA page_size = %d", cfg.PageSize),
		fmt.Sprintf("PRAGMA auto_vacuum = %d", av),
		"PRAGMA journal_mode = wal",
		"CREATE TABLE t (id INTEGER PRIMARY KEY, v BLOB)",
	} {
		if _, err := app.Exec(q); err != nil {
			p.Close()
			return nil, fmt.Errorf("%s: %w", q, err)
		}
	}
	db := litestream.NewDB(p.DBPath)
	db.Logger = Quiet
	db.MonitorInterval = 0
	db.L0Retention = time.Nanosecond
	p.Client = file.NewReplicaClient(p.RepDir)
	db.Replica = litestream.NewReplicaWithClient(db, p.Client)
	db.Replica.MonitorEnabled = false
	if err := db.Open(); err != nil {
		p.Close()
		return nil, err
	}
	p.LS = db
	return p, nil
}

func (p *Primary) Close() {
	if p.LS != nil {
		ctx, c := context.WithTimeout(context.Background(), 5*time.Second)
		p.LS.Close(ctx)
		c()
		p.LS = nil
	}
	if p.App != nil {
		p.App.Close()
		p.App = nil
	}
}

// Sync = db.Sync + Replica.Sync (an acknowledged sync).
func (p *Primary) Sync() error {
	if err := p.LS.Sync(p.Ctx); err != nil {
		return err
	}
	return p.LS.Replica.Sync(p.Ctx)
}

// Do executes one op. Errors that mean "nothing to do" are swallowed.
func (p *Primary) Do(o Op) error {
	switch o.K {
	case "write":
		tx, err := p.App.Begin()
		if err != nil {
			return err
		}
		for i := 0; i < o.A; i++ {
			if _, err := tx.Exec("INSERT INTO t (id, v) VALUES (?, randomblob(?))", p.nextID, o.B); err != nil {
				tx.Rollback()
				return err
			}
			p.nextID++
		}
		return tx.Commit()
	case "update":
		_, err := p.App.Exec("UPDATE t SET v = randomblob(?) WHERE id % ? = 0", o.B, max(o.A, 1))
		return err
	case "delete":
		_, err := p.App.Exec("DELETE FROM t WHERE id % ? = 0", max(o.A, 2))
		return err
	case "shrink": // delete most rows and give the pages back (auto_vacuum=incremental) — the file shrinks
		if _, err := p.App.Exec("DELETE FROM t WHERE id % ? != 0", max(o.A, 2)); err != nil {
			return err
		}
		_, err := p.App.Exec(fmt.Sprintf("PRAGMA incremental_vacuum(%d)", o.B))
		return err
	case "vacuum":
		_, err := p.App.Exec("VACUUM")
		return err
	case "sync":
		return p.Sync()
	case "checkpoint":
		mode := []string{litestream.CheckpointModePassive, litestream.CheckpointModeFull, litestream.CheckpointModeRestart, litestream.CheckpointModeTruncate}[o.A%4]
		if err := p.Sync(); err != nil {
			return err
		}
		if err := p.LS.Checkpoint(p.Ctx, mode); err != nil {
			return err
		}
		return p.Sync()
	case "compact":
		_, err := p.LS.Compact(p.Ctx, o.A)
		if errors.Is(err, litestream.ErrNoCompaction) {
			return nil
		}
		return err
	case "snapshot":
		if err := p.Sync(); err != nil {
			return err
		}
		_, err := p.LS.Snapshot(p.Ctx)
		return err
	case "retain": // snapshot retention "now": keep only the newest snapshot, prune lower levels below it
		minTXID, err := p.LS.EnforceSnapshotRetention(p.Ctx, time.Now().Add(time.Hour))
		if err != nil {
			return err
		}
		for lvl := 1; lvl <= o.A; lvl++ {
			if err := p.LS.EnforceRetentionByTXID(p.Ctx, lvl, minTXID); err != nil {
				return err
			}
		}
		return p.LS.EnforceL0RetentionByTime(p.Ctx)
	}
	return fmt.Errorf("unknown op %q", o.K)
}

// F is one listed replica file.
type F struct {
	L, Min, Max int
	Created     int64 // ms
	Size        int64
}

// Listing returns every file of the replica (levels 0..9), sorted by (level,min,max).
func Listing(client litestream.ReplicaClient) ([]F, error) {
	var out []F
	for lvl := 0; lvl <= litestream.SnapshotLevel; lvl++ {
		itr, err := client.LTXFiles(context.Background(), lvl, 0, false)
		if err != nil {
			return nil, err
		}
		for itr.Next() {
			i := itr.Item()
			out = append(out, F{L: lvl, Min: int(i.MinTXID), Max: int(i.MaxTXID), Created: i.CreatedAt.UnixMilli(), Size: i.Size})
		}
		err = itr.Err()
		itr.Close()
		if err != nil {
			return nil, err
		}
	}
	sort.Slice(out, func(a, b int) bool {
		x, y := out[a], out[b]
		if x.L != y.L {
			return x.L < y.L
		}
		if x.Min != y.Min {
			return x.Min < y.Min
		}
		return x.Max < y.Max
	})
	return out, nil
}

// FmtListing renders a listing in the driver's `F=` format (created relative to base ms).
func FmtListing(fs []F, base int64) string {
	s := ""
	for i, f := range fs {
		if i > 0 {
			s += ","
		}
		cr := f.Created - base
		if cr < 0 {
			cr = 0
		}
		s += fmt.Sprintf("%d:%d:%d:%d", f.L, f.Min, f.Max, cr)
	}
	return s
}

func MaxTXID(fs []F) int {
	m := 0
	for _, f := range fs {
		if f.Max > m {
			m = f.Max
		}
	}
	return m
}

// RestoreBytes runs the real ordinary Restore(TXID=txid) (0 = latest) from the replica directory.
func RestoreBytes(repDir, scratch string, txid int) ([]byte, error) {
	out := filepath.Join(scratch, fmt.Sprintf("restore-%d-%d", txid, time.Now().UnixNano()))
	defer os.Remove(out)
	r := litestream.NewReplicaWithClient(nil, file.NewReplicaClient(repDir))
	if err := r.Restore(context.Background(), litestream.RestoreOptions{OutputPath: out, TXID: ltx.TXID(txid)}); err != nil {
		return nil, err
	}
	return os.ReadFile(out)
}

// GenHistory draws a primary history: writes/updates/deletes/shrinks interleaved with syncs,
// compactions into L1/L2, snapshots and retention.
func GenHistory(rnd *hx.Rand, n int, cfg Cfg) []Op {
	var ops []Op
	for i := 0; i < n; i++ {
		switch k := rnd.Intn(100); {
		case k < 30:
			ops = append(ops, Op{K: "write", A: 1 + rnd.Intn(12), B: 100 + rnd.Intn(3000)}, Op{K: "sync"})
		case k < 40:
			ops = append(ops, Op{K: "update", A: 1 + rnd.Intn(5), B: 100 + rnd.Intn(3000)}, Op{K: "sync"})
		case k < 46:
			ops = append(ops, Op{K: "delete", A: 2 + rnd.Intn(4)}, Op{K: "sync"})
		case k < 54:
			if cfg.AutoVacuum {
				ops = append(ops, Op{K: "shrink", A: 2 + rnd.Intn(6), B: 1 + rnd.Intn(40)}, Op{K: "sync"})
			} else {
				ops = append(ops, Op{K: "vacuum"}, Op{K: "sync"})
			}
		case k < 58:
			ops = append(ops, Op{K: "vacuum"}, Op{K: "sync"})
		case k < 74:
			ops = append(ops, Op{K: "compact", A: 1})
		case k < 82:
			ops = append(ops, Op{K: "compact", A: 1}, Op{K: "compact", A: 2})
		case k < 88:
			ops = append(ops, Op{K: "snapshot"})
		case k < 93:
			ops = append(ops, Op{K: "retain", A: 2})
		default:
			ops = append(ops, Op{K: "checkpoint", A: rnd.Intn(4)})
		}
	}
	return ops
}
