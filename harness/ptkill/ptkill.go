//go:build linux && amd64

// Package ptkill is a ptrace-based supervisor: it runs a (multi-threaded) child
// process, observes every system call of every thread at syscall entry, keeps
// ONE GLOBAL counter of file-system-mutating calls under a root directory and
// SIGKILLs the whole child immediately before the k-th such call executes.
//
// Semantics of the kill point: calls 1..k-1 have been allowed to execute AND
// have returned (the supervisor drains counted calls that are still in flight
// on other threads before it kills; while draining, any further counted call of
// any thread is held at its entry stop and never executes); call k and
// everything after it never executes (a tracee that is SIGKILLed while it sits
// in a syscall-entry stop does not execute that syscall).
//
// Two tracing modes (chosen automatically, see the end of this file): plain
// PTRACE_SYSCALL (two stops per syscall of the child), and a seccomp-assisted
// mode in which only the decoded syscalls stop. NOTE: importing this package
// adds an init() that turns the importing binary into a tiny exec-launcher
// when the environment variable PTKILL_LAUNCH_TARGET is set.
package ptkill

import (
	"bytes"
	"errors"
	"fmt"
	"io"
	"os"
	"os/exec"
	"path/filepath"
	"runtime"
	"strconv"
	"strings"
	"sync"
	"syscall"
	"time"
	"unsafe"
)

// Call is one observed call.
type Call struct {
	Seq   int    `json:"seq"`             // 1-based index among counted calls; 0 for marks
	Sys   string `json:"sys"`             // syscall name, or "mark"
	Path  string `json:"path"`            // absolute path; for "mark": the sentinel's base name
	Path2 string `json:"path2,omitempty"` // rename target
	Flags int    `json:"flags,omitempty"` // openat flags (also: unlinkat / renameat2 flags)
}

// Options configures Run.
type Options struct {
	Argv           []string // program and arguments
	Env            []string // nil = os.Environ()
	Dir            string
	Root           string // only calls whose path (or either rename path) lies under Root are counted
	KillAt         int    // 0 = never kill (record only); k>0 = kill immediately before counted call number k executes
	Stdout, Stderr io.Writer
	Timeout        time.Duration // 0 = 120s; on timeout kill and return an error
}

// Result is the outcome of Run.
type Result struct {
	Calls        []Call // every counted call that was allowed to execute, and every mark, in global order
	Killed       bool   // the kill point was reached
	KilledBefore *Call  // the call that was about to execute (not executed)
	ExitCode     int    // child's exit code when it exited by itself (-1 if killed; 128+sig if it died of a signal)
	Total        int    // number of counted calls seen (executed ones; plus 0/1 pending)
}

// DrainGrace bounds how long the supervisor waits, at the kill point, for
// counted calls of other threads that are still in flight to return.
var DrainGrace = 3 * time.Second

const (
	wALL      = 0x40000000
	wNOTHREAD = 0x20000000

	ptraceGetSigInfo = 0x4202

	eventFork  = 1
	eventVfork = 2
	eventClone = 3
	eventExec  = 4
	eventSecc  = 7

	optSysGood  = 0x1
	optFork     = 0x2
	optVfork    = 0x4
	optClone    = 0x8
	optExec     = 0x10
	optSeccomp  = 0x80
	optExitKill = 0x100000

	atFDCWD  = -100
	maxStr   = 4096
	sysTrap  = syscall.SIGTRAP | 0x80
	negNoSys = ^uint64(38) + 1 // (uint64)(-ENOSYS)

	// amd64 syscall numbers
	nrWrite         = 1
	nrOpen          = 2
	nrPwrite64      = 18
	nrWritev        = 20
	nrSendfile      = 40
	nrTruncate      = 76
	nrFtruncate     = 77
	nrRename        = 82
	nrMkdir         = 83
	nrRmdir         = 84
	nrCreat         = 85
	nrUnlink        = 87
	nrPrctl         = 157
	nrOpenat        = 257
	nrMkdirat       = 258
	nrUnlinkat      = 263
	nrRenameat      = 264
	nrSplice        = 275
	nrFallocate     = 285
	nrPwritev       = 296
	nrProcessVMRead = 310
	nrRenameat2     = 316
	nrCopyFileRange = 326
	nrPwritev2      = 328
	nrOpenat2       = 437
)

type thread struct {
	inSys   bool // between a syscall-entry stop and the matching exit stop
	started bool // the initial stop of an auto-attached task has been consumed
	counted bool // the syscall in progress is a counted call that was allowed to run
	chkSecc bool // the syscall in progress is the launcher's prctl(PR_SET_SECCOMP)
}

type tracer struct {
	opt      Options
	root     string // clean absolute
	rootReal string // symlink-resolved (may equal root)
	markDir  [2]string

	pid     int
	threads map[int]*thread
	res     *Result
	seq     int

	inflight int
	draining bool
	dying    bool // SIGKILL has been sent; only reap from now on

	launching bool // the child is still the seccomp launcher (before its exec of the target)
	seccomp   bool // the filter is installed: tracees run under PTRACE_CONT and stop only for filtered syscalls

	mu         sync.Mutex
	mainReaped bool
	timedOut   bool

	buf []byte // heap scratch for process_vm_readv
	lnk []byte // scratch for readlink
}

// Run executes the child under supervision. All ptrace and wait4 calls are made
// from one dedicated locked OS thread, which is destroyed afterwards.
func Run(opt Options) (*Result, error) {
	if len(opt.Argv) == 0 {
		return nil, errors.New("ptkill: empty Argv")
	}
	if opt.Root == "" {
		return nil, errors.New("ptkill: empty Root")
	}
	type out struct {
		r   *Result
		err error
	}
	ch := make(chan out, 1)
	go func() {
		// Deliberately never unlocked: the thread dies with this goroutine, so
		// PTRACE_O_EXITKILL takes care of anything that could still be attached.
		runtime.LockOSThread()
		r, err := run(opt)
		ch <- out{r, err}
	}()
	o := <-ch
	return o.r, o.err
}

func run(opt Options) (*Result, error) {
	root, err := filepath.Abs(opt.Root)
	if err != nil {
		return nil, err
	}
	tr := &tracer{
		opt:     opt,
		root:    root,
		threads: map[int]*thread{},
		res:     &Result{ExitCode: -1},
		buf:     make([]byte, maxStr),
		lnk:     make([]byte, maxStr+64),
	}
	tr.rootReal = root
	if rr, err := filepath.EvalSymlinks(root); err == nil {
		tr.rootReal = rr
	}
	tr.markDir = [2]string{tr.root + "/.mark", tr.rootReal + "/.mark"}

	prog := opt.Argv[0]
	if strings.Contains(prog, "/") && !filepath.IsAbs(prog) && opt.Dir != "" {
		prog = filepath.Join(opt.Dir, prog) // like os/exec: relative to Dir
	}
	argv0, err := exec.LookPath(prog)
	if err == nil {
		argv0, err = filepath.Abs(argv0)
	}
	if err != nil {
		return nil, fmt.Errorf("ptkill: %w", err)
	}
	env := opt.Env
	if env == nil {
		env = os.Environ()
	}
	target := argv0
	if Seccomp {
		// Start this very binary; its init() (below) installs the filter and
		// execs the target. Falls back to plain PTRACE_SYSCALL tracing when the
		// filter cannot be installed or the launcher cannot be started.
		if exe, e := os.Executable(); e == nil {
			argv0 = exe
			tr.launching = true
		}
	}

	// stdio plumbing
	devnull, err := os.OpenFile(os.DevNull, os.O_RDWR, 0)
	if err != nil {
		return nil, err
	}
	defer devnull.Close()
	var copiers sync.WaitGroup
	var closeAfterStart, closeAtEnd []*os.File
	defer func() {
		for _, f := range closeAtEnd {
			f.Close()
		}
	}()
	mkOut := func(w io.Writer) (uintptr, error) {
		if w == nil {
			return devnull.Fd(), nil
		}
		if f, ok := w.(*os.File); ok {
			return f.Fd(), nil
		}
		pr, pw, err := os.Pipe()
		if err != nil {
			return 0, err
		}
		closeAfterStart = append(closeAfterStart, pw)
		closeAtEnd = append(closeAtEnd, pr)
		copiers.Add(1)
		go func() {
			defer copiers.Done()
			io.Copy(w, pr)
		}()
		return pw.Fd(), nil
	}
	fdOut, err := mkOut(opt.Stdout)
	if err == nil {
		var fdErr uintptr
		fdErr, err = mkOut(opt.Stderr)
		for err == nil {
			e := env
			if tr.launching {
				e = append(append([]string(nil), env...), launchEnv+"="+target)
			}
			tr.pid, err = syscall.ForkExec(argv0, opt.Argv, &syscall.ProcAttr{
				Dir:   opt.Dir,
				Env:   e,
				Files: []uintptr{devnull.Fd(), fdOut, fdErr},
				Sys:   &syscall.SysProcAttr{Ptrace: true, Setpgid: true},
			})
			if err == nil || !tr.launching {
				break
			}
			argv0, tr.launching, err = target, false, nil // launcher unusable: start the target directly
		}
	}
	for _, f := range closeAfterStart {
		f.Close()
	}
	runtime.KeepAlive(opt.Stdout)
	runtime.KeepAlive(opt.Stderr)
	if err != nil {
		copiers.Wait() // write ends are closed, copiers see EOF
		return nil, fmt.Errorf("ptkill: start %s: %w", argv0, err)
	}

	timeout := opt.Timeout
	if timeout == 0 {
		timeout = 120 * time.Second
	}
	timer := time.AfterFunc(timeout, func() {
		tr.mu.Lock()
		defer tr.mu.Unlock()
		if tr.mainReaped {
			return
		}
		tr.timedOut = true
		syscall.Kill(-tr.pid, syscall.SIGKILL)
		syscall.Kill(tr.pid, syscall.SIGKILL)
	})
	err = tr.loop()
	timer.Stop()

	// Wait for the output copiers; they end when every holder of the pipe's
	// write end is gone (bounded, in case something escaped the process group).
	done := make(chan struct{})
	go func() { copiers.Wait(); close(done) }()
	select {
	case <-done:
	case <-time.After(2 * time.Second):
		for _, f := range closeAtEnd {
			f.Close()
		}
		<-done
	}

	// A timeout that fires after the deliberate kill is harmless.
	if err == nil && tr.isTimedOut() && !tr.res.Killed {
		err = fmt.Errorf("ptkill: timeout after %v (%d counted calls seen)", timeout, tr.res.Total)
	}
	return tr.res, err
}

// killGuarded sends SIGKILL to the child's process group and to the child,
// unless the child has already been reaped (its pid may then be recycled).
func (tr *tracer) killGuarded() {
	tr.mu.Lock()
	defer tr.mu.Unlock()
	if tr.mainReaped {
		return
	}
	syscall.Kill(-tr.pid, syscall.SIGKILL)
	syscall.Kill(tr.pid, syscall.SIGKILL)
}

func (tr *tracer) loop() (err error) {
	pid := tr.pid
	var ws syscall.WaitStatus

	fail := func(e error) error {
		tr.dying = true
		tr.killGuarded()
		tr.reapAll()
		return e
	}

	// Initial stop: SIGTRAP after the exec done by ForkExec.
	for {
		_, e := syscall.Wait4(pid, &ws, wALL, nil)
		if e == syscall.EINTR {
			continue
		}
		if e != nil {
			return fail(fmt.Errorf("ptkill: initial wait4: %w", e))
		}
		break
	}
	if !ws.Stopped() {
		tr.mu.Lock()
		tr.mainReaped = true
		tr.mu.Unlock()
		return fmt.Errorf("ptkill: child did not stop after exec (status %#x)", uint32(ws))
	}
	const opts = optSysGood | optClone | optFork | optVfork | optExec | optSeccomp | optExitKill
	if e := syscall.PtraceSetOptions(pid, opts); e != nil {
		return fail(fmt.Errorf("ptkill: PTRACE_SETOPTIONS: %w", e))
	}
	tr.threads[pid] = &thread{started: true}
	if e := syscall.PtraceSyscall(pid, 0); e != nil {
		return fail(fmt.Errorf("ptkill: initial resume: %w", e))
	}

	for {
		wpid, e := syscall.Wait4(-pid, &ws, wALL|wNOTHREAD, nil)
		if e == syscall.EINTR {
			continue
		}
		if e == syscall.ECHILD {
			break
		}
		if e != nil {
			return fail(fmt.Errorf("ptkill: wait4: %w", e))
		}

		if ws.Exited() || ws.Signaled() {
			if t := tr.threads[wpid]; t != nil {
				if t.counted {
					tr.callDone()
				}
				delete(tr.threads, wpid)
			}
			if wpid == pid {
				tr.mu.Lock()
				// Clean up anything left in the group before the pid can be recycled.
				syscall.Kill(-pid, syscall.SIGKILL)
				tr.mainReaped = true
				tr.mu.Unlock()
				tr.dying = true
				if !tr.res.Killed {
					if ws.Exited() {
						tr.res.ExitCode = ws.ExitStatus()
					} else if !tr.isTimedOut() {
						tr.res.ExitCode = 128 + int(ws.Signal())
					}
				}
			}
			continue
		}
		if !ws.Stopped() {
			continue
		}
		if tr.dying {
			continue // SIGKILL is on its way; the stop ends by itself
		}

		t := tr.threads[wpid]
		if t == nil {
			// A new task may be seen before its creator's PTRACE_EVENT_CLONE.
			t = &thread{}
			tr.threads[wpid] = t
		}
		sig := ws.StopSignal()

		switch {
		case sig == sysTrap:
			t.started = true
			if t.inSys {
				// exit stop: no decoding
				t.inSys = false
				if t.counted {
					t.counted = false
					tr.callDone()
					if tr.dying {
						continue
					}
				}
				if t.chkSecc {
					t.chkSecc = false
					var r syscall.PtraceRegs
					if syscall.PtraceGetRegs(wpid, &r) == nil && r.Rax == 0 {
						tr.seccomp = true
					}
				}
				tr.resume(wpid, t, 0)
				continue
			}
			hold, e := tr.entry(wpid, t)
			if e != nil {
				return fail(e)
			}
			if !hold {
				tr.resume(wpid, t, 0)
			}

		case sig == syscall.SIGTRAP && ws.TrapCause() == eventSecc:
			t.started = true
			if t.inSys {
				tr.resume(wpid, t, 0) // already handled at the syscall-entry stop
				continue
			}
			hold, e := tr.entry(wpid, t)
			if e != nil {
				return fail(e)
			}
			if !t.counted {
				t.inSys = false // no exit stop wanted: PTRACE_CONT
			}
			if !hold {
				tr.resume(wpid, t, 0)
			}

		case sig == syscall.SIGTRAP && ws.TrapCause() > 0:
			t.started = true
			switch ws.TrapCause() {
			case eventClone, eventFork, eventVfork:
				if msg, e := syscall.PtraceGetEventMsg(wpid); e == nil {
					if nt := int(msg); nt > 0 && tr.threads[nt] == nil {
						tr.threads[nt] = &thread{}
					}
				}
			case eventExec:
				// tid is now the thread-group id; the former tid is gone. We are
				// inside execve, its exit stop follows.
				if msg, e := syscall.PtraceGetEventMsg(wpid); e == nil {
					if old := int(msg); old != wpid {
						if ot := tr.threads[old]; ot != nil {
							if ot.counted {
								tr.callDone()
							}
							t.inSys = ot.inSys
						}
						delete(tr.threads, old)
					}
				}
				if !tr.seccomp {
					t.inSys = true
				}
				t.counted, t.chkSecc = false, false
				if wpid == pid {
					tr.launching = false
				}
			}
			tr.resume(wpid, t, 0)

		default:
			if !t.started {
				t.started = true
				if sig == syscall.SIGSTOP {
					tr.resume(wpid, t, 0) // attach stop of a new task: swallow
					continue
				}
			}
			switch sig {
			case syscall.SIGSTOP, syscall.SIGTSTP, syscall.SIGTTIN, syscall.SIGTTOU:
				if isGroupStop(wpid) {
					tr.resume(wpid, t, 0)
					continue
				}
			}
			tr.resume(wpid, t, int(sig)) // genuine signal (SIGURG, SIGCHLD, ...): deliver it
		}
	}

	tr.mu.Lock()
	reaped := tr.mainReaped
	tr.mu.Unlock()
	if !reaped {
		// ECHILD although we never saw the child's exit: somebody else reaped it.
		tr.mu.Lock()
		tr.mainReaped = true
		tr.mu.Unlock()
		return errors.New("ptkill: child vanished (reaped elsewhere)")
	}
	return nil
}

func (tr *tracer) isTimedOut() bool {
	tr.mu.Lock()
	defer tr.mu.Unlock()
	return tr.timedOut
}

// reapAll collects every remaining task of the group (used on error paths).
func (tr *tracer) reapAll() {
	var ws syscall.WaitStatus
	for {
		wpid, e := syscall.Wait4(-tr.pid, &ws, wALL|wNOTHREAD, nil)
		if e == syscall.EINTR {
			continue
		}
		if e != nil {
			break
		}
		if wpid == tr.pid && (ws.Exited() || ws.Signaled()) {
			tr.mu.Lock()
			syscall.Kill(-tr.pid, syscall.SIGKILL)
			tr.mainReaped = true
			tr.mu.Unlock()
		}
	}
	tr.mu.Lock()
	tr.mainReaped = true
	tr.mu.Unlock()
}

func (tr *tracer) resume(tid int, t *thread, sig int) {
	// ESRCH: the task died under us (exit_group / SIGKILL of a sibling); its
	// exit status will be collected by wait4.
	if tr.seccomp && !t.inSys {
		_ = syscall.PtraceCont(tid, sig)
		return
	}
	_ = syscall.PtraceSyscall(tid, sig)
}

// callDone is invoked when a counted in-flight call has returned (or its
// thread is gone).
func (tr *tracer) callDone() {
	tr.inflight--
	if tr.draining && tr.inflight <= 0 && !tr.dying {
		tr.dying = true
		tr.killGuarded()
	}
}

func isGroupStop(tid int) bool {
	var si [128]byte
	_, _, e := syscall.Syscall6(syscall.SYS_PTRACE, ptraceGetSigInfo, uintptr(tid), 0, uintptr(unsafe.Pointer(&si[0])), 0, 0)
	return e == syscall.EINVAL
}

// entry handles a syscall-entry stop. hold=true means the tracee must not be resumed.
func (tr *tracer) entry(tid int, t *thread) (hold bool, err error) {
	var r syscall.PtraceRegs
	if e := syscall.PtraceGetRegs(tid, &r); e != nil {
		if e == syscall.ESRCH {
			return false, nil
		}
		return false, fmt.Errorf("ptkill: PTRACE_GETREGS(%d): %w", tid, e)
	}
	if r.Rax != negNoSys {
		// Not an entry stop after all (entry/exit bookkeeping slipped): this is
		// an exit. Stay in the "outside syscall" state.
		return false, nil
	}
	t.inSys = true

	var c Call
	counted := false
	switch r.Orig_rax {
	default:
		return false, nil

	case nrPrctl:
		if tr.launching && r.Rdi == prSetSeccomp {
			t.chkSecc = true
		}
		return false, nil

	case nrOpenat, nrOpen, nrCreat, nrOpenat2:
		dirfd, pptr, flags := int32(atFDCWD), r.Rdi, 0
		switch r.Orig_rax {
		case nrOpenat:
			dirfd, pptr, flags = int32(r.Rdi), r.Rsi, int(int32(r.Rdx))
		case nrOpen:
			flags = int(int32(r.Rsi))
		case nrCreat:
			flags = syscall.O_CREAT | syscall.O_WRONLY | syscall.O_TRUNC
		case nrOpenat2:
			dirfd, pptr = int32(r.Rdi), r.Rsi
			if n := tr.readMem(tid, r.Rdx, tr.buf[:8]); n == 8 {
				flags = int(int32(uint32(tr.buf[0]) | uint32(tr.buf[1])<<8 | uint32(tr.buf[2])<<16 | uint32(tr.buf[3])<<24))
			}
		}
		p, ok := tr.pathArg(tid, dirfd, pptr)
		if !ok {
			return false, nil
		}
		if tr.underMark(p) {
			tr.res.Calls = append(tr.res.Calls, Call{Sys: "mark", Path: filepath.Base(p)})
			return false, nil
		}
		if flags&(syscall.O_CREAT|syscall.O_TRUNC) == 0 || !tr.under(p) {
			return false, nil
		}
		name := "openat"
		switch r.Orig_rax {
		case nrOpen:
			name = "open"
		case nrCreat:
			name = "creat"
		}
		c, counted = Call{Sys: name, Path: p, Flags: flags}, true

	case nrWrite, nrPwrite64, nrWritev, nrPwritev, nrPwritev2, nrFtruncate, nrFallocate, nrSendfile:
		p, ok := tr.fdPath(tid, int32(r.Rdi))
		if !ok || !tr.under(p) {
			return false, nil
		}
		c, counted = Call{Sys: fdCallName(r.Orig_rax), Path: p}, true

	case nrCopyFileRange, nrSplice: // fd_out is the third argument
		p, ok := tr.fdPath(tid, int32(r.Rdx))
		if !ok || !tr.under(p) {
			return false, nil
		}
		c, counted = Call{Sys: fdCallName(r.Orig_rax), Path: p}, true

	case nrRename, nrRenameat, nrRenameat2:
		d1, p1, d2, p2 := int32(atFDCWD), r.Rdi, int32(atFDCWD), r.Rsi
		name, flags := "rename", 0
		if r.Orig_rax != nrRename {
			d1, p1, d2, p2 = int32(r.Rdi), r.Rsi, int32(r.Rdx), r.R10
			name = "renameat"
			if r.Orig_rax == nrRenameat2 {
				name, flags = "renameat2", int(int32(r.R8))
			}
		}
		a, ok1 := tr.pathArg(tid, d1, p1)
		b, ok2 := tr.pathArg(tid, d2, p2)
		if !(ok1 && tr.under(a)) && !(ok2 && tr.under(b)) {
			return false, nil
		}
		c, counted = Call{Sys: name, Path: a, Path2: b, Flags: flags}, true

	case nrUnlink, nrRmdir, nrMkdir, nrTruncate:
		p, ok := tr.pathArg(tid, atFDCWD, r.Rdi)
		if !ok || !tr.under(p) {
			return false, nil
		}
		name := "unlink"
		switch r.Orig_rax {
		case nrRmdir:
			name = "rmdir"
		case nrMkdir:
			name = "mkdir"
		case nrTruncate:
			name = "truncate"
		}
		c, counted = Call{Sys: name, Path: p}, true

	case nrUnlinkat, nrMkdirat:
		p, ok := tr.pathArg(tid, int32(r.Rdi), r.Rsi)
		if !ok || !tr.under(p) {
			return false, nil
		}
		if r.Orig_rax == nrUnlinkat {
			c = Call{Sys: "unlinkat", Path: p, Flags: int(int32(r.Rdx))}
		} else {
			c = Call{Sys: "mkdirat", Path: p}
		}
		counted = true
	}
	if !counted {
		return false, nil
	}

	if tr.draining {
		return true, nil // beyond the kill point: never executes
	}
	tr.seq++
	c.Seq = tr.seq
	tr.res.Total = tr.seq
	if tr.opt.KillAt > 0 && tr.seq == tr.opt.KillAt {
		kc := c
		tr.res.Killed = true
		tr.res.KilledBefore = &kc
		tr.res.ExitCode = -1
		if tr.inflight <= 0 {
			tr.dying = true
			tr.killGuarded()
		} else {
			// Let counted calls that are still executing on other threads finish.
			tr.draining = true
			time.AfterFunc(DrainGrace, tr.killGuarded)
		}
		return true, nil
	}
	tr.res.Calls = append(tr.res.Calls, c)
	if tr.opt.KillAt > 0 { // completion of the call only matters for draining
		t.counted = true
		tr.inflight++
	}
	return false, nil
}

func fdCallName(nr uint64) string {
	switch nr {
	case nrWrite:
		return "write"
	case nrPwrite64:
		return "pwrite64"
	case nrWritev:
		return "writev"
	case nrPwritev:
		return "pwritev"
	case nrPwritev2:
		return "pwritev2"
	case nrFtruncate:
		return "ftruncate"
	case nrFallocate:
		return "fallocate"
	case nrSendfile:
		return "sendfile"
	case nrCopyFileRange:
		return "copy_file_range"
	case nrSplice:
		return "splice"
	}
	return "?"
}

func (tr *tracer) under(p string) bool {
	return underDir(p, tr.root) || (tr.rootReal != tr.root && underDir(p, tr.rootReal))
}

func underDir(p, dir string) bool {
	return len(p) >= len(dir) && p[:len(dir)] == dir && (len(p) == len(dir) || p[len(dir)] == '/')
}

func (tr *tracer) underMark(p string) bool {
	for _, m := range tr.markDir {
		if len(p) > len(m)+1 && p[:len(m)] == m && p[len(m)] == '/' {
			return true
		}
	}
	return false
}

func (tr *tracer) readlink(path string) (string, bool) {
	n, err := syscall.Readlink(path, tr.lnk)
	if err != nil || n <= 0 {
		return "", false
	}
	return string(tr.lnk[:n]), true
}

// fdPath resolves an fd of the tracee to an absolute file-system path.
func (tr *tracer) fdPath(tid int, fd int32) (string, bool) {
	if fd < 0 {
		return "", false
	}
	s, ok := tr.readlink("/proc/" + strconv.Itoa(tid) + "/fd/" + strconv.Itoa(int(fd)))
	if !ok || s[0] != '/' {
		return "", false // pipe:[..], socket:[..], anon_inode:..
	}
	return strings.TrimSuffix(s, " (deleted)"), true
}

// pathArg reads a path argument and makes it absolute (lexically cleaned; no
// symlink resolution of the final components).
func (tr *tracer) pathArg(tid int, dirfd int32, addr uint64) (string, bool) {
	p, ok := tr.readString(tid, addr)
	if !ok || p == "" {
		return "", false
	}
	if p[0] == '/' {
		return filepath.Clean(p), true
	}
	var base string
	if dirfd == atFDCWD {
		base, ok = tr.readlink("/proc/" + strconv.Itoa(tid) + "/cwd")
		if ok {
			base = strings.TrimSuffix(base, " (deleted)")
		}
	} else {
		base, ok = tr.fdPath(tid, dirfd)
	}
	if !ok || base == "" || base[0] != '/' {
		return "", false
	}
	return filepath.Clean(base + "/" + p), true
}

type iovec struct{ base, len uintptr } // uintptr on purpose: remote addresses are not Go pointers

// readMem copies tracee memory into dst (which must be a slice of tr.buf, i.e.
// heap memory) and returns the number of bytes read.
func (tr *tracer) readMem(tid int, addr uint64, dst []byte) int {
	if len(dst) == 0 {
		return 0
	}
	l := iovec{uintptr(unsafe.Pointer(&dst[0])), uintptr(len(dst))}
	r := iovec{uintptr(addr), uintptr(len(dst))}
	n, _, e := syscall.Syscall6(nrProcessVMRead, uintptr(tid),
		uintptr(unsafe.Pointer(&l)), 1, uintptr(unsafe.Pointer(&r)), 1, 0)
	runtime.KeepAlive(dst)
	if e == 0 && int(n) > 0 {
		return int(n)
	}
	// Fallback: PTRACE_PEEKDATA, one word.
	k := len(dst)
	if k > 8 {
		k = 8
	}
	if m, err := syscall.PtracePeekData(tid, uintptr(addr), dst[:k]); err == nil && m > 0 {
		return m
	}
	return 0
}

// readString reads a NUL-terminated string (at most maxStr bytes) from the tracee.
func (tr *tracer) readString(tid int, addr uint64) (string, bool) {
	if addr == 0 {
		return "", false
	}
	var acc []byte
	for len(acc) < maxStr {
		n := 4096 - int(addr&4095) // never cross a page boundary in one read
		if n > maxStr-len(acc) {
			n = maxStr - len(acc)
		}
		got := tr.readMem(tid, addr, tr.buf[:n])
		if got <= 0 {
			return "", false
		}
		if i := bytes.IndexByte(tr.buf[:got], 0); i >= 0 {
			if acc == nil {
				return string(tr.buf[:i]), true
			}
			return string(append(acc, tr.buf[:i]...)), true
		}
		acc = append(acc, tr.buf[:got]...)
		addr += uint64(got)
	}
	return string(acc), true
}

// ---- seccomp acceleration ---------------------------------------------------
//
// With plain PTRACE_SYSCALL every syscall of the child costs two ptrace stops.
// When Seccomp is true, Run starts the current executable as a launcher
// (recognised in init below by the launchEnv variable); the launcher installs a
// seccomp filter returning SECCOMP_RET_TRACE for exactly the syscalls decoded
// above and then execs the real target with unchanged argv. The supervisor
// sees the prctl succeed and from then on resumes tracees with PTRACE_CONT, so
// only filtered syscalls stop (PTRACE_EVENT_SECCOMP), and only counted calls
// are followed to their exit stop.

// Seccomp enables the seccomp-accelerated mode (disable: PTKILL_NOSECCOMP=1).
var Seccomp = os.Getenv("PTKILL_NOSECCOMP") == ""

const (
	launchEnv       = "PTKILL_LAUNCH_TARGET"
	prSetSeccomp    = 22
	prSetNoNewPrivs = 38
)

var filtered = []uint32{nrWrite, nrOpen, nrPwrite64, nrWritev, nrSendfile, nrTruncate, nrFtruncate,
	nrRename, nrMkdir, nrRmdir, nrCreat, nrUnlink, nrOpenat, nrMkdirat, nrUnlinkat, nrRenameat,
	nrSplice, nrFallocate, nrPwritev, nrRenameat2, nrCopyFileRange, nrPwritev2, nrOpenat2}

type sockFilter struct {
	code   uint16
	jt, jf uint8
	k      uint32
}

type sockFprog struct {
	n      uint16
	filter *sockFilter
}

func init() {
	target := os.Getenv(launchEnv)
	if target == "" {
		return
	}
	// Package init runs on the main goroutine, which is locked to the main
	// thread: the filter is installed on the thread that execs.
	var env []string
	for _, e := range os.Environ() {
		if !strings.HasPrefix(e, launchEnv+"=") {
			env = append(env, e)
		}
	}
	n := len(filtered)
	prog := make([]sockFilter, 0, n+3)
	prog = append(prog, sockFilter{code: 0x20, k: 0}) // ld [seccomp_data.nr]
	for i, nr := range filtered {
		prog = append(prog, sockFilter{code: 0x15, jt: uint8(n - i), k: nr}) // jeq nr -> TRACE
	}
	prog = append(prog, sockFilter{code: 0x06, k: 0x7fff0000}) // ret ALLOW
	prog = append(prog, sockFilter{code: 0x06, k: 0x7ff00000}) // ret TRACE
	fp := sockFprog{n: uint16(len(prog)), filter: &prog[0]}
	syscall.RawSyscall6(syscall.SYS_PRCTL, prSetNoNewPrivs, 1, 0, 0, 0, 0)
	// On failure the supervisor notices and traces every syscall instead
	// (PTKILL_TEST_NOFILTER exercises that fallback).
	if os.Getenv("PTKILL_TEST_NOFILTER") == "" {
		syscall.RawSyscall6(syscall.SYS_PRCTL, prSetSeccomp, 2, uintptr(unsafe.Pointer(&fp)), 0, 0, 0)
	}
	runtime.KeepAlive(prog)
	err := syscall.Exec(target, os.Args, env)
	fmt.Fprintf(os.Stderr, "ptkill launcher: exec %s: %v\n", target, err)
	os.Exit(127)
}
