// Scenario child: runs scripted scenarios with the real litestream code in-process so
// that a supervisor can observe its system calls (strace/ptrace) and kill it anywhere.
//
//	scenario -name <scenario> -root <dir> -phase run|recover [-acked <txid>] [-seed <n>] [-rounds <n>]
//
// Every step is announced to the supervisor by opening a non-existent sentinel path
// <root>/.mark/<name> (the directory is never created, so the open always fails with
// ENOENT but is visible as an openat system call):
//
//	begin.<n>.<op> / ok.<n>.<op>.<txid> / fail.<n>.<op>   litestream operations
//	hbegin.<n> / hend.<n>                                  file-system actions of the scenario itself
//	abegin.<n> / aend.<n>                                  application-side SQL
//
// <n> is one running step counter shared by all three kinds (starts at 1).
package scn

import (
	"context"
	"database/sql"
	"encoding/json"
	"errors"
	"flag"
	"fmt"
	"io"
	"io/fs"
	"log/slog"
	"math/rand"
	"os"
	"path/filepath"
	"strings"
	"time"

	"github.com/benbjohnson/litestream"
	"github.com/benbjohnson/litestream/file"
	"github.com/superfly/ltx"
	_ "modernc.org/sqlite"
)

// setupError aborts phase run with a non-zero exit code (scenario's own failure).
type setupError struct{ err error }

func must(err error, what string) {
	if err != nil {
		panic(setupError{fmt.Errorf("%s: %w", what, err)})
	}
}

type runner struct {
	root      string
	rounds    int
	ctx       context.Context
	rng       *rand.Rand
	n         int // running step number
	app       *sql.DB
	nextID    int64
	db        *litestream.DB
	acked     []uint64 // replica TXIDs acknowledged by upload/syncandwait
	noInsert  bool
	maxSync   int64 // MaxSyncWALBytes mixed into every scenario by seed (0 = litestream default)
	snapFirst int
}

func (r *runner) srcPath() string            { return filepath.Join(r.root, "src", "db") }
func (r *runner) replicaDir() string         { return filepath.Join(r.root, "replica") }
func (r *runner) outPath(s string) string    { return filepath.Join(r.root, "out", s) }
func (r *runner) verifyPath(s string) string { return filepath.Join(r.root, "verify", s) }

// mark makes one openat(2) on a sentinel path that never exists.
func (r *runner) mark(name string) {
	if f, err := os.Open(filepath.Join(r.root, ".mark", name)); err == nil {
		_ = f.Close()
	}
}

type opLine struct {
	N    int    `json:"n"`
	Op   string `json:"op"`
	OK   bool   `json:"ok"`
	TXID uint64 `json:"txid"`
	Err  string `json:"err"`
}

func emit(v any) {
	b, _ := json.Marshal(v)
	_, _ = os.Stdout.Write(append(b, '\n'))
}

func (r *runner) begin(op string) int {
	r.n++
	r.mark(fmt.Sprintf("begin.%d.%s", r.n, op))
	return r.n
}

func (r *runner) end(n int, op string, txid uint64, err error) bool {
	lastErr = ""
	if err != nil {
		lastErr = err.Error()
		r.mark(fmt.Sprintf("fail.%d.%s", n, op))
		fmt.Fprintf(os.Stderr, "scenario: op %d %s failed: %v\n", n, op, err)
		emit(opLine{N: n, Op: op, TXID: 0, Err: err.Error()})
		return false
	}
	r.mark(fmt.Sprintf("ok.%d.%s.%d", n, op, txid))
	emit(opLine{N: n, Op: op, OK: true, TXID: txid})
	return true
}

// op runs one litestream operation between its marks. fn returns the TXID it acknowledges.
func (r *runner) op(name string, fn func() (uint64, error)) (uint64, error) {
	n := r.begin(name)
	txid, err := fn()
	r.end(n, name, txid, err)
	return txid, err
}

// hstep brackets file-system actions performed by the scenario itself.
func (r *runner) hstep(fn func()) {
	r.n++
	n := r.n
	r.mark(fmt.Sprintf("hbegin.%d", n))
	fn()
	r.mark(fmt.Sprintf("hend.%d", n))
}

// astep brackets application-side SQL.
func (r *runner) astep(fn func() error) error {
	r.n++
	n := r.n
	r.mark(fmt.Sprintf("abegin.%d", n))
	err := fn()
	r.mark(fmt.Sprintf("aend.%d", n))
	return err
}

// ---------------------------------------------------------------- application side

// openApp opens the application connection. busyTimeoutMS > 0 is used by phase recover
// only: a supervisor that does not reap the killed child before starting recover would
// otherwise race with the dying process's file locks.
func (r *runner) openApp(busyTimeoutMS int) error {
	return r.astep(func() error {
		app, err := sql.Open("sqlite", r.srcPath())
		if err != nil {
			return err
		}
		app.SetMaxOpenConns(1)
		r.app = app
		if busyTimeoutMS > 0 {
			if _, err := app.Exec(fmt.Sprintf(`PRAGMA busy_timeout=%d`, busyTimeoutMS)); err != nil {
				return err
			}
		}
		var mode string
		if err := app.QueryRow(`PRAGMA journal_mode=wal`).Scan(&mode); err != nil {
			return fmt.Errorf("journal_mode: %w", err)
		} else if mode != "wal" {
			return fmt.Errorf("journal_mode is %q", mode)
		}
		if _, err := app.Exec(`PRAGMA wal_autocheckpoint=0`); err != nil {
			return err
		}
		if _, err := app.Exec(`CREATE TABLE IF NOT EXISTS t(id integer primary key, v blob)`); err != nil {
			return err
		}
		return app.QueryRow(`SELECT coalesce(max(id),0)+1 FROM t`).Scan(&r.nextID)
	})
}

func (r *runner) blob() []byte {
	b := make([]byte, 200+r.rng.Intn(2801))
	_, _ = r.rng.Read(b)
	return b
}

// insert commits one application transaction: k new rows and sometimes an update.
func (r *runner) insertN(k int) error {
	return r.astep(func() error {
		tx, err := r.app.Begin()
		if err != nil {
			return err
		}
		for i := 0; i < k; i++ {
			if _, err := tx.Exec(`INSERT INTO t(id, v) VALUES(?, ?)`, r.nextID, r.blob()); err != nil {
				_ = tx.Rollback()
				return err
			}
			r.nextID++
		}
		if r.nextID > 3 && r.rng.Intn(3) == 0 {
			if _, err := tx.Exec(`UPDATE t SET v=? WHERE id=?`, r.blob(), 1+r.rng.Int63n(r.nextID-1)); err != nil {
				_ = tx.Rollback()
				return err
			}
		}
		return tx.Commit()
	})
}

func (r *runner) insert() { must(r.insertN(2+r.rng.Intn(3)), "app insert") }

// ---------------------------------------------------------------- litestream side

func (r *runner) newLS() {
	db := litestream.NewDB(r.srcPath())
	db.MonitorInterval = 0
	db.Replica = litestream.NewReplicaWithClient(db, file.NewReplicaClient(r.replicaDir()))
	db.Replica.MonitorEnabled = false
	if r.maxSync > 0 {
		db.MaxSyncWALBytes = r.maxSync
	}
	r.db = db
}

func (r *runner) dbTX() uint64 {
	pos, err := r.db.Pos()
	if err != nil {
		return 0
	}
	return uint64(pos.TXID)
}

func (r *runner) repTX() uint64 { return uint64(r.db.Replica.Pos().TXID) }

func (r *runner) opOpen() bool {
	_, err := r.op("open", func() (uint64, error) { return 0, r.db.Open() })
	return err == nil
}

func (r *runner) opSync() {
	r.op("sync", func() (uint64, error) {
		if err := r.db.Sync(r.ctx); err != nil {
			return 0, err
		}
		pos, err := r.db.Pos()
		return uint64(pos.TXID), err
	})
}

func (r *runner) opUpload() {
	if tx, err := r.op("upload", func() (uint64, error) {
		err := r.db.Replica.Sync(r.ctx)
		return r.repTX(), err
	}); err == nil {
		r.acked = append(r.acked, tx)
	}
}

func (r *runner) opSyncAndWait() {
	if tx, err := r.op("syncandwait", func() (uint64, error) {
		err := r.db.SyncAndWait(r.ctx)
		return r.repTX(), err
	}); err == nil {
		r.acked = append(r.acked, tx)
	}
}

func (r *runner) opCheckpoint(mode string) {
	r.op("checkpoint", func() (uint64, error) {
		err := r.db.Checkpoint(r.ctx, mode)
		return r.dbTX(), err
	})
}

func (r *runner) opClose() {
	r.op("close", func() (uint64, error) {
		err := r.db.Close(r.ctx)
		return r.repTX(), err
	})
}

func (r *runner) opCompact(level int) {
	r.op(fmt.Sprintf("compact%d", level), func() (uint64, error) {
		info, err := r.db.Compact(r.ctx, level)
		if err != nil {
			return 0, err
		}
		return uint64(info.MaxTXID), nil
	})
}

func (r *runner) opSnapshot() {
	r.op("snapshot", func() (uint64, error) {
		info, err := r.db.Snapshot(r.ctx)
		if err != nil {
			return 0, err
		}
		return uint64(info.MaxTXID), nil
	})
}

func (r *runner) removeOutput(path string) {
	r.hstep(func() {
		for _, sfx := range []string{"", "-wal", "-shm", "-txid", ".tmp", "-txid.tmp"} {
			if err := os.Remove(path + sfx); err != nil && !os.IsNotExist(err) {
				must(err, "remove old output")
			}
		}
	})
}

func (r *runner) opRestore(name, out string, txid uint64) error {
	r.removeOutput(out)
	_, err := r.op(name, func() (uint64, error) {
		opt := litestream.NewRestoreOptions()
		opt.OutputPath = out
		opt.TXID = ltx.TXID(txid)
		if err := r.db.Replica.Restore(r.ctx, opt); err != nil {
			return 0, err
		}
		if txid != 0 {
			return txid, nil
		}
		return r.repTX(), nil
	})
	return err
}

func (r *runner) syncUploadRounds(k int) {
	for i := 0; i < k; i++ {
		r.insert()
		r.opSync()
		r.opUpload()
	}
}

// ---------------------------------------------------------------- scenarios

func (r *runner) setupRun() {
	r.hstep(func() {
		for _, d := range []string{"src", "replica", "out", "verify"} {
			must(os.MkdirAll(filepath.Join(r.root, d), 0o755), "mkdir")
		}
	})
	must(r.openApp(0), "open app connection")
	r.newLS()
}

func (r *runner) scBasic() {
	if !r.opOpen() {
		return
	}
	r.syncUploadRounds(r.rounds)
	r.opCheckpoint(litestream.CheckpointModePassive)
	r.insert()
	r.opSyncAndWait()
	r.opCheckpoint(litestream.CheckpointModeTruncate)
	r.insert()
	r.opSyncAndWait()
	r.opClose()
}

func (r *runner) scCompact() {
	if !r.opOpen() {
		return
	}
	r.syncUploadRounds(2 * r.rounds)
	r.opCompact(1)
	r.syncUploadRounds(r.rounds)
	r.opCompact(1)
	r.opCompact(2)
	r.opSnapshot()
	r.syncUploadRounds(r.rounds)
	r.opSnapshot()

	// Retention, in the order and with the arguments Store.EnforceSnapshotRetention uses:
	// snapshot level by time, then every level > 0 by the returned minimum snapshot TXID.
	time.Sleep(20 * time.Millisecond) // all files are now strictly older than time.Now()
	var minSnap ltx.TXID
	r.op("retain-snapshots", func() (uint64, error) {
		tx, err := r.db.EnforceSnapshotRetention(r.ctx, time.Now())
		minSnap = tx
		return uint64(tx), err
	})
	r.db.L0Retention = time.Millisecond
	r.op("retain-l0", func() (uint64, error) {
		err := r.db.EnforceL0RetentionByTime(r.ctx)
		return r.dbTX(), err
	})
	for _, level := range []int{1, 2} {
		r.op("retain-txid", func() (uint64, error) {
			return uint64(minSnap), r.db.EnforceRetentionByTXID(r.ctx, level, minSnap)
		})
	}
	r.insert()
	r.opSyncAndWait()
	r.opClose()
}

// history shared by restore and follow: syncs, one snapshot in the middle, more syncs.
func (r *runner) restoreHistory() {
	r.syncUploadRounds(r.rounds)
	r.opSnapshot()
	r.syncUploadRounds(r.rounds)
}

func (r *runner) scRestore() {
	if !r.opOpen() {
		return
	}
	r.restoreHistory()
	_ = r.opRestore("restore", r.outPath("restored.db"), 0)
	var earlier uint64
	if len(r.acked) > 0 {
		earlier = r.acked[len(r.acked)/2]
	}
	if earlier == 0 {
		fmt.Fprintln(os.Stderr, "scenario: no acknowledged TXID for the second restore; skipping it")
	} else {
		_ = r.opRestore("restore", r.outPath("restored2.db"), earlier)
	}
	r.opClose()
}

func (r *runner) scFollow() {
	if !r.opOpen() {
		return
	}
	r.restoreHistory()
	out := r.outPath("restored.db")
	r.removeOutput(out)

	fctx, cancel := context.WithCancel(r.ctx)
	defer cancel()
	done := make(chan error, 1)
	n := r.begin("follow")
	go func() {
		opt := litestream.NewRestoreOptions()
		opt.OutputPath = out
		opt.Follow = true
		opt.FollowInterval = 30 * time.Millisecond
		done <- r.db.Replica.Restore(fctx, opt)
	}()

	for i := 0; i < 3; i++ {
		r.insert()
		r.opSyncAndWait()
	}

	target := r.repTX()
	var got uint64
	var ferr error
	returned := false
	deadline := time.Now().Add(5 * time.Second)
poll:
	for {
		if tx, err := litestream.ReadTXIDFile(out); err == nil {
			got = uint64(tx)
		}
		if got >= target || time.Now().After(deadline) {
			break
		}
		select {
		case ferr = <-done: // Restore returned by itself: always an error in follow mode
			returned = true
			break poll
		case <-time.After(15 * time.Millisecond):
		}
	}
	cancel()
	if !returned {
		ferr = <-done
	}
	if errors.Is(ferr, context.Canceled) {
		ferr = nil
	}
	if ferr == nil && got < target {
		ferr = fmt.Errorf("follower did not catch up within 5s: txid file %d < replica %d", got, target)
	}
	r.end(n, "follow", got, ferr)
	r.opClose()
}

func (r *runner) scBehind() {
	if !r.opOpen() {
		return
	}
	for i := 0; i < 3; i++ {
		r.insert()
		r.opSyncAndWait()
	}
	r.opClose()
	ltxDir := r.db.LTXDir()
	r.hstep(func() { must(os.RemoveAll(ltxDir), "remove ltx dir") })

	r.newLS()
	if !r.opOpen() {
		return
	}
	r.opSync() // runs checkDatabaseBehindReplica: fetches the latest L0 file from the replica
	r.insert()
	r.opSyncAndWait()
	r.opClose()
}

func (r *runner) scReopen() {
	if !r.opOpen() {
		return
	}
	for i := 0; i < r.rounds; i++ {
		r.insert()
		r.opSyncAndWait()
	}
	r.opClose()

	r.newLS()
	if !r.opOpen() {
		return
	}
	r.insert()
	r.opSyncAndWait()
	r.opCheckpoint(litestream.CheckpointModeTruncate)
	r.insert()
	r.opSyncAndWait()
	r.opClose()
}

// ---------------------------------------------------------------- phase recover

type recoverLine struct {
	Recover  string `json:"recover"`
	Stage    string `json:"stage,omitempty"`
	Detail   string `json:"detail,omitempty"`
	PagesSrc int64  `json:"page_count_src,omitempty"`
	PagesOut int64  `json:"page_count_restored,omitempty"`
	Rows     int    `json:"rows,omitempty"`
	LTXFiles int    `json:"ltx_files,omitempty"`
}

type stageError struct {
	stage string
	err   error
}

func stageErr(stage string, err error) *stageError {
	if err == nil {
		return nil
	}
	return &stageError{stage, err}
}

// verifyLTXTree fully decodes every *.ltx file below dir with the real decoder and
// checks that the file name agrees with the header.
func verifyLTXTree(dir string) (int, error) {
	count := 0
	err := filepath.WalkDir(dir, func(path string, d fs.DirEntry, err error) error {
		if err != nil {
			if os.IsNotExist(err) {
				return nil
			}
			return err
		}
		name := d.Name()
		if d.IsDir() || strings.HasSuffix(name, ".tmp") || !strings.HasSuffix(name, ".ltx") {
			return nil
		}
		f, err := os.Open(path)
		if err != nil {
			return err
		}
		defer f.Close()
		dec := ltx.NewDecoder(f)
		if err := dec.Verify(); err != nil {
			return fmt.Errorf("%s: %w", path, err)
		}
		minTXID, maxTXID, err := ltx.ParseFilename(name)
		if err != nil {
			return fmt.Errorf("%s: %w", path, err)
		}
		if hdr := dec.Header(); hdr.MinTXID != minTXID || hdr.MaxTXID != maxTXID {
			return fmt.Errorf("%s: header txid range %s-%s differs from file name", path, hdr.MinTXID, hdr.MaxTXID)
		}
		count++
		return nil
	})
	return count, err
}

func copyFile(src, dst string) error {
	in, err := os.Open(src)
	if err != nil {
		return err
	}
	defer in.Close()
	out, err := os.Create(dst)
	if err != nil {
		return err
	}
	if _, err := io.Copy(out, in); err != nil {
		_ = out.Close()
		return err
	}
	return out.Close()
}

func integrityCheck(conn *sql.DB) error {
	rows, err := conn.Query(`PRAGMA integrity_check`)
	if err != nil {
		return err
	}
	defer rows.Close()
	var msgs []string
	for rows.Next() {
		var s string
		if err := rows.Scan(&s); err != nil {
			return err
		}
		msgs = append(msgs, s)
	}
	if err := rows.Err(); err != nil {
		return err
	}
	if len(msgs) != 1 || msgs[0] != "ok" {
		return fmt.Errorf("integrity_check: %s", strings.Join(msgs, "; "))
	}
	return nil
}

func integrityCheckPath(path string) error {
	conn, err := sql.Open("sqlite", path)
	if err != nil {
		return err
	}
	defer conn.Close()
	conn.SetMaxOpenConns(1)
	return integrityCheck(conn)
}

func tableRows(conn *sql.DB) ([]string, error) {
	rows, err := conn.Query(`SELECT id, hex(v) FROM t ORDER BY id`)
	if err != nil {
		return nil, err
	}
	defer rows.Close()
	var a []string
	for rows.Next() {
		var id int64
		var v string
		if err := rows.Scan(&id, &v); err != nil {
			return nil, err
		}
		a = append(a, fmt.Sprintf("%d:%s", id, v))
	}
	return a, rows.Err()
}

func short(s string) string {
	if len(s) > 40 {
		return s[:40] + "..."
	}
	return s
}

func (r *runner) runRecover(acked uint64) (res recoverLine) {
	res.Recover = "ok"
	if _, err := os.Stat(r.srcPath()); os.IsNotExist(err) {
		return recoverLine{Recover: "no-db"}
	}
	if err := r.recoverStages(acked, &res); err != nil {
		res.Recover, res.Stage, res.Detail = "fail", err.stage, err.err.Error()
	}
	return res
}

func (r *runner) recoverStages(acked uint64, res *recoverLine) *stageError {
	must(os.MkdirAll(filepath.Join(r.root, "verify"), 0o755), "mkdir verify")

	// 1. every published LTX file decodes and is named after its header.
	for _, dir := range []string{r.replicaDir(), filepath.Join(r.root, "src", ".db-litestream", "ltx")} {
		n, err := verifyLTXTree(dir)
		res.LTXFiles += n
		if err != nil {
			return stageErr("ltx-verify", err)
		}
	}

	// 2. published restore outputs are sound (checked on a copy).
	for _, name := range []string{"restored.db", "restored2.db", "v3-snaponly.db", "v3-committed.db", "v3-hdronly.db", "v3-midtx.db", "v3-multi.db", "v3-multilast.db", "v3-tscut.db"} {
		out := r.outPath(name)
		if _, err := os.Stat(out); err != nil {
			continue
		}
		cp := r.verifyPath("copy-" + name)
		for _, sfx := range []string{"", "-wal", "-shm"} {
			_ = os.Remove(cp + sfx)
		}
		if err := copyFile(out, cp); err != nil {
			return stageErr("output-check", err)
		}
		if _, err := os.Stat(out + "-wal"); err == nil {
			if err := copyFile(out+"-wal", cp+"-wal"); err != nil {
				return stageErr("output-check", err)
			}
		}
		if err := integrityCheckPath(cp); err != nil {
			return stageErr("output-check", fmt.Errorf("%s: %w", name, err))
		}
	}
	for _, name := range []string{"restored.db", "restored2.db"} {
		if _, err := os.Stat(r.outPath(name) + "-txid"); err == nil {
			if _, err := litestream.ReadTXIDFile(r.outPath(name)); err != nil {
				return stageErr("txid-check", err)
			}
		}
	}

	// 3. the application comes back (SQLite recovers its WAL), litestream reopens on the same dirs.
	if err := r.openApp(5000); err != nil {
		return stageErr("open", fmt.Errorf("app connection: %w", err))
	}
	r.newLS()
	if !r.opOpen() {
		return stageErr("open", errors.New(lastErr))
	}
	defer func() {
		if err := r.db.Close(r.ctx); err != nil {
			fmt.Fprintf(os.Stderr, "scenario: close after recover: %v\n", err)
		}
	}()
	// Open must have cleared every staging file a kill left behind in the meta directory
	// (litestream.go removeTmpFiles, called from DB.Open): "needs no repair".
	var stale []string
	_ = filepath.WalkDir(filepath.Join(r.root, "src", ".db-litestream"), func(p string, d fs.DirEntry, err error) error {
		if err == nil && !d.IsDir() && strings.HasSuffix(p, ".tmp") {
			stale = append(stale, p)
		}
		return nil
	})
	if len(stale) > 0 {
		return stageErr("tmp-after-open", fmt.Errorf("staging files survive Open: %v", stale))
	}
	if se := r.retryRestores(); se != nil {
		return se
	}
	if r.snapFirst > 0 {
		if se := r.snapshotFirst(r.snapFirst - 1); se != nil {
			return se
		}
	}
	if !r.noInsert {
		if err := r.insertN(1); err != nil {
			return stageErr("syncandwait", fmt.Errorf("app insert: %w", err))
		}
	}
	r.opSyncAndWait()
	if lastErr != "" {
		return stageErr("syncandwait", errors.New(lastErr))
	}

	// 4. restore latest and compare user data with the source.
	latest := r.verifyPath("latest.db")
	if err := r.opRestore("restore", latest, 0); err != nil {
		return stageErr("restore", err)
	}
	rconn, err := sql.Open("sqlite", latest)
	if err != nil {
		return stageErr("compare", err)
	}
	defer rconn.Close()
	rconn.SetMaxOpenConns(1)
	if err := integrityCheck(rconn); err != nil {
		return stageErr("compare", fmt.Errorf("restored: %w", err))
	}
	want, err := tableRows(r.app)
	if err != nil {
		return stageErr("compare", fmt.Errorf("source rows: %w", err))
	}
	got, err := tableRows(rconn)
	if err != nil {
		return stageErr("compare", fmt.Errorf("restored rows: %w", err))
	}
	res.Rows = len(want)
	if len(want) != len(got) {
		return stageErr("compare", fmt.Errorf("row count: source %d, restored %d", len(want), len(got)))
	}
	for i := range want {
		if want[i] != got[i] {
			return stageErr("compare", fmt.Errorf("row %d differs: source %s, restored %s", i, short(want[i]), short(got[i])))
		}
	}
	_ = r.app.QueryRow(`PRAGMA page_count`).Scan(&res.PagesSrc)
	_ = rconn.QueryRow(`PRAGMA page_count`).Scan(&res.PagesOut)

	// 5. a TXID acknowledged before the kill is still restorable.
	if acked > 0 {
		path := r.verifyPath("acked.db")
		if err := r.opRestore("restore-acked", path, acked); err != nil {
			return stageErr("restore-acked", err)
		}
		if err := integrityCheckPath(path); err != nil {
			return stageErr("restore-acked", err)
		}
	}
	return nil
}

// lastErr holds the error text of the most recent operation ("" if it succeeded).
var lastErr string

// ---------------------------------------------------------------- main

// Main runs the scenario child with the given arguments (without the program name) and returns
// the exit code. The engines c11 and c03 re-execute themselves as `<engine> child <args>`.
func Main(args []string) int {
	fl := flag.NewFlagSet("scenario", flag.ContinueOnError)
	name := fl.String("name", "", "scenario: basic|compact|restore|follow|behind|reopen")
	root := fl.String("root", "", "scenario root directory")
	phase := fl.String("phase", "run", "run|recover|app")
	appSpec := fl.String("app", "", "phase app: pre=<n>,mode=<none|PASSIVE|FULL|RESTART|TRUNCATE>,post=<n>,close=<0|1>")
	snapFirst := fl.Int("snapfirst", 0, "phase recover: n>0 = before any new application write run n-1 idle syncs, then DB.Snapshot, restore and compare")
	noInsert := fl.Bool("noinsert", false, "phase recover: do not commit an application row before the first sync")
	acked := fl.Uint64("acked", 0, "phase recover: TXID acknowledged before the kill (0 = none)")
	seed := fl.Int64("seed", 1, "PRNG seed for row contents")
	rounds := fl.Int("rounds", 3, "number of insert+sync rounds")
	if err := fl.Parse(args); err != nil {
		return 2
	}
	if *root == "" || fl.NArg() != 0 || *rounds < 1 {
		fl.Usage()
		os.Exit(2)
	}
	absRoot, err := filepath.Abs(*root)
	if err != nil {
		fmt.Fprintln(os.Stderr, "scenario:", err)
		os.Exit(2)
	}

	// Loggers are captured by NewDB, so install the default before constructing anything.
	slog.SetDefault(slog.New(slog.NewTextHandler(os.Stderr, &slog.HandlerOptions{Level: slog.LevelWarn})))

	r := &runner{root: absRoot, rounds: *rounds, ctx: context.Background(), rng: rand.New(rand.NewSource(*seed))}

	scenarios := map[string]func(){
		"basic": r.scBasic, "compact": r.scCompact, "restore": r.scRestore,
		"follow": r.scFollow, "behind": r.scBehind, "reopen": r.scReopen, "restorev3": r.scRestoreV3,
		"pinned": r.scPinned, "ckptbusy": r.scCkptBusy, "restoreside": r.scRestoreSide, "republish": r.scRepublish, "l0ret": r.scL0Ret, "chunked": r.scChunked,
	}
	r.noInsert = *noInsert
	switch *seed % 4 { // mix a small sync budget into the ordinary scenarios
	case 0:
		r.maxSync = 16 << 10
	case 1:
		r.maxSync = 64 << 10
	}
	r.snapFirst = *snapFirst

	defer func() {
		if v := recover(); v != nil {
			if se, ok := v.(setupError); ok {
				fmt.Fprintln(os.Stderr, "scenario: setup error:", se.err)
				os.Exit(1)
			}
			panic(v)
		}
	}()

	switch *phase {
	case "run":
		sc, ok := scenarios[*name]
		if !ok {
			fmt.Fprintf(os.Stderr, "scenario: unknown scenario %q\n", *name)
			os.Exit(2)
		}
		r.setupRun()
		sc()
		if r.app != nil {
			_ = r.astep(r.app.Close)
		}
	case "app":
		return r.runApp(*appSpec)
	case "recover":
		res := r.runRecover(*acked)
		if r.app != nil {
			_ = r.app.Close()
		}
		emit(res)
	default:
		fl.Usage()
		os.Exit(2)
	}
	return 0
}
