package scn

import (
	"fmt"
	"io"
	"os"
	"path/filepath"
	"time"

	"github.com/benbjohnson/litestream"
	"github.com/benbjohnson/litestream/file"
	"github.com/pierrec/lz4/v4"
)

func writeLZ4(dst string, src []byte) error {
	if err := os.MkdirAll(filepath.Dir(dst), 0o755); err != nil {
		return err
	}
	f, err := os.Create(dst)
	if err != nil {
		return err
	}
	zw := lz4.NewWriter(f)
	if _, err := zw.Write(src); err != nil {
		f.Close()
		return err
	}
	if err := zw.Close(); err != nil {
		f.Close()
		return err
	}
	return f.Close()
}

// scRestoreV3: legacy v0.3.x replicas (generations/<gen>/snapshots|wal, lz4) laid out by the scenario
// itself from a real SQLite database and its real WAL files; the operations under observation are
// Replica.Restore (which detects the legacy layout: shouldUseV3Restore → RestoreV3) and RestoreV3 called
// directly. Variants: snapshot only; snapshot + WAL with committed frames; snapshot + a segment holding
// only the 32-byte WAL header; snapshot + frames that end in the middle of a transaction (no commit
// marker); two WAL indexes; two indexes where the last one has no commit; a timestamp that cuts the
// segment list to an uncommitted prefix.
func (r *runner) scRestoreV3() {
	const gen = "0000000000000001"
	const frame = 24 + 4096
	var snap, walA, walB []byte
	ckpt := func() {
		must(r.astep(func() error {
			_, err := r.app.Exec(`PRAGMA wal_checkpoint(TRUNCATE)`)
			return err
		}), "checkpoint source")
	}
	read := func(path string, dst *[]byte) {
		r.hstep(func() {
			b, err := os.ReadFile(path)
			must(err, "read "+path)
			*dst = b
		})
	}
	r.insert()
	r.insert()
	ckpt()
	read(r.srcPath(), &snap)
	r.bigTx(12) // ONE transaction of several frames: only its last frame carries the commit marker
	read(r.srcPath()+"-wal", &walA)
	ckpt()
	r.bigTx(12)
	r.insert()
	read(r.srcPath()+"-wal", &walB)
	if len(walA) < 32+2*frame || (len(walA)-32)%frame != 0 || len(walB) < 32+2*frame {
		must(fmt.Errorf("unexpected WAL sizes %d %d", len(walA), len(walB)), "v3 layout")
	}
	// first transaction of walB only, without its commit frame
	cutB := walB[:32+frame]
	type seg struct {
		index  int
		offset int64
		data   []byte
		age    time.Duration // mtime = base + age
	}
	type variant struct {
		name   string
		segs   []seg
		direct bool          // call RestoreV3 directly instead of Restore
		ts     time.Duration // restore timestamp = base + ts (0 = none)
	}
	vs := []variant{
		{name: "snaponly"},
		{name: "committed", segs: []seg{{0, 0, walA, time.Second}}},
		{name: "committed-direct", segs: []seg{{0, 0, walA, time.Second}}, direct: true},
		{name: "hdronly", segs: []seg{{0, 0, walA[:32], time.Second}}},
		{name: "hdronly-direct", segs: []seg{{0, 0, walA[:32], time.Second}}, direct: true},
		{name: "midtx", segs: []seg{{0, 0, walA[:len(walA)-frame], time.Second}}},
		{name: "multi", segs: []seg{{0, 0, walA, time.Second}, {1, 0, walB, 2 * time.Second}}},
		{name: "multilast", segs: []seg{{0, 0, walA, time.Second}, {1, 0, cutB, 2 * time.Second}}},
		{name: "tscut", segs: []seg{{0, 0, walA[:32+frame], time.Second}, {0, int64(32 + frame), walA[32+frame:], 10 * time.Second}}, ts: 5 * time.Second},
	}
	base := time.Now().Add(-time.Hour).Truncate(time.Second)
	for _, v := range vs {
		dir := filepath.Join(r.replicaDir(), "v3-"+v.name)
		out := r.outPath("v3-" + v.name + ".db")
		r.hstep(func() {
			sp := litestream.SnapshotPathV3(dir, gen, 0)
			must(writeLZ4(sp, snap), "write v3 snapshot")
			must(os.Chtimes(sp, base, base), "chtimes")
			for _, sg := range v.segs {
				wp := litestream.WALSegmentPathV3(dir, gen, sg.index, sg.offset)
				must(writeLZ4(wp, sg.data), "write v3 wal segment")
				must(os.Chtimes(wp, base.Add(sg.age), base.Add(sg.age)), "chtimes")
			}
		})
		r.removeOutput(out)
		rep := litestream.NewReplicaWithClient(nil, file.NewReplicaClient(dir))
		_, _ = r.op("restorev3", func() (uint64, error) {
			opt := litestream.NewRestoreOptions()
			opt.OutputPath = out
			if v.ts != 0 {
				opt.Timestamp = base.Add(v.ts)
			}
			if v.direct {
				return 0, rep.RestoreV3(r.ctx, opt)
			}
			return 0, rep.Restore(r.ctx, opt)
		})
		r.hstep(func() {
			if _, err := os.Stat(out); err == nil {
				if err := integrityCheckPath(out); err != nil {
					fmt.Fprintln(os.Stderr, "scenario: "+v.name+":", err)
				}
			}
		})
	}
	_ = io.Discard
}
