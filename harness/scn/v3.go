package scn

import (
	"fmt"
	"io"
	"os"
	"path/filepath"

	"github.com/benbjohnson/litestream"
	"github.com/benbjohnson/litestream/file"
	"github.com/pierrec/lz4/v4"
)

func writeLZ4(dst string, src []byte) error {
	if err := os.MkdirAll(filepath.Dir(dst), 0o755); err != nil {
		return err
	}
	f, err := os.Create(dst)
	if err != nil {
		return err
	}
	zw := lz4.NewWriter(f)
	if _, err := zw.Write(src); err != nil {
		f.Close()
		return err
	}
	if err := zw.Close(); err != nil {
		f.Close()
		return err
	}
	return f.Close()
}

// scRestoreV3: a legacy v0.3.x replica (one generation: snapshot index 0 + one WAL segment 0/0) is laid
// out by the scenario itself from a real SQLite database and its real WAL; the operation under
// observation is Replica.Restore, which detects the legacy layout and runs RestoreV3
// (downloadSnapshotV3 + applyWALSegmentsV3 → SQLite checkpoint into the staging file, rename, FsyncDir).
func (r *runner) scRestoreV3() {
	const gen = "0000000000000001"
	var snap, wal []byte
	r.insert()
	r.insert()
	must(r.astep(func() error {
		_, err := r.app.Exec(`PRAGMA wal_checkpoint(TRUNCATE)`)
		return err
	}), "checkpoint source")
	r.hstep(func() {
		b, err := os.ReadFile(r.srcPath())
		must(err, "read source db")
		snap = b
	})
	for i := 0; i < r.rounds; i++ {
		r.insert()
	}
	r.hstep(func() {
		b, err := os.ReadFile(r.srcPath() + "-wal")
		must(err, "read source wal")
		wal = b
		must(writeLZ4(litestream.SnapshotPathV3(r.replicaDir(), gen, 0), snap), "write v3 snapshot")
		must(writeLZ4(litestream.WALSegmentPathV3(r.replicaDir(), gen, 0, 0), wal), "write v3 wal segment")
	})
	if len(wal) == 0 {
		must(fmt.Errorf("empty WAL"), "v3 layout")
	}
	out := r.outPath("restored3.db")
	r.removeOutput(out)
	rep := litestream.NewReplicaWithClient(nil, file.NewReplicaClient(r.replicaDir()))
	_, _ = r.op("restorev3", func() (uint64, error) {
		opt := litestream.NewRestoreOptions()
		opt.OutputPath = out
		return 0, rep.Restore(r.ctx, opt)
	})
	// the restored database must hold what the source holds (scenario-level sanity, reported on stderr)
	r.hstep(func() {
		if _, err := os.Stat(out); err == nil {
			if err := integrityCheckPath(out); err != nil {
				fmt.Fprintln(os.Stderr, "scenario: restored3.db:", err)
			}
		}
	})
	_ = io.Discard
}
