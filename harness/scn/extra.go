package scn

import (
	"context"
	"database/sql"
	"errors"
	"fmt"
	"os"
	"path/filepath"
	"strconv"
	"strings"
	"sync"
	"time"

	"github.com/benbjohnson/litestream"
	"github.com/benbjohnson/litestream/file"
	"github.com/superfly/ltx"
)

// pinReader opens a second application connection and starts a read transaction on the current
// snapshot: SQLite can then not backfill past that snapshot, so a checkpoint cannot restart the WAL.
func (r *runner) pinReader() (release func()) {
	var rd *sql.DB
	var tx *sql.Tx
	must(r.astep(func() error {
		var err error
		if rd, err = sql.Open("sqlite", r.srcPath()); err != nil {
			return err
		}
		rd.SetMaxOpenConns(1)
		if tx, err = rd.Begin(); err != nil {
			return err
		}
		var n int
		return tx.QueryRow(`SELECT count(*) FROM t`).Scan(&n)
	}), "pin reader")
	return func() {
		_ = r.astep(func() error {
			_ = tx.Rollback()
			return rd.Close()
		})
	}
}

// scPinned: checkpoints that copy new frames but cannot restart the WAL because an application
// read transaction is open: explicit PASSIVE, the page-threshold PASSIVE inside Sync, then
// FULL / RESTART / TRUNCATE with the reader (busy or partial), then the same without the reader.
func (r *runner) scPinned() {
	r.db.MinCheckpointPageN = 4 // threshold PASSIVE checkpoint inside Sync once the WAL holds ~4 pages
	r.db.BusyTimeout = 100 * time.Millisecond
	if !r.opOpen() {
		return
	}
	for i := 0; i < r.rounds; i++ {
		r.insert()
		r.opSyncAndWait()
	}
	release := r.pinReader()
	r.insert() // commits the reader does not see: frames to copy, WAL cannot restart
	r.opCheckpoint(litestream.CheckpointModePassive)
	r.insert()
	r.opSyncAndWait()
	r.insert()
	r.insert()
	r.opSync() // threshold PASSIVE checkpoint inside Sync (checkpointIfNeeded), reader still pinned
	r.opUpload()
	r.insert()
	r.opCheckpoint(litestream.CheckpointModePassive)
	r.insert()
	for _, m := range []string{litestream.CheckpointModeFull, litestream.CheckpointModeRestart, litestream.CheckpointModeTruncate} {
		r.opCheckpoint(m) // with a reader: expected busy (reported as the operation's failure) or partial
		r.insert()
	}
	r.opSyncAndWait()
	release()
	r.insert()
	r.opCheckpoint(litestream.CheckpointModePassive)
	r.insert()
	r.opCheckpoint(litestream.CheckpointModeTruncate)
	r.insert()
	r.opSyncAndWait()
	r.opClose()
}

// scCkptBusy: litestream's own checkpoints (RESTART, TRUNCATE, PASSIVE, FULL) while the application
// keeps committing from another goroutine, so that commits land between the pre-checkpoint copy and
// the checkpoint itself.
func (r *runner) scCkptBusy() {
	if !r.opOpen() {
		return
	}
	for i := 0; i < r.rounds; i++ {
		r.insert()
		r.opSyncAndWait()
	}
	_ = r.astep(func() error { _, err := r.app.Exec(`PRAGMA busy_timeout=2000`); return err })
	stop := make(chan struct{})
	var wg sync.WaitGroup
	wg.Add(1)
	go func() {
		defer wg.Done()
		blob := make([]byte, 120)
		for i := 0; ; i++ {
			select {
			case <-stop:
				return
			default:
			}
			blob[0] = byte(i)
			_, _ = r.app.Exec(`INSERT INTO t(id, v) VALUES(NULL, ?)`, blob)
			time.Sleep(150 * time.Microsecond)
		}
	}()
	for _, m := range []string{litestream.CheckpointModeRestart, litestream.CheckpointModePassive, litestream.CheckpointModeTruncate, litestream.CheckpointModeFull, litestream.CheckpointModeRestart} {
		r.opCheckpoint(m)
		time.Sleep(2 * time.Millisecond)
		r.opSyncAndWait()
	}
	close(stop)
	wg.Wait()
	must(r.astep(func() error { return r.app.QueryRow(`SELECT coalesce(max(id),0)+1 FROM t`).Scan(&r.nextID) }), "next id")
	r.insert()
	r.opSyncAndWait()
	r.opClose()
}

// runApp is phase "app": the APPLICATION keeps working while litestream is dead (between the kill and
// the restart). spec = "pre=<n>,mode=<none|PASSIVE|FULL|RESTART|TRUNCATE>,post=<n>,close=<0|1>":
// pre commits, an application checkpoint, post commits (the new WAL generation is shorter or longer
// than what was replicated), and either close the last connection (SQLite checkpoints and deletes the
// WAL) or exit with the connection open (WAL stays).
func (r *runner) runApp(spec string) int {
	if _, err := os.Stat(r.srcPath()); os.IsNotExist(err) {
		emit(map[string]any{"app": "no-db"})
		return 0
	}
	pre, post, mode, closeConn := 0, 0, "none", false
	for _, kv := range strings.Split(spec, ",") {
		f := strings.SplitN(kv, "=", 2)
		if len(f) != 2 {
			continue
		}
		switch f[0] {
		case "pre":
			pre, _ = strconv.Atoi(f[1])
		case "post":
			post, _ = strconv.Atoi(f[1])
		case "mode":
			mode = f[1]
		case "close":
			closeConn = f[1] == "1"
		}
	}
	if err := r.openApp(5000); err != nil {
		emit(map[string]any{"app": "fail", "detail": err.Error()})
		return 0
	}
	fail := func(err error) int {
		emit(map[string]any{"app": "fail", "detail": err.Error()})
		return 0
	}
	for i := 0; i < pre; i++ {
		if err := r.insertN(1 + r.rng.Intn(3)); err != nil {
			return fail(err)
		}
	}
	var busy, nlog, nckpt int
	if mode != "none" {
		if err := r.app.QueryRow(fmt.Sprintf(`PRAGMA wal_checkpoint(%s)`, mode)).Scan(&busy, &nlog, &nckpt); err != nil {
			return fail(err)
		}
	}
	for i := 0; i < post; i++ {
		if err := r.insertN(1); err != nil {
			return fail(err)
		}
	}
	emit(map[string]any{"app": "ok", "busy": busy, "log": nlog, "ckpt": nckpt, "spec": spec})
	if closeConn {
		_ = r.app.Close()
		return 0
	}
	os.Exit(0) // the application is still running / died: its connection is never closed, the WAL stays
	return 0
}

// scRestoreSide: the restore side under the circumstances an operator leaves behind. Plain restore and
// follow-mode restore (cancelled after the initial restore and a few polls), each with: no sidecar,
// a stale `-txid` sidecar naming an older TXID, a stale sidecar naming exactly the TXID the restore
// ends at (the operator deleted only the database), and a stale `-txid.tmp`.
func (r *runner) scRestoreSide() {
	if !r.opOpen() {
		return
	}
	r.restoreHistory()
	final := r.repTX()
	older := uint64(1)
	if len(r.acked) > 1 {
		older = r.acked[len(r.acked)/2]
	}
	prepare := func(out, circ string) {
		r.removeOutput(out)
		r.hstep(func() {
			switch circ {
			case "older":
				must(litestream.WriteTXIDFile(out, ltx.TXID(older)), "stale sidecar")
			case "exact":
				must(litestream.WriteTXIDFile(out, ltx.TXID(final)), "stale sidecar")
			case "staletmp":
				must(os.WriteFile(out+"-txid.tmp", []byte("00000000000000"), 0o644), "stale sidecar tmp")
			}
		})
	}
	for _, circ := range []string{"none", "older", "exact", "staletmp"} {
		out := r.outPath("p-" + circ + ".db")
		prepare(out, circ)
		_, _ = r.op("restore", func() (uint64, error) {
			opt := litestream.NewRestoreOptions()
			opt.OutputPath = out
			return final, r.db.Replica.Restore(r.ctx, opt)
		})
	}
	for _, circ := range []string{"none", "older", "exact", "staletmp"} {
		out := r.outPath("f-" + circ + ".db")
		prepare(out, circ)
		fctx, cancel := context.WithCancel(r.ctx)
		done := make(chan error, 1)
		n := r.begin("follow")
		go func() {
			opt := litestream.NewRestoreOptions()
			opt.OutputPath = out
			opt.Follow = true
			opt.FollowInterval = 20 * time.Millisecond
			done <- r.db.Replica.Restore(fctx, opt)
		}()
		var ferr error
		returned := false
		deadline := time.Now().Add(5 * time.Second)
	wait:
		for time.Now().Before(deadline) {
			if _, err := os.Stat(out); err == nil {
				if tx, err := litestream.ReadTXIDFile(out); err == nil && uint64(tx) >= final {
					break
				}
			}
			select {
			case ferr = <-done:
				returned = true
				break wait
			case <-time.After(10 * time.Millisecond):
			}
		}
		if !returned {
			time.Sleep(90 * time.Millisecond) // the follower polls a few times
			cancel()
			ferr = <-done
		}
		cancel()
		if errors.Is(ferr, context.Canceled) {
			ferr = nil
		}
		r.end(n, "follow", final, ferr)
	}
	r.opClose()
}

// restoreAndCompare restores the latest state into verify/<name> and compares the user table with the source.
func (r *runner) restoreAndCompare(stage, name string) *stageError {
	path := r.verifyPath(name)
	if err := r.opRestore("restore", path, 0); err != nil {
		return stageErr(stage, fmt.Errorf("restore: %w", err))
	}
	conn, err := sql.Open("sqlite", path)
	if err != nil {
		return stageErr(stage, err)
	}
	defer conn.Close()
	conn.SetMaxOpenConns(1)
	if err := integrityCheck(conn); err != nil {
		return stageErr(stage, fmt.Errorf("restored: %w", err))
	}
	want, err := tableRows(r.app)
	if err != nil {
		return stageErr(stage, fmt.Errorf("source rows: %w", err))
	}
	got, err := tableRows(conn)
	if err != nil {
		return stageErr(stage, fmt.Errorf("restored rows: %w", err))
	}
	if len(want) != len(got) {
		return stageErr(stage, fmt.Errorf("row count: source %d, restored %d", len(want), len(got)))
	}
	for i := range want {
		if want[i] != got[i] {
			return stageErr(stage, fmt.Errorf("row %d differs: source %s, restored %s", i, short(want[i]), short(got[i])))
		}
	}
	return nil
}

// snapshotFirst: right after the restart and BEFORE any new application write, run n idle syncs
// (Sync + Replica.Sync) and then DB.Snapshot; the replica must still restore to the source, i.e. to what
// was acknowledged before the kill plus whatever the application committed while litestream was down.
func (r *runner) snapshotFirst(idle int) *stageError {
	for i := 0; i < idle; i++ {
		r.opSync()
		if lastErr != "" {
			return stageErr("idle-sync", errors.New(lastErr))
		}
		r.opUpload()
		if lastErr != "" {
			return stageErr("idle-sync", errors.New(lastErr))
		}
	}
	r.opSnapshot()
	if lastErr != "" {
		if idle == 0 && strings.Contains(lastErr, "db not ready") {
			// Snapshot before the first Sync of a fresh DB object is refused loudly (not initialised yet):
			// nothing was published, nothing to compare.
			return nil
		}
		return stageErr("snapshot-after-restart", errors.New(lastErr))
	}
	return r.restoreAndCompare("compare-after-snapshot", "snap.db")
}

// scRepublish: WriteLTXFile onto names that already exist in the file replica: an upload retry of an L0
// file that is already there, DB.Snapshot twice at the same position, a snapshot by a restarted idle
// process, and a compaction whose output name exists.
func (r *runner) scRepublish() {
	if !r.opOpen() {
		return
	}
	r.syncUploadRounds(r.rounds)
	// upload retry: the newest L0 file is written to the replica a second time (as after a failure that
	// happened once the first attempt had already renamed)
	_, _ = r.op("reupload", func() (uint64, error) {
		minTX, maxTX, err := r.db.MaxLTX()
		if err != nil {
			return 0, err
		}
		f, err := os.Open(r.db.LTXPath(0, minTX, maxTX))
		if err != nil {
			return 0, err
		}
		defer f.Close()
		_, err = r.db.Replica.Client.WriteLTXFile(r.ctx, 0, minTX, maxTX, f)
		return uint64(maxTX), err
	})
	r.opSnapshot()
	r.opSnapshot() // same position: same name 1..N at the snapshot level
	r.opCompact(1)
	r.opCompact(1) // nothing new: either a no-op/failure or the same output name again
	r.opClose()
	r.newLS()
	if !r.opOpen() {
		return
	}
	r.opSync()
	r.opSnapshot() // restarted, idle application: the snapshot name exists already
	r.insert()
	r.opSyncAndWait()
	r.opSnapshot()
	r.opClose()
}

// scL0Ret: L0 retention while an upload is pending. Short L0Retention; every round leaves a local L0 file
// waiting for upload (DB.Sync without Replica.Sync) when the L1 compaction (which runs L0 retention) and
// an explicit EnforceL0RetentionByTime delete remote L0 files and their local copies; only then the
// pending file is uploaded.
func (r *runner) scL0Ret() {
	r.db.L0Retention = time.Millisecond
	if !r.opOpen() {
		return
	}
	r.syncUploadRounds(r.rounds)
	for i := 0; i < 3; i++ {
		r.insert()
		r.opSync() // local L0 file R+1, upload pending
		time.Sleep(15 * time.Millisecond)
		r.opCompact(1) // L0 → L1, then L0 retention by time
		r.insert()
		r.opSync() // a second pending file
		time.Sleep(15 * time.Millisecond)
		r.op("retain-l0", func() (uint64, error) { return r.repTX(), r.db.EnforceL0RetentionByTime(r.ctx) })
		r.opUpload()
	}
	r.insert()
	r.opSyncAndWait()
	r.opClose()
}

// bigTx commits one transaction of about kb KiB (larger than the sync budget of scenario chunked).
func (r *runner) bigTx(kb int) {
	must(r.astep(func() error {
		tx, err := r.app.Begin()
		if err != nil {
			return err
		}
		for n := 0; n < kb*1024; {
			b := r.blob()
			if _, err := tx.Exec(`INSERT INTO t(id, v) VALUES(?, ?)`, r.nextID, b); err != nil {
				_ = tx.Rollback()
				return err
			}
			r.nextID++
			n += len(b)
		}
		return tx.Commit()
	}), "big transaction")
}

// scChunked: a WAL backlog larger than MaxSyncWALBytes before one DB.Sync / SyncAndWait, so that the sync
// runs as several bounded chunks (each publishes an L0 file); budgets: one frame, 16 KiB, 64 KiB (by seed);
// then the same with a checkpoint threshold low enough that a checkpoint runs inside the same syncLocked.
func (r *runner) scChunked() {
	budget := []int64{4096 + 24, 16 << 10, 64 << 10}[r.rng.Intn(3)]
	kb := int(budget/1024)*2 + 8
	r.db.MaxSyncWALBytes = budget
	if !r.opOpen() {
		return
	}
	r.insert()
	r.opSyncAndWait()
	for i := 0; i < r.rounds; i++ {
		r.bigTx(kb)
		r.bigTx(kb)
		r.bigTx(kb)
		r.opSync()
		r.opUpload()
	}
	r.bigTx(kb)
	r.bigTx(kb)
	r.opSyncAndWait()
	r.bigTx(kb) // a single transaction larger than the budget
	r.opSyncAndWait()
	r.opClose()
	r.newLS()
	r.db.MaxSyncWALBytes = budget
	r.db.MinCheckpointPageN = 10
	if !r.opOpen() {
		return
	}
	r.bigTx(kb)
	r.bigTx(kb)
	r.bigTx(kb)
	r.opSyncAndWait()
	r.insert()
	r.opSyncAndWait()
	r.opClose()
}

// retryRestores: for every restore output whose staging file exists while the final name does not (the
// previous process was killed between the creation of <out>.tmp and the rename), re-run the same restore
// to the same output path WITHOUT cleaning anything up first. It must succeed, leave a sound database
// and no staging file.
func (r *runner) retryRestores() *stageError {
	ents, _ := os.ReadDir(filepath.Join(r.root, "out"))
	for _, e := range ents {
		name := e.Name()
		if !strings.HasSuffix(name, ".db.tmp") {
			continue
		}
		out := r.outPath(strings.TrimSuffix(name, ".tmp"))
		if _, err := os.Stat(out); err == nil {
			continue // already published
		}
		rep := r.db.Replica
		if strings.HasPrefix(name, "v3-") { // legacy layout: its own replica directory
			dir := filepath.Join(r.replicaDir(), strings.TrimSuffix(name, ".db.tmp"))
			rep = litestream.NewReplicaWithClient(nil, file.NewReplicaClient(dir))
		}
		_, err := r.op("restore-retry", func() (uint64, error) {
			opt := litestream.NewRestoreOptions()
			opt.OutputPath = out
			return 0, rep.Restore(r.ctx, opt)
		})
		if err != nil {
			return stageErr("restore-retry", fmt.Errorf("%s: %w", filepath.Base(out), err))
		}
		if _, err := os.Stat(out + ".tmp"); err == nil {
			return stageErr("restore-retry", fmt.Errorf("%s.tmp is left behind after the retried restore", filepath.Base(out)))
		}
		cp := r.verifyPath("retry-" + filepath.Base(out))
		_ = os.Remove(cp)
		if err := copyFile(out, cp); err != nil {
			return stageErr("restore-retry", err)
		}
		if err := integrityCheckPath(cp); err != nil {
			return stageErr("restore-retry", fmt.Errorf("%s: %w", filepath.Base(out), err))
		}
	}
	return nil
}
