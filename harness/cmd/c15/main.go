// Engine c15: timestamp restore on real histories. Records the header timestamp
// (replication time) of every TXID and the mtime of every replica file, probes
// CalcRestorePlan / Restore at, just before, just after and between every
// recorded time, compares with the Lean planner model and judges with the C15 oracle.
package main

import (
	"bytes"
	"context"
	"database/sql"
	"encoding/json"
	"errors"
	"fmt"
	"io"
	"log/slog"
	"os"
	"path/filepath"
	"sort"
	"strings"
	"sync/atomic"
	"time"

	"github.com/benbjohnson/litestream"
	"github.com/benbjohnson/litestream/file"
	"github.com/superfly/ltx"
	_ "modernc.org/sqlite"

	"verif/harness/hx"
)

type F struct {
	L, Min, Max, Cr int
}

type HOp struct {
	Op    string `json:"op"` // sync compact snapshot cascade l0ret probe racesnap (Arg = ms between starting Sync and calling Snapshot) racecommit (Arg 0 = commit from the sync hook, >0 = free-running committer) commit (Arg rows of Size bytes, not synced) checkpoint (Arg 0 passive 1 full 2 restart 3 truncate) restart (Close + new DB object)
	Arg   int    `json:"arg,omitempty"`
	Sleep int    `json:"sleep,omitempty"` // ms slept before the op
	Size  int    `json:"size,omitempty"`  // racesnap: KB of the row whose sync the snapshot races with
}

type HCase struct {
	Ops       []HOp  `json:"ops"`
	LV        int    `json:"lv"`
	Retention bool   `json:"retention"`
	ProbeSeed uint64 `json:"probe_seed"`
	PageSize  int    `json:"page_size,omitempty"`
}

var quiet = slog.New(slog.NewTextHandler(io.Discard, &slog.HandlerOptions{Level: slog.LevelError + 10}))

func fmtFiles(fs []F, withCr bool) string {
	s := append([]F(nil), fs...)
	sort.Slice(s, func(i, j int) bool {
		a, b := s[i], s[j]
		if a.L != b.L {
			return a.L < b.L
		}
		if a.Min != b.Min {
			return a.Min < b.Min
		}
		return a.Max < b.Max
	})
	parts := make([]string, len(s))
	for i, f := range s {
		if withCr {
			parts[i] = fmt.Sprintf("%d:%d:%d:%d", f.L, f.Min, f.Max, f.Cr)
		} else {
			parts[i] = fmt.Sprintf("%d:%d:%d", f.L, f.Min, f.Max)
		}
	}
	return strings.Join(parts, ",")
}

func levelsN(n int) litestream.CompactionLevels {
	lv := litestream.CompactionLevels{{Level: 0}}
	for i := 1; i <= n; i++ {
		lv = append(lv, &litestream.CompactionLevel{Level: i, Interval: time.Duration(i) * time.Minute})
	}
	return lv
}

func genHistory(rnd *hx.Rand, n int) HCase {
	h := HCase{LV: 1 + rnd.Intn(3), Retention: rnd.Chance(45), ProbeSeed: rnd.Uint64()}
	sl := func() int {
		switch rnd.Intn(4) {
		case 0:
			return 0
		case 1:
			return 2
		default:
			return 3 + rnd.Intn(3)
		}
	}
	h.Ops = append(h.Ops, HOp{Op: "sync", Arg: 1, Sleep: 2})
	for i := 0; i < n; i++ {
		x := rnd.Intn(100)
		switch {
		case x < 45:
			h.Ops = append(h.Ops, HOp{Op: "sync", Arg: 1 + rnd.Intn(2), Sleep: sl()})
		case x < 65:
			h.Ops = append(h.Ops, HOp{Op: "compact", Arg: 1 + rnd.Intn(h.LV), Sleep: sl()})
		case x < 77:
			h.Ops = append(h.Ops, HOp{Op: "snapshot", Sleep: sl()})
		case x < 85 && h.Retention:
			h.Ops = append(h.Ops, HOp{Op: "cascade", Sleep: 3})
		case x < 92 && h.Retention:
			h.Ops = append(h.Ops, HOp{Op: "l0ret", Sleep: 3})
		case x < 96:
			h.Ops = append(h.Ops, HOp{Op: "probe"})
		default:
			h.Ops = append(h.Ops, HOp{Op: "sync", Arg: 1, Sleep: sl()})
		}
	}
	h.Ops = append(h.Ops, HOp{Op: "probe"})
	return h
}

// hookHandler is the DB's slog handler: when armed it runs fn once on the "sync" debug record that
// DB.sync emits at its start (before it opens and scans the WAL) - a deterministic stand-in for
// "the application commits while a sync is running".
type hookHandler struct {
	armed atomic.Bool
	fn    func()
}

func (h *hookHandler) Enabled(context.Context, slog.Level) bool { return true }
func (h *hookHandler) WithAttrs([]slog.Attr) slog.Handler       { return h }
func (h *hookHandler) WithGroup(string) slog.Handler            { return h }
func (h *hookHandler) Handle(_ context.Context, r slog.Record) error {
	if r.Message == "sync" && h.armed.CompareAndSwap(true, false) {
		h.fn()
	}
	return nil
}

type hist struct {
	dir   string
	sqldb *sql.DB
	db    *litestream.DB
	fc    *file.ReplicaClient
	down  atomic.Bool // storage outage: uploads fail
	store *litestream.Store
	base  int64 // unix ms subtracted from every time
	rows  int
	t     map[int]int // ledger: txid -> replication time (ms - base)
	maxTx int
	seen  map[[3]int]bool
	// app-level ledger: row id -> lowest TXID that can contain it (TXID after the previous sync + 1)
	rowLo   map[int]int
	lastPos int
	hot     map[int]bool // TXIDs produced while a snapshot raced with the sync: always restore-probed
	tswf    string       // first structural violation seen (reported after the direct oracle had its chance)
	// commit-time ledger: row id -> wall-clock ms (minus base) read immediately BEFORE the commit was
	// issued. (The instant the commit *returned* is not a sound bound: a sync may scan the WAL and stamp
	// its file between SQLite writing the commit frame and Exec returning to the caller.)
	cs         map[int]int
	hotRows    map[int]bool // rows committed while a sync was running
	hotChecked map[int]bool
	hook       *hookHandler
	nRestore   int
	h          HCase
	fp         map[int]string // txid -> fingerprint of the quiescent source right after the sync that reached it
	extraT     map[int]bool   // additional prioritised probe instants (around snapshots taken over unsynced commits)
}

// gateClient is the replica client litestream sees: the file client, with every LTX upload failing
// while `down` is set (a storage outage). Listings and reads keep working.
type gateClient struct {
	*file.ReplicaClient
	down *atomic.Bool
}

func (g gateClient) WriteLTXFile(ctx context.Context, level int, minTXID, maxTXID ltx.TXID, r io.Reader) (*ltx.FileInfo, error) {
	if g.down.Load() {
		io.Copy(io.Discard, r)
		return nil, errors.New("injected storage outage")
	}
	return g.ReplicaClient.WriteLTXFile(ctx, level, minTXID, maxTXID, r)
}

func openHist(tmp string, h HCase) (*hist, error) {
	dir, err := os.MkdirTemp(tmp, "h-")
	if err != nil {
		return nil, err
	}
	x := &hist{dir: dir, base: time.Now().UnixMilli() - 1000, t: map[int]int{}, seen: map[[3]int]bool{}, rowLo: map[int]int{}, hot: map[int]bool{}, cs: map[int]int{}, hotRows: map[int]bool{}, hotChecked: map[int]bool{}, hook: &hookHandler{}, h: h, fp: map[int]string{}, extraT: map[int]bool{}}
	path := filepath.Join(dir, "db")
	x.sqldb, err = sql.Open("sqlite", path)
	if err != nil {
		return nil, err
	}
	x.sqldb.SetMaxOpenConns(1)
	qs := []string{"PRAGMA journal_mode=wal", "PRAGMA wal_autocheckpoint=0", "PRAGMA busy_timeout=10000", "CREATE TABLE t(id INTEGER PRIMARY KEY, v BLOB)"}
	if h.PageSize > 0 {
		qs = append([]string{fmt.Sprintf("PRAGMA page_size=%d", h.PageSize)}, qs...)
	}
	for _, q := range qs {
		if _, err := x.sqldb.Exec(q); err != nil {
			return nil, err
		}
	}
	x.fc = file.NewReplicaClient(filepath.Join(dir, "replica"))
	if err := x.attach(); err != nil {
		return nil, err
	}
	return x, nil
}

// attach creates a fresh litestream DB object (and Store) over the same database, meta
// directory and replica - what a daemon start does.
func (x *hist) attach() error {
	x.db = litestream.NewDB(filepath.Join(x.dir, "db"))
	x.db.MonitorInterval = 0
	x.db.Replica = litestream.NewReplicaWithClient(x.db, gateClient{x.fc, &x.down})
	x.db.Replica.MonitorEnabled = false
	x.store = litestream.NewStore([]*litestream.DB{x.db}, levelsN(x.h.LV))
	x.store.Logger = quiet
	x.db.SetLogger(slog.New(x.hook))
	x.store.SnapshotRetention = time.Millisecond
	x.db.L0Retention = 0
	if x.h.Retention {
		x.db.L0Retention = time.Millisecond
	}
	return x.db.Open()
}

func (x *hist) close() {
	ctx, cancel := context.WithTimeout(context.Background(), 5*time.Second)
	defer cancel()
	_ = x.db.Close(ctx)
	_ = x.sqldb.Close()
	os.RemoveAll(x.dir)
}

func (x *hist) listing() ([]F, error) {
	var out []F
	for l := 0; l <= litestream.SnapshotLevel; l++ {
		itr, err := x.fc.LTXFiles(context.Background(), l, 0, true)
		if err != nil {
			return nil, err
		}
		for itr.Next() {
			i := itr.Item()
			out = append(out, F{L: l, Min: int(i.MinTXID), Max: int(i.MaxTXID), Cr: int(i.CreatedAt.UnixMilli() - x.base)})
		}
		itr.Close()
	}
	return out, nil
}

// headerTs reads the LTX header timestamp of a replica file.
func (x *hist) headerTs(f F) (int, error) {
	fh, err := os.Open(x.fc.LTXFilePath(f.L, ltx.TXID(f.Min), ltx.TXID(f.Max)))
	if err != nil {
		return 0, err
	}
	defer fh.Close()
	dec := ltx.NewDecoder(fh)
	if err := dec.DecodeHeader(); err != nil {
		return 0, err
	}
	return int(dec.Header().Timestamp - x.base), nil
}

// record notes new files (ledger entries from new L0 files, header-vs-mtime for all) and runs the
// structural oracle on the whole replica state: no file may be stamped earlier than the
// replication time (L0 header timestamp, from the ledger) of any TXID it contains.
func (x *hist) record(res *hx.Result, step int) {
	fs, err := x.listing()
	if err != nil {
		hx.Fatal(err)
	}
	for _, f := range fs {
		k := [3]int{f.L, f.Min, f.Max}
		if x.seen[k] {
			continue
		}
		x.seen[k] = true
		ts, err := x.headerTs(f)
		if err != nil {
			hx.Fatal(err)
		}
		if res != nil {
			if ts == f.Cr {
				res.Count("mtime=header")
			} else {
				res.Count("mtime!=header")
			}
		}
		if f.L == 0 {
			for n := f.Min; n <= f.Max; n++ {
				if _, ok := x.t[n]; !ok {
					x.t[n] = ts
				}
				if n > x.maxTx {
					x.maxTx = n
				}
			}
			if f.Min != f.Max && res != nil {
				res.Count("l0-multi-txid")
			}
		}
	}
	if x.tswf == "" {
		x.tswf = x.structural(fs, step)
	}
	if res != nil {
		res.Count("structural-checks")
	}
}

// structural: every file's CreatedAt >= replication time of every TXID it contains.
func (x *hist) structural(fs []F, step int) string {
	for _, f := range fs {
		for n := f.Min; n <= f.Max; n++ {
			if tn, ok := x.t[n]; ok && tn > f.Cr {
				return fmt.Sprintf("step %d: replica file %d:%d:%d is stamped %d, earlier than TXID %d it contains (L0 file stamped %d)", step, f.L, f.Min, f.Max, f.Cr, n, tn)
			}
		}
	}
	return ""
}

// maxRow opens a restored database image and returns the highest app row id in it (0 = none).
func (x *hist) maxRow(img []byte) (int, error) {
	m, _, err := x.content(img)
	return m, err
}

const fpQuery = "SELECT count(*), coalesce(max(id),0), coalesce(sum(length(v)),0), coalesce(sum(id*(1+length(v)%97)),0) FROM t"

func fingerprint(d *sql.DB) (int, string, error) {
	var n, m, l, c int64
	if err := d.QueryRow(fpQuery).Scan(&n, &m, &l, &c); err != nil {
		return 0, "", err
	}
	return int(m), fmt.Sprintf("rows=%d max=%d bytes=%d mix=%d", n, m, l, c), nil
}

// content opens a restored database image: highest app row id and a fingerprint of table t.
func (x *hist) content(img []byte) (int, string, error) {
	p := filepath.Join(x.dir, "content.db")
	for _, sfx := range []string{"", "-wal", "-shm"} {
		os.Remove(p + sfx)
	}
	if err := os.WriteFile(p, img, 0o644); err != nil {
		return 0, "", err
	}
	d, err := sql.Open("sqlite", p)
	if err != nil {
		return 0, "", err
	}
	defer func() {
		d.Close()
		for _, sfx := range []string{"", "-wal", "-shm"} {
			os.Remove(p + sfx)
		}
	}()
	return fingerprint(d)
}

func canonPlan(infos []*ltx.FileInfo, err error) (string, int) {
	if err != nil {
		switch {
		case errors.Is(err, litestream.ErrTxNotAvailable):
			return "err txnotavailable", 0
		case strings.Contains(err.Error(), "non-contiguous"):
			return "err noncontiguous", 0
		}
		return "err other:" + err.Error(), 0
	}
	parts := make([]string, len(infos))
	for i, f := range infos {
		parts[i] = fmt.Sprintf("%d:%d:%d", f.Level, f.MinTXID, f.MaxTXID)
	}
	return "ok " + strings.Join(parts, ","), int(infos[len(infos)-1].MaxTXID)
}

// zones: the same instant T is handed to Replica.Restore expressed in different locations; the
// oracle compares instants only (UnixMilli), never wall-clock fields.
var zones = []*time.Location{
	time.FixedZone("+02:00", 2*3600),
	time.FixedZone("-04:00", -4*3600),
	time.UTC,
	time.FixedZone("+05:45", 5*3600+45*60),
	time.Local, // main() sets the process-local zone to a non-UTC one
}

func (x *hist) restore(name string, txid int, ts int, loc *time.Location) ([]byte, error) {
	out := filepath.Join(x.dir, name)
	os.Remove(out)
	opt := litestream.NewRestoreOptions()
	opt.OutputPath = out
	if txid > 0 {
		opt.TXID = ltx.TXID(txid)
	}
	if ts >= 0 {
		opt.Timestamp = time.UnixMilli(x.base + int64(ts)).In(loc)
		if opt.Timestamp.UnixMilli() != x.base+int64(ts) {
			hx.Fatal(fmt.Errorf("zone conversion changed the instant"))
		}
	}
	if err := x.db.Replica.Restore(context.Background(), opt); err != nil {
		return nil, err
	}
	b, err := os.ReadFile(out)
	os.Remove(out)
	os.Remove(out + "-txid")
	return b, err
}

// lastBefore: highest k such that TXIDs 1..k were all replicated before T.
func (x *hist) lastBefore(T int) int {
	k := 0
	for n := 1; n <= x.maxTx; n++ {
		if tn, ok := x.t[n]; ok && tn < T {
			k = n
		} else {
			break
		}
	}
	return k
}

func (x *hist) ledgerArg() string {
	parts := make([]string, 0, len(x.t))
	for n := 1; n <= x.maxTx; n++ {
		if tn, ok := x.t[n]; ok {
			parts = append(parts, fmt.Sprintf("%d:%d", n, tn))
		}
	}
	return strings.Join(parts, ",")
}

// probe runs the timestamp probes on the current replica.
func (x *hist) probe(drv *hx.Driver, res *hx.Result, rnd *hx.Rand, step int) (kind, sig, what string) {
	ctx := context.Background()
	fs, err := x.listing()
	if err != nil {
		hx.Fatal(err)
	}
	if len(fs) == 0 || x.maxTx == 0 {
		return "", "", ""
	}
	count := func(k string) {
		if res != nil {
			res.Count(k)
		}
	}
	listing := fmtFiles(fs, true)
	if lw, err := drv.Ask("tswf LED=" + x.ledgerArg() + " F=" + listing); err != nil {
		hx.Fatal(err)
	} else if lw != "-" && (lw == "ok 1") != (x.structural(fs, step) == "") {
		return "disagreement", "C15/tswf-lean-vs-go", fmt.Sprintf("step %d: Lean tsWFB says %q on a listing the Go check accepts", step, lw)
	}
	allL0 := true
	have := map[int]bool{}
	for _, f := range fs {
		if f.L == 0 && f.Min == f.Max && f.Cr == x.t[f.Min] {
			have[f.Min] = true
		}
	}
	for n := 1; n <= x.maxTx; n++ {
		if !have[n] {
			allL0 = false
		}
	}
	if allL0 {
		count("probe-all-l0-present")
	} else {
		count("probe-l0-pruned")
	}
	// candidate timestamps
	tset := map[int]bool{}
	for _, tn := range x.t {
		tset[tn] = true
	}
	for _, f := range fs {
		tset[f.Cr] = true
	}
	var times []int
	for k := range tset {
		times = append(times, k)
	}
	sort.Ints(times)
	cand := map[int]bool{}
	for i, tt := range times {
		cand[tt-1], cand[tt], cand[tt+1] = true, true, true
		if i > 0 && tt-times[i-1] >= 2 {
			cand[(tt+times[i-1])/2] = true
		}
	}
	// prioritised probes: just after the stamp of every file produced while something raced with the
	// sync, and at the commit instant of every row committed during a sync (newest first)
	hotTs := map[int]bool{}
	var hotN, hotR []int
	for n := range x.hot {
		hotN = append(hotN, n)
	}
	for id := range x.hotRows {
		hotR = append(hotR, id)
	}
	sort.Sort(sort.Reverse(sort.IntSlice(hotN)))
	sort.Sort(sort.Reverse(sort.IntSlice(hotR)))
	for _, n := range hotN {
		if tn, ok := x.t[n]; ok && len(hotTs) < 8 {
			hotTs[tn+1], hotTs[tn] = true, true
		}
	}
	for i, id := range hotR {
		if i < 6 {
			hotTs[x.cs[id]] = true
		}
	}
	for T := range x.extraT {
		hotTs[T] = true
	}
	for T := range hotTs {
		cand[T] = true
	}
	var Ts []int
	for k := range cand {
		if k > 0 {
			Ts = append(Ts, k)
		}
	}
	sort.Ints(Ts)
	prevE, prevT := 0, 0
	restoreBudget, hotBudget, failBudget := 5, 16+len(x.extraT), 2
	for _, T := range Ts {
		ts := time.UnixMilli(x.base + int64(T)).In(zones[T%len(zones)])
		infos, perr := litestream.CalcRestorePlan(ctx, x.fc, 0, ts, quiet)
		impl, e := canonPlan(infos, perr)
		line := fmt.Sprintf("plan T=0 TS=%d F=%s", T, listing)
		model, err := drv.Ask(line)
		if err != nil {
			hx.Fatal(err)
		}
		if res != nil {
			res.Case(line, perr == nil)
			if perr == nil {
				count("probe-plan-ok")
			} else {
				count("probe-plan-err")
			}
			res.Sample(map[string]string{"line": line, "impl": impl})
		}
		// (a) never the future
		for n := 1; n <= e; n++ {
			if tn, ok := x.t[n]; ok && tn >= T {
				return "violation", "C15/future-data", fmt.Sprintf("step %d: plan for T=%d is %s and includes TXID %d replicated at %d (>= T); listing %s", step, T, impl, n, tn, listing)
			}
		}
		// (d) before the first backup
		if T <= x.t[1] && perr == nil {
			return "violation", "C15/before-first-succeeds", fmt.Sprintf("step %d: T=%d is not after the first replication time %d but a plan %s is returned", step, T, x.t[1], impl)
		}
		// (c) monotone
		if e < prevE {
			return "violation", "C15/non-monotone", fmt.Sprintf("step %d: T=%d yields TXID %d but the later T=%d yields %d (%s)", step, prevT, prevE, T, e, impl)
		}
		// (b) exact when all L0 files are present
		k := x.lastBefore(T)
		if lk, err := drv.Ask(fmt.Sprintf("lastbefore T=%d N=%d LED=%s", T, x.maxTx, x.ledgerArg())); err != nil {
			hx.Fatal(err)
		} else if lk != "-" && lk != fmt.Sprintf("ok %d", k) {
			return "disagreement", "C15/lastbefore-lean-vs-go", fmt.Sprintf("lean %q go %d", lk, k)
		}
		if allL0 && e != k {
			return "violation", "C15/not-exact", fmt.Sprintf("step %d: all level-0 files present; last TXID replicated before T=%d is %d but the plan %s ends at %d", step, T, k, impl, e)
		}
		if hx.Differs(impl, model) {
			return "disagreement", "C15/model-vs-impl-plan", fmt.Sprintf("step %d: impl=%q model=%q | %s", step, impl, model, line)
		}
		// Restore(Timestamp=T) == Restore(TXID=e)
		hotT := hotTs[T]
		if perr == nil && ((restoreBudget > 0 && (e != prevE || rnd.Chance(10)) && rnd.Chance(50)) || (hotT && hotBudget > 0)) {
			if hotT {
				hotBudget--
			} else {
				restoreBudget--
			}
			x.nRestore++
			loc := zones[x.nRestore%len(zones)]
			zname := time.UnixMilli(x.base + int64(T)).In(loc).Format("-07:00")
			count("restore-zone" + zname)
			got, gerr := x.restore("ts.db", 0, T, loc)
			if gerr != nil {
				return "violation", "C15/restore-fails", fmt.Sprintf("step %d: plan for T=%d is %s but Restore(Timestamp=T expressed in zone %s) fails: %v; listing %s", step, T, impl, zname, gerr, listing)
			}
			// content oracle: the newest app row in the restored database must not belong to a
			// transaction whose L0 file is stamped at or after T
			m, gotFP, merr := x.content(got)
			if want, ok := x.fp[e]; ok && merr == nil {
				count("restore-vs-source-checked")
				if gotFP != want {
					return "violation", "C15/not-source-state", fmt.Sprintf("step %d: Restore(Timestamp=%d, zone %s) selects %s, i.e. the state of TXID %d, but its content (%s) is not what the source database held when TXID %d was replicated (%s); listing %s", step, T, zname, impl, e, gotFP, e, want, listing)
				}
			}
			if merr != nil {
				return "violation", "C15/restore-unreadable", fmt.Sprintf("step %d: Restore(Timestamp=%d) output cannot be queried: %v", step, T, merr)
			} else if lo, ok := x.rowLo[m]; ok {
				count("restore-content-checked")
				if c, ok := x.cs[m]; ok && c >= T {
					return "violation", "C15/future-commit", fmt.Sprintf("step %d: Restore(Timestamp=%d, zone %s) returns app row %d whose commit was only issued at %d (>= T); plan %s; listing %s", step, T, zname, m, c, impl, listing)
				}
				if tn, ok := x.t[lo]; ok && tn >= T {
					return "violation", "C15/future-row", fmt.Sprintf("step %d: Restore(Timestamp=%d, zone %s) returns app row %d, written in TXID >= %d whose L0 file is stamped %d (>= T); plan %s; listing %s", step, T, zname, m, lo, tn, impl, listing)
				}
			}
			want, werr := x.restore("tx.db", e, -1, time.UTC)
			if werr != nil {
				count("restore-txid-unavailable")
			} else {
				count("restore-compared")
				if !bytes.Equal(got, want) {
					return "violation", "C15/restore-differs", fmt.Sprintf("step %d: Restore(Timestamp=%d, zone %s) differs from Restore(TXID=%d), the state the plan for that instant (%s) ends at; listing %s", step, T, zname, e, impl, listing)
				}
			}
		}
		if perr != nil && T <= x.t[1] && failBudget > 0 && rnd.Chance(30) {
			failBudget--
			x.nRestore++
			loc := zones[x.nRestore%len(zones)]
			zname := time.UnixMilli(x.base + int64(T)).In(loc).Format("-07:00")
			if _, gerr := x.restore("ts.db", 0, T, loc); gerr == nil {
				return "violation", "C15/before-first-restores", fmt.Sprintf("step %d: T=%d (zone %s) is not after the first replication time %d, CalcRestorePlan fails, yet Restore(Timestamp) succeeds; listing %s", step, T, zname, x.t[1], listing)
			}
			count("restore-before-first-fails")
		}
		prevE, prevT = e, T
	}
	if w := x.structural(fs, step); w != "" {
		return "violation", "C15/tswf-broken", w
	}
	// structural oracle against the commit ledger: an L0 file is stamped no earlier than the instant
	// the commit of any row it contains was issued (checked for the files produced under a race)
	for _, n := range hotN {
		if x.hotChecked[n] {
			continue
		}
		tn, ok := x.t[n]
		if !ok {
			continue
		}
		img, rerr := x.restore("hot.db", n, -1, time.UTC)
		if rerr != nil {
			continue
		}
		x.hotChecked[n] = true
		if m, merr := x.maxRow(img); merr == nil {
			count("commit-stamp-checked")
			if c, ok := x.cs[m]; ok && c > tn {
				return "violation", "C15/stamp-before-commit", fmt.Sprintf("step %d: L0 file of TXID %d is stamped %d but contains app row %d whose commit was only issued at %d", step, n, tn, m, c)
			}
		}
	}
	return "", "", ""
}

func runHistory(tmp string, drv *hx.Driver, h HCase, res *hx.Result) (kind, sig, what string) {
	ctx := context.Background()
	x, err := openHist(tmp, h)
	if err != nil {
		hx.Fatal(err)
	}
	defer x.close()
	rnd := hx.NewRand(h.ProbeSeed)
	count := func(k string) {
		if res != nil {
			res.Count(k)
		}
	}
	insert := func(n int) {
		x.rows++
		if x.rows%6 == 0 {
			x.sqldb.Exec("DELETE FROM t WHERE id = (SELECT min(id) FROM t)")
		}
		payload := bytes.Repeat([]byte{byte(x.rows)}, n)
		x.rowLo[x.rows] = x.lastPos + 1
		x.cs[x.rows] = int(time.Now().UnixMilli() - x.base) // read before the commit is issued
		if _, err := x.sqldb.Exec("INSERT INTO t(id, v) VALUES(?, ?)", x.rows, payload); err != nil {
			hx.Fatal(err)
		}
	}
	pending, snapOverPending := 0, false
	notePos := func() {
		if pos, err := x.db.Pos(); err == nil {
			x.lastPos = int(pos.TXID)
		}
	}
	for i, op := range h.Ops {
		if op.Sleep > 0 {
			time.Sleep(time.Duration(op.Sleep) * time.Millisecond)
		}
		switch op.Op {
		case "sync":
			p0 := x.lastPos
			for j := 0; j < op.Arg; j++ {
				if op.Size > 0 {
					insert(op.Size)
				} else {
					insert(100 + x.rows%5*400)
				}
			}
			if err := x.db.Sync(ctx); err != nil {
				return "", "", ""
			}
			if err := x.db.Replica.Sync(ctx); err != nil {
				return "", "", ""
			}
			notePos()
			pending = 0
			// the source is quiescent and fully replicated: remember what TXID lastPos looks like
			if _, f, err := fingerprint(x.sqldb); err == nil {
				if old, ok := x.fp[x.lastPos]; !ok || old == f {
					x.fp[x.lastPos] = f
				}
			}
			count("op-sync")
			if snapOverPending {
				// a snapshot was taken while commits were not yet replicated: probe just after the
				// snapshot's stamp, midway, and exactly at the replication time of the TXID that
				// carries those commits
				snapOverPending = false
				x.record(res, i)
				if fs, err := x.listing(); err == nil {
					S := 0
					for _, f := range fs {
						if f.L == litestream.SnapshotLevel && f.Cr > S {
							S = f.Cr
						}
					}
					if tn, ok := x.t[p0+1]; ok && S > 0 && x.lastPos > p0 {
						x.extraT[S+1], x.extraT[(S+tn)/2], x.extraT[tn] = true, true, true
						x.hot[p0+1] = true
						count("snapshot-over-unsynced-commit")
					}
				}
				if k, sg, w := x.probe(drv, res, rnd, i); k != "" {
					return k, sg, w
				}
			}
		case "outage":
			x.down.Store(op.Arg != 0)
			count(fmt.Sprintf("op-outage-%d", op.Arg))
		case "lsync":
			// the database side only (what the DB monitor does between two replica syncs); no new commit
			if err := x.db.Sync(ctx); err != nil {
				return "", "", ""
			}
			notePos()
			count("op-lsync")
		case "dbsync":
			// a commit reaches the local level-0 directory; the upload is attempted and may fail (outage)
			for j := 0; j < op.Arg; j++ {
				insert(100 + x.rows%5*400)
			}
			if err := x.db.Sync(ctx); err != nil {
				return "", "", ""
			}
			if err := x.db.Replica.Sync(ctx); err != nil {
				count("op-dbsync-upload-failed")
			} else {
				count("op-dbsync-uploaded")
			}
			notePos()
			pending = 0
			if _, f, err := fingerprint(x.sqldb); err == nil {
				if old, ok := x.fp[x.lastPos]; !ok || old == f {
					x.fp[x.lastPos] = f
				}
			}
		case "commit":
			for j := 0; j < op.Arg; j++ {
				insert(op.Size)
			}
			pending += op.Arg
			count("op-commit-unsynced")
		case "checkpoint":
			mode := []string{litestream.CheckpointModePassive, litestream.CheckpointModeFull, litestream.CheckpointModeRestart, litestream.CheckpointModeTruncate}[op.Arg%4]
			if err := x.db.Checkpoint(ctx, mode); err == nil {
				count("op-checkpoint-" + strings.ToLower(mode))
			} else {
				count("op-checkpoint-error")
			}
			notePos()
		case "restart":
			cctx, cancel := context.WithTimeout(ctx, 10*time.Second)
			_ = x.db.Close(cctx)
			cancel()
			if err := x.attach(); err != nil {
				hx.Fatal(err)
			}
			count("op-restart")
		case "racesnap":
			// DB.Snapshot() called while a DB.Sync producing a new TXID holds / queues for the executor
			p0 := x.lastPos
			x.sqldb.Exec("DELETE FROM t WHERE length(v) > 100000")
			insert(op.Size * 1024)
			done := make(chan error, 1)
			started := make(chan struct{})
			go func() {
				close(started)
				done <- x.db.Sync(ctx)
			}()
			<-started
			if op.Arg > 0 {
				time.Sleep(time.Duration(op.Arg) * time.Millisecond)
			}
			snap, serr := x.db.Snapshot(ctx)
			if err := <-done; err != nil {
				return "", "", ""
			}
			if err := x.db.Sync(ctx); err != nil { // in case the snapshot won the lock
				return "", "", ""
			}
			if err := x.db.Replica.Sync(ctx); err != nil {
				return "", "", ""
			}
			notePos()
			pending = 0
			for n := p0 + 1; n <= x.lastPos; n++ {
				x.hot[n] = true
			}
			switch {
			case serr != nil:
				count("race-snapshot-error")
			case int(snap.MaxTXID) > p0:
				count("race-snapshot-waited-for-sync")
			default:
				count("race-snapshot-won-lock")
			}
		case "racecommit":
			// application commits while the real DB.Sync scans a long unsynced WAL
			p0 := x.lastPos
			x.sqldb.Exec("DELETE FROM t WHERE length(v) > 100000")
			insert(op.Size * 1024) // the long WAL (hundreds to thousands of frames)
			for j := 0; j < 40; j++ {
				insert(50)
			}
			r0 := x.rows
			if op.Arg == 0 {
				// reproducible interleaving: commit from inside DB.sync's "sync" debug record
				x.hook.fn = func() {
					time.Sleep(2 * time.Millisecond)
					insert(60)
					time.Sleep(time.Millisecond)
				}
				x.hook.armed.Store(true)
				if err := x.db.Sync(ctx); err != nil {
					x.hook.armed.Store(false)
					return "", "", ""
				}
				if x.hook.armed.Swap(false) {
					count("racecommit-hook-not-fired")
				} else {
					count("racecommit-hook")
				}
			} else {
				// free-running: commit in a loop while DB.Sync runs in another goroutine
				done := make(chan error, 1)
				go func() { done <- x.db.Sync(ctx) }()
				var serr error
			loop:
				for j := 0; j < 400; j++ {
					select {
					case serr = <-done:
						done = nil
						break loop
					default:
					}
					insert(60)
					time.Sleep(time.Duration(op.Arg*50) * time.Microsecond)
				}
				if done != nil {
					serr = <-done
				}
				if serr != nil {
					return "", "", ""
				}
				count("racecommit-free")
			}
			if err := x.db.Sync(ctx); err != nil {
				return "", "", ""
			}
			if err := x.db.Replica.Sync(ctx); err != nil {
				return "", "", ""
			}
			notePos()
			pending = 0
			for n := p0 + 1; n <= x.lastPos; n++ {
				x.hot[n] = true
			}
			for id := r0 + 1; id <= x.rows; id++ {
				x.hotRows[id] = true
			}
			x.record(res, i)
			if k, s, w := x.probe(drv, res, rnd, i); k != "" {
				return k, s, w
			}
		case "compact":
			if _, err := x.db.Compact(ctx, op.Arg); err == nil {
				count("op-compact")
			}
		case "snapshot":
			if _, err := x.db.Snapshot(ctx); err == nil {
				count("op-snapshot")
				if pending > 0 {
					snapOverPending = true
				}
			}
		case "cascade":
			if err := x.store.EnforceSnapshotRetention(ctx, x.db); err == nil {
				count("op-cascade")
			}
		case "l0ret":
			if err := x.db.EnforceL0RetentionByTime(ctx); err == nil {
				count("op-l0ret")
			}
		case "probe":
			x.record(res, i)
			if k, s, w := x.probe(drv, res, rnd, i); k != "" {
				return k, s, w
			}
			count("op-probe")
			continue
		}
		x.record(res, i)
		if x.tswf != "" {
			// a file stamped earlier than a transaction it contains: let the direct property
			// oracle name a failing T first, otherwise report the structural violation itself
			if k, s, w := x.probe(drv, res, rnd, i); k != "" {
				return k, s, w
			}
			return "violation", "C15/tswf-broken", x.tswf
		}
	}
	return "", "", ""
}

// genRace: histories whose snapshots are requested while a sync of a multi-hundred-page commit is in flight.
func genRace(rnd *hx.Rand, n int) HCase {
	h := HCase{LV: 1 + rnd.Intn(2), Retention: false, ProbeSeed: rnd.Uint64()}
	h.Ops = append(h.Ops, HOp{Op: "sync", Arg: 1, Sleep: 2})
	for i := 0; i < n; i++ {
		if rnd.Chance(50) {
			h.Ops = append(h.Ops, HOp{Op: "racesnap", Arg: rnd.Intn(4), Size: 1024 + rnd.Intn(3)*1024, Sleep: 3})
		} else {
			mode := 0
			if rnd.Chance(40) {
				mode = 1 + rnd.Intn(3)
			}
			h.Ops = append(h.Ops, HOp{Op: "racecommit", Arg: mode, Size: 2048 + rnd.Intn(3)*1024, Sleep: 3})
		}
		switch rnd.Intn(5) {
		case 0:
			h.Ops = append(h.Ops, HOp{Op: "sync", Arg: 1, Sleep: 2})
		case 1:
			h.Ops = append(h.Ops, HOp{Op: "compact", Arg: 1, Sleep: 2})
		}
	}
	h.Ops = append(h.Ops, HOp{Op: "probe"})
	return h
}

// genLag: the replica falls behind during a storage outage (local level-0 files pile up), litestream is
// restarted or not, the outage ends, and a snapshot / compaction / retention pass runs before or after
// the replica has caught up; then timestamps around every file's stamp are probed.
func genLag(rnd *hx.Rand) HCase {
	h := HCase{LV: 1 + rnd.Intn(2), ProbeSeed: rnd.Uint64()}
	for i, n := 0, 2+rnd.Intn(3); i < n; i++ {
		h.Ops = append(h.Ops, HOp{Op: "sync", Arg: 1, Sleep: 2})
	}
	h.Ops = append(h.Ops, HOp{Op: "outage", Arg: 1})
	for i, n := 0, 1+rnd.Intn(4); i < n; i++ {
		h.Ops = append(h.Ops, HOp{Op: "dbsync", Arg: 1 + rnd.Intn(2), Sleep: 3 + rnd.Intn(4)})
	}
	if rnd.Chance(70) {
		h.Ops = append(h.Ops, HOp{Op: "restart", Sleep: 2})
	}
	if rnd.Chance(80) {
		h.Ops = append(h.Ops, HOp{Op: "lsync", Sleep: 2}) // initialises a restarted DB; writes no new level-0 file
	}
	h.Ops = append(h.Ops, HOp{Op: "outage", Arg: 0, Sleep: 3})
	if rnd.Chance(25) {
		h.Ops = append(h.Ops, HOp{Op: "sync", Arg: 0, Sleep: 2}) // the replica catches up first
	}
	switch rnd.Intn(4) {
	case 0:
		h.Ops = append(h.Ops, HOp{Op: "compact", Arg: 1, Sleep: 3})
	default:
		h.Ops = append(h.Ops, HOp{Op: "snapshot", Sleep: 3})
	}
	h.Ops = append(h.Ops, HOp{Op: "sync", Arg: rnd.Intn(2), Sleep: 4})
	if rnd.Chance(40) {
		h.Ops = append(h.Ops, HOp{Op: "compact", Arg: 1, Sleep: 2}, HOp{Op: "sync", Arg: 1, Sleep: 2})
	}
	h.Ops = append(h.Ops, HOp{Op: "probe"})
	return h
}

// genRestart: daemon restart over a WAL with (or without) a stale tail, idle first syncs, a commit
// that is not yet replicated, a snapshot, then the sync that replicates the commit.
func genRestart(rnd *hx.Rand) HCase {
	h := HCase{LV: 1 + rnd.Intn(2), ProbeSeed: rnd.Uint64(), PageSize: []int{0, 0, 1024, 8192, 16384}[rnd.Intn(5)]}
	h.Ops = append(h.Ops, HOp{Op: "sync", Arg: 1, Sleep: 2})
	fill := 3 + rnd.Intn(4)
	for i := 0; i < fill; i++ { // grow the WAL
		h.Ops = append(h.Ops, HOp{Op: "sync", Arg: 1, Size: 8000 + rnd.Intn(50000), Sleep: 1})
	}
	if rnd.Chance(80) { // checkpoint: PASSIVE/FULL/RESTART leave the -wal file at its length, TRUNCATE does not
		h.Ops = append(h.Ops, HOp{Op: "checkpoint", Arg: []int{0, 0, 1, 2, 3}[rnd.Intn(5)]})
	}
	h.Ops = append(h.Ops, HOp{Op: "sync", Arg: 1, Size: 50 + rnd.Intn(500), Sleep: 2}) // restarts the WAL at frame 0
	if rnd.Chance(85) {
		h.Ops = append(h.Ops, HOp{Op: "restart"})
	}
	for i, n := 0, rnd.Intn(3); i < n; i++ {
		h.Ops = append(h.Ops, HOp{Op: "sync", Arg: 0, Sleep: 1}) // idle
	}
	small := HOp{Op: "commit", Arg: 1 + rnd.Intn(2), Size: 40 + rnd.Intn(1500), Sleep: 3}
	after := rnd.Chance(25)
	if !after {
		h.Ops = append(h.Ops, small)
	}
	h.Ops = append(h.Ops, HOp{Op: "snapshot", Sleep: 3})
	if after || rnd.Chance(30) {
		h.Ops = append(h.Ops, small)
	}
	h.Ops = append(h.Ops, HOp{Op: "sync", Arg: 0, Sleep: 4 + rnd.Intn(4)})
	if rnd.Chance(40) {
		h.Ops = append(h.Ops, HOp{Op: "compact", Arg: 1, Sleep: 2}, HOp{Op: "sync", Arg: 1, Sleep: 2})
	}
	h.Ops = append(h.Ops, HOp{Op: "probe"})
	return h
}

func shrinkHistory(h HCase, fails func(HCase) bool) HCase {
	for changed := true; changed; {
		changed = false
		for i := len(h.Ops) - 2; i >= 1; i-- { // keep the first sync and the final probe
			d := h
			d.Ops = append(append([]HOp(nil), h.Ops[:i]...), h.Ops[i+1:]...)
			if fails(d) {
				h = d
				changed = true
				break
			}
		}
	}
	return h
}

type payload struct {
	History *HCase `json:"history"`
}

func main() {
	// the process-local zone is made non-UTC so that time.Local-expressed instants are exercised too
	time.Local = time.FixedZone("verif-local", -(9*3600 + 30*60))
	zones[len(zones)-1] = time.Local
	o := hx.ParseFlags("C15")
	slog.SetDefault(quiet)
	tmp, err := os.MkdirTemp("", "c15-")
	if err != nil {
		hx.Fatal(err)
	}
	defer os.RemoveAll(tmp)
	drv, err := hx.StartDriver(o.Driver)
	if err != nil {
		hx.Fatal(err)
	}
	defer drv.Close()

	if o.Replay != "" {
		b, err := os.ReadFile(o.Replay)
		if err != nil {
			hx.Fatal(err)
		}
		var w struct {
			Replay payload `json:"replay"`
		}
		if err := json.Unmarshal(b, &w); err != nil || w.Replay.History == nil {
			hx.Fatal(fmt.Errorf("bad replay file"))
		}
		var k, s, what string
		for try := 0; try < 5 && k == ""; try++ { // racing schedules are not deterministic: a few attempts
			k, s, what = runHistory(tmp, drv, *w.Replay.History, nil)
		}
		fmt.Printf("kind=%q signature=%q\n%s\n", k, s, what)
		if k != "" {
			os.RemoveAll(tmp)
			os.Exit(1)
		}
		return
	}

	res := hx.NewResult(o, "c15")
	res.Rule = "one case = one (real listing, timestamp T) probe of CalcRestorePlan; counts as non-trivial when a plan is returned (distinct by listing and T)"
	nHist, hLen, nRace, rLen, nRestart := 20, 28, 8, 4, 21
	if o.Tier == "thorough" {
		nHist, hLen, nRace, rLen, nRestart = 300, 45, 40, 6, 120
	}
	nViol, nDis := 0, 0
	report := func(kind, sig, what string, h HCase) {
		if kind == "disagreement" {
			res.DisagreementsChecked++
			nDis++
			if nDis > 3 {
				return
			}
		} else {
			nViol++
		}
		res.AddFinding(kind, sig, what, payload{History: &h})
	}
	if o.Corpus != "" {
		ents, _ := filepath.Glob(filepath.Join(o.Corpus, "*.json"))
		sort.Strings(ents)
		for _, p := range ents {
			b, err := os.ReadFile(p)
			if err != nil {
				continue
			}
			var w struct {
				Replay payload `json:"replay"`
			}
			if json.Unmarshal(b, &w) != nil || w.Replay.History == nil {
				continue
			}
			res.Count("corpus")
			if k, s, what := runHistory(tmp, drv, *w.Replay.History, res); k != "" {
				report(k, s, what, *w.Replay.History)
			}
		}
	}
	rnd := hx.NewRand(o.Seed)
	rr := rnd.Fork()
	rs := rnd.Fork()
	for i := 0; i < nHist+nRace+nRestart && nViol < 3; i++ {
		var h HCase
		if i < nRace {
			h = genRace(rr, rLen)
			res.Count("history-race")
		} else if i < nRace+nRestart {
			if i%3 == 2 {
				h = genLag(rs)
				res.Count("history-lag")
			} else {
				h = genRestart(rs)
				res.Count("history-restart")
			}
		} else {
			h = genHistory(rnd, hLen)
		}
		k, s, what := runHistory(tmp, drv, h, res)
		res.Count("history")
		if h.Retention {
			res.Count("history-with-retention")
		}
		if k == "" {
			continue
		}
		if k == "disagreement" && nDis >= 3 {
			nDis++
			res.DisagreementsChecked++
			continue
		}
		h = shrinkHistory(h, func(d HCase) bool {
			for try := 0; try < 2; try++ { // schedules with goroutines may need a second attempt
				if k2, s2, _ := runHistory(tmp, drv, d, nil); k2 == k && s2 == s {
					return true
				}
			}
			return false
		})
		if _, _, w2 := runHistory(tmp, drv, h, nil); w2 != "" {
			what = w2
		}
		report(k, s, what, h)
	}
	res.Notes = append(res.Notes, "real SQLite+DB+Store histories (sync/compact/snapshot, with and without retention at 1 ms thresholds); ledger = header timestamp of each L0 file; race stream: DB.Snapshot() called 0-3 ms after a DB.Sync of a 1-3 MB commit was started in another goroutine; racecommit: application commits while DB.Sync scans a 2-4 MB unsynced WAL (from DB.sync's own debug record, or free-running), commit instants recorded per row; restart stream: WAL grown and checkpointed (PASSIVE/FULL/RESTART/TRUNCATE/none) so that the -wal file may keep a stale tail, DB closed and re-created, 0-2 idle syncs, an unsynced commit, DB.Snapshot, then the sync - probed just after the snapshot's stamp, midway and at the next TXID's replication time, page sizes 1k-16k; Restore(Timestamp=T) must equal the source as it was when the plan's last TXID was replicated (fingerprint of the quiescent source after each sync); every T is handed to Replica.Restore / CalcRestorePlan as the same instant expressed in +02:00, -04:00, UTC, +05:45 and a non-UTC process-local zone; structural oracles (file stamped >= every contained TXID's L0 stamp, L0 stamp >= commit instant of its rows); content oracle (newest app row of Restore(Timestamp=T) belongs to a TXID stamped < T); probes at t-1,t,t+1 and midpoints of every recorded header time and mtime")
	if err := res.Write(o.Out); err != nil {
		hx.Fatal(err)
	}
}
