// Engine c14 (control engine): every deterministic application history is run
// twice, with and without litestream; what the application can read must be identical.
package main

import (
	"encoding/json"
	"fmt"
	"os"
	"path/filepath"
	"runtime"
	"sort"
	"sync"

	"verif/harness/histlib"
	"verif/harness/hx"
)

func compare(h histlib.History) (string, string, histlib.RunStats, error) {
	with, st, err := histlib.RunFinal(h)
	if err != nil {
		return "", "", st, err
	}
	hc := h
	hc.Cfg.NoLitestream = true
	without, _, err := histlib.RunFinal(hc)
	if err != nil {
		return "", "", st, err
	}
	if with.AppBusy != without.AppBusy {
		// The property quantifies over deterministic application histories. A concurrent
		// application writer that timed out waiting for a lock (litestream's checkpoint, or
		// nothing at all in the control run) did not execute the same history; its rows are
		// not compared. Everything else still is.
		st.Kinds["app-contention"]++
		with.Digest, without.Digest = "", ""
	}
	switch {
	case len(with.AppBlocked) > 0 && len(without.AppBlocked) == 0:
		return "app-statement-blocked", fmt.Sprintf("with litestream idle, application statements fail with SQLITE_BUSY (they succeed without litestream): %v", with.AppBlocked), st, nil
	case len(with.LocksDropped) > 0:
		return "posix-locks-dropped", fmt.Sprintf("a litestream operation closed a descriptor on the database file (or its -shm) inside the process that holds SQLite locks on it: all of the process's POSIX locks on the file are gone (another process may now treat the database as unused, delete the WAL, or checkpoint under a reader): %v", with.LocksDropped), st, nil
	case with.FreshErr != "" && without.FreshErr == "":
		return "fresh-connection-fails", "a connection opened after the history cannot read the source with litestream: " + with.FreshErr, st, nil
	case with.Digest != "" && with.FreshDigest != with.Digest && without.FreshDigest == without.Digest:
		return "fresh-connection-differs", fmt.Sprintf("a connection opened after the history reads different schema/rows (digest %s) than the application's own connection (%s)", with.FreshDigest, with.Digest), st, nil
	case with.Digest != without.Digest:
		return "user-data-differs", fmt.Sprintf("user-visible schema/rows differ with litestream (digest %s) and without (%s)", with.Digest, without.Digest), st, nil
	case with.LockRows != 0:
		return "lock-table-not-empty", fmt.Sprintf("_litestream_lock holds %d rows at quiescence", with.LockRows), st, nil
	case with.Integrity != "ok":
		return "integrity-check", "source fails integrity_check: " + with.Integrity, st, nil
	case with.JournalMode != "wal":
		return "journal-mode", "source left WAL mode: " + with.JournalMode, st, nil
	case with.Tables > 2:
		return "extra-internal-tables", fmt.Sprintf("%d internal tables added, expected at most 2", with.Tables), st, nil
	}
	return "", "", st, nil
}

func main() {
	o := hx.ParseFlags("C14")
	res := hx.NewResult(o, "c14: control runs with and without litestream on real SQLite")
	res.Rule = "seeded deterministic application histories (ins/upd/del/rollback/DDL/drop/VACUUM/incremental_vacuum/app checkpoints/long readers) replayed twice: with litestream (Sync, Replica.Sync, Checkpoint(all modes), SyncAndWait, Snapshot, Compact, Close/restart, final Close) and without; compared: logical dump of sqlite_master and all rows of every non-_litestream table, count(*) of _litestream_lock, integrity_check, journal_mode, number of internal tables; non-trivial = litestream performed at least one acknowledged round; distinct = canonical history text"
	if o.Replay != "" {
		h, ok := histlib.LoadHistory(o.Replay)
		if !ok {
			os.Exit(3)
		}
		histlib.WatchLocks = true
		sig, what, _, err := compare(h)
		fmt.Println("history:", h.String(), "err:", err)
		if sig != "" {
			fmt.Println("FAIL", sig, what)
			os.Exit(1)
		}
		os.Exit(0)
	}
	n := 120
	if o.Tier == "thorough" {
		n = 2500
	}
	var hs []histlib.History
	if o.Corpus != "" {
		ents, _ := filepath.Glob(filepath.Join(o.Corpus, "*.json"))
		sort.Strings(ents)
		for _, p := range ents {
			if h, ok := histlib.LoadHistory(p); ok {
				hs = append(hs, h)
			}
		}
	}
	rnd := hx.NewRand(o.Seed)
	for i := 0; i < n; i++ {
		hs = append(hs, histlib.GenC14(rnd.Fork(), o.Tier == "thorough"))
	}
	var mu sync.Mutex
	var wg sync.WaitGroup
	ch := make(chan histlib.History)
	for w := 0; w < runtime.NumCPU(); w++ {
		wg.Add(1)
		go func() {
			defer wg.Done()
			for h := range ch {
				sig, what, st, err := compare(h)
				mu.Lock()
				if err != nil {
					res.Count("harness-error")
					mu.Unlock()
					continue
				}
				res.Case(h.String(), st.Acks > 0)
				res.Count(fmt.Sprintf("ps:%d", h.Cfg.PageSize))
				res.Count("av:" + h.Cfg.AutoVacuum)
				for k, v := range st.Kinds {
					res.Distribution["op:"+k] += v
				}
				if res.Evaluations%30 == 1 {
					res.Sample(map[string]any{"history": h.String(), "acks": st.Acks})
				}
				mu.Unlock()
				if sig != "" {
					sh := histlib.Shrink(h, func(c histlib.History) bool { s2, _, _, e2 := compare(c); return e2 == nil && s2 == sig }, 60)
					mu.Lock()
					res.AddFinding("violation", "C14/"+sig, what, map[string]any{"history": sh, "text": sh.String(), "original": h})
					mu.Unlock()
				}
			}
		}()
	}
	for _, h := range hs {
		ch <- h
	}
	close(ch)
	wg.Wait()
	// serial phase: one history at a time, with the POSIX locks this process holds on the
	// database file and its -shm observed around every litestream operation
	histlib.WatchLocks = true
	serial := 16
	if o.Tier == "thorough" {
		serial = 150
	}
	lrnd := hx.NewRand(o.Seed + 7919)
	for i := 0; i < serial; i++ {
		h := histlib.GenC14(lrnd.Fork(), o.Tier == "thorough")
		with, st, err := histlib.RunFinal(h)
		if err != nil {
			res.Count("harness-error")
			continue
		}
		res.Case("locks: "+h.String(), st.Acks > 0)
		res.Count("lock-watch-histories")
		if len(with.LocksDropped) > 0 {
			pred := func(c histlib.History) bool {
				w, _, e := histlib.RunFinal(c)
				return e == nil && len(w.LocksDropped) > 0
			}
			if !pred(h) {
				res.Count("lock-watch-not-reproduced")
				continue
			}
			sh := histlib.Shrink(h, pred, 40)
			res.AddFinding("violation", "C14/posix-locks-dropped", fmt.Sprintf("a litestream operation closed a descriptor on the database file (or its -shm) inside the process that holds SQLite locks on it: all of the process's POSIX locks on the file are gone (another process may then treat the database as unused and delete the WAL it is still using): %v", with.LocksDropped),
				map[string]any{"history": sh, "text": sh.String(), "original": h})
		}
	}
	histlib.WatchLocks = false
	_ = json.Marshal
	if err := res.Write(o.Out); err != nil {
		hx.Fatal(err)
	}
}
