// Engine c01: histories over the C01 operation set; at every acknowledged
// instant the replica alone must restore to the source's committed state.
package main

import (
	"os"

	"verif/harness/histlib"
	"verif/harness/hx"
)

func main() {
	o := hx.ParseFlags("C01")
	res := hx.NewResult(o, "c01: real SQLite + litestream histories, restore==source at every acknowledged instant")
	res.Rule = "seeded histories of 8-32 ops over {app ins/upd/del/rollback/DDL/drop/VACUUM/incremental_vacuum, app checkpoint PASSIVE|FULL|RESTART|TRUNCATE, long readers, Sync, Replica.Sync, Checkpoint(mode), SyncAndWait (daemon context and request-scoped context), Close+restart, Snapshot, Compact} x page size x auto_vacuum x (MinCheckpointPageN, TruncatePageN, MaxSyncWALBytes); non-trivial = at least one acknowledged instant checked by page-image comparison against the source recovered by SQLite itself; distinct = canonical history text"
	or := histlib.Oracles{AckRestore: true, TraceL0: true}
	if o.Replay != "" {
		os.Exit(histlib.ReplayMain(o, or))
	}
	histlib.RunEngine(o, res, histlib.EngineSpec{ID: "C01", Gen: histlib.GenC01, Oracles: or, NQuick: 200, NThorough: 4000, Extra: histlib.L0Extra(o, "C01")})
	if err := res.Write(o.Out); err != nil {
		hx.Fatal(err)
	}
}
