// Engine c13: WAL bounded after every successful sync; idle syncs go quiet.
package main

import (
	"fmt"
	"os"
	"strings"
	"sync"

	"github.com/benbjohnson/litestream"

	"verif/harness/histlib"
	"verif/harness/hx"
)

func main() {
	o := hx.ParseFlags("C13")
	res := hx.NewResult(o, "c13: write/sync histories followed by idle syncs on real SQLite + litestream")
	res.Rule = "seeded write/sync histories (4-20 ops) followed by 6-10 idle syncs, MinCheckpointPageN in {1,2,3,4,8,20,1000}, TruncatePageN in {0(default),1,2,3,6,30}, CheckpointInterval in {0,1ms,50ms,100s}, MaxSyncWALBytes from one frame to unlimited; oracle: live WAL frames (independent scanner) < lowest threshold + 1 after every successful sync with no pinned application transaction; highest L0 TXID constant over the last idle syncs and at most 3 further files; non-trivial = history reached the idle phase; distinct = canonical history text"
	or := histlib.Oracles{WalBound: true, IdleQuiet: true, Classify: classify, TraceCk: true}
	drv, err := hx.StartDriver(o.Driver)
	if err != nil {
		hx.Fatal(err)
	}
	defer drv.Close()
	if o.Replay != "" {
		os.Exit(histlib.ReplayMain(o, or))
	}
	histlib.RunEngine(o, res, histlib.EngineSpec{ID: "C13", Gen: histlib.GenC13, Oracles: or, NQuick: 250, NThorough: 5000,
		Nontrivial: func(st histlib.RunStats) bool { return st.Kinds["idle"] > 0 },
		Extra: func(h histlib.History, st histlib.RunStats, res *hx.Result, mu *sync.Mutex) {
			mu.Lock()
			defer mu.Unlock()
			for _, c := range st.CkObs {
				model, err := drv.Ask(c.Line)
				if err != nil {
					hx.Fatal(err)
				}
				obs := strings.Join(c.Observed, ",")
				if obs == "" {
					obs = "-"
				}
				res.Count("ck-decision:" + obs)
				if hx.Differs(obs, model) {
					res.DisagreementsChecked++
					res.AddFinding("disagreement", "C13/checkpointIfNeeded-model-vs-impl", fmt.Sprintf("line %q: litestream executed %s, model predicts %s", c.Line, obs, model),
						map[string]any{"history": h, "text": h.String(), "line": c.Line})
				}
			}
		}})
	if err := res.Write(o.Out); err != nil {
		hx.Fatal(err)
	}
}

// classify maps failures in two recorded configuration regions to their
// known-finding signatures (KNOWN_FINDINGS.json); everything else keeps the
// generic signature and is a violation.
func classify(h histlib.History, at int, f *histlib.Fail) {
	trunc := h.Cfg.TruncatePageN
	if trunc == 0 {
		trunc = litestream.DefaultTruncatePageN
	}
	switch f.Sig {
	case "idle-syncs-keep-creating-files", "idle-syncs-too-many-files":
		if h.Cfg.MinCheckpointPageN <= 1 || trunc == 1 {
			f.Sig = "idle-never-quiet-with-threshold-1"
		}
	case "wal-not-bounded-after-sync":
		if trunc < h.Cfg.MinCheckpointPageN {
			// the recorded defect is "the bound is reached one sync late": the sync after the late one
			// checkpoints. The same failure at the directly preceding sync step means the WAL stayed
			// over the bound across two successful syncs in a row — that is not the recorded defect.
			prev := -1
			for i := at - 1; i >= 0; i-- {
				if k := h.Ops[i].K; k == "sync" || k == "syncwait" || k == "syncwaitreq" || k == "idle" {
					prev = i
					break
				}
			}
			for j, e := range f.Earlier {
				if prev >= 0 && j < len(f.EarlierAt) && f.EarlierAt[j] == prev && (e == "wal-bound-one-sync-late-when-truncate-below-min" || e == "wal-not-bounded-two-syncs-running") {
					f.Sig = "wal-not-bounded-two-syncs-running"
					return
				}
			}
			f.Sig = "wal-bound-one-sync-late-when-truncate-below-min"
		}
	}
}
