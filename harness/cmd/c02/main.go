// Engine c02: every TXID on the replica restores to exactly one committed
// state of the source (ledger), monotone in the TXID; L0 gapless.
package main

import (
	"os"

	"verif/harness/histlib"
	"verif/harness/hx"
)

func main() {
	o := hx.ParseFlags("C02")
	res := hx.NewResult(o, "c02: real SQLite + litestream histories with a concurrent application writer; every replicated TXID restored and matched against the commit ledger")
	res.Rule = "seeded histories of 6-24 ops where Sync/SyncAndWait/Checkpoint(mode)/Snapshot/Compact run while a concurrent writer goroutine commits multi-statement transactions and rolls some back; at the end EVERY TXID listed at any level is restored and must equal the logical state after exactly one application commit (ledger), TXID->commit monotone, level-0 gapless; non-trivial = at least 2 TXIDs restored; distinct = canonical history text"
	or := histlib.Oracles{Ledger: true, AckRestore: false, TraceL0: true}
	if o.Replay != "" {
		os.Exit(histlib.ReplayMain(o, or))
	}
	histlib.RunEngine(o, res, histlib.EngineSpec{ID: "C02", Gen: histlib.GenC02, Oracles: or, NQuick: 120, NThorough: 2500,
		Nontrivial: func(st histlib.RunStats) bool { return st.Syncs >= 2 }, Extra: histlib.L0Extra(o, "C02")})
	if err := res.Write(o.Out); err != nil {
		hx.Fatal(err)
	}
}
