// c09: differential + property-oracle engine for C09 ("only frames SQLite itself treats as
// committed are ever replicated").
//
// Real code under test (in-process): litestream.NewWALReader, NewWALReaderWithOffset, ReadFrame,
// PageMap, pageMap(maxBytes) (hook VerifPageMap), FrameSaltsUntil, on byte strings built from REAL
// SQLite WALs (modernc sqlite; page sizes 512/1024/4096; growth, shrink, spilled uncommitted
// frames, rollbacks, several generations with stale tails) and mutated.
//
// Compared with: (1) the compiled Lean model (driver_c09)  -> "disagreement";
// (2) the PROPERTY ORACLE, independent of the model      -> "violation":
//
//	(a) a Go re-implementation of SQLite's recovery rule (refRecover), and
//	(b) REAL SQLite recovery: the mutated WAL is put next to a copy of its database with no -shm,
//	    opened with modernc sqlite, PRAGMA wal_checkpoint(TRUNCATE), and the resulting file is
//	    compared with the database overlaid by litestream's page map;
//	(c) the Lean spec `recover` (independent of the reader model) judged on the implementation's output.
package main

import (
	"bytes"
	"context"
	"database/sql"
	"encoding/binary"
	"encoding/hex"
	"encoding/json"
	"errors"
	"fmt"
	"io"
	"log/slog"
	"os"
	"path/filepath"
	"runtime"
	"sort"
	"strings"
	"sync"

	"github.com/benbjohnson/litestream"
	_ "modernc.org/sqlite"

	"verif/harness/hx"
)

// ---------------------------------------------------------------- ReaderAt with os.File semantics

type sliceReaderAt []byte

func (s sliceReaderAt) ReadAt(p []byte, off int64) (int, error) {
	if len(p) == 0 {
		return 0, nil
	}
	if off < 0 || off >= int64(len(s)) {
		return 0, io.EOF
	}
	n := copy(p, s[off:])
	if n < len(p) {
		return n, io.EOF
	}
	return n, nil
}

var quiet = slog.New(slog.NewTextHandler(io.Discard, nil))

// ---------------------------------------------------------------- running the real code

func errKind(err error) string {
	var pfm *litestream.PrevFrameMismatchError
	switch {
	case errors.As(err, &pfm):
		return "prevframe"
	case errors.Is(err, io.EOF):
		return "eof"
	case strings.Contains(err.Error(), "invalid wal header magic"):
		return "magic"
	case strings.Contains(err.Error(), "unsupported wal version"):
		return "version"
	case strings.Contains(err.Error(), "must be greater than the wal header size"):
		return "offset"
	case strings.Contains(err.Error(), "unaligned wal offset"):
		return "unaligned"
	}
	return "other:" + strings.ReplaceAll(err.Error(), " ", "_")
}

func openReader(w []byte, off int64, salt [2]uint32) (*litestream.WALReader, error) {
	if off == 0 {
		return litestream.NewWALReader(sliceReaderAt(w), quiet)
	}
	return litestream.NewWALReaderWithOffset(context.Background(), sliceReaderAt(w), off, salt[0], salt[1], quiet)
}

type pmRes struct {
	M       map[uint32]int64
	End     int64
	Commit  uint32
	Limited bool
	Err     string // "" = ok
}

func fmtMap(m map[uint32]int64) string {
	keys := make([]uint32, 0, len(m))
	for k := range m {
		keys = append(keys, k)
	}
	sort.Slice(keys, func(i, j int) bool { return keys[i] < keys[j] })
	var sb strings.Builder
	for i, k := range keys {
		if i > 0 {
			sb.WriteByte(',')
		}
		fmt.Fprintf(&sb, "%d:%d", k, m[k])
	}
	return sb.String()
}

func (r pmRes) String() string {
	if r.Err != "" {
		return "err " + r.Err
	}
	lim := 0
	if r.Limited {
		lim = 1
	}
	return fmt.Sprintf("ok end=%d commit=%d lim=%d m=%s", r.End, r.Commit, lim, fmtMap(r.M))
}

func catchPanic(kind *string) {
	if p := recover(); p != nil {
		s := fmt.Sprint(p)
		if strings.Contains(s, "misaligned checksum byte slice") {
			*kind = "misaligned"
		} else {
			*kind = "panic:" + strings.ReplaceAll(s, " ", "_")
		}
	}
}

// implPageMap: NewWALReader / NewWALReaderWithOffset + pageMap(maxBytes). With max == 0 and
// usePublic the exported PageMap is called instead of the hook.
func implPageMap(w []byte, off int64, salt [2]uint32, max int64, usePublic bool) (res pmRes) {
	defer catchPanic(&res.Err)
	rd, err := openReader(w, off, salt)
	if err != nil {
		return pmRes{Err: errKind(err)}
	}
	if usePublic && max == 0 {
		m, end, commit, err := rd.PageMap(context.Background())
		if err != nil {
			return pmRes{Err: errKind(err)}
		}
		return pmRes{M: m, End: end, Commit: commit}
	}
	m, end, commit, limited, err := rd.VerifPageMap(context.Background(), max)
	if err != nil {
		return pmRes{Err: errKind(err)}
	}
	return pmRes{M: m, End: end, Commit: commit, Limited: limited}
}

type frRes struct {
	F    [][2]uint32
	Stop string
	Err  string
	// Again: what a second ReadFrame call after the terminating error returned (not modelled; recorded)
	Again string
}

func (r frRes) String() string {
	if r.Err != "" {
		return "err " + r.Err
	}
	parts := make([]string, len(r.F))
	for i, f := range r.F {
		parts[i] = fmt.Sprintf("%d:%d", f[0], f[1])
	}
	return "ok stop=" + r.Stop + " f=" + strings.Join(parts, ",")
}

func implFrames(w []byte, off int64, salt [2]uint32) (res frRes) {
	defer catchPanic(&res.Stop)
	rd, err := openReader(w, off, salt)
	if err != nil {
		return frRes{Err: errKind(err)}
	}
	data := make([]byte, rd.PageSize())
	for {
		pgno, commit, err := rd.ReadFrame(context.Background(), data)
		if err != nil {
			res.Stop = errKind(err)
			if _, _, err2 := rd.ReadFrame(context.Background(), data); err2 != nil {
				res.Again = errKind(err2)
			} else {
				res.Again = "ok"
			}
			return res
		}
		res.F = append(res.F, [2]uint32{pgno, commit})
	}
}

// implChunks: the chunk loop of db.go Sync/syncOnce reduced to the reader: first chunk from the
// start, each further chunk from the previous end with the header salts, while limited.
func implChunks(w []byte, salt [2]uint32, max int64) (out []pmRes, errk string) {
	off := int64(litestream.WALHeaderSize)
	for i := 0; i < len(w)+2; i++ {
		o := off
		if off == litestream.WALHeaderSize {
			o = 0
		}
		r := implPageMap(w, o, salt, max, false)
		if r.Err != "" {
			return nil, r.Err
		}
		out = append(out, r)
		if r.Limited && r.End > off {
			off = r.End
			continue
		}
		return out, ""
	}
	return out, ""
}

func fmtChunks(rs []pmRes, errk string) string {
	if errk != "" {
		return "err " + errk
	}
	parts := make([]string, len(rs))
	for i, r := range rs {
		lim := 0
		if r.Limited {
			lim = 1
		}
		parts[i] = fmt.Sprintf("%d/%d/%d/%s", r.End, r.Commit, lim, fmtMap(r.M))
	}
	return "ok " + strings.Join(parts, ";")
}

func implSalts(w []byte, until [2]uint32) (s string) {
	var k string
	defer func() {
		if k != "" {
			s = "err " + k
		}
	}()
	defer catchPanic(&k)
	rd, err := litestream.NewWALReader(sliceReaderAt(w), quiet)
	if err != nil {
		return "err " + errKind(err)
	}
	m, err := rd.FrameSaltsUntil(context.Background(), until)
	if err != nil {
		return "err " + errKind(err)
	}
	l := make([][2]uint32, 0, len(m))
	for k := range m {
		l = append(l, k)
	}
	sort.Slice(l, func(i, j int) bool { return l[i][0] < l[j][0] || (l[i][0] == l[j][0] && l[i][1] < l[j][1]) })
	parts := make([]string, len(l))
	for i, k := range l {
		parts[i] = fmt.Sprintf("%d:%d", k[0], k[1])
	}
	return "ok s=" + strings.Join(parts, ",")
}

// ---------------------------------------------------------------- reference rule (independent re-implementation)

func refU32(b []byte) uint32 { return uint32(b[0])<<24 | uint32(b[1])<<16 | uint32(b[2])<<8 | uint32(b[3]) }

// refCk: SQLite's walChecksumBytes, written from the file-format document, not from litestream.
func refCk(bigEndian bool, s0, s1 uint32, b []byte) (uint32, uint32) {
	for i := 0; i+8 <= len(b); i += 8 {
		var x, y uint32
		if bigEndian {
			x, y = refU32(b[i:]), refU32(b[i+4:])
		} else {
			x = uint32(b[i]) | uint32(b[i+1])<<8 | uint32(b[i+2])<<16 | uint32(b[i+3])<<24
			y = uint32(b[i+4]) | uint32(b[i+5])<<8 | uint32(b[i+6])<<16 | uint32(b[i+7])<<24
		}
		s0 += x + s1
		s1 += y + s0
	}
	return s0, s1
}

type refFrame struct {
	Pgno, Commit uint32
	Salt, Ck     [2]uint32
	Off          int64
	ChainOK      bool // salt == header salt and cumulative checksum matches (given all earlier ones did)
}

type refWAL struct {
	HdrKind string // "" ok | eof | magic | version
	BE      bool
	PS      uint32
	Salt    [2]uint32
	Ck      [2]uint32
	Frames  []refFrame // every complete physical frame
	NValid  int        // longest prefix by litestream's rule (salt + chain)
	NSqlite int        // longest prefix by SQLite's rule (also pgno != 0)
	Excl    []string   // excluded points hit (E1): pgno0, pagesize
}

func goodPageSize(ps uint32) bool { return ps >= 512 && ps <= 65536 && ps&(ps-1) == 0 }

func refParse(w []byte) *refWAL {
	r := &refWAL{}
	if len(w) < 32 {
		r.HdrKind = "eof"
		return r
	}
	magic := refU32(w)
	if magic != 0x377f0682 && magic != 0x377f0683 {
		r.HdrKind = "magic"
		return r
	}
	r.BE = magic&1 == 1
	r.Ck = [2]uint32{refU32(w[24:]), refU32(w[28:])}
	if a, b := refCk(r.BE, 0, 0, w[:24]); a != r.Ck[0] || b != r.Ck[1] {
		r.HdrKind = "eof"
		return r
	}
	if refU32(w[4:]) != 3007000 {
		r.HdrKind = "version"
		return r
	}
	r.PS = refU32(w[8:])
	r.Salt = [2]uint32{refU32(w[16:]), refU32(w[20:])}
	if !goodPageSize(r.PS) {
		r.Excl = append(r.Excl, "pagesize")
	}
	if r.PS > 1<<20 {
		return r
	}
	fs := int64(r.PS) + 24
	s0, s1 := r.Ck[0], r.Ck[1]
	chain := r.PS%8 == 0
	sq := true
	for off := int64(32); off+fs <= int64(len(w)); off += fs {
		h := w[off : off+24]
		f := refFrame{Pgno: refU32(h), Commit: refU32(h[4:]), Salt: [2]uint32{refU32(h[8:]), refU32(h[12:])},
			Ck: [2]uint32{refU32(h[16:]), refU32(h[20:])}, Off: off}
		if chain {
			if f.Salt != r.Salt {
				chain = false
			} else {
				s0, s1 = refCk(r.BE, s0, s1, h[:8])
				s0, s1 = refCk(r.BE, s0, s1, w[off+24:off+fs])
				if s0 != f.Ck[0] || s1 != f.Ck[1] {
					chain = false
				}
			}
			if chain {
				f.ChainOK = true
				r.NValid++
				if f.Pgno == 0 {
					if sq {
						r.Excl = append(r.Excl, "pgno0")
					}
					sq = false
				}
				if sq {
					r.NSqlite++
				}
			}
		}
		r.Frames = append(r.Frames, f)
	}
	return r
}

type refRec struct {
	Mx     int
	Commit uint32
	M      map[uint32]int64
	End    int64
	// CommitTrim: the last commit frame's own pgno exceeds its commit size (E1 end-offset guard)
	CommitTrim bool
}

// refRecoverRange: SQLite's rule on the valid frames [from, to): last commit, latest version per
// page up to it, pages <= commit only.
func (r *refWAL) recoverRange(from, to int) refRec {
	rec := refRec{M: map[uint32]int64{}}
	for i := from; i < to; i++ {
		if r.Frames[i].Commit != 0 {
			rec.Mx = i + 1
			rec.Commit = r.Frames[i].Commit
		}
	}
	if rec.Mx == 0 {
		return rec
	}
	for i := from; i < rec.Mx; i++ {
		if f := r.Frames[i]; f.Pgno <= rec.Commit {
			rec.M[f.Pgno] = f.Off
		}
	}
	rec.End = 32 + int64(rec.Mx)*(int64(r.PS)+24)
	rec.CommitTrim = r.Frames[rec.Mx-1].Pgno > rec.Commit
	return rec
}

func sameMap(a, b map[uint32]int64) bool {
	if len(a) != len(b) {
		return false
	}
	for k, v := range a {
		if w, ok := b[k]; !ok || w != v {
			return false
		}
	}
	return true
}

// ---------------------------------------------------------------- real SQLite recovery

// sqliteRecover puts wal next to db (no -shm), lets real SQLite recover and checkpoint, returns the file.
func sqliteRecover(dir string, db, wal []byte) ([]byte, error) {
	p := filepath.Join(dir, "r.db")
	os.Remove(p + "-shm")
	if err := os.WriteFile(p, db, 0o644); err != nil {
		return nil, err
	}
	if err := os.WriteFile(p+"-wal", wal, 0o644); err != nil {
		return nil, err
	}
	d, err := sql.Open("sqlite", p)
	if err != nil {
		return nil, err
	}
	d.SetMaxOpenConns(1)
	var a, b, c int
	err = d.QueryRow("PRAGMA wal_checkpoint(TRUNCATE)").Scan(&a, &b, &c)
	cerr := d.Close()
	if err != nil {
		return nil, err
	}
	if cerr != nil {
		return nil, cerr
	}
	if a != 0 {
		return nil, fmt.Errorf("checkpoint busy")
	}
	return os.ReadFile(p)
}

// overlay: the database as litestream would replicate it from (db, page map, commit).
func overlay(db, wal []byte, ps int, m map[uint32]int64, commit uint32) (out []byte, hole bool) {
	if len(m) == 0 {
		return db, false
	}
	out = make([]byte, int(commit)*ps)
	for p := 1; p <= int(commit); p++ {
		dst := out[(p-1)*ps : p*ps]
		if off, ok := m[uint32(p)]; ok {
			copy(dst, wal[off+24:off+24+int64(ps)])
		} else if p*ps <= len(db) {
			copy(dst, db[(p-1)*ps:p*ps])
		} else {
			hole = true
		}
	}
	return out, hole
}

// ---------------------------------------------------------------- bases: real SQLite WALs

type Base struct {
	Name string
	PS   int
	DB   []byte
	WAL  []byte
}

func mustExec(d *sql.DB, q string, args ...any) {
	if _, err := d.Exec(q, args...); err != nil {
		hx.Fatal(fmt.Errorf("sqlite %q: %w", q, err))
	}
}

func genBases(r *hx.Rand, dir string, ps int, tag string, big bool) []Base {
	p := filepath.Join(dir, fmt.Sprintf("b-%d-%s.db", ps, tag))
	d, err := sql.Open("sqlite", p)
	if err != nil {
		hx.Fatal(err)
	}
	defer d.Close()
	d.SetMaxOpenConns(1)
	mustExec(d, fmt.Sprintf("PRAGMA page_size=%d", ps))
	av := r.Chance(50)
	if av {
		mustExec(d, "PRAGMA auto_vacuum=incremental")
	}
	mustExec(d, "CREATE TABLE t(id INTEGER PRIMARY KEY, v BLOB)")
	mustExec(d, "INSERT INTO t(v) VALUES (randomblob(10))")
	var mode string
	if err := d.QueryRow("PRAGMA journal_mode=wal").Scan(&mode); err != nil || mode != "wal" {
		hx.Fatal(fmt.Errorf("journal_mode=wal: %v %q", err, mode))
	}
	mustExec(d, "PRAGMA wal_autocheckpoint=0")
	var out []Base
	snap := func(name string) {
		db, err1 := os.ReadFile(p)
		wal, err2 := os.ReadFile(p + "-wal")
		if err1 != nil || err2 != nil {
			hx.Fatal(fmt.Errorf("snapshot: %v %v", err1, err2))
		}
		out = append(out, Base{Name: fmt.Sprintf("ps%d-%s-%s", ps, tag, name), PS: ps, DB: db, WAL: wal})
	}
	scale := 1
	if ps >= 4096 && !big {
		scale = 0
	}
	tx := func() {
		switch r.Intn(6) {
		case 0, 1: // growth
			mustExec(d, "INSERT INTO t(v) VALUES (randomblob(?))", ps/2+r.Intn(ps*(1+scale)))
		case 2: // small insert
			mustExec(d, "INSERT INTO t(v) VALUES (randomblob(?))", 5+r.Intn(40))
		case 3: // update (re-writes pages)
			mustExec(d, "UPDATE t SET v = randomblob(length(v)) WHERE id = (SELECT id FROM t ORDER BY random() LIMIT 1)")
		case 4: // multi-statement transaction
			t, err := d.Begin()
			if err != nil {
				hx.Fatal(err)
			}
			for i := 0; i < 2+r.Intn(2); i++ {
				if _, err := t.Exec("INSERT INTO t(v) VALUES (randomblob(?))", 20+r.Intn(ps)); err != nil {
					hx.Fatal(err)
				}
			}
			if err := t.Commit(); err != nil {
				hx.Fatal(err)
			}
		case 5: // delete + shrink when auto_vacuum
			mustExec(d, "DELETE FROM t WHERE id IN (SELECT id FROM t ORDER BY random() LIMIT 2)")
			if av {
				mustExec(d, "PRAGMA incremental_vacuum")
			}
		}
	}
	n1 := 3 + r.Intn(4)
	for i := 0; i < n1; i++ {
		tx()
	}
	snap("gen1")
	// spilled, uncommitted frames: tiny cache, long transaction
	if r.Chance(70) {
		mustExec(d, "PRAGMA cache_size=1")
		t, err := d.Begin()
		if err != nil {
			hx.Fatal(err)
		}
		for i := 0; i < 4+r.Intn(4); i++ {
			if _, err := t.Exec("INSERT INTO t(v) VALUES (randomblob(?))", ps+r.Intn(ps)); err != nil {
				hx.Fatal(err)
			}
		}
		snap("spill")
		if r.Bool() {
			t.Rollback()
			tx()
			snap("rollback")
		} else {
			t.Commit()
			snap("spillcommit")
		}
		mustExec(d, "PRAGMA cache_size=-2000")
	}
	if r.Chance(40) {
		mustExec(d, "VACUUM")
		snap("vacuum")
	}
	// next generations: checkpoint, then the next write restarts the WAL leaving a stale tail
	for g := 2; g <= 3; g++ {
		var a, b, c int
		if err := d.QueryRow("PRAGMA wal_checkpoint(RESTART)").Scan(&a, &b, &c); err != nil {
			hx.Fatal(err)
		}
		for i := 0; i < 1+r.Intn(3); i++ {
			tx()
		}
		snap(fmt.Sprintf("gen%d", g))
	}
	return out
}

// ---------------------------------------------------------------- mutations

func be32(b []byte) uint32 { return binary.BigEndian.Uint32(b) }

// rechecksum rewrites the header checksum and the cumulative checksums of frames [0,n) in byte
// order given by the (possibly edited) magic; frames keep their salts unless fixSalt.
func rechecksum(w []byte, n int, fixSalt bool) {
	if len(w) < 32 {
		return
	}
	beo := be32(w)&1 == 1
	s0, s1 := refCk(beo, 0, 0, w[:24])
	binary.BigEndian.PutUint32(w[24:], s0)
	binary.BigEndian.PutUint32(w[28:], s1)
	ps := int(be32(w[8:]))
	if ps > 1<<20 {
		return
	}
	fs := ps + 24
	for i := 0; i < n && 32+(i+1)*fs <= len(w); i++ {
		o := 32 + i*fs
		if fixSalt {
			copy(w[o+8:o+16], w[16:24])
		}
		s0, s1 = refCk(beo, s0, s1, w[o:o+8])
		s0, s1 = refCk(beo, s0, s1, w[o+24:o+fs])
		binary.BigEndian.PutUint32(w[o+16:], s0)
		binary.BigEndian.PutUint32(w[o+20:], s1)
	}
}

type Mut struct {
	Name   string
	Forged bool // re-checksummed edit: outside the property's stated mutation set (E1 class possible)
	W      []byte
}

func clone(b []byte) []byte { return append([]byte(nil), b...) }

// mutate produces one mutated WAL from base (and possibly a donor WAL of the same page size).
func mutate(r *hx.Rand, base, donor []byte, ps int) Mut {
	w := clone(base)
	if len(w) < 32 { // nothing but a torn header left: only cut it further
		return Mut{Name: "trunc-hdr", W: w[:r.Intn(len(w)+1)]}
	}
	fs := ps + 24
	nf := 0
	if len(w) >= 32 {
		nf = (len(w) - 32) / fs
	}
	ref := refParse(base)
	nv := ref.NValid
	if int(ref.PS) != ps {
		nv = 0
	}
	if nv > nf {
		nv = nf
	}
	pick := func() int { // a frame index, biased to the valid prefix
		if nv > 0 && r.Chance(75) {
			return r.Intn(nv)
		}
		if nf == 0 {
			return 0
		}
		return r.Intn(nf)
	}
	switch k := r.Intn(16); k {
	case 0: // truncation, every offset class
		if nf == 0 {
			return Mut{Name: "trunc-hdr", W: w[:r.Intn(len(w)+1)]}
		}
		b := 32 + r.Intn(nf+1)*fs
		deltas := []int{0, -1, 1, 8, 23, 24, 25, 24 + ps/2, fs - 1, -fs / 2}
		cut := b + deltas[r.Intn(len(deltas))]
		if r.Chance(8) {
			cut = r.Intn(33)
		}
		if cut < 0 {
			cut = 0
		}
		if cut > len(w) {
			cut = len(w)
		}
		return Mut{Name: "trunc", W: w[:cut]}
	case 1: // bit flip in a frame header field
		if nf == 0 {
			break
		}
		o := 32 + pick()*fs + r.Intn(24)
		w[o] ^= 1 << r.Intn(8)
		return Mut{Name: fmt.Sprintf("flip-fhdr@%d", (o-32)%fs), W: w}
	case 2: // bit flip in page data
		if nf == 0 {
			break
		}
		o := 32 + pick()*fs + 24 + r.Intn(ps)
		w[o] ^= 1 << r.Intn(8)
		return Mut{Name: "flip-data", W: w}
	case 3: // bit flip in the WAL header
		o := r.Intn(32)
		w[o] ^= 1 << r.Intn(8)
		return Mut{Name: fmt.Sprintf("flip-hdr@%d", o), W: w}
	case 4: // duplicate frame i over frame j
		if nf < 2 {
			break
		}
		i, j := pick(), pick()
		copy(w[32+j*fs:32+(j+1)*fs], base[32+i*fs:32+(i+1)*fs])
		return Mut{Name: "dup-over", W: w}
	case 5: // swap two frames
		if nf < 2 {
			break
		}
		i, j := pick(), pick()
		copy(w[32+j*fs:32+(j+1)*fs], base[32+i*fs:32+(i+1)*fs])
		copy(w[32+i*fs:32+(i+1)*fs], base[32+j*fs:32+(j+1)*fs])
		return Mut{Name: "swap", W: w}
	case 6: // insert a duplicate (shifts the rest)
		if nf < 1 {
			break
		}
		i, j := pick(), pick()
		fr := clone(base[32+i*fs : 32+(i+1)*fs])
		w = append(append(clone(base[:32+j*fs]), fr...), base[32+j*fs:]...)
		return Mut{Name: "dup-insert", W: w}
	case 7: // stale tail: valid prefix cut at a frame boundary + frames of another WAL
		if len(donor) < 32+fs {
			break
		}
		cut := 32
		if nv > 0 {
			cut = 32 + r.Intn(nv+1)*fs
		}
		dn := (len(donor) - 32) / fs
		from := r.Intn(dn)
		w = append(clone(base[:cut]), donor[32+from*fs:]...)
		return Mut{Name: "stale-tail", W: w}
	case 8: // salt edit in a frame
		if nf == 0 {
			break
		}
		o := 32 + pick()*fs + 8 + r.Intn(8)
		w[o] += byte(1 + r.Intn(255))
		return Mut{Name: "salt-frame", W: w}
	case 9: // salt edit in the header, without / with fixing the header checksum
		w[16+r.Intn(8)] += byte(1 + r.Intn(255))
		if r.Bool() {
			beo := be32(w)&1 == 1
			s0, s1 := refCk(beo, 0, 0, w[:24])
			binary.BigEndian.PutUint32(w[24:], s0)
			binary.BigEndian.PutUint32(w[28:], s1)
			return Mut{Name: "salt-hdr-fixed", W: w}
		}
		return Mut{Name: "salt-hdr", W: w}
	case 10: // commit-field edit, no re-checksum
		if nf == 0 {
			break
		}
		o := 32 + pick()*fs + 4
		if be32(w[o:]) == 0 {
			binary.BigEndian.PutUint32(w[o:], uint32(1+r.Intn(40)))
		} else if r.Bool() {
			binary.BigEndian.PutUint32(w[o:], 0)
		} else {
			binary.BigEndian.PutUint32(w[o:], uint32(1+r.Intn(40)))
		}
		return Mut{Name: "commit-edit", W: w}
	case 11: // commit-field edit, chain re-checksummed (forged but valid WAL)
		if nv == 0 {
			break
		}
		o := 32 + r.Intn(nv)*fs + 4
		if be32(w[o:]) == 0 {
			binary.BigEndian.PutUint32(w[o:], uint32(1+r.Intn(40)))
		} else if r.Bool() {
			binary.BigEndian.PutUint32(w[o:], 0)
		} else {
			binary.BigEndian.PutUint32(w[o:], uint32(1+r.Intn(40)))
		}
		rechecksum(w, nv, false)
		return Mut{Name: "commit-edit-rechecksum", Forged: true, W: w}
	case 12: // byte-order re-encoding of the live generation
		w[3] ^= 1
		rechecksum(w, nv, false)
		return Mut{Name: "byteorder", W: w}
	case 13: // byte-order re-encoding + a second mutation
		w[3] ^= 1
		rechecksum(w, nv, false)
		m2 := mutate(r, w, donor, ps)
		m2.Name = "byteorder+" + m2.Name
		return m2
	case 14: // two stacked mutations
		m1 := mutate(r, w, donor, ps)
		m2 := mutate(r, m1.W, donor, ps)
		return Mut{Name: m1.Name + "+" + m2.Name, Forged: m1.Forged || m2.Forged, W: m2.W}
	case 15: // malformed stream: excluded points E1 (forgeries with valid checksums)
		switch r.Intn(4) {
		case 0: // pgno = 0 in a valid frame
			if nv == 0 {
				break
			}
			binary.BigEndian.PutUint32(w[32+r.Intn(nv)*fs:], 0)
			rechecksum(w, nv, false)
			return Mut{Name: "forge-pgno0", Forged: true, W: w}
		case 1: // header page size not a power of two / not 512..65536 (frames re-laid-out are garbage)
			sizes := []uint32{0, 8, 24, 100, 520, 1000, 1536, 256, 131072, uint32(ps / 2), uint32(ps * 2), uint32(ps + 8)}
			nps := sizes[r.Intn(len(sizes))]
			binary.BigEndian.PutUint32(w[8:], nps)
			rechecksum(w, len(w), r.Bool())
			return Mut{Name: fmt.Sprintf("forge-pagesize-%d", nps), Forged: true, W: w}
		case 2: // commit frame whose own pgno exceeds its commit size
			if nv == 0 {
				break
			}
			i := r.Intn(nv)
			o := 32 + i*fs
			binary.BigEndian.PutUint32(w[o+4:], uint32(1+r.Intn(3)))
			binary.BigEndian.PutUint32(w[o:], uint32(5+r.Intn(100)))
			rechecksum(w, nv, false)
			return Mut{Name: "forge-commit-pgno-gt-commit", Forged: true, W: w}
		case 3: // version / magic edits with fixed checksum
			if r.Bool() {
				binary.BigEndian.PutUint32(w[4:], 3007000+uint32(r.Intn(3)))
			} else {
				w[r.Intn(3)] ^= 1 << r.Intn(8)
			}
			rechecksum(w, nv, false)
			return Mut{Name: "forge-hdr", Forged: true, W: w}
		}
	}
	return Mut{Name: "identity", W: w}
}

// ---------------------------------------------------------------- a job: one WAL, several operations

type Job struct {
	Base   string `json:"base"`
	Mut    string `json:"mut"`
	Forged bool   `json:"forged"`
	PS     int    `json:"ps"`
	WalHex string `json:"wal_hex"`
	DBHex  string `json:"db_hex,omitempty"`
	Full   bool   `json:"full"` // all start offsets and all budgets around commits (else a sample)
	Sqlite bool   `json:"sqlite"`
	Seed   uint64 `json:"seed"`
	wal    []byte
	db     []byte
}

type opOut struct {
	line, impl string
	kind       string // wal | frames | chunks | salts | recover
}

type failure struct {
	kind, sig, what string
	line            string
}

type jobOut struct {
	ops      []opOut
	fails    []failure
	counts   []string
	nontriv  bool
	canon    string
	samples  []any
}

func (j *Job) bytes() {
	if j.wal == nil && j.WalHex != "" {
		j.wal, _ = hex.DecodeString(j.WalHex)
	}
	if j.db == nil && j.DBHex != "" {
		j.db, _ = hex.DecodeString(j.DBHex)
	}
}

func saltStr(s [2]uint32) string { return fmt.Sprintf("%d:%d", s[0], s[1]) }

// runJob evaluates every operation of a job on the real code, asks the driver, applies the oracles.
func runJob(j *Job, drv *hx.Driver, tmp string) jobOut {
	j.bytes()
	w := j.wal
	hx_ := hex.EncodeToString(w)
	r := hx.NewRand(j.Seed)
	ref := refParse(w)
	var out jobOut
	cnt := func(k string) { out.counts = append(out.counts, k) }
	fail := func(kind, sig, what, line string) {
		out.fails = append(out.fails, failure{kind, sig, what, line})
	}
	excluded := len(ref.Excl) > 0
	for _, e := range ref.Excl {
		cnt("excluded:" + e)
	}
	fs := int64(ref.PS) + 24

	// ---- 1. PageMap from the start (exported API)
	full := implPageMap(w, 0, [2]uint32{}, 0, true)
	line := "wal OFF=0 SALT=0:0 MAX=0 HEX=" + hx_
	out.ops = append(out.ops, opOut{line, full.String(), "wal"})
	cnt("pagemap:" + strings.Fields(full.String())[0] + ":" + full.Err)
	var rec refRec
	if ref.HdrKind != "" {
		if full.Err != ref.HdrKind {
			fail("violation", "C09/header-accept", fmt.Sprintf("header rejected by the WAL format rule (%s) but litestream returned %s", ref.HdrKind, full), line)
		}
	} else if ref.PS <= 1<<20 {
		rec = ref.recoverRange(0, ref.NSqlite)
		if rec.CommitTrim {
			cnt("excluded:commit-pgno-gt-commit")
		}
		switch {
		case full.Err == "misaligned" && ref.PS%8 != 0:
			cnt("excluded-outcome:pagesize->panic-misaligned")
		case full.Err != "":
			fail("violation", "C09/pagemap-error", fmt.Sprintf("valid header but litestream PageMap failed: %s", full), line)
		case excluded:
			// E1: outside the property (SQLite rejects, litestream does not); outcome recorded only
			same := sameMap(full.M, rec.M) && full.Commit == rec.Commit
			cnt(fmt.Sprintf("excluded-outcome:%s->same-as-sqlite=%v", strings.Join(ref.Excl, "+"), same))
		default:
			if !sameMap(full.M, rec.M) || (len(rec.M) > 0 && full.Commit != rec.Commit) || (len(rec.M) == 0 && full.Commit != 0) {
				fail("violation", "C09/pagemap-ne-sqlite-rule", fmt.Sprintf("PageMap differs from SQLite's recovery rule: litestream %s; rule commit=%d mx=%d m=%s (mutation %s)",
					full, rec.Commit, rec.Mx, fmtMap(rec.M), j.Mut), line)
			} else if rec.CommitTrim {
				cnt(fmt.Sprintf("excluded-outcome:commit-pgno-gt-commit->end-at-commit-boundary=%v", full.End == rec.End))
			} else if full.End != rec.End {
				fail("violation", "C09/end-offset", fmt.Sprintf("PageMap end offset %d differs from the end of the last commit frame %d", full.End, rec.End), line)
			}
		}
		if rec.Mx > 0 {
			out.nontriv = true
		}
		cnt(fmt.Sprintf("valid-frames:%s", bucket(ref.NValid)))
		if ref.NValid < len(ref.Frames) {
			cnt("has-invalid-tail")
		}
		if rec.Mx < ref.NSqlite {
			cnt("has-uncommitted-tail")
		}
		if ref.BE {
			cnt("byteorder:be")
		} else {
			cnt("byteorder:le")
		}
	}

	// ---- 1b. Lean spec `recover` judged on the implementation's output
	if full.Err == "" && !excluded && !hx.NoModel {
		out.ops = append(out.ops, opOut{"recover HEX=" + hx_, "", "recover"})
	}

	// ---- 1c. real SQLite recovery
	if j.Sqlite && full.Err == "" && !excluded && !rec.CommitTrim && len(j.db) > 0 && int(ref.PS) == j.PS {
		exp, hole := overlay(j.db, w, j.PS, full.M, full.Commit)
		if hole {
			cnt("sqlite:skipped-hole")
		} else if got, err := sqliteRecover(tmp, j.db, w); err != nil {
			cnt("sqlite:unusable")
		} else if !bytes.Equal(got, exp) {
			fail("violation", "C09/pagemap-ne-real-sqlite", fmt.Sprintf("database recovered by real SQLite (%d bytes) differs from the database overlaid with litestream's page map (%d bytes); litestream %s (mutation %s)",
				len(got), len(exp), full, j.Mut), line)
		} else {
			cnt("sqlite:agree")
			if len(full.M) > 0 {
				cnt("sqlite:agree-nonempty")
			}
		}
	}

	// ---- 2. ReadFrame until error
	fr := implFrames(w, 0, [2]uint32{})
	line = "frames OFF=0 SALT=0:0 HEX=" + hx_
	out.ops = append(out.ops, opOut{line, fr.String(), "frames"})
	if fr.Err == "" {
		cnt("reread-after-stop:" + fr.Again)
		if ref.HdrKind == "" && ref.PS <= 1<<20 && ref.PS%8 == 0 {
			ok := len(fr.F) == ref.NValid && fr.Stop == "eof"
			for i := 0; ok && i < ref.NValid; i++ {
				ok = fr.F[i] == [2]uint32{ref.Frames[i].Pgno, ref.Frames[i].Commit}
			}
			if !ok {
				fail("violation", "C09/frames-ne-valid-prefix", fmt.Sprintf("ReadFrame yielded %d frames (stop %s), the valid prefix (salt + cumulative checksum) has %d", len(fr.F), fr.Stop, ref.NValid), line)
			}
		}
	}

	if ref.HdrKind != "" || ref.PS > 1<<20 {
		// header-level cases: still exercise the offset constructor error order
		for _, off := range []int64{1, 32, 33, 32 + 536} {
			res := implPageMap(w, off, ref.Salt, 0, false)
			out.ops = append(out.ops, opOut{fmt.Sprintf("wal OFF=%d SALT=%s MAX=0 HEX=%s", off, saltStr(ref.Salt), hx_), res.String(), "wal"})
		}
		out.canon = j.Mut + "|" + hx_
		return out
	}

	// ---- 3. resume from offsets
	nPhys := int64(len(ref.Frames))
	var offs []int64
	if j.Full {
		for k := int64(0); k <= nPhys+1; k++ {
			offs = append(offs, 32+k*fs)
		}
		offs = append(offs, 1, 31, 33, 32+fs-1, 32+fs+1)
	} else {
		for i := 0; i < 3; i++ {
			offs = append(offs, 32+int64(r.Intn(int(nPhys)+2))*fs)
		}
		if r.Chance(20) {
			offs = append(offs, int64(r.Intn(len(w)+40)))
		}
	}
	for _, off := range offs {
		salt := ref.Salt
		if r.Chance(15) {
			k := (off - 32) / fs
			if k >= 1 && k <= nPhys {
				salt = ref.Frames[k-1].Salt
			} else {
				salt[r.Intn(2)] ^= 1 << r.Intn(32)
			}
		}
		max := int64(0)
		if r.Chance(25) {
			max = int64(r.Intn(int(4*fs) + 1))
		}
		res := implPageMap(w, off, salt, max, false)
		line := fmt.Sprintf("wal OFF=%d SALT=%s MAX=%d HEX=%s", off, saltStr(salt), max, hx_)
		out.ops = append(out.ops, opOut{line, res.String(), "wal"})
		cnt("resume:" + strings.Fields(res.String())[0] + ":" + res.Err)
		// oracle (resume_eq_drop / resume_rejects), within the valid prefix, header salts, no budget
		aligned := off > 32 && (off-32)%fs == 0
		if !aligned || ref.PS%8 != 0 {
			continue
		}
		k := int((off - 32) / fs)
		if k <= int(nPhys) && ref.Frames[k-1].Salt != salt {
			if res.Err != "prevframe" {
				fail("violation", "C09/resume-accepts-foreign-prev-frame", fmt.Sprintf("previous frame carries salt %v, caller expects %v, but NewWALReaderWithOffset returned %s", ref.Frames[k-1].Salt, salt, res), line)
			}
			continue
		}
		if k > int(nPhys) {
			if res.Err != "prevframe" {
				fail("violation", "C09/resume-without-prev-frame", fmt.Sprintf("no complete frame before offset %d but NewWALReaderWithOffset returned %s", off, res), line)
			}
			continue
		}
		if excluded || max != 0 || salt != ref.Salt || k > ref.NSqlite {
			continue
		}
		part := ref.recoverRange(k, ref.NSqlite)
		if res.Err != "" || !sameMap(res.M, part.M) || (len(part.M) > 0 && res.Commit != part.Commit) {
			fail("violation", "C09/resume-ne-rest-of-valid-prefix", fmt.Sprintf("resuming at frame %d of %d valid: litestream %s; rule commit=%d m=%s", k, ref.NSqlite, res, part.Commit, fmtMap(part.M)), line)
		} else if len(part.M) > 0 && !part.CommitTrim && res.End != part.End {
			fail("violation", "C09/end-offset", fmt.Sprintf("resume at frame %d: end offset %d differs from the end of the last commit frame %d", k, res.End, part.End), line)
		}
	}

	// ---- 4. budgets around every commit: chunked == unbudgeted
	var budgets []int64
	for i := 0; i < ref.NSqlite; i++ {
		if ref.Frames[i].Commit != 0 {
			e := int64(i+1) * fs
			budgets = append(budgets, e-1, e, e+1)
		}
	}
	budgets = append(budgets, 1, fs, 2*fs+1)
	if !j.Full && len(budgets) > 4 {
		var b2 []int64
		for i := 0; i < 4; i++ {
			b2 = append(b2, budgets[r.Intn(len(budgets))])
		}
		budgets = b2
	}
	for _, max := range budgets {
		rs, ek := implChunks(w, ref.Salt, max)
		line := fmt.Sprintf("chunks MAX=%d HEX=%s", max, hx_)
		out.ops = append(out.ops, opOut{line, fmtChunks(rs, ek), "chunks"})
		cnt(fmt.Sprintf("chunks:n=%s", bucket(len(rs))))
		if ek != "" || excluded || full.Err != "" || ref.PS%8 != 0 {
			continue
		}
		// composition oracle: chunks applied in order (later wins, then cut at the last commit) == unbudgeted
		merged := map[uint32]int64{}
		var lastCommit uint32
		var lastEnd int64
		trimmedAway := false
		for _, c := range rs {
			if len(c.M) == 0 {
				continue
			}
			for k, v := range c.M {
				merged[k] = v
			}
			lastCommit, lastEnd = c.Commit, c.End
		}
		for k := range merged {
			if k > lastCommit {
				delete(merged, k)
				trimmedAway = true
			}
		}
		_ = trimmedAway
		if !sameMap(merged, full.M) || lastCommit != full.Commit {
			if j.Forged {
				cnt("excluded-outcome:forged-regrowth->chunks-differ")
			} else {
				fail("violation", "C09/chunks-ne-unbudgeted", fmt.Sprintf("budget %d: %d chunks compose to commit=%d m=%s, unbudgeted %s", max, len(rs), lastCommit, fmtMap(merged), full), line)
			}
		} else if !rec.CommitTrim && lastEnd != full.End {
			if j.Forged {
				cnt("excluded-outcome:forged->chunk-end-differs")
			} else {
				fail("violation", "C09/chunks-end", fmt.Sprintf("budget %d: chunks end at %d, unbudgeted at %d", max, lastEnd, full.End), line)
			}
		}
		// every chunk but the last must stop exactly at a commit boundary and have used its budget
		for i, c := range rs {
			if c.Limited && !excluded && !j.Forged && len(c.M) > 0 {
				k := (c.End - 32) / fs
				if (c.End-32)%fs != 0 || k < 1 || int(k) > ref.NSqlite || ref.Frames[k-1].Commit == 0 {
					fail("violation", "C09/chunk-off-commit-boundary", fmt.Sprintf("budget %d: chunk %d ends at %d which is not the end of a commit frame", max, i, c.End), line)
				}
			}
		}
	}

	// ---- 5. FrameSaltsUntil
	untils := [][2]uint32{ref.Salt, {1, 2}}
	if len(ref.Frames) > 0 {
		untils = append(untils, ref.Frames[len(ref.Frames)-1].Salt)
	}
	for _, u := range untils {
		s := implSalts(w, u)
		line := fmt.Sprintf("salts UNTIL=%s HEX=%s", saltStr(u), hx_)
		out.ops = append(out.ops, opOut{line, s, "salts"})
		// oracle: salts of physical frame headers up to and including the first carrying `until`
		want := map[[2]uint32]bool{}
		for off := int64(32); off+24 <= int64(len(w)); off += fs {
			sl := [2]uint32{refU32(w[off+8:]), refU32(w[off+12:])}
			want[sl] = true
			if sl == u {
				break
			}
		}
		got := strings.Count(s, ":")
		if !strings.HasPrefix(s, "ok") || got != len(want) {
			fail("violation", "C09/frame-salts", fmt.Sprintf("FrameSaltsUntil(%v) returned %s, the file has %d distinct salts up to it", u, s, len(want)), line)
		}
	}
	out.canon = j.Mut + "|" + hx_
	if len(out.samples) == 0 {
		out.samples = append(out.samples, map[string]any{"base": j.Base, "mutation": j.Mut, "wal_bytes": len(w), "valid_frames": ref.NValid,
			"physical_frames": len(ref.Frames), "impl": trunc(full.String(), 160)})
	}
	_ = drv
	return out
}

func trunc(s string, n int) string {
	if len(s) > n {
		return s[:n] + "…"
	}
	return s
}

func bucket(n int) string {
	switch {
	case n == 0:
		return "0"
	case n <= 2:
		return "1-2"
	case n <= 8:
		return "3-8"
	case n <= 20:
		return "9-20"
	}
	return ">20"
}

// judge: compare with the model and evaluate the Lean-spec oracle; returns failures.
func judge(j *Job, out *jobOut, drv *hx.Driver) {
	lines := make([]string, len(out.ops))
	for i, o := range out.ops {
		lines[i] = o.line
	}
	model, err := drv.AskBatch(lines)
	if err != nil {
		hx.Fatal(err)
	}
	var fullImpl string
	for i, o := range out.ops {
		if o.kind == "wal" && fullImpl == "" {
			fullImpl = o.impl
		}
		if o.kind == "recover" {
			// Lean spec vs implementation: "ok mx= end= commit= m=" vs "ok end= commit= lim=0 m="
			if model[i] == "-" {
				continue
			}
			var mx, end, commit int
			var m string
			spec := model[i]
			if spec != "none" {
				f := strings.Fields(spec)
				if len(f) == 5 {
					fmt.Sscanf(f[1], "mx=%d", &mx)
					fmt.Sscanf(f[2], "end=%d", &end)
					fmt.Sscanf(f[3], "commit=%d", &commit)
					m = strings.TrimPrefix(f[4], "m=")
				}
			}
			var ie, ic, il int
			var im string
			f := strings.Fields(fullImpl)
			if len(f) == 5 {
				fmt.Sscanf(f[1], "end=%d", &ie)
				fmt.Sscanf(f[2], "commit=%d", &ic)
				fmt.Sscanf(f[3], "lim=%d", &il)
				im = strings.TrimPrefix(f[4], "m=")
			}
			if m == "" {
				commit = 0
			}
			if spec == "none" || im != m || ic != commit {
				out.fails = append(out.fails, failure{"violation", "C09/pagemap-ne-lean-recover",
					fmt.Sprintf("Lean spec recover says %q, litestream PageMap %q", trunc(spec, 300), trunc(fullImpl, 300)), lines[0]})
			}
			continue
		}
		if hx.Differs(o.impl, model[i]) {
			out.fails = append(out.fails, failure{"disagreement", "C09/model-vs-impl-" + o.kind,
				fmt.Sprintf("op %s: impl=%q model=%q (mutation %s)", o.kind, trunc(o.impl, 300), trunc(model[i], 300), j.Mut), o.line})
		}
	}
}

// failsStill: does the job (possibly shrunk) still produce a failure with this signature?
func failsStill(j *Job, sig string, drv *hx.Driver, tmp string) bool {
	out := runJob(j, drv, tmp)
	judge(j, &out, drv)
	for _, f := range out.fails {
		if f.sig == sig {
			return true
		}
	}
	return false
}

// shrink: drop trailing frames, then leading bytes are kept (offsets matter); also drop the db when not needed.
func shrink(j Job, sig string, drv *hx.Driver, tmp string) Job {
	j.bytes()
	fs := j.PS + 24
	if len(j.wal) >= 32 {
		if ps := int(be32(j.wal[8:])); ps > 0 && ps <= 1<<20 {
			fs = ps + 24
		}
	}
	for len(j.wal) > 32 {
		n := (len(j.wal) - 32 - 1) / fs
		c := j
		c.wal = j.wal[:32+n*fs]
		c.WalHex = hex.EncodeToString(c.wal)
		if !failsStill(&c, sig, drv, tmp) {
			break
		}
		j = c
	}
	if !strings.Contains(sig, "real-sqlite") {
		c := j
		c.db, c.DBHex, c.Sqlite = nil, "", false
		if failsStill(&c, sig, drv, tmp) {
			j = c
		}
	}
	j.WalHex = hex.EncodeToString(j.wal)
	if j.db != nil {
		j.DBHex = hex.EncodeToString(j.db)
	}
	return j
}

func main() {
	o := hx.ParseFlags("C09")
	res := hx.NewResult(o, "c09: WALReader (NewWALReader/NewWALReaderWithOffset/ReadFrame/PageMap/pageMap/FrameSaltsUntil) vs Lean Wal model + SQLite-recovery oracles")
	res.Rule = "inputs: real SQLite WALs (modernc; page sizes 512/1024/4096; growth, shrink, spilled uncommitted frames, rollback, VACUUM, up to 3 generations with stale tails) x mutations {truncation at every offset class, bit flips in WAL header / frame header / page, frame duplication over/insert, swaps, stale tails from other WALs, frame and header salt edits, commit-field edits with and without re-checksum, byte-order re-encoding, stacked pairs, E1 forgeries} x ops {PageMap, ReadFrame*, resume at frame boundaries (all for unmutated bases, sampled otherwise) with header/foreign salts and budgets, chunked pageMap with budgets around every commit, FrameSaltsUntil}; plus virtual WALs > 4 GiB read through an io.ReaderAt (64 KiB and 32 KiB pages, both byte orders; resume below/at/behind the 2^32 offset mark, ReadFrame across it, budgets stopping before/behind it, one full scan from the header) judged by SQLite's rule computed from the generator parameters; oracles: Go re-implementation of SQLite's recovery rule, real SQLite recovery + checkpoint of (db copy, mutated WAL), Lean spec `recover`. non-trivial = the WAL has at least one committed valid frame; distinct = (mutation name, WAL bytes)"
	tmp, err := os.MkdirTemp("", "c09-")
	if err != nil {
		hx.Fatal(err)
	}
	defer os.RemoveAll(tmp)

	if o.Replay != "" {
		os.Exit(replay(o, tmp))
	}

	rnd := hx.NewRand(o.Seed)
	nSets, nMut, sqliteEvery := 2, 180, 2
	if o.Tier == "thorough" {
		nSets, nMut, sqliteEvery = 4, 800, 1
	}

	// bases
	var bases []Base
	for s := 0; s < nSets; s++ {
		for _, ps := range []int{512, 1024, 4096} {
			bases = append(bases, genBases(rnd.Fork(), tmp, ps, fmt.Sprint(s), false)...)
		}
	}
	res.Notes = append(res.Notes, fmt.Sprintf("%d base WALs harvested from real SQLite", len(bases)))

	// virtual WALs > 4 GiB (own goroutine, in parallel with the worker pool; oracle only, no model)
	bigc := bigCases(rnd.Fork(), o.Tier)
	if o.Corpus != "" {
		files, _ := filepath.Glob(filepath.Join(o.Corpus, "*.json"))
		sort.Strings(files)
		for _, f := range files {
			if bc, ok := loadBig(f); ok {
				bigc = append([]BigCase{bc}, bigc...)
			}
		}
	}
	bigDone := make(chan []bigOut, 1)
	go func() {
		var outs []bigOut
		for _, c := range bigc {
			outs = append(outs, runBig(c))
		}
		bigDone <- outs
	}()

	jobs := make(chan Job, 64)
	var wg sync.WaitGroup
	var mu sync.Mutex
	nWorkers := runtime.NumCPU()
	if nWorkers > 16 {
		nWorkers = 16
	}
	for wk := 0; wk < nWorkers; wk++ {
		wg.Add(1)
		wdir := filepath.Join(tmp, fmt.Sprintf("w%d", wk))
		os.MkdirAll(wdir, 0o755)
		go func() {
			defer wg.Done()
			drv, err := hx.StartDriver(o.Driver)
			if err != nil {
				hx.Fatal(err)
			}
			defer drv.Close()
			for j := range jobs {
				j := j
				out := runJob(&j, drv, wdir)
				judge(&j, &out, drv)
				mu.Lock()
				res.Case(out.canon, out.nontriv)
				res.Evaluations += len(out.ops) - 1
				for _, c := range out.counts {
					res.Count(c)
				}
				res.Count("mutation:" + strings.SplitN(strings.SplitN(j.Mut, "@", 2)[0], "+", 2)[0])
				for _, op := range out.ops {
					res.Count("op:" + op.kind)
				}
				if res.Evaluations%4000 < len(out.ops) {
					for _, s := range out.samples {
						res.Sample(s)
					}
				}
				seen := map[string]bool{}
				for _, f := range out.fails {
					if seen[f.sig] {
						continue
					}
					seen[f.sig] = true
					if f.kind == "disagreement" {
						res.DisagreementsChecked++
					}
					nf := 0
					for _, g := range res.Findings {
						if g.Signature == f.sig {
							nf++
						}
					}
					if nf >= 2 {
						continue
					}
					mu.Unlock()
					sj := shrink(j, f.sig, drv, wdir)
					mu.Lock()
					res.AddFinding(f.kind, f.sig, f.what, map[string]any{"job": sj, "line": trunc(f.line, 200), "engine": "c09"})
				}
				mu.Unlock()
			}
		}()
	}

	// corpus first
	if o.Corpus != "" {
		files, _ := filepath.Glob(filepath.Join(o.Corpus, "*.json"))
		sort.Strings(files)
		for _, f := range files {
			if _, isBig := loadBig(f); isBig {
				continue
			}
			if j, err := loadJob(f); err == nil {
				jobs <- j
				res.Count("corpus")
			}
		}
	}
	// unmutated bases: everything, all offsets, all budgets, real SQLite
	for _, b := range bases {
		jobs <- Job{Base: b.Name, Mut: "none", PS: b.PS, WalHex: hex.EncodeToString(b.WAL), DBHex: hex.EncodeToString(b.DB),
			Full: true, Sqlite: true, Seed: rnd.Uint64(), wal: b.WAL, db: b.DB}
	}
	// mutated
	for _, b := range bases {
		var donors []Base
		for _, d := range bases {
			if d.PS == b.PS && d.Name != b.Name {
				donors = append(donors, d)
			}
		}
		n := nMut
		if b.PS >= 4096 {
			n = nMut / 5
		} else if b.PS >= 1024 {
			n = nMut / 2
		}
		for i := 0; i < n; i++ {
			var donor []byte
			if len(donors) > 0 {
				donor = donors[rnd.Intn(len(donors))].WAL
			}
			m := mutate(rnd, b.WAL, donor, b.PS)
			j := Job{Base: b.Name, Mut: m.Name, Forged: m.Forged, PS: b.PS, WalHex: "", Full: rnd.Chance(5),
				Sqlite: i%sqliteEvery == 0, Seed: rnd.Uint64(), wal: m.W, db: b.DB}
			jobs <- j
		}
	}
	close(jobs)
	wg.Wait()
	var bigWall float64
	for _, b := range <-bigDone {
		res.Case(b.c.canon(), true)
		kind := "resume"
		if b.c.K == 0 {
			kind = "fullscan"
		}
		res.Count(fmt.Sprintf("bigwal:%s:%s:ps%d", b.c.Op, kind, b.c.PS))
		bigWall += b.wall.Seconds()
		if b.sig != "" {
			res.Count("bigwal:FAIL")
			res.AddFinding("violation", b.sig, b.what, map[string]any{"bigwal": b.c, "engine": "c09"})
		} else if b.c.K == 0 {
			res.Sample(map[string]any{"bigwal": b.c, "result": b.summary, "wall_s": b.wall.Seconds()})
		}
	}
	res.Notes = append(res.Notes, fmt.Sprintf("%d virtual-WAL cases beyond the 4 GiB mark (incl. one full scan of > 4 GiB) in %.1fs, judged by SQLite's rule computed from the generator parameters", len(bigc), bigWall))
	if err := res.Write(o.Out); err != nil {
		hx.Fatal(err)
	}
}

func loadJob(path string) (Job, error) {
	b, err := os.ReadFile(path)
	if err != nil {
		return Job{}, err
	}
	var w struct {
		Replay struct {
			Job Job `json:"job"`
		} `json:"replay"`
	}
	if err := json.Unmarshal(b, &w); err != nil {
		return Job{}, err
	}
	w.Replay.Job.bytes()
	return w.Replay.Job, nil
}

func replay(o *hx.Opts, tmp string) int {
	if bc, ok := loadBig(o.Replay); ok {
		out := runBig(bc)
		fmt.Printf("bigwal case %s\n  -> %s (%.1fs)\n", bc.canon(), out.summary, out.wall.Seconds())
		if out.sig != "" {
			fmt.Printf("FAIL violation %s: %s\n", out.sig, out.what)
			return 1
		}
		fmt.Println("no failure")
		return 0
	}
	j, err := loadJob(o.Replay)
	if err != nil {
		hx.Fatal(err)
	}
	drv, err := hx.StartDriver(o.Driver)
	if err != nil {
		hx.Fatal(err)
	}
	defer drv.Close()
	out := runJob(&j, drv, tmp)
	judge(&j, &out, drv)
	fmt.Printf("base=%s mutation=%s wal=%d bytes ops=%d\n", j.Base, j.Mut, len(j.wal), len(out.ops))
	for _, op := range out.ops {
		if op.kind != "recover" {
			fmt.Printf("  %-7s %s -> impl %s\n", op.kind, trunc(op.line, 70), trunc(op.impl, 200))
		}
	}
	for _, f := range out.fails {
		fmt.Printf("FAIL %s %s: %s\n", f.kind, f.sig, f.what)
	}
	if len(out.fails) > 0 {
		return 1
	}
	fmt.Println("no failure")
	return 0
}
