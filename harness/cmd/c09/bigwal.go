package main

// Virtual WALs larger than 4 GiB, read by the real WALReader through an io.ReaderAt (nothing is
// materialised). Every frame in [First, N) is well formed: header salts, correctly chained
// cumulative checksum (computed with the harness's own refCk), page numbers cycling through PgMod
// pages, a commit marker on every CommitEvery-th frame — so SQLite recovers all of them up to the
// last commit marker. Frames in front of First read as zeroes (only used when resuming behind them).
//
// The expected result is computed arithmetically from the parameters (SQLite's rule: last commit
// frame; latest frame per page up to it; pages <= commit size; end = end of that commit frame).
// The Lean model cannot be asked (4 GiB do not fit a protocol line); its offsets are unbounded
// naturals, and the (T) tie `gen_offset_products_64bit` pins that the code multiplies in 64 bits.
//
// This closes the blind spot "file offsets >= 2^32" (a frame offset computed in 32 bits wraps into
// the first frames, the salt/checksum test fails there and the reader reports EOF at the 4 GiB mark).

import (
	"context"
	"encoding/binary"
	"encoding/json"
	"fmt"
	"io"
	"os"
	"time"

	"github.com/benbjohnson/litestream"

	"verif/harness/hx"
)

type BigCase struct {
	PS          uint32 `json:"ps"`
	BE          bool   `json:"big_endian"`
	First       int    `json:"first"`        // first well-formed frame
	N           int    `json:"n"`            // number of physical frames
	CommitEvery int    `json:"commit_every"` // frame i carries a commit marker iff (i+1)%CommitEvery == 0
	PgMod       int    `json:"pg_mod"`       // pgno(i) = i%PgMod + 1
	Commit      uint32 `json:"commit"`       // commit size field of commit frames
	Op          string `json:"op"`           // pagemap | frames
	K           int    `json:"k"`            // start frame: 0 = NewWALReader, else NewWALReaderWithOffset at the boundary before frame K
	Max         int64  `json:"max"`          // byte budget (pagemap)
}

type bigWAL struct {
	c        BigCase
	hdr      [32]byte
	salt     [2]uint32
	cks      [][2]uint32
	cacheIdx int
	cache    []byte
}

func (w *bigWAL) fs() int64   { return int64(w.c.PS) + 24 }
func (w *bigWAL) size() int64 { return 32 + int64(w.c.N)*w.fs() }
func (w *bigWAL) pgno(i int) uint32 {
	return uint32(i%w.c.PgMod) + 1
}
func (w *bigWAL) commitAt(i int) uint32 {
	if (i+1)%w.c.CommitEvery == 0 {
		return w.c.Commit
	}
	return 0
}

func (w *bigWAL) fill(i int, b []byte) {
	clear(b)
	binary.BigEndian.PutUint32(b[0:], w.pgno(i))
	binary.BigEndian.PutUint32(b[4:], w.commitAt(i))
	binary.BigEndian.PutUint32(b[8:], w.salt[0])
	binary.BigEndian.PutUint32(b[12:], w.salt[1])
	page := b[24:]
	for j := 0; j+8 <= len(page); j += 512 {
		binary.BigEndian.PutUint64(page[j:], uint64(i)*1000003+uint64(j)+7)
	}
}

func newBigWAL(c BigCase) *bigWAL {
	w := &bigWAL{c: c, salt: [2]uint32{0x5eed0001, 0x5eed0002}, cacheIdx: -1}
	magic := uint32(0x377f0682)
	if c.BE {
		magic = 0x377f0683
	}
	binary.BigEndian.PutUint32(w.hdr[0:], magic)
	binary.BigEndian.PutUint32(w.hdr[4:], 3007000)
	binary.BigEndian.PutUint32(w.hdr[8:], c.PS)
	binary.BigEndian.PutUint32(w.hdr[16:], w.salt[0])
	binary.BigEndian.PutUint32(w.hdr[20:], w.salt[1])
	s0, s1 := refCk(c.BE, 0, 0, w.hdr[:24])
	binary.BigEndian.PutUint32(w.hdr[24:], s0)
	binary.BigEndian.PutUint32(w.hdr[28:], s1)
	buf := make([]byte, w.fs())
	w.cks = make([][2]uint32, c.N-c.First)
	for i := c.First; i < c.N; i++ {
		w.fill(i, buf)
		s0, s1 = refCk(c.BE, s0, s1, buf[:8])
		s0, s1 = refCk(c.BE, s0, s1, buf[24:])
		w.cks[i-c.First] = [2]uint32{s0, s1}
	}
	w.cache = make([]byte, w.fs())
	return w
}

func (w *bigWAL) frame(i int) []byte {
	if w.cacheIdx == i {
		return w.cache
	}
	if i < w.c.First {
		clear(w.cache)
	} else {
		w.fill(i, w.cache)
		binary.BigEndian.PutUint32(w.cache[16:], w.cks[i-w.c.First][0])
		binary.BigEndian.PutUint32(w.cache[20:], w.cks[i-w.c.First][1])
	}
	w.cacheIdx = i
	return w.cache
}

// ReadAt has os.File semantics (short read only at end of file).
func (w *bigWAL) ReadAt(p []byte, off int64) (n int, err error) {
	if off < 0 {
		return 0, io.EOF
	}
	for n < len(p) {
		pos := off + int64(n)
		if pos >= w.size() {
			return n, io.EOF
		}
		if pos < 32 {
			n += copy(p[n:], w.hdr[pos:])
			continue
		}
		i := int((pos - 32) / w.fs())
		rel := (pos - 32) % w.fs()
		n += copy(p[n:], w.frame(i)[rel:])
	}
	return n, nil
}

// expect: SQLite's rule on frames [k, N) with the budget stop of pageMap, computed from the parameters.
// endKnown is false when the last commit frame's own page number exceeds the commit size (E1 guard
// `commitKept`: the frame is trimmed from the map and litestream's end offset falls short by design).
func (w *bigWAL) expect(k int, max int64) (m map[uint32]int64, end int64, commit uint32, limited bool, nFrames int, endKnown bool) {
	c := w.c
	fs := w.fs()
	mx := 0
	for i := k; i < c.N; i++ {
		if w.commitAt(i) != 0 {
			mx = i + 1
			if max > 0 && int64(i+1-k)*fs >= max {
				limited = true
				break
			}
		}
	}
	m = map[uint32]int64{}
	if mx == 0 {
		return m, 0, 0, limited, c.N - k, true
	}
	for i := k; i < mx; i++ {
		if pg := w.pgno(i); pg <= c.Commit {
			m[pg] = 32 + int64(i)*fs
		}
	}
	if len(m) == 0 {
		return m, 0, 0, limited, c.N - k, true
	}
	return m, 32 + int64(mx)*fs, c.Commit, limited, c.N - k, w.pgno(mx-1) <= c.Commit
}

type bigOut struct {
	c       BigCase
	sig     string // "" = ok
	what    string
	summary string
	wall    time.Duration
}

func runBig(c BigCase) (out bigOut) {
	t0 := time.Now()
	out.c = c
	defer func() { out.wall = time.Since(t0) }()
	defer func() {
		if p := recover(); p != nil {
			out.sig, out.what = "C09/bigwal-panic", fmt.Sprintf("WAL > 4 GiB: reader panicked: %v", p)
		}
	}()
	w := newBigWAL(c)
	fs := w.fs()
	var rd *litestream.WALReader
	var err error
	if c.K == 0 {
		rd, err = litestream.NewWALReader(w, quiet)
	} else {
		rd, err = litestream.NewWALReaderWithOffset(context.Background(), w, 32+int64(c.K)*fs, w.salt[0], w.salt[1], quiet)
	}
	desc := fmt.Sprintf("virtual WAL of %d bytes (%.2f GiB; page size %d, %d frames, well formed from #%d), reading from frame #%d (offset %d)",
		w.size(), float64(w.size())/(1<<30), c.PS, c.N, c.First, c.K, 32+int64(c.K)*fs)
	if err != nil {
		out.sig, out.what = "C09/bigwal-open", desc+": reader could not be opened although the previous frame is valid: "+errKind(err)
		return
	}
	wm, wend, wcommit, wlim, wn, endKnown := w.expect(c.K, c.Max)
	switch c.Op {
	case "frames":
		data := make([]byte, c.PS)
		n := 0
		for {
			pgno, commit, err := rd.ReadFrame(context.Background(), data)
			if err != nil {
				if errKind(err) != "eof" {
					out.sig, out.what = "C09/bigwal-frames", desc+": ReadFrame failed with "+errKind(err)
					return
				}
				break
			}
			if i := c.K + n; pgno != w.pgno(i) || commit != w.commitAt(i) {
				out.sig, out.what = "C09/bigwal-frames", fmt.Sprintf("%s: ReadFrame #%d returned pgno=%d commit=%d, the frame at that position holds pgno=%d commit=%d", desc, i, pgno, commit, w.pgno(i), w.commitAt(i))
				return
			}
			n++
		}
		out.summary = fmt.Sprintf("frames=%d", n)
		if n != wn {
			out.sig = "C09/bigwal-frames-short"
			out.what = fmt.Sprintf("%s: ReadFrame delivered %d frames and then EOF at offset %d, but all %d frames up to the end of the file carry the header salts and a correctly chained checksum (SQLite accepts them all)", desc, n, 32+int64(c.K+n)*fs, wn)
		}
	default:
		var m map[uint32]int64
		var end int64
		var commit uint32
		var lim bool
		if c.Max == 0 {
			m, end, commit, err = rd.PageMap(context.Background())
		} else {
			m, end, commit, lim, err = rd.VerifPageMap(context.Background(), c.Max)
		}
		if err != nil {
			out.sig, out.what = "C09/bigwal-pagemap-error", desc+": pageMap failed: "+errKind(err)
			return
		}
		out.summary = fmt.Sprintf("pages=%d end=%d commit=%d lim=%v", len(m), end, commit, lim)
		if (endKnown && end != wend) || commit != wcommit || lim != wlim || !sameMap(m, wm) {
			missing, first := 0, int64(-1)
			for pg, off := range wm {
				if got, ok := m[pg]; !ok || got != off {
					missing++
					if first < 0 || off < first {
						first = off
					}
				}
			}
			out.sig = "C09/bigwal-pagemap-ne-sqlite-rule"
			out.what = fmt.Sprintf("%s, budget %d: litestream returned %d pages, end=%d, commit=%d, limited=%v; SQLite's rule gives %d pages, end=%d (short by %d frames), commit=%d, limited=%v; %d committed pages missing or stale, lowest expected offset among them %d (2^32 = 4294967296)",
				desc, c.Max, len(m), end, commit, lim, len(wm), wend, (wend-end)/fs, wcommit, wlim, missing, first)
		}
	}
	return
}

// bigCases: instant cases around the 4 GiB mark, plus one full scan.
func bigCases(r *hx.Rand, tier string) []BigCase {
	var out []BigCase
	for _, ps := range []uint32{65536, 32768} {
		fs := int64(ps) + 24
		mark := int((int64(1)<<32-32)/fs) + 1 // first frame whose offset is >= 2^32
		for v := 0; v < 2; v++ {
			first := mark - 8 - r.Intn(12)
			n := mark + 6 + r.Intn(10)
			be := r.Bool()
			ce := 1 + r.Intn(3)
			pm := 5 + r.Intn(40)
			base := BigCase{PS: ps, BE: be, First: first, N: n, CommitEvery: ce, PgMod: pm, Commit: uint32(pm + 2 - r.Intn(5))}
			a := base // resume below the mark, read across it
			a.Op, a.K = "pagemap", first+1
			out = append(out, a)
			b := base // ReadFrame across the mark
			b.Op, b.K = "frames", first+1+r.Intn(3)
			out = append(out, b)
			c := base // resume at / behind the mark
			c.Op, c.K = "pagemap", mark+r.Intn(3)
			out = append(out, c)
			d := base // budget that stops behind the mark
			d.Op, d.K, d.Max = "pagemap", first+2, int64(mark-first+1)*fs-int64(r.Intn(100))
			out = append(out, d)
			e := base // budget that stops in front of the mark, then the next chunk from there
			e.Op, e.K, e.Max = "pagemap", first+1, 2*fs
			out = append(out, e)
		}
	}
	// full scan from the header over 4 GiB (64 KiB pages: fewest frames)
	n := 65520
	if tier == "thorough" {
		n = 65600
	}
	out = append(out, BigCase{PS: 65536, BE: r.Bool(), First: 0, N: n, CommitEvery: 1 + r.Intn(2), PgMod: 70000, Commit: 100000, Op: "pagemap", K: 0})
	return out
}

func (c BigCase) canon() string {
	b, _ := json.Marshal(c)
	return "bigwal|" + string(b)
}

// loadBig reads a replay/corpus file holding a bigwal case.
func loadBig(path string) (BigCase, bool) {
	b, err := os.ReadFile(path)
	if err != nil {
		return BigCase{}, false
	}
	var w struct {
		Replay struct {
			Big *BigCase `json:"bigwal"`
		} `json:"replay"`
	}
	if json.Unmarshal(b, &w) != nil || w.Replay.Big == nil || w.Replay.Big.N <= 0 || w.Replay.Big.CommitEvery <= 0 || w.Replay.Big.PgMod <= 0 {
		return BigCase{}, false
	}
	return *w.Replay.Big, true
}
