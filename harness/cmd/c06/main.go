// Engine c06: compaction never changes what is restored; levels stay contiguous.
//
// Two streams (DESIGN.md §3 C06):
//   - codec stream: random logical LTX sets encoded with the real ltx.Encoder, compacted by the
//     real ltx.Compactor and by the real litestream.Compactor.Compact over a file replica,
//     decoded with the real decoder and compared with the Lean model (cmpct/level/restore/apply);
//     oracle: applying the compacted file == applying the inputs in order (growth-complete chains).
//   - history stream: real SQLite application + real litestream DB/Replica/Store over the file
//     client; every L0 file is archived at birth; oracle (independent of the model): every file at
//     level >= 1 equals the composition of the archived L0 files of its range, levels are
//     contiguous, a new file starts where the previous one ended, Restore(TXID=n) never changes.
package main

import (
	"bytes"
	"context"
	"crypto/sha256"
	"database/sql"
	"encoding/binary"
	"encoding/json"
	"errors"
	"fmt"
	"io"
	"log/slog"
	"os"
	"path/filepath"
	"sort"
	"strings"
	"sync"
	"time"

	"github.com/benbjohnson/litestream"
	"github.com/benbjohnson/litestream/file"
	"github.com/superfly/ltx"
	_ "modernc.org/sqlite"

	"verif/harness/hx"
)

var quiet = slog.New(slog.NewTextHandler(io.Discard, &slog.HandlerOptions{Level: slog.LevelError + 10}))

// ---------------------------------------------------------------- logical LTX

type Page struct {
	P uint32 `json:"p"`
	T uint64 `json:"t"`
}

type LF struct {
	Min    uint64 `json:"min"`
	Max    uint64 `json:"max"`
	Commit uint32 `json:"commit"`
	TS     int64  `json:"ts"`
	Pages  []Page `json:"pages"`
}

func (f LF) text() string {
	var sb strings.Builder
	fmt.Fprintf(&sb, "%d:%d:%d:%d:", f.Min, f.Max, f.Commit, f.TS)
	for i, p := range f.Pages {
		if i > 0 {
			sb.WriteByte(',')
		}
		fmt.Fprintf(&sb, "%d=%d", p.P, p.T)
	}
	return sb.String()
}

func textAll(fs []LF) string {
	parts := make([]string, len(fs))
	for i, f := range fs {
		parts[i] = f.text()
	}
	return strings.Join(parts, ";")
}

const codecPS = 512

// pageBytes: token 0 = zero page; otherwise the token repeated (invertible).
func pageBytes(tok uint64, ps int) []byte {
	b := make([]byte, ps)
	if tok == 0 {
		return b
	}
	for i := 0; i+8 <= ps; i += 8 {
		binary.BigEndian.PutUint64(b[i:], tok)
	}
	return b
}

func encode(f LF, ps uint32) ([]byte, error) {
	var buf bytes.Buffer
	enc, err := ltx.NewEncoder(&buf)
	if err != nil {
		return nil, err
	}
	if err := enc.EncodeHeader(ltx.Header{Version: ltx.Version, Flags: ltx.HeaderFlagNoChecksum, PageSize: ps, Commit: f.Commit,
		MinTXID: ltx.TXID(f.Min), MaxTXID: ltx.TXID(f.Max), Timestamp: f.TS}); err != nil {
		return nil, err
	}
	for _, p := range f.Pages {
		if err := enc.EncodePage(ltx.PageHeader{Pgno: p.P}, pageBytes(p.T, int(ps))); err != nil {
			return nil, err
		}
	}
	if err := enc.Close(); err != nil {
		return nil, err
	}
	return buf.Bytes(), nil
}

// decodeLogical reads an LTX stream with the real decoder; tok maps page bytes to a token.
func decodeLogical(r io.Reader, tok func([]byte) uint64) (LF, uint32, error) {
	dec := ltx.NewDecoder(r)
	if err := dec.DecodeHeader(); err != nil {
		return LF{}, 0, err
	}
	h := dec.Header()
	f := LF{Min: uint64(h.MinTXID), Max: uint64(h.MaxTXID), Commit: h.Commit, TS: h.Timestamp}
	data := make([]byte, h.PageSize)
	for {
		var ph ltx.PageHeader
		if err := dec.DecodePage(&ph, data); err == io.EOF {
			break
		} else if err != nil {
			return f, h.PageSize, err
		}
		f.Pages = append(f.Pages, Page{ph.Pgno, tok(data)})
	}
	if err := dec.Close(); err != nil {
		return f, h.PageSize, err
	}
	return f, h.PageSize, nil
}

func tokCodec(b []byte) uint64 { return binary.BigEndian.Uint64(b[:8]) }

func tokHash(b []byte) uint64 {
	zero := true
	for _, x := range b {
		if x != 0 {
			zero = false
			break
		}
	}
	if zero {
		return 0
	}
	h := sha256.Sum256(b)
	return binary.BigEndian.Uint64(h[:8])>>16 | 1<<47
}

func errKind(err error) string {
	s := err.Error()
	switch {
	case strings.Contains(s, "non-contiguous transaction ids"):
		return "err noncontiguous"
	case strings.Contains(s, "at least one input reader"), errors.Is(err, litestream.ErrNoCompaction):
		return "err empty"
	case strings.Contains(s, "must start with page number 1"):
		return "err snapshotstart"
	case strings.Contains(s, "nonsequential page numbers"):
		return "err nonsequential"
	case strings.Contains(s, "cannot encode lock page"):
		return "err lockpage"
	case strings.Contains(s, "cannot decode non-snapshot"):
		return "err notsnapshot"
	case strings.Contains(s, "decode database") || strings.Contains(s, "decode page") || strings.Contains(s, "unexpected page") || strings.Contains(s, "unexpected pgno"):
		return "err pages"
	}
	return "err other:" + s
}

// realCompact runs the real ltx.Compactor on encoded inputs.
func realCompact(blobs [][]byte) ([]byte, error) {
	rdrs := make([]io.Reader, len(blobs))
	for i, b := range blobs {
		rdrs[i] = bytes.NewReader(b)
	}
	var out bytes.Buffer
	c, err := ltx.NewCompactor(&out, rdrs)
	if err != nil {
		return nil, err
	}
	c.HeaderFlags = ltx.HeaderFlagNoChecksum
	if err := c.Compact(context.Background()); err != nil {
		return nil, err
	}
	return out.Bytes(), nil
}

// ---------------------------------------------------------------- symbolic sequential application (oracle)

// cell is the fate of one page under sequential application of files: pass = the
// underlying database's page shows through; otherwise fixed to tok.
type cell struct {
	fixed bool
	tok   uint64
}

// composeSeq applies files in order symbolically. Result: commit of the last, and for every page
// <= that commit whether it is fixed (and to what) or passes through.
func composeSeq(fs []LF) (uint32, map[uint32]cell) {
	st := map[uint32]cell{}
	var commit uint32
	// low: the smallest commit seen so far; never-mentioned pages above it were cut away (zero).
	low := ^uint32(0)
	for _, f := range fs {
		for _, p := range f.Pages {
			st[p.P] = cell{true, p.T}
		}
		for p := range st {
			if p > f.Commit {
				st[p] = cell{true, 0}
			}
		}
		if f.Commit < low {
			low = f.Commit
		}
		commit = f.Commit
	}
	st[0] = cell{false, uint64(low)} // slot 0 carries the low-water mark (page numbers start at 1)
	return commit, st
}

func cellAt(st map[uint32]cell, p uint32) cell {
	if c, ok := st[p]; ok && p != 0 {
		return c
	}
	if uint64(p) > st[0].tok {
		return cell{true, 0}
	}
	return cell{false, 0}
}

// equivCompacted checks that g is equivalent to applying fs in order, for every underlying
// database: same commit; every page g holds is what sequential application fixes; every page g
// lacks passes through. skip = lock page number.
func equivCompacted(g LF, fs []LF, lock uint32) string {
	commit, st := composeSeq(fs)
	if g.Commit != commit {
		return fmt.Sprintf("commit %d != sequential size %d", g.Commit, commit)
	}
	have := map[uint32]uint64{}
	prev := uint32(0)
	for _, p := range g.Pages {
		if p.P <= prev {
			return fmt.Sprintf("pages not ascending at %d", p.P)
		}
		prev = p.P
		if p.P > g.Commit {
			return fmt.Sprintf("page %d beyond commit %d", p.P, g.Commit)
		}
		have[p.P] = p.T
		c := cellAt(st, p.P)
		if !c.fixed {
			return fmt.Sprintf("page %d present but no input in range holds it", p.P)
		}
		if c.tok != p.T {
			return fmt.Sprintf("page %d image differs from sequential application", p.P)
		}
	}
	for p, c := range st {
		if p == 0 || p > commit || p == lock {
			continue
		}
		if _, ok := have[p]; !ok && c.fixed {
			return fmt.Sprintf("page %d missing (sequential application fixes it)", p)
		}
	}
	// pages never mentioned above the low-water mark and <= commit must be fixed zero: g lacks them => mismatch
	if low := st[0].tok; uint64(commit) > low {
		for p := uint32(low) + 1; p <= commit; p++ {
			if p == lock {
				continue
			}
			if _, ok := have[p]; !ok {
				return fmt.Sprintf("page %d missing: database shrank below it and grew again within the range, compacted file would expose a stale page", p)
			}
		}
	}
	if g.TS != fs[len(fs)-1].TS {
		return fmt.Sprintf("timestamp %d != newest input's %d", g.TS, fs[len(fs)-1].TS)
	}
	return ""
}

// ---------------------------------------------------------------- codec stream

type CodecCase struct {
	Kind    string `json:"kind"` // "pure" | "levels"
	Files   []LF   `json:"files"`
	Batches []int  `json:"batches,omitempty"` // levels: number of files per L0 batch (Compact(1) after each)
	Cache   bool   `json:"cache,omitempty"`
	L2      bool   `json:"l2,omitempty"`
	Drain   bool   `json:"drain,omitempty"` // levels: after each batch compact until ErrNoCompaction (long backlogs)
	GC      bool   `json:"gc"` // generator intended a growth-complete contiguous chain
}

func genTok(r *hx.Rand) uint64 {
	if r.Chance(6) {
		return 0
	}
	return 1 + uint64(r.Intn(1<<30))
}

func genChain(r *hx.Rand) CodecCase {
	lock := ltx.LockPgno(codecPS)
	n := 1 + r.Intn(7)
	c := CodecCase{Kind: "pure", GC: true}
	nearLock := r.Chance(8)
	tx := uint64(1)
	if r.Chance(60) || nearLock {
		tx = 2 + uint64(r.Intn(5))
	}
	broken := r.Chance(15)   // contiguity errors
	nonGC := r.Chance(20)    // hand-made files that are not growth-complete
	overlap := r.Chance(25)
	prevCommit := uint32(0)
	ts := int64(1000 + r.Intn(1000))
	var prevMax uint64
	for i := 0; i < n; i++ {
		var f LF
		f.Min = tx
		if i > 0 && overlap && r.Chance(40) {
			back := uint64(r.Intn(3))
			if f.Min > back+1 {
				f.Min -= back
			}
		}
		if i > 0 && broken && r.Chance(35) {
			f.Min += 1 + uint64(r.Intn(2)) // gap
			c.GC = false
		}
		f.Max = tx + uint64(r.Intn(3))
		if f.Max < f.Min {
			f.Max = f.Min
		}
		if i > 0 && broken && r.Chance(20) && prevMax >= f.Min {
			f.Max = prevMax // does not extend
			c.GC = false
		}
		f.TS = ts
		ts += int64(r.Intn(50))
		if nearLock {
			f.Commit = lock - 4 + uint32(r.Intn(10))
		} else {
			switch r.Intn(4) {
			case 0:
				f.Commit = prevCommit + uint32(r.Intn(6))
			case 1:
				if prevCommit > 1 {
					f.Commit = 1 + uint32(r.Intn(int(prevCommit)))
				} else {
					f.Commit = 1 + uint32(r.Intn(8))
				}
			default:
				f.Commit = prevCommit
			}
			if f.Commit == 0 {
				f.Commit = 1 + uint32(r.Intn(12))
			}
		}
		full := f.Min == 1 || r.Chance(12) // snapshot, or in-chain full snapshot
		lo := uint32(1)
		if nearLock {
			lo = lock - 6
			if f.Commit < lo {
				lo = f.Commit
			}
		}
		for p := lo; p <= f.Commit; p++ {
			if p == lock {
				continue
			}
			growth := i > 0 && p > prevCommit
			if i == 0 && f.Min > 1 {
				growth = false
			}
			take := full || r.Chance(35)
			if growth {
				if nonGC && r.Chance(50) {
					take = false
					c.GC = false
				} else {
					take = true
				}
			}
			if f.Min == 1 && !take {
				take = true
			}
			if take {
				f.Pages = append(f.Pages, Page{p, genTok(r)})
			}
		}
		if f.Min == 1 && r.Chance(5) && len(f.Pages) > 1 { // truncated snapshot (encodable, not decodable)
			f.Pages = f.Pages[:len(f.Pages)-1]
			c.GC = false
		}
		c.Files = append(c.Files, f)
		prevCommit = f.Commit
		prevMax = f.Max
		tx = f.Max + 1
	}
	return c
}

func lfLess(a, b LF) bool {
	if a.Min != b.Min {
		return a.Min < b.Min
	}
	return a.Max < b.Max
}

type codecCtx struct {
	res         *hx.Result
	drv         *hx.Driver
	tmp         string
	n           int
	maxRestoreN int // levels stream: Restore every TXID when the chain has at most this many files
}

func (cc *codecCtx) ask(line string) string {
	s, err := cc.drv.Ask(line)
	if err != nil {
		hx.Fatal(err)
	}
	return s
}

// runPure: real ltx.Compactor vs model compact; real restore (compact+decode) vs model; oracle.
// Returns (disagreement, violation) texts.
func (cc *codecCtx) runPure(c CodecCase) (string, string) {
	lock := ltx.LockPgno(codecPS)
	blobs := make([][]byte, len(c.Files))
	for i, f := range c.Files {
		b, err := encode(f, codecPS)
		if err != nil {
			return "", "" // generator produced something the real encoder refuses: not a case
		}
		blobs[i] = b
	}
	in := textAll(c.Files)
	var impl string
	var g LF
	out, err := realCompact(blobs)
	if err != nil {
		impl = errKind(err)
	} else {
		g, _, err = decodeLogical(bytes.NewReader(out), tokCodec)
		if err != nil {
			impl = "err decode-output:" + err.Error()
		} else {
			impl = "ok " + g.text()
		}
	}
	model := cc.ask(fmt.Sprintf("cmpct LOCK=%d IN=%s", lock, in))
	cc.res.Count("pure:" + kindOf(impl))
	if hx.Differs(impl, model) {
		return fmt.Sprintf("cmpct impl=%q model=%q", impl, model), ""
	}
	if err != nil {
		return "", ""
	}
	// restore path (Replica.Restore: compact, then DecodeDatabaseTo)
	var dbimg bytes.Buffer
	derr := ltx.NewDecoder(bytes.NewReader(out)).DecodeDatabaseTo(&dbimg)
	var rimpl string
	if derr != nil {
		rimpl = errKind(derr)
	} else {
		rimpl = "ok " + imgText(dbimg.Bytes(), codecPS, tokCodec)
	}
	rmodel := cc.ask(fmt.Sprintf("restore LOCK=%d IN=%s", lock, in))
	cc.res.Count("restore:" + kindOf(rimpl))
	if hx.Differs(rimpl, rmodel) {
		return fmt.Sprintf("restore impl=%q model=%q", rimpl, rmodel), ""
	}
	// sequential application (Go, byte level on an image) vs model applyAll, from a random base database
	base := map[uint32]uint64{}
	bsize := uint32(0)
	if c.Files[0].Min > 1 {
		bsize = c.Files[0].Commit
		if bsize > 64 {
			bsize = 0
		}
		for p := uint32(1); p <= bsize; p++ {
			base[p] = uint64(7000 + p)
		}
	}
	seq, seqSize := applySeq(base, bsize, c.Files)
	one, oneSize := applySeq(base, bsize, []LF{g})
	amodel := cc.ask(fmt.Sprintf("apply LOCK=%d D=%s IN=%s", lock, dbText(base, bsize), in))
	if a := "ok " + dbText(seq, seqSize); hx.Differs(a, amodel) {
		return fmt.Sprintf("apply impl=%q model=%q", a, amodel), ""
	}
	// oracle: the compacted file is equivalent to the inputs applied in order
	if c.GC {
		cc.res.Count("pure:oracle-gc")
		if why := equivCompacted(g, c.Files, lock); why != "" {
			return "", "compacted file not equivalent to applying its inputs in order: " + why
		}
		if dbText(seq, seqSize) != dbText(one, oneSize) {
			return "", fmt.Sprintf("apply(compact fs)=%s but applyAll fs=%s", dbText(one, oneSize), dbText(seq, seqSize))
		}
		if derr == nil && c.Files[0].Min == 1 && rimpl != "ok "+dbText(seq, seqSize) {
			return "", fmt.Sprintf("restore of the chain %s differs from sequential application %s", rimpl, dbText(seq, seqSize))
		}
	}
	return "", ""
}

func applySeq(base map[uint32]uint64, size uint32, fs []LF) (map[uint32]uint64, uint32) {
	d := map[uint32]uint64{}
	for k, v := range base {
		d[k] = v
	}
	for _, f := range fs {
		for _, p := range f.Pages {
			d[p.P] = p.T
		}
		for p := range d {
			if p > f.Commit {
				delete(d, p)
			}
		}
		size = f.Commit
	}
	return d, size
}

func dbText(d map[uint32]uint64, size uint32) string {
	keys := make([]int, 0, len(d))
	for p, t := range d {
		if t != 0 && p <= size {
			keys = append(keys, int(p))
		}
	}
	sort.Ints(keys)
	parts := make([]string, len(keys))
	for i, p := range keys {
		parts[i] = fmt.Sprintf("%d=%d", p, d[uint32(p)])
	}
	return fmt.Sprintf("%d:%s", size, strings.Join(parts, ","))
}

func imgText(img []byte, ps int, tok func([]byte) uint64) string {
	d := map[uint32]uint64{}
	n := len(img) / ps
	for i := 0; i < n; i++ {
		d[uint32(i+1)] = tok(img[i*ps : (i+1)*ps])
	}
	return dbText(d, uint32(n))
}

// listLevel lists a level of the file replica as F= entries.
func listFiles(ctx context.Context, client litestream.ReplicaClient, levels []int) ([]*ltx.FileInfo, error) {
	var out []*ltx.FileInfo
	for _, l := range levels {
		itr, err := client.LTXFiles(ctx, l, 0, false)
		if err != nil {
			return nil, err
		}
		for itr.Next() {
			i := *itr.Item()
			out = append(out, &i)
		}
		itr.Close()
	}
	return out, nil
}

func filesArg(infos []*ltx.FileInfo) string {
	parts := make([]string, len(infos))
	for i, f := range infos {
		parts[i] = fmt.Sprintf("%d:%d:%d:0", f.Level, f.MinTXID, f.MaxTXID)
	}
	return strings.Join(parts, ",")
}

func readLogical(ctx context.Context, client litestream.ReplicaClient, level int, min, max ltx.TXID, tok func([]byte) uint64) (LF, uint32, error) {
	rc, err := client.OpenLTXFile(ctx, level, min, max, 0, 0)
	if err != nil {
		return LF{}, 0, err
	}
	defer rc.Close()
	return decodeLogical(rc, tok)
}

// runLevels: the real litestream.Compactor.Compact over a file replica vs model level/cmpct; level oracle.
func (cc *codecCtx) runLevels(c CodecCase) (string, string) {
	ctx := context.Background()
	lock := ltx.LockPgno(codecPS)
	cc.n++
	dir := filepath.Join(cc.tmp, fmt.Sprintf("lv%d", cc.n))
	defer os.RemoveAll(dir)
	client := file.NewReplicaClient(dir)
	comp := litestream.NewCompactor(client, quiet)
	cache := map[int]*ltx.FileInfo{}
	if c.Cache {
		comp.CacheGetter = func(level int) (*ltx.FileInfo, bool) { i, ok := cache[level]; return i, ok }
		comp.CacheSetter = func(level int, info *ltx.FileInfo) { cache[level] = info }
	}
	logical := map[string]LF{} // "lvl/min/max" -> content
	key := func(l int, a, b ltx.TXID) string { return fmt.Sprintf("%d/%d/%d", l, a, b) }

	compactOnce := func(dst int) (dis string, vio string, none bool) {
		before, err := listFiles(ctx, client, []int{dst - 1, dst})
		if err != nil {
			hx.Fatal(err)
		}
		var cparts []string
		for l, i := range cache {
			cparts = append(cparts, fmt.Sprintf("%d:%d:%d:0", l, i.MinTXID, i.MaxTXID))
		}
		sort.Strings(cparts)
		lm := cc.ask(fmt.Sprintf("level DST=%d F=%s C=%s", dst, filesArg(before), strings.Join(cparts, ",")))
		var prevMax ltx.TXID
		var srcMax ltx.TXID
		for _, f := range before {
			if f.Level == dst && f.MaxTXID > prevMax {
				prevMax = f.MaxTXID
			}
		}
		info, err := comp.Compact(ctx, dst)
		// which sources the real code must have used (by its contract): src level files with min >= prevMax+1
		var srcs []LF
		var srcNames []string
		for _, f := range before {
			if f.Level == dst-1 && f.MinTXID >= prevMax+1 {
				srcs = append(srcs, logical[key(f.Level, f.MinTXID, f.MaxTXID)])
				srcNames = append(srcNames, fmt.Sprintf("%d:%d", f.MinTXID, f.MaxTXID))
				if f.MaxTXID > srcMax {
					srcMax = f.MaxTXID
				}
			}
		}
		if err != nil {
			impl := errKind(err)
			if errors.Is(err, litestream.ErrNoCompaction) {
				impl = "err nocompaction"
			}
			cc.res.Count("levels:" + strings.SplitN(impl, ":", 2)[0])
			if impl == "err nocompaction" {
				if hx.Differs(impl, lm) {
					return fmt.Sprintf("level impl=%q model=%q", impl, lm), "", true
				}
				return "", "", true
			}
			// content-level error: model's pick must exist and model's compact must give the same error
			cm := cc.ask(fmt.Sprintf("cmpct LOCK=%d IN=%s", lock, textAll(srcs)))
			if hx.Differs(impl, cm) {
				dis = fmt.Sprintf("level-cmpct impl=%q model=%q", impl, cm)
			}
			if c.GC {
				vio = fmt.Sprintf("Compact(%d) of a contiguous growth-complete source level fails: %v", dst, err)
			}
			return dis, vio, true
		}
		cc.res.Count("levels:ok")
		cc.res.Count(fmt.Sprintf("levels:sources=%s", bucket(len(srcs))))
		g, _, derr := readLogical(ctx, client, dst, info.MinTXID, info.MaxTXID, tokCodec)
		if derr != nil {
			return "", "compacted file unreadable: " + derr.Error(), false
		}
		logical[key(dst, info.MinTXID, info.MaxTXID)] = g
		impl := fmt.Sprintf("ok %d:%d hdr=%d:%d seek=%d src=%s", info.MinTXID, info.MaxTXID, g.Min, g.Max, prevMax+1, strings.Join(srcNames, ","))
		if hx.Differs(impl, lm) {
			dis = fmt.Sprintf("level impl=%q model=%q", clip(impl), clip(lm))
		} else {
			cm := cc.ask(fmt.Sprintf("cmpct LOCK=%d IN=%s", lock, textAll(srcs)))
			if a := "ok " + g.text(); hx.Differs(a, cm) {
				dis = fmt.Sprintf("level-cmpct impl=%q model=%q", clip(a), clip(cm))
			}
		}
		// oracle (independent of the model and of the number of sources):
		// header range = name = union of the merged sources; new file starts where the previous
		// ended and ends at a source-file boundary; level contiguous; content = its L0 range composed
		if uint64(info.MinTXID) != g.Min || uint64(info.MaxTXID) != g.Max {
			return dis, fmt.Sprintf("level %d file name %d-%d but header %d-%d", dst, info.MinTXID, info.MaxTXID, g.Min, g.Max), false
		}
		if c.GC {
			if prevMax != 0 && info.MinTXID != prevMax+1 {
				return dis, fmt.Sprintf("level %d: new file starts at %d, previous ended at %d", dst, info.MinTXID, prevMax), false
			}
			boundary := false
			for _, f := range before {
				if f.Level == dst-1 && f.MaxTXID == info.MaxTXID && f.MinTXID >= info.MinTXID {
					boundary = true
				}
			}
			if !boundary {
				return dis, fmt.Sprintf("level %d: new file ends at %d, which is not the end of any source file", dst, info.MaxTXID), false
			}
			if why := levelContiguous(ctx, client, dst); why != "" {
				return dis, why, false
			}
			var l0 []LF
			for _, f := range c.Files {
				if f.Min >= g.Min && f.Max <= g.Max {
					l0 = append(l0, f)
				}
			}
			if why := equivCompacted(g, l0, lock); why != "" {
				return dis, fmt.Sprintf("level %d file %d-%d: %s", dst, g.Min, g.Max, why), false
			}
		}
		return dis, "", false
	}
	// step compacts dst once, or (Drain) until nothing is left; then the level must cover its source level
	var accDis string
	step := func(dst int) string {
		for k := 0; k < 12; k++ {
			d, v, none := compactOnce(dst)
			if d != "" && accDis == "" {
				accDis = d
			}
			if v != "" {
				return v
			}
			if none || !c.Drain {
				break
			}
		}
		if c.Drain && c.GC {
			infos, _ := listFiles(ctx, client, []int{dst - 1, dst})
			var srcEnd, dstEnd ltx.TXID
			for _, f := range infos {
				if f.Level == dst && f.MaxTXID > dstEnd {
					dstEnd = f.MaxTXID
				}
				if f.Level == dst-1 && f.MaxTXID > srcEnd {
					srcEnd = f.MaxTXID
				}
			}
			if srcEnd != 0 && dstEnd != srcEnd {
				return fmt.Sprintf("level %d ends at %d after compacting until nothing is left, source level ends at %d", dst, dstEnd, srcEnd)
			}
		}
		return ""
	}

	i := 0
	for _, nb := range c.Batches {
		for k := 0; k < nb && i < len(c.Files); k++ {
			f := c.Files[i]
			i++
			b, err := encode(f, codecPS)
			if err != nil {
				return "", ""
			}
			if _, err := client.WriteLTXFile(ctx, 0, ltx.TXID(f.Min), ltx.TXID(f.Max), bytes.NewReader(b)); err != nil {
				hx.Fatal(err)
			}
			logical[key(0, ltx.TXID(f.Min), ltx.TXID(f.Max))] = f
		}
		if v := step(1); v != "" {
			return accDis, v
		}
		if c.L2 && cc.n%2 == 0 && !c.Drain {
			if v := step(2); v != "" {
				return accDis, v
			}
		}
	}
	if c.L2 {
		if v := step(2); v != "" {
			return accDis, v
		}
		if v := step(3); v != "" {
			return accDis, v
		}
	}
	// Restore(TXID=t) for every t equals the L0 chain applied up to t, whatever levels the plan uses
	if c.GC && len(c.Files) > 0 && c.Files[0].Min == 1 && len(c.Files) <= cc.maxRestoreN {
		rep := litestream.NewReplicaWithClient(nil, client)
		for k, f := range c.Files {
			out := filepath.Join(dir, fmt.Sprintf("r%d", k))
			opt := litestream.NewRestoreOptions()
			opt.OutputPath = out
			opt.TXID = ltx.TXID(f.Max)
			if err := rep.Restore(ctx, opt); err != nil {
				return accDis, fmt.Sprintf("Restore(TXID=%d) fails after compaction: %v", f.Max, err)
			}
			img, err := os.ReadFile(out)
			os.Remove(out)
			if err != nil {
				hx.Fatal(err)
			}
			d, sz := applySeq(nil, 0, c.Files[:k+1])
			if got, want := imgText(img, codecPS, tokCodec), dbText(d, sz); got != want {
				return accDis, fmt.Sprintf("Restore(TXID=%d) after compaction differs from the L0 files 1..%d applied in order", f.Max, f.Max)
			}
			cc.res.Count("levels:restore-ok")
		}
	}
	return accDis, ""
}

func bucket(n int) string {
	switch {
	case n <= 3:
		return fmt.Sprint(n)
	case n < 63:
		return "4-62"
	case n <= 66:
		return fmt.Sprint(n)
	case n <= 100:
		return "67-100"
	case n <= 130:
		return "101-130"
	}
	return ">130"
}

func clip(s string) string {
	if len(s) > 400 {
		return s[:400] + "…"
	}
	return s
}

// genBacklog: a growth-complete chain of n single-TXID files (tiny transactions) starting with a
// snapshot at TXID 1: long backlogs before one compaction. level2 = every file is compacted into
// level 1 on its own, so that level 2 sees a backlog of n level-1 files.
func genBacklog(r *hx.Rand, n int, level2 bool) CodecCase {
	c := CodecCase{Kind: "levels", GC: true, Drain: true, L2: true, Cache: r.Bool()}
	prevCommit := uint32(0)
	ts := int64(5000)
	for i := 1; i <= n; i++ {
		f := LF{Min: uint64(i), Max: uint64(i), TS: ts}
		ts += 1 + int64(r.Intn(20))
		f.Commit = 1 + uint32(i/24)
		if r.Chance(3) && f.Commit > 1 {
			f.Commit--
		}
		for p := uint32(1); p <= f.Commit; p++ {
			if i == 1 || p > prevCommit || p == 1+uint32(i)%f.Commit || r.Chance(10) {
				f.Pages = append(f.Pages, Page{p, genTok(r)})
			}
		}
		c.Files = append(c.Files, f)
		prevCommit = f.Commit
	}
	if level2 {
		for i := 0; i < n; i++ {
			c.Batches = append(c.Batches, 1)
		}
	} else {
		c.Batches = []int{n}
	}
	return c
}

func levelContiguous(ctx context.Context, client litestream.ReplicaClient, level int) string {
	infos, err := listFiles(ctx, client, []int{level})
	if err != nil {
		return "list: " + err.Error()
	}
	for i := 1; i < len(infos); i++ {
		if infos[i].MinTXID != infos[i-1].MaxTXID+1 {
			kind := "gap"
			if infos[i].MinTXID <= infos[i-1].MaxTXID {
				kind = "overlap"
			}
			return fmt.Sprintf("level %d %s: %d-%d then %d-%d", level, kind, infos[i-1].MinTXID, infos[i-1].MaxTXID, infos[i].MinTXID, infos[i].MaxTXID)
		}
	}
	return ""
}

func genLevels(r *hx.Rand) CodecCase {
	c := genChain(r)
	for c.Files[0].Min == 0 {
		c = genChain(r)
	}
	c.Kind = "levels"
	// unique names required on disk; for GC cases make the chain non-overlapping
	seen := map[[2]uint64]bool{}
	var fs []LF
	for _, f := range c.Files {
		k := [2]uint64{f.Min, f.Max}
		if !seen[k] {
			seen[k] = true
			fs = append(fs, f)
		}
	}
	c.Files = fs
	for i := 1; i < len(c.Files); i++ {
		if c.Files[i].Min != c.Files[i-1].Max+1 || !lfLess(c.Files[i-1], c.Files[i]) {
			c.GC = false
		}
	}
	rem := len(c.Files)
	for rem > 0 {
		b := 1 + r.Intn(rem)
		c.Batches = append(c.Batches, b)
		rem -= b
	}
	c.Cache = r.Bool()
	c.L2 = r.Chance(60)
	return c
}

func (cc *codecCtx) run(c CodecCase) (string, string) {
	if c.Kind == "levels" {
		return cc.runLevels(c)
	}
	return cc.runPure(c)
}

// withFiles keeps the batch structure meaningful for a shortened chain.
func withFiles(c CodecCase, fs []LF) CodecCase {
	d := c
	d.Files = fs
	if d.Kind == "levels" {
		if len(c.Batches) > 1 && c.Drain {
			d.Batches = make([]int, len(fs))
			for i := range d.Batches {
				d.Batches[i] = 1
			}
		} else {
			d.Batches = []int{len(fs)}
		}
	}
	return d
}

func shrinkCodec(c CodecCase, fails func(CodecCase) bool) CodecCase {
	if c.GC {
		// a growth-complete contiguous chain stays one only when cut at its ends: shortest failing
		// prefix (binary search, then linear), then drop leading files while the chain still starts a case
		deadline := time.Now().Add(60 * time.Second)
		lo, hi := 1, len(c.Files)
		for lo < hi && time.Now().Before(deadline) {
			mid := (lo + hi) / 2
			if fails(withFiles(c, c.Files[:mid])) {
				hi = mid
			} else {
				lo = mid + 1
			}
		}
		if hi < len(c.Files) && fails(withFiles(c, c.Files[:hi])) {
			c = withFiles(c, c.Files[:hi])
		}
		return c
	}
	for changed := true; changed; {
		changed = false
		// drop a file
		for i := range c.Files {
			if len(c.Files) == 1 {
				break
			}
			d := c
			d.Files = append(append([]LF(nil), c.Files[:i]...), c.Files[i+1:]...)
			if d.Kind == "levels" {
				d.Batches = []int{len(d.Files)}
			}
			if fails(d) {
				c, changed = d, true
				break
			}
		}
		if changed {
			continue
		}
		// drop a page
	outer:
		for i := range c.Files {
			for j := range c.Files[i].Pages {
				d := c
				d.Files = append([]LF(nil), c.Files...)
				f := d.Files[i]
				f.Pages = append(append([]Page(nil), f.Pages[:j]...), f.Pages[j+1:]...)
				d.Files[i] = f
				if fails(d) {
					c, changed = d, true
					break outer
				}
			}
		}
	}
	return c
}

func (cc *codecCtx) evalCodec(c CodecCase) {
	canon, _ := json.Marshal(c)
	cc.res.Case("codec|"+string(canon), len(c.Files) > 1)
	cc.res.Count("codec:" + c.Kind)
	if c.GC {
		cc.res.Count("codec:growth-complete")
	}
	d, v := cc.run(c)
	if (d != "" || v != "") && len(cc.res.Findings) >= 4 {
		cc.res.Count("codec:failing-cases-not-shrunk")
		return
	}
	if d != "" {
		cc.res.DisagreementsChecked++
		sc := shrinkCodec(c, func(x CodecCase) bool { dd, _ := cc.run(x); return dd != "" })
		dd, _ := cc.run(sc)
		cc.res.AddFinding("disagreement", "C06/codec-model-vs-impl", dd, map[string]any{"stream": "codec", "case": sc, "original": c})
	}
	if v != "" {
		sc := shrinkCodec(c, func(x CodecCase) bool { _, vv := cc.run(x); return vv != "" })
		_, vv := cc.run(sc)
		cc.res.AddFinding("violation", "C06/codec-"+sigOf(vv), vv, map[string]any{"stream": "codec", "case": sc, "original": c})
	}
	if cc.res.Evaluations%1500 == 1 {
		cc.res.Sample(map[string]any{"stream": "codec", "kind": c.Kind, "in": textAll(c.Files)})
	}
}

func sigOf(v string) string {
	switch {
	case strings.Contains(v, "level 0 on the replica"):
		return "replica-l0-gap"
	case strings.Contains(v, "fails although every transaction was replicated"):
		return "txid-not-restorable"
	case strings.Contains(v, "starts at"):
		return "new-file-start"
	case strings.Contains(v, "ends at"):
		return "new-file-end"
	case strings.Contains(v, "gap"), strings.Contains(v, "overlap"):
		return "level-not-contiguous"
	case strings.Contains(v, "timestamp"):
		return "timestamp"
	case strings.Contains(v, "Restore") || strings.Contains(v, "restore"):
		return "restore-changed"
	}
	return "content-not-equivalent"
}

// gateClient wraps the file replica client so that one listing of a chosen level can be held
// AFTER it has been read (the window in which a concurrent compaction may finish), and counts
// the client calls made while the gate is closed (progress of the concurrent operation).
type gateClient struct {
	*file.ReplicaClient
	mu       sync.Mutex
	armed    bool
	level    int
	listed   chan struct{}
	release  chan struct{}
	activity int
	failN    int // fail the next n uploads
}

func (g *gateClient) arm(level int) {
	g.mu.Lock()
	defer g.mu.Unlock()
	g.armed, g.level, g.activity = true, level, 0
	g.listed = make(chan struct{})
	g.release = make(chan struct{})
}

func (g *gateClient) disarm() {
	g.mu.Lock()
	defer g.mu.Unlock()
	g.armed = false
}

func (g *gateClient) activityN() int {
	g.mu.Lock()
	defer g.mu.Unlock()
	return g.activity
}

func (g *gateClient) LTXFiles(ctx context.Context, level int, seek ltx.TXID, useMetadata bool) (ltx.FileIterator, error) {
	itr, err := g.ReplicaClient.LTXFiles(ctx, level, seek, useMetadata)
	g.mu.Lock()
	hold := g.armed && level == g.level && seek == 0
	var listed, release chan struct{}
	if hold {
		g.armed = false // one shot
		g.activity = 0  // count only what happens while the listing is held
		listed, release = g.listed, g.release
	} else if g.listed != nil {
		g.activity++
	}
	g.mu.Unlock()
	if hold {
		close(listed)
		<-release
	}
	return itr, err
}

func (g *gateClient) failWrites(n int) {
	g.mu.Lock()
	g.failN = n
	g.mu.Unlock()
}

func (g *gateClient) WriteLTXFile(ctx context.Context, level int, minTXID, maxTXID ltx.TXID, r io.Reader) (*ltx.FileInfo, error) {
	g.mu.Lock()
	g.activity++
	fail := g.failN > 0
	if fail {
		g.failN--
	}
	g.mu.Unlock()
	if fail {
		return nil, errors.New("injected upload failure")
	}
	return g.ReplicaClient.WriteLTXFile(ctx, level, minTXID, maxTXID, r)
}

// ---------------------------------------------------------------- history stream

type HOp struct {
	Op  string `json:"op"`
	A   int    `json:"a,omitempty"`
	B   int    `json:"b,omitempty"`
	SQL string `json:"sql,omitempty"`
}

type HistCase struct {
	PageSize   int   `json:"page_size"`
	AutoVacuum int   `json:"auto_vacuum"`
	Levels     int   `json:"levels"` // number of compaction levels above 0 (1..8)
	Ops        []HOp `json:"ops"`
	ViaStore   bool  `json:"via_store"`
}

// genHistBacklog: n tiny transactions, each synced, before a compaction drains level 1 (long
// backlog of L0 files); level2: every L0 file is compacted into level 1 at once so that level 2
// sees a backlog of n L1 files. Then everything is drained upwards and snapshotted.
func genHistBacklog(r *hx.Rand, n int, level2 bool) HistCase {
	h := HistCase{PageSize: []int{512, 1024}[r.Intn(2)], AutoVacuum: 0, Levels: 2 + r.Intn(2)}
	for i := 0; i < n; i++ {
		switch r.Intn(10) {
		case 0:
			h.Ops = append(h.Ops, HOp{Op: "update", A: r.Intn(1000), B: 10 + r.Intn(60)})
		case 1:
			h.Ops = append(h.Ops, HOp{Op: "insert", A: 1, B: 600 + r.Intn(900)})
		default:
			h.Ops = append(h.Ops, HOp{Op: "insert", A: 1, B: 8 + r.Intn(40)})
		}
		h.Ops = append(h.Ops, HOp{Op: "sync"})
		if level2 {
			h.Ops = append(h.Ops, HOp{Op: "compact", A: 1, B: 1})
		}
	}
	for l := 1; l <= h.Levels; l++ {
		h.Ops = append(h.Ops, HOp{Op: "compact", A: l, B: 1})
	}
	h.Ops = append(h.Ops, HOp{Op: "insert", A: 1, B: 30}, HOp{Op: "sync"}, HOp{Op: "compact", A: 1, B: 1}, HOp{Op: "compact", A: 2, B: 1}, HOp{Op: "snapshot"})
	return h
}

// genHistRestart: writes and syncs (replicated transactions still only in the WAL), then a restart
// (Close + new DB object, or a crash: object abandoned), 0-2 idle syncs, then a snapshot (DB.Snapshot
// or the level-9 Store.CompactDB), with and without a following write+sync; repeated a few times.
func genHistRestart(r *hx.Rand) HistCase {
	h := HistCase{PageSize: []int{512, 1024, 4096}[r.Intn(3)], AutoVacuum: 0, Levels: 1 + r.Intn(3)}
	write := func() {
		switch r.Intn(4) {
		case 0:
			h.Ops = append(h.Ops, HOp{Op: "update", A: r.Intn(1000), B: 10 + r.Intn(300)})
		case 1:
			h.Ops = append(h.Ops, HOp{Op: "sql", SQL: fmt.Sprintf("CREATE TABLE IF NOT EXISTS r%d (id INTEGER PRIMARY KEY, v BLOB)", r.Intn(4))})
		default:
			h.Ops = append(h.Ops, HOp{Op: "insert", A: 1 + r.Intn(4), B: 20 + r.Intn(1200)})
		}
	}
	rounds := 2 + r.Intn(3)
	for k := 0; k < rounds; k++ {
		for i := 0; i < 1+r.Intn(4); i++ {
			write()
			h.Ops = append(h.Ops, HOp{Op: "sync"})
		}
		if r.Chance(25) {
			h.Ops = append(h.Ops, HOp{Op: "compact", A: 1})
		}
		h.Ops = append(h.Ops, HOp{Op: "restart", A: r.Intn(2)})
		for i := r.Intn(3); i > 0; i-- {
			h.Ops = append(h.Ops, HOp{Op: "sync"}) // idle
		}
		if r.Chance(20) {
			write() // an unsynced commit behind the replicated frames
		}
		h.Ops = append(h.Ops, HOp{Op: "snapshot", B: r.Intn(2)})
		if r.Bool() {
			write()
			h.Ops = append(h.Ops, HOp{Op: "sync"})
		}
		if r.Chance(30) {
			h.Ops = append(h.Ops, HOp{Op: "checkpoint", A: r.Intn(3)})
		}
	}
	h.Ops = append(h.Ops, HOp{Op: "sync"}, HOp{Op: "compact", A: 1}, HOp{Op: "snapshot"})
	return h
}

// genHistRace: level N has files already consumed by level N+1 and new pending sources; restart
// (cold max-file cache); `race N` = Store.CompactDB(N+1) probing level N concurrently with
// Compact(N); then further writes and compactions of both levels judged by the usual oracles.
func genHistRace(r *hx.Rand) HistCase {
	h := HistCase{PageSize: []int{512, 1024}[r.Intn(2)], AutoVacuum: 0, Levels: 2 + r.Intn(2)}
	n := 1
	if h.Levels == 3 && r.Bool() {
		n = 2
	}
	ws := func(k int) {
		for i := 0; i < k; i++ {
			h.Ops = append(h.Ops, HOp{Op: "insert", A: 1, B: 10 + r.Intn(400)}, HOp{Op: "sync"})
		}
	}
	drainUpTo := func(top int) {
		for l := 1; l <= top; l++ {
			h.Ops = append(h.Ops, HOp{Op: "compact", A: l, B: 1})
		}
	}
	rounds := 1 + r.Intn(2)
	for k := 0; k < rounds; k++ {
		ws(2 + r.Intn(3))
		drainUpTo(n + 1)
		ws(1 + r.Intn(2))
		drainUpTo(n + 1) // level N's newest file is consumed by level N+1
		ws(2 + r.Intn(2))
		drainUpTo(n - 1) // pending sources for level N
		h.Ops = append(h.Ops, HOp{Op: "restart", A: r.Intn(2)}, HOp{Op: "race", A: n})
		ws(1 + r.Intn(2))
		drainUpTo(n + 1)
		ws(1)
		drainUpTo(h.Levels)
	}
	h.Ops = append(h.Ops, HOp{Op: "snapshot"})
	return h
}

// genHistLag: the replica lags behind the database. Rounds of: replicated writes; the replica's
// in-memory position is lost (restart with new objects, or a failed replica sync); transactions
// DB.Sync'ed locally only; a snapshot taken while lagging (or not); then Replica.Sync, more
// writes, compactions.
func genHistLag(r *hx.Rand) HistCase {
	h := HistCase{PageSize: []int{512, 1024, 4096}[r.Intn(3)], AutoVacuum: 0, Levels: 1 + r.Intn(3)}
	w := func() { h.Ops = append(h.Ops, HOp{Op: "insert", A: 1 + r.Intn(3), B: 10 + r.Intn(700)}) }
	rounds := 1 + r.Intn(3)
	for k := 0; k < rounds; k++ {
		for i := 0; i < 1+r.Intn(3); i++ {
			w()
			h.Ops = append(h.Ops, HOp{Op: "sync"})
		}
		switch r.Intn(4) {
		case 0:
			h.Ops = append(h.Ops, HOp{Op: "restart", A: 0})
		case 1:
			h.Ops = append(h.Ops, HOp{Op: "restart", A: 1})
		case 2:
			w()
			h.Ops = append(h.Ops, HOp{Op: "syncfail"})
		}
		for i := 0; i < r.Intn(4); i++ {
			w()
			h.Ops = append(h.Ops, HOp{Op: "dbsync"})
		}
		if r.Chance(70) {
			h.Ops = append(h.Ops, HOp{Op: "snapshot", A: 1, B: r.Intn(2)})
		}
		if r.Chance(30) {
			w()
			h.Ops = append(h.Ops, HOp{Op: "dbsync"})
		}
		h.Ops = append(h.Ops, HOp{Op: "sync"})
		w()
		h.Ops = append(h.Ops, HOp{Op: "sync"}, HOp{Op: "compact", A: 1, B: 1})
		if h.Levels >= 2 && r.Bool() {
			h.Ops = append(h.Ops, HOp{Op: "compact", A: 2, B: 1})
		}
	}
	h.Ops = append(h.Ops, HOp{Op: "snapshot"})
	return h
}

func genHist(r *hx.Rand, nops int) HistCase {
	h := HistCase{PageSize: []int{512, 1024, 4096}[r.Intn(3)], AutoVacuum: r.Intn(3), Levels: 1 + r.Intn(8), ViaStore: r.Chance(30)}
	ntab := 1
	for i := 0; i < nops; i++ {
		switch x := r.Intn(100); {
		case x < 22:
			h.Ops = append(h.Ops, HOp{Op: "insert", A: 1 + r.Intn(12), B: 20 + r.Intn(1500)})
		case x < 28:
			h.Ops = append(h.Ops, HOp{Op: "update", A: r.Intn(1000), B: 10 + r.Intn(600)})
		case x < 35:
			h.Ops = append(h.Ops, HOp{Op: "delete", A: 10 + r.Intn(80)})
		case x < 40:
			h.Ops = append(h.Ops, HOp{Op: "vacuum"})
		case x < 44:
			ntab++
			h.Ops = append(h.Ops, HOp{Op: "sql", SQL: fmt.Sprintf("CREATE TABLE IF NOT EXISTS t%d (id INTEGER PRIMARY KEY, v BLOB)", ntab)},
				HOp{Op: "sql", SQL: fmt.Sprintf("INSERT INTO t%d (v) VALUES (randomblob(%d))", ntab, 10+r.Intn(2000))})
		case x < 47:
			h.Ops = append(h.Ops, HOp{Op: "sql", SQL: "CREATE INDEX IF NOT EXISTS ix ON t(v)"})
		case x < 49:
			h.Ops = append(h.Ops, HOp{Op: "sql", SQL: "DROP INDEX IF EXISTS ix"})
		case x < 51 && ntab > 1:
			h.Ops = append(h.Ops, HOp{Op: "sql", SQL: fmt.Sprintf("DROP TABLE IF EXISTS t%d", ntab)})
			ntab--
		case x < 70:
			h.Ops = append(h.Ops, HOp{Op: "sync"})
		case x < 74:
			h.Ops = append(h.Ops, HOp{Op: "checkpoint", A: r.Intn(3)})
		case x < 93:
			lvl := 1
			for lvl < h.Levels && r.Chance(45) {
				lvl++
			}
			h.Ops = append(h.Ops, HOp{Op: "compact", A: lvl})
		case x < 97:
			h.Ops = append(h.Ops, HOp{Op: "snapshot"})
		case x < 99:
			h.Ops = append(h.Ops, HOp{Op: "l0retention"})
		default:
			h.Ops = append(h.Ops, HOp{Op: "restart", A: r.Intn(2)})
		}
	}
	h.Ops = append(h.Ops, HOp{Op: "sync"})
	for l := 1; l <= h.Levels; l++ {
		h.Ops = append(h.Ops, HOp{Op: "compact", A: l})
	}
	h.Ops = append(h.Ops, HOp{Op: "snapshot"})
	return h
}

type histResult struct {
	violation string
	disagree  string
	stats     map[string]int
	sample    any
}

func runHist(h HistCase, drv *hx.Driver, root string, n int) (hr histResult) {
	hr.stats = map[string]int{}
	ctx := context.Background()
	dir := filepath.Join(root, fmt.Sprintf("h%d", n))
	os.MkdirAll(dir, 0o755)
	defer os.RemoveAll(dir)
	dbPath := filepath.Join(dir, "db")
	app, err := sql.Open("sqlite", dbPath)
	if err != nil {
		hx.Fatal(err)
	}
	defer app.Close()
	app.SetMaxOpenConns(1)
	exec := func(q string) error { _, err := app.Exec(q); return err }
	for _, q := range []string{fmt.Sprintf("PRAGMA page_size=%d", h.PageSize), fmt.Sprintf("PRAGMA auto_vacuum=%d", h.AutoVacuum),
		"PRAGMA journal_mode=wal", "PRAGMA wal_autocheckpoint=0", "CREATE TABLE t (id INTEGER PRIMARY KEY, v BLOB)"} {
		if err := exec(q); err != nil {
			hx.Fatal(fmt.Errorf("%s: %w", q, err))
		}
	}
	ps := uint32(h.PageSize)
	lock := ltx.LockPgno(ps)

	client := &gateClient{ReplicaClient: file.NewReplicaClient(filepath.Join(dir, "replica"))}
	newDB := func() *litestream.DB {
		d := litestream.NewDB(dbPath)
		d.MonitorInterval = 0
		d.Logger = quiet
		d.Replica = litestream.NewReplicaWithClient(d, client)
		d.Replica.MonitorEnabled = false
		d.ShutdownSyncTimeout = 0
		return d
	}
	db := newDB()
	levels := litestream.CompactionLevels{{Level: 0}}
	for l := 1; l <= h.Levels; l++ {
		levels = append(levels, &litestream.CompactionLevel{Level: l, Interval: time.Nanosecond})
	}
	store := litestream.NewStore([]*litestream.DB{db}, levels)
	store.Logger = quiet
	db.SetLogger(quiet)
	if err := db.Open(); err != nil {
		hx.Fatal(err)
	}
	// every DB object ever created (restart / crash ops replace db) is closed at the end
	objs := []*litestream.DB{db}
	defer func() {
		for k := len(objs) - 1; k >= 0; k-- {
			objs[k].Close(ctx)
		}
	}()

	l0 := map[uint64]LF{} // archived at birth
	var maxL0 uint64
	truth := map[uint64]string{} // TXID -> canonical database text (first restore)
	restoreN := 0

	archive := func() string {
		infos, err := listFiles(ctx, client, []int{0})
		if err != nil {
			return "list L0: " + err.Error()
		}
		for _, f := range infos {
			if f.MinTXID != f.MaxTXID {
				return fmt.Sprintf("L0 file spans %d-%d", f.MinTXID, f.MaxTXID)
			}
			if _, ok := l0[uint64(f.MinTXID)]; ok {
				continue
			}
			lf, _, err := readLogical(ctx, client, 0, f.MinTXID, f.MaxTXID, tokHash)
			if err != nil {
				return "read L0: " + err.Error()
			}
			l0[uint64(f.MinTXID)] = lf
			if uint64(f.MinTXID) > maxL0 {
				maxL0 = uint64(f.MinTXID)
			}
		}
		// local L0 files not (yet) uploaded: the replica may lag behind DB.Sync
		ents, _ := os.ReadDir(db.LTXLevelDir(0))
		for _, e := range ents {
			mn, mx, err := ltx.ParseFilename(e.Name())
			if err != nil || mn != mx {
				continue
			}
			if _, ok := l0[uint64(mn)]; ok {
				continue
			}
			fh, err := os.Open(filepath.Join(db.LTXLevelDir(0), e.Name()))
			if err != nil {
				continue
			}
			lf, _, err := decodeLogical(fh, tokHash)
			fh.Close()
			if err != nil {
				return "read local L0: " + err.Error()
			}
			l0[uint64(mn)] = lf
			hr.stats["l0-archived-from-local-dir"]++
			if uint64(mn) > maxL0 {
				maxL0 = uint64(mn)
			}
		}
		return ""
	}
	retentionRan := false
	// replicaL0Gapless: after a successful replica sync the replica's level 0 is a gapless run of
	// TXIDs ending at the database position (retention only ever removes a prefix).
	replicaL0Gapless := func(when string) string {
		infos, err := listFiles(ctx, client, []int{0})
		if err != nil {
			return "list L0: " + err.Error()
		}
		for k := 1; k < len(infos); k++ {
			if infos[k].MinTXID != infos[k-1].MaxTXID+1 {
				return fmt.Sprintf("level 0 on the replica has a hole %s: %d then %d", when, infos[k-1].MaxTXID, infos[k].MinTXID)
			}
		}
		if pos, err := db.Pos(); err == nil && len(infos) > 0 && infos[len(infos)-1].MaxTXID != pos.TXID {
			return fmt.Sprintf("level 0 on the replica ends at %d %s, the database position is %d", infos[len(infos)-1].MaxTXID, when, pos.TXID)
		}
		return ""
	}
	rangeL0 := func(a, b uint64) ([]LF, bool) {
		var out []LF
		for t := a; t <= b; t++ {
			f, ok := l0[t]
			if !ok {
				return nil, false
			}
			out = append(out, f)
		}
		return out, true
	}
	restoreAt := func(txid uint64) (string, error) {
		restoreN++
		out := filepath.Join(dir, fmt.Sprintf("r%d", restoreN))
		defer os.Remove(out)
		opt := litestream.NewRestoreOptions()
		opt.OutputPath = out
		opt.TXID = ltx.TXID(txid)
		if err := db.Replica.Restore(ctx, opt); err != nil {
			return "", err
		}
		img, err := os.ReadFile(out)
		if err != nil {
			return "", err
		}
		return imgText(img, h.PageSize, tokHash), nil
	}
	// checkRestores: every TXID restorable now gives the database it always gave, which is the
	// sequential application of the archived L0 files 1..n.
	strictAvail := false // set for the final sweep: every TXID must be restorable
	checkRestores := func(when string, onlyNew bool) string {
		for t := uint64(1); t <= maxL0; t++ {
			if _, ok := truth[t]; ok && onlyNew {
				continue
			}
			got, err := restoreAt(t)
			if err != nil {
				if _, ok := truth[t]; ok && !errors.Is(err, litestream.ErrTxNotAvailable) && !strings.Contains(err.Error(), "not available") {
					return fmt.Sprintf("Restore(TXID=%d) %s fails: %v", t, when, err)
				}
				if strictAvail && !retentionRan {
					return fmt.Sprintf("Restore(TXID=%d) %s fails although every transaction was replicated and nothing was pruned: %v", t, when, err)
				}
				hr.stats["restore-unavailable"]++
				continue
			}
			hr.stats["restore-ok"]++
			if want, ok := truth[t]; ok {
				if want != got {
					return fmt.Sprintf("Restore(TXID=%d) changed %s", t, when)
				}
			} else {
				truth[t] = got
				if fs, ok := rangeL0(1, t); ok {
					d, sz := applySeq(nil, 0, fs)
					delete(d, lock)
					if want := dbText(d, sz); want != got {
						return fmt.Sprintf("Restore(TXID=%d) %s differs from the L0 files 1..%d applied in order", t, when, t)
					}
				}
			}
		}
		return ""
	}
	// checkFile: a file at level >= 1 equals the composition of the archived L0 files of its range.
	checkFile := func(info *ltx.FileInfo) string {
		g, _, err := readLogical(ctx, client, info.Level, info.MinTXID, info.MaxTXID, tokHash)
		if err != nil {
			return fmt.Sprintf("level %d file %d-%d unreadable: %v", info.Level, info.MinTXID, info.MaxTXID, err)
		}
		if g.Min != uint64(info.MinTXID) || g.Max != uint64(info.MaxTXID) {
			return fmt.Sprintf("level %d file named %d-%d has header %d-%d", info.Level, info.MinTXID, info.MaxTXID, g.Min, g.Max)
		}
		fs, ok := rangeL0(g.Min, g.Max)
		if !ok {
			return fmt.Sprintf("level %d file %d-%d covers TXIDs with no L0 file ever written", info.Level, g.Min, g.Max)
		}
		if info.Level == litestream.SnapshotLevel {
			// a snapshot is written from the database at pos: page images and size only (timestamp is its own)
			g.TS = fs[len(fs)-1].TS
		}
		if why := equivCompacted(g, fs, lock); why != "" {
			return fmt.Sprintf("level %d file %d-%d: %s", info.Level, g.Min, g.Max, why)
		}
		if info.Level != litestream.SnapshotLevel && !info.CreatedAt.Equal(time.UnixMilli(fs[len(fs)-1].TS).UTC()) {
			return fmt.Sprintf("level %d file %d-%d: timestamp (CreatedAt) %v != newest input's %v", info.Level, g.Min, g.Max, info.CreatedAt, time.UnixMilli(fs[len(fs)-1].TS).UTC())
		}
		// model comparison: compact of the archived range
		if drv != nil && info.Level != litestream.SnapshotLevel {
			m, err := drv.Ask(fmt.Sprintf("cmpct LOCK=%d IN=%s", lock, textAll(fs)))
			if err != nil {
				hx.Fatal(err)
			}
			if a := "ok " + g.text(); hx.Differs(a, m) && hr.disagree == "" {
				hr.disagree = fmt.Sprintf("history cmpct %d-%d: impl and model differ (impl %d pages)", g.Min, g.Max, len(g.Pages))
			}
		}
		return ""
	}

	repeat := 0
	for i := 0; i < len(h.Ops); i++ {
		op := h.Ops[i]
		hr.stats["op:"+op.Op]++
		var err error
		switch op.Op {
		case "insert":
			for k := 0; k < op.A && err == nil; k++ {
				err = exec(fmt.Sprintf("INSERT INTO t (v) VALUES (randomblob(%d))", op.B))
			}
		case "update":
			err = exec(fmt.Sprintf("UPDATE t SET v = randomblob(%d) WHERE id %% 7 = %d", op.B, op.A%7))
		case "delete":
			err = exec(fmt.Sprintf("DELETE FROM t WHERE id %% 100 < %d", op.A))
		case "vacuum":
			if h.AutoVacuum == 2 {
				err = exec("PRAGMA incremental_vacuum")
			} else {
				err = exec("VACUUM")
			}
		case "sql":
			err = exec(op.SQL)
		case "checkpoint":
			mode := []string{litestream.CheckpointModePassive, litestream.CheckpointModeFull, litestream.CheckpointModeTruncate}[op.A%3]
			if e := db.Checkpoint(ctx, mode); e != nil {
				hr.stats["checkpoint-error"]++
			}
		case "sync":
			if e := db.Sync(ctx); e != nil {
				hx.Fatal(fmt.Errorf("db.Sync: %w", e))
			}
			if e := db.Replica.Sync(ctx); e != nil {
				hx.Fatal(fmt.Errorf("replica.Sync: %w", e))
			}
			if why := archive(); why != "" {
				hr.violation = why
				return
			}
			if why := replicaL0Gapless(fmt.Sprintf("after op %d (sync)", i)); why != "" {
				hr.violation = why
				return
			}
		case "dbsync":
			// the replica lags: the transaction is in the local L0 directory only
			if e := db.Sync(ctx); e != nil {
				hx.Fatal(fmt.Errorf("db.Sync: %w", e))
			}
			if why := archive(); why != "" {
				hr.violation = why
				return
			}
		case "syncfail":
			// a replica sync that fails on its first upload (the in-memory replica position is dropped)
			if e := db.Sync(ctx); e != nil {
				hx.Fatal(fmt.Errorf("db.Sync: %w", e))
			}
			client.failWrites(1)
			if e := db.Replica.Sync(ctx); e != nil {
				hr.stats["replica-sync-error"]++
			}
			client.failWrites(0)
			if why := archive(); why != "" {
				hr.violation = why
				return
			}
		case "restart":
			// A=0: clean stop (Close) and a new DB object; A=1: crash — the object is abandoned
			// without Close (its descriptors stay open until the end of the run, like a killed
			// process whose locks are gone but whose files are as it left them)
			if op.A == 0 {
				if e := db.Close(ctx); e != nil {
					hr.stats["close-error"]++
				}
			} else {
				hr.stats["crash-restart"]++
			}
			nd := newDB()
			nd.SetLogger(quiet)
			if e := nd.Open(); e != nil {
				hx.Fatal(fmt.Errorf("reopen: %w", e))
			}
			objs = append(objs, nd)
			db = nd
			if why := archive(); why != "" {
				hr.violation = why
				return
			}
		case "race":
			// Schedule (cold cache after a restart): Store.CompactDB(N+1) probes level N — its listing
			// of level N is held after it has been read — while Compact(N) runs; the gate opens when
			// Compact(N) has finished, or when it made no progress at all (it waits for the cache lock).
			n := op.A
			if n < 1 || n+1 > h.Levels {
				break
			}
			if e := db.Sync(ctx); e != nil {
				hx.Fatal(fmt.Errorf("db.Sync: %w", e))
			}
			if e := db.Replica.Sync(ctx); e != nil {
				hx.Fatal(fmt.Errorf("replica.Sync: %w", e))
			}
			if why := archive(); why != "" {
				hr.violation = why
				return
			}
			if why := checkRestores(fmt.Sprintf("before op %d (race)", i), true); why != "" {
				hr.violation = why
				return
			}
			type cres struct {
				info *ltx.FileInfo
				err  error
			}
			client.arm(n)
			c1 := make(chan cres, 1)
			c2 := make(chan cres, 1)
			cur := db
			go func() { inf, e := store.CompactDB(ctx, cur, levels[n+1]); c1 <- cres{inf, e} }()
			var r1, r2 cres
			got1 := false
			select {
			case <-client.listed:
			case r1 = <-c1:
				got1 = true
			case <-time.After(20 * time.Second):
			}
			if got1 {
				client.disarm()
				hr.stats["race:no-window"]++
				r2.info, r2.err = db.Compact(ctx, n)
			} else {
				go func() { inf, e := cur.Compact(ctx, n); c2 <- cres{inf, e} }()
				got2 := false
				t0 := time.Now()
				for !got2 {
					select {
					case r2 = <-c2:
						got2 = true
					case <-time.After(25 * time.Millisecond):
					}
					if got2 {
						break
					}
					if el := time.Since(t0); (el > 600*time.Millisecond && client.activityN() == 0) || el > 30*time.Second {
						break // Compact(N) is waiting for the cache lock held across the listing
					}
				}
				if got2 {
					hr.stats["race:compact-finished-inside-window"]++
				} else {
					hr.stats["race:compact-waited-for-lister"]++
				}
				close(client.release)
				r1 = <-c1
				if !got2 {
					r2 = <-c2
				}
			}
			for k, r := range []cres{r2, r1} {
				lvl := n + k
				if r.err != nil {
					if errors.Is(r.err, litestream.ErrNoCompaction) || errors.Is(r.err, litestream.ErrCompactionTooEarly) {
						hr.stats["compact-skipped"]++
						continue
					}
					hr.violation = fmt.Sprintf("op %d: concurrent compaction of level %d fails: %v", i, lvl, r.err)
					return
				}
				hr.stats[fmt.Sprintf("compact-ok-L%d", lvl)]++
				if why := checkFile(r.info); why != "" {
					hr.violation = why
					return
				}
			}
			for _, lvl := range []int{n, n + 1} {
				if why := levelContiguous(ctx, client, lvl); why != "" {
					hr.violation = why
					return
				}
			}
			if why := checkRestores(fmt.Sprintf("after op %d (race at level %d)", i, n), false); why != "" {
				hr.violation = why
				return
			}
		case "l0retention":
			retentionRan = true
			db.L0Retention = time.Nanosecond
			if e := db.EnforceL0RetentionByTime(ctx); e != nil {
				hr.stats["l0retention-error"]++
			}
			db.L0Retention = litestream.DefaultL0Retention
		case "compact", "snapshot":
			lagging := op.Op == "snapshot" && op.A == 1 // snapshot while the replica lags behind DB.Sync
			// flush so that everything local is on the replica and archived before it is compacted
			if e := db.Sync(ctx); e != nil {
				hx.Fatal(fmt.Errorf("db.Sync: %w", e))
			}
			if lagging {
				hr.stats["snapshot-while-lagging"]++
			} else if e := db.Replica.Sync(ctx); e != nil {
				hx.Fatal(fmt.Errorf("replica.Sync: %w", e))
			}
			if why := archive(); why != "" {
				hr.violation = why
				return
			}
			if why := checkRestores(fmt.Sprintf("before op %d (%s)", i, op.Op), true); why != "" {
				hr.violation = why
				return
			}
			dst := op.A
			if op.Op == "snapshot" {
				dst = litestream.SnapshotLevel
			}
			before, _ := listFiles(ctx, client, []int{dst - 1, dst})
			var prevMax, srcMax ltx.TXID
			for _, f := range before {
				if f.Level == dst && f.MaxTXID > prevMax {
					prevMax = f.MaxTXID
				}
				if f.Level == dst-1 && f.MaxTXID > srcMax {
					srcMax = f.MaxTXID
				}
			}
			var info *ltx.FileInfo
			var cerr error
			switch {
			case op.Op == "snapshot" && op.B == 1: // the level-9 path of the compaction monitor
				info, cerr = store.CompactDB(ctx, db, &litestream.CompactionLevel{Level: litestream.SnapshotLevel})
			case op.Op == "snapshot":
				info, cerr = db.Snapshot(ctx)
			case h.ViaStore:
				info, cerr = store.CompactDB(ctx, db, levels[dst])
			default:
				info, cerr = db.Compact(ctx, dst)
			}
			if cerr != nil {
				if errors.Is(cerr, litestream.ErrNoCompaction) || errors.Is(cerr, litestream.ErrCompactionTooEarly) {
					hr.stats["compact-skipped"]++
					if op.Op == "compact" && op.B == 1 && errors.Is(cerr, litestream.ErrNoCompaction) {
						// drained: the level must now cover its whole source level
						repeat = 0
						if srcMax != 0 && prevMax != srcMax {
							hr.violation = fmt.Sprintf("level %d ends at %d after compacting until nothing is left, source level ends at %d", dst, prevMax, srcMax)
							return
						}
					}
					break
				}
				hr.violation = fmt.Sprintf("op %d %s(%d) fails: %v", i, op.Op, dst, cerr)
				return
			}
			hr.stats[fmt.Sprintf("compact-ok-L%d", dst)]++
			if drv != nil && op.Op == "compact" {
				m, e := drv.Ask(fmt.Sprintf("level DST=%d F=%s C=", dst, filesArg(before)))
				if e != nil {
					hx.Fatal(e)
				}
				a := fmt.Sprintf("ok %d:%d hdr=%d:%d seek=%d", info.MinTXID, info.MaxTXID, info.MinTXID, info.MaxTXID, prevMax+1)
				if m != "-" && !strings.HasPrefix(m, a+" ") && hr.disagree == "" {
					hr.disagree = fmt.Sprintf("history level DST=%d: impl=%q model=%q", dst, a, m)
				}
			}
			if why := checkFile(info); why != "" {
				hr.violation = why
				return
			}
			if op.Op == "compact" {
				if prevMax != 0 && info.MinTXID != prevMax+1 {
					hr.violation = fmt.Sprintf("level %d: new file starts at %d, previous ended at %d", dst, info.MinTXID, prevMax)
					return
				}
				boundary := false
				nsrc := 0
				for _, f := range before {
					if f.Level == dst-1 && f.MinTXID >= info.MinTXID {
						nsrc++
						if f.MaxTXID == info.MaxTXID {
							boundary = true
						}
					}
				}
				hr.stats["sources="+bucket(nsrc)]++
				if !boundary {
					hr.violation = fmt.Sprintf("level %d: new file ends at %d, which is not the end of any source file", dst, info.MaxTXID)
					return
				}
				if why := levelContiguous(ctx, client, dst); why != "" {
					hr.violation = why
					return
				}
			} else if info.MinTXID != 1 || uint64(info.MaxTXID) != maxL0 {
				hr.violation = fmt.Sprintf("snapshot covers %d-%d, position is %d", info.MinTXID, info.MaxTXID, maxL0)
				return
			}
			if why := checkRestores(fmt.Sprintf("after op %d (%s %d)", i, op.Op, dst), false); why != "" {
				hr.violation = why
				return
			}
			if op.Op == "compact" && op.B == 1 && repeat < 12 {
				repeat++
				i-- // drain: compact the same level again until ErrNoCompaction
			}
		}
		if err != nil {
			hr.stats["sql-error"]++
		}
	}
	// final: everything replicated; level 0 gapless; every TXID restorable to its recorded state
	if e := db.Sync(ctx); e == nil {
		if e := db.Replica.Sync(ctx); e == nil {
			if why := archive(); why != "" {
				hr.violation = why
				return
			}
			if why := replicaL0Gapless("at the end of the history"); why != "" {
				hr.violation = why
				return
			}
			strictAvail = true
			if why := checkRestores("at the end of the history", false); why != "" {
				hr.violation = why
				return
			}
			strictAvail = false
		}
	}
	// final sweep: every file at level >= 1
	var lv []int
	for l := 1; l <= h.Levels; l++ {
		lv = append(lv, l)
	}
	lv = append(lv, litestream.SnapshotLevel)
	all, _ := listFiles(ctx, client, lv)
	for _, f := range all {
		hr.stats["final-files"]++
		if why := checkFile(f); why != "" {
			hr.violation = why
			return
		}
	}
	for l := 1; l <= h.Levels; l++ {
		if why := levelContiguous(ctx, client, l); why != "" {
			hr.violation = why
			return
		}
	}
	hr.stats["txids"] += int(maxL0)
	hr.sample = map[string]any{"stream": "history", "page_size": h.PageSize, "levels": h.Levels, "txids": maxL0, "files_at_levels>=1": len(all), "restores": restoreN}
	return
}

func shrinkHist(h HistCase, fails func(HistCase) bool) HistCase {
	// chunked delta debugging over the op list, within a time budget
	deadline := time.Now().Add(75 * time.Second)
	for chunk := len(h.Ops) / 2; chunk >= 1; chunk /= 2 {
		for i := 0; i+chunk <= len(h.Ops) && time.Now().Before(deadline); {
			d := h
			d.Ops = append(append([]HOp(nil), h.Ops[:i]...), h.Ops[i+chunk:]...)
			if fails(d) {
				h = d
			} else {
				i += chunk
			}
		}
	}
	return h
}

// ---------------------------------------------------------------- main

type replayFile struct {
	Replay struct {
		Stream string     `json:"stream"`
		Case   json.RawMessage `json:"case"`
	} `json:"replay"`
}

func main() {
	o := hx.ParseFlags("C06")
	res := hx.NewResult(o, "c06: ltx.Compactor / litestream.Compactor.Compact / DB.Compact+Snapshot+Restore vs Lean compact/compactPick + composition oracle")
	res.Rule = "codec stream: seeded random chains of 1..7 logical LTX files (page size 512; growing/shrinking commits, in-chain full snapshots, overlapping and non-contiguous ranges, sparse pages around the lock page; plus long backlogs of 1,2,3,63,64,65,66,100,130,300 single-TXID files before one compaction at level 1 and of up to 130 (thorough 300) level-1 files before one compaction at level 2, compacted until ErrNoCompaction, with Restore(TXID=t) for every t) through the real encoder, ltx.Compactor, decoder and litestream.Compactor.Compact (levels 1..3 over a file replica, with and without max-file cache); history stream: seeded real SQLite histories (page sizes 512/1024/4096, auto_vacuum 0/1/2, inserts/updates/deletes/VACUUM/schema changes/checkpoints) with sync, Compact(level) for 1..8-level layouts (DB.Compact or Store.CompactDB), Snapshot (DB.Snapshot and level-9 Store.CompactDB), L0 retention, lagging-replica histories (restart or failed replica sync dropping the replica position, DB.Sync without Replica.Sync, snapshot while lagging, then Replica.Sync, writes, compactions; level 0 on the replica must stay gapless and every TXID restorable at the end), cache-race schedules (after a restart, Store.CompactDB(N+1) probing level N with its listing held after it was read while Compact(N) runs; then further writes and compactions), restart histories (Close + new DB object or crash-abandoned object, 0-2 idle syncs, then snapshot, with and without a following write+sync), backlog histories (65..130 tiny synced transactions before draining level 1, and as many level-1 files before draining level 2; thorough up to 300), Restore(TXID) of every TXID before and after every compaction. non-trivial = codec case with >=2 files, history with >=1 successful compaction; distinct = canonical JSON of the case"
	tmp, err := os.MkdirTemp("", "c06-")
	if err != nil {
		hx.Fatal(err)
	}
	defer os.RemoveAll(tmp)
	drv, err := hx.StartDriver(o.Driver)
	if err != nil {
		hx.Fatal(err)
	}
	defer drv.Close()
	cc := &codecCtx{res: res, drv: drv, tmp: tmp, maxRestoreN: 140}

	evalHist := func(h HistCase, n int) bool {
		hr := runHist(h, drv, tmp, n)
		canon, _ := json.Marshal(h)
		nt := false
		for k, v := range hr.stats {
			res.Distribution["hist:"+k] += v
			if strings.HasPrefix(k, "compact-ok") {
				nt = true
			}
		}
		res.Case("hist|"+string(canon), nt)
		res.Count(fmt.Sprintf("hist:levels=%d", h.Levels))
		res.Count(fmt.Sprintf("hist:page_size=%d", h.PageSize))
		if hr.sample != nil && n%7 == 0 {
			res.Sample(hr.sample)
		}
		if hr.violation != "" {
			k := 1000
			sc := shrinkHist(h, func(x HistCase) bool { k++; v := runHist(x, nil, tmp, k).violation; return v != "" && sigOf(v) == sigOf(hr.violation) })
			res.AddFinding("violation", "C06/history-"+sigOf(hr.violation), hr.violation, map[string]any{"stream": "history", "case": sc, "original": h})
		}
		if hr.disagree != "" {
			res.DisagreementsChecked++
			res.AddFinding("disagreement", "C06/history-model-vs-impl", hr.disagree, map[string]any{"stream": "history", "case": h})
		}
		return hr.violation == "" && hr.disagree == ""
	}

	if o.Replay != "" {
		b, err := os.ReadFile(o.Replay)
		if err != nil {
			hx.Fatal(err)
		}
		var rf replayFile
		if err := json.Unmarshal(b, &rf); err != nil {
			hx.Fatal(err)
		}
		fail := false
		if rf.Replay.Stream == "history" {
			var h HistCase
			if err := json.Unmarshal(rf.Replay.Case, &h); err != nil {
				hx.Fatal(err)
			}
			hr := runHist(h, drv, tmp, 1)
			fmt.Printf("history replay: %d ops\nviolation: %q\ndisagreement: %q\n", len(h.Ops), hr.violation, hr.disagree)
			fail = hr.violation != "" || hr.disagree != ""
		} else {
			var c CodecCase
			if err := json.Unmarshal(rf.Replay.Case, &c); err != nil {
				hx.Fatal(err)
			}
			d, v := cc.run(c)
			fmt.Printf("codec replay (%s): IN=%s\nviolation: %q\ndisagreement: %q\n", c.Kind, textAll(c.Files), v, d)
			fail = d != "" || v != ""
		}
		if fail {
			os.Exit(1)
		}
		return
	}

	nPure, nLevels, nHist, histOps := 4000, 700, 22, 45
	if o.Tier == "thorough" {
		nPure, nLevels, nHist, histOps = 60000, 8000, 300, 70
	}
	// corpus first
	if o.Corpus != "" {
		ents, _ := filepath.Glob(filepath.Join(o.Corpus, "*.json"))
		sort.Strings(ents)
		for i, p := range ents {
			b, err := os.ReadFile(p)
			if err != nil {
				continue
			}
			var rf replayFile
			if json.Unmarshal(b, &rf) != nil {
				continue
			}
			res.Count("corpus")
			if rf.Replay.Stream == "history" {
				var h HistCase
				if json.Unmarshal(rf.Replay.Case, &h) == nil {
					evalHist(h, 900000+i)
				}
			} else {
				var c CodecCase
				if json.Unmarshal(rf.Replay.Case, &c) == nil {
					cc.evalCodec(c)
				}
			}
		}
	}
	tPhase := time.Now()
	phase := func(name string) {
		res.Notes = append(res.Notes, fmt.Sprintf("phase %s: %.1fs", name, time.Since(tPhase).Seconds()))
		tPhase = time.Now()
	}
	rnd := hx.NewRand(o.Seed)
	for i := 0; i < nPure; i++ {
		cc.evalCodec(genChain(rnd))
	}
	phase("codec-pure")
	for i := 0; i < nLevels && res.Distribution["codec:failing-cases-not-shrunk"] < 50; i++ {
		cc.evalCodec(genLevels(rnd))
	}
	phase("codec-levels")
	// long backlogs before one compaction (level 1: many L0 files; level 2: many L1 files)
	backlogA := []int{1, 2, 3, 63, 64, 65, 66, 100, 130, 300}
	backlogB := []int{3, 63, 64, 65, 66, 100, 130}
	if o.Tier == "thorough" {
		backlogB = append(backlogB, 300)
		cc.maxRestoreN = 400
	}
	for _, n := range backlogA {
		if res.Distribution["codec:failing-cases-not-shrunk"] < 50 {
			cc.evalCodec(genBacklog(rnd, n, false))
		}
	}
	for _, n := range backlogB {
		if res.Distribution["codec:failing-cases-not-shrunk"] < 50 {
			cc.evalCodec(genBacklog(rnd, n, true))
		}
	}
	phase("codec-backlog")
	histFail := 0
	histBack := [][2]int{{[]int{65, 66, 100, 130}[o.Seed%4], 0}, {[]int{65, 66, 70}[o.Seed%3], 1}}
	if o.Tier == "thorough" {
		histBack = [][2]int{{64, 0}, {65, 0}, {66, 0}, {100, 0}, {130, 0}, {300, 0}, {64, 1}, {65, 1}, {66, 1}, {100, 1}, {130, 1}}
	}
	for k, hb := range histBack {
		if histFail < 2 && !evalHist(genHistBacklog(rnd.Fork(), hb[0], hb[1] == 1), 500000+k) {
			histFail++
		}
	}
	phase("hist-backlog")
	nRace := 4
	if o.Tier == "thorough" {
		nRace = 40
	}
	for k := 0; k < nRace && histFail < 2; k++ {
		if !evalHist(genHistRace(rnd.Fork()), 800000+k) {
			histFail++
		}
	}
	phase("hist-race")
	nLag := 10
	if o.Tier == "thorough" {
		nLag = 100
	}
	for k := 0; k < nLag && histFail < 2; k++ {
		if !evalHist(genHistLag(rnd.Fork()), 600000+k) {
			histFail++
		}
	}
	phase("hist-lag")
	nRestart := 8
	if o.Tier == "thorough" {
		nRestart = 80
	}
	for k := 0; k < nRestart && histFail < 2; k++ {
		if !evalHist(genHistRestart(rnd.Fork()), 700000+k) {
			histFail++
		}
	}
	phase("hist-restart")
	for i := 0; i < nHist && histFail < 2; i++ {
		if !evalHist(genHist(rnd.Fork(), histOps/2+rnd.Intn(histOps)), i) {
			histFail++
		}
	}
	phase("hist-random")
	if err := res.Write(o.Out); err != nil {
		hx.Fatal(err)
	}
}

// kindOf: "ok" or "err <kind>" without payload.
func kindOf(s string) string {
	f := strings.Fields(s)
	if len(f) == 0 {
		return "?"
	}
	if f[0] == "ok" || len(f) == 1 {
		return f[0]
	}
	return f[0] + "-" + strings.SplitN(f[1], ":", 2)[0]
}
