// Engine c10: (a) the real internal.ResumableReader over a scripted storage client vs the
// Lean reader model + the "delivered is a prefix, EOF only when complete" oracle;
// (b) the real Replica.Restore through a fault-injecting ReplicaClient (every single corruption
// of every plan file, deletions, read-fault schedules, pre-existing output, failed integrity
// check) vs the Lean output-protocol model + the "error or byte-identical output, nothing left
// behind" oracle.
package main

import (
	"bufio"
	"bytes"
	"database/sql"
	"encoding/json"
	"errors"
	"fmt"
	"io"
	"log/slog"
	"os"
	"os/exec"
	"path/filepath"
	"runtime"
	"sort"
	"strings"
	"sync"
	"time"

	"github.com/benbjohnson/litestream/file"
	"github.com/superfly/ltx"

	"verif/harness/hx"
)

type Payload struct {
	Engine  string       `json:"engine"`
	Part    string       `json:"part"` // reader | restore
	Reader  *ReaderCase  `json:"reader,omitempty"`
	Restore *RestoreCase `json:"restore,omitempty"`
	Impl    string       `json:"impl,omitempty"`
	Model   string       `json:"model,omitempty"`
	Detail  any          `json:"detail,omitempty"`
}

func stripRetries(s string) string {
	if i := strings.Index(s, " retries="); i >= 0 {
		return s[:i]
	}
	return s
}

// ---------- part (a) ----------

type readerEval struct {
	c     ReaderCase
	obs   readerObs
	model string
}

func evalReaders(drv *hx.Driver, cases []ReaderCase, par int) []readerEval {
	out := make([]readerEval, len(cases))
	var wg sync.WaitGroup
	sem := make(chan struct{}, par)
	for i := range cases {
		wg.Add(1)
		sem <- struct{}{}
		go func(i int) {
			defer wg.Done()
			defer func() { <-sem }()
			out[i] = readerEval{c: cases[i], obs: runReaderImpl(cases[i])}
		}(i)
	}
	wg.Wait()
	lines := make([]string, len(cases))
	for i, c := range cases {
		lines[i] = c.line()
	}
	ans, err := drv.AskBatch(lines)
	if err != nil {
		hx.Fatal(err)
	}
	for i := range out {
		out[i].model = ans[i]
	}
	return out
}

func readerSig(c ReaderCase, what string) string {
	k := "prefix"
	switch {
	case strings.Contains(what, "premature EOF"):
		k = "premature-eof"
	case strings.Contains(what, "not bounded"):
		k = "unbounded"
	}
	return "C10/reader-" + k
}

func judgeReader(res *hx.Result, drv *hx.Driver, e readerEval, shrink bool) bool {
	c := e.c
	faults := 0
	for _, d := range c.Sched {
		if d.Open != "o" || d.Err != "n" {
			faults++
		}
	}
	res.Case(c.line(), faults > 0)
	res.Count(fmt.Sprintf("reader/faults=%d", min(faults, 5)))
	last := "-"
	for _, cl := range e.obs.Calls {
		if k := cl[strings.Index(cl, ":")+1:]; k != "-" {
			last = k
			break
		}
	}
	res.Count("reader/first-error=" + strings.SplitN(last, "(", 2)[0])
	bad := false
	if v := readerOracle(c, e.obs); v != "" {
		bad = true
		res.Count("violation/" + readerSig(c, v))
		if seenSig[readerSig(c, v)] { // one shrunk witness per signature (each re-run sleeps in the reader's backoff)
			return bad
		}
		seenSig[readerSig(c, v)] = true
		mc := c
		if shrink {
			mc = shrinkReader(c, func(x ReaderCase) bool { return readerOracle(x, runReaderImpl(x)) != "" })
		}
		o2 := runReaderImpl(mc)
		res.AddFinding("violation", readerSig(mc, v), "ResumableReader: "+readerOracle(mc, o2)+" on "+mc.line(),
			Payload{Engine: "c10", Part: "reader", Reader: &mc, Impl: o2.Canon})
	}
	if hx.Differs(e.obs.Canon, stripRetries(e.model)) {
		bad = true
		res.DisagreementsChecked++
		res.AddFinding("disagreement", "C10/reader-model", fmt.Sprintf("reader model/impl differ on %s: impl %q model %q", c.line(), e.obs.Canon, e.model),
			Payload{Engine: "c10", Part: "reader", Reader: &c, Impl: e.obs.Canon, Model: e.model})
	}
	return bad
}

// ---------- part (b) ----------

type restoreJob struct {
	env         *replicaEnv
	hist        HistSpec
	plan        []*ltx.FileInfo
	mut         Mut
	want        []byte
	plant       []byte // stale-tmp: bytes planted at <output>.tmp before the restore; foreign-wal: the -wal
	plant2      []byte // foreign-wal: the -shm
	wantLogical string // foreign-wal: what SQLite must see in the restored database
	side        int    // cancel: whether -wal/-shm were observed after the interrupted check (environment input of the model)
	// abstract inputs for the model
	failStep string
	faults   int
	corrupt  bool
	sizes    bool
	iok      bool
}

func (j restoreJob) line() string {
	b := func(x bool) int {
		if x {
			return 1
		}
		return 0
	}
	integ := 0
	if j.mut.Integrity != 0 {
		integ = 1
	}
	cancel := 0
	if j.mut.Kind == "cancel" {
		cancel = 1
	}
	return fmt.Sprintf("restore PRE=%d TMPPRE=0 FAIL=%s FAULTS=%d CORRUPT=%d SIZES=%d INTEG=%d IOK=%d CANCEL=%d SIDE=%d",
		b(j.mut.Kind == "preexist" && j.mut.PreKind != "dangling"), j.failStep, j.faults, b(j.corrupt), b(j.sizes), integ, b(j.iok), cancel, j.side)
}

func restoreSig(m Mut, what string) string {
	k := "other"
	switch {
	case strings.Contains(what, "only partly present"):
		k = "missing-index-tail-undetected"
	case strings.Contains(what, "reporting a passed integrity check"):
		k = "unverified-success"
	case strings.Contains(what, ".tmp left"):
		k = "tmp-left"
	case strings.Contains(what, "crashed the process"):
		k = "crash"
	case strings.Contains(what, "returned nil but"), strings.Contains(what, "returned nil although"):
		k = "silent-wrong-output"
	case strings.Contains(what, "pre-existing") || strings.Contains(what, "although the output path existed"):
		k = "overwrite"
	case strings.Contains(what, "left a file at the output path"):
		k = "partial-output-left"
	case strings.Contains(what, "-wal/-shm"):
		k = "sidecars-left"
	}
	return "C10/restore-" + m.Kind + "-" + k
}

// restoreSigFor: the known crash is "truncation that leaves fewer than ltx.ChecksumSize bytes after the
// page block" (ltx.Decoder.Close slices remaining[:len-8]); any other crash gets a different signature.
func restoreSigFor(j restoreJob, o restoreObs, what string) string {
	if o.Res != "CRASH" {
		return restoreSig(j.mut, what)
	}
	if (j.mut.Kind == "trunc" || j.mut.Kind == "disk-trunc") && j.mut.File < len(j.plan) && strings.Contains(o.Err, "ltx.(*Decoder).Close") && strings.Contains(o.Err, "slice bounds out of range") {
		if b, err := readPlanFile(j.env, j.plan[j.mut.File]); err == nil {
			if end := pageBlockEnd(b); end >= 0 && j.mut.Off >= end && j.mut.Off < end+ltx.ChecksumSize {
				return "C10/restore-trunc-lt8-after-pageblock-crash"
			}
		}
	}
	return "C10/restore-" + j.mut.Kind + "-crash"
}

var seenSig = map[string]bool{}

type restoreOut struct {
	job      restoreJob
	obs      restoreObs
	model    string
	modelAlt string // flips only: the model's answer if the changed byte is immaterial (same decoded pages)
}

// worker is one child process running restores (see workerReq).
type worker struct {
	cmd    *exec.Cmd
	in     io.WriteCloser
	out    *bufio.Reader
	stderr *bytes.Buffer
}

func startWorker() *worker {
	cmd := exec.Command(os.Args[0], "worker")
	in, _ := cmd.StdinPipe()
	out, _ := cmd.StdoutPipe()
	w := &worker{cmd: cmd, in: in, out: bufio.NewReaderSize(out, 1<<20), stderr: &bytes.Buffer{}}
	cmd.Stderr = w.stderr
	if err := cmd.Start(); err != nil {
		hx.Fatal(err)
	}
	return w
}

func (w *worker) stop() {
	w.in.Close()
	w.cmd.Wait()
}

// do returns the response, or nil and the stderr of the dead worker.
func (w *worker) do(q workerReq) (*workerResp, string) {
	b, _ := json.Marshal(q)
	if _, err := w.in.Write(append(b, '\n')); err != nil {
		w.cmd.Wait()
		return nil, w.stderr.String()
	}
	line, err := w.out.ReadBytes('\n')
	if err != nil {
		w.cmd.Wait()
		return nil, w.stderr.String()
	}
	var resp workerResp
	if err := json.Unmarshal(line, &resp); err != nil {
		return nil, "bad worker answer: " + string(line)
	}
	return &resp, ""
}

func workerMain() {
	slog.SetDefault(quiet)
	in := bufio.NewReaderSize(os.Stdin, 1<<20)
	out := bufio.NewWriter(os.Stdout)
	for {
		line, err := in.ReadBytes('\n')
		if err != nil {
			return
		}
		var q workerReq
		if err := json.Unmarshal(line, &q); err != nil {
			os.Exit(4)
		}
		b, _ := json.Marshal(doRestore(q))
		out.Write(append(b, '\n'))
		out.Flush()
	}
}

func runRestoreJobs(drv *hx.Driver, jobs []restoreJob, scratch string, par int) []restoreOut {
	out := make([]restoreOut, len(jobs))
	if len(jobs) == 0 {
		return out
	}
	if par > len(jobs) {
		par = len(jobs)
	}
	var wg sync.WaitGroup
	next := make(chan int, len(jobs))
	for i := range jobs {
		next <- i
	}
	close(next)
	for s := 0; s < par; s++ {
		wg.Add(1)
		go func(slot int) {
			defer wg.Done()
			w := startWorker()
			dir := filepath.Join(scratch, fmt.Sprintf("out-%d", slot))
			for i := range next {
				j := jobs[i]
				q := workerReq{Dir: j.env.dir, Mut: j.mut, OutDir: dir}
				if j.mut.Kind == "foreign-wal" {
					q.Plant2 = filepath.Join(scratch, fmt.Sprintf("plant2-%d", slot))
					os.MkdirAll(scratch, 0o755)
					if err := os.WriteFile(q.Plant2, j.plant2, 0o644); err != nil {
						hx.Fatal(err)
					}
				}
				if j.mut.Kind == "stale-tmp" || j.mut.Kind == "foreign-wal" || (j.mut.Kind == "preexist" && j.mut.PreKind == "sqlite") {
					q.Plant = filepath.Join(scratch, fmt.Sprintf("plant-%d", slot))
					os.MkdirAll(scratch, 0o755)
					if err := os.WriteFile(q.Plant, j.plant, 0o644); err != nil {
						hx.Fatal(err)
					}
				}
				for _, p := range j.plan {
					q.Plan = append(q.Plan, planID{Level: p.Level, Min: uint64(p.MinTXID), Max: uint64(p.MaxTXID)})
				}
				resp, crash := w.do(q)
				out[i] = restoreOut{job: j, obs: inspect(j.mut, dir, j.want, resp, crash)}
				out[i].obs.WantLogical = j.wantLogical
				if resp == nil {
					w = startWorker()
				}
			}
			w.stop()
		}(s)
	}
	wg.Wait()
	lines := make([]string, 0, 2*len(jobs))
	for i, j := range jobs {
		if j.mut.Kind == "cancel" && (out[i].obs.Wal || out[i].obs.Shm) {
			j.side = 1
		}
		lines = append(lines, j.line())
		j.corrupt = false
		lines = append(lines, j.line())
	}
	ans, err := drv.AskBatch(lines)
	if err != nil {
		hx.Fatal(err)
	}
	for i := range out {
		out[i].model, out[i].modelAlt = ans[2*i], ans[2*i+1]
	}
	return out
}

func judgeRestore(res *hx.Result, o restoreOut) bool {
	j := o.job
	canon := fmt.Sprintf("%d/%d/%+v", j.hist.Seed, j.hist.NTx, j.mut)
	res.Case(canon, j.mut.Kind != "none")
	res.Count("restore/" + j.mut.Kind + "->" + strings.SplitN(o.obs.Res, "(", 2)[0])
	if j.mut.Kind == "foreign-wal" {
		cls := "as-replica"
		switch v := restoreOracle(j.mut, o.obs); {
		case strings.Contains(v, "Restore failed"):
			cls = "spurious-failure"
		case strings.Contains(v, "output file differs"):
			cls = "file-bytes-altered"
		case strings.Contains(v, "different content"):
			cls = "file-intact-but-hot-wal-replayed-on-open"
		}
		res.Count(fmt.Sprintf("restore/foreign-wal(%s,shm=%v,integrity=%d)->%s", j.mut.WalKind, j.mut.WithShm, j.mut.Integrity, cls))
	}
	if j.hist.BadImage != "" {
		cls := "-"
		if o.obs.Err != "" {
			cls = "query-error"
			if strings.Contains(o.obs.Err, "integrity check failed") {
				cls = "result-not-ok"
			}
		}
		res.Count(fmt.Sprintf("restore/bad-image(%s) integrity=%d->%s [%s]", j.hist.BadImage, j.mut.Integrity, strings.SplitN(o.obs.Res, "(", 2)[0], cls))
	}
	bad := false
	rc := RestoreCase{Hist: j.hist, Mut: j.mut}
	if v := restoreOracle(j.mut, o.obs); v != "" {
		bad = true
		sig := restoreSigFor(j, o.obs, v)
		res.Count("violation/" + sig)
		if seenSig[sig] { // one witness per signature: 8 offsets x every plan file would crowd out anything else
			return bad
		}
		seenSig[sig] = true
		res.AddFinding("violation", restoreSigFor(j, o.obs, v), fmt.Sprintf("Restore: %s [mutation %+v of plan file %d on history seed=%d; err=%q]", v, j.mut, j.mut.File, j.hist.Seed, o.obs.Err),
			Payload{Engine: "c10", Part: "restore", Restore: &rc, Impl: o.obs.canon(), Detail: o.obs.Log})
	}
	// A flipped byte inside an LZ4 block can decode to the very same page (the CRC-64 is over the
	// decoded pages): the checksum is abstract in the model, so for flips the model allows both
	// "rejected" and "immaterial"; the oracle above still demands byte-identical output.
	if (j.mut.Kind == "flip" || j.mut.Kind == "disk-flip") && o.obs.Res == "ok" && !hx.Differs(o.obs.canon(), o.modelAlt) {
		res.Count("restore/flip-immaterial(identical output)")
	} else if j.mut.Kind == "cancel" && j.mut.CancelDelayUS > 0 {
		// a cancellation racing with the check: whether the context was already cancelled when the check
		// returned is decided by timing; nothing to predict (the oracle above still applies: on a good
		// replica both outcomes are legitimate, on a bad image nil never is)
		res.Count(fmt.Sprintf("restore/cancel-race(bad-image=%v)->%s out=%s", j.hist.BadImage != "", o.obs.Res, o.obs.Out))
	} else if j.mut.Kind == "legacy" {
		// no model comparison: the legacy restore path has no Lean model here (C19 owns it)
	} else if j.mut.Kind == "foreign-wal" {
		// no model comparison: the output-protocol model has no pre-existing sidecars (DESIGN.md Deviations)
	} else if o.obs.Res != "CRASH" && hx.Differs(o.obs.canon(), o.model) {
		bad = true
		res.DisagreementsChecked++
		res.AddFinding("disagreement", "C10/restore-model", fmt.Sprintf("restore model/impl differ on %+v: impl %q (err %q) model %q [%s]", j.mut, o.obs.canon(), o.obs.Err, o.model, j.line()),
			Payload{Engine: "c10", Part: "restore", Restore: &rc, Impl: o.obs.canon(), Model: o.model, Detail: o.obs.Log})
	}
	return bad
}

// jobsFor builds the mutation list for one replica. all=true: every offset; else sampled.
func jobsFor(r *hx.Rand, env *replicaEnv, h HistSpec, scratch string, all bool, sample int, nFault int, res *hx.Result) ([]restoreJob, error) {
	plan, err := env.plan()
	if err != nil {
		return nil, fmt.Errorf("pristine plan: %w", err)
	}
	want, err := pristineRestore(env, filepath.Join(scratch, "pristine"), 0)
	if err != nil {
		if h.CorruptSrc {
			want = nil
		} else {
			return nil, fmt.Errorf("pristine restore: %w", err)
		}
	}
	base := restoreJob{env: env, hist: h, plan: plan, want: want, failStep: "-", sizes: true, iok: !h.CorruptSrc}
	var jobs []restoreJob
	add := func(m Mut, f func(j *restoreJob)) {
		j := base
		j.mut = m
		if f != nil {
			f(&j)
		}
		jobs = append(jobs, j)
	}
	integ := 0
	if h.BadImage != "" {
		// the replica encodes (with valid checksums) an image SQLite cannot even query: the integrity
		// PRAGMA errors; every integrity mode must fail AND leave nothing behind; without the check the
		// restore must reproduce the image byte for byte.
		if want == nil || !bytes.Equal(want, env.badImage) {
			return nil, fmt.Errorf("bad-image replica does not restore to the damaged image")
		}
		for _, mode := range []int{1, 2} {
			add(Mut{Kind: "none", Integrity: mode}, func(j *restoreJob) { j.failStep, j.iok = "integrity", true })
		}
		add(Mut{Kind: "none", Integrity: 0}, nil)
		// cancellation landing before / during the check: the check can never pass on this image, so nil
		// (= "integrity check passed") is wrong whatever the timing
		for _, mode := range []int{1, 2} {
			for _, d := range []int{0, 200, 2000, 20000} {
				add(Mut{Kind: "cancel", Integrity: mode, CancelDelayUS: d, MustErr: "the restored image cannot pass the integrity check (and the context was cancelled around it)"},
					func(j *restoreJob) { j.failStep, j.iok = "integrity", true })
			}
		}
		return jobs, nil
	}
	if h.CorruptSrc {
		// the restored database is rejected by SQLite: every integrity mode must remove the output
		add(Mut{Kind: "none", Integrity: 1}, nil)
		add(Mut{Kind: "none", Integrity: 2}, nil)
		add(Mut{Kind: "none", Integrity: 0}, nil)
		return jobs, nil
	}
	// deletions anywhere in the replica: what "latest" must mean when files exist beyond an unbridgeable gap
	if err := gapJobs(env, scratch, add, res); err != nil {
		return nil, err
	}
	if h.GapOnly {
		return jobs, nil
	}
	if err := staleTmpJobs(env, h, scratch, want, add); err != nil {
		return nil, err
	}
	if err := foreignWalJobs(env, h, scratch, want, add); err != nil {
		return nil, err
	}
	// cancellation exactly when the last download completes: only the integrity check sees it; the check did
	// not run to completion, so success must not be reported (the complete output may stay). With a delay the
	// cancellation races with a check that would pass: observed only.
	for _, mode := range []int{1, 2} {
		add(Mut{Kind: "cancel", Integrity: mode, MustErr: "the context was cancelled before the integrity check could run"},
			func(j *restoreJob) { j.failStep = "integrity" })
		for _, d := range []int{200, 2000, 20000} {
			add(Mut{Kind: "cancel", Integrity: mode, CancelDelayUS: d}, nil)
		}
	}
	add(Mut{Kind: "cancel", Integrity: 0}, nil) // no check: the cancellation comes too late to matter
	add(Mut{Kind: "none"}, nil)
	add(Mut{Kind: "none", Integrity: 1}, nil)
	add(Mut{Kind: "none", Integrity: 2}, nil)
	add(Mut{Kind: "preexist"}, nil)
	add(Mut{Kind: "preexist", Integrity: 1}, nil)
	// whatever already occupies the output path — including a zero-byte file, which is what SQLite leaves
	// for a freshly created database — Restore must refuse, for every kind of target, and leave the object
	// byte-for-byte and inode-identical
	if sq, err := bigSQLite(filepath.Join(scratch, "big"), h.PageSize, 4*h.PageSize); err == nil {
		tsAll := int64(0)
		if fs, err := allFiles(env.client); err == nil {
			for _, f := range fs {
				tsAll = max(tsAll, f.Created+1)
			}
		}
		for _, pk := range []string{"empty", "one", "sqlite", "dir", "symlink", "fifo", "dangling"} {
			for _, tg := range []Mut{{}, {TXID: 1}, {TS: tsAll}} {
				if pk == "dangling" && tg.TXID != 0 {
					continue
				}
				m := tg
				m.Kind, m.PreKind = "preexist", pk
				add(m, func(j *restoreJob) {
					j.plant = sq
				})
			}
		}
	} else {
		return nil, err
	}
	for fi, info := range plan {
		b, err := readPlanFile(env, info)
		if err != nil {
			return nil, err
		}
		res.Count(fmt.Sprintf("restore/plan-file-level=%d", info.Level))
		bombs := sizePrefixHighBytes(b)
		var offs []int
		if all {
			for o := 0; o < len(b); o++ {
				offs = append(offs, o)
			}
		} else {
			set := map[int]bool{}
			for _, o := range interestingOffsets(b) {
				set[o] = true
			}
			for k := 0; k < sample; k++ {
				set[r.Intn(len(b))] = true
			}
			for o := range set {
				offs = append(offs, o)
			}
			sort.Ints(offs)
		}
		for _, o := range offs {
			o := o
			add(Mut{Kind: "trunc", File: fi, Off: o, Integrity: integ}, func(j *restoreJob) {
				j.corrupt = true
				j.sizes = o >= ltx.HeaderSize
			})
			masks := []int{1 + r.Intn(255)}
			if all {
				masks = []int{0xFF, 1 << r.Intn(8)}
			}
			if bombs[o] {
				// the two high bytes of a page frame's 4-byte size prefix: ltx allocates the announced
				// size before reading (up to 4 GiB); flip the lowest bit only to keep the run cheap
				masks = []int{1}
				res.Count("restore/flip-size-prefix-high-byte(mask capped)")
			}
			for _, m := range masks {
				add(Mut{Kind: "flip", File: fi, Off: o, Mask: m, Integrity: integ}, func(j *restoreJob) { j.corrupt = true })
			}
		}
		// deletion: the planner decides on the remaining listing (C08); accept an error or the
		// restore of exactly the state the remaining files encode.
		fcProbe := &faultClient{ReplicaClient: env.client, target: info, mut: Mut{Kind: "delete", File: fi}}
		np, perr := calcPlanOn(fcProbe)
		add(Mut{Kind: "delete", File: fi}, func(j *restoreJob) {
			if perr != nil {
				j.failStep = "calcPlan"
				return
			}
			t := np[len(np)-1].MaxTXID
			w, err := pristineRestore(env, filepath.Join(scratch, "pristine"), t)
			if err != nil {
				j.want = nil
			} else {
				j.want = w
			}
		})
		// ON-DISK stream: the same single corruptions applied physically to a copy of the replica directory,
		// restored through the plain file client — the real backend's listing / stat / open code sees them.
		// A file that is PRESENT with 0 bytes (or is a directory) counts as damaged: error expected.
		dset := map[int]bool{0: true, 1: true, ltx.HeaderSize - 1: true, ltx.HeaderSize: true}
		for _, o := range interestingOffsets(b) {
			dset[o] = true
		}
		nd := 10
		if all {
			nd = 300
		}
		for k := 0; k < nd; k++ {
			dset[r.Intn(len(b))] = true
		}
		var doffs []int
		for o := range dset {
			if o < len(b) {
				doffs = append(doffs, o)
			}
		}
		sort.Ints(doffs)
		for _, o := range doffs {
			o := o
			add(Mut{Kind: "disk-trunc", File: fi, Off: o}, func(j *restoreJob) {
				j.corrupt = true
				j.sizes = o >= ltx.HeaderSize
			})
			mask := 1 + r.Intn(255)
			if bombs[o] {
				mask = 1
			}
			add(Mut{Kind: "disk-flip", File: fi, Off: o, Mask: mask}, func(j *restoreJob) { j.corrupt = true })
		}
		add(Mut{Kind: "disk-dir", File: fi}, func(j *restoreJob) { j.corrupt = true })
		add(Mut{Kind: "disk-delete", File: fi}, func(j *restoreJob) {
			if perr != nil {
				j.failStep = "calcPlan"
				return
			}
			if w, err := pristineRestore(env, filepath.Join(scratch, "pristine"), np[len(np)-1].MaxTXID); err == nil {
				j.want = w
			} else {
				j.want = nil
			}
		})
		// read-fault schedules, below and beyond the retry budget
		for k := 0; k < nFault; k++ {
			nf := 1 + r.Intn(5)
			var fs []Fault
			fatal := false
			for x := 0; x < nf; x++ {
				f := Fault{At: r.Intn(len(b))}
				switch r.Intn(10) {
				case 0, 1, 2, 3:
					f.Kind = "err"
				case 4, 5, 6:
					f.Kind = "eof"
				case 7, 8:
					f.Kind = "open"
				default:
					f.Kind = "notexist"
					fatal = true
				}
				if x > 0 && r.Chance(60) && f.At < fs[x-1].At {
					f.At = fs[x-1].At + r.Intn(len(b)-fs[x-1].At)
				}
				fs = append(fs, f)
				if fatal {
					break
				}
			}
			add(Mut{Kind: "readfault", File: fi, Faults: fs}, func(j *restoreJob) {
				j.faults = len(fs)
				if fatal {
					j.faults = 99
				}
			})
		}
	}
	return jobs, nil
}

// gapJobs: delete (on disk, through the real file backend) every replica file in turn — and every
// level-0 file together with the upper-level file covering it — then restore "latest", to the newest
// TXID present, to the newest reachable TXID, and by timestamp.  Expectation, computed by brute force
// from the remaining files (never from the planner):
//   - latest: if some remaining file ends beyond the furthest TXID reachable by a contiguous chain from
//     TXID 1, the replica has an unbridgeable gap and Restore must return an error (the unchanged code:
//     "non-contiguous ltx files"); otherwise it must produce the reference state of that TXID;
//   - TXID T: success only if a chain ends exactly at T, with the reference state of T;
//   - timestamp: the reference state of the furthest TXID reachable with files created before it.
func gapJobs(env *replicaEnv, scratch string, add func(Mut, func(*restoreJob)), res *hx.Result) error {
	files, err := allFiles(env.client)
	if err != nil {
		return err
	}
	hasSnap, maxAll := false, 0
	for _, f := range files {
		hasSnap = hasSnap || f.Level == 9
		maxAll = max(maxAll, f.Max)
	}
	_ = hasSnap // the stream runs on every replica (snapshot-bearing ones are where an unbridgeable gap can hide)
	var names []string
	for _, f := range files {
		names = append(names, fmt.Sprintf("L%d:%d-%d", f.Level, f.Min, f.Max))
	}
	res.Notes = append(res.Notes, "gap stream over replica files "+strings.Join(names, " "))
	ref := map[int][]byte{}
	for t := 1; t <= maxAll; t++ {
		b, err := pristineRestore(env, filepath.Join(scratch, "pristine"), ltx.TXID(t))
		if err != nil {
			return fmt.Errorf("reference restore at TXID %d: %w", t, err)
		}
		ref[t] = b
	}
	sets := [][]rfile{nil} // the undamaged replica first: every TXID target, including beyond the newest
	for _, f := range files {
		sets = append(sets, []rfile{f})
		if f.Level == 0 {
			for _, g := range files {
				if g.Level > 0 && g.Level < 9 && g.Min <= f.Min && f.Max <= g.Max {
					sets = append(sets, []rfile{f, g})
				}
			}
		}
	}
	for _, del := range sets {
		var remain []rfile
		for _, f := range files {
			gone := false
			for _, d := range del {
				gone = gone || d == f
			}
			if !gone {
				remain = append(remain, f)
			}
		}
		var ids []planID
		for _, d := range del {
			ids = append(ids, planID{Level: d.Level, Min: uint64(d.Min), Max: uint64(d.Max)})
		}
		any := func(rfile) bool { return true }
		reach := maxKey(reachSet(remain, any))
		maxRemain, lastCreated := 0, int64(0)
		for _, f := range remain {
			maxRemain = max(maxRemain, f.Max)
			lastCreated = max(lastCreated, f.Created)
		}
		mk := func(m Mut, target int, mustErr string) {
			m.Kind, m.Files, m.MustErr = "disk-delete-set", ids, mustErr
			add(m, func(j *restoreJob) {
				if mustErr != "" {
					j.failStep, j.want = "calcPlan", nil
				} else {
					j.want = ref[target]
				}
			})
		}
		// latest
		switch {
		case reach == 0:
			mk(Mut{}, 0, "no chain from TXID 1 remains")
		case maxRemain > reach:
			mk(Mut{}, 0, fmt.Sprintf("replica files up to TXID %d exist beyond an unbridgeable gap after TXID %d (latest must not be silently older)", maxRemain, reach))
			res.Count("restore/gap-unbridged")
		default:
			mk(Mut{}, reach, "")
			res.Count("restore/gap-bridged-or-tail")
		}
		// TXID targets: the newest TXID present (beyond the gap, if any), the newest reachable one, the TXIDs
		// carried by the deleted files themselves, one and two beyond the newest present, and — on the
		// undamaged replica — every TXID.  Success only if a chain ends EXACTLY at the target.
		tset := map[int]bool{maxRemain: true, reach: true, maxRemain + 1: true, maxRemain + 2: true}
		for _, d := range del {
			tset[d.Max] = true
		}
		if len(del) == 0 {
			for t := 1; t <= maxAll; t++ {
				tset[t] = true
			}
		}
		var targets []int
		for t := range tset {
			if t > 0 {
				targets = append(targets, t)
			}
		}
		sort.Ints(targets)
		for _, T := range targets {
			ends := reachSet(remain, func(f rfile) bool { return f.Max <= T })
			if ends[T] {
				mk(Mut{TXID: uint64(T)}, T, "")
			} else {
				mk(Mut{TXID: uint64(T)}, 0, fmt.Sprintf("no contiguous chain ends exactly at the requested TXID %d (furthest reachable not beyond it: %d)", T, maxKey(ends)))
				res.Count("restore/txid-target-unreachable")
			}
		}
		// timestamp just after the newest remaining file
		ts := lastCreated + 1
		rts := maxKey(reachSet(remain, func(f rfile) bool { return f.Created < ts }))
		if rts == 0 {
			mk(Mut{TS: ts}, 0, "no chain from TXID 1 remains before the timestamp")
		} else {
			mk(Mut{TS: ts}, rts, "")
		}
	}
	return nil
}

// staleTmpJobs: a leftover <output>.tmp (longer than / equal to / shorter than the database about to be
// restored; a larger earlier image, random bytes, a valid larger SQLite database) plus junk sidecars is on
// disk when Restore starts (a previous restore was SIGKILLed).  The output must be the reference image
// BYTE FOR BYTE — same size, no stale tail — for default, TXID-targeted (earlier, smaller state) and
// timestamp restores, with and without the integrity check.
func staleTmpJobs(env *replicaEnv, h HistSpec, scratch string, latest []byte, add func(Mut, func(*restoreJob))) error {
	first, err := pristineRestore(env, filepath.Join(scratch, "pristine"), 1)
	if err != nil {
		return fmt.Errorf("reference restore at TXID 1: %w", err)
	}
	files, err := allFiles(env.client)
	if err != nil {
		return err
	}
	ts := int64(0)
	for _, f := range files {
		ts = max(ts, f.Created+1)
	}
	sq, err := bigSQLite(filepath.Join(scratch, "big"), h.PageSize, len(latest)+8*h.PageSize)
	if err != nil {
		return err
	}
	type target struct {
		m    Mut
		want []byte
	}
	targets := []target{{Mut{}, latest}, {Mut{TXID: 1}, first}, {Mut{TS: ts}, latest}}
	rnd := hx.NewRand(h.Seed ^ 0x5ca1ab1e)
	for _, tg := range targets {
		for _, kind := range []string{"image", "random", "sqlite"} {
			for _, rel := range []string{"longer", "equal", "shorter"} {
				size := len(tg.want)
				switch rel {
				case "longer":
					size += (1 + rnd.Intn(6)) * h.PageSize
				case "shorter":
					size -= min(size-1, (1+rnd.Intn(3))*h.PageSize)
				}
				var src []byte
				switch kind {
				case "image":
					src = append(append([]byte(nil), latest...), latest...) // an earlier, larger restored image
				case "sqlite":
					src = sq
				}
				plant := make([]byte, size)
				for i := range plant {
					if i < len(src) {
						plant[i] = src[i]
					} else {
						plant[i] = byte(rnd.Uint64())
					}
				}
				for _, integ := range []int{0, 1} {
					m := tg.m
					m.Kind, m.TmpKind, m.TmpRel, m.Integrity = "stale-tmp", kind, rel, integ
					w, p := tg.want, plant
					add(m, func(j *restoreJob) { j.want, j.plant = w, p })
				}
			}
		}
	}
	return nil
}

// foreignWalJobs: <output> is absent, but a VALID WAL lies at <output>-wal (SQLite treats a WAL next to a
// database as hot): the un-checkpointed WAL of ANOTHER database with the same page size, or the WAL of an
// earlier incarnation of the same output.  Restore (integrity none / quick / full) must yield a database
// that SQLite opens with exactly the replica's content.
func foreignWalJobs(env *replicaEnv, h HistSpec, scratch string, latest []byte, add func(Mut, func(*restoreJob))) error {
	dir := filepath.Join(scratch, "fwal")
	os.RemoveAll(dir)
	if err := os.MkdirAll(dir, 0o755); err != nil {
		return err
	}
	refPath := filepath.Join(dir, "ref", "restored.db")
	os.MkdirAll(filepath.Dir(refPath), 0o755)
	if err := os.WriteFile(refPath, latest, 0o644); err != nil {
		return err
	}
	wantLogical := logicalDump(refPath)
	// WAL of another database B (same page size, same table name, different rows, an extra table)
	grab := func(path string, fresh bool) (wal, shm []byte, err error) {
		d, err := sql.Open("sqlite", path)
		if err != nil {
			return nil, nil, err
		}
		defer d.Close()
		d.SetMaxOpenConns(1)
		var qs []string
		if fresh {
			qs = append(qs, fmt.Sprintf("PRAGMA page_size=%d", h.PageSize), "PRAGMA journal_mode=wal", "PRAGMA wal_autocheckpoint=0",
				"CREATE TABLE t (id INTEGER PRIMARY KEY, v BLOB)", "INSERT INTO t (id, v) VALUES (1, randomblob(40)), (2, randomblob(40))",
				"PRAGMA wal_checkpoint(TRUNCATE)")
		} else {
			qs = append(qs, "PRAGMA journal_mode=wal", "PRAGMA wal_autocheckpoint=0")
		}
		qs = append(qs, "CREATE TABLE foreign_extra (x)", "INSERT INTO foreign_extra VALUES ('from the other database')",
			"INSERT INTO t (id, v) VALUES (900001, randomblob(300))", "UPDATE t SET v = randomblob(50) WHERE id IN (SELECT id FROM t ORDER BY id LIMIT 2)")
		for _, q := range qs {
			if _, err := d.Exec(q); err != nil {
				return nil, nil, fmt.Errorf("%s: %w", q, err)
			}
		}
		if wal, err = os.ReadFile(path + "-wal"); err != nil {
			return nil, nil, err
		}
		shm, _ = os.ReadFile(path + "-shm")
		return wal, shm, nil
	}
	fw, fs, err := grab(filepath.Join(dir, "b.db"), true)
	if err != nil {
		return fmt.Errorf("foreign wal: %w", err)
	}
	first, err := pristineRestore(env, filepath.Join(scratch, "pristine"), 1)
	if err != nil {
		return err
	}
	ownPath := filepath.Join(dir, "own.db")
	if err := os.WriteFile(ownPath, first, 0o644); err != nil {
		return err
	}
	ow, osh, err := grab(ownPath, false)
	if err != nil {
		return fmt.Errorf("own older wal: %w", err)
	}
	for _, k := range []struct {
		kind     string
		wal, shm []byte
	}{{"foreign", fw, fs}, {"own", ow, osh}} {
		for _, withShm := range []bool{false, true} {
			for _, integ := range []int{0, 1, 2} {
				k := k
				add(Mut{Kind: "foreign-wal", WalKind: k.kind, WithShm: withShm, Integrity: integ}, func(j *restoreJob) {
					j.plant, j.plant2, j.wantLogical = k.wal, k.shm, wantLogical
				})
			}
		}
	}
	return nil
}

// bigSQLite builds a valid SQLite database of at least minSize bytes with the given page size.
func bigSQLite(dir string, pageSize, minSize int) ([]byte, error) {
	os.RemoveAll(dir)
	if err := os.MkdirAll(dir, 0o755); err != nil {
		return nil, err
	}
	p := filepath.Join(dir, "big.db")
	d, err := sql.Open("sqlite", p)
	if err != nil {
		return nil, err
	}
	defer d.Close()
	for _, q := range []string{fmt.Sprintf("PRAGMA page_size=%d", pageSize), "CREATE TABLE big (id INTEGER PRIMARY KEY, v BLOB)"} {
		if _, err := d.Exec(q); err != nil {
			return nil, err
		}
	}
	for n := 0; n < 200; n++ {
		if _, err := d.Exec("INSERT INTO big (v) VALUES (randomblob(?))", pageSize); err != nil {
			return nil, err
		}
		if fi, err := os.Stat(p); err == nil && fi.Size() >= int64(minSize) {
			break
		}
	}
	d.Close()
	return os.ReadFile(p)
}

// legacyHist builds the legacy-layout replica of a history spec and its jobs.
func legacyHist(h HistSpec, root string, all bool) (*replicaEnv, []restoreJob, error) {
	var lr *legacyReplica
	var err error
	if h.Legacy == 1 {
		lr, err = buildLegacyReplica(root, h.Seed, 3, 0, false)
	} else {
		lr, err = buildLegacyReplica(root, h.Seed, 4, 2, true)
	}
	if err != nil {
		return nil, nil, err
	}
	env := &replicaEnv{root: root, dir: lr.dir, client: file.NewReplicaClient(lr.dir)}
	var jobs []restoreJob
	base := restoreJob{env: env, hist: h, failStep: "-", sizes: true, iok: true}
	legacyJobs(lr, hx.NewRand(h.Seed^0x1e9ac7), all, func(m Mut, f func(*restoreJob)) {
		j := base
		j.mut = m
		if f != nil {
			f(&j)
		}
		jobs = append(jobs, j)
	})
	return env, jobs, nil
}

func histSpecs(r *hx.Rand, tier string) []HistSpec {
	hs := []HistSpec{
		{Seed: r.Uint64(), NTx: 3, PageSize: 512},
		{Seed: r.Uint64(), NTx: 4, PageSize: 512, CompactAt: 2},
		{Seed: r.Uint64(), NTx: 3, PageSize: 1024, SnapshotAt: 2},
		{Seed: r.Uint64(), NTx: 2, PageSize: 512, CorruptSrc: true},
		{Seed: r.Uint64(), NTx: 5, PageSize: 512, SnapshotAt: 2, GapOnly: true},               // snapshot, then only L0
		{Seed: r.Uint64(), NTx: 6, PageSize: 512, SnapshotAt: 2, CompactAt: 4, GapOnly: true}, // snapshot, L1 bridging, L0
		{Seed: r.Uint64(), NTx: 2, PageSize: 512, BadImage: "magic"},
		{Seed: r.Uint64(), NTx: 2, PageSize: 1024, BadImage: "page1hdr"},
		{Seed: r.Uint64(), NTx: 3, PageSize: 512, BadImage: "schema"},
	}
	if tier == "thorough" {
		hs = append(hs,
			HistSpec{Seed: r.Uint64(), NTx: 5, PageSize: 512, CompactAt: 3, SnapshotAt: 4},
			HistSpec{Seed: r.Uint64(), NTx: 2, PageSize: 4096},
			HistSpec{Seed: r.Uint64(), NTx: 2, PageSize: 1024, CorruptSrc: true})
	}
	return hs
}

func main() {
	if len(os.Args) > 1 && os.Args[1] == "worker" {
		workerMain()
		return
	}
	o := hx.ParseFlags("C10")
	slog.SetDefault(quiet)
	res := hx.NewResult(o, "c10")
	res.Rule = "reader case: schedule contains at least one fault (failed/fatal open, error, EOF decision); restore case: any mutation other than 'none' (distinct = distinct (history, mutation))"
	scratch, err := os.MkdirTemp("", "verif-c10-")
	if err != nil {
		hx.Fatal(err)
	}
	defer os.RemoveAll(scratch)
	drv, err := hx.StartDriver(o.Driver)
	if err != nil {
		hx.Fatal(err)
	}
	defer drv.Close()

	if o.Replay != "" {
		os.Exit(replay(o, drv, scratch))
	}
	// corpus first
	if o.Corpus != "" {
		files, _ := filepath.Glob(filepath.Join(o.Corpus, "*.json"))
		sort.Strings(files)
		for _, f := range files {
			p, err := loadPayload(f)
			if err != nil {
				res.Notes = append(res.Notes, "corpus file unreadable: "+f)
				continue
			}
			runPayload(res, drv, p, scratch)
			res.Count("corpus")
		}
	}

	r := hx.NewRand(o.Seed)
	thorough := o.Tier == "thorough"

	// (a) reader
	nReader := 1500
	if thorough {
		nReader = 12000
	}
	var rcases []ReaderCase
	rr := r.Fork()
	for i := 0; i < nReader; i++ {
		rcases = append(rcases, genReaderCase(rr))
	}
	t0 := time.Now()
	for _, e := range evalReaders(drv, rcases, 512) {
		judgeReader(res, drv, e, true)
	}
	fmt.Fprintf(os.Stderr, "c10: %d reader cases in %.1fs\n", len(rcases), time.Since(t0).Seconds())
	for _, e := range evalReaders(drv, rcases[:3], 4) {
		res.Sample(map[string]string{"case": e.c.line(), "impl": e.obs.Canon, "model": e.model})
	}

	// (b) restore
	rb := r.Fork()
	par := runtime.NumCPU() * 2
	histBuilt, histFailed := 0, 0
	for hi, h := range histSpecs(rb, o.Tier) {
		env, err := buildReplica(filepath.Join(scratch, fmt.Sprintf("h%d", hi)), h)
		if h.CorruptSrc && err != nil {
			// the damaged page may be one SQLite/litestream must read to replicate at all: retry with other seeds
			for try := 0; try < 4 && err != nil; try++ {
				h.Seed = rb.Uint64()
				env, err = buildReplica(filepath.Join(scratch, fmt.Sprintf("h%d-retry%d", hi, try)), h)
			}
		}
		if err != nil {
			var na *errNA
			if errors.As(err, &na) {
				res.Count("history/not-applicable(corrupted source unusable)")
				res.Notes = append(res.Notes, fmt.Sprintf("history %+v not applicable: %v", h, err))
				continue
			}
			// a history that cannot be built is a harness problem, not evidence about the property: it must
			// not zero the run; it is recorded and the remaining histories still run
			res.Count("history/build-failed")
			res.Notes = append(res.Notes, fmt.Sprintf("HARNESS: history %+v could not be built: %v", h, err))
			fmt.Fprintf(os.Stderr, "c10: history %+v could not be built: %v\n", h, err)
			histFailed++
			continue
		}
		histBuilt++
		sample, nFault := 40, 6
		if thorough {
			nFault = 30
		}
		jobs, err := jobsFor(rb.Fork(), env, h, scratch, thorough, sample, nFault, res)
		if err != nil {
			res.Count("history/build-failed")
			res.Notes = append(res.Notes, fmt.Sprintf("HARNESS: jobs for history %+v could not be prepared: %v", h, err))
			fmt.Fprintf(os.Stderr, "c10: jobs for history %+v: %v\n", h, err)
			histFailed++
			continue
		}
		// fault-schedule jobs sleep in the reader's backoff: run them wide
		var fast, slow []restoreJob
		for _, j := range jobs {
			if j.mut.Kind == "readfault" || j.mut.Kind == "disk-dir" {
				slow = append(slow, j)
			} else {
				fast = append(fast, j)
			}
		}
		t1 := time.Now()
		outs := append(runRestoreJobs(drv, fast, filepath.Join(scratch, fmt.Sprintf("w%d", hi)), par),
			runRestoreJobs(drv, slow, filepath.Join(scratch, fmt.Sprintf("s%d", hi)), 48)...)
		fmt.Fprintf(os.Stderr, "c10: history %d: %d fast + %d slow restore jobs in %.1fs\n", hi, len(fast), len(slow), time.Since(t1).Seconds())
		for i, ro := range outs {
			judgeRestore(res, ro)
			if i%997 == 3 {
				res.Sample(map[string]any{"hist": h, "mut": ro.job.mut, "impl": ro.obs.canon(), "model": ro.model})
			}
		}
	}
	// legacy (v0.3.x) layout replicas: the same single damages, through both restore entry points
	for v := 1; v <= 2; v++ {
		h := HistSpec{Seed: rb.Uint64(), Legacy: v}
		env, jobs, err := legacyHist(h, filepath.Join(scratch, fmt.Sprintf("legacy%d", v)), thorough)
		if err != nil {
			res.Count("history/build-failed")
			res.Notes = append(res.Notes, fmt.Sprintf("HARNESS: legacy history %+v could not be built: %v", h, err))
			histFailed++
			continue
		}
		_ = env
		t1 := time.Now()
		outs := runRestoreJobs(drv, jobs, filepath.Join(scratch, fmt.Sprintf("lw%d", v)), par)
		fmt.Fprintf(os.Stderr, "c10: legacy history %d: %d restore jobs in %.1fs\n", v, len(jobs), time.Since(t1).Seconds())
		for _, ro := range outs {
			res.Count(fmt.Sprintf("legacy/%s/%s->%s", ro.job.mut.Entry, map[string]string{"": "none"}[ro.job.mut.LegacyOp]+ro.job.mut.LegacyOp, strings.SplitN(ro.obs.Res, "(", 2)[0]))
			judgeRestore(res, ro)
		}
	}
	if histBuilt == 0 || histFailed > 1 {
		hx.Fatal(fmt.Errorf("%d histories could not be built (%d built): see notes", histFailed, histBuilt))
	}
	res.Notes = append(res.Notes, fmt.Sprintf("driver answered %d lines", drv.N))
	if err := res.Write(o.Out); err != nil {
		hx.Fatal(err)
	}
}

func loadPayload(path string) (*Payload, error) {
	b, err := os.ReadFile(path)
	if err != nil {
		return nil, err
	}
	var w struct {
		Replay json.RawMessage `json:"replay"`
	}
	if err := json.Unmarshal(b, &w); err != nil {
		return nil, err
	}
	raw := w.Replay
	if len(raw) == 0 {
		raw = b
	}
	var p Payload
	if err := json.Unmarshal(raw, &p); err != nil {
		return nil, err
	}
	if p.Reader == nil && p.Restore == nil {
		return nil, fmt.Errorf("no case in %s", path)
	}
	return &p, nil
}

// runPayload re-runs one stored case; returns true if it (still) fails.
func runPayload(res *hx.Result, drv *hx.Driver, p *Payload, scratch string) bool {
	if p.Reader != nil {
		bad := false
		for _, e := range evalReaders(drv, []ReaderCase{*p.Reader}, 1) {
			fmt.Fprintf(os.Stderr, "reader case: %s\n impl:  %s\n model: %s\n oracle: %q\n", e.c.line(), e.obs.Canon, e.model, readerOracle(e.c, e.obs))
			if judgeReader(res, drv, e, false) {
				bad = true
			}
		}
		return bad
	}
	h := p.Restore.Hist
	dir, _ := os.MkdirTemp(scratch, "replay-")
	if h.Legacy > 0 {
		_, jobs, err := legacyHist(h, filepath.Join(dir, "legacy"), false)
		if err != nil {
			hx.Fatal(err)
		}
		want := fmt.Sprintf("%+v", p.Restore.Mut)
		for _, j := range jobs {
			if fmt.Sprintf("%+v", j.mut) == want {
				outs := runRestoreJobs(drv, []restoreJob{j}, filepath.Join(dir, "w"), 1)
				fmt.Fprintf(os.Stderr, "legacy restore case: hist=%+v mut=%+v\n impl: %s (err %q) state {%s}\n oracle: %q\n", h, j.mut, outs[0].obs.canon(), outs[0].obs.Err, outs[0].obs.Logical, restoreOracle(j.mut, outs[0].obs))
				return judgeRestore(res, outs[0])
			}
		}
		hx.Fatal(fmt.Errorf("legacy case not found among the regenerated jobs"))
	}
	env, err := buildReplica(filepath.Join(dir, "h"), h)
	if err != nil {
		hx.Fatal(err)
	}
	jobs, err := jobsFor(hx.NewRand(1), env, h, dir, false, 0, 0, hx.NewResult(&hx.Opts{Replays: os.TempDir()}, "scratch"))
	if err == nil && len(jobs) == 0 {
		err = errNoPlan
	}
	if err != nil {
		hx.Fatal(err)
	}
	// find the abstract inputs for this mutation: rebuild the job the same way the generator does
	m := p.Restore.Mut
	if m.Anchor == "pageblock" && m.File < len(jobs[0].plan) {
		// offset relative to the end of the file's page block (stable across rebuilds of the history)
		b, err := readPlanFile(env, jobs[0].plan[m.File])
		if err != nil {
			hx.Fatal(err)
		}
		m.Off += pageBlockEnd(b)
		m.Anchor = ""
	}
	var job *restoreJob
	for i := range jobs {
		if fmt.Sprintf("%+v", jobs[i].mut) == fmt.Sprintf("%+v", m) {
			job = &jobs[i]
		}
	}
	if job == nil {
		j := jobs[0]
		j.mut = m
		j.failStep, j.faults, j.corrupt, j.sizes = "-", 0, false, true
		switch m.Kind {
		case "trunc", "disk-trunc":
			j.corrupt, j.sizes = true, m.Off >= ltx.HeaderSize
		case "flip", "disk-flip", "disk-dir":
			j.corrupt = true
		case "readfault":
			j.faults = len(m.Faults)
			for _, f := range m.Faults {
				if f.Kind == "notexist" {
					j.faults = 99
				}
			}
		}
		job = &j
	}
	outs := runRestoreJobs(drv, []restoreJob{*job}, filepath.Join(dir, "w"), 1)
	fmt.Fprintf(os.Stderr, "restore case: hist=%+v mut=%+v\n impl:  %s (err %q)\n model: %s\n oracle: %q\n log: %v\n", h, m, outs[0].obs.canon(), outs[0].obs.Err, outs[0].model, restoreOracle(m, outs[0].obs), outs[0].obs.Log)
	return judgeRestore(res, outs[0])
}

func replay(o *hx.Opts, drv *hx.Driver, scratch string) int {
	p, err := loadPayload(o.Replay)
	if err != nil {
		hx.Fatal(err)
	}
	res := hx.NewResult(o, "c10-replay")
	if runPayload(res, drv, p, scratch) {
		for _, f := range res.Findings {
			fmt.Printf("%s %s: %s\n", strings.ToUpper(f.Kind), f.Signature, f.What)
		}
		return 1
	}
	fmt.Println("replay: no failure reproduced")
	return 0
}
