package main

import (
	"bytes"
	"context"
	"database/sql"
	"fmt"
	"io"
	"log/slog"
	"os"
	"path/filepath"

	"github.com/benbjohnson/litestream"
	"github.com/benbjohnson/litestream/file"
	"github.com/superfly/ltx"
	_ "modernc.org/sqlite"

	"verif/harness/hx"
)

var quiet = slog.New(slog.NewTextHandler(io.Discard, &slog.HandlerOptions{Level: slog.LevelError + 10}))

// HistSpec describes a real history (modernc SQLite + litestream) that produces a replica.
type HistSpec struct {
	Seed       uint64 `json:"seed"`
	NTx        int    `json:"ntx"`
	PageSize   int    `json:"page_size"`
	CompactAt  int    `json:"compact_at"`  // after this many syncs compact L0->L1 (0 = never)
	SnapshotAt int    `json:"snapshot_at"` // after this many syncs write a level-9 snapshot (0 = never)
	CorruptSrc bool   `json:"corrupt_src"` // damage a b-tree page of the *source* database before replication starts
	// BadImage: take the database image restored from the history's replica, damage it so that SQLite's
	// integrity PRAGMA itself *errors* (not "result != ok"), and publish it as a checksum-valid snapshot
	// LTX in a fresh file replica: "magic" (bytes 0..15), "page1hdr" (b-tree header of page 1),
	// "schema" (sqlite_master SQL text).
	BadImage string `json:"bad_image,omitempty"`
	// GapOnly: run only the "delete any replica file, then default / TXID / timestamp restore" stream
	GapOnly bool `json:"gap_only,omitempty"`
	// Legacy > 0: a v0.3.x-layout replica (1: one segment per WAL index; 2: split segments + a second snapshot)
	Legacy int `json:"legacy,omitempty"`
}

type replicaEnv struct {
	badImage []byte // BadImage histories: the damaged image the replica encodes
	root     string
	dir      string // replica directory (file client)
	client   *file.ReplicaClient
}

func buildReplica(root string, h HistSpec) (*replicaEnv, error) {
	if h.BadImage != "" {
		return buildBadImageReplica(root, h)
	}
	ctx := context.Background()
	dbPath := filepath.Join(root, "src", "db")
	if err := os.MkdirAll(filepath.Dir(dbPath), 0o755); err != nil {
		return nil, err
	}
	open := func() (*sql.DB, error) {
		app, err := sql.Open("sqlite", dbPath)
		if err != nil {
			return nil, err
		}
		app.SetMaxOpenConns(1)
		return app, nil
	}
	app, err := open()
	if err != nil {
		return nil, err
	}
	for _, q := range []string{fmt.Sprintf("PRAGMA page_size=%d", h.PageSize), "PRAGMA journal_mode=wal", "PRAGMA wal_autocheckpoint=0",
		"CREATE TABLE t (id INTEGER PRIMARY KEY, v BLOB)", "CREATE INDEX ti ON t(v)"} {
		if _, err := app.Exec(q); err != nil {
			return nil, fmt.Errorf("%s: %w", q, err)
		}
	}
	r := hx.NewRand(h.Seed)
	blob := func(n int) []byte {
		b := make([]byte, n)
		for i := range b {
			b[i] = byte(r.Uint64())
		}
		return b
	}
	if h.CorruptSrc {
		for i := 0; i < 40; i++ {
			if _, err := app.Exec("INSERT INTO t (v) VALUES (?)", blob(60)); err != nil {
				return nil, err
			}
		}
		if _, err := app.Exec("PRAGMA wal_checkpoint(TRUNCATE)"); err != nil {
			return nil, err
		}
		app.Close()
		// overwrite the header of every b-tree page after page 1 with garbage: SQLite's
		// quick_check rejects the database, LTX checksums (computed over these bytes) do not.
		f, err := os.OpenFile(dbPath, os.O_RDWR, 0)
		if err != nil {
			return nil, err
		}
		fi, _ := f.Stat()
		for pg := int(fi.Size()/int64(h.PageSize)) - 1; pg >= 1 && int64(pg*h.PageSize) < fi.Size(); pg = 0 {
			if _, err := f.WriteAt([]byte{0xFF, 0xFF, 0xFF, 0xFF, 0xFF, 0xFF, 0xFF, 0xFF, 0xFF, 0xFF, 0xFF, 0xFF}, int64(pg*h.PageSize)); err != nil {
				return nil, err
			}
		}
		f.Close()
		if app, err = open(); err != nil {
			return nil, err
		}
		if _, err := app.Exec("PRAGMA wal_autocheckpoint=0"); err != nil {
			return nil, err
		}
	}
	defer app.Close()

	env := &replicaEnv{root: root, dir: filepath.Join(root, "replica")}
	env.client = file.NewReplicaClient(env.dir)
	db := litestream.NewDB(dbPath)
	db.MonitorInterval = 0
	db.Logger = quiet
	db.Replica = litestream.NewReplicaWithClient(db, env.client)
	db.Replica.MonitorEnabled = false
	if err := db.Open(); err != nil {
		return nil, fmt.Errorf("open litestream db: %w", err)
	}
	defer func() { _ = db.Close(ctx) }() // no-op after the explicit Close below; releases the DB on early returns
	nextID := 1000
	for i := 1; i <= h.NTx; i++ {
		if !h.CorruptSrc {
			tx, err := app.Begin()
			if err != nil {
				return nil, err
			}
			for k, n := 0, 1+r.Intn(3); k < n; k++ {
				op := r.Intn(4)
				if k == 0 {
					op = 3 // every transaction changes something: one L0 file per transaction
				}
				switch op {
				case 0:
					_, err = tx.Exec("UPDATE t SET v=? WHERE id=(SELECT id FROM t ORDER BY id LIMIT 1 OFFSET ?)", blob(20+r.Intn(60)), r.Intn(8))
				case 1:
					_, err = tx.Exec("DELETE FROM t WHERE id=(SELECT id FROM t ORDER BY id DESC LIMIT 1 OFFSET ?)", r.Intn(4))
				default:
					nextID++
					_, err = tx.Exec("INSERT INTO t (id, v) VALUES (?, ?)", nextID, blob(20+r.Intn(200)))
				}
				if err != nil && !h.CorruptSrc {
					tx.Rollback()
					return nil, err
				}
			}
			if err := tx.Commit(); err != nil {
				return nil, err
			}
		} else {
			// corrupted source: one tiny write to page 1 only (schema cookie) so that there is something to sync
			// (every transaction of a corrupted-source history: table writes would have to read the damaged pages)
			if _, err := app.Exec(fmt.Sprintf("PRAGMA user_version=%d", 7+i)); err != nil {
				return nil, notApplicable("SQLite cannot write the damaged source database", err)
			}
		}
		if err := db.Sync(ctx); err != nil {
			if h.CorruptSrc {
				return nil, notApplicable("litestream cannot sync the damaged source database", err)
			}
			return nil, fmt.Errorf("db sync %d: %w", i, err)
		}
		if err := db.Replica.Sync(ctx); err != nil {
			return nil, fmt.Errorf("replica sync %d: %w", i, err)
		}
		if h.CompactAt == i {
			if _, err := db.Compact(ctx, 1); err != nil {
				return nil, fmt.Errorf("compact: %w", err)
			}
		}
		if h.SnapshotAt == i {
			if _, err := db.Snapshot(ctx); err != nil {
				return nil, fmt.Errorf("snapshot: %w", err)
			}
		}
	}
	if err := db.Close(ctx); err != nil {
		return nil, fmt.Errorf("close: %w", err)
	}
	return env, nil
}

// plan returns the latest restore plan of the pristine replica.
func (e *replicaEnv) plan() ([]*ltx.FileInfo, error) {
	return litestream.CalcRestorePlan(context.Background(), e.client, 0, zeroTime, quiet)
}

// damageImage returns a copy of a valid database image that every LTX checksum will cover faithfully
// but that SQLite refuses to query.
func damageImage(img []byte, kind string) ([]byte, error) {
	b := append([]byte(nil), img...)
	switch kind {
	case "magic":
		copy(b[0:16], []byte("NOTsqlite format"))
	case "page1hdr":
		b[100] = 0xFF // page type of the sqlite_master root page
		b[103], b[104] = 0xFF, 0xFF
	case "schema":
		i := bytes.Index(b[:min(len(b), 4096)], []byte("CREATE TABLE t "))
		if i < 0 {
			return nil, fmt.Errorf("schema text not found in page 1")
		}
		copy(b[i:], []byte("CREATE TABLX"))
	default:
		return nil, fmt.Errorf("unknown bad image kind %q", kind)
	}
	return b, nil
}

func buildBadImageReplica(root string, h HistSpec) (*replicaEnv, error) {
	base := h
	base.BadImage = ""
	benv, err := buildReplica(filepath.Join(root, "base"), base)
	if err != nil {
		return nil, err
	}
	img, err := pristineRestore(benv, filepath.Join(root, "base-out"), 0)
	if err != nil {
		return nil, fmt.Errorf("restore base image: %w", err)
	}
	bad, err := damageImage(img, h.BadImage)
	if err != nil {
		return nil, err
	}
	if len(bad)%h.PageSize != 0 {
		return nil, fmt.Errorf("image size %d not a multiple of the page size", len(bad))
	}
	var buf bytes.Buffer
	enc, err := ltx.NewEncoder(&buf)
	if err != nil {
		return nil, err
	}
	n := uint32(len(bad) / h.PageSize)
	if err := enc.EncodeHeader(ltx.Header{Version: ltx.Version, Flags: ltx.HeaderFlagNoChecksum, PageSize: uint32(h.PageSize),
		Commit: n, MinTXID: 1, MaxTXID: 1, Timestamp: 1700000000000}); err != nil {
		return nil, err
	}
	for pg := uint32(1); pg <= n; pg++ {
		if pg == ltx.LockPgno(uint32(h.PageSize)) {
			continue
		}
		if err := enc.EncodePage(ltx.PageHeader{Pgno: pg}, bad[int(pg-1)*h.PageSize:int(pg)*h.PageSize]); err != nil {
			return nil, err
		}
	}
	if err := enc.Close(); err != nil {
		return nil, err
	}
	env := &replicaEnv{root: root, dir: filepath.Join(root, "replica")}
	env.client = file.NewReplicaClient(env.dir)
	if _, err := env.client.WriteLTXFile(context.Background(), 0, 1, 1, bytes.NewReader(buf.Bytes())); err != nil {
		return nil, fmt.Errorf("publish bad image: %w", err)
	}
	env.badImage = bad
	return env, nil
}

// errNA marks a history that cannot be built for a reason that lies in the deliberately damaged input
// itself (SQLite refuses to touch it), not in litestream or the harness: counted, not alarmed.
type errNA struct {
	why string
	err error
}

func (e *errNA) Error() string                  { return e.why + ": " + e.err.Error() }
func (e *errNA) Unwrap() error                  { return e.err }
func notApplicable(why string, err error) error { return &errNA{why, err} }
