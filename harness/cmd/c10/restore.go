package main

import (
	"bytes"
	"context"
	"crypto/sha256"
	"database/sql"
	"encoding/hex"
	"errors"
	"fmt"
	"io"
	"os"
	"path/filepath"
	"sort"
	"strings"
	"sync"
	"sync/atomic"
	"syscall"
	"time"

	"github.com/benbjohnson/litestream"
	"github.com/benbjohnson/litestream/file"
	"github.com/superfly/ltx"
)

var zeroTime time.Time

// ---- part (b): real Replica.Restore through a fault-injecting ReplicaClient over the file client ----

type Fault struct {
	Kind string `json:"kind"` // err | eof | open | notexist
	At   int    `json:"at"`   // byte offset of the file at which the stream breaks (err/eof)
}

// Mut is one single corruption / fault schedule applied to one file of the pristine plan.
type Mut struct {
	Kind string `json:"kind"` // none | trunc | flip | delete | readfault | preexist (applied virtually by the wrapper)
	// disk-trunc | disk-flip | disk-delete | disk-dir: applied PHYSICALLY to a scratch copy of the replica
	// directory; Restore then runs over a plain file.NewReplicaClient(copy) — the real listing/open/stat code
	File      int     `json:"file"` // index into the pristine plan
	Off       int     `json:"off"`
	Mask      int     `json:"mask"`
	Faults    []Fault `json:"faults,omitempty"`
	Integrity int     `json:"integrity"`        // litestream.IntegrityCheckMode
	Anchor    string  `json:"anchor,omitempty"` // "" = Off absolute; "pageblock" = Off relative to the end of the page block (corpus files)
	// disk-delete-set: remove these replica files (any level, not only plan files) from the on-disk copy,
	// then restore with the given target (TXID / timestamp in ms, 0 = default "latest").
	Files   []planID `json:"files,omitempty"`
	TXID    uint64   `json:"txid,omitempty"`
	TS      int64    `json:"ts_ms,omitempty"`
	MustErr string   `json:"must_err,omitempty"` // expectation derived from the remaining files: why success would be wrong
	// stale-tmp: before the restore a leftover <output>.tmp (what a SIGKILLed restore leaves) is planted, plus
	// junk <output>-wal, <output>-shm, <output>.tmp-wal; restore target as for disk-delete-set (TXID / TS).
	TmpKind string `json:"tmp_kind,omitempty"` // image (a larger previously restored image) | random | sqlite (a valid larger database)
	TmpRel  string `json:"tmp_rel,omitempty"`  // longer | equal | shorter — than the database about to be restored
	// preexist: what occupies the output path before the call: "" (non-empty sentinel file) | empty (0-byte
	// file) | one (1-byte file) | sqlite (valid database) | dir | symlink (to an existing file) | fifo |
	// dangling (symlink to a missing target: os.Stat says "not exist" — observed, not part of the oracle)
	PreKind string `json:"pre_kind,omitempty"`
	// foreign-wal: <output> is absent but a VALID SQLite WAL sits at <output>-wal (optionally with its -shm):
	// "foreign" = the un-checkpointed WAL of another database with the same page size, "own" = the WAL of an
	// earlier incarnation of this very output (restored at TXID 1, then written to).
	// cancel: the restore's context is cancelled when the LAST plan file's stream reaches EOF (+ delay): all
	// downloads are complete, only the post-restore integrity check can see the cancellation
	CancelDelayUS int `json:"cancel_delay_us,omitempty"`
	// legacy: v0.3.x-layout replica; one snapshot / WAL segment file is deleted, truncated or flipped on a
	// copy, restored through Replica.Restore ("restore") or Replica.RestoreV3 ("v3")
	LegacyOp   string `json:"legacy_op,omitempty"`
	LegacyFile string `json:"legacy_file,omitempty"`
	Entry      string `json:"entry,omitempty"`
	WalKind    string `json:"wal_kind,omitempty"` // foreign | own
	WithShm    bool   `json:"with_shm,omitempty"`
}

type RestoreCase struct {
	Hist HistSpec `json:"hist"`
	Mut  Mut      `json:"mut"`
}

type faultClient struct {
	*file.ReplicaClient
	target *ltx.FileInfo // nil = no target
	mut    Mut
	mu     sync.Mutex
	next   int // next fault to fire
	fired  int
	log    []string
}

func sameFile(a *ltx.FileInfo, level int, min, max ltx.TXID) bool {
	return a != nil && a.Level == level && a.MinTXID == min && a.MaxTXID == max
}

func (c *faultClient) mutate(b []byte) []byte {
	switch c.mut.Kind {
	case "trunc":
		if c.mut.Off < len(b) {
			return b[:c.mut.Off]
		}
	case "flip":
		if c.mut.Off < len(b) {
			b = append([]byte(nil), b...)
			b[c.mut.Off] ^= byte(c.mut.Mask)
		}
	}
	return b
}

func (c *faultClient) LTXFiles(ctx context.Context, level int, seek ltx.TXID, useMetadata bool) (ltx.FileIterator, error) {
	itr, err := c.ReplicaClient.LTXFiles(ctx, level, seek, useMetadata)
	if err != nil || c.target == nil {
		return itr, err
	}
	defer itr.Close()
	var a []*ltx.FileInfo
	for itr.Next() {
		info := *itr.Item()
		if sameFile(c.target, info.Level, info.MinTXID, info.MaxTXID) {
			switch c.mut.Kind {
			case "delete":
				continue
			case "trunc":
				if int64(c.mut.Off) < info.Size {
					info.Size = int64(c.mut.Off)
				}
			}
		}
		a = append(a, &info)
	}
	if err := itr.Err(); err != nil {
		return nil, err
	}
	return ltx.NewFileInfoSliceIterator(a), nil
}

type faultStream struct {
	c   *faultClient
	b   []byte
	pos int
}

func (s *faultStream) Read(p []byte) (int, error) {
	c := s.c
	c.mu.Lock()
	defer c.mu.Unlock()
	rem := len(s.b) - s.pos
	if c.next < len(c.mut.Faults) {
		f := c.mut.Faults[c.next]
		if f.Kind == "err" || f.Kind == "eof" {
			n := 0
			if f.At > s.pos {
				n = min(len(p), min(f.At-s.pos, rem))
			}
			copy(p, s.b[s.pos:s.pos+n])
			s.pos += n
			if s.pos >= f.At || n == rem {
				c.next++
				c.fired++
				c.log = append(c.log, fmt.Sprintf("read@%d n=%d %s", s.pos-n, n, f.Kind))
				if f.Kind == "eof" {
					return n, io.EOF
				}
				return n, errInjected
			}
			return n, nil
		}
	}
	if rem == 0 {
		return 0, io.EOF
	}
	n := min(len(p), rem)
	copy(p, s.b[s.pos:s.pos+n])
	s.pos += n
	return n, nil
}
func (s *faultStream) Close() error { return nil }

func (c *faultClient) OpenLTXFile(ctx context.Context, level int, minTXID, maxTXID ltx.TXID, offset, size int64) (io.ReadCloser, error) {
	if !sameFile(c.target, level, minTXID, maxTXID) || c.mut.Kind == "none" || c.mut.Kind == "preexist" {
		return c.ReplicaClient.OpenLTXFile(ctx, level, minTXID, maxTXID, offset, size)
	}
	if c.mut.Kind == "delete" {
		return nil, litestream.NewLTXError("open", "deleted", level, uint64(minTXID), uint64(maxTXID), os.ErrNotExist)
	}
	c.mu.Lock()
	if c.next < len(c.mut.Faults) {
		f := c.mut.Faults[c.next]
		if f.Kind == "open" || f.Kind == "notexist" {
			c.next++
			c.fired++
			c.log = append(c.log, fmt.Sprintf("open@%d %s", offset, f.Kind))
			c.mu.Unlock()
			if f.Kind == "notexist" {
				return nil, litestream.NewLTXError("open", "vanished", level, uint64(minTXID), uint64(maxTXID), os.ErrNotExist)
			}
			return nil, errOpenInjected
		}
	}
	c.mu.Unlock()
	rc, err := c.ReplicaClient.OpenLTXFile(ctx, level, minTXID, maxTXID, 0, 0)
	if err != nil {
		return nil, err
	}
	b, err := io.ReadAll(rc)
	rc.Close()
	if err != nil {
		return nil, err
	}
	b = c.mutate(b)
	pos := int(offset)
	if pos > len(b) {
		pos = len(b)
	}
	return &faultStream{c: c, b: b, pos: pos}, nil
}

type restoreObs struct {
	Res, Out, Tmp string
	Wal, Shm      bool
	Err           string
	Fired         int
	Log           []string
	Logical       string
	WantLogical   string
}

func (o restoreObs) canon() string {
	b := func(x bool) int {
		if x {
			return 1
		}
		return 0
	}
	return fmt.Sprintf("res=%s out=%s tmp=%s wal=%d shm=%d", o.Res, o.Out, o.Tmp, b(o.Wal), b(o.Shm))
}

func restoreErrKind(err error) string {
	if err == nil {
		return "ok"
	}
	s := err.Error()
	switch {
	case strings.Contains(s, "output path already exists"):
		return "exists"
	case strings.HasPrefix(s, "cannot calc restore plan"):
		return "calcPlan"
	case strings.HasPrefix(s, "invalid ltx file"):
		return "sizeCheck"
	case strings.HasPrefix(s, "decode database"):
		return "decode"
	case strings.HasPrefix(s, "post-restore integrity check"):
		return "integrity"
	}
	return "other(" + s + ")"
}

var sentinel = []byte("pre-existing output that must never be touched\n")
var staleJunk = []byte("stale sidecar left behind by a killed process\n")

func exists(p string) bool { _, err := os.Lstat(p); return err == nil }

// workerReq is one restore job sent to a worker process (a panic in Restore's compactor
// goroutine kills the process: isolation is the only way to observe it).
type workerReq struct {
	Dir    string   `json:"dir"`  // replica directory
	Plan   []planID `json:"plan"` // pristine plan
	Mut    Mut      `json:"mut"`
	OutDir string   `json:"out_dir"`
	Plant  string   `json:"plant,omitempty"`  // stale-tmp: file holding the bytes to plant at <output>.tmp; foreign-wal: the -wal
	Plant2 string   `json:"plant2,omitempty"` // foreign-wal: the -shm
}
type planID struct {
	Level    int `json:"level"`
	Min, Max uint64
}
type workerResp struct {
	Err   string   `json:"err"`
	OK    bool     `json:"ok"`
	Fired int      `json:"fired"`
	Log   []string `json:"log"`
	// preexist with PreKind: identity (inode, type, size, mtime, content / link target / dir entries) of the
	// pre-existing object before and after the call
	PreBefore string `json:"pre_before,omitempty"`
	PreAfter  string `json:"pre_after,omitempty"`
	Logical   string `json:"logical,omitempty"` // foreign-wal: what SQLite sees when it opens (a copy of) the restored output
}

// doRestore runs the real Restore for one mutation (inside a worker process).
func doRestore(q workerReq) workerResp {
	os.RemoveAll(q.OutDir)
	os.MkdirAll(q.OutDir, 0o755)
	out := filepath.Join(q.OutDir, "restored.db")
	m := q.Mut
	if strings.HasPrefix(m.Kind, "disk-") {
		return doDiskRestore(q, out)
	}
	if m.Kind == "legacy" {
		return doLegacyRestore(q, out)
	}
	if m.Kind == "cancel" {
		if len(q.Plan) == 0 {
			return workerResp{Err: "HARNESS: empty plan"}
		}
		ctx, cancel := context.WithCancel(context.Background())
		defer cancel()
		last := q.Plan[len(q.Plan)-1]
		cc := &cancelClient{ReplicaClient: file.NewReplicaClient(q.Dir), last: last, cancel: cancel, delay: time.Duration(m.CancelDelayUS) * time.Microsecond}
		r := litestream.NewReplicaWithClient(nil, cc)
		opt := litestream.NewRestoreOptions()
		opt.OutputPath = out
		opt.IntegrityCheck = litestream.IntegrityCheckMode(m.Integrity)
		rerr := r.Restore(ctx, opt)
		resp := workerResp{OK: rerr == nil, Log: []string{fmt.Sprintf("last-file EOF seen=%v ctx.Err at return=%v", cc.fired.Load(), ctx.Err())}}
		if rerr != nil {
			resp.Err = rerr.Error()
		}
		return resp
	}
	if m.Kind == "foreign-wal" {
		w, err := os.ReadFile(q.Plant)
		if err != nil {
			return workerResp{Err: "HARNESS: " + err.Error()}
		}
		if err := os.WriteFile(out+"-wal", w, 0o644); err != nil {
			return workerResp{Err: "HARNESS: " + err.Error()}
		}
		if m.WithShm {
			if b, err := os.ReadFile(q.Plant2); err == nil {
				os.WriteFile(out+"-shm", b, 0o644)
			}
		}
		r := litestream.NewReplicaWithClient(nil, file.NewReplicaClient(q.Dir))
		opt := litestream.NewRestoreOptions()
		opt.OutputPath = out
		opt.IntegrityCheck = litestream.IntegrityCheckMode(m.Integrity)
		rerr := r.Restore(context.Background(), opt)
		resp := workerResp{OK: rerr == nil}
		if rerr != nil {
			resp.Err = rerr.Error()
			return resp
		}
		// what the application sees when it opens the restored database: probe a COPY (database + whatever
		// sidecars are next to it) so that the restore output itself stays as Restore left it
		probe := filepath.Join(q.OutDir, "probe")
		os.MkdirAll(probe, 0o755)
		for _, sfx := range []string{"", "-wal", "-shm"} {
			if b, err := os.ReadFile(out + sfx); err == nil {
				os.WriteFile(filepath.Join(probe, "restored.db"+sfx), b, 0o644)
			}
		}
		resp.Logical = logicalDump(filepath.Join(probe, "restored.db"))
		return resp
	}
	if m.Kind == "stale-tmp" {
		b, err := os.ReadFile(q.Plant)
		if err != nil {
			return workerResp{Err: "HARNESS: " + err.Error()}
		}
		for p, c := range map[string][]byte{out + ".tmp": b, out + "-wal": staleJunk, out + "-shm": staleJunk, out + ".tmp-wal": staleJunk} {
			if err := os.WriteFile(p, c, 0o644); err != nil {
				return workerResp{Err: "HARNESS: " + err.Error()}
			}
		}
		r := litestream.NewReplicaWithClient(nil, file.NewReplicaClient(q.Dir))
		opt := litestream.NewRestoreOptions()
		opt.OutputPath = out
		opt.TXID = ltx.TXID(m.TXID)
		if m.TS != 0 {
			opt.Timestamp = time.UnixMilli(m.TS).UTC()
		}
		opt.IntegrityCheck = litestream.IntegrityCheckMode(m.Integrity)
		rerr := r.Restore(context.Background(), opt)
		resp := workerResp{OK: rerr == nil}
		if rerr != nil {
			resp.Err = rerr.Error()
		}
		return resp
	}
	fc := &faultClient{ReplicaClient: file.NewReplicaClient(q.Dir), mut: m}
	if m.Kind != "none" && m.Kind != "preexist" && m.File < len(q.Plan) {
		p := q.Plan[m.File]
		fc.target = &ltx.FileInfo{Level: p.Level, MinTXID: ltx.TXID(p.Min), MaxTXID: ltx.TXID(p.Max)}
	}
	preBefore := ""
	if m.Kind == "preexist" {
		if err := plantExisting(out, m.PreKind, q.Plant); err != nil {
			return workerResp{Err: "HARNESS: " + err.Error()}
		}
		preBefore = identity(out)
	}
	r := litestream.NewReplicaWithClient(nil, fc)
	opt := litestream.NewRestoreOptions()
	opt.OutputPath = out
	opt.IntegrityCheck = litestream.IntegrityCheckMode(m.Integrity)
	if m.Kind == "preexist" {
		opt.TXID = ltx.TXID(m.TXID)
		if m.TS != 0 {
			opt.Timestamp = time.UnixMilli(m.TS).UTC()
		}
	}
	err := r.Restore(context.Background(), opt)
	resp := workerResp{OK: err == nil, Fired: fc.fired, Log: fc.log}
	if m.Kind == "preexist" {
		resp.PreBefore, resp.PreAfter = preBefore, identity(out)
	}
	if err != nil {
		resp.Err = err.Error()
	}
	return resp
}

func copyTree(src, dst string) error {
	return filepath.Walk(src, func(p string, fi os.FileInfo, err error) error {
		if err != nil {
			return err
		}
		rel, _ := filepath.Rel(src, p)
		t := filepath.Join(dst, rel)
		if fi.IsDir() {
			return os.MkdirAll(t, 0o755)
		}
		b, err := os.ReadFile(p)
		if err != nil {
			return err
		}
		if err := os.WriteFile(t, b, 0o644); err != nil {
			return err
		}
		return os.Chtimes(t, fi.ModTime(), fi.ModTime())
	})
}

// doDiskRestore: physical corruption of a scratch copy of the replica directory, then the real Restore
// over the plain file client (no wrapper).
func doDiskRestore(q workerReq, out string) workerResp {
	m := q.Mut
	fail := func(err error) workerResp { return workerResp{Err: "HARNESS: " + err.Error()} }
	cp := filepath.Join(q.OutDir, "replica-copy")
	if err := copyTree(q.Dir, cp); err != nil {
		return fail(err)
	}
	client := file.NewReplicaClient(cp)
	if m.Kind == "disk-delete-set" {
		for _, f := range m.Files {
			if err := os.Remove(client.LTXFilePath(f.Level, ltx.TXID(f.Min), ltx.TXID(f.Max))); err != nil {
				return fail(err)
			}
		}
		r := litestream.NewReplicaWithClient(nil, client)
		opt := litestream.NewRestoreOptions()
		opt.OutputPath = out
		opt.TXID = ltx.TXID(m.TXID)
		if m.TS != 0 {
			opt.Timestamp = time.UnixMilli(m.TS).UTC()
		}
		rerr := r.Restore(context.Background(), opt)
		resp := workerResp{OK: rerr == nil}
		if rerr != nil {
			resp.Err = rerr.Error()
		}
		return resp
	}
	if m.File >= len(q.Plan) {
		return fail(fmt.Errorf("no plan file %d", m.File))
	}
	pf := q.Plan[m.File]
	path := client.LTXFilePath(pf.Level, ltx.TXID(pf.Min), ltx.TXID(pf.Max))
	var err error
	switch m.Kind {
	case "disk-trunc":
		err = os.Truncate(path, int64(m.Off))
	case "disk-flip":
		var b []byte
		if b, err = os.ReadFile(path); err == nil && m.Off < len(b) {
			b[m.Off] ^= byte(m.Mask)
			err = os.WriteFile(path, b, 0o644)
		}
	case "disk-delete":
		err = os.Remove(path)
	case "disk-dir":
		if err = os.Remove(path); err == nil {
			err = os.Mkdir(path, 0o755)
		}
	default:
		err = fmt.Errorf("unknown disk mutation %q", m.Kind)
	}
	if err != nil {
		return fail(err)
	}
	r := litestream.NewReplicaWithClient(nil, client)
	opt := litestream.NewRestoreOptions()
	opt.OutputPath = out
	opt.IntegrityCheck = litestream.IntegrityCheckMode(m.Integrity)
	rerr := r.Restore(context.Background(), opt)
	resp := workerResp{OK: rerr == nil}
	if rerr != nil {
		resp.Err = rerr.Error()
	}
	return resp
}

// inspect looks at the output directory after Restore returned (or the worker died).
func inspect(m Mut, outDir string, want []byte, resp *workerResp, crash string) restoreObs {
	out := filepath.Join(outDir, "restored.db")
	var o restoreObs
	if resp == nil {
		o = restoreObs{Res: "CRASH", Err: crash}
	} else {
		o = restoreObs{Res: "ok", Fired: resp.Fired, Log: resp.Log, Err: resp.Err, Logical: resp.Logical}
		if !resp.OK {
			o.Res = restoreErrKind(errors.New(resp.Err))
		}
	}
	var got []byte
	rerr := errors.New("not a regular file")
	if fi, err := os.Stat(out); err != nil {
		rerr = err
	} else if fi.Mode().IsRegular() { // never open a FIFO / directory planted at the output path
		got, rerr = os.ReadFile(out)
	}
	switch {
	case rerr != nil && !(m.Kind == "preexist" && m.PreKind != "dangling" && resp != nil && resp.PreBefore != ""):
		o.Out = "absent"
	case m.Kind == "preexist" && m.PreKind != "dangling" && resp != nil && resp.PreBefore != "":
		if resp.PreBefore == resp.PreAfter {
			o.Out = "pre"
		} else {
			o.Out = fmt.Sprintf("WRONG(pre-existing %s changed: before {%s} after {%s})", m.PreKind, resp.PreBefore, resp.PreAfter)
		}
	case m.Kind == "preexist" && m.PreKind == "" && bytes.Equal(got, sentinel):
		o.Out = "pre"
	case want != nil && bytes.Equal(got, want):
		o.Out = "complete"
	default:
		o.Out = fmt.Sprintf("WRONG(%d bytes)", len(got))
	}
	o.Tmp = "absent"
	if exists(out + ".tmp") {
		o.Tmp = "present"
	}
	o.Wal, o.Shm = exists(out+"-wal"), exists(out+"-shm")
	if m.Kind == "stale-tmp" {
		// planted sidecars that are still exactly the planted junk are pre-existing, untouched files
		if b, err := os.ReadFile(out + "-wal"); err == nil && bytes.Equal(b, staleJunk) {
			o.Wal = false
		}
		if b, err := os.ReadFile(out + "-shm"); err == nil && bytes.Equal(b, staleJunk) {
			o.Shm = false
		}
		if rerr == nil && want != nil && !bytes.Equal(got, want) {
			o.Out = fmt.Sprintf("WRONG(%d bytes, reference image has %d)", len(got), len(want))
		}
	}
	return o
}

// restoreOracle: the property's own oracle on what the real Restore did.
func restoreOracle(m Mut, o restoreObs) string {
	if o.Res == "CRASH" {
		return "Restore crashed the process (panic outside the calling goroutine) instead of returning an error; <output>.tmp " + o.Tmp + ": " + firstLine(o.Err)
	}
	if o.Tmp != "absent" {
		return "<output>.tmp left behind after Restore returned (" + o.Res + ")"
	}
	if m.Kind == "preexist" && m.PreKind != "dangling" {
		if o.Res == "ok" {
			return "Restore succeeded although the output path existed (" + m.PreKind + "): " + o.Out
		}
		if o.Out != "pre" {
			return "pre-existing output path was modified: " + o.Out
		}
		return ""
	}
	if m.Kind == "legacy" {
		switch {
		case o.Res == "ok" && m.MustErr != "":
			return "Restore (" + m.Entry + ", legacy layout) returned nil although " + m.MustErr + " (restored state: " + o.Logical + ")"
		case o.Res == "ok":
			for _, w := range strings.Split(o.WantLogical, "\n") {
				if w == o.Logical {
					return ""
				}
			}
			return fmt.Sprintf("Restore (%s, legacy layout) returned nil but the database is not a state the replica encodes after %s of %s: got {%s}, expected {%s}", m.Entry, m.LegacyOp, m.LegacyFile, o.Logical, o.WantLogical)
		case o.Out != "absent":
			return "Restore (" + m.Entry + ", legacy layout) returned an error (" + firstLine(o.Err) + ") and left a file at the output path: " + o.Out
		}
		return ""
	}
	if m.Kind == "cancel" {
		switch {
		case o.Res == "ok" && m.MustErr != "":
			return "Restore returned nil (reporting a passed integrity check) although " + m.MustErr + " (output: " + o.Out + ")"
		case o.Res == "ok" && o.Out != "complete":
			return "Restore returned nil but the output differs from the reference image: " + o.Out
		case o.Res != "ok" && o.Out != "absent" && o.Out != "complete":
			return "Restore returned an error (" + o.Res + ") and left a damaged file at the output path: " + o.Out
		}
		return "" // after an interrupted check the complete output may stay; success must not be reported
	}
	if m.Kind == "foreign-wal" {
		switch {
		case o.Res != "ok":
			return fmt.Sprintf("Restore failed (%s) although the replica is intact: a pre-existing valid <output>-wal (%s) was picked up by the post-restore integrity check", o.Res, m.WalKind)
		case o.Out != "complete":
			return "Restore returned nil but the output file differs from the reference image after a pre-existing <output>-wal (" + m.WalKind + ") was present: " + o.Out
		case o.Logical != o.WantLogical:
			return fmt.Sprintf("Restore returned nil but SQLite opens the restored database with different content: a pre-existing valid <output>-wal (%s) is replayed into it (sees {%s}, replica state is {%s})", m.WalKind, o.Logical, o.WantLogical)
		}
		return ""
	}
	if o.Res == "ok" && m.MustErr != "" {
		return "Restore returned nil although " + m.MustErr + " (output: " + o.Out + ")"
	}
	if o.Res == "ok" {
		if o.Out != "complete" {
			return "Restore returned nil but the output differs from the uncorrupted restore: " + o.Out
		}
		if o.Wal || o.Shm {
			return "Restore returned nil and left -wal/-shm behind"
		}
		return ""
	}
	if o.Out != "absent" {
		return fmt.Sprintf("Restore returned an error (%s) and left a file at the output path: %s", o.Res, o.Out)
	}
	if o.Res == "integrity" && (o.Wal || o.Shm) {
		return "failed integrity check left -wal/-shm behind"
	}
	return ""
}

// interestingOffsets: header, first page header, page-frame boundaries, trailer.
func interestingOffsets(b []byte) []int {
	set := map[int]bool{}
	add := func(o int) {
		if o >= 0 && o < len(b) {
			set[o] = true
		}
	}
	for i := 0; i < 8; i++ {
		add(i)
	}
	for i := ltx.HeaderSize - 4; i < ltx.HeaderSize+ltx.PageHeaderSize+6; i++ {
		add(i)
	}
	for i := len(b) - ltx.TrailerSize - 2; i < len(b); i++ {
		add(i)
	}
	dec := ltx.NewDecoder(bytes.NewReader(b))
	if err := dec.Verify(); err == nil {
		for _, e := range dec.PageIndex() {
			for d := -1; d <= 6; d++ {
				add(int(e.Offset) + d)
			}
			add(int(e.Offset+e.Size) - 1)
			add(int(e.Offset + e.Size))
		}
	}
	// end of page block: a truncation that leaves fewer than ChecksumSize bytes after it
	if end := pageBlockEnd(b); end >= 0 {
		for d := -2; d <= ltx.ChecksumSize+1; d++ {
			add(end + d)
		}
	}
	var a []int
	for o := range set {
		a = append(a, o)
	}
	sort.Ints(a)
	return a
}

func readPlanFile(env *replicaEnv, info *ltx.FileInfo) ([]byte, error) {
	rc, err := env.client.OpenLTXFile(context.Background(), info.Level, info.MinTXID, info.MaxTXID, 0, 0)
	if err != nil {
		return nil, err
	}
	defer rc.Close()
	return io.ReadAll(rc)
}

// pristineRestore restores through the plain file client (txid 0 = latest).
func pristineRestore(env *replicaEnv, outDir string, txid ltx.TXID) ([]byte, error) {
	os.RemoveAll(outDir)
	os.MkdirAll(outDir, 0o755)
	out := filepath.Join(outDir, "pristine.db")
	r := litestream.NewReplicaWithClient(nil, env.client)
	opt := litestream.NewRestoreOptions()
	opt.OutputPath = out
	opt.TXID = txid
	if err := r.Restore(context.Background(), opt); err != nil {
		return nil, err
	}
	return os.ReadFile(out)
}

var errNoPlan = errors.New("no plan")

func calcPlanOn(c litestream.ReplicaClient) ([]*ltx.FileInfo, error) {
	return litestream.CalcRestorePlan(context.Background(), c, 0, zeroTime, quiet)
}

func firstLine(s string) string {
	for _, l := range strings.Split(s, "\n") {
		if strings.HasPrefix(l, "panic:") || strings.HasPrefix(l, "fatal error:") {
			return l
		}
	}
	if i := strings.IndexByte(s, '\n'); i >= 0 {
		return s[:i]
	}
	return s
}

// pageBlockEnd returns the offset just after the page block's zero terminator of a valid LTX file.
func pageBlockEnd(b []byte) int {
	dec := ltx.NewDecoder(bytes.NewReader(b))
	if err := dec.Verify(); err != nil {
		return -1
	}
	end := ltx.HeaderSize
	for _, e := range dec.PageIndex() {
		if x := int(e.Offset + e.Size); x > end {
			end = x
		}
	}
	return end + ltx.PageHeaderSize
}

// sizePrefixHighBytes: offsets of the two most significant bytes of every page frame's size prefix.
func sizePrefixHighBytes(b []byte) map[int]bool {
	m := map[int]bool{}
	dec := ltx.NewDecoder(bytes.NewReader(b))
	if err := dec.Verify(); err == nil {
		for _, e := range dec.PageIndex() {
			m[int(e.Offset)+ltx.PageHeaderSize] = true
			m[int(e.Offset)+ltx.PageHeaderSize+1] = true
		}
	}
	return m
}

// ---- deletions anywhere in the replica (gap after a snapshot, bridged or not) ----

type rfile struct {
	Level    int
	Min, Max int
	Created  int64 // ms
}

func allFiles(c *file.ReplicaClient) ([]rfile, error) {
	var a []rfile
	for lvl := 0; lvl <= litestream.SnapshotLevel; lvl++ {
		itr, err := c.LTXFiles(context.Background(), lvl, 0, false)
		if err != nil {
			return nil, err
		}
		for itr.Next() {
			i := itr.Item()
			a = append(a, rfile{Level: i.Level, Min: int(i.MinTXID), Max: int(i.MaxTXID), Created: i.CreatedAt.UnixMilli()})
		}
		itr.Close()
	}
	return a, nil
}

// reachSet: every TXID at which a chain of the given files starting at TXID 1 can end (brute force,
// independent of the planner): f extends cur iff f.Min <= cur+1 && f.Max > cur.
func reachSet(fs []rfile, ok func(rfile) bool) map[int]bool {
	r := map[int]bool{0: true}
	for changed := true; changed; {
		changed = false
		for _, f := range fs {
			if !ok(f) || r[f.Max] {
				continue
			}
			for cur := range r {
				if f.Min <= cur+1 && f.Max > cur {
					r[f.Max] = true
					changed = true
					break
				}
			}
		}
	}
	return r
}

func maxKey(m map[int]bool) int {
	x := 0
	for k := range m {
		if k > x {
			x = k
		}
	}
	return x
}

// plantExisting puts an object at the output path before Restore is called.
func plantExisting(out, kind, plant string) error {
	switch kind {
	case "":
		return os.WriteFile(out, sentinel, 0o644)
	case "empty":
		return os.WriteFile(out, nil, 0o644)
	case "one":
		return os.WriteFile(out, []byte{0x53}, 0o644)
	case "sqlite":
		b, err := os.ReadFile(plant)
		if err != nil {
			return err
		}
		return os.WriteFile(out, b, 0o644)
	case "dir":
		if err := os.Mkdir(out, 0o755); err != nil {
			return err
		}
		return os.WriteFile(filepath.Join(out, "inside"), sentinel, 0o644)
	case "symlink":
		if err := os.WriteFile(out+".target", nil, 0o644); err != nil { // a fresh, still empty database elsewhere
			return err
		}
		return os.Symlink(out+".target", out)
	case "dangling":
		return os.Symlink(out+".missing", out)
	case "fifo":
		return syscall.Mkfifo(out, 0o644)
	}
	return fmt.Errorf("unknown pre-existing kind %q", kind)
}

// identity describes the object at a path without following symlinks (and the target of a symlink).
func identity(p string) string {
	fi, err := os.Lstat(p)
	if err != nil {
		return "absent"
	}
	ino := uint64(0)
	if st, ok := fi.Sys().(*syscall.Stat_t); ok {
		ino = st.Ino
	}
	d := fmt.Sprintf("ino=%d mode=%v size=%d mtime=%d", ino, fi.Mode(), fi.Size(), fi.ModTime().UnixNano())
	switch {
	case fi.Mode().IsRegular():
		b, _ := os.ReadFile(p)
		h := sha256.Sum256(b)
		d += " sha=" + hex.EncodeToString(h[:6])
	case fi.Mode()&os.ModeSymlink != 0:
		t, _ := os.Readlink(p)
		d += " -> " + t + " [" + identity(t) + "]"
	case fi.IsDir():
		ents, _ := os.ReadDir(p)
		for _, e := range ents {
			d += " " + e.Name()
		}
	}
	return d
}

// logicalDump opens a database file with SQLite (as an application would) and summarises what it sees.
func logicalDump(path string) string {
	d, err := sql.Open("sqlite", path)
	if err != nil {
		return "open error: " + err.Error()
	}
	defer d.Close()
	d.SetMaxOpenConns(1)
	var ic string
	if err := d.QueryRow("PRAGMA integrity_check").Scan(&ic); err != nil {
		return "integrity_check error: " + err.Error()
	}
	rows, err := d.Query("SELECT name FROM sqlite_master ORDER BY name")
	if err != nil {
		return "schema error: " + err.Error()
	}
	var names []string
	for rows.Next() {
		var n string
		rows.Scan(&n)
		names = append(names, n)
	}
	rows.Close()
	h := sha256.New()
	n := 0
	if rows, err = d.Query("SELECT id, hex(v) FROM t ORDER BY id"); err == nil {
		for rows.Next() {
			var id int
			var v string
			rows.Scan(&id, &v)
			fmt.Fprintf(h, "%d=%s;", id, v)
			n++
		}
		rows.Close()
	} else {
		return fmt.Sprintf("integrity=%s schema=%v t: %v", firstLine(ic), names, err)
	}
	return fmt.Sprintf("integrity=%s schema=%v t=%d rows %s", firstLine(ic), names, n, hex.EncodeToString(h.Sum(nil)[:6]))
}

// cancelClient cancels the restore's context once the last plan file has been read to EOF.
type cancelClient struct {
	*file.ReplicaClient
	last   planID
	cancel context.CancelFunc
	delay  time.Duration
	fired  atomic.Bool
}

type eofStream struct {
	io.ReadCloser
	c *cancelClient
}

func (s *eofStream) Read(p []byte) (int, error) {
	n, err := s.ReadCloser.Read(p)
	if err == io.EOF && s.c.fired.CompareAndSwap(false, true) {
		if s.c.delay == 0 {
			s.c.cancel()
		} else {
			time.AfterFunc(s.c.delay, s.c.cancel)
		}
	}
	return n, err
}

func (c *cancelClient) OpenLTXFile(ctx context.Context, level int, minTXID, maxTXID ltx.TXID, offset, size int64) (io.ReadCloser, error) {
	rc, err := c.ReplicaClient.OpenLTXFile(ctx, level, minTXID, maxTXID, offset, size)
	if err != nil || level != c.last.Level || uint64(minTXID) != c.last.Min || uint64(maxTXID) != c.last.Max {
		return rc, err
	}
	return &eofStream{ReadCloser: rc, c: c}, nil
}
