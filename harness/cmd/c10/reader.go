package main

import (
	"context"
	"errors"
	"fmt"
	"io"
	"os"
	"strings"
	"sync"

	"github.com/benbjohnson/litestream"
	"github.com/superfly/ltx"

	"verif/harness/hx"
)

// ---- part (a): the real internal.ResumableReader over a scripted storage client ----

// Dec is one adversary decision (see lean/Litestream/Model/Reader.lean).
type Dec struct {
	Open string `json:"open"` // o | f | x
	N    int    `json:"n"`
	Err  string `json:"err"` // n | e | o
}

type ReaderCase struct {
	Len   int    `json:"len"`  // stored content length
	Size  int    `json:"size"` // info.Size handed to the reader
	RC    bool   `json:"rc"`   // constructed with an open stream (Compactor) or nil (Restore)
	Sched []Dec  `json:"sched"`
	Bufs  []int  `json:"bufs"`
	CSeed uint64 `json:"cseed"` // content bytes
}

func (c ReaderCase) line() string {
	var sb strings.Builder
	rc := 0
	if c.RC {
		rc = 1
	}
	fmt.Fprintf(&sb, "reader LEN=%d SIZE=%d RC=%d S=", c.Len, c.Size, rc)
	for i, d := range c.Sched {
		if i > 0 {
			sb.WriteByte(',')
		}
		fmt.Fprintf(&sb, "%s:%d:%s", d.Open, d.N, d.Err)
	}
	sb.WriteString(" B=")
	for i, b := range c.Bufs {
		if i > 0 {
			sb.WriteByte(',')
		}
		fmt.Fprintf(&sb, "%d", b)
	}
	return sb.String()
}

func (c ReaderCase) content() []byte {
	r := hx.NewRand(c.CSeed)
	b := make([]byte, c.Len)
	for i := range b {
		b[i] = byte(r.Uint64())
	}
	return b
}

var errInjected = errors.New("injected read error")
var errOpenInjected = errors.New("injected open error")

// script is the adversary: shared by the storage client and the streams it hands out.
type script struct {
	mu      sync.Mutex
	content []byte
	sched   []Dec
	opens   int
	fatals  int
	offsets []int64 // offset argument of every OpenLTXFile call
}

func (s *script) pop() (Dec, bool) {
	if len(s.sched) == 0 {
		return Dec{}, false
	}
	d := s.sched[0]
	s.sched = s.sched[1:]
	return d, true
}

type scriptStream struct {
	s   *script
	pos int
}

func (st *scriptStream) Read(p []byte) (int, error) {
	s := st.s
	s.mu.Lock()
	defer s.mu.Unlock()
	rem := len(s.content) - st.pos
	if rem < 0 {
		rem = 0
	}
	d, ok := s.pop()
	if !ok { // honest
		if rem == 0 {
			return 0, io.EOF
		}
		n := min(len(p), rem)
		copy(p, s.content[st.pos:st.pos+n])
		st.pos += n
		return n, nil
	}
	n := min(d.N, min(len(p), rem))
	copy(p, s.content[st.pos:st.pos+n])
	st.pos += n
	switch d.Err {
	case "e":
		return n, io.EOF
	case "o":
		return n, errInjected
	}
	return n, nil
}
func (st *scriptStream) Close() error { return nil }

func (s *script) OpenLTXFile(_ context.Context, _ int, _, _ ltx.TXID, offset, _ int64) (io.ReadCloser, error) {
	s.mu.Lock()
	defer s.mu.Unlock()
	s.opens++
	s.offsets = append(s.offsets, offset)
	d, ok := s.pop()
	if ok {
		switch d.Open {
		case "f":
			return nil, errOpenInjected
		case "x":
			s.fatals++
			return nil, fmt.Errorf("scripted: %w", os.ErrNotExist)
		}
	}
	pos := int(offset)
	if pos > len(s.content) {
		pos = len(s.content)
	}
	return &scriptStream{s: s, pos: pos}, nil
}

type readerObs struct {
	Calls     []string // "<n>:<err>"
	Delivered []byte   // every byte handed out, in order
	FirstEOF  int      // len(Delivered) when the first io.EOF was returned, -1 if none
	Opens     int
	Fatals    int
	Canon     string
}

func errKind(err error) string {
	switch {
	case err == nil:
		return "-"
	case err == io.EOF:
		return "eof"
	case strings.Contains(err.Error(), "max retries exceeded"):
		return "maxretries"
	case strings.Contains(err.Error(), "reopen ltx file"):
		return "openfatal"
	}
	return "other(" + err.Error() + ")"
}

func runReaderImpl(c ReaderCase) readerObs {
	s := &script{content: c.content(), sched: append([]Dec(nil), c.Sched...)}
	var rc io.ReadCloser
	if c.RC {
		rc = &scriptStream{s: s, pos: 0}
	}
	rd := litestream.VerifNewResumableReader(context.Background(), s, 0, 1, 1, int64(c.Size), rc, quiet)
	obs := readerObs{FirstEOF: -1}
	off := 0
	for _, b := range c.Bufs {
		p := make([]byte, b)
		n, err := rd.Read(p)
		obs.Delivered = append(obs.Delivered, p[:n]...)
		off += n
		obs.Calls = append(obs.Calls, fmt.Sprintf("%d:%s", n, errKind(err)))
		if err == io.EOF && obs.FirstEOF < 0 {
			obs.FirstEOF = len(obs.Delivered)
		}
	}
	_ = rd.Close()
	obs.Opens, obs.Fatals = s.opens, s.fatals
	retries := 0 // not observable from outside; the model's value is compared through its consequences only
	_ = retries
	obs.Canon = fmt.Sprintf("calls=%s off=%d opens=%d", strings.Join(obs.Calls, ","), off, obs.Opens)
	return obs
}

// readerOracle is the property stated directly on what the real reader did.
func readerOracle(c ReaderCase, o readerObs) string {
	content := c.content()
	if len(o.Delivered) > len(content) {
		return fmt.Sprintf("delivered %d bytes, more than the %d stored", len(o.Delivered), len(content))
	}
	for i := range o.Delivered {
		if o.Delivered[i] != content[i] {
			return fmt.Sprintf("delivered byte %d differs from stored content (gap/repeat/restart): delivered is not a prefix", i)
		}
	}
	if c.Size > 0 && c.Len <= c.Size && o.FirstEOF >= 0 && o.FirstEOF != len(content) {
		return fmt.Sprintf("io.EOF returned after %d of %d bytes (size %d known): premature EOF passed on as EOF", o.FirstEOF, len(content), c.Size)
	}
	if nonFatal := o.Opens - o.Fatals; nonFatal > 16 {
		return fmt.Sprintf("%d (re)open attempts: retries are not bounded", nonFatal)
	}
	return ""
}

func genReaderCase(r *hx.Rand) ReaderCase {
	c := ReaderCase{CSeed: r.Uint64()}
	switch r.Intn(10) {
	case 0:
		c.Len = r.Intn(4)
	case 1, 2:
		c.Len = 100 + r.Intn(400)
	default:
		c.Len = 1 + r.Intn(64)
	}
	switch r.Intn(10) {
	case 0:
		c.Size = 0
	case 1:
		c.Size = c.Len + 1 + r.Intn(5)
	case 2:
		c.Size = c.Len - r.Intn(min(c.Len, 5)+1)
	default:
		c.Size = c.Len
	}
	c.RC = r.Chance(30)
	maxBuf := 1 + r.Intn(48)
	ns := r.Intn(9)
	if r.Chance(15) {
		ns = 0
	}
	faulty := 20 + r.Intn(60)
	for i := 0; i < ns; i++ {
		d := Dec{Open: "o", N: r.Intn(maxBuf + 2), Err: "n"}
		if r.Chance(faulty) {
			switch r.Intn(5) {
			case 0:
				d.Open = "f"
			case 1:
				if r.Chance(40) {
					d.Open = "x"
				} else {
					d.Err = "e"
				}
			case 2, 3:
				d.Err = "o"
			default:
				d.Err = "e"
			}
			if r.Chance(40) {
				d.N = 0
			}
		}
		c.Sched = append(c.Sched, d)
	}
	nb := (c.Len/maxBuf + 1) + ns + 3
	if nb > 60 {
		nb = 60
	}
	for i := 0; i < nb; i++ {
		b := 1 + r.Intn(maxBuf)
		if r.Chance(3) {
			b = 0
		}
		c.Bufs = append(c.Bufs, b)
	}
	return c
}

// shrinkReader drops schedule entries / buffers while the failure persists.
func shrinkReader(c ReaderCase, fails func(ReaderCase) bool) ReaderCase {
	for changed := true; changed; {
		changed = false
		for i := 0; i < len(c.Sched); i++ {
			d := c
			d.Sched = append(append([]Dec(nil), c.Sched[:i]...), c.Sched[i+1:]...)
			if fails(d) {
				c, changed = d, true
				i--
			}
		}
		for i := len(c.Bufs) - 1; i >= 0 && len(c.Bufs) > 1; i-- {
			d := c
			d.Bufs = append(append([]int(nil), c.Bufs[:i]...), c.Bufs[i+1:]...)
			if fails(d) {
				c, changed = d, true
			}
		}
	}
	return c
}
