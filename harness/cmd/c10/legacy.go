package main

import (
	"bytes"
	"context"
	"database/sql"
	"fmt"
	"os"
	"path/filepath"
	"sort"
	"strings"
	"time"

	"github.com/benbjohnson/litestream"
	"github.com/benbjohnson/litestream/file"
	"github.com/pierrec/lz4/v4"

	"verif/harness/hx"
)

// ---- legacy (v0.3.x) layout: generations/<gen>/snapshots/<idx>.snapshot.lz4, wal/<idx>_<off>.wal.lz4 ----

type legacyFile struct {
	Rel    string // path relative to the replica directory
	Snap   bool
	Index  int
	Offset int
	Size   int // uncompressed
}

type legacyReplica struct {
	dir     string
	files   []legacyFile
	stateAt map[int]string // logical state after the last commit of WAL index i; -1 = the snapshot at index 0
	all     []string       // logical state after every commit
	snapIdx []int
}

func writeLZ4File(path string, data []byte, mt time.Time) error {
	if err := os.MkdirAll(filepath.Dir(path), 0o755); err != nil {
		return err
	}
	var buf bytes.Buffer
	w := lz4.NewWriter(&buf)
	if _, err := w.Write(data); err != nil {
		return err
	}
	if err := w.Close(); err != nil {
		return err
	}
	if err := os.WriteFile(path, buf.Bytes(), 0o644); err != nil {
		return err
	}
	return os.Chtimes(path, mt, mt)
}

func tableState(d *sql.DB) string {
	rows, err := d.Query("SELECT id, v FROM t ORDER BY id")
	if err != nil {
		return "query error: " + err.Error()
	}
	defer rows.Close()
	var sb strings.Builder
	n := 0
	for rows.Next() {
		var id int
		var v string
		rows.Scan(&id, &v)
		fmt.Fprintf(&sb, "%d=%d:%x;", id, len(v), hashBytes([]byte(v)))
		n++
	}
	return fmt.Sprintf("%d rows %x", n, hashBytes([]byte(sb.String())))
}

func hashBytes(b []byte) uint32 {
	h := uint32(2166136261)
	for _, c := range b {
		h = (h ^ uint32(c)) * 16777619
	}
	return h
}

// buildLegacyReplica: one generation, a snapshot at index 0 (and one more at index `snap2` if > 0), nIdx
// WAL files separated by TRUNCATE checkpoints, every WAL cut into 1..2 segments at frame boundaries.
func buildLegacyReplica(root string, seed uint64, nIdx, snap2 int, split bool) (*legacyReplica, error) {
	r := hx.NewRand(seed)
	lr := &legacyReplica{dir: filepath.Join(root, "replica"), stateAt: map[int]string{}}
	os.MkdirAll(root, 0o755)
	src := filepath.Join(root, "src.db")
	d, err := sql.Open("sqlite", src)
	if err != nil {
		return nil, err
	}
	defer d.Close()
	d.SetMaxOpenConns(1)
	for _, q := range []string{"PRAGMA page_size=4096", "PRAGMA journal_mode=wal", "PRAGMA wal_autocheckpoint=0",
		"CREATE TABLE t(id INTEGER PRIMARY KEY, v TEXT)", "INSERT INTO t VALUES(1,'init')", "PRAGMA wal_checkpoint(TRUNCATE)"} {
		if _, err := d.Exec(q); err != nil {
			return nil, fmt.Errorf("%s: %w", q, err)
		}
	}
	gen := fmt.Sprintf("%016x", r.Uint64())
	clock := time.Unix(1700000000, 0).UTC()
	tick := func() time.Time { clock = clock.Add(10 * time.Millisecond); return clock }
	snapshot := func(idx int) error {
		b, err := os.ReadFile(src)
		if err != nil {
			return err
		}
		rel := filepath.Join("generations", gen, "snapshots", fmt.Sprintf("%08x.snapshot.lz4", idx))
		lr.files = append(lr.files, legacyFile{Rel: rel, Snap: true, Index: idx, Size: len(b)})
		lr.snapIdx = append(lr.snapIdx, idx)
		return writeLZ4File(filepath.Join(lr.dir, rel), b, tick())
	}
	lr.stateAt[-1] = tableState(d)
	lr.all = append(lr.all, lr.stateAt[-1])
	if err := snapshot(0); err != nil {
		return nil, err
	}
	next := 2
	const frame = 24 + 4096
	for idx := 0; idx < nIdx; idx++ {
		if snap2 > 0 && idx == snap2 {
			if err := snapshot(idx); err != nil {
				return nil, err
			}
		}
		for k, n := 0, 2+r.Intn(2); k < n; k++ {
			// every transaction inserts a fresh row on fresh pages AND rewrites row 1, so that no later WAL
			// file can make up for a missing earlier one
			if _, err := d.Exec("INSERT INTO t VALUES(?,?)", next, strings.Repeat(string(rune('a'+r.Intn(26))), 500+r.Intn(5000))); err != nil {
				return nil, err
			}
			next++
			lr.all = append(lr.all, tableState(d))
		}
		lr.stateAt[idx] = tableState(d)
		wal, err := os.ReadFile(src + "-wal")
		if err != nil {
			return nil, err
		}
		frames := (len(wal) - 32) / frame
		cuts := []int{len(wal)}
		if split && frames >= 2 {
			cuts = []int{32 + (1+r.Intn(frames-1))*frame, len(wal)}
		}
		off := 0
		for _, c := range cuts {
			rel := filepath.Join("generations", gen, "wal", fmt.Sprintf("%08x_%08x.wal.lz4", idx, off))
			lr.files = append(lr.files, legacyFile{Rel: rel, Index: idx, Offset: off, Size: c - off})
			if err := writeLZ4File(filepath.Join(lr.dir, rel), wal[off:c], tick()); err != nil {
				return nil, err
			}
			off = c
		}
		if _, err := d.Exec("PRAGMA wal_checkpoint(TRUNCATE)"); err != nil {
			return nil, err
		}
	}
	return lr, nil
}

// legacyExpect: what a "latest" restore may do once the files in `gone` are absent, by brute force:
// start at the newest snapshot present, apply WAL indices while they are complete; files beyond the first
// missing/incomplete index mean an unbridgeable gap → an error is required.
func (lr *legacyReplica) legacyExpect(gone map[string]bool) (mustErr string, want string) {
	snap := -1
	for _, f := range lr.files {
		if f.Snap && !gone[f.Rel] && f.Index > snap {
			snap = f.Index
		}
	}
	if snap < 0 {
		return "no snapshot remains", ""
	}
	complete := func(idx int) (present, all bool) {
		all = true
		n := 0
		for _, f := range lr.files {
			if f.Snap || f.Index != idx {
				continue
			}
			n++
			if gone[f.Rel] {
				all = false
			} else {
				present = true
			}
		}
		return present, all && n > 0
	}
	maxIdx := -1
	for _, f := range lr.files {
		if !f.Snap && !gone[f.Rel] && f.Index > maxIdx {
			maxIdx = f.Index
		}
	}
	j := snap
	for {
		_, all := complete(j)
		if !all {
			break
		}
		j++
	}
	// j = first index that is missing or incomplete
	present, _ := complete(j)
	if present && maxIdx > j {
		return fmt.Sprintf("WAL index %d is only partly present (a continuation segment is missing) and index %d follows", j, maxIdx), ""
	}
	if present {
		return "", "" // the tail of the newest index is gone and nothing follows: undetectable, any committed state is acceptable
	}
	if maxIdx > j {
		return fmt.Sprintf("WAL files up to index %d exist beyond the missing index %d that follows the snapshot/chain", maxIdx, j), ""
	}
	return "", lr.stateAt[j-1+0] // state after index j-1 (for j == snap: the state the snapshot holds)
}

func (lr *legacyReplica) stateOfSnapshot(idx int) string { return lr.stateAt[idx-1] }

// doLegacyRestore (worker): copy the replica, damage one file, restore through Restore or RestoreV3.
func doLegacyRestore(q workerReq, out string) workerResp {
	m := q.Mut
	cp := filepath.Join(q.OutDir, "replica-copy")
	if err := copyTree(q.Dir, cp); err != nil {
		return workerResp{Err: "HARNESS: " + err.Error()}
	}
	if m.LegacyFile != "" {
		p := filepath.Join(cp, m.LegacyFile)
		var err error
		switch m.LegacyOp {
		case "delete":
			err = os.Remove(p)
		case "trunc":
			err = os.Truncate(p, int64(m.Off))
		case "flip":
			var b []byte
			if b, err = os.ReadFile(p); err == nil && m.Off < len(b) {
				b[m.Off] ^= byte(m.Mask)
				err = os.WriteFile(p, b, 0o644)
			}
		}
		if err != nil {
			return workerResp{Err: "HARNESS: " + err.Error()}
		}
	}
	client := file.NewReplicaClient(cp)
	r := litestream.NewReplicaWithClient(nil, client)
	opt := litestream.NewRestoreOptions()
	opt.OutputPath = out
	var rerr error
	if m.Entry == "v3" {
		rerr = r.RestoreV3(context.Background(), opt)
	} else {
		rerr = r.Restore(context.Background(), opt)
	}
	resp := workerResp{OK: rerr == nil}
	if rerr != nil {
		resp.Err = rerr.Error()
		return resp
	}
	probe := filepath.Join(q.OutDir, "probe")
	os.MkdirAll(probe, 0o755)
	for _, sfx := range []string{"", "-wal", "-shm"} {
		if b, err := os.ReadFile(out + sfx); err == nil {
			os.WriteFile(filepath.Join(probe, "restored.db"+sfx), b, 0o644)
		}
	}
	d, err := sql.Open("sqlite", filepath.Join(probe, "restored.db"))
	if err != nil {
		resp.Logical = "open error: " + err.Error()
		return resp
	}
	defer d.Close()
	resp.Logical = tableState(d)
	return resp
}

// legacyJobs: delete / truncate / flip every snapshot and WAL segment file in turn, both entry points.
func legacyJobs(lr *legacyReplica, r *hx.Rand, all bool, add func(Mut, func(*restoreJob))) {
	mk := func(m Mut, mustErr, want string, alts []string) {
		m.Kind, m.MustErr = "legacy", mustErr
		add(m, func(j *restoreJob) {
			j.wantLogical = want
			if want == "" && mustErr == "" {
				j.wantLogical = strings.Join(alts, "\n")
			}
			j.want = nil
		})
	}
	full := lr.stateAt[len(lr.stateAt)-2] // newest index
	for _, entry := range []string{"restore", "v3"} {
		mk(Mut{Entry: entry}, "", full, nil)
		files := append([]legacyFile(nil), lr.files...)
		sort.Slice(files, func(i, j int) bool { return files[i].Rel < files[j].Rel })
		for _, f := range files {
			mustErr, want := lr.legacyExpect(map[string]bool{f.Rel: true})
			mk(Mut{Entry: entry, LegacyOp: "delete", LegacyFile: f.Rel}, mustErr, want, lr.all)
			st, err := os.Stat(filepath.Join(lr.dir, f.Rel))
			if err != nil {
				continue
			}
			n := int(st.Size())
			offs := map[int]bool{0: true, 4: true, 7: true, n / 2: true, n - 1: true}
			k := 2
			if all {
				k = 40
			}
			for i := 0; i < k; i++ {
				offs[r.Intn(n)] = true
			}
			for o := range offs {
				if o < 0 || o >= n {
					continue
				}
				// a damaged file is PRESENT: success is only acceptable with the complete replica's latest state
				mk(Mut{Entry: entry, LegacyOp: "trunc", LegacyFile: f.Rel, Off: o}, "", full, nil)
				mk(Mut{Entry: entry, LegacyOp: "flip", LegacyFile: f.Rel, Off: o, Mask: 1 + r.Intn(255)}, "", full, nil)
			}
		}
	}
}
