// Engine c05: real Replica.Sync / syncOnce / sync / DB.SyncAndWait / Compactor.Compact through a
// fault-injecting ReplicaClient over the file client, on real histories (modernc SQLite + litestream),
// vs the Lean upload-loop model, plus the C05 oracle (level-0 contiguity after every call, no false
// acknowledgement, restorable after every step, catch-up after the fault-free suffix).
package main

import (
	"bytes"
	"context"
	"crypto/sha256"
	"database/sql"
	"encoding/hex"
	"encoding/json"
	"errors"
	"fmt"
	"io"
	"log/slog"
	"os"
	"path/filepath"
	"sort"
	"strings"
	"sync"
	"time"

	"github.com/benbjohnson/litestream"
	"github.com/benbjohnson/litestream/file"
	"github.com/superfly/ltx"
	_ "modernc.org/sqlite"

	"verif/harness/hx"
)

var quiet = slog.New(slog.NewTextHandler(io.Discard, &slog.HandlerOptions{Level: slog.LevelError + 10}))
var errInjected = errors.New("injected storage failure")

// ---- fault-injecting client ----

type readFault struct {
	After int    `json:"after"` // bytes delivered (over the whole file) before the stream breaks
	Kind  string `json:"kind"`  // err | eof
}

type faultyClient struct {
	*file.ReplicaClient
	mu      sync.Mutex
	armed   []byte // per upcoming call: o | b | a ; beyond the end: o
	partial int    // 'b' on a write: bytes consumed from the upload reader before failing
	rfaults []readFault
	calls   int
	trace   []string
	fired   map[string]int // retries actually spent per file: stream faults that fired AND failed reopen attempts (each ResumableReader has its own budget)
	inWrite int            // >0 while a WriteLTXFile call is running: OpenLTXFile calls are then a resumable reader's reopen attempts
}

func (c *faultyClient) arm(f string, partial int, rf []readFault) {
	c.mu.Lock()
	c.armed, c.partial, c.rfaults, c.calls = []byte(f), partial, append([]readFault(nil), rf...), 0
	c.fired = map[string]int{}
	c.mu.Unlock()
}

func (c *faultyClient) next(what string) byte {
	c.mu.Lock()
	defer c.mu.Unlock()
	f := byte('o')
	if c.calls < len(c.armed) {
		f = c.armed[c.calls]
	}
	c.calls++
	c.trace = append(c.trace, fmt.Sprintf("call#%d %s fault=%c", c.calls-1, what, f))
	return f
}

func (c *faultyClient) outcome(s string) {
	c.mu.Lock()
	c.trace[len(c.trace)-1] += " -> " + s
	c.mu.Unlock()
}

func (c *faultyClient) LTXFiles(ctx context.Context, level int, seek ltx.TXID, useMetadata bool) (ltx.FileIterator, error) {
	if f := c.next(fmt.Sprintf("list L%d seek=%d", level, seek)); f != 'o' {
		c.outcome("error")
		return nil, errInjected
	}
	itr, err := c.ReplicaClient.LTXFiles(ctx, level, seek, useMetadata)
	c.outcome(fmt.Sprint("err=", err))
	return itr, err
}

func (c *faultyClient) WriteLTXFile(ctx context.Context, level int, minTXID, maxTXID ltx.TXID, rd io.Reader) (*ltx.FileInfo, error) {
	f := c.next(fmt.Sprintf("write L%d %d-%d", level, minTXID, maxTXID))
	c.mu.Lock()
	c.inWrite++
	c.mu.Unlock()
	defer func() { c.mu.Lock(); c.inWrite--; c.mu.Unlock() }()
	switch f {
	case 'b':
		n, _ := io.CopyN(io.Discard, rd, int64(c.partial)) // partially consumed upload
		c.outcome(fmt.Sprintf("error before effect (consumed %d bytes)", n))
		return nil, errInjected
	case 'a':
		info, err := c.ReplicaClient.WriteLTXFile(ctx, level, minTXID, maxTXID, rd)
		if err != nil {
			c.outcome("real error: " + err.Error())
			return nil, err
		}
		_ = info
		c.outcome("written, error returned")
		return nil, errInjected
	}
	info, err := c.ReplicaClient.WriteLTXFile(ctx, level, minTXID, maxTXID, rd)
	c.outcome(fmt.Sprint("err=", err))
	return info, err
}

type faultyStream struct {
	c    *faultyClient
	rc   io.ReadCloser
	pos  int
	name string
	size int // length of the stored file: an injected EOF at or beyond it is the real end, not a retry
}

func (s *faultyStream) Read(p []byte) (int, error) {
	c := s.c
	c.mu.Lock()
	var rf *readFault
	if len(c.rfaults) > 0 {
		rf = &c.rfaults[0]
	}
	c.mu.Unlock()
	if rf != nil {
		room := rf.After - s.pos
		if room <= 0 {
			c.mu.Lock()
			c.rfaults = c.rfaults[1:]
			if !(rf.Kind == "eof" && s.size > 0 && s.pos >= s.size) {
				c.fired[s.name]++
			}
			c.trace = append(c.trace, fmt.Sprintf("  stream fault %s at %d", rf.Kind, s.pos))
			c.mu.Unlock()
			if rf.Kind == "eof" {
				return 0, io.EOF
			}
			return 0, errInjected
		}
		if len(p) > room {
			p = p[:room]
		}
	}
	n, err := s.rc.Read(p)
	s.pos += n
	return n, err
}
func (s *faultyStream) Close() error { return s.rc.Close() }

func (c *faultyClient) OpenLTXFile(ctx context.Context, level int, minTXID, maxTXID ltx.TXID, offset, size int64) (io.ReadCloser, error) {
	if f := c.next(fmt.Sprintf("open L%d %d-%d @%d", level, minTXID, maxTXID, offset)); f != 'o' {
		c.outcome("error")
		c.mu.Lock()
		if c.inWrite > 0 { // a failed reopen costs the reader one retry, exactly like a broken stream
			c.fired[fmt.Sprintf("%d/%d-%d", level, minTXID, maxTXID)]++
		}
		c.mu.Unlock()
		return nil, errInjected
	}
	rc, err := c.ReplicaClient.OpenLTXFile(ctx, level, minTXID, maxTXID, offset, size)
	c.outcome(fmt.Sprint("err=", err))
	if err != nil {
		return nil, err
	}
	fsize := 0
	if fi, err := os.Stat(c.ReplicaClient.LTXFilePath(level, minTXID, maxTXID)); err == nil {
		fsize = int(fi.Size())
	}
	return &faultyStream{c: c, rc: rc, pos: int(offset), name: fmt.Sprintf("%d/%d-%d", level, minTXID, maxTXID), size: fsize}, nil
}

// ---- case ----

type Step struct {
	Op      string      `json:"op"` // commit | rsync | once | syncn | saw | compact | dbcompact | l0retain | restart | l0lost | dataloss | reset | opensync
	Faults  string      `json:"faults,omitempty"`
	Max     int         `json:"max,omitempty"`
	Partial int         `json:"partial,omitempty"`
	RFaults []readFault `json:"rfaults,omitempty"`
	N       int         `json:"n,omitempty"`     // commit: number of statements
	Level   int         `json:"level,omitempty"` // compact: destination level (default 1)
}

type Case struct {
	Seed  uint64 `json:"seed"`
	Steps []Step `json:"steps"`
	// L0RetentionMS > 0: the DB runs with this (short) level-0 retention, so that the dbcompact / l0retain
	// steps really delete compacted level-0 files on the replica and their local copies
	L0RetentionMS int `json:"l0_retention_ms,omitempty"`
}

type env struct {
	root  string
	app   *sql.DB
	db    *litestream.DB
	fc    *faultyClient
	raw   *file.ReplicaClient
	dumps map[ltx.TXID]string
	r     *hx.Rand
	next  int
	// restart support
	dbPath      string
	initPending bool   // a new DB object was opened; DB.init (behind-replica check) runs on its first Sync
	lastRestore string // dump of the last successful restoreCheck
	l0ret       time.Duration
}

func dumpDB(d *sql.DB) (string, error) {
	rows, err := d.Query("SELECT id, hex(v) FROM t ORDER BY id")
	if err != nil {
		return "", err
	}
	defer rows.Close()
	h := sha256.New()
	n := 0
	for rows.Next() {
		var id int
		var v string
		if err := rows.Scan(&id, &v); err != nil {
			return "", err
		}
		fmt.Fprintf(h, "%d=%s;", id, v)
		n++
	}
	return fmt.Sprintf("%d:%s", n, hex.EncodeToString(h.Sum(nil)[:8])), rows.Err()
}

func newEnv(root string, seed uint64, l0ret time.Duration) (*env, error) {
	e := &env{root: root, dumps: map[ltx.TXID]string{}, r: hx.NewRand(seed), next: 1, l0ret: l0ret}
	e.dbPath = filepath.Join(root, "db")
	if err := e.openApp(true); err != nil {
		return nil, err
	}
	e.raw = file.NewReplicaClient(filepath.Join(root, "replica"))
	e.fc = &faultyClient{ReplicaClient: file.NewReplicaClient(filepath.Join(root, "replica"))}
	if err := e.openDB(); err != nil {
		return nil, err
	}
	return e, nil
}

func (e *env) openApp(create bool) error {
	app, err := sql.Open("sqlite", e.dbPath)
	if err != nil {
		return err
	}
	app.SetMaxOpenConns(1)
	qs := []string{"PRAGMA journal_mode=wal", "PRAGMA wal_autocheckpoint=0"}
	if create {
		qs = []string{"PRAGMA page_size=1024", "PRAGMA journal_mode=wal", "PRAGMA wal_autocheckpoint=0", "CREATE TABLE t (id INTEGER PRIMARY KEY, v BLOB)"}
	}
	for _, q := range qs {
		if _, err := app.Exec(q); err != nil {
			return err
		}
	}
	e.app = app
	return nil
}

// openDB creates a new DB object on the same paths (a process restart) and opens it;
// DB.init runs on its first Sync.
func (e *env) openDB() error {
	db := litestream.NewDB(e.dbPath)
	db.MonitorInterval = 0
	db.Logger = quiet
	db.ShutdownSyncTimeout = 0
	db.Replica = litestream.NewReplicaWithClient(db, e.fc)
	db.Replica.MonitorEnabled = false
	if e.l0ret > 0 {
		db.L0Retention = e.l0ret
	}
	if err := db.Open(); err != nil {
		return err
	}
	e.db = db
	e.initPending = true
	return nil
}

// ensureInit runs the pending DB.init fault-free (through an ordinary db.Sync).
func (e *env) ensureInit() error {
	if !e.initPending {
		return nil
	}
	e.fc.arm("", 0, nil)
	if err := e.db.Sync(context.Background()); err != nil {
		return fmt.Errorf("fault-free db.Sync after restart: %w", err)
	}
	e.initPending = false
	return e.recordDump()
}

func (e *env) recordDump() error {
	pos, err := e.db.Pos()
	if err != nil {
		return err
	}
	d, err := dumpDB(e.app)
	if err != nil {
		return err
	}
	if pos.TXID > 0 {
		e.dumps[pos.TXID] = d
	}
	return nil
}

// restart: Close (its final replica sync runs under `faults`), then — depending on `loss` —
// "" nothing is lost; "l0": the local level-0 directory is lost; "all": the database file and its
// meta directory are lost and the database is restored from the replica. New DB object, Open.
func (e *env) restart(loss string, faults string) (string, error) {
	ctx := context.Background()
	l0dir, meta := e.db.LTXLevelDir(0), e.db.MetaPath()
	e.fc.arm(faults, 0, nil)
	_ = e.db.Close(ctx) // a failing final sync is a legitimate outcome of Close under faults
	e.fc.arm("", 0, nil)
	done := loss
	switch loss {
	case "l0":
		if err := os.RemoveAll(l0dir); err != nil {
			return "", err
		}
	case "all":
		if l0, _ := e.remoteL0(); len(l0) == 0 {
			done = "" // nothing to recover from: plain restart
			break
		}
		_ = e.app.Close()
		for _, p := range []string{e.dbPath, e.dbPath + "-wal", e.dbPath + "-shm"} {
			if err := os.Remove(p); err != nil && !os.IsNotExist(err) {
				return "", err
			}
		}
		if err := os.RemoveAll(meta); err != nil {
			return "", err
		}
		r := litestream.NewReplicaWithClient(nil, e.raw)
		opt := litestream.NewRestoreOptions()
		opt.OutputPath = e.dbPath
		if err := r.Restore(ctx, opt); err != nil {
			return "", fmt.Errorf("recover database from replica: %w", err)
		}
		if err := e.openApp(false); err != nil {
			return "", err
		}
	}
	return done, e.openDB()
}

func (e *env) close() {
	e.fc.arm("", 0, nil)
	_ = e.db.Close(context.Background())
	_ = e.app.Close()
}

func (e *env) commit(n int) error {
	tx, err := e.app.Begin()
	if err != nil {
		return err
	}
	for i := 0; i < n; i++ {
		b := make([]byte, 10+e.r.Intn(300))
		for j := range b {
			b[j] = byte(e.r.Uint64())
		}
		if e.r.Chance(25) && e.next > 3 {
			_, err = tx.Exec("UPDATE t SET v=? WHERE id=?", b, 1+e.r.Intn(e.next-1))
		} else {
			_, err = tx.Exec("INSERT INTO t (id, v) VALUES (?, ?)", e.next, b)
			e.next++
		}
		if err != nil {
			tx.Rollback()
			return err
		}
	}
	if err := tx.Commit(); err != nil {
		return err
	}
	e.fc.arm("", 0, nil)
	if err := e.db.Sync(context.Background()); err != nil {
		return fmt.Errorf("db.Sync: %w", err)
	}
	e.initPending = false
	return e.recordDump()
}

func (e *env) remoteL0() ([]int, error) { return listLevel(e.raw, 0) }

// listRanges lists (min,max) of every file of a level.
func listRanges(c *file.ReplicaClient, level int) ([][2]int, error) {
	itr, err := c.LTXFiles(context.Background(), level, 0, false)
	if err != nil {
		return nil, err
	}
	defer itr.Close()
	var a [][2]int
	for itr.Next() {
		a = append(a, [2]int{int(itr.Item().MinTXID), int(itr.Item().MaxTXID)})
	}
	return a, itr.Err()
}

// namesMatchHeaders: every replica file above level 0 must contain exactly the TXID range its name
// (what listings, caches and the planner go by) announces, and each level must be contiguous.
func (e *env) namesMatchHeaders() string {
	for lvl := 1; lvl <= litestream.SnapshotLevel; lvl++ {
		itr, err := e.raw.LTXFiles(context.Background(), lvl, 0, false)
		if err != nil {
			return err.Error()
		}
		var infos []*ltx.FileInfo
		for itr.Next() {
			i := *itr.Item()
			infos = append(infos, &i)
		}
		itr.Close()
		prevMax := ltx.TXID(0)
		for k, info := range infos {
			if lvl < litestream.SnapshotLevel && k > 0 && info.MinTXID != prevMax+1 {
				return fmt.Sprintf("level %d is not contiguous: file %d-%d follows a file ending at %d", lvl, info.MinTXID, info.MaxTXID, prevMax)
			}
			prevMax = info.MaxTXID
			rc, err := e.raw.OpenLTXFile(context.Background(), info.Level, info.MinTXID, info.MaxTXID, 0, 0)
			if err != nil {
				return err.Error()
			}
			dec := ltx.NewDecoder(rc)
			herr := dec.DecodeHeader()
			rc.Close()
			if herr != nil {
				return fmt.Sprintf("file L%d %d-%d: unreadable header: %v", lvl, info.MinTXID, info.MaxTXID, herr)
			}
			if h := dec.Header(); h.MinTXID != info.MinTXID || h.MaxTXID != info.MaxTXID {
				return fmt.Sprintf("file L%d is named %d-%d but its header says %d-%d (content does not cover the announced range)", lvl, info.MinTXID, info.MaxTXID, h.MinTXID, h.MaxTXID)
			}
		}
	}
	return ""
}

func listLevel(c *file.ReplicaClient, level int) ([]int, error) {
	itr, err := c.LTXFiles(context.Background(), level, 0, false)
	if err != nil {
		return nil, err
	}
	defer itr.Close()
	var a []int
	for itr.Next() {
		a = append(a, int(itr.Item().MaxTXID))
	}
	sort.Ints(a)
	return a, itr.Err()
}

func (e *env) localMin() int {
	ents, _ := os.ReadDir(e.db.LTXLevelDir(0))
	m := 0
	for _, en := range ents {
		if min, _, err := ltx.ParseFilename(en.Name()); err == nil && (m == 0 || int(min) < m) {
			m = int(min)
		}
	}
	if m == 0 {
		m = 1
	}
	return m
}

func joinInts(a []int) string {
	s := make([]string, len(a))
	for i, x := range a {
		s[i] = fmt.Sprint(x)
	}
	return strings.Join(s, ",")
}

func syncErrKind(err error) string {
	if err == nil {
		return "ok"
	}
	s := err.Error()
	var le *litestream.LTXError
	switch {
	case strings.Contains(s, "calc pos"):
		return "errList"
	case strings.Contains(s, "write ltx file"):
		return "errWrite"
	case strings.Contains(s, "waiting for data"):
		return "errNoData"
	case errors.As(err, &le) && le.Op == "open":
		return "errLocal"
	}
	return "other(" + s + ")"
}

// restoreCheck: the replica must be restorable to the state of some recorded TXID.
func (e *env) restoreCheck(scratch string) string {
	ctx := context.Background()
	plan, err := litestream.CalcRestorePlan(ctx, e.raw, 0, zeroT, quiet)
	if err != nil {
		if errors.Is(err, litestream.ErrTxNotAvailable) {
			if l0, _ := e.remoteL0(); len(l0) == 0 {
				return "" // nothing replicated yet
			}
		}
		return "replica not restorable: " + err.Error()
	}
	for _, info := range plan { // pre-verify in this goroutine: a corrupt file may panic inside ltx
		if msg := verifyFile(e.raw, info); msg != "" {
			return fmt.Sprintf("replica not restorable: plan file L%d %d-%d is corrupt: %s", info.Level, info.MinTXID, info.MaxTXID, msg)
		}
	}
	out := filepath.Join(scratch, "restored.db")
	for _, p := range []string{out, out + "-wal", out + "-shm", out + ".tmp"} {
		os.Remove(p)
	}
	r := litestream.NewReplicaWithClient(nil, e.raw)
	opt := litestream.NewRestoreOptions()
	opt.OutputPath = out
	if err := r.Restore(ctx, opt); err != nil {
		return "replica not restorable: " + err.Error()
	}
	d, err := sql.Open("sqlite", out)
	if err != nil {
		return "restored database cannot be opened: " + err.Error()
	}
	defer d.Close()
	var ic string
	if err := d.QueryRow("PRAGMA integrity_check").Scan(&ic); err != nil || ic != "ok" {
		return fmt.Sprintf("restored database fails integrity_check: %v %s", err, ic)
	}
	got, err := dumpDB(d)
	if err != nil {
		return "restored database unreadable: " + err.Error()
	}
	t := plan[len(plan)-1].MaxTXID
	want, ok := e.dumps[t]
	if !ok {
		return fmt.Sprintf("restored to TXID %d which is not a recorded commit boundary", t)
	}
	if got != want {
		return fmt.Sprintf("restore at TXID %d differs from the source at that TXID (got %s want %s)", t, got, want)
	}
	e.lastRestore = got
	return ""
}

func verifyFile(c *file.ReplicaClient, info *ltx.FileInfo) (msg string) {
	defer func() {
		if p := recover(); p != nil {
			msg = fmt.Sprint("panic: ", p)
		}
	}()
	rc, err := c.OpenLTXFile(context.Background(), info.Level, info.MinTXID, info.MaxTXID, 0, 0)
	if err != nil {
		return err.Error()
	}
	defer rc.Close()
	b, err := io.ReadAll(rc)
	if err != nil {
		return err.Error()
	}
	if err := ltx.NewDecoder(bytes.NewReader(b)).Verify(); err != nil {
		return err.Error()
	}
	return ""
}

func contiguous(a []int) bool {
	for i := 1; i < len(a); i++ {
		if a[i] != a[i-1]+1 {
			return false
		}
	}
	return true
}

type stepOut struct {
	impl, model, line string
	violation         string
	trace             []string
}

// runCase executes the steps; returns the first violation / disagreement.
func runCase(drv *hx.Driver, c Case, scratch string, res *counter) (viol string, vstep int, disagree string, trace []string) {
	root, err := os.MkdirTemp(scratch, "case-")
	if err != nil {
		hx.Fatal(err)
	}
	defer os.RemoveAll(root)
	e, err := newEnv(root, c.Seed, time.Duration(c.L0RetentionMS)*time.Millisecond)
	if err != nil {
		hx.Fatal(err)
	}
	defer e.close()
	ctx := context.Background()
	vstep = -1
	for si, st := range c.Steps {
		e.fc.mu.Lock()
		e.fc.trace = append(e.fc.trace, fmt.Sprintf("== step %d %+v", si, st))
		e.fc.mu.Unlock()
		var oracle string
		switch st.Op {
		case "commit":
			if err := e.commit(max(1, st.N)); err != nil {
				hx.Fatal(fmt.Errorf("commit: %w", err))
			}
		case "restart", "l0lost", "dataloss":
			loss := map[string]string{"restart": "", "l0lost": "l0", "dataloss": "all"}[st.Op]
			done, err := e.restart(loss, st.Faults)
			if err != nil {
				hx.Fatal(fmt.Errorf("%s: %w", st.Op, err))
			}
			res.Count("restart/" + st.Op + "->" + map[string]string{"": "plain", "l0": "l0-lost", "all": "recovered-from-replica"}[done])
		case "dbcompact", "l0retain":
			// the DB's own maintenance, possibly while an upload fault has left the replica behind:
			// dbcompact = db.Compact(ctx, 1) (compaction from local files + level-0 retention),
			// l0retain = db.EnforceL0RetentionByTime(ctx) alone (what the store's retention monitor calls)
			if err := e.ensureInit(); err != nil {
				hx.Fatal(err)
			}
			time.Sleep(e.l0ret + 2*time.Millisecond) // let every existing file grow older than the retention
			e.fc.arm(st.Faults, st.Partial, nil)
			var merr error
			if st.Op == "dbcompact" {
				_, merr = e.db.Compact(ctx, 1)
				if errors.Is(merr, litestream.ErrNoCompaction) {
					merr = nil
				}
			} else {
				merr = e.db.EnforceL0RetentionByTime(ctx)
			}
			e.fc.arm("", 0, nil)
			l0, _ := e.remoteL0()
			dp, _ := e.db.Pos()
			lag := 0
			if len(l0) == 0 || l0[len(l0)-1] < int(dp.TXID) {
				lag = 1
			}
			res.Count(fmt.Sprintf("%s(replica-behind=%d)->err=%v remoteL0=%d", st.Op, lag, merr != nil, min(len(l0), 3)))
			if msg := e.namesMatchHeaders(); msg != "" && oracle == "" {
				oracle = "after " + st.Op + ": " + msg
			}
		case "reset":
			// run-time reset of the local state on the live DB object (what replica auto-recovery calls):
			// the next DB.Sync must re-establish the baseline from the replica (checkDatabaseBehindReplica)
			if err := e.ensureInit(); err != nil {
				hx.Fatal(err)
			}
			if err := e.db.ResetLocalState(ctx); err != nil {
				hx.Fatal(fmt.Errorf("ResetLocalState: %w", err))
			}
			e.initPending = true
			res.Count("restart/reset-local-state")
		case "opensync":
			// one more transaction, then db.Sync with the fault schedule applying to the client calls of
			// DB.init (behind-replica check: level-0 listing, baseline download)
			before, err := e.remoteL0()
			if err != nil {
				hx.Fatal(err)
			}
			lpos, _ := e.db.Pos()
			pending := e.initPending
			b := make([]byte, 20+e.r.Intn(100))
			for j := range b {
				b[j] = byte(e.r.Uint64())
			}
			if _, err := e.app.Exec("INSERT INTO t (id, v) VALUES (?, ?)", e.next, b); err != nil {
				hx.Fatal(err)
			}
			e.next++
			e.fc.arm(st.Faults, st.Partial, st.RFaults)
			serr := e.db.Sync(ctx)
			calls := e.fc.calls
			e.fc.arm("", 0, nil)
			kind := "ok"
			switch {
			case serr == nil:
			case strings.Contains(serr.Error(), "get replica position"):
				kind = "errList"
			case strings.Contains(serr.Error(), "open remote L0 file"), strings.Contains(serr.Error(), "copy L0 file"):
				kind = "errOpen"
			default:
				kind = "other(" + serr.Error() + ")"
			}
			rebased := 0
			if serr == nil {
				e.initPending = false
				if err := e.recordDump(); err != nil {
					hx.Fatal(err)
				}
				if np, _ := e.db.Pos(); np.TXID != lpos.TXID+1 {
					rebased = 1
				}
			}
			res.Count(fmt.Sprintf("opensync(init-pending=%v)->%s", pending, strings.SplitN(kind, "(", 2)[0]))
			if pending && len(st.RFaults) == 0 {
				line := fmt.Sprintf("init REMOTE=%s DBPOS=%d F=%s", joinInts(before), lpos.TXID, st.Faults)
				impl := fmt.Sprintf("res=%s rebased=%d calls=%d", kind, rebased, calls)
				model, err := ask(drv, line)
				if err != nil {
					hx.Fatal(err)
				}
				if hx.Differs(impl, model) && disagree == "" {
					disagree = fmt.Sprintf("step %d opensync: impl %q model %q [%s] err=%v", si, impl, model, line, serr)
				}
			}
		case "rsync", "once", "syncn", "saw":
			if err := e.ensureInit(); err != nil {
				hx.Fatal(err)
			}
			before, err := e.remoteL0()
			if err != nil {
				hx.Fatal(err)
			}
			dpos, _ := e.db.Pos()
			lo := 1
			if len(before) > 0 {
				lo = before[0]
			}
			cmd, mx := "sync", st.Max
			if st.Op == "once" {
				cmd = "once"
			}
			if st.Op == "rsync" || st.Op == "saw" {
				mx = 0
			}
			line := fmt.Sprintf("%s MAX=%d REMOTE=%s LO=%d POS=%d DBPOS=%d LMIN=%d F=%s", cmd, mx, joinInts(before), lo,
				e.db.Replica.Pos().TXID, dpos.TXID, e.localMin(), st.Faults)
			e.fc.arm(st.Faults, st.Partial, nil)
			var rerr error
			kind := ""
			switch st.Op {
			case "rsync":
				rerr = e.db.Replica.Sync(ctx)
			case "saw":
				rerr = e.db.SyncAndWait(ctx)
				if rerr != nil {
					rerr = errors.Unwrap(rerr)
				}
			case "syncn":
				rerr = e.db.Replica.VerifSync(ctx, st.Max)
			case "once":
				var limited bool
				_, limited, rerr = e.db.Replica.VerifSyncOnce(ctx, st.Max)
				if rerr == nil && limited {
					kind = "limited"
				}
			}
			calls := e.fc.calls
			e.fc.arm("", 0, nil)
			if kind == "" {
				kind = syncErrKind(rerr)
			}
			after, err := e.remoteL0()
			if err != nil {
				hx.Fatal(err)
			}
			impl := fmt.Sprintf("res=%s remote=%s pos=%d calls=%d", kind, joinInts(after), e.db.Replica.Pos().TXID, calls)
			model, err := ask(drv, line)
			if err != nil {
				hx.Fatal(err)
			}
			res.Count("sync/" + st.Op + "->" + strings.SplitN(kind, "(", 2)[0])
			if hx.Differs(impl, model) && disagree == "" {
				disagree = fmt.Sprintf("step %d %s: impl %q model %q [%s]", si, st.Op, impl, model, line)
			}
			// no false acknowledgement
			if kind == "ok" && dpos.TXID > 0 {
				found := false
				for _, t := range after {
					if t == int(dpos.TXID) {
						found = true
					}
				}
				if !found {
					oracle = fmt.Sprintf("%s returned nil but the database's TXID %d is not on the replica (level-0: %s)", st.Op, dpos.TXID, joinInts(after))
				} else if st.Op == "saw" || st.Op == "rsync" {
					if msg := e.restoreCheck(root); msg != "" {
						oracle = st.Op + " acknowledged but " + msg
					} else if plan, _ := litestream.CalcRestorePlan(ctx, e.raw, 0, zeroT, quiet); len(plan) > 0 && plan[len(plan)-1].MaxTXID != dpos.TXID {
						oracle = fmt.Sprintf("%s acknowledged TXID %d but restore yields TXID %d", st.Op, dpos.TXID, plan[len(plan)-1].MaxTXID)
					} else if src, err := dumpDB(e.app); st.Op == "saw" && err == nil && src != e.lastRestore {
						oracle = fmt.Sprintf("%s acknowledged but restore (%s) differs from the source database (%s)", st.Op, e.lastRestore, src)
					}
				}
			}
		case "compact":
			// standalone compactor: no LocalFileOpener, every source file is opened on the REPLICA
			dst := max(1, st.Level)
			dstFiles, _ := listRanges(e.raw, dst)
			srcFiles, _ := listRanges(e.raw, dst-1)
			maxDst := 0
			for _, f := range dstFiles {
				maxDst = max(maxDst, f[1])
			}
			nsrc := 0
			for _, f := range srcFiles {
				if f[0] >= maxDst+1 { // the client's seek filter: MinTXID >= seek
					nsrc++
				}
			}
			l1 := dstFiles
			e.fc.arm(st.Faults, st.Partial, st.RFaults)
			comp := litestream.NewCompactor(e.fc, quiet)
			_, cerr := comp.Compact(ctx, dst)
			// whether every source stream was delivered is decided by the environment: a reader gives up
			// after more than 3 retries really spent on its file — stream faults that fired (faults beyond
			// the file's end never fire) plus reopen attempts that failed (an armed call fault landing on a
			// reopen, i.e. on an OpenLTXFile issued while the write is running)
			reads := 1
			e.fc.mu.Lock()
			for _, n := range e.fc.fired {
				if n > 3 {
					reads = 0
				}
			}
			e.fc.mu.Unlock()
			line := fmt.Sprintf("compact NSRC=%d LOCAL=0 READS=%d F=%s", nsrc, reads, st.Faults)
			e.fc.arm("", 0, nil)
			kind := "ok"
			if errors.Is(cerr, litestream.ErrNoCompaction) {
				kind = "none"
			} else if cerr != nil {
				kind = "err"
			}
			l1b, _ := listRanges(e.raw, dst)
			written := 0
			if len(l1b) > len(l1) {
				written = 1
			}
			impl := fmt.Sprintf("res=%s written=%d", kind, written)
			model, err := ask(drv, line)
			if err != nil {
				hx.Fatal(err)
			}
			if i := strings.Index(model, " calls="); i >= 0 {
				model = model[:i]
			}
			res.Count(fmt.Sprintf("compact(L%d,nsrc=%d)->%s", dst, min(nsrc, 3), kind))
			if msg := e.namesMatchHeaders(); msg != "" && oracle == "" {
				oracle = "after compact: " + msg
			}
			if hx.Differs(impl, model) && disagree == "" {
				disagree = fmt.Sprintf("step %d compact: impl %q model %q [%s] err=%v", si, impl, model, line, cerr)
			}
		}
		// after every step: contiguity + restorable
		l0, err := e.remoteL0()
		if err != nil {
			hx.Fatal(err)
		}
		if oracle == "" && !contiguous(l0) {
			oracle = "level-0 files on the replica are not contiguous: " + joinInts(l0)
		}
		if oracle == "" && st.Op != "commit" {
			if msg := e.restoreCheck(root); msg != "" {
				oracle = "after " + st.Op + ": " + msg
			}
		}
		if oracle != "" {
			return oracle, si, disagree, e.fc.trace
		}
	}
	// fault-free suffix: catch up
	e.fc.arm("", 0, nil)
	if err := e.db.Sync(ctx); err != nil {
		return "fault-free db.Sync fails: " + err.Error(), len(c.Steps), disagree, e.fc.trace
	}
	e.initPending = false
	if err := e.recordDump(); err != nil {
		hx.Fatal(err)
	}
	dpos, _ := e.db.Pos()
	if dpos.TXID > 0 {
		if err := e.db.Replica.Sync(ctx); err != nil {
			return "fault-free Replica.Sync fails: " + err.Error(), len(c.Steps), disagree, e.fc.trace
		}
		if p := e.db.Replica.Pos().TXID; p != dpos.TXID {
			return fmt.Sprintf("after the fault-free sync the replica position is %d, database %d", p, dpos.TXID), len(c.Steps), disagree, e.fc.trace
		}
		if msg := e.restoreCheck(root); msg != "" {
			return "after the fault-free suffix: " + msg, len(c.Steps), disagree, e.fc.trace
		}
		if plan, _ := litestream.CalcRestorePlan(ctx, e.raw, 0, zeroT, quiet); len(plan) == 0 || plan[len(plan)-1].MaxTXID != dpos.TXID {
			return "after the fault-free suffix restore does not reach the database's TXID", len(c.Steps), disagree, e.fc.trace
		}
		if src, err := dumpDB(e.app); err == nil && src != e.lastRestore {
			return fmt.Sprintf("after the fault-free suffix restore (%s) differs from the source database (%s)", e.lastRestore, src), len(c.Steps), disagree, e.fc.trace
		}
	}
	return "", -1, disagree, e.fc.trace
}

func genFaults(r *hx.Rand, n int) string {
	var b []byte
	for i := 0; i < n; i++ {
		switch r.Intn(10) {
		case 0, 1, 2:
			b = append(b, 'b')
		case 3, 4, 5:
			b = append(b, 'a')
		default:
			b = append(b, 'o')
		}
	}
	return strings.TrimRight(string(b), "o")
}

// genCompactCase: directed — replicate a few transactions cleanly, then compact while the downloads
// of the source files break mid-stream, below and beyond the resumable reader's retry budget.
func genCompactCase(r *hx.Rand) Case {
	c := Case{Seed: r.Uint64()}
	for i, n := 0, 2+r.Intn(3); i < n; i++ {
		c.Steps = append(c.Steps, Step{Op: "commit", N: 1 + r.Intn(3)}, Step{Op: "rsync"})
	}
	for round := 0; round < 2; round++ {
		st := Step{Op: "compact"}
		k := 1 + r.Intn(3)
		if r.Chance(60) {
			k = 4 + r.Intn(2)
		}
		at := 100 + r.Intn(250)
		for j := 0; j < k; j++ {
			kind := "err"
			if r.Bool() {
				kind = "eof"
			}
			st.RFaults = append(st.RFaults, readFault{After: at, Kind: kind})
			at += r.Intn(60)
		}
		if r.Chance(20) {
			st.Faults = genFaults(r, 2+r.Intn(4))
		}
		c.Steps = append(c.Steps, st, Step{Op: "commit", N: 1}, Step{Op: "rsync", Faults: genFaults(r, r.Intn(3))})
	}
	return c
}

// genRemoteCompactCase: directed — compactions whose sources are read from the replica with several
// source files (level 2 from several L1 files; level 1 from several L0 files), a fail-before OpenLTXFile
// on one source position (first / middle / last), one-shot or persistent, then a fault-free retry and
// further writes.
func genRemoteCompactCase(r *hx.Rand) Case {
	c := Case{Seed: r.Uint64()}
	clean := func(n int) {
		for i := 0; i < n; i++ {
			c.Steps = append(c.Steps, Step{Op: "commit", N: 1 + r.Intn(2)}, Step{Op: "rsync"})
		}
	}
	openFault := func(nsrc int) string {
		p := []int{0, nsrc / 2, nsrc - 1}[r.Intn(3)]
		f := "oo" + strings.Repeat("o", p)
		if r.Chance(80) {
			return f + "b"
		}
		return f + "a"
	}
	dst := 1
	nsrc := 2 + r.Intn(3)
	if r.Bool() {
		// several L1 files first, then compact them into level 2
		dst = 2
		for i := 0; i < nsrc; i++ {
			clean(1 + r.Intn(2))
			c.Steps = append(c.Steps, Step{Op: "compact", Level: 1})
		}
	} else {
		clean(nsrc)
	}
	reps := 1
	if r.Chance(40) {
		reps = 2 + r.Intn(2) // persistent
	}
	f := openFault(nsrc)
	for i := 0; i < reps; i++ {
		c.Steps = append(c.Steps, Step{Op: "compact", Level: dst, Faults: f})
	}
	c.Steps = append(c.Steps, Step{Op: "compact", Level: dst}) // fault-free retry
	clean(1)
	c.Steps = append(c.Steps, Step{Op: "saw"}, Step{Op: "compact", Level: 1}, Step{Op: "compact", Level: 2, Faults: genFaults(r, r.Intn(5))},
		Step{Op: "commit", N: 1}, Step{Op: "saw"})
	return c
}

// genRetentionCase: directed — short level-0 retention; replicate and compact so that every remote L0 file
// is in L1; then an upload fails (the replica lags behind the local newest file) and the DB's level-0
// retention / compaction runs in that state; then faults stop.
func genRetentionCase(r *hx.Rand) Case {
	c := Case{Seed: r.Uint64(), L0RetentionMS: 1}
	for i, n := 0, 2+r.Intn(3); i < n; i++ {
		c.Steps = append(c.Steps, Step{Op: "commit", N: 1 + r.Intn(2)}, Step{Op: "rsync"})
	}
	c.Steps = append(c.Steps, Step{Op: "dbcompact"})
	for round, n := 0, 1+r.Intn(2); round < n; round++ {
		if r.Chance(50) {
			c.Steps = append(c.Steps, Step{Op: "commit", N: 1}, Step{Op: "rsync"}, Step{Op: "dbcompact"})
		}
		// the outage: one or two transactions whose upload fails (before or after taking effect)
		for k, m := 0, 1+r.Intn(2); k < m; k++ {
			c.Steps = append(c.Steps, Step{Op: "commit", N: 1 + r.Intn(2)},
				Step{Op: []string{"rsync", "saw"}[r.Intn(2)], Faults: []string{"b", "bb", "ob", "a", "oa"}[r.Intn(5)], Partial: r.Intn(300)})
		}
		c.Steps = append(c.Steps, Step{Op: []string{"l0retain", "l0retain", "dbcompact"}[r.Intn(3)], Faults: genFaults(r, r.Intn(2))})
		if r.Chance(50) {
			c.Steps = append(c.Steps, Step{Op: "commit", N: 1}, Step{Op: "saw", Faults: genFaults(r, r.Intn(3))})
		}
	}
	c.Steps = append(c.Steps, Step{Op: "commit", N: 1}, Step{Op: "saw"})
	return c
}

var initFaults = []string{"b", "b", "a", "ob", "oa", "", "bb", "bob"}

// genRecoveryCase: directed — replicate, then restart / lose the local level-0 directory / lose the
// database and recover it from the replica (optionally with a failing final sync), with the fault
// schedule hitting the client calls of DB.init; then acknowledge and keep going.
func genRecoveryCase(r *hx.Rand) Case {
	c := Case{Seed: r.Uint64()}
	for i, n := 0, 2+r.Intn(4); i < n; i++ {
		c.Steps = append(c.Steps, Step{Op: "commit", N: 1 + r.Intn(3)})
		if r.Chance(80) {
			c.Steps = append(c.Steps, Step{Op: "rsync", Faults: genFaults(r, r.Intn(3))})
		}
	}
	for round, n := 0, 1+r.Intn(2); round < n; round++ {
		st := Step{Op: []string{"dataloss", "dataloss", "l0lost", "restart", "reset", "reset"}[r.Intn(6)]}
		if st.Op != "reset" && r.Chance(30) {
			st.Faults = "bbbbbbbb" // the final sync of Close fails: the replica stays behind
		}
		c.Steps = append(c.Steps, st)
		if r.Chance(80) {
			c.Steps = append(c.Steps, Step{Op: "opensync", Faults: initFaults[r.Intn(len(initFaults))]})
		}
		c.Steps = append(c.Steps, Step{Op: "saw", Faults: genFaults(r, r.Intn(3))}, Step{Op: "commit", N: 1 + r.Intn(2)},
			Step{Op: "saw"}, Step{Op: "commit", N: 1}, Step{Op: "rsync", Faults: genFaults(r, r.Intn(3))})
	}
	return c
}

func genCase(r *hx.Rand) Case {
	if r.Chance(25) {
		return genCompactCase(r)
	}
	if r.Chance(35) {
		return genRecoveryCase(r)
	}
	if r.Chance(25) {
		return genRemoteCompactCase(r)
	}
	if r.Chance(30) {
		return genRetentionCase(r)
	}
	c := Case{Seed: r.Uint64()}
	if r.Chance(30) {
		c.L0RetentionMS = 1
	}
	n := 6 + r.Intn(10)
	c.Steps = append(c.Steps, Step{Op: "commit", N: 1 + r.Intn(3)})
	for i := 0; i < n; i++ {
		switch r.Intn(15) {
		case 14:
			c.Steps = append(c.Steps, Step{Op: []string{"dbcompact", "l0retain"}[r.Intn(2)], Faults: genFaults(r, r.Intn(3))})
		case 12:
			c.Steps = append(c.Steps, Step{Op: []string{"restart", "l0lost", "dataloss", "reset"}[r.Intn(4)], Faults: genFaults(r, r.Intn(4))})
			if r.Chance(60) {
				c.Steps = append(c.Steps, Step{Op: "opensync", Faults: initFaults[r.Intn(len(initFaults))]})
			}
		case 13:
			c.Steps = append(c.Steps, Step{Op: "opensync", Faults: genFaults(r, r.Intn(3))})
		case 0, 1, 2, 3:
			c.Steps = append(c.Steps, Step{Op: "commit", N: 1 + r.Intn(3)})
		case 4, 5:
			c.Steps = append(c.Steps, Step{Op: "rsync", Faults: genFaults(r, r.Intn(5)), Partial: r.Intn(400)})
		case 6:
			c.Steps = append(c.Steps, Step{Op: "saw", Faults: genFaults(r, r.Intn(4)), Partial: r.Intn(400)})
		case 7, 8:
			c.Steps = append(c.Steps, Step{Op: "once", Max: r.Intn(3), Faults: genFaults(r, r.Intn(4)), Partial: r.Intn(200)})
		case 9:
			c.Steps = append(c.Steps, Step{Op: "syncn", Max: 1 + r.Intn(2), Faults: genFaults(r, r.Intn(4))})
		default:
			st := Step{Op: "compact", Faults: genFaults(r, r.Intn(6)), Partial: r.Intn(600)}
			if r.Chance(35) {
				k := 1 + r.Intn(2)
				if r.Chance(30) {
					k = 4 + r.Intn(2) // beyond the resumable reader's retry budget
				}
				for j := 0; j < k; j++ {
					kind := "err"
					if r.Bool() {
						kind = "eof"
					}
					st.RFaults = append(st.RFaults, readFault{After: 100 + r.Intn(900), Kind: kind})
				}
			}
			c.Steps = append(c.Steps, st)
		}
	}
	return c
}

var zeroT = litestream.NewRestoreOptions().Timestamp

var drvMu sync.Mutex

func ask(drv *hx.Driver, line string) (string, error) {
	drvMu.Lock()
	defer drvMu.Unlock()
	return drv.Ask(line)
}

// counter collects distribution keys of one case (cases run in parallel; merged afterwards)
type counter struct{ keys []string }

func (c *counter) Count(k string) { c.keys = append(c.keys, k) }

type Payload struct {
	Engine string   `json:"engine"`
	Case   Case     `json:"case"`
	Trace  []string `json:"trace,omitempty"`
	What   string   `json:"what,omitempty"`
}

func sigOf(v string) string {
	switch {
	case strings.Contains(v, "is named"):
		return "C05/name-header-mismatch"
	case strings.Contains(v, "level ") && strings.Contains(v, "is not contiguous"):
		return "C05/level-gap"
	case strings.Contains(v, "not contiguous"):
		return "C05/l0-gap"
	case strings.Contains(v, "returned nil but"):
		return "C05/false-ack"
	case strings.Contains(v, "acknowledged"):
		return "C05/ack-not-restorable"
	case strings.Contains(v, "fault-free"):
		return "C05/no-catch-up"
	case strings.Contains(v, "not restorable") || strings.Contains(v, "restore") || strings.Contains(v, "restored"):
		return "C05/not-restorable"
	}
	return "C05/other"
}

func shrinkCase(drv *hx.Driver, c Case, scratch string, sig string) Case {
	fails := func(x Case) bool {
		v, _, _, _ := runCase(drv, x, scratch, &counter{})
		return v != "" && sigOf(v) == sig
	}
	for changed, rounds := true, 0; changed && rounds < 4; rounds++ {
		changed = false
		for i := len(c.Steps) - 1; i >= 1; i-- {
			d := c
			d.Steps = append(append([]Step(nil), c.Steps[:i]...), c.Steps[i+1:]...)
			if fails(d) {
				c, changed = d, true
			}
		}
	}
	return c
}

type caseOut struct {
	v     string
	vstep int
	dis   string
	trace []string
	cnt   counter
}

func evalCase(res *hx.Result, drv *hx.Driver, c Case, scratch string, shrink bool) bool {
	var o caseOut
	o.v, o.vstep, o.dis, o.trace = runCase(drv, c, scratch, &o.cnt)
	return judgeCase(res, drv, c, o, scratch, shrink)
}

func judgeCase(res *hx.Result, drv *hx.Driver, c Case, o caseOut, scratch string, shrink bool) bool {
	v, vstep, dis, trace := o.v, o.vstep, o.dis, o.trace
	for _, k := range o.cnt.keys {
		res.Count(k)
	}
	b, _ := json.Marshal(c)
	nfault := 0
	for _, s := range c.Steps {
		if strings.ContainsAny(s.Faults, "ab") || len(s.RFaults) > 0 {
			nfault++
		}
	}
	res.Case(string(b), nfault > 0)
	res.Count(fmt.Sprintf("case/faulty-steps=%d", min(nfault, 6)))
	bad := false
	if v != "" {
		bad = true
		sig := sigOf(v)
		mc := c
		if vstep+1 < len(mc.Steps) {
			mc.Steps = mc.Steps[:vstep+1]
		}
		if shrink {
			mc = shrinkCase(drv, mc, scratch, sig)
			v2, _, _, t2 := runCase(drv, mc, scratch, &counter{})
			if v2 != "" {
				v, trace = v2, t2
			}
		}
		res.AddFinding("violation", sig, v, Payload{Engine: "c05", Case: mc, Trace: trace, What: v})
	}
	if dis != "" {
		bad = true
		res.DisagreementsChecked++
		res.AddFinding("disagreement", "C05/sync-model", "replica sync model/impl differ: "+dis, Payload{Engine: "c05", Case: c, Trace: trace, What: dis})
	}
	return bad
}

func loadPayload(path string) (*Payload, error) {
	b, err := os.ReadFile(path)
	if err != nil {
		return nil, err
	}
	var w struct {
		Replay json.RawMessage `json:"replay"`
	}
	if err := json.Unmarshal(b, &w); err != nil {
		return nil, err
	}
	raw := w.Replay
	if len(raw) == 0 {
		raw = b
	}
	var p Payload
	if err := json.Unmarshal(raw, &p); err != nil {
		return nil, err
	}
	if len(p.Case.Steps) == 0 {
		return nil, fmt.Errorf("no case in %s", path)
	}
	return &p, nil
}

func main() {
	o := hx.ParseFlags("C05")
	slog.SetDefault(quiet)
	res := hx.NewResult(o, "c05")
	res.Rule = "a case is a history (commits interleaved with Replica.Sync / syncOnce / sync(max) / SyncAndWait / Compact); non-trivial = at least one step with an injected fault"
	scratch, err := os.MkdirTemp("", "verif-c05-")
	if err != nil {
		hx.Fatal(err)
	}
	defer os.RemoveAll(scratch)
	drv, err := hx.StartDriver(o.Driver)
	if err != nil {
		hx.Fatal(err)
	}
	defer drv.Close()
	if o.Replay != "" {
		p, err := loadPayload(o.Replay)
		if err != nil {
			hx.Fatal(err)
		}
		rr := hx.NewResult(o, "c05-replay")
		if evalCase(rr, drv, p.Case, scratch, false) {
			for _, f := range rr.Findings {
				fmt.Printf("%s %s: %s\n", strings.ToUpper(f.Kind), f.Signature, f.What)
			}
			os.Exit(1)
		}
		fmt.Println("replay: no failure reproduced")
		return
	}
	if o.Corpus != "" {
		files, _ := filepath.Glob(filepath.Join(o.Corpus, "*.json"))
		sort.Strings(files)
		for _, f := range files {
			if p, err := loadPayload(f); err == nil {
				evalCase(res, drv, p.Case, scratch, false)
				res.Count("corpus")
			}
		}
	}
	r := hx.NewRand(o.Seed)
	n := 120
	if o.Tier == "thorough" {
		n = 600
	}
	cases := make([]Case, n)
	for i := range cases {
		cases[i] = genCase(r)
	}
	outs := make([]caseOut, n)
	var wg sync.WaitGroup
	sem := make(chan struct{}, 8)
	for i := range cases {
		wg.Add(1)
		sem <- struct{}{}
		go func(i int) {
			defer wg.Done()
			defer func() { <-sem }()
			o := &outs[i]
			o.v, o.vstep, o.dis, o.trace = runCase(drv, cases[i], scratch, &o.cnt)
		}(i)
	}
	wg.Wait()
	for i, c := range cases {
		judgeCase(res, drv, c, outs[i], scratch, true)
		if i < 3 {
			res.Sample(c)
		}
	}
	res.Notes = append(res.Notes, fmt.Sprintf("driver answered %d lines", drv.N))
	if err := res.Write(o.Out); err != nil {
		hx.Fatal(err)
	}
}
