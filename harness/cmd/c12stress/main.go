// Command c12stress is the child stress binary of property C12 ("Concurrent
// daemon operations are race-free, deadlock-free and keep C01/C02").
//
// One run is one episode: D SQLite databases with live application writers
// are put under ONE litestream.Store; G goroutines each execute K operations
// drawn from the daemon's operation set (sync, checkpoint, snapshot,
// compaction, retention, status queries, enable/disable, register/unregister,
// concurrent registration storms, cancelled contexts). Every call runs under a
// watchdog. Afterwards the C01/C02 restore oracles and the lock / descriptor /
// open-state probes run. The result is one JSON document; the parent engine
// builds this program with and without -race and scans stderr of the race build
// for "WARNING: DATA RACE".
//
// Exit status: 0 when the result was written (even with violations), 3 on a
// harness error.
package main

import (
	"context"
	"database/sql"
	"encoding/json"
	"flag"
	"fmt"
	"github.com/superfly/ltx"
	"io"
	"log/slog"
	"os"
	"path/filepath"
	"runtime"
	"sort"
	"strings"
	"sync"
	"sync/atomic"
	"syscall"
	"time"

	"github.com/benbjohnson/litestream"
	"github.com/benbjohnson/litestream/file"
	_ "modernc.org/sqlite"

	"verif/harness/hx"
)

type options struct {
	Seed        uint64
	Procs       int
	Goroutines  int
	Ops         int
	Writers     int
	DBs         int
	CallTimeout time.Duration
	Out         string
	Schedule    string
	Keep        bool
	Monitors    bool
	Retention   string // auto|on|off
	StopFirst   bool   // stop writers before re-enabling the databases (literal order)
	Discipline  string // api|daemon|strict
	KeepOrphans bool   // do not close orphaned DB objects before the lock/fd probes
	Exclude     string // comma separated operation names never drawn
	NoCancel    bool   // never draw cancelled contexts
	ListReaders int    // goroutines walking store.DBs() like the monitors / status handlers
	ListFail    int    // the first N level-0 listings of every fresh DB object's replica client fail
	LSLog       string // file receiving litestream's debug log
}

type violation struct {
	Kind   string `json:"kind"`
	What   string `json:"what"`
	Detail string `json:"detail"`
}

type result struct {
	Seed          uint64            `json:"seed"`
	Procs         int               `json:"procs"`
	Goroutines    int               `json:"goroutines"`
	OpsTotal      int               `json:"ops_total"`
	CallsStarted  int64             `json:"calls_started"`
	CallsFinished int64             `json:"calls_finished"`
	Distribution  map[string]int    `json:"distribution"`
	Schedule      [][]string        `json:"schedule"`
	Violations    []violation       `json:"violations"`
	Notes         []string          `json:"notes"`
	WallS         float64           `json:"wall_s"`
	Config        map[string]string `json:"config"`        // extension: the effective episode configuration
	ErrorSamples  map[string]int    `json:"error_samples"` // extension: distinct (scrubbed) error texts returned by operations
	Race          bool              `json:"race_build"`    // extension: binary was built with -race
	SlowCalls     []string          `json:"slow_calls"`    // extension: calls that took longer than 0.5 s
}

// harness is the shared state of one episode. Everything below mu is guarded
// by mu; mu is never held across a call into litestream or database/sql.
type harness struct {
	o        options
	start    time.Time
	dir      string
	paths    []string // source database paths
	rdirs    []string // file replica directories
	store    *litestream.Store
	levels   litestream.CompactionLevels
	config   map[string]string
	excluded map[string]bool

	regMu []sync.RWMutex  // per path: regstorm (W) excludes unreg (R); see opRegstorm
	lvlMu [][3]sync.Mutex // per path: L1, L2, snapshot level (see disciplineLock)

	unregInFlight []atomic.Int32 // per path: UnregisterDB calls in progress (marker only)
	listFaults    atomic.Int64   // injected listing failures that were hit
	lastRestore   []string       // per path: part A's restored file when it equalled the source (final goroutine only)
	lastTXID      []ltx.TXID     // per path: the TXID part A restored to (the replica's newest L0 file at that moment)

	started  atomic.Int64
	finished atomic.Int64

	mu         sync.Mutex
	allDBs     []*litestream.DB
	schedule   [][]string
	dist       map[string]int
	errSamples map[string]int
	violations []violation
	notes      []string
	inflight   map[uint64]*inflightCall
	nextCall   uint64
	opsDone    int
	slow       []string
	staleOps   map[*litestream.DB][]string // ops that returned after their object had left the store

	wdStop chan struct{}
	wdDone chan struct{}
}

type inflightCall struct {
	name  string
	gid   int
	since time.Time
}

func fatal(err error) {
	fmt.Fprintln(os.Stderr, "harness error:", err)
	os.Exit(3)
}

func main() {
	var o options
	flag.Uint64Var(&o.Seed, "seed", 1, "seed (the only source of randomness)")
	flag.IntVar(&o.Procs, "procs", runtime.GOMAXPROCS(0), "GOMAXPROCS")
	flag.IntVar(&o.Goroutines, "goroutines", 8, "worker goroutines")
	flag.IntVar(&o.Ops, "ops", 40, "operations per worker goroutine")
	flag.IntVar(&o.Writers, "writers", 1, "application writer goroutines per database")
	flag.IntVar(&o.DBs, "dbs", 2, "source databases in the store")
	flag.DurationVar(&o.CallTimeout, "calltimeout", 60*time.Second, "watchdog bound for any single call")
	flag.StringVar(&o.Out, "out", "", "result json (default stdout)")
	flag.StringVar(&o.Schedule, "schedule", "", "replay: json array of per-goroutine op lists")
	flag.BoolVar(&o.Keep, "keep", false, "keep scratch dir")
	flag.BoolVar(&o.Monitors, "monitors", false, "run db/replica/compaction monitors with short intervals")
	flag.StringVar(&o.Retention, "retention", "auto", "auto|on|off: short snapshot/L0 retention (auto: on when seed%3==0)")
	flag.BoolVar(&o.StopFirst, "stopfirst", false, "stop writers before re-registering/enabling databases for the final oracle")
	flag.StringVar(&o.Discipline, "discipline", "daemon", "api: no harness serialisation; daemon: one compaction per (db,level) and one snapshot per db at a time, as the daemon's monitors guarantee; strict: additionally register/unregister of one path are mutually exclusive")
	flag.BoolVar(&o.KeepOrphans, "keeporphans", false, "do not close orphaned (re-initialised after Close) DB objects before the lock/fd probes, to see what they leak")
	flag.StringVar(&o.LSLog, "lslog", "", "diagnostic: write litestream's debug log to this file")
	flag.IntVar(&o.ListFail, "listfail", 0, "fault: the first N level-0 listings of every fresh DB object's replica client fail (first init fails after the read lock was taken)")
	flag.IntVar(&o.ListReaders, "listreaders", 2, "goroutines that walk store.DBs() (Path/IsOpen/Pos/… on every element) concurrently with the workers")
	flag.BoolVar(&o.NoCancel, "nocancel", false, "never draw cancelled contexts")
	flag.StringVar(&o.Exclude, "exclude", "", "comma separated operation names that are never drawn (e.g. unreg,reg,regstorm,disable,enable)")
	flag.Parse()

	if o.Procs < 1 || o.Goroutines < 0 || o.Ops < 0 || o.Writers < 0 || o.DBs < 1 || o.CallTimeout <= 0 {
		fatal(fmt.Errorf("bad flag value"))
	}
	switch o.Retention {
	case "auto", "on", "off":
	default:
		fatal(fmt.Errorf("bad -retention %q", o.Retention))
	}
	switch o.Discipline {
	case "api", "daemon", "strict":
	default:
		fatal(fmt.Errorf("bad -discipline %q", o.Discipline))
	}
	excluded := map[string]bool{}
	for _, n := range strings.Split(o.Exclude, ",") {
		if n = strings.TrimSpace(n); n == "" {
			continue
		}
		if strings.HasPrefix(n, "chk:") { // one checkpoint mode, e.g. chk:FULL (drawn as PASSIVE instead)
			excluded[n] = true
			continue
		}
		if _, ok := argNames[n]; !ok && !plainNames[n] {
			fatal(fmt.Errorf("bad -exclude: unknown operation %q", n))
		}
		excluded[n] = true
	}
	if len(excluded) >= len(opWeights) {
		fatal(fmt.Errorf("bad -exclude: nothing left to draw"))
	}
	runtime.GOMAXPROCS(o.Procs)
	reexecForRaceExitCode()

	// litestream captures slog.Default() in NewDB/NewStore/NewReplicaClient:
	// silence it first so stderr carries only race reports.
	slog.SetDefault(slog.New(slog.NewTextHandler(io.Discard, &slog.HandlerOptions{Level: slog.LevelError + 100})))
	if o.LSLog != "" { // diagnostic: litestream's own log (debug level) to a file
		if lf, err := os.Create(o.LSLog); err == nil {
			slog.SetDefault(slog.New(slog.NewTextHandler(lf, &slog.HandlerOptions{Level: slog.LevelDebug})))
		}
	}

	h := &harness{
		o: o, start: time.Now(),
		dist: map[string]int{}, errSamples: map[string]int{},
		inflight: map[uint64]*inflightCall{},
		excluded: excluded,
		staleOps: map[*litestream.DB][]string{},
		config:   map[string]string{},
		wdStop:   make(chan struct{}), wdDone: make(chan struct{}),
	}

	var replay [][]string
	if o.Schedule != "" {
		b, err := os.ReadFile(o.Schedule)
		if err != nil {
			fatal(err)
		}
		if err := json.Unmarshal(b, &replay); err != nil {
			// also accept a whole result document
			var doc struct {
				Schedule [][]string `json:"schedule"`
			}
			if err2 := json.Unmarshal(b, &doc); err2 != nil || doc.Schedule == nil {
				fatal(fmt.Errorf("parse schedule: %w", err))
			}
			replay = doc.Schedule
		}
		for _, l := range replay {
			for _, s := range l {
				op, err := parseOp(s)
				if err != nil {
					fatal(err)
				}
				if op.db >= o.DBs {
					fatal(fmt.Errorf("schedule op %q: db index out of range (-dbs %d)", s, o.DBs))
				}
			}
		}
		h.o.Goroutines = len(replay)
	}

	dir, err := os.MkdirTemp("", "c12-")
	if err != nil {
		fatal(err)
	}
	h.dir = dir

	if err := h.run(replay); err != nil {
		h.cleanup()
		fatal(err)
	}
	if err := h.writeResult(); err != nil {
		h.cleanup()
		fatal(err)
	}
	h.cleanup()
}

// reexecForRaceExitCode: a -race binary exits with status 66 at the end when
// the detector has reported a race, overriding our exit status 0. The parent
// reads the reports from stderr, so the process image is replaced once (no
// child process) with GORACE=exitcode=0 unless the caller chose an exitcode.
func reexecForRaceExitCode() {
	if !raceEnabled || strings.Contains(os.Getenv("GORACE"), "exitcode") {
		return
	}
	exe, err := os.Executable()
	if err != nil {
		return
	}
	env := append(os.Environ(), "GORACE="+strings.TrimSpace(os.Getenv("GORACE")+" exitcode=0"))
	_ = syscall.Exec(exe, os.Args, env) // only returns on error: keep going
}

func (h *harness) cleanup() {
	if !h.o.Keep && h.dir != "" {
		_ = os.RemoveAll(h.dir)
	}
}

// ---------------------------------------------------------------------------
// bookkeeping (all under h.mu)

func (h *harness) count(key string) {
	h.mu.Lock()
	h.dist[key]++
	h.mu.Unlock()
}

func (h *harness) note(format string, a ...any) {
	s := fmt.Sprintf(format, a...)
	h.mu.Lock()
	if len(h.notes) < 200 {
		h.notes = append(h.notes, s)
	}
	h.mu.Unlock()
}

func (h *harness) violate(kind, what, detail string) {
	h.mu.Lock()
	if len(h.violations) < 50 {
		h.violations = append(h.violations, violation{Kind: kind, What: what, Detail: detail})
	}
	h.mu.Unlock()
}

func (h *harness) scrub(s string) string {
	s = strings.ReplaceAll(s, h.dir, "$D")
	if len(s) > 220 {
		s = s[:220] + "…"
	}
	return s
}

func (h *harness) sampleErr(base string, err error) {
	k := base + ": " + h.scrub(err.Error())
	h.mu.Lock()
	if _, ok := h.errSamples[k]; ok || len(h.errSamples) < 120 {
		h.errSamples[k]++
	}
	h.mu.Unlock()
}

func (h *harness) trackDB(db *litestream.DB) {
	h.mu.Lock()
	h.allDBs = append(h.allDBs, db)
	h.mu.Unlock()
}

func (h *harness) scheduleSnapshot() [][]string {
	h.mu.Lock()
	defer h.mu.Unlock()
	out := make([][]string, len(h.schedule))
	for i, l := range h.schedule {
		out[i] = append([]string{}, l...)
	}
	return out
}

func (h *harness) writeResult() error {
	h.mu.Lock()
	r := result{
		Seed: h.o.Seed, Procs: h.o.Procs, Goroutines: h.o.Goroutines,
		OpsTotal:      h.opsDone,
		CallsStarted:  h.started.Load(),
		CallsFinished: h.finished.Load(),
		Distribution:  map[string]int{},
		Schedule:      make([][]string, len(h.schedule)),
		Violations:    append([]violation{}, h.violations...),
		Notes:         append([]string{}, h.notes...),
		WallS:         time.Since(h.start).Seconds(),
		Config:        map[string]string{},
		ErrorSamples:  map[string]int{},
		Race:          raceEnabled,
		SlowCalls:     append([]string{}, h.slow...),
	}
	for k, v := range h.dist {
		r.Distribution[k] = v
	}
	for k, v := range h.errSamples {
		r.ErrorSamples[k] = v
	}
	for k, v := range h.config {
		r.Config[k] = v
	}
	for i, l := range h.schedule {
		r.Schedule[i] = append([]string{}, l...)
	}
	h.mu.Unlock()

	b, err := json.MarshalIndent(r, "", " ")
	if err != nil {
		return err
	}
	b = append(b, '\n')
	if h.o.Out == "" {
		_, err = os.Stdout.Write(b)
		return err
	}
	tmp := h.o.Out + ".tmp"
	if err := os.WriteFile(tmp, b, 0o644); err != nil {
		return err
	}
	return os.Rename(tmp, h.o.Out)
}

// ---------------------------------------------------------------------------
// watchdog

func (h *harness) begin(name string, gid int) uint64 {
	h.started.Add(1)
	h.mu.Lock()
	h.nextCall++
	id := h.nextCall
	h.inflight[id] = &inflightCall{name: name, gid: gid, since: time.Now()}
	h.mu.Unlock()
	return id
}

func (h *harness) end(id uint64) {
	h.mu.Lock()
	if c := h.inflight[id]; c != nil {
		if d := time.Since(c.since); d > 500*time.Millisecond && len(h.slow) < 40 {
			h.slow = append(h.slow, fmt.Sprintf("%s g%d %.2fs", c.name, c.gid, d.Seconds()))
		}
	}
	delete(h.inflight, id)
	h.mu.Unlock()
	h.finished.Add(1)
}

// call runs fn on the calling goroutine under the watchdog. A panic inside fn
// is a violation. kindOnHang is the violation kind if the call never returns.
func (h *harness) call(gid int, name string, fn func() error) (err error, panicked bool) {
	id := h.begin(name, gid)
	defer h.end(id)
	defer func() {
		if r := recover(); r != nil {
			panicked = true
			buf := make([]byte, 64<<10)
			buf = buf[:runtime.Stack(buf, false)]
			h.violate("panic", fmt.Sprintf("%s (goroutine %d): %v", name, gid, r), string(buf))
			err = fmt.Errorf("panic: %v", r)
		}
	}()
	return fn(), false
}

func (h *harness) startWatchdog() {
	tick := h.o.CallTimeout / 10
	if tick > 200*time.Millisecond {
		tick = 200 * time.Millisecond
	}
	if tick < time.Millisecond {
		tick = time.Millisecond
	}
	go func() {
		defer close(h.wdDone)
		t := time.NewTicker(tick)
		defer t.Stop()
		for {
			select {
			case <-h.wdStop:
				return
			case <-t.C:
			}
			now := time.Now()
			var hung *inflightCall
			h.mu.Lock()
			for _, c := range h.inflight {
				if now.Sub(c.since) > h.o.CallTimeout && (hung == nil || c.since.Before(hung.since)) {
					cc := *c
					hung = &cc
				}
			}
			h.mu.Unlock()
			if hung != nil {
				h.hang(hung)
			}
		}
	}()
}

func (h *harness) stopWatchdog() {
	close(h.wdStop)
	<-h.wdDone
}

// hang records the deadlock violation, writes the result and exits 0.
func (h *harness) hang(c *inflightCall) {
	dump := goroutineDump(64 << 10)
	kind := "deadlock"
	if c.name == "final:store.Close" {
		kind = "close-hung"
	}
	var others []string
	h.mu.Lock()
	for _, o := range h.inflight {
		others = append(others, fmt.Sprintf("%s(g%d,%.1fs)", o.name, o.gid, time.Since(o.since).Seconds()))
	}
	h.mu.Unlock()
	sort.Strings(others)
	sched, _ := json.Marshal(h.scheduleSnapshot())
	h.violate(kind,
		fmt.Sprintf("%s (goroutine %d) did not return within %s", c.name, c.gid, h.o.CallTimeout),
		"in flight: "+strings.Join(others, " ")+"\nschedule so far: "+string(sched)+"\n\n"+dump)
	if err := h.writeResult(); err != nil {
		fatal(err)
	}
	h.cleanup()
	os.Exit(0)
}

// goroutineDump returns all goroutine stacks, those with litestream frames
// first, truncated to max bytes.
func goroutineDump(max int) string {
	buf := make([]byte, 8<<20)
	buf = buf[:runtime.Stack(buf, true)]
	gs := strings.Split(string(buf), "\n\n")
	sort.SliceStable(gs, func(i, j int) bool {
		return strings.Contains(gs[i], "benbjohnson/litestream") && !strings.Contains(gs[j], "benbjohnson/litestream")
	})
	s := strings.Join(gs, "\n\n")
	if len(s) > max {
		s = s[:max] + "\n…(truncated)"
	}
	return s
}

// ---------------------------------------------------------------------------
// episode

func appDSN(path string) string {
	return "file:" + path + "?_pragma=busy_timeout(5000)&_pragma=journal_mode(wal)&_pragma=wal_autocheckpoint(0)"
}

func (h *harness) newDB(i int) *litestream.DB {
	db := litestream.NewDB(h.paths[i])
	client := file.NewReplicaClient(h.rdirs[i])
	r := litestream.NewReplicaWithClient(db, client)
	client.Replica = r // as cmd/litestream does
	if h.o.ListFail > 0 {
		fc := &faultClient{ReplicaClient: client, hits: &h.listFaults}
		fc.fails.Store(int32(h.o.ListFail))
		r.Client = fc
	}
	db.Replica = r
	db.BusyTimeout = 300 * time.Millisecond // litestream default is 1s; shorter keeps episodes with lock conflicts short
	if h.o.Monitors {
		db.MonitorInterval = 10 * time.Millisecond
		r.MonitorEnabled = true
		r.SyncInterval = 10 * time.Millisecond
	} else {
		db.MonitorInterval = 0
		r.MonitorEnabled = false
	}
	h.trackDB(db)
	return db
}

func (h *harness) run(replay [][]string) error {
	o := h.o
	root := hx.NewRand(o.Seed)
	ctx := context.Background()

	// 1. source databases
	for i := 0; i < o.DBs; i++ {
		p := filepath.Join(h.dir, fmt.Sprintf("db%d.sqlite", i))
		h.paths = append(h.paths, p)
		h.rdirs = append(h.rdirs, filepath.Join(h.dir, fmt.Sprintf("replica%d", i)))
		d, err := sql.Open("sqlite", appDSN(p))
		if err != nil {
			return err
		}
		d.SetMaxOpenConns(1)
		if _, err := d.Exec(`CREATE TABLE t(id integer primary key, v blob)`); err != nil {
			return fmt.Errorf("create: %w", err)
		}
		for k := 0; k < 20; k++ {
			if _, err := d.Exec(`INSERT INTO t(v) VALUES (?)`, fillBlob(root, 100+k*37)); err != nil {
				return fmt.Errorf("seed rows: %w", err)
			}
		}
		if err := d.Close(); err != nil {
			return err
		}
	}
	h.regMu = make([]sync.RWMutex, o.DBs)
	h.lvlMu = make([][3]sync.Mutex, o.DBs)
	h.unregInFlight = make([]atomic.Int32, o.DBs)
	h.lastRestore = make([]string, o.DBs)
	h.lastTXID = make([]ltx.TXID, o.DBs)

	// 2. one store
	retention := o.Retention == "on" || (o.Retention == "auto" && o.Seed%3 == 0)
	if o.Monitors {
		h.levels = litestream.CompactionLevels{{Level: 0}, {Level: 1, Interval: 20 * time.Millisecond}, {Level: 2, Interval: 100 * time.Millisecond}}
	} else {
		h.levels = litestream.CompactionLevels{{Level: 0}, {Level: 1, Interval: 5 * time.Millisecond}, {Level: 2, Interval: 20 * time.Millisecond}}
	}
	var dbs []*litestream.DB
	for i := 0; i < o.DBs; i++ {
		dbs = append(dbs, h.newDB(i))
	}
	store := litestream.NewStore(dbs, h.levels)
	store.CompactionMonitorEnabled = o.Monitors
	store.SnapshotInterval = 50 * time.Millisecond
	if o.Monitors {
		store.SnapshotInterval = 200 * time.Millisecond
		store.L0RetentionCheckInterval = 50 * time.Millisecond
	} else {
		store.L0RetentionCheckInterval = 0 // no background L0 retention goroutine
	}
	if retention {
		store.SnapshotRetention = 150 * time.Millisecond
		store.SetL0Retention(50 * time.Millisecond)
	}
	store.SetShutdownSyncTimeout(2 * time.Second)
	store.SetShutdownSyncInterval(50 * time.Millisecond)
	h.store = store
	h.config["retention"] = fmt.Sprint(retention)
	h.config["monitors"] = fmt.Sprint(o.Monitors)
	h.config["stopfirst"] = fmt.Sprint(o.StopFirst)
	h.config["discipline"] = o.Discipline
	h.config["dbs"] = fmt.Sprint(o.DBs)
	h.config["writers"] = fmt.Sprint(o.Writers)
	h.config["ops"] = fmt.Sprint(o.Ops)
	h.config["calltimeout"] = o.CallTimeout.String()
	h.config["levels"] = fmt.Sprintf("L1=%s L2=%s snapshot=%s", h.levels[1].Interval, h.levels[2].Interval, store.SnapshotInterval)
	h.config["snapshot_retention"] = store.SnapshotRetention.String()
	h.config["l0_retention"] = store.L0Retention.String()
	h.config["replay"] = fmt.Sprint(replay != nil)
	h.config["busy_timeout"] = "300ms"
	h.config["exclude"] = o.Exclude

	h.startWatchdog()
	defer h.stopWatchdog()

	if err, _ := h.call(-1, "setup:store.Open", func() error { return store.Open(ctx) }); err != nil {
		return fmt.Errorf("store open: %w", err)
	}

	// 3. writers
	ws := h.startWriters(root.Fork())

	// 4. workers
	G := h.o.Goroutines
	h.mu.Lock()
	h.schedule = make([][]string, G)
	h.mu.Unlock()
	var wg sync.WaitGroup
	startGate := make(chan struct{})
	for g := 0; g < G; g++ {
		opRand, pertRand := root.Fork(), root.Fork()
		var list []string
		if replay != nil {
			list = replay[g]
		}
		wg.Add(1)
		go func(g int) {
			defer wg.Done()
			<-startGate
			h.worker(g, opRand, pertRand, list, replay != nil)
		}(g)
	}
	// 4b. list readers: what every consumer of Store.DBs() does (compaction / retention / heartbeat monitors,
	// the control socket's list & status handlers): take the list, then walk it WITHOUT the store lock. The list
	// must be a snapshot: no nil entry, no entry changing underfoot, no data race with Register/Unregister.
	stopReaders := make(chan struct{})
	var rwg sync.WaitGroup
	for r := 0; r < h.o.ListReaders; r++ {
		pr := root.Fork()
		rwg.Add(1)
		go func() {
			defer rwg.Done()
			h.dbsReader(ctx, store, pr, stopReaders)
		}()
	}
	close(startGate)
	wg.Wait()
	close(stopReaders)
	rwg.Wait()

	// 6. final phase
	h.final(ctx, ws)
	return nil
}

// dbsReader loops over store.DBs() like the store's monitors and the status handlers do.
func (h *harness) dbsReader(ctx context.Context, store *litestream.Store, r *hx.Rand, stop <-chan struct{}) {
	for {
		select {
		case <-stop:
			return
		default:
		}
		_, panicked := h.call(-1, "reader:DBs", func() error {
			list := store.DBs()
			seen := map[string]int{}
			for i := 0; i < len(list); i++ {
				if r.Chance(50) {
					runtime.Gosched() // the consumers do I/O between elements
				}
				db := list[i]
				if db == nil {
					h.violate("dbs-nil-entry", fmt.Sprintf("store.DBs() returned a list whose element %d of %d is (or became) nil", i, len(list)), "")
					continue
				}
				seen[db.Path()]++
				_ = db.IsOpen()
				_ = db.PageSize()
				_, _ = db.Pos()
				_ = db.SyncDiagnostic()
			}
			for p, n := range seen {
				if n > 1 {
					h.violate("dbs-duplicate-entry", fmt.Sprintf("one walk over store.DBs() met path %s %d times", filepath.Base(p), n), "")
				}
			}
			return nil
		})
		if panicked {
			return
		}
		h.count("reader:DBs")
		time.Sleep(time.Duration(r.Intn(300)) * time.Microsecond)
	}
}

// worker executes K drawn (or the replayed) operations.
func (h *harness) worker(g int, opRand, pertRand *hx.Rand, list []string, replay bool) {
	n := h.o.Ops
	if replay {
		n = len(list)
	}
	for k := 0; k < n; k++ {
		var s string
		if replay {
			s = list[k]
		} else {
			s = h.drawOp(opRand)
		}
		op, err := parseOp(s)
		if err != nil { // cannot happen: drawn ops are well-formed, replayed ones were validated
			h.note("bad op %q: %v", s, err)
			continue
		}
		h.mu.Lock()
		h.schedule[g] = append(h.schedule[g], s)
		h.mu.Unlock()

		h.exec(g, op)

		h.mu.Lock()
		h.opsDone++
		h.mu.Unlock()

		// seeded perturbation between operations
		switch p := pertRand.Intn(6); p {
		case 0, 1, 2, 3:
			for i := 0; i < p; i++ {
				runtime.Gosched()
			}
		case 4:
			time.Sleep(time.Duration(pertRand.Intn(201)) * time.Microsecond)
		}
	}
}
