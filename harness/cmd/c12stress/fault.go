package main

import (
	"context"
	"errors"
	"runtime"
	"strings"
	"sync/atomic"

	"github.com/benbjohnson/litestream"
	"github.com/superfly/ltx"
)

// faultClient wraps a replica client: its first `fails` listings of level 0 return an error — "the remote is
// briefly unreachable at start-up". DB.init lists level 0 (checkDatabaseBehindReplica) AFTER it has taken the
// long-running read transaction, so the first initialisation of the DB object fails on its cleanup path and the
// retry succeeds. What Close must release afterwards is checked by the after-close probes.
type faultClient struct {
	litestream.ReplicaClient
	fails atomic.Int32
	hits  *atomic.Int64
}

// calledFromInit: the listing is the one DB.init makes (checkDatabaseBehindReplica), i.e. after the read
// transaction was taken — other level-0 listings (replica position, compaction) fail harmlessly and would
// only use up the budget.
func calledFromInit() bool {
	pc := make([]uintptr, 24)
	n := runtime.Callers(2, pc)
	frames := runtime.CallersFrames(pc[:n])
	for {
		f, more := frames.Next()
		if strings.HasSuffix(f.Function, ".checkDatabaseBehindReplica") {
			return true
		}
		if !more {
			return false
		}
	}
}

var errRemoteUnreachable = errors.New("injected: remote unreachable (level-0 listing)")

func (c *faultClient) LTXFiles(ctx context.Context, level int, seek ltx.TXID, useMetadata bool) (ltx.FileIterator, error) {
	if level == 0 && c.fails.Load() > 0 && calledFromInit() && c.fails.Add(-1) >= 0 {
		if c.hits != nil {
			c.hits.Add(1)
		}
		return nil, errRemoteUnreachable
	}
	return c.ReplicaClient.LTXFiles(ctx, level, seek, useMetadata)
}
