package main

import (
	"bytes"
	"context"
	"database/sql"
	"encoding/binary"
	"errors"
	"fmt"
	"io"
	"os"
	"path/filepath"
	"runtime"
	"sort"
	"strings"
	"time"

	"github.com/benbjohnson/litestream"
	"github.com/benbjohnson/litestream/file"
	"github.com/superfly/ltx"
)

// final runs step 6 of the episode: quiesce, final sync, oracles A/B, Close, probes C.
func (h *harness) final(ctx context.Context, ws *writerSet) {
	store := h.store
	if n := h.listFaults.Load(); n > 0 {
		h.mu.Lock()
		h.dist["fault/listfail-hit"] = int(n)
		h.mu.Unlock()
	}

	// Default order: bring every path back (registered + enabled + connection
	// initialised) while the writers still hold their connections, then stop
	// the writers. With -stopfirst the writers stop first; then the last
	// application connection may close while litestream is disabled, SQLite
	// checkpoints and deletes the WAL, and the episode additionally contains an
	// "application checkpointed while litestream was down" restart step, which
	// is property C04's scenario (known defects F1/F2), not C12's.
	if h.o.StopFirst {
		h.stopWriters(ws)
	}
	for i, path := range h.paths {
		var db *litestream.DB
		h.call(-1, "final:FindDB", func() error { db = store.FindDB(path); return nil })
		if db == nil {
			fresh := h.newDB(i)
			if err, _ := h.call(-1, "final:RegisterDB", func() error { return store.RegisterDB(fresh) }); err != nil {
				h.note("final RegisterDB(%d): %v", i, h.scrub(err.Error()))
			}
			h.call(-1, "final:FindDB", func() error { db = store.FindDB(path); return nil })
			h.count("final/reregistered")
		}
		if db == nil {
			continue
		}
		var open bool
		h.call(-1, "final:IsOpen", func() error { open = db.IsOpen(); return nil })
		if !open {
			if err, _ := h.call(-1, "final:EnableDB", func() error { return store.EnableDB(ctx, path) }); err != nil {
				h.note("final EnableDB(%d): %v", i, h.scrub(err.Error()))
			}
			h.count("final/reenabled")
		}
		if !h.o.StopFirst {
			if err, _ := h.call(-1, "final:Sync", func() error { return db.Sync(ctx) }); err != nil {
				h.note("final pre-stop Sync(%d): %v", i, h.scrub(err.Error()))
			}
		}
	}
	if !h.o.StopFirst {
		h.stopWriters(ws)
	}

	for i := range h.paths {
		h.oracleDB(ctx, i)
	}

	// Store.Close under the watchdog (a hang is reported as close-hung by hang()).
	if err, _ := h.call(-1, "final:store.Close", func() error { return store.Close(ctx) }); err != nil {
		h.note("store.Close: %v", h.scrub(err.Error()))
	}

	h.partC(ctx)
}

// oracleDB: final SyncAndWait, part A (replica == source), part B (snapshots).
func (h *harness) oracleDB(ctx context.Context, i int) {
	path := h.paths[i]
	var db *litestream.DB
	h.call(-1, "final:FindDB", func() error { db = h.store.FindDB(path); return nil })
	if db == nil {
		h.violate("final-sync-failed", fmt.Sprintf("db%d: path could not be registered again", i), "")
		return
	}

	syncOK := func() bool {
		var last error
		for a := 0; a < 5; a++ {
			err, _ := h.call(-1, "final:SyncAndWait", func() error { return db.SyncAndWait(ctx) })
			if err == nil {
				if a > 0 {
					h.note("db%d: final SyncAndWait needed %d attempts, first errors: %s", i, a+1, h.scrub(last.Error()))
				}
				return true
			}
			last = err
			time.Sleep(20 * time.Millisecond)
		}
		h.violate("final-sync-failed", fmt.Sprintf("db%d: SyncAndWait failed 5 times", i), h.scrub(last.Error()))
		return false
	}

	if syncOK() {
		// Without monitors nothing runs concurrently any more: one attempt.
		// With -monitors the db monitor may checkpoint (sequence bump) between
		// the sync and the copy, so a mismatch is retried after another sync.
		attempts := 1
		if h.o.Monitors {
			attempts = 4
		}
		for a := 0; a < attempts; a++ {
			what, detail := h.partA(ctx, i, db, a)
			if what == "" {
				h.count("oracleA/ok")
				h.lastRestore[i] = filepath.Join(h.dir, fmt.Sprintf("restore-A%d-%d.sqlite", i, a))
				break
			}
			if a == attempts-1 {
				// diagnostic only: does one more sync repair it?
				if err, _ := h.call(-1, "final:SyncAndWait", func() error { return db.SyncAndWait(ctx) }); err == nil {
					w2, _ := h.partA(ctx, i, db, 100+a)
					detail += fmt.Sprintf("\n[diagnostic] after one more SyncAndWait: %q", w2)
				}
				h.violate("restore-mismatch", fmt.Sprintf("db%d: %s", i, what), detail)
				break
			}
			h.count("oracleA/retry")
			time.Sleep(50 * time.Millisecond)
			if !syncOK() {
				break
			}
		}
	}

	h.partB(ctx, i)
}

func copyFile(src, dst string) error {
	in, err := os.Open(src)
	if err != nil {
		return err
	}
	defer in.Close()
	out, err := os.Create(dst)
	if err != nil {
		return err
	}
	if _, err := io.Copy(out, in); err != nil {
		out.Close()
		return err
	}
	return out.Close()
}

type row struct {
	id int64
	v  []byte
}

func readRows(d *sql.DB) ([]row, error) {
	rs, err := d.Query(`SELECT id, v FROM t ORDER BY id`)
	if err != nil {
		return nil, err
	}
	defer rs.Close()
	var out []row
	for rs.Next() {
		var r row
		if err := rs.Scan(&r.id, &r.v); err != nil {
			return nil, err
		}
		out = append(out, r)
	}
	return out, rs.Err()
}

func plainDSN(path string) string { return "file:" + path + "?_pragma=busy_timeout(2000)" }

// Bytes of page 1 that may differ between two images of the same logical
// database. Empirically NONE are needed: a checkpoint copies WAL frames into
// the database file verbatim and litestream restores the same frames verbatim,
// so the header counters (24..27 change counter, 92..95 version-valid-for,
// 96..99 library version) are identical too. The table is kept so that an
// exemption, if ever needed, is explicit and narrow.
var page1Exempt = map[int]bool{}

// comparePages compares two database images page by page.
func comparePages(aPath, bPath string) (string, error) {
	a, err := os.ReadFile(aPath)
	if err != nil {
		return "", err
	}
	b, err := os.ReadFile(bPath)
	if err != nil {
		return "", err
	}
	if bytes.Equal(a, b) {
		return "", nil
	}
	if len(a) < 100 || len(b) < 100 {
		return fmt.Sprintf("sizes %d vs %d (shorter than a header)", len(a), len(b)), nil
	}
	ps := int(binary.BigEndian.Uint16(a[16:18]))
	if ps == 1 {
		ps = 65536
	}
	if ps < 512 {
		return fmt.Sprintf("bad page size %d", ps), nil
	}
	var diff []string
	n := len(a)
	if len(b) < n {
		n = len(b)
	}
	for pg := 0; pg*ps < n; pg++ {
		lo, hi := pg*ps, (pg+1)*ps
		if hi > n {
			hi = n
		}
		if bytes.Equal(a[lo:hi], b[lo:hi]) {
			continue
		}
		if pg == 0 {
			var offs []int
			for k := lo; k < hi; k++ {
				if a[k] != b[k] && !page1Exempt[k] {
					offs = append(offs, k)
				}
			}
			if len(offs) == 0 {
				continue
			}
			if len(offs) > 24 {
				offs = offs[:24]
			}
			diff = append(diff, fmt.Sprintf("1(bytes %v)", offs))
			continue
		}
		if len(diff) < 64 {
			diff = append(diff, fmt.Sprint(pg+1))
		}
	}
	if len(a) == len(b) && len(diff) == 0 {
		return "", nil
	}
	return fmt.Sprintf("sizes %d vs %d bytes, page size %d, differing pages: %s", len(a), len(b), ps, strings.Join(diff, ",")), nil
}

func maxL0TXID(ctx context.Context, c *file.ReplicaClient) (ltx.TXID, error) {
	itr, err := c.LTXFiles(ctx, 0, 0, false)
	if err != nil {
		return 0, err
	}
	defer itr.Close()
	var max ltx.TXID
	for itr.Next() {
		if m := itr.Item().MaxTXID; m > max {
			max = m
		}
	}
	return max, itr.Err()
}

// partA restores the replica and compares it with the source database
// (logical rows + integrity_check + page-for-page against a checkpointed copy
// of the source). Returns "" when equal.
func (h *harness) partA(ctx context.Context, i int, db *litestream.DB, attempt int) (what, detail string) {
	tag := fmt.Sprintf("A%d-%d", i, attempt)
	restored := filepath.Join(h.dir, "restore-"+tag+".sqlite")
	opt := litestream.NewRestoreOptions()
	opt.OutputPath = restored
	// Restore to an explicit TXID (the replica's newest L0 file now): with monitors running litestream keeps
	// producing transactions of its own (the _litestream_seq bump of every time-based checkpoint), so "latest"
	// is a moving target and part A2 must compare the L0 chain at the SAME TXID.
	h.lastTXID[i] = 0
	if max, err := maxL0TXID(ctx, file.NewReplicaClient(h.rdirs[i])); err == nil && max > 0 {
		opt.TXID = max
		h.lastTXID[i] = max
	}
	if err, _ := h.call(-1, "final:Restore", func() error { return db.Replica.Restore(ctx, opt) }); err != nil {
		return "restore failed", h.scrub(err.Error())
	}

	// Copy of the source: database file + WAL (the wal-index is rebuilt by
	// recovery). Nothing writes to the source now (writers stopped, no
	// litestream operation in flight).
	cdir := filepath.Join(h.dir, "copy-"+tag)
	if err := os.MkdirAll(cdir, 0o755); err != nil {
		return "harness: mkdir", err.Error()
	}
	cpath := filepath.Join(cdir, "db.sqlite")
	if err := copyFile(h.paths[i], cpath); err != nil {
		return "harness: copy source", err.Error()
	}
	if err := copyFile(h.paths[i]+"-wal", cpath+"-wal"); err != nil && !os.IsNotExist(err) {
		return "harness: copy source wal", err.Error()
	}
	cd, err := sql.Open("sqlite", plainDSN(cpath))
	if err != nil {
		return "harness: open copy", err.Error()
	}
	cd.SetMaxOpenConns(1)
	srcRows, err := readRows(cd)
	if err != nil {
		cd.Close()
		return "harness: read source copy", err.Error()
	}
	var busy, nlog, nckpt int
	if err := cd.QueryRow(`PRAGMA wal_checkpoint(TRUNCATE)`).Scan(&busy, &nlog, &nckpt); err != nil || busy != 0 {
		cd.Close()
		return "harness: checkpoint copy", fmt.Sprintf("err=%v busy=%d", err, busy)
	}
	if err := cd.Close(); err != nil {
		return "harness: close copy", err.Error()
	}

	pageDiff, err := comparePages(cpath, restored)
	if err != nil {
		return "harness: compare", err.Error()
	}

	rd, err := sql.Open("sqlite", plainDSN(restored))
	if err != nil {
		return "harness: open restored", err.Error()
	}
	rd.SetMaxOpenConns(1)
	defer rd.Close()
	var integ string
	if err := rd.QueryRow(`PRAGMA integrity_check`).Scan(&integ); err != nil {
		return "restored file unreadable", err.Error() + "; " + pageDiff
	}
	if integ != "ok" {
		return "restored file fails integrity_check", integ + "; " + pageDiff
	}
	resRows, err := readRows(rd)
	if err != nil {
		return "restored file: cannot read table t", err.Error() + "; " + pageDiff
	}
	if len(srcRows) != len(resRows) {
		return fmt.Sprintf("row count differs: source %d restored %d", len(srcRows), len(resRows)), pageDiff
	}
	for k := range srcRows {
		if srcRows[k].id != resRows[k].id || !bytes.Equal(srcRows[k].v, resRows[k].v) {
			return fmt.Sprintf("row %d differs: source id=%d len=%d, restored id=%d len=%d", k, srcRows[k].id, len(srcRows[k].v), resRows[k].id, len(resRows[k].v)), pageDiff
		}
	}
	if pageDiff != "" {
		return "rows equal but page images differ", pageDiff
	}
	return "", ""
}

// partB: every snapshot file must contain the database state of its MaxTXID:
// restoring to MaxTXID through the planner (which picks the snapshot) and
// restoring from the L0 files 1..MaxTXID alone must give identical files.
func (h *harness) partB(ctx context.Context, i int) {
	client := file.NewReplicaClient(h.rdirs[i])
	var snaps []*ltx.FileInfo
	if err, _ := h.call(-1, "final:LTXFiles", func() error {
		itr, err := client.LTXFiles(ctx, litestream.SnapshotLevel, 0, false)
		if err != nil {
			return err
		}
		defer itr.Close()
		for itr.Next() {
			info := *itr.Item()
			snaps = append(snaps, &info)
		}
		return itr.Err()
	}); err != nil {
		h.note("db%d: list snapshots: %v", i, h.scrub(err.Error()))
		return
	}
	sort.Slice(snaps, func(a, b int) bool { return snaps[a].MaxTXID < snaps[b].MaxTXID })
	if len(snaps) > 40 {
		h.note("db%d: %d snapshots, checking the first 40", i, len(snaps))
		snaps = snaps[:40]
	}

	// L0-only replica, grown incrementally: before the check of a snapshot it
	// holds exactly the L0 files 1..MaxTXID (hard links / copies).
	l0dir := filepath.Join(h.dir, fmt.Sprintf("l0only-%d", i))
	l0client := file.NewReplicaClient(l0dir)
	var have ltx.TXID // L0 files 1..have are linked
	l0ok := true      // false once an L0 file is missing (retention): later snapshots are skipped too

	for k, s := range snaps {
		h.count("snapcheck")
		outI := filepath.Join(h.dir, fmt.Sprintf("snapI-%d-%d.sqlite", i, k))
		optI := litestream.NewRestoreOptions()
		optI.OutputPath = outI
		optI.TXID = s.MaxTXID
		rI := litestream.NewReplicaWithClient(nil, client)
		if err, _ := h.call(-1, "final:Restore(snapshot)", func() error { return rI.Restore(ctx, optI) }); err != nil {
			h.violate("snapshot-content-mismatch", fmt.Sprintf("db%d: restore to TXID %s through snapshot %s failed", i, s.MaxTXID, ltx.FormatFilename(s.MinTXID, s.MaxTXID)), h.scrub(err.Error()))
			continue
		}

		for l0ok && have < s.MaxTXID {
			t := have + 1
			src := client.LTXFilePath(0, t, t)
			dst := l0client.LTXFilePath(0, t, t)
			if _, err := os.Stat(src); err != nil {
				l0ok = false
				break
			}
			if err := os.MkdirAll(filepath.Dir(dst), 0o755); err != nil {
				l0ok = false
				h.note("harness: %v", err)
				break
			}
			if err := os.Link(src, dst); err != nil {
				if err := copyFile(src, dst); err != nil {
					l0ok = false
					h.note("harness: %v", err)
					break
				}
			}
			have = t
		}
		if !l0ok || have != s.MaxTXID {
			h.count("snapcheck-skipped")
			_ = os.Remove(outI)
			continue
		}

		outII := filepath.Join(h.dir, fmt.Sprintf("snapII-%d-%d.sqlite", i, k))
		optII := litestream.NewRestoreOptions()
		optII.OutputPath = outII
		optII.TXID = s.MaxTXID
		rII := litestream.NewReplicaWithClient(nil, l0client)
		if err, _ := h.call(-1, "final:Restore(L0 only)", func() error { return rII.Restore(ctx, optII) }); err != nil {
			// the L0 chain itself cannot be restored: a replica defect, but not
			// one of the snapshot: reported under the C01 kind.
			h.violate("restore-mismatch", fmt.Sprintf("db%d: restore to TXID %s from L0 files 1..%s alone failed", i, s.MaxTXID, s.MaxTXID), h.scrub(err.Error()))
			// A broken L0 file breaks every longer chain too: report it once.
			l0ok = false
			h.lastRestore[i] = ""
			_ = os.Remove(outI)
			continue
		}
		d, err := comparePages(outII, outI)
		if err != nil {
			h.note("harness: compare: %v", err)
			continue
		}
		if d != "" {
			link := func(upTo ltx.TXID) bool {
				for have < upTo {
					t := have + 1
					src, dst := client.LTXFilePath(0, t, t), l0client.LTXFilePath(0, t, t)
					if os.Link(src, dst) != nil && copyFile(src, dst) != nil {
						return false
					}
					have = t
				}
				return true
			}
			d += h.newerContentDiag(ctx, i, l0client, link, s.MaxTXID, outII, outI)
			h.violate("snapshot-content-mismatch",
				fmt.Sprintf("db%d: snapshot %s differs from the state composed from L0 files 1..%s", i, ltx.FormatFilename(s.MinTXID, s.MaxTXID), s.MaxTXID),
				"(L0-composed vs through-snapshot) "+d)
		} else {
			h.count("snapcheck/ok")
		}
		_ = os.Remove(outI)
		_ = os.Remove(outII)
	}

	// A2: the L0 chain 1..N alone (N = the TXID part A restored to) must restore to
	// the same image as the planner's restore of part A (which equalled the
	// source). Skipped when retention removed L0 files or part A failed.
	if h.lastRestore[i] == "" {
		return
	}
	// the TXID part A restored to (NOT the newest file now: the monitors may have checkpointed and bumped
	// _litestream_seq since then, which is a transaction of its own)
	maxL0 := h.lastTXID[i]
	if maxL0 == 0 {
		h.count("l0chain-skipped")
		return
	}
	for l0ok && have < maxL0 {
		t := have + 1
		src, dst := client.LTXFilePath(0, t, t), l0client.LTXFilePath(0, t, t)
		if _, err := os.Stat(src); err != nil {
			l0ok = false
			break
		}
		if err := os.MkdirAll(filepath.Dir(dst), 0o755); err != nil {
			l0ok = false
			break
		}
		if err := os.Link(src, dst); err != nil {
			if err := copyFile(src, dst); err != nil {
				l0ok = false
				break
			}
		}
		have = t
	}
	if !l0ok || have < maxL0 {
		h.count("l0chain-skipped")
		return
	}
	h.count("l0chain")
	out := filepath.Join(h.dir, fmt.Sprintf("l0chain-%d.sqlite", i))
	opt := litestream.NewRestoreOptions()
	opt.OutputPath = out
	opt.TXID = maxL0
	rr := litestream.NewReplicaWithClient(nil, l0client)
	if err, _ := h.call(-1, "final:Restore(L0 chain)", func() error { return rr.Restore(ctx, opt) }); err != nil {
		h.violate("restore-mismatch", fmt.Sprintf("db%d: restore to the last TXID %s from L0 files 1..%s alone failed", i, maxL0, maxL0), h.scrub(err.Error()))
		return
	}
	if d, err := comparePages(h.lastRestore[i], out); err == nil && d != "" {
		h.violate("restore-mismatch", fmt.Sprintf("db%d: L0 files 1..%s alone restore to a different image than the replica's restore plan (which equals the source)", i, maxL0), "(planner vs L0 chain) "+d)
	} else if err == nil {
		h.count("l0chain/ok")
	}
}

// newerContentDiag explains a snapshot mismatch at TXID t: for every page on
// which the snapshot image differs from the L0-composed state at t it looks for
// the nearest later (t+k) or earlier (t-k) L0-composed state whose page is
// byte-identical to the snapshot's, i.e. from which transaction the snapshot
// took that page.
func (h *harness) newerContentDiag(ctx context.Context, i int, l0client *file.ReplicaClient, link func(ltx.TXID) bool, t ltx.TXID, l0Image, snapImage string) string {
	snap, err1 := os.ReadFile(snapImage)
	base, err2 := os.ReadFile(l0Image)
	if err1 != nil || err2 != nil || len(snap) < 100 {
		return ""
	}
	ps := int(binary.BigEndian.Uint16(snap[16:18]))
	if ps == 1 {
		ps = 65536
	}
	if ps < 512 {
		return ""
	}
	page := func(img []byte, pg int) []byte {
		if (pg+1)*ps > len(img) {
			return nil
		}
		return img[pg*ps : (pg+1)*ps]
	}
	var open []int // pages still unexplained (0-based)
	for pg := 0; pg*ps < len(snap); pg++ {
		if !bytes.Equal(page(snap, pg), page(base, pg)) {
			open = append(open, pg)
		}
	}
	found := map[int]string{}
	try := func(tx ltx.TXID, label string) {
		out := filepath.Join(h.dir, fmt.Sprintf("diag-%d-%d.sqlite", i, tx))
		_ = os.Remove(out)
		opt := litestream.NewRestoreOptions()
		opt.OutputPath = out
		opt.TXID = tx
		rr := litestream.NewReplicaWithClient(nil, l0client)
		if err, _ := h.call(-1, "final:Restore(diag)", func() error { return rr.Restore(ctx, opt) }); err != nil {
			return
		}
		img, err := os.ReadFile(out)
		_ = os.Remove(out)
		if err != nil {
			return
		}
		for _, pg := range open {
			if _, ok := found[pg]; !ok && page(img, pg) != nil && bytes.Equal(page(snap, pg), page(img, pg)) {
				found[pg] = label
			}
		}
	}
	for k := 1; k <= 16 && len(found) < len(open); k++ {
		if link(t + ltx.TXID(k)) {
			try(t+ltx.TXID(k), fmt.Sprintf("TXID+%d", k))
		}
		if ltx.TXID(k) < t {
			try(t-ltx.TXID(k), fmt.Sprintf("TXID-%d", k))
		}
	}
	var parts []string
	for _, pg := range open {
		l, ok := found[pg]
		if !ok {
			l = "no state within +-16"
		}
		parts = append(parts, fmt.Sprintf("page %d = %s", pg+1, l))
		if len(parts) >= 24 {
			break
		}
	}
	return "\n[diagnostic] snapshot page equals the L0-composed state at: " + strings.Join(parts, "; ")
}

// partC runs after Store.Close.
func (h *harness) partC(ctx context.Context) {
	h.mu.Lock()
	all := append([]*litestream.DB{}, h.allDBs...)
	h.mu.Unlock()
	h.mu.Lock()
	h.dist["dbobjects"] = len(all)
	h.mu.Unlock()

	// (c) every DB object ever created is closed. Besides IsOpen() the
	// connection handle is inspected: Sync/Checkpoint do not look at `opened`,
	// so a call that obtained the object before UnregisterDB/DisableDB closed it
	// re-initialises connection, descriptor and read transaction on an object
	// nobody will close again.
	var orphans []*litestream.DB
	for k, db := range all {
		var open bool
		var conn bool
		h.call(-1, "final:IsOpen", func() error { open = db.IsOpen(); conn = db.SQLDB() != nil; return nil })
		if open {
			h.violate("still-open", fmt.Sprintf("DB object #%d (%s) reports IsOpen()==true after Store.Close", k, filepath.Base(db.Path())), "")
		}
		if conn {
			h.violate("still-open", fmt.Sprintf("DB object #%d (%s) is closed (IsOpen()==%v, not in the store) but holds a live SQL connection after Store.Close: re-initialised after its Close", k, filepath.Base(db.Path()), open),
				"DB.Sync/Checkpoint -> newSyncExecutor -> init (db.go) run on a closed object; Store.SyncDB/monitors obtain the object via FindDB/DBs before UnregisterDB closes it. Operations that returned after this object had left the store: "+h.staleFor(db))
		}
		if open || conn {
			orphans = append(orphans, db)
		}
	}
	// Close the orphans ourselves so that the probes below report only leaks
	// that have a different cause.
	if h.o.KeepOrphans {
		orphans = nil
	}
	for _, db := range orphans {
		db := db
		if err, _ := h.call(-1, "final:orphan.Close", func() error { return db.Close(ctx) }); err != nil {
			h.note("orphan close: %v", h.scrub(err.Error()))
		}
	}
	if len(orphans) > 0 {
		h.note("%d orphaned DB objects were closed by the harness before the lock/fd probes", len(orphans))
	}

	// (a) external exclusive-lock probe
	for i, path := range h.paths {
		if err := h.lockProbe(ctx, path); err != nil {
			h.violate("read-lock-leaked", fmt.Sprintf("db%d: exclusive-lock probe failed after Store.Close", i), h.scrub(err.Error()))
		}
	}

	// (b) descriptors: everything the episode touches lives under the scratch
	// dir (sources, -wal/-shm, meta dirs, replica dirs) and all harness
	// connections are closed by now.
	var leaked []string
	scan := func() {
		leaked = leaked[:0]
		ents, err := os.ReadDir("/proc/self/fd")
		if err != nil {
			h.note("fd scan: %v", err)
			return
		}
		for _, e := range ents {
			t, err := os.Readlink(filepath.Join("/proc/self/fd", e.Name()))
			if err != nil {
				continue
			}
			if strings.HasPrefix(t, h.dir+"/") || t == h.dir {
				leaked = append(leaked, e.Name()+" -> "+h.scrub(t))
			}
		}
	}
	for a := 0; a < 5; a++ { // descriptors closed by finishing goroutines settle quickly
		scan()
		if len(leaked) == 0 {
			break
		}
		time.Sleep(20 * time.Millisecond)
	}
	if len(leaked) > 0 {
		sort.Strings(leaked)
		h.violate("fd-leak", fmt.Sprintf("%d descriptors still point into the episode's files after Store.Close", len(leaked)), strings.Join(leaked, "\n"))
	}

	// (d) every call returned
	if s, f := h.started.Load(), h.finished.Load(); s != f {
		h.violate("deadlock", fmt.Sprintf("calls started %d != finished %d", s, f), "")
	}

	// litestream goroutines left behind (note only; not one of the listed kinds)
	var left int
	var dump string
	for a := 0; a < 10; a++ {
		left, dump = litestreamGoroutines()
		if left == 0 {
			break
		}
		time.Sleep(20 * time.Millisecond)
	}
	if left > 0 {
		if len(dump) > 4096 {
			dump = dump[:4096] + "…"
		}
		h.note("goroutine-leak: %d goroutines with litestream frames alive after Store.Close:\n%s", left, dump)
	}
}

func (h *harness) staleFor(db *litestream.DB) string {
	h.mu.Lock()
	defer h.mu.Unlock()
	return strings.Join(h.staleOps[db], " ")
}

func litestreamGoroutines() (int, string) {
	buf := make([]byte, 4<<20)
	buf = buf[:runtime.Stack(buf, true)]
	var out []string
	for _, g := range strings.Split(string(buf), "\n\n") {
		if strings.Contains(g, "github.com/benbjohnson/litestream") {
			out = append(out, g)
		}
	}
	return len(out), strings.Join(out, "\n\n")
}

func (h *harness) lockProbe(ctx context.Context, path string) error {
	d, err := sql.Open("sqlite", plainDSN(path))
	if err != nil {
		return err
	}
	defer d.Close()
	d.SetMaxOpenConns(1)
	var perr error
	h.call(-1, "final:lockprobe", func() error {
		conn, err := d.Conn(ctx)
		if err != nil {
			perr = err
			return nil
		}
		defer conn.Close()
		var mode string
		if err := conn.QueryRowContext(ctx, `PRAGMA locking_mode=EXCLUSIVE`).Scan(&mode); err != nil {
			perr = fmt.Errorf("locking_mode: %w", err)
			return nil
		}
		if _, err := conn.ExecContext(ctx, `BEGIN EXCLUSIVE`); err != nil {
			perr = fmt.Errorf("BEGIN EXCLUSIVE: %w", err)
			return nil
		}
		if _, err := conn.ExecContext(ctx, `COMMIT`); err != nil {
			perr = fmt.Errorf("COMMIT: %w", err)
			return nil
		}
		var busy, nlog, nckpt int
		if err := conn.QueryRowContext(ctx, `PRAGMA wal_checkpoint(TRUNCATE)`).Scan(&busy, &nlog, &nckpt); err != nil {
			perr = fmt.Errorf("wal_checkpoint(TRUNCATE): %w", err)
			return nil
		}
		if busy != 0 {
			perr = errors.New("wal_checkpoint(TRUNCATE) reported busy=1")
		}
		return nil
	})
	return perr
}
