package main

import (
	"context"
	"database/sql"
	"errors"
	"fmt"
	"strconv"
	"strings"
	"sync"
	"sync/atomic"
	"time"

	"github.com/benbjohnson/litestream"

	"verif/harness/hx"
)

// op is one parsed schedule entry: name[:arg]:db[@pre|@<n>us]
//
//	sync:0  rsync:1  syncwait:0  chk:PASSIVE:1  snap:0  compact:9:1  snapret:0
//	l0ret:0  q:pos:1  storesync:w:0  disable:1  enable:1  unreg:0  reg:0
//	regstorm:4:0      suffix @pre = context already cancelled,
//	                  suffix @1500us = context cancelled 1500µs after the call starts
type op struct {
	str     string
	name    string
	arg     string
	db      int
	ctxMode int // 0 live, 1 already cancelled, 2 cancelled after ctxDelay
	ctxWait time.Duration
}

var argNames = map[string][]string{
	"chk":       {"PASSIVE", "FULL", "RESTART", "TRUNCATE"},
	"compact":   {"1", "2", "9"},
	"q":         {"pos", "rpos", "status", "pagesize", "isopen", "diag", "dbs", "find", "maxltx0", "maxltx1", "maxltx2", "maxltx9"},
	"storesync": {"w", "n"},
	"regstorm":  {"3", "4", "5"},
}

var plainNames = map[string]bool{
	"sync": true, "rsync": true, "syncwait": true, "snap": true, "snapret": true, "l0ret": true,
	"disable": true, "enable": true, "unreg": true, "reg": true,
}

func parseOp(s string) (op, error) {
	o := op{str: s}
	body := s
	if i := strings.IndexByte(s, '@'); i >= 0 {
		body = s[:i]
		c := s[i+1:]
		switch {
		case c == "pre":
			o.ctxMode = 1
		case strings.HasSuffix(c, "us"):
			n, err := strconv.Atoi(strings.TrimSuffix(c, "us"))
			if err != nil || n < 0 {
				return o, fmt.Errorf("bad op %q: context suffix", s)
			}
			o.ctxMode, o.ctxWait = 2, time.Duration(n)*time.Microsecond
		default:
			return o, fmt.Errorf("bad op %q: context suffix", s)
		}
	}
	f := strings.Split(body, ":")
	if len(f) < 2 || len(f) > 3 {
		return o, fmt.Errorf("bad op %q", s)
	}
	o.name = f[0]
	db, err := strconv.Atoi(f[len(f)-1])
	if err != nil || db < 0 {
		return o, fmt.Errorf("bad op %q: db index", s)
	}
	o.db = db
	if args, ok := argNames[o.name]; ok {
		if len(f) == 2 && o.name == "regstorm" {
			o.arg = "4"
			return o, nil
		}
		if len(f) != 3 {
			return o, fmt.Errorf("bad op %q: argument required", s)
		}
		o.arg = f[1]
		for _, a := range args {
			if a == o.arg {
				return o, nil
			}
		}
		return o, fmt.Errorf("bad op %q: unknown argument", s)
	}
	if !plainNames[o.name] || len(f) != 2 {
		return o, fmt.Errorf("bad op %q: unknown operation", s)
	}
	return o, nil
}

// base is the distribution key: the operation without db index and context.
func (o op) base() string {
	if o.arg != "" && o.name != "regstorm" {
		return o.name + ":" + o.arg
	}
	return o.name
}

type weighted struct {
	name string
	w    int
}

var opWeights = []weighted{
	{"sync", 10}, {"rsync", 8}, {"syncwait", 6}, {"chk", 10}, {"snap", 4},
	{"compact", 11}, {"snapret", 3}, {"l0ret", 3}, {"q", 12}, {"storesync", 5},
	{"disable", 3}, {"enable", 5}, {"unreg", 2}, {"reg", 7}, {"regstorm", 2},
}

// drawOp draws one operation string; every choice comes from r.
func (h *harness) drawOp(r *hx.Rand) string {
	total := 0
	for _, w := range opWeights {
		if !h.excluded[w.name] {
			total += w.w
		}
	}
	x := r.Intn(total)
	name := ""
	for _, w := range opWeights {
		if h.excluded[w.name] {
			continue
		}
		if x < w.w {
			name = w.name
			break
		}
		x -= w.w
	}
	s := name
	if args, ok := argNames[name]; ok {
		a := args[r.Intn(len(args))]
		if name == "compact" { // level 1 most often
			a = []string{"1", "1", "1", "2", "2", "9", "9"}[r.Intn(7)]
		}
		s += ":" + a
	}
	if name == "chk" && h.excluded[s] { // e.g. -exclude chk:FULL
		s = "chk:PASSIVE"
	}
	s += ":" + strconv.Itoa(r.Intn(h.o.DBs))
	// cancelled contexts (not meaningful for ops without a context)
	if name != "reg" && name != "regstorm" && !h.o.NoCancel && r.Chance(15) {
		if r.Bool() {
			s += "@pre"
		} else {
			s += "@" + strconv.Itoa(r.Intn(5001)) + "us"
		}
	}
	return s
}

func (h *harness) opCtx(o op) (context.Context, func()) {
	switch o.ctxMode {
	case 1:
		ctx, cancel := context.WithCancel(context.Background())
		cancel()
		return ctx, func() {}
	case 2:
		ctx, cancel := context.WithCancel(context.Background())
		t := time.AfterFunc(o.ctxWait, cancel)
		return ctx, func() { t.Stop(); cancel() }
	}
	return context.Background(), func() {}
}

var errNoDB = errors.New("harness: path not registered")

// exec performs one operation. Errors are expected and only counted.
func (h *harness) exec(g int, o op) {
	base := o.base()
	h.count(base)
	if o.ctxMode != 0 {
		h.count(base + "/ctx")
	}
	ctx, cancel := h.opCtx(o)
	defer cancel()

	path := h.paths[o.db]
	store := h.store
	withDB := func(f func(db *litestream.DB) error) func() error {
		return func() error {
			db := store.FindDB(path)
			if db == nil {
				return errNoDB
			}
			err := f(db)
			// Evidence for orphaned objects: the object was replaced or
			// unregistered while (or before) the operation ran on it.
			if store.FindDB(path) != db {
				h.mu.Lock()
				h.dist["stale/"+base]++
				if len(h.staleOps[db]) < 8 {
					h.staleOps[db] = append(h.staleOps[db], fmt.Sprintf("%s(g%d,err=%v)", o.str, g, err != nil))
				}
				h.mu.Unlock()
			}
			return err
		}
	}

	if mu := h.disciplineLock(o); mu != nil {
		mu.Lock()
		defer mu.Unlock()
	}

	var fn func() error
	switch o.name {
	case "sync":
		fn = withDB(func(db *litestream.DB) error { return db.Sync(ctx) })
	case "rsync":
		fn = withDB(func(db *litestream.DB) error { return db.Replica.Sync(ctx) })
	case "syncwait":
		fn = withDB(func(db *litestream.DB) error { return db.SyncAndWait(ctx) })
	case "chk":
		fn = withDB(func(db *litestream.DB) error { return db.Checkpoint(ctx, o.arg) })
	case "snap":
		fn = withDB(func(db *litestream.DB) error { _, err := db.Snapshot(ctx); return err })
	case "compact":
		var lvl *litestream.CompactionLevel
		switch o.arg {
		case "1":
			lvl = h.levels[1]
		case "2":
			lvl = h.levels[2]
		default:
			lvl = store.SnapshotLevel()
		}
		fn = withDB(func(db *litestream.DB) error { _, err := store.CompactDB(ctx, db, lvl); return err })
	case "snapret":
		fn = withDB(func(db *litestream.DB) error { return store.EnforceSnapshotRetention(ctx, db) })
	case "l0ret":
		fn = withDB(func(db *litestream.DB) error { return db.EnforceL0RetentionByTime(ctx) })
	case "q":
		fn = h.queryOp(ctx, o, path)
	case "storesync":
		fn = func() error { _, err := store.SyncDB(ctx, path, o.arg == "w"); return err }
	case "disable":
		fn = func() error { return store.DisableDB(ctx, path) }
	case "enable":
		fn = func() error { return store.EnableDB(ctx, path) }
	case "unreg":
		// regstorm's "exactly one" check must not race with an unregister of
		// the same path; every other operation stays fully concurrent.
		if h.o.Discipline == "strict" {
			h.regMu[o.db].Lock()
			defer h.regMu[o.db].Unlock()
		} else {
			h.regMu[o.db].RLock()
			defer h.regMu[o.db].RUnlock()
		}
		fn = func() error {
			h.unregInFlight[o.db].Add(1)
			defer h.unregInFlight[o.db].Add(-1)
			return store.UnregisterDB(ctx, path)
		}
	case "reg":
		if h.o.Discipline == "strict" {
			h.regMu[o.db].Lock()
			defer h.regMu[o.db].Unlock()
		}
		fn = func() error {
			// Marker for the result: UnregisterDB removes the old object from
			// the store before its Close has finished, so a RegisterDB of the
			// same path that runs meanwhile brings up a second live DB object
			// on the same meta directory and replica.
			fresh := h.newDB(o.db)
			pre := h.unregInFlight[o.db].Load()
			err := store.RegisterDB(fresh)
			if post := h.unregInFlight[o.db].Load(); (pre > 0 || post > 0) && store.FindDB(path) == fresh {
				h.count("overlap/reg-while-unreg-closing")
			}
			return err
		}
	case "regstorm":
		h.opRegstorm(g, o)
		return
	}

	err, panicked := h.call(g, o.str, fn)
	switch {
	case panicked:
		h.count(base + "/panic")
	case errors.Is(err, errNoDB):
		h.count(base + "/nodb")
	case err != nil:
		h.count(base + "/err")
		h.sampleErr(base, err)
	}
}

// disciplineLock returns the harness lock that reproduces the serialisation
// the daemon has by construction (-discipline daemon|strict): every compaction
// level, and the snapshot level with its retention, is driven by ONE monitor
// goroutine (Store.monitorCompactionLevel), so two compactions into the same
// level of a database, or two snapshots of it, never overlap in the daemon.
// With -discipline api nothing is serialised.
func (h *harness) disciplineLock(o op) *sync.Mutex {
	if h.o.Discipline == "api" {
		return nil
	}
	switch {
	case o.name == "compact" && o.arg == "1":
		return &h.lvlMu[o.db][0]
	case o.name == "compact" && o.arg == "2":
		return &h.lvlMu[o.db][1]
	case o.name == "snap", o.name == "snapret", o.name == "compact" && o.arg == "9":
		return &h.lvlMu[o.db][2]
	}
	return nil
}

func (h *harness) queryOp(ctx context.Context, o op, path string) func() error {
	store := h.store
	return func() error {
		switch o.arg {
		case "dbs":
			_ = store.DBs()
			return nil
		case "find":
			_ = store.FindDB(path)
			return nil
		}
		db := store.FindDB(path)
		if db == nil {
			return errNoDB
		}
		switch o.arg {
		case "pos":
			_, err := db.Pos()
			return err
		case "rpos":
			_ = db.Replica.Pos()
		case "status":
			_, err := db.SyncStatus(ctx)
			return err
		case "pagesize":
			_ = db.PageSize()
		case "isopen":
			_ = db.IsOpen()
		case "diag":
			_ = db.SyncDiagnostic()
		case "maxltx0":
			_, err := db.MaxLTXFileInfo(ctx, 0)
			return err
		case "maxltx1":
			_, err := db.MaxLTXFileInfo(ctx, 1)
			return err
		case "maxltx2":
			_, err := db.MaxLTXFileInfo(ctx, 2)
			return err
		case "maxltx9":
			_, err := db.MaxLTXFileInfo(ctx, litestream.SnapshotLevel)
			return err
		}
		return nil
	}
}

// opRegstorm: unregister path i, then n goroutines call RegisterDB at the same
// time, each with its own fresh DB object for that path. Afterwards the store
// must hold exactly one DB for the path and every losing instance must be closed.
func (h *harness) opRegstorm(g int, o op) {
	n, _ := strconv.Atoi(o.arg)
	path := h.paths[o.db]
	store := h.store

	h.regMu[o.db].Lock()
	defer h.regMu[o.db].Unlock()

	if err, _ := h.call(g, o.str+"#unreg", func() error {
		h.unregInFlight[o.db].Add(1)
		defer h.unregInFlight[o.db].Add(-1)
		return store.UnregisterDB(context.Background(), path)
	}); err != nil {
		h.count("regstorm/unreg-err")
		h.sampleErr("regstorm#unreg", err)
	}

	fresh := make([]*litestream.DB, n)
	for k := range fresh {
		fresh[k] = h.newDB(o.db)
	}
	gate := make(chan struct{})
	var wg sync.WaitGroup
	for k := 0; k < n; k++ {
		wg.Add(1)
		go func(k int) {
			defer wg.Done()
			<-gate
			err, _ := h.call(g, fmt.Sprintf("%s#reg%d", o.str, k), func() error { return store.RegisterDB(fresh[k]) })
			if err != nil {
				h.count("regstorm/reg-err")
				h.sampleErr("regstorm#reg", err)
			}
		}(k)
	}
	close(gate)
	wg.Wait()

	var registered []*litestream.DB
	if err, _ := h.call(g, o.str+"#check", func() error {
		for _, db := range store.DBs() {
			if db.Path() == path {
				registered = append(registered, db)
			}
		}
		return nil
	}); err != nil {
		return
	}
	if len(registered) != 1 {
		h.violate("regstorm", fmt.Sprintf("%s: store holds %d DB objects for the path after %d concurrent RegisterDB calls (want 1)", o.str, len(registered), n), "")
	}
	for k, db := range fresh {
		isWinner := false
		for _, r := range registered {
			if r == db {
				isWinner = true
			}
		}
		if isWinner {
			continue
		}
		var open bool
		h.call(g, o.str+"#isopen", func() error { open = db.IsOpen(); return nil })
		if open {
			h.violate("regstorm", fmt.Sprintf("%s: losing instance #%d is not registered but reports IsOpen()==true", o.str, k), "")
		}
	}
}

// ---------------------------------------------------------------------------
// application writers

type writerSet struct {
	stop  atomic.Bool
	wg    sync.WaitGroup
	conns []*sql.DB
	txns  atomic.Int64
	busy  atomic.Int64
	errs  atomic.Int64
}

func fillBlob(r *hx.Rand, n int) []byte {
	b := make([]byte, n)
	for i := 0; i < n; i += 8 {
		x := r.Uint64()
		for j := 0; j < 8 && i+j < n; j++ {
			b[i+j] = byte(x >> (8 * j))
		}
	}
	return b
}

func (h *harness) startWriters(r *hx.Rand) *writerSet {
	ws := &writerSet{}
	for i := range h.paths {
		for w := 0; w < h.o.Writers; w++ {
			d, err := sql.Open("sqlite", appDSN(h.paths[i]))
			if err != nil {
				h.note("writer open: %v", err)
				continue
			}
			d.SetMaxOpenConns(1)
			ws.conns = append(ws.conns, d)
			wr := r.Fork()
			ws.wg.Add(1)
			go func() {
				defer ws.wg.Done()
				h.writer(ws, d, wr)
			}()
		}
	}
	return ws
}

func (h *harness) writer(ws *writerSet, d *sql.DB, r *hx.Rand) {
	maxID := int64(20)
	for !ws.stop.Load() {
		err := func() error {
			tx, err := d.Begin()
			if err != nil {
				return err
			}
			defer tx.Rollback()
			for k, n := 0, 1+r.Intn(3); k < n; k++ {
				switch x := r.Intn(10); {
				case x < 6:
					size := 16 + r.Intn(400)
					if r.Chance(15) {
						size = 1000 + r.Intn(4500) // spans pages (overflow chains)
					}
					res, err := tx.Exec(`INSERT INTO t(v) VALUES (?)`, fillBlob(r, size))
					if err != nil {
						return err
					}
					if id, err := res.LastInsertId(); err == nil && id > maxID {
						maxID = id
					}
				case x < 8:
					if _, err := tx.Exec(`UPDATE t SET v=? WHERE id=?`, fillBlob(r, 16+r.Intn(600)), 1+r.Intn(int(maxID))); err != nil {
						return err
					}
				default:
					if _, err := tx.Exec(`DELETE FROM t WHERE id=?`, 1+r.Intn(int(maxID))); err != nil {
						return err
					}
				}
			}
			return tx.Commit()
		}()
		switch {
		case err == nil:
			ws.txns.Add(1)
		case strings.Contains(err.Error(), "SQLITE_BUSY") || strings.Contains(err.Error(), "database is locked"):
			ws.busy.Add(1)
		default:
			ws.errs.Add(1)
			h.sampleErr("writer", err)
		}
		time.Sleep(time.Duration(100+r.Intn(900)) * time.Microsecond)
	}
}

// stopWriters stops the writer goroutines and closes their connections, both
// under the watchdog.
func (h *harness) stopWriters(ws *writerSet) {
	h.call(-1, "final:writers.stop", func() error {
		ws.stop.Store(true)
		ws.wg.Wait()
		return nil
	})
	for _, d := range ws.conns {
		d := d
		if err, _ := h.call(-1, "final:writers.close", func() error { return d.Close() }); err != nil {
			h.note("writer close: %v", err)
		}
	}
	h.mu.Lock()
	h.dist["writer/txn"] = int(ws.txns.Load())
	h.dist["writer/busy"] = int(ws.busy.Load())
	h.dist["writer/err"] = int(ws.errs.Load())
	h.mu.Unlock()
}
