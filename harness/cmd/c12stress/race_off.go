//go:build !race

package main

const raceEnabled = false
