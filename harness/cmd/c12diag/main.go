// c12diag: diagnostic for C12 stress findings. Lists, for a file replica directory, every LTX file of every
// level with its header (commit, WAL offset/size, salts, timestamp) and, for the requested pages, a short hash
// of the page image each file carries. Used to find which file should have carried a page version.
package main

import (
	"crypto/sha256"
	"encoding/hex"
	"flag"
	"fmt"
	"io"
	"os"
	"path/filepath"
	"sort"
	"strconv"
	"strings"

	"github.com/superfly/ltx"
)

func main() {
	dir := flag.String("replica", "", "file replica directory")
	pages := flag.String("pages", "", "comma separated page numbers")
	img := flag.String("images", "", "comma separated database images to hash the same pages of")
	from := flag.Uint64("from", 0, "only files with MaxTXID >= from")
	to := flag.Uint64("to", 1<<62, "only files with MinTXID <= to")
	flag.Parse()
	want := map[uint32]bool{}
	var plist []uint32
	for _, s := range strings.Split(*pages, ",") {
		if n, err := strconv.Atoi(strings.TrimSpace(s)); err == nil {
			want[uint32(n)] = true
			plist = append(plist, uint32(n))
		}
	}
	for _, p := range strings.Split(*img, ",") {
		if p == "" {
			continue
		}
		b, err := os.ReadFile(p)
		if err != nil {
			fmt.Println("image", p, err)
			continue
		}
		ps := int(b[16])<<8 | int(b[17])
		fmt.Printf("image %s size=%d:", filepath.Base(p), len(b))
		for _, pg := range plist {
			lo := int(pg-1) * ps
			if lo+ps <= len(b) {
				h := sha256.Sum256(b[lo : lo+ps])
				fmt.Printf(" p%d=%s", pg, hex.EncodeToString(h[:4]))
			}
		}
		fmt.Println()
	}
	levels, _ := filepath.Glob(filepath.Join(*dir, "ltx", "*"))
	sort.Strings(levels)
	for _, ld := range levels {
		files, _ := filepath.Glob(filepath.Join(ld, "*.ltx"))
		sort.Strings(files)
		for _, f := range files {
			fh, err := os.Open(f)
			if err != nil {
				continue
			}
			dec := ltx.NewDecoder(fh)
			if err := dec.DecodeHeader(); err != nil {
				fmt.Println(f, "header:", err)
				fh.Close()
				continue
			}
			hd := dec.Header()
			if uint64(hd.MaxTXID) < *from || uint64(hd.MinTXID) > *to {
				fh.Close()
				continue
			}
			data := make([]byte, hd.PageSize)
			var got []string
			n := 0
			for {
				var ph ltx.PageHeader
				if err := dec.DecodePage(&ph, data); err == io.EOF {
					break
				} else if err != nil {
					got = append(got, "ERR:"+err.Error())
					break
				}
				n++
				if want[ph.Pgno] {
					h := sha256.Sum256(data)
					got = append(got, fmt.Sprintf("p%d=%s", ph.Pgno, hex.EncodeToString(h[:4])))
				}
			}
			cerr := dec.Close()
			fi, _ := fh.Stat()
			fh.Close()
			e := ""
			if cerr != nil {
				e = " CLOSE-ERR:" + cerr.Error()
			}
			fmt.Printf("L%s %d-%d commit=%d pages=%d walOff=%d walSize=%d salt=%08x/%08x ts=%d mtime=%s %s%s\n", filepath.Base(ld), hd.MinTXID, hd.MaxTXID, hd.Commit, n,
				hd.WALOffset, hd.WALSize, hd.WALSalt1, hd.WALSalt2, hd.Timestamp, fi.ModTime().Format("15:04:05.000"), strings.Join(got, " "), e)
		}
	}
}
