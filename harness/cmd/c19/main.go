// Engine c19: legacy 0.3.x layouts synthesised from real SQLite histories, restored by the real
// Replica.Restore; the Lean V3 model predicts snapshot / segments / error / format (disagreement),
// the C19 oracle compares the restored database with the reference state (violation).
package main

import (
	"bytes"
	"context"
	"crypto/sha256"
	"database/sql"
	"encoding/hex"
	"encoding/json"
	"errors"
	"fmt"
	"log/slog"
	"os"
	"path/filepath"
	"runtime"
	"sort"
	"strings"
	"sync"
	"time"

	"github.com/benbjohnson/litestream"
	"github.com/benbjohnson/litestream/file"
	"github.com/pierrec/lz4/v4"
	_ "modernc.org/sqlite"

	"verif/harness/hx"
)

var epoch = time.Unix(1700000000, 0).UTC()

// ---- layout description (also the replay payload) ---------------------------

type SnapD struct {
	Gen     int    `json:"gen"`
	Index   int    `json:"index"`
	Created int    `json:"created"`
	Hash    string `json:"hash"`
}

type SegD struct {
	Gen     int `json:"gen"`
	Index   int `json:"index"`
	Offset  int `json:"offset"`
	Size    int `json:"size"`
	Created int `json:"created"`
}

// Commit: a committed transaction of the source database, in WAL file number `Epoch` (WAL files
// are separated by TRUNCATE checkpoints), ending at byte `End` of that file.
type Commit struct {
	Epoch int    `json:"epoch"`
	End   int    `json:"end"`
	Hash  string `json:"hash"`
}

// Recipe regenerates a history deterministically.
type Recipe struct {
	Seed    uint64 `json:"seed"`
	Gens    int    `json:"gens"`
	Coincide bool  `json:"coincide"` // shape WAL sizes / cuts so that a first-segment size equals the previous WAL's size
	// IDPerm[g] = rank, in generation-ID order (= listing order), of the g-th generation in time
	// order; nil = IDs ascend with time. 0.3.x generation IDs are random hex strings, so every
	// permutation occurs in the wild.
	IDPerm []int `json:"id_perm,omitempty"`
	// Overlap: an older generation keeps recording (segments, later snapshots) after a newer one
	// has started (two replicators on one path), so creation times interleave across generations.
	Overlap bool `json:"overlap,omitempty"`
}

type Case struct {
	Recipe  Recipe `json:"recipe"`
	Remove  int    `json:"remove"` // index into the segment listing, -1 = none
	T       int    `json:"t"`      // ms, 0 = none
	LTXBase int    `json:"ltx_base"` // 0 = no LTX files, else creation time (ms) of the first LTX file
}

type Hist struct {
	dir     string // replica dir
	snaps   []SnapD
	segs    []SegD
	commits []Commit
	genIDs  []string // by generation in time order
	rank    []int    // rank of the generation's ID in the sorted listing (= generation number in the model)
	start   []int    // first WAL file (epoch) recorded by the generation; index = epoch - start
	ltx     []string // LTX files (paths) in (level desc, name) order, after writeLTX
	ltxSnap []bool
	ltxHash string
	lastShape string // set by oracle: noteworthy shape of the last judged input
}


func hashState(path string) (string, error) {
	db, err := sql.Open("sqlite", path)
	if err != nil {
		return "", err
	}
	defer db.Close()
	rows, err := db.Query("SELECT id, v FROM t ORDER BY id")
	if err != nil {
		return "", err
	}
	defer rows.Close()
	h := sha256.New()
	marker := ""
	for rows.Next() {
		var id int
		var v string
		if err := rows.Scan(&id, &v); err != nil {
			return "", err
		}
		fmt.Fprintf(h, "%d=%s;", id, v)
		if id == -1 {
			marker = "ltx:"
		}
	}
	return marker + hex.EncodeToString(h.Sum(nil))[:16], rows.Err()
}

func hashConn(db *sql.DB) string {
	rows, err := db.Query("SELECT id, v FROM t ORDER BY id")
	if err != nil {
		return "err:" + err.Error()
	}
	defer rows.Close()
	h := sha256.New()
	for rows.Next() {
		var id int
		var v string
		rows.Scan(&id, &v)
		fmt.Fprintf(h, "%d=%s;", id, v)
	}
	return hex.EncodeToString(h.Sum(nil))[:16]
}

func writeLZ4(path string, data []byte, created int) error {
	if err := os.MkdirAll(filepath.Dir(path), 0o755); err != nil {
		return err
	}
	var buf bytes.Buffer
	w := lz4.NewWriter(&buf)
	if _, err := w.Write(data); err != nil {
		return err
	}
	if err := w.Close(); err != nil {
		return err
	}
	if err := os.WriteFile(path, buf.Bytes(), 0o644); err != nil {
		return err
	}
	mt := epoch.Add(time.Duration(created) * time.Millisecond)
	return os.Chtimes(path, mt, mt)
}

const frameSize = 24 + 4096

// build creates the source database history and the legacy layout under dir.
func build(rc Recipe, work string) (*Hist, error) {
	rnd := hx.NewRand(rc.Seed)
	h := &Hist{dir: filepath.Join(work, "replica")}
	src := filepath.Join(work, "src.db")
	db, err := sql.Open("sqlite", src)
	if err != nil {
		return nil, err
	}
	defer db.Close()
	db.SetMaxOpenConns(1)
	for _, q := range []string{"PRAGMA page_size=4096", "PRAGMA journal_mode=wal", "PRAGMA wal_autocheckpoint=0",
		"CREATE TABLE t(id INTEGER PRIMARY KEY, v TEXT)", "INSERT INTO t VALUES(1,'init')", "PRAGMA wal_checkpoint(TRUNCATE)"} {
		if _, err := db.Exec(q); err != nil {
			return nil, fmt.Errorf("%s: %w", q, err)
		}
	}
	clk := 100
	nextID := 2
	txn := func(big bool) error {
		tx, err := db.Begin()
		if err != nil {
			return err
		}
		n := 1 + rnd.Intn(3)
		for i := 0; i < n; i++ {
			switch {
			case i == 0 || rnd.Chance(50) || nextID < 4:
				sz := 10 + rnd.Intn(200)
				if big {
					sz = 3000 + rnd.Intn(6000)
				}
				if _, err := tx.Exec("INSERT INTO t VALUES(?,?)", nextID, strings.Repeat(string(rune('a'+rnd.Intn(26))), sz)); err != nil {
					return err
				}
				nextID++
			case rnd.Chance(60):
				if _, err := tx.Exec("UPDATE t SET v = v || ? WHERE id = ?", fmt.Sprint(rnd.Intn(1000)), 1+rnd.Intn(nextID-1)); err != nil {
					return err
				}
			default:
				if _, err := tx.Exec("DELETE FROM t WHERE id = ?", 2+rnd.Intn(nextID-1)); err != nil {
					return err
				}
			}
		}
		return tx.Commit()
	}
	walSize := func() int {
		fi, err := os.Stat(src + "-wal")
		if err != nil {
			return 0
		}
		return int(fi.Size())
	}
	// generation IDs: random 16-hex strings, assigned to generations according to IDPerm
	idr := hx.NewRand(rc.Seed ^ 0x5eed1d5eed1d)
	ids := make([]string, rc.Gens)
	for i := range ids {
		ids[i] = fmt.Sprintf("%016x", idr.Uint64())
	}
	sort.Strings(ids)
	h.genIDs, h.rank, h.start = make([]string, rc.Gens), make([]int, rc.Gens), make([]int, rc.Gens)
	for g := 0; g < rc.Gens; g++ {
		r := g
		if len(rc.IDPerm) == rc.Gens {
			r = rc.IDPerm[g]
		}
		h.rank[g], h.genIDs[g] = r, ids[r]
	}
	snapshot := func(g, idx int) error {
		b, err := os.ReadFile(src)
		if err != nil {
			return err
		}
		clk += 10
		h.snaps = append(h.snaps, SnapD{Gen: g, Index: idx, Created: clk, Hash: hashConn(db)})
		return writeLZ4(filepath.Join(h.dir, "generations", h.genIDs[g], "snapshots", fmt.Sprintf("%08x.snapshot.lz4", idx)), b, clk)
	}
	// plan: generation g records WAL files (epochs) start[g] .. end[g]-1
	end := make([]int, rc.Gens)
	E := 0
	for g := 0; g < rc.Gens; g++ {
		n := 1 + rnd.Intn(4)
		if rc.Coincide && n < 2 {
			n = 2
		}
		h.start[g] = E
		E += n
		end[g] = E
	}
	if rc.Overlap {
		for g := 0; g+1 < rc.Gens; g++ {
			end[g] = min(E, end[g]+1+rnd.Intn(3))
		}
	}
	prevFrames := 0
	for e := 0; e <= E; e++ {
		// boundary before WAL file e: snapshots, in a random order across generations
		var act []int
		for g := 0; g < rc.Gens; g++ {
			if h.start[g] <= e && e <= end[g] {
				act = append(act, g)
			}
		}
		for i := len(act) - 1; i > 0; i-- {
			j := rnd.Intn(i + 1)
			act[i], act[j] = act[j], act[i]
		}
		for _, g := range act {
			idx := e - h.start[g]
			if idx == 0 || (!rc.Coincide && ((e < end[g] && rnd.Chance(50)) || (e == end[g] && rnd.Chance(25)))) { // coincidence histories keep one snapshot so that every later index is restored through
				if err := snapshot(g, idx); err != nil {
					return nil, err
				}
			}
		}
		if e == E {
			break
		}
		var ends, times []int
		nTx := 1 + rnd.Intn(4)
		for k := 0; k < nTx || (rc.Coincide && e > 0 && (walSize()-32)/frameSize <= prevFrames); k++ {
			if err := txn(rnd.Chance(30)); err != nil {
				return nil, err
			}
			clk += 10
			if ws := walSize(); len(ends) == 0 || ws > ends[len(ends)-1] {
				ends = append(ends, ws)
				times = append(times, clk)
				h.commits = append(h.commits, Commit{Epoch: e, End: ws, Hash: hashConn(db)})
			}
			if k > 40 {
				break
			}
		}
		wal, err := os.ReadFile(src + "-wal")
		if err != nil {
			return nil, err
		}
		if len(wal) < 32 || (len(wal)-32)%frameSize != 0 {
			return nil, fmt.Errorf("unexpected WAL size %d", len(wal))
		}
		frames := (len(wal) - 32) / frameSize
		for g := 0; g < rc.Gens; g++ {
			if !(h.start[g] <= e && e < end[g]) {
				continue
			}
			idx := e - h.start[g]
			// this generation's cut points, at arbitrary frame boundaries
			cuts := []int{}
			for f := 1; f < frames; f++ {
				if rnd.Chance(35) {
					cuts = append(cuts, 32+f*frameSize)
				}
			}
			if rc.Coincide && idx > 0 && frames > prevFrames && prevFrames > 0 {
				// first segment of this WAL is exactly as long as the whole previous WAL
				c := 32 + prevFrames*frameSize
				cuts = append([]int{c}, filterGT(cuts, c)...)
			}
			cuts = append(cuts, len(wal))
			off := 0
			for _, c := range cuts {
				// created: when the commit that completed this segment happened
				cr := times[len(times)-1]
				for i, en := range ends {
					if en >= c {
						cr = times[i]
						break
					}
				}
				h.segs = append(h.segs, SegD{Gen: g, Index: idx, Offset: off, Size: c - off, Created: cr})
				if err := writeLZ4(filepath.Join(h.dir, "generations", h.genIDs[g], "wal", fmt.Sprintf("%08x_%08x.wal.lz4", idx, off)), wal[off:c], cr); err != nil {
					return nil, err
				}
				off = c
			}
		}
		prevFrames = frames
		if _, err := db.Exec("PRAGMA wal_checkpoint(TRUNCATE)"); err != nil {
			return nil, err
		}
	}
	sort.SliceStable(h.snaps, func(i, j int) bool {
		a, b := h.snaps[i], h.snaps[j]
		if a.Gen != b.Gen {
			return a.Gen < b.Gen
		}
		return a.Index < b.Index
	})
	sort.SliceStable(h.segs, func(i, j int) bool {
		a, b := h.segs[i], h.segs[j]
		if a.Gen != b.Gen {
			return a.Gen < b.Gen
		}
		if a.Index != b.Index {
			return a.Index < b.Index
		}
		return a.Offset < b.Offset
	})
	return h, nil
}

func filterGT(a []int, c int) []int {
	var out []int
	for _, x := range a {
		if x > c {
			out = append(out, x)
		}
	}
	return out
}

// writeLTX adds a current-format replica (of a different database: every row carries the marker
// 'ltx') to the same directory, with creation times base, base+10, ….
func (h *Hist) writeLTX(work string, base int) error {
	src := filepath.Join(work, "ltxsrc.db")
	app, err := sql.Open("sqlite", src)
	if err != nil {
		return err
	}
	defer app.Close()
	app.SetMaxOpenConns(1)
	for _, q := range []string{"PRAGMA journal_mode=wal", "PRAGMA wal_autocheckpoint=0", "CREATE TABLE t(id INTEGER PRIMARY KEY, v TEXT)", "INSERT INTO t VALUES(-1,'ltx')"} {
		if _, err := app.Exec(q); err != nil {
			return err
		}
	}
	ctx := context.Background()
	db := litestream.NewDB(src)
	db.MonitorInterval = 0
	db.Logger = quietLogger
	db.Replica = litestream.NewReplicaWithClient(db, file.NewReplicaClient(h.dir))
	db.Replica.MonitorEnabled = false
	if err := db.Open(); err != nil {
		return err
	}
	for i := 0; i < 3; i++ {
		if _, err := app.Exec("INSERT INTO t VALUES(?, 'ltx')", -2-i); err != nil {
			return err
		}
		if err := db.Sync(ctx); err != nil {
			return err
		}
		if err := db.Replica.Sync(ctx); err != nil {
			return err
		}
		if i == 1 {
			if _, err := db.Snapshot(ctx); err != nil {
				return err
			}
		}
	}
	h.ltxHash = hashConn(app)
	if err := db.Close(ctx); err != nil {
		return err
	}
	var files []string
	filepath.Walk(filepath.Join(h.dir, "ltx"), func(p string, fi os.FileInfo, err error) error {
		if err == nil && !fi.IsDir() && strings.HasSuffix(p, ".ltx") {
			files = append(files, p)
		}
		return nil
	})
	// order by max TXID (name), so that times are monotone in TXID at every level
	sort.Slice(files, func(i, j int) bool {
		a, b := filepath.Base(files[i]), filepath.Base(files[j])
		am, bm := a[strings.Index(a, "-")+1:], b[strings.Index(b, "-")+1:]
		if am != bm {
			return am < bm
		}
		return files[i] < files[j]
	})
	h.ltx = files
	h.ltxSnap = make([]bool, len(files))
	for i, p := range files {
		h.ltxSnap[i] = filepath.Base(filepath.Dir(p)) == fmt.Sprint(litestream.SnapshotLevel)
	}
	return h.setLTXTimes(base)
}

func (h *Hist) setLTXTimes(base int) error {
	for i, p := range h.ltx {
		mt := epoch.Add(time.Duration(base+10*i) * time.Millisecond)
		if err := os.Chtimes(p, mt, mt); err != nil {
			return err
		}
	}
	return nil
}

// ---- running the real restore --------------------------------------------------

type logRec struct {
	msg   string
	attrs map[string]any
}

type capture struct {
	mu   sync.Mutex
	recs []logRec
	pre  []slog.Attr
}

func (c *capture) Enabled(context.Context, slog.Level) bool { return true }
func (c *capture) Handle(_ context.Context, r slog.Record) error {
	m := map[string]any{}
	r.Attrs(func(a slog.Attr) bool { m[a.Key] = a.Value.Any(); return true })
	c.mu.Lock()
	c.recs = append(c.recs, logRec{r.Message, m})
	c.mu.Unlock()
	return nil
}
func (c *capture) WithAttrs([]slog.Attr) slog.Handler { return c }
func (c *capture) WithGroup(string) slog.Handler      { return c }

var quietLogger = slog.New(slog.NewTextHandler(nopWriter{}, &slog.HandlerOptions{Level: slog.LevelError + 10}))

type nopWriter struct{}

func (nopWriter) Write(p []byte) (int, error) { return len(p), nil }

type implOut struct {
	canon  string // same format as the driver's `v3` answer
	format string // v3 | ltx
	ok     bool
	hash   string
	err    string
}

func toInt(v any) int {
	switch x := v.(type) {
	case int64:
		return int(x)
	case int:
		return x
	case uint64:
		return int(x)
	}
	return -1
}

func (h *Hist) restore(work string, T int) implOut {
	out := filepath.Join(work, "out.db")
	for _, s := range []string{"", "-wal", "-shm", ".tmp", ".tmp-wal", ".tmp-shm"} {
		os.Remove(out + s)
	}
	cap := &capture{}
	db := litestream.NewDB(filepath.Join(work, "nodb.db"))
	db.Logger = slog.New(cap)
	r := litestream.NewReplicaWithClient(db, file.NewReplicaClient(h.dir))
	opt := litestream.NewRestoreOptions()
	opt.OutputPath = out
	if T != 0 {
		opt.Timestamp = epoch.Add(time.Duration(T) * time.Millisecond)
	}
	err := r.Restore(context.Background(), opt)
	var io implOut
	io.format = "ltx"
	snap := ""
	var groups []string
	var cur []string
	for _, rec := range cap.recs {
		switch {
		case strings.HasPrefix(rec.msg, "using v0.3.x restore"):
			io.format = "v3"
		case rec.msg == "selected v0.3.x snapshot":
			g, _ := rec.attrs["generation"].(string)
			rank := -1
			for i, id := range h.genIDs {
				if id == g {
					rank = h.rank[i]
				}
			}
			snap = fmt.Sprintf("%d:%d", rank, toInt(rec.attrs["index"]))
		case rec.msg == "wrote WAL segment":
			cur = append(cur, fmt.Sprintf("%d/%d", toInt(rec.attrs["index"]), toInt(rec.attrs["offset"])))
		case rec.msg == "applied WAL index":
			groups = append(groups, fmt.Sprintf("%d[%s]", toInt(rec.attrs["index"]), strings.Join(cur, "+")))
			cur = nil
		}
	}
	if err != nil {
		io.err = err.Error()
		switch {
		case errors.Is(err, litestream.ErrNoSnapshots):
			io.canon = "err nosnapshots"
		case strings.Contains(io.err, "missing WAL index"):
			io.canon = "err missingindex"
		case strings.Contains(io.err, "missing WAL segment"):
			io.canon = "err missingsegment"
		default:
			io.canon = "err other:" + io.err
		}
		return io
	}
	io.ok = true
	io.canon = "ok snap=" + snap + " wal=" + strings.Join(groups, "|")
	hs, herr := hashState(out)
	if herr != nil {
		hs = "unreadable:" + herr.Error()
	}
	io.hash = hs
	return io
}

// ---- model lines & oracle -----------------------------------------------------------

func (h *Hist) present(remove int) []SegD {
	var out []SegD
	for i, s := range h.segs {
		if i != remove {
			out = append(out, s)
		}
	}
	return out
}

func (h *Hist) inputs(remove, T int) string {
	// listing order of the real client = input order of the real findBestSnapshotV3 / applyWALSegmentsV3:
	// generations by ID (rank), then index, then offset; the model's generation number is the rank
	var sn, sg []string
	snaps := append([]SnapD(nil), h.snaps...)
	sort.SliceStable(snaps, func(i, j int) bool { return h.rank[snaps[i].Gen] < h.rank[snaps[j].Gen] })
	for _, s := range snaps {
		sn = append(sn, fmt.Sprintf("%d:%d:%d", h.rank[s.Gen], s.Index, s.Created))
	}
	segs := h.present(remove)
	sort.SliceStable(segs, func(i, j int) bool { return h.rank[segs[i].Gen] < h.rank[segs[j].Gen] })
	for _, s := range segs {
		sg = append(sg, fmt.Sprintf("%d:%d:%d:%d:%d", h.rank[s.Gen], s.Index, s.Offset, s.Size, s.Created))
	}
	return fmt.Sprintf("T=%d SN=%s SG=%s", T, strings.Join(sn, ","), strings.Join(sg, ","))
}

type verdict struct {
	sig, what string
}

// oracle: C19 stated directly on the generated history.
func (h *Hist) oracle(remove, T int, io implOut) *verdict {
	var snap *SnapD
	for i := range h.snaps {
		s := &h.snaps[i]
		if (T == 0 || s.Created <= T) && (snap == nil || s.Created > snap.Created) {
			snap = s
		}
	}
	if snap == nil {
		if io.ok {
			return &verdict{"C19/restored-without-eligible-snapshot", "restore succeeded although no snapshot is eligible"}
		}
		return nil
	}
	var orig []SegD
	var idxOf []int
	for i, s := range h.segs {
		if s.Gen == snap.Gen && s.Index >= snap.Index {
			orig = append(orig, s)
			idxOf = append(idxOf, i)
		}
	}
	isPresent := func(k int) bool { return idxOf[k] != remove && (T == 0 || orig[k].Created <= T) }
	firstMissing := -1
	for k := range orig {
		if !isPresent(k) {
			firstMissing = k
			break
		}
	}
	gap := false
	if firstMissing >= 0 {
		for k := firstMissing + 1; k < len(orig); k++ {
			if isPresent(k) {
				gap = true
			}
		}
	}
	h.lastShape = ""
	if gap && firstMissing+1 < len(orig) {
		m, n := orig[firstMissing], orig[firstMissing+1]
		if m.Offset == 0 && n.Index == m.Index && n.Offset != 0 && isPresent(firstMissing+1) && m.Index > snap.Index {
			prev := 0
			for k := range orig {
				if orig[k].Index == m.Index-1 && isPresent(k) {
					prev += orig[k].Size
				}
			}
			if prev == n.Offset {
				h.lastShape = "f10-offset-coincidence" // the input of the repaired finding F10: must be an error
			}
		}
	}
	if gap {
		if !io.ok {
			return nil
		}
		m := orig[firstMissing]
		what := fmt.Sprintf("segment %d/%d of generation %d is missing but a later segment is present; restore succeeded (%s)", m.Index, m.Offset, m.Gen, io.canon)
		if firstMissing+1 < len(orig) {
			n := orig[firstMissing+1]
			if m.Offset == 0 && n.Index == m.Index && n.Offset != 0 && isPresent(firstMissing+1) && m.Index > snap.Index {
				prev := 0
				for k := range orig {
					if orig[k].Index == m.Index-1 && isPresent(k) {
						prev += orig[k].Size
					}
				}
				if prev == n.Offset {
					return &verdict{"C19/nonzero-offset-index-unchecked", what}
				}
			}
			if m.Offset != 0 && n.Index == m.Index+1 && n.Offset == 0 { // a non-first, last segment of its WAL index
				return &verdict{"C19/missing-index-tail-undetected", what}
			}
		}
		return &verdict{"C19/gap-not-reported", what}
	}
	if !io.ok {
		return &verdict{"C19/spurious-error", "no segment is missing before the last present one, yet restore failed: " + io.err}
	}
	// expected state: last commit at or before the end of the last present segment
	want := snap.Hash
	last := firstMissing - 1
	if firstMissing < 0 {
		last = len(orig) - 1
	}
	if last >= 0 {
		li, le := orig[last].Index, orig[last].Offset+orig[last].Size
		for _, c := range h.commits {
			ci := c.Epoch - h.start[snap.Gen] // index of that WAL file in the snapshot's generation
			if ci >= snap.Index && (ci < li || (ci == li && c.End <= le)) {
				want = c.Hash
			}
		}
	}
	if io.hash != want {
		return &verdict{"C19/wrong-state", fmt.Sprintf("restored state %s differs from the reference state %s at the end of the last contiguous segment (snapshot %d/%d, %s)", io.hash, want, snap.Gen, snap.Index, io.canon)}
	}
	return nil
}

// expected format per the property text (ties avoided by the generator).
func (h *Hist) wantFormat(T, base int) string {
	if T == 0 {
		mv, ml := 0, 0
		for _, s := range h.snaps {
			mv = max(mv, s.Created)
		}
		for _, s := range h.segs {
			mv = max(mv, s.Created)
		}
		for i := range h.ltx {
			ml = max(ml, base+10*i)
		}
		if mv > ml {
			return "v3"
		}
		return "ltx"
	}
	vs, ls := -1, -1
	for _, s := range h.snaps {
		if s.Created <= T {
			vs = max(vs, s.Created)
		}
	}
	for i := range h.ltx {
		if h.ltxSnap[i] && base+10*i < T {
			ls = max(ls, base+10*i)
		}
	}
	if vs >= 0 && (ls < 0 || vs > ls) {
		return "v3"
	}
	return "ltx"
}

// ---- main ------------------------------------------------------------------------

type found struct {
	c    Case
	what string
	size int
}

func main() {
	o := hx.ParseFlags("C19")
	res := hx.NewResult(o, "c19: Replica.Restore on legacy 0.3.x layouts synthesised from real SQLite histories vs Lean V3 model + reference-state oracle")
	res.Rule = "a case = one history (1-4 generations with random 16-hex IDs under every permutation of ID order vs time order, optionally overlapping in time, x 1-4 WAL indices x 1-4 transactions, snapshots at several indices with creation times interleaved across generations, each WAL split at random frame boundaries, LZ4 files with controlled mtimes) x one removed segment (or none) x one timestamp (none, every creation time, between every two consecutive creation times) x optionally a current-format replica in the same directory; non-trivial = at least one WAL segment applies or the case must fail; distinct = recipe+removal+timestamp"
	if o.Replay != "" {
		replay(o)
		return
	}
	runNames(o, res, nil)
	nHist, nCoin := 30, 8
	if o.Tier == "thorough" {
		nHist, nCoin = 200, 40
	}
	rnd := hx.NewRand(o.Seed)
	var recipes []Recipe
	// generation-ID order vs time order: every permutation for 2 and 3 generations (and random ones for 4)
	perms := map[int][][]int{1: {nil}, 2: {{0, 1}, {1, 0}}, 3: {{0, 1, 2}, {0, 2, 1}, {1, 0, 2}, {1, 2, 0}, {2, 0, 1}, {2, 1, 0}}}
	randPerm := func(n int) []int {
		p := make([]int, n)
		for i := range p {
			p[i] = i
		}
		for i := n - 1; i > 0; i-- {
			j := rnd.Intn(i + 1)
			p[i], p[j] = p[j], p[i]
		}
		return p
	}
	for i := 0; len(recipes) < nHist; i++ {
		gens := []int{1, 2, 3, 3, 2, 3, 4}[i%7]
		seed, overlap := rnd.Uint64(), gens > 1 && rnd.Chance(50)
		if gens == 4 {
			recipes = append(recipes, Recipe{Seed: seed, Gens: 4, IDPerm: randPerm(4), Overlap: overlap})
			continue
		}
		for _, p := range perms[gens] { // the same history under every assignment of IDs
			recipes = append(recipes, Recipe{Seed: seed, Gens: gens, IDPerm: p, Overlap: overlap})
		}
	}
	for i := 0; i < nCoin; i++ {
		g := 1 + rnd.Intn(2)
		recipes = append(recipes, Recipe{Seed: rnd.Uint64(), Gens: g, Coincide: true, IDPerm: randPerm(g)})
	}
	var corpus []Case
	if o.Corpus != "" {
		ents, _ := filepath.Glob(filepath.Join(o.Corpus, "*.json"))
		sort.Strings(ents)
		for _, p := range ents {
			b, err := os.ReadFile(p)
			if err != nil {
				continue
			}
			var wr struct {
				Replay struct {
					Case Case `json:"case"`
				} `json:"replay"`
			}
			if json.Unmarshal(b, &wr) == nil && wr.Replay.Case.Recipe.Gens > 0 {
				corpus = append(corpus, wr.Replay.Case)
			}
		}
	}

	var mu sync.Mutex
	best := map[string]found{}
	note := func(kind, sig string, c Case, what string, size int) {
		mu.Lock()
		defer mu.Unlock()
		k := kind + "|" + sig
		if old, ok := best[k]; !ok || size < old.size {
			best[k] = found{c, what, size}
		}
	}
	type job struct {
		rc     Recipe
		only   *Case
		sweepT bool
	}
	jobs := make(chan job, 64)
	var wg sync.WaitGroup
	for wk := 0; wk < runtime.NumCPU(); wk++ {
		wg.Add(1)
		go func() {
			defer wg.Done()
			drv, err := hx.StartDriver(o.Driver)
			if err != nil {
				hx.Fatal(err)
			}
			defer drv.Close()
			for j := range jobs {
				work, err := os.MkdirTemp("", "c19-")
				if err != nil {
					hx.Fatal(err)
				}
				runHistory(j.rc, j.only, work, drv, res, &mu, note)
				os.RemoveAll(work)
			}
		}()
	}
	for i := range corpus {
		res.Count("corpus")
		jobs <- job{rc: corpus[i].Recipe, only: &corpus[i]}
	}
	for _, rc := range recipes {
		jobs <- job{rc: rc}
	}
	close(jobs)
	wg.Wait()

	keys := make([]string, 0, len(best))
	for k := range best {
		keys = append(keys, k)
	}
	sort.Strings(keys)
	for _, k := range keys {
		f := best[k]
		kind, sig, _ := strings.Cut(k, "|")
		if kind == "shape" { // not a finding: smallest input of a noteworthy shape, for the corpus
			b, _ := json.Marshal(f.c)
			res.Notes = append(res.Notes, fmt.Sprintf("smallest %s input: %s -> %s", sig, b, f.what))
			continue
		}
		res.AddFinding(kind, sig, f.what, map[string]any{"case": f.c})
	}
	res.Notes = append(res.Notes, fmt.Sprintf("%d histories (%d shaped for offset coincidence) + %d corpus cases", len(recipes), nCoin, len(corpus)))
	if err := res.Write(o.Out); err != nil {
		hx.Fatal(err)
	}
}

type noteFn func(kind, sig string, c Case, what string, size int)

// evalCase runs one (removal, timestamp) case on a built history.
func evalCase(h *Hist, c Case, work string, drv *hx.Driver, res *hx.Result, mu *sync.Mutex, note noteFn, withOracle bool) (implOut, string, *verdict) {
	var moved string
	if c.Remove >= 0 && c.Remove < len(h.segs) {
		s := h.segs[c.Remove]
		p := filepath.Join(h.dir, "generations", h.genIDs[s.Gen], "wal", fmt.Sprintf("%08x_%08x.wal.lz4", s.Index, s.Offset))
		moved = p
		os.Rename(p, p+".removed")
	}
	io := h.restore(work, c.T)
	if moved != "" {
		os.Rename(moved+".removed", moved)
	}
	line := "v3 " + h.inputs(c.Remove, c.T)
	model, err := drv.Ask(line)
	if err != nil {
		hx.Fatal(err)
	}
	var v *verdict
	if withOracle {
		v = h.oracle(c.Remove, c.T, io)
	}
	size := len(h.segs)*10 + len(h.snaps)
	mu.Lock()
	res.Case(fmt.Sprintf("%+v", c), strings.Contains(io.canon, "[") || !io.ok)
	res.Count("impl:" + strings.Fields(io.canon + " ?")[0] + "-" + strings.SplitN(strings.Fields(io.canon + " ?")[1], ":", 2)[0][:min(8, len(strings.SplitN(strings.Fields(io.canon+" ?")[1], ":", 2)[0]))])
	if c.Remove >= 0 {
		res.Count("removed-one-segment")
	}
	if c.T != 0 {
		res.Count("with-timestamp")
	}
	if res.Evaluations%400 == 1 {
		res.Sample(map[string]any{"line": line, "impl": io.canon, "model": model, "state": io.hash})
	}
	mu.Unlock()
	if hx.Differs(io.canon, model) {
		mu.Lock()
		res.DisagreementsChecked++
		mu.Unlock()
		note("disagreement", "C19/model-vs-impl", c, fmt.Sprintf("impl=%q model=%q line=%q", io.canon, model, line), size)
	}
	if v != nil {
		note("violation", v.sig, c, v.what, size)
	}
	if withOracle && h.lastShape != "" {
		mu.Lock()
		res.Count("shape:" + h.lastShape + ":" + strings.Fields(io.canon)[0])
		mu.Unlock()
		note("shape", h.lastShape, c, io.canon, size)
	}
	return io, model, v
}

func runHistory(rc Recipe, only *Case, work string, drv *hx.Driver, res *hx.Result, mu *sync.Mutex, note noteFn) {
	h, err := build(rc, work)
	if err != nil {
		hx.Fatal(fmt.Errorf("build history %+v: %w", rc, err))
	}
	if only != nil {
		if only.LTXBase != 0 {
			if err := h.writeLTX(work, only.LTXBase); err != nil {
				hx.Fatal(err)
			}
			evalFormat(h, *only, work, drv, res, mu, note)
			return
		}
		evalCase(h, *only, work, drv, res, mu, note, true)
		return
	}
	// distinct snapshot times are guaranteed by the clock. Timestamps: none, every creation time of a
	// snapshot or segment, a point between every two consecutive creation times, before the first, after the last
	tsSet := map[int]bool{0: true}
	var all []int
	for _, s := range h.snaps {
		all = append(all, s.Created)
	}
	for _, s := range h.segs {
		all = append(all, s.Created)
	}
	sort.Ints(all)
	for i, t := range all {
		tsSet[t] = true
		if i+1 < len(all) && all[i+1]-t >= 2 {
			tsSet[t+(all[i+1]-t)/2] = true
		}
	}
	tsSet[all[0]-1], tsSet[all[len(all)-1]+7] = true, true
	var tss []int
	for t := range tsSet {
		tss = append(tss, t)
	}
	sort.Ints(tss)
	for _, t := range tss {
		evalCase(h, Case{Recipe: rc, Remove: -1, T: t}, work, drv, res, mu, note, true)
	}
	identity := true
	for g, r := range rc.IDPerm {
		identity = identity && g == r
	}
	for i := range h.segs {
		if !identity && !rc.Coincide && rc.Gens < 4 && i%3 != 1 {
			continue // the same history under another ID assignment: sample the removals
		}
		evalCase(h, Case{Recipe: rc, Remove: i, T: 0}, work, drv, res, mu, note, true)
		if i%3 == 0 {
			t := h.segs[len(h.segs)-1].Created - 15
			evalCase(h, Case{Recipe: rc, Remove: i, T: t}, work, drv, res, mu, note, true)
		}
	}
	// format arbitration: a current-format replica in the same directory, older / in between / newer
	maxV3 := 0
	for _, s := range h.segs {
		maxV3 = max(maxV3, s.Created)
	}
	for _, s := range h.snaps {
		maxV3 = max(maxV3, s.Created)
	}
	bases := []int{11, h.snaps[0].Created + 3, maxV3/2 + 3, maxV3 + 33}
	if err := h.writeLTX(work, bases[0]); err != nil {
		hx.Fatal(fmt.Errorf("write LTX replica: %w", err))
	}
	for _, b := range bases {
		for _, t := range []int{0, h.snaps[0].Created + 1, maxV3/2 + 1, maxV3 + 1, maxV3 + 101} {
			evalFormat(h, Case{Recipe: rc, Remove: -1, T: t, LTXBase: b}, work, drv, res, mu, note)
		}
	}
}

func evalFormat(h *Hist, c Case, work string, drv *hx.Driver, res *hx.Result, mu *sync.Mutex, note noteFn) {
	if err := h.setLTXTimes(c.LTXBase); err != nil {
		hx.Fatal(err)
	}
	io := h.restore(work, c.T)
	var la, ls []string
	for i := range h.ltx {
		la = append(la, fmt.Sprint(c.LTXBase+10*i))
		if h.ltxSnap[i] {
			ls = append(ls, fmt.Sprint(c.LTXBase+10*i))
		}
	}
	line := "fmt " + h.inputs(-1, c.T) + " LA=" + strings.Join(la, ",") + " LS=" + strings.Join(ls, ",")
	model, err := drv.Ask(line)
	if err != nil {
		hx.Fatal(err)
	}
	want := h.wantFormat(c.T, c.LTXBase)
	size := len(h.segs)*10 + len(h.snaps)
	mu.Lock()
	res.Case(fmt.Sprintf("%+v", c), true)
	res.Count("format:" + io.format)
	mu.Unlock()
	if hx.Differs(io.format, model) {
		mu.Lock()
		res.DisagreementsChecked++
		mu.Unlock()
		note("disagreement", "C19/format-model-vs-impl", c, fmt.Sprintf("impl=%q model=%q line=%q", io.format, model, line), size)
	}
	if io.ok {
		got := "v3"
		if strings.HasPrefix(io.hash, "ltx:") {
			got = "ltx"
		}
		if got != want {
			note("violation", "C19/wrong-format", c, fmt.Sprintf("restore used the %s backup although the %s format holds the more recent eligible backup (T=%d)", got, want, c.T), size)
		}
		if got == "v3" {
			if v := h.oracle(-1, c.T, io); v != nil {
				note("violation", v.sig, c, v.what, size)
			}
		}
	}
}

func replay(o *hx.Opts) {
	b, err := os.ReadFile(o.Replay)
	if err != nil {
		hx.Fatal(err)
	}
	var nr struct {
		Replay struct {
			Names *NameCase `json:"names"`
		} `json:"replay"`
	}
	if json.Unmarshal(b, &nr) == nil && nr.Replay.Names != nil {
		if runNames(o, hx.NewResult(o, "replay"), nr.Replay.Names) {
			os.Exit(1)
		}
		return
	}
	var wr struct {
		Replay struct {
			Case Case `json:"case"`
		} `json:"replay"`
	}
	if err := json.Unmarshal(b, &wr); err != nil || wr.Replay.Case.Recipe.Gens == 0 {
		hx.Fatal(fmt.Errorf("not a c19 replay file: %v", err))
	}
	c := wr.Replay.Case
	drv, err := hx.StartDriver(o.Driver)
	if err != nil {
		hx.Fatal(err)
	}
	defer drv.Close()
	work, err := os.MkdirTemp("", "c19-replay-")
	if err != nil {
		hx.Fatal(err)
	}
	defer os.RemoveAll(work)
	h, err := build(c.Recipe, work)
	if err != nil {
		hx.Fatal(err)
	}
	res := hx.NewResult(o, "replay")
	var mu sync.Mutex
	fail := false
	note := func(kind, sig string, _ Case, what string, _ int) {
		fmt.Printf("%s: %s — %s\n", kind, sig, what)
		if kind != "shape" {
			fail = true
		}
	}
	for _, s := range h.snaps {
		fmt.Printf("snapshot gen=%d index=%d created=%d state=%s\n", s.Gen, s.Index, s.Created, s.Hash)
	}
	for i, s := range h.segs {
		mark := ""
		if i == c.Remove {
			mark = "   <- removed"
		}
		fmt.Printf("segment  gen=%d %d/%d size=%d created=%d%s\n", s.Gen, s.Index, s.Offset, s.Size, s.Created, mark)
	}
	if c.LTXBase != 0 {
		if err := h.writeLTX(work, c.LTXBase); err != nil {
			hx.Fatal(err)
		}
		evalFormat(h, c, work, drv, res, &mu, note)
	} else {
		io, model, _ := evalCase(h, c, work, drv, res, &mu, note, true)
		fmt.Printf("T=%d\nimpl:  %s state=%s %s\nmodel: %s\n", c.T, io.canon, io.hash, io.err, model)
	}
	if fail {
		os.Exit(1)
	}
}
