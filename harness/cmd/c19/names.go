package main

// Stream `names` of engine c19: the naming and listing layer under the legacy restore
// (v3.go Format…/Parse…FilenameV3, IsGenerationIDV3; file client GenerationsV3 / SnapshotsV3 /
// WALSegmentsV3) against lean/Litestream/Model/V3Name.lean, plus the property's own oracles:
// every in-range position round-trips through its name, and a directory holding formatted names
// (with junk beside them) lists exactly those positions, sorted by index then offset.

import (
	"context"
	"encoding/hex"
	"fmt"
	"os"
	"path/filepath"
	"sort"
	"strings"

	"github.com/benbjohnson/litestream"
	"github.com/benbjohnson/litestream/file"

	"verif/harness/hx"
)

type NameCase struct {
	Kind  string   `json:"kind"` // parse-snap | parse-seg | parse-gen | fmt-snap | fmt-seg | list
	Name  string   `json:"name,omitempty"` // hex
	Index int      `json:"index,omitempty"`
	Off   int64    `json:"off,omitempty"`
	Names []string `json:"names,omitempty"` // hex, directory entries (files)
	Dirs  []string `json:"dirs,omitempty"`  // hex, directory entries that are directories
}

func implParse(kind, name string) string {
	switch kind {
	case "snap":
		i, err := litestream.ParseSnapshotFilenameV3(name)
		if err != nil {
			return "none"
		}
		return fmt.Sprintf("ok %d", i)
	case "seg":
		i, o, err := litestream.ParseWALSegmentFilenameV3(name)
		if err != nil {
			return "none"
		}
		return fmt.Sprintf("ok %d:%d", i, o)
	default:
		if litestream.IsGenerationIDV3(name) {
			return "gen 1"
		}
		return "gen 0"
	}
}

var idxBounds = []int{0, 1, 9, 10, 15, 16, 255, 256, 0xabcdef, 1<<31 - 1, 1 << 31, 1<<32 - 1, 1 << 32, 1<<32 + 5, 1 << 40}
var offBounds = []int64{0, 1, 15, 16, 4152, 1<<31 - 1, 1 << 31, 1<<32 - 1, 1 << 32, 1<<32 + 1, 1<<36 + 7, 1<<62 + 3, 1<<63 - 1}

func randIndex(r *hx.Rand) int {
	switch r.Intn(4) {
	case 0:
		return idxBounds[r.Intn(len(idxBounds))]
	case 1:
		return r.Intn(1 << 12)
	default:
		return int(r.Uint64() >> uint(33+r.Intn(31)))
	}
}

func randOffset(r *hx.Rand) int64 {
	switch r.Intn(4) {
	case 0:
		return offBounds[r.Intn(len(offBounds))]
	case 1:
		return int64(r.Intn(1 << 20))
	default:
		return int64(r.Uint64() >> uint(1+r.Intn(62)))
	}
}

// mutate returns a near-miss of a valid name.
func mutate(r *hx.Rand, s string) string {
	b := []byte(s)
	pos := func() int { return r.Intn(len(b)) }
	switch r.Intn(12) {
	case 0: // upper-case a hex letter
		return strings.ToUpper(s[:9]) + s[9:]
	case 1:
		b[pos()] = "0123456789abcdefgG_.-xzAF"[r.Intn(25)]
	case 2: // delete
		p := pos()
		b = append(b[:p], b[p+1:]...)
	case 3: // insert a hex digit (changes the group widths)
		p := pos()
		b = append(b[:p], append([]byte{"0123456789abcdef"[r.Intn(16)]}, b[p:]...)...)
	case 4:
		return s + "\n"
	case 5:
		return s + ".tmp"
	case 6:
		return "x" + s
	case 7: // non-ASCII byte
		b[pos()] = byte(0x80 + r.Intn(0x7f))
	case 8: // other suffix
		if i := strings.IndexByte(s, '.'); i >= 0 {
			return s[:i] + []string{".wal", ".lz4", ".snapshot.lz4", ".wal.lz4", ".wal.lz4 ", ".WAL.LZ4", ".ltx"}[r.Intn(7)]
		}
	case 9: // offset group of a chosen width 6..18 (leading zeros / too long)
		if i := strings.IndexByte(s, '_'); i >= 0 {
			w := 6 + r.Intn(13)
			return s[:i+1] + fmt.Sprintf("%0*x", w, r.Uint64()>>uint(r.Intn(64))) + ".wal.lz4"
		}
	case 10: // 16-digit offset with the top bit set (out of int64 range)
		if i := strings.IndexByte(s, '_'); i >= 0 {
			return s[:i+1] + fmt.Sprintf("%016x", r.Uint64()|1<<63) + ".wal.lz4"
		}
	case 11: // index with the top bit set (out of int32 range)
		return fmt.Sprintf("%08x", uint32(r.Uint64())|1<<31) + s[8:]
	}
	return string(b)
}

func validEntryName(s string) bool {
	return s != "" && s != "." && s != ".." && len(s) < 250 && !strings.ContainsAny(s, "/\x00")
}

func runNames(o *hx.Opts, res *hx.Result, only *NameCase) (failed bool) {
	drv, err := hx.StartDriver(o.Driver)
	if err != nil {
		hx.Fatal(err)
	}
	defer drv.Close()
	rnd := hx.NewRand(o.Seed ^ 0x6e616d6573)
	ask := func(line string) string {
		out, err := drv.Ask(line)
		if err != nil {
			hx.Fatal(err)
		}
		return out
	}
	found := map[string]bool{}
	report := func(kind, sig, what string, c NameCase) {
		failed = true
		if only != nil {
			fmt.Printf("%s: %s — %s\n", kind, sig, what)
			return
		}
		if !found[kind+sig] { // first (the generators go from boundary values to random ones)
			found[kind+sig] = true
			res.AddFinding(kind, sig, what, map[string]any{"names": c})
		}
	}
	parseOne := func(kind, name string) {
		c := NameCase{Kind: "parse-" + kind, Name: hex.EncodeToString([]byte(name))}
		impl := implParse(kind, name)
		model := ask(fmt.Sprintf("nparse K=%s HEX=%s", kind, c.Name))
		res.Count("names:parse-" + kind + ":" + strings.Fields(impl)[0])
		res.Case("nparse|"+kind+"|"+c.Name, impl != "none" && impl != "gen 0")
		if hx.Differs(impl, model) {
			report("disagreement", "C19/names-parse-model-vs-code", fmt.Sprintf("%s name %q: code %s, model %s", kind, name, impl, model), c)
		}
	}
	fmtSnap := func(i int) {
		c := NameCase{Kind: "fmt-snap", Index: i}
		name := litestream.FormatSnapshotFilenameV3(i)
		model := ask(fmt.Sprintf("nfmt K=snap I=%d", i))
		res.Count("names:fmt-snap")
		res.Case(fmt.Sprintf("nfmt|snap|%d", i), true)
		if hx.Differs(name, model) {
			report("disagreement", "C19/names-format-model-vs-code", fmt.Sprintf("snapshot %d: code %q, model %q", i, name, model), c)
		}
		// oracle: an index of at most eight hex digits comes back
		if got, err := litestream.ParseSnapshotFilenameV3(name); i < 1<<32 && (err != nil || got != i) {
			report("violation", "C19/snapshot-name-roundtrip", fmt.Sprintf("snapshot index %d is stored as %q, which parses to %d (%v)", i, name, got, err), c)
		}
		parseOne("snap", name)
	}
	fmtSeg := func(i int, off int64) {
		c := NameCase{Kind: "fmt-seg", Index: i, Off: off}
		name := litestream.FormatWALSegmentFilenameV3(i, off)
		model := ask(fmt.Sprintf("nfmt K=seg I=%d O=%d", i, off))
		res.Count("names:fmt-seg")
		res.Case(fmt.Sprintf("nfmt|seg|%d|%d", i, off), true)
		if hx.Differs(name, model) {
			report("disagreement", "C19/names-format-model-vs-code", fmt.Sprintf("segment %d/%d: code %q, model %q", i, off, name, model), c)
		}
		if gi, go_, err := litestream.ParseWALSegmentFilenameV3(name); i < 1<<31 && (err != nil || gi != i || go_ != off) {
			report("violation", "C19/segment-name-roundtrip", fmt.Sprintf("segment %d/%d is stored as %q, which parses to %d/%d (%v)", i, off, name, gi, go_, err), c)
		}
		parseOne("seg", name)
	}
	listOne := func(c NameCase) {
		dir, err := os.MkdirTemp("", "c19-names-")
		if err != nil {
			hx.Fatal(err)
		}
		defer os.RemoveAll(dir)
		gen := "0123456789abcdef"
		wal := filepath.Join(dir, "generations", gen, "wal")
		snp := filepath.Join(dir, "generations", gen, "snapshots")
		os.MkdirAll(wal, 0o755)
		os.MkdirAll(snp, 0o755)
		var names []string
		for _, h := range c.Names {
			b, _ := hex.DecodeString(h)
			if os.WriteFile(filepath.Join(wal, string(b)), []byte("x"), 0o644) != nil || os.WriteFile(filepath.Join(snp, string(b)), []byte("x"), 0o644) != nil {
				continue // the file system refused the name: not part of the case
			}
			names = append(names, h)
		}
		for _, h := range c.Dirs {
			b, _ := hex.DecodeString(h)
			os.Mkdir(filepath.Join(wal, string(b)), 0o755)
			os.Mkdir(filepath.Join(snp, string(b)), 0o755)
			os.Mkdir(filepath.Join(dir, "generations", string(b)), 0o755) // generation candidates
			os.WriteFile(filepath.Join(dir, "generations", string(b)+"0"), nil, 0o644)
		}
		client := file.NewReplicaClient(dir)
		segs, err1 := client.WALSegmentsV3(context.Background(), gen)
		snaps, err2 := client.SnapshotsV3(context.Background(), gen)
		gens, err3 := client.GenerationsV3(context.Background())
		if err1 != nil || err2 != nil || err3 != nil {
			report("violation", "C19/listing-error", fmt.Sprintf("listing failed: %v %v %v", err1, err2, err3), c)
			return
		}
		var si, sn []string
		for _, s := range segs {
			si = append(si, fmt.Sprintf("%d:%d", s.Index, s.Offset))
		}
		for _, s := range snaps {
			sn = append(sn, fmt.Sprint(s.Index))
		}
		dash := func(l []string) string {
			if len(l) == 0 {
				return "-"
			}
			return strings.Join(l, ",")
		}
		implSeg, implSnap := dash(si), dash(sn)
		arg := strings.Join(names, ",")
		modelSeg := ask("nlist K=seg N=" + arg)
		modelSnap := ask("nlist K=snap N=" + arg)
		res.Count(fmt.Sprintf("names:list:segments=%d", min(len(si), 8)))
		res.Case("nlist|"+arg+"|"+strings.Join(c.Dirs, ","), len(si) > 1)
		if hx.Differs(implSeg, modelSeg) {
			report("disagreement", "C19/names-listing-model-vs-code", fmt.Sprintf("WALSegmentsV3: code %s, model %s", implSeg, modelSeg), c)
		}
		if hx.Differs(implSnap, modelSnap) {
			report("disagreement", "C19/names-listing-model-vs-code", fmt.Sprintf("SnapshotsV3: code %s, model %s", implSnap, modelSnap), c)
		}
		// generations: exactly the directories with a 16-hex name, sorted
		want := []string{gen}
		for _, h := range c.Dirs {
			b, _ := hex.DecodeString(h)
			if m := ask("nparse K=gen HEX=" + h); m == "gen 1" && string(b) != gen {
				want = append(want, string(b))
			}
		}
		sort.Strings(want)
		if strings.Join(gens, ",") != strings.Join(want, ",") {
			report("disagreement", "C19/names-listing-model-vs-code", fmt.Sprintf("GenerationsV3: code %q, model %q", gens, want), c)
		}
		// oracle (independent of the model): every in-range position written under its formatted
		// name is listed, and the listing ascends by (index, offset)
		have := map[string]bool{}
		for _, s := range si {
			have[s] = true
		}
		for _, h := range names {
			b, _ := hex.DecodeString(h)
			var i int
			var off int64
			if n, _ := fmt.Sscanf(string(b), "%08x_%x.wal.lz4", &i, &off); n == 2 && i < 1<<31 && off >= 0 &&
				string(b) == litestream.FormatWALSegmentFilenameV3(i, off) && !have[fmt.Sprintf("%d:%d", i, off)] {
				report("violation", "C19/listing-loses-segment", fmt.Sprintf("segment file %q (%d/%d) is not in the listing %s", b, i, off, implSeg), c)
			}
		}
		for k := 1; k < len(segs); k++ {
			a, b := segs[k-1], segs[k]
			if a.Index > b.Index || (a.Index == b.Index && a.Offset > b.Offset) {
				report("violation", "C19/listing-unsorted", fmt.Sprintf("listing not ascending: %d/%d before %d/%d", a.Index, a.Offset, b.Index, b.Offset), c)
			}
		}
	}

	if only != nil {
		switch only.Kind {
		case "fmt-snap":
			fmtSnap(only.Index)
		case "fmt-seg":
			fmtSeg(only.Index, only.Off)
		case "list":
			listOne(*only)
		default:
			b, _ := hex.DecodeString(only.Name)
			parseOne(strings.TrimPrefix(only.Kind, "parse-"), string(b))
		}
		return failed
	}

	n := 4000
	if o.Tier == "thorough" {
		n = 60000
	}
	for _, i := range idxBounds {
		fmtSnap(i)
		for _, off := range offBounds {
			fmtSeg(i, off)
		}
	}
	for k := 0; k < n; k++ {
		i, off := randIndex(rnd), randOffset(rnd)
		fmtSnap(i)
		fmtSeg(i, off)
		seg, snap := litestream.FormatWALSegmentFilenameV3(i, off), litestream.FormatSnapshotFilenameV3(i)
		m1, m2 := mutate(rnd, seg), mutate(rnd, snap)
		for _, kind := range []string{"snap", "seg", "gen"} {
			parseOne(kind, m1)
			parseOne(kind, m2)
		}
		g := fmt.Sprintf("%016x", rnd.Uint64())
		parseOne("gen", g)
		mg := mutate(rnd, g+".wal.lz4")
		if len(mg) > 17 {
			mg = mg[:15+rnd.Intn(3)]
		}
		parseOne("gen", mg)
	}
	// listings
	for k := 0; k < n/40; k++ {
		c := NameCase{Kind: "list"}
		seen := map[string]bool{}
		add := func(list *[]string, s string) {
			if validEntryName(s) && !seen[s] {
				seen[s] = true
				*list = append(*list, hex.EncodeToString([]byte(s)))
			}
		}
		m := 1 + rnd.Intn(14)
		base := rnd.Intn(1 << 10)
		for j := 0; j < m; j++ {
			i, off := base+rnd.Intn(4), randOffset(rnd)
			if rnd.Chance(15) {
				i = randIndex(rnd)
			}
			seg := litestream.FormatWALSegmentFilenameV3(i, off)
			switch rnd.Intn(10) {
			case 0:
				add(&c.Names, mutate(rnd, seg))
			case 1:
				add(&c.Dirs, seg) // a directory under a valid segment name is skipped
			case 2:
				add(&c.Names, litestream.FormatSnapshotFilenameV3(i))
			case 3:
				add(&c.Dirs, fmt.Sprintf("%016x", rnd.Uint64()))
			case 4:
				add(&c.Dirs, mutate(rnd, fmt.Sprintf("%016x", rnd.Uint64())))
			default:
				add(&c.Names, seg)
			}
		}
		// directory order is the file system's; the model is given a shuffled order (list_segs_perm)
		for i := len(c.Names) - 1; i > 0; i-- {
			j := rnd.Intn(i + 1)
			c.Names[i], c.Names[j] = c.Names[j], c.Names[i]
		}
		listOne(c)
	}
	return failed
}
