// Engine c07: the real retention functions vs the Lean retention model (listing
// stream) and real histories with interleaved retention passes judged by the
// C07 oracle (history stream).
package main

import (
	"bytes"
	"context"
	"database/sql"
	"encoding/json"
	"fmt"
	"io"
	"log/slog"
	"os"
	"path/filepath"
	"sort"
	"strings"
	"time"

	"github.com/benbjohnson/litestream"
	"github.com/benbjohnson/litestream/file"
	"github.com/superfly/ltx"
	_ "modernc.org/sqlite"

	"verif/harness/hx"
)

type F struct {
	L   int `json:"l"`
	Min int `json:"min"`
	Max int `json:"max"`
	Cr  int `json:"cr"` // ms relative to the case epoch
}

// LCase is one listing-stream case (also the replay payload).
type LCase struct {
	Op     string `json:"op"` // snapdb snapcomp txid txiddb l0db l0comp cascade repsnap repl0 repcascade
	Files  []F    `json:"files"`
	Local  []F    `json:"local,omitempty"`
	Thr    int    `json:"thr"`
	Level  int    `json:"level,omitempty"`
	TX     int    `json:"tx,omitempty"`
	LV     int    `json:"lv,omitempty"`
	EN     int    `json:"en"`
	Shaped bool   `json:"shaped"`
}

const (
	retention = time.Hour
	thrMs     = 9 * 3600 * 1000 // threshold in case-relative ms (epoch = t0 - 10h, threshold = t0 - 1h)
	guardMs   = 10_000
)

var quiet = slog.New(slog.NewTextHandler(io.Discard, &slog.HandlerOptions{Level: slog.LevelError + 10}))

func fmtFiles(fs []F, withCr bool) string {
	s := append([]F(nil), fs...)
	sort.Slice(s, func(i, j int) bool {
		a, b := s[i], s[j]
		if a.L != b.L {
			return a.L < b.L
		}
		if a.Min != b.Min {
			return a.Min < b.Min
		}
		return a.Max < b.Max
	})
	parts := make([]string, len(s))
	for i, f := range s {
		if withCr {
			parts[i] = fmt.Sprintf("%d:%d:%d:%d", f.L, f.Min, f.Max, f.Cr)
		} else {
			parts[i] = fmt.Sprintf("%d:%d:%d", f.L, f.Min, f.Max)
		}
	}
	return strings.Join(parts, ",")
}

func (c LCase) line() string {
	fs := fmtFiles(c.Files, true)
	switch c.Op {
	case "snapdb":
		return fmt.Sprintf("snapret V=db THR=%d F=%s", c.Thr, fs)
	case "snapcomp":
		return fmt.Sprintf("snapret V=compactor THR=%d F=%s", c.Thr, fs)
	case "txid", "txiddb":
		return fmt.Sprintf("txidret L=%d TX=%d F=%s", c.Level, c.TX, fs)
	case "l0db", "l0comp":
		return fmt.Sprintf("l0ret EN=%d THR=%d F=%s", c.EN, c.Thr, fs)
	case "cascade":
		return fmt.Sprintf("cascade V=db THR=%d LV=%d F=%s", c.Thr, c.LV, fs)
	case "repsnap":
		return fmt.Sprintf("rep OP=snapret EN=%d THR=%d LV=%d F=%s LOC=%s", c.EN, c.Thr, c.LV, fs, fmtFiles(c.Local, true))
	case "repl0":
		return fmt.Sprintf("rep OP=l0ret EN=%d THR=%d LV=%d F=%s LOC=%s", c.EN, c.Thr, c.LV, fs, fmtFiles(c.Local, true))
	case "repcascade":
		return fmt.Sprintf("rep OP=cascade EN=%d THR=%d LV=%d F=%s LOC=%s", c.EN, c.Thr, c.LV, fs, fmtFiles(c.Local, true))
	}
	return "?"
}

func levelsN(n int) litestream.CompactionLevels {
	lv := litestream.CompactionLevels{{Level: 0}}
	for i := 1; i <= n; i++ {
		lv = append(lv, &litestream.CompactionLevel{Level: i, Interval: time.Duration(i) * time.Minute})
	}
	return lv
}

func listDir(fc *file.ReplicaClient, epoch time.Time) ([]F, error) {
	var out []F
	for l := 0; l <= litestream.SnapshotLevel; l++ {
		itr, err := fc.LTXFiles(context.Background(), l, 0, false)
		if err != nil {
			return nil, err
		}
		for itr.Next() {
			i := itr.Item()
			out = append(out, F{L: l, Min: int(i.MinTXID), Max: int(i.MaxTXID), Cr: int(i.CreatedAt.Sub(epoch).Milliseconds())})
		}
		itr.Close()
	}
	return out, nil
}

func listLocal(db *litestream.DB) []F {
	var out []F
	for l := 0; l <= litestream.SnapshotLevel; l++ {
		ents, err := os.ReadDir(db.LTXLevelDir(l))
		if err != nil {
			continue
		}
		for _, e := range ents {
			mn, mx, err := ltx.ParseFilename(e.Name())
			if err != nil {
				continue
			}
			out = append(out, F{L: l, Min: int(mn), Max: int(mx)})
		}
	}
	return out
}

func diff(before, after []F) []F {
	k := map[[3]int]bool{}
	for _, f := range after {
		k[[3]int{f.L, f.Min, f.Max}] = true
	}
	var d []F
	for _, f := range before {
		if !k[[3]int{f.L, f.Min, f.Max}] {
			d = append(d, f)
		}
	}
	return d
}

func touch(p string, mt time.Time) error {
	if err := os.MkdirAll(filepath.Dir(p), 0o755); err != nil {
		return err
	}
	if err := os.WriteFile(p, nil, 0o644); err != nil {
		return err
	}
	return os.Chtimes(p, mt, mt)
}

// lres is what the real code did on one listing case.
type lres struct {
	out    string // canonical, comparable with the driver
	before []F
	after  []F
	slow   bool
	err    error
}

// runListing builds the replica directory for c and runs the real function.
func runListing(tmp string, c LCase) lres {
	ctx := context.Background()
	dir, err := os.MkdirTemp(tmp, "l-")
	if err != nil {
		return lres{err: err}
	}
	defer os.RemoveAll(dir)
	t0 := time.Now().Truncate(time.Millisecond)
	epoch := t0.Add(-10 * time.Hour)
	fc := file.NewReplicaClient(filepath.Join(dir, "replica"))
	for _, f := range c.Files {
		if err := touch(fc.LTXFilePath(f.L, ltx.TXID(f.Min), ltx.TXID(f.Max)), epoch.Add(time.Duration(f.Cr)*time.Millisecond)); err != nil {
			return lres{err: err}
		}
	}
	db := litestream.NewDB(filepath.Join(dir, "db"))
	db.MonitorInterval = 0
	db.SetLogger(quiet)
	db.Replica = litestream.NewReplicaWithClient(db, fc)
	db.Replica.MonitorEnabled = false
	enabled := c.EN == 1 || !strings.HasPrefix(c.Op, "rep")
	db.RetentionEnabled = enabled
	for _, f := range c.Local {
		if err := touch(db.LTXPath(f.L, ltx.TXID(f.Min), ltx.TXID(f.Max)), t0); err != nil {
			return lres{err: err}
		}
	}
	before, err := listDir(fc, epoch)
	if err != nil {
		return lres{err: err}
	}
	comp := litestream.NewCompactor(fc, quiet)
	floor := -1
	var opErr error
	func() {
		defer func() {
			if p := recover(); p != nil {
				opErr = fmt.Errorf("PANIC: %v", p)
			}
		}()
		switch c.Op {
		case "snapdb", "repsnap":
			var fl ltx.TXID
			fl, opErr = db.EnforceSnapshotRetention(ctx, epoch.Add(time.Duration(c.Thr)*time.Millisecond))
			floor = int(fl)
		case "snapcomp":
			var fl ltx.TXID
			fl, opErr = comp.EnforceSnapshotRetention(ctx, retention)
			floor = int(fl)
		case "txid":
			opErr = comp.EnforceRetentionByTXID(ctx, c.Level, ltx.TXID(c.TX))
		case "txiddb":
			if opErr = db.Open(); opErr == nil {
				opErr = db.EnforceRetentionByTXID(ctx, c.Level, ltx.TXID(c.TX))
			}
		case "l0db", "repl0":
			db.L0Retention = retention
			if c.EN == 0 && c.Op == "l0db" {
				db.L0Retention = 0
			}
			opErr = db.EnforceL0RetentionByTime(ctx)
		case "l0comp":
			r := retention
			if c.EN == 0 {
				r = 0
			}
			opErr = comp.EnforceL0Retention(ctx, r)
		case "cascade", "repcascade":
			st := litestream.NewStore([]*litestream.DB{db}, levelsN(c.LV))
			st.Logger = quiet
			db.SetLogger(quiet)
			st.SnapshotRetention = retention
			st.RetentionEnabled = enabled
			db.RetentionEnabled = enabled
			if opErr = db.Open(); opErr == nil {
				opErr = st.EnforceSnapshotRetention(ctx, db)
			}
		default:
			opErr = fmt.Errorf("unknown op %q", c.Op)
		}
	}()
	slow := time.Since(t0) > guardMs/2*time.Millisecond
	after, err := listDir(fc, epoch)
	if err != nil {
		return lres{err: err}
	}
	locAfter := listLocal(db)
	_ = db.Close(ctx)
	r := lres{before: before, after: after, slow: slow}
	if opErr != nil {
		r.out = "err " + opErr.Error()
		return r
	}
	if strings.HasPrefix(c.Op, "rep") {
		r.out = fmt.Sprintf("ok remote=%s local=%s", fmtFiles(after, false), fmtFiles(locAfter, false))
	} else {
		r.out = fmt.Sprintf("ok floor=%d del=%s keep=%s", floor, fmtFiles(diff(before, after), false), fmtFiles(after, false))
	}
	return r
}

// normModel drops the floor field where the real call does not return one.
func normModel(c LCase, m string) string {
	if c.Op == "snapdb" || c.Op == "snapcomp" || strings.HasPrefix(c.Op, "rep") {
		return m
	}
	f := strings.Fields(m)
	if len(f) >= 2 && strings.HasPrefix(f[1], "floor=") {
		f[1] = "floor=-1"
	}
	return strings.Join(f, " ")
}

// ---- independent oracle helpers (no model involved) ----

// reach = highest chain end reachable from TXID 0 over fs (brute force fixpoint), 0 if none.
func reach(fs []F) int {
	r := map[int]bool{0: true}
	for changed := true; changed; {
		changed = false
		for _, f := range fs {
			if f.L > 9 || r[f.Max] {
				continue
			}
			if f.L == 9 && f.Min != 1 {
				continue
			}
			for cur := range r {
				if f.Min <= cur+1 && f.Max > cur {
					r[f.Max] = true
					changed = true
					break
				}
			}
		}
	}
	best := 0
	for k := range r {
		if k > best {
			best = k
		}
	}
	return best
}

func level(fs []F, l int) []F {
	var o []F
	for _, f := range fs {
		if f.L == l {
			o = append(o, f)
		}
	}
	sort.Slice(o, func(i, j int) bool {
		if o[i].Min != o[j].Min {
			return o[i].Min < o[j].Min
		}
		return o[i].Max < o[j].Max
	})
	return o
}

func adjacent(l []F) bool {
	for i := 1; i < len(l); i++ {
		if l[i].Min != l[i-1].Max+1 {
			return false
		}
	}
	return true
}

func maxOf(l []F) int {
	m := 0
	for _, f := range l {
		if f.Max > m {
			m = f.Max
		}
	}
	return m
}

// planLatest runs the real planner on a file set (through a scratch file replica).
func realLatest(tmp string, fs []F) (int, error) {
	dir, err := os.MkdirTemp(tmp, "p-")
	if err != nil {
		return 0, err
	}
	defer os.RemoveAll(dir)
	fc := file.NewReplicaClient(dir)
	for _, f := range fs {
		if err := touch(fc.LTXFilePath(f.L, ltx.TXID(f.Min), ltx.TXID(f.Max)), time.Now()); err != nil {
			return 0, err
		}
	}
	infos, err := litestream.CalcRestorePlan(context.Background(), fc, 0, time.Time{}, quiet)
	if err != nil {
		return 0, err
	}
	return int(infos[len(infos)-1].MaxTXID), nil
}

// listingOracle judges what the real code did on a litestream-shaped listing.
func listingOracle(tmp string, c LCase, r lres) (sig, what string) {
	n0 := reach(r.before)
	n1, err := realLatest(tmp, r.after)
	if err != nil {
		return "latest-lost", fmt.Sprintf("latest TXID %d was restorable before %s, afterwards CalcRestorePlan fails: %v", n0, c.Op, err)
	}
	if n1 != n0 {
		return "latest-lost", fmt.Sprintf("latest restorable TXID was %d before %s and is %d afterwards", n0, c.Op, n1)
	}
	if len(level(r.before, 9)) > 0 && len(level(r.after, 9)) == 0 {
		return "no-snapshot-left", "all snapshots deleted by " + c.Op
	}
	b0, a0 := level(r.before, 0), level(r.after, 0)
	if len(b0) > 0 && adjacent(b0) {
		if len(a0) == 0 || !adjacent(a0) || a0[len(a0)-1] != b0[len(b0)-1] {
			return "l0-not-suffix", fmt.Sprintf("level-0 survivors %s are not one contiguous run ending at the newest of %s", fmtFiles(a0, false), fmtFiles(b0, false))
		}
	}
	return "", ""
}

// ---- generators ----

func ageAround(rnd *hx.Rand, exact bool) int {
	if exact {
		return thrMs + rnd.Intn(5) - 2
	}
	k := rnd.Intn(3) + 1
	if rnd.Bool() {
		return thrMs - k*guardMs
	}
	return thrMs + k*guardMs
}

// partition [a..b] into consecutive intervals.
func partition(rnd *hx.Rand, lvl, a, b, maxw int) []F {
	var o []F
	for a <= b {
		w := 1 + rnd.Intn(maxw)
		e := a + w - 1
		if e > b {
			e = b
		}
		o = append(o, F{L: lvl, Min: a, Max: e})
		a = e + 1
	}
	return o
}

// shaped draws a litestream-shaped replica: snapshots 1..m, contiguous levels, L0 run to N;
// rejection-sampled so that the latest TXID is restorable and L1's maximum is covered without L0.
func shaped(rnd *hx.Rand, exact bool) ([]F, int) {
	for {
		n := 2 + rnd.Intn(22)
		lv := 1 + rnd.Intn(3)
		var fs []F
		nsnap := rnd.Intn(4)
		for i := 0; i < nsnap; i++ {
			fs = append(fs, F{L: 9, Min: 1, Max: 1 + rnd.Intn(n)})
		}
		top := n
		for l := 1; l <= lv; l++ {
			if rnd.Chance(15) {
				break
			}
			m := rnd.Intn(top + 1)
			if m == 0 {
				break
			}
			a := 1
			if rnd.Chance(50) {
				a = 1 + rnd.Intn(m)
			}
			fs = append(fs, partition(rnd, l, a, m, 1+l*2)...)
			top = m
		}
		a0 := 1 + rnd.Intn(n)
		if rnd.Chance(40) {
			a0 = 1
		}
		fs = append(fs, partition(rnd, 0, a0, n, 1)...)
		// dedupe keys
		seen := map[[3]int]bool{}
		var u []F
		for _, f := range fs {
			k := [3]int{f.L, f.Min, f.Max}
			if !seen[k] {
				seen[k] = true
				u = append(u, f)
			}
		}
		fs = u
		if reach(fs) != n {
			continue
		}
		var non0 []F
		for _, f := range fs {
			if f.L != 0 {
				non0 = append(non0, f)
			}
		}
		if m1 := maxOf(level(fs, 1)); m1 > 0 && reach(non0) < m1 {
			continue
		}
		// ages: monotone in MaxTXID (older data is older) or arbitrary
		if rnd.Chance(60) {
			sort.SliceStable(fs, func(i, j int) bool { return fs[i].Max < fs[j].Max })
			cut := rnd.Intn(len(fs) + 1)
			for i := range fs {
				fs[i].Cr = ageAround(rnd, exact)
				if !exact {
					if i < cut {
						fs[i].Cr = thrMs - (1+rnd.Intn(3))*guardMs
					} else {
						fs[i].Cr = thrMs + (1+rnd.Intn(3))*guardMs
					}
				}
			}
		} else {
			for i := range fs {
				fs[i].Cr = ageAround(rnd, exact)
			}
		}
		return fs, lv
	}
}

func wild(rnd *hx.Rand, exact bool) []F {
	n := 1 + rnd.Intn(9)
	seen := map[[3]int]bool{}
	var fs []F
	lvls := []int{0, 0, 0, 1, 1, 2, 3, 9, 9}
	for i := 0; i < n; i++ {
		l := lvls[rnd.Intn(len(lvls))]
		mn := 1 + rnd.Intn(8)
		mx := mn + rnd.Intn(4)
		if l == 9 && rnd.Chance(80) {
			mn = 1
		}
		k := [3]int{l, mn, mx}
		if seen[k] {
			continue
		}
		seen[k] = true
		fs = append(fs, F{L: l, Min: mn, Max: mx, Cr: ageAround(rnd, exact)})
	}
	return fs
}

func snapMaxOf(fs []F) int {
	s := level(fs, 9)
	if len(s) == 0 {
		return 0
	}
	return s[len(s)-1].Max
}

var listingOps = []string{"snapdb", "snapdb", "snapcomp", "txid", "txiddb", "l0db", "l0db", "l0comp", "cascade", "cascade", "repsnap", "repl0", "repcascade"}

func genListing(rnd *hx.Rand) LCase {
	c := LCase{Op: listingOps[rnd.Intn(len(listingOps))], Thr: thrMs, EN: 1}
	exact := c.Op == "snapdb" || c.Op == "repsnap"
	c.Shaped = rnd.Chance(70)
	if c.Shaped {
		c.Files, c.LV = shaped(rnd, exact)
	} else {
		c.Files = wild(rnd, exact)
		c.LV = 1 + rnd.Intn(3)
	}
	switch c.Op {
	case "txid", "txiddb":
		c.Level = []int{0, 1, 1, 2, 3, 9}[rnd.Intn(6)]
		if c.Shaped {
			c.TX = rnd.Intn(snapMaxOf(c.Files) + 1)
		} else {
			c.TX = rnd.Intn(12)
		}
	case "l0db", "l0comp":
		if rnd.Chance(10) {
			c.EN = 0
		}
	case "repsnap", "repl0", "repcascade":
		c.EN = rnd.Intn(2)
		for _, f := range c.Files {
			if rnd.Chance(60) {
				c.Local = append(c.Local, F{L: f.L, Min: f.Min, Max: f.Max})
			}
		}
		if rnd.Chance(30) {
			c.Local = append(c.Local, F{L: 0, Min: 90, Max: 90})
		}
	}
	return c
}

// oracleApplies: the property oracle judges litestream-shaped listings only, i.e. those
// meeting the theorem's hypotheses (checked here independently of the model): something is
// restorable and L1's maximum is reachable without level-0 files; a raw EnforceRetentionByTXID
// must get a floor bounded by the newest snapshot.
func oracleApplies(c LCase) bool {
	if !c.Shaped || reach(c.Files) == 0 {
		return false
	}
	var non0 []F
	for _, f := range c.Files {
		if f.L != 0 {
			non0 = append(non0, f)
		}
		if f.Min < 1 || f.Max < f.Min {
			return false
		}
	}
	if m1 := maxOf(level(c.Files, 1)); m1 > 0 && reach(non0) < m1 {
		return false
	}
	if (c.Op == "txid" || c.Op == "txiddb") && c.TX > snapMaxOf(c.Files) {
		return false
	}
	return true
}

// evalListing runs one listing case; returns finding kind/signature/what ("" = fine).
func evalListing(tmp string, drv *hx.Driver, c LCase, res *hx.Result) (kind, sig, what string) {
	r := runListing(tmp, c)
	if r.err != nil {
		hx.Fatal(r.err)
	}
	if r.slow {
		if res != nil {
			res.Count("discarded-slow")
		}
		return "", "", ""
	}
	line := c.line()
	model, err := drv.Ask(line)
	if err != nil {
		hx.Fatal(err)
	}
	model = normModel(c, model)
	if res != nil {
		res.Case(line, len(diff(r.before, r.after)) > 0)
		res.Count("listing:" + c.Op)
		if len(diff(r.before, r.after)) > 0 {
			res.Count("listing-deleted-something")
		}
		if c.Shaped {
			res.Count("listing-shaped")
		}
		res.Sample(map[string]string{"line": line, "impl": r.out})
	}
	if strings.HasPrefix(r.out, "err PANIC") {
		return "violation", "C07/retention-panics", fmt.Sprintf("%s: %s", c.Op, r.out)
	}
	if oracleApplies(c) {
		if s, w := listingOracle(tmp, c, r); s != "" {
			return "violation", "C07/" + s, w
		}
	}
	if hx.Differs(r.out, model) {
		return "disagreement", "C07/model-vs-impl-" + c.Op, fmt.Sprintf("impl=%q model=%q", r.out, model)
	}
	return "", "", ""
}

func shrinkListing(c LCase, fails func(LCase) bool) LCase {
	for changed := true; changed; {
		changed = false
		for i := range c.Files {
			d := c
			d.Files = append(append([]F(nil), c.Files[:i]...), c.Files[i+1:]...)
			if fails(d) {
				c = d
				changed = true
				break
			}
		}
	}
	return c
}

// ---- history stream ----

type HOp struct {
	Op  string `json:"op"` // write sync compact snapshot age ageall cascade l0ret
	Arg int    `json:"arg,omitempty"`
	Sel uint64 `json:"sel,omitempty"` // selection seed for `age`
}

type HCase struct {
	Ops     []HOp `json:"ops"`
	LV      int   `json:"lv"`
	Enabled bool  `json:"enabled"`
}

func genHistory(rnd *hx.Rand, n int) HCase {
	h := HCase{LV: 1 + rnd.Intn(3), Enabled: !rnd.Chance(15)}
	for i := 0; i < n; i++ {
		x := rnd.Intn(100)
		switch {
		case x < 28:
			h.Ops = append(h.Ops, HOp{Op: "write", Arg: 1 + rnd.Intn(3)}, HOp{Op: "sync"})
		case x < 45:
			h.Ops = append(h.Ops, HOp{Op: "compact", Arg: 1 + rnd.Intn(h.LV)})
		case x < 57:
			h.Ops = append(h.Ops, HOp{Op: "snapshot"})
		case x < 67:
			h.Ops = append(h.Ops, HOp{Op: "age", Sel: rnd.Uint64()})
		case x < 78:
			h.Ops = append(h.Ops, HOp{Op: "ageall"})
		case x < 88:
			h.Ops = append(h.Ops, HOp{Op: "cascade"})
		case x < 94:
			h.Ops = append(h.Ops, HOp{Op: "l0ret"})
		default:
			// retention while the replica lags the database: compaction, every file old, one more
			// commit synced locally but not uploaded, then the retention pass
			h.Ops = append(h.Ops, HOp{Op: "compact", Arg: 1}, HOp{Op: "ageall"})
			if rnd.Chance(70) {
				h.Ops = append(h.Ops, HOp{Op: "l0retlag"})
			} else {
				h.Ops = append(h.Ops, HOp{Op: "cascadelag"})
			}
		}
	}
	return h
}

type hist struct {
	dir   string
	sqldb *sql.DB
	db    *litestream.DB
	fc    *file.ReplicaClient
	store *litestream.Store
	epoch time.Time
	rows  int
}

func openHist(tmp string, h HCase) (*hist, error) {
	dir, err := os.MkdirTemp(tmp, "h-")
	if err != nil {
		return nil, err
	}
	x := &hist{dir: dir, epoch: time.Now().Truncate(time.Millisecond).Add(-10 * time.Hour)}
	path := filepath.Join(dir, "db")
	x.sqldb, err = sql.Open("sqlite", path)
	if err != nil {
		return nil, err
	}
	x.sqldb.SetMaxOpenConns(1)
	for _, q := range []string{"PRAGMA journal_mode=wal", "PRAGMA wal_autocheckpoint=0", "CREATE TABLE t(id INTEGER PRIMARY KEY, v BLOB)"} {
		if _, err := x.sqldb.Exec(q); err != nil {
			return nil, err
		}
	}
	x.db = litestream.NewDB(path)
	x.db.MonitorInterval = 0
	x.db.SetLogger(quiet)
	x.fc = file.NewReplicaClient(filepath.Join(dir, "replica"))
	x.db.Replica = litestream.NewReplicaWithClient(x.db, x.fc)
	x.db.Replica.MonitorEnabled = false
	x.store = litestream.NewStore([]*litestream.DB{x.db}, levelsN(h.LV))
	x.store.Logger = quiet
	x.db.SetLogger(quiet)
	x.store.SnapshotRetention = retention
	x.store.RetentionEnabled = h.Enabled
	x.db.RetentionEnabled = h.Enabled
	x.db.L0Retention = retention
	if err := x.db.Open(); err != nil {
		return nil, err
	}
	return x, nil
}

func (x *hist) close() {
	ctx, cancel := context.WithTimeout(context.Background(), 5*time.Second)
	defer cancel()
	_ = x.db.Close(ctx)
	_ = x.sqldb.Close()
	os.RemoveAll(x.dir)
}

func (x *hist) restore(name string) ([]byte, error) {
	out := filepath.Join(x.dir, name)
	os.Remove(out)
	opt := litestream.NewRestoreOptions()
	opt.OutputPath = out
	if err := x.db.Replica.Restore(context.Background(), opt); err != nil {
		return nil, err
	}
	b, err := os.ReadFile(out)
	os.Remove(out)
	os.Remove(out + "-txid")
	return b, err
}

func dumpRows(dsn string) (string, error) {
	d, err := sql.Open("sqlite", dsn)
	if err != nil {
		return "", err
	}
	defer d.Close()
	rows, err := d.Query("SELECT id, hex(v) FROM t ORDER BY id")
	if err != nil {
		return "", err
	}
	defer rows.Close()
	var sb strings.Builder
	for rows.Next() {
		var id int
		var v string
		if err := rows.Scan(&id, &v); err != nil {
			return "", err
		}
		fmt.Fprintf(&sb, "%d=%s;", id, v)
	}
	return sb.String(), rows.Err()
}

func (x *hist) replicaFiles() [][2]string {
	var out [][2]string
	for l := 0; l <= 9; l++ {
		ents, _ := os.ReadDir(x.fc.LTXLevelDir(l))
		for _, e := range ents {
			if _, _, err := ltx.ParseFilename(e.Name()); err == nil {
				out = append(out, [2]string{fmt.Sprint(l), filepath.Join(x.fc.LTXLevelDir(l), e.Name())})
			}
		}
	}
	return out
}

// runHistory executes h; returns a finding ("" kind = fine). trace collects a short log for samples.
func runHistory(tmp string, drv *hx.Driver, h HCase, res *hx.Result) (kind, sig, what string) {
	ctx := context.Background()
	x, err := openHist(tmp, h)
	if err != nil {
		hx.Fatal(err)
	}
	defer x.close()
	count := func(k string) {
		if res != nil {
			res.Count(k)
		}
	}
	synced := false
	// growth check: every file the real code adds must satisfy AddOK (hypothesis of retention_seq)
	growth := func(i int, before []F) (string, string, string) {
		after, err := listDir(x.fc, x.epoch)
		if err != nil {
			hx.Fatal(err)
		}
		for _, g := range diff(after, before) {
			ans, err := drv.Ask(fmt.Sprintf("addok N=%d G=%d:%d:%d:%d F=%s", reach(before), g.L, g.Min, g.Max, g.Cr, fmtFiles(before, true)))
			if err != nil {
				hx.Fatal(err)
			}
			count("hist-addok " + ans)
			if ans != "ok 1" && ans != "-" {
				return "disagreement", "C07/growth-outside-model", fmt.Sprintf("step %d: the real code added file %d:%d:%d to %s, which does not satisfy AddOK (%s)", i, g.L, g.Min, g.Max, fmtFiles(before, false), ans)
			}
		}
		return "", "", ""
	}
	for i, op := range h.Ops {
		var pre []F
		if op.Op == "sync" || op.Op == "compact" || op.Op == "snapshot" {
			pre, _ = listDir(x.fc, x.epoch)
		}
		switch op.Op {
		case "write":
			for j := 0; j < op.Arg; j++ {
				x.rows++
				blob := bytes.Repeat([]byte{byte(x.rows)}, 200+x.rows%7*300)
				if x.rows%5 == 0 {
					if _, err := x.sqldb.Exec("DELETE FROM t WHERE id = (SELECT min(id) FROM t)"); err != nil {
						hx.Fatal(err)
					}
				}
				if _, err := x.sqldb.Exec("INSERT INTO t(v) VALUES(?)", blob); err != nil {
					hx.Fatal(err)
				}
			}
		case "sync":
			if err := x.db.Sync(ctx); err != nil {
				return "", "", "" // not this property's concern
			}
			if err := x.db.Replica.Sync(ctx); err != nil {
				return "", "", ""
			}
			synced = true
		case "compact":
			if !synced {
				continue
			}
			if _, err := x.db.Compact(ctx, op.Arg); err != nil {
				count("hist-compact-noop")
			} else {
				count("hist-compact")
			}
		case "snapshot":
			if !synced {
				continue
			}
			if _, err := x.db.Snapshot(ctx); err != nil {
				count("hist-snapshot-err")
			} else {
				count("hist-snapshot")
			}
		case "age", "ageall":
			r := hx.NewRand(op.Sel)
			old := time.Now().Add(-2 * retention)
			for _, f := range x.replicaFiles() {
				if op.Op == "ageall" || r.Chance(50) {
					os.Chtimes(f[1], old, old)
				}
			}
			count("hist-" + op.Op)
		case "cascade", "l0ret", "cascadelag", "l0retlag":
			if !synced {
				continue
			}
			lag := strings.HasSuffix(op.Op, "lag")
			opName := strings.TrimSuffix(op.Op, "lag")
			if lag {
				// the replica stays behind: one more commit reaches the local level-0 directory only
				x.rows++
				if _, err := x.sqldb.Exec("INSERT INTO t(v) VALUES(?)", bytes.Repeat([]byte{byte(x.rows)}, 300)); err != nil {
					hx.Fatal(err)
				}
				if err := x.db.Sync(ctx); err != nil {
					return "", "", ""
				}
				count("hist-lagging-retention")
			} else {
				// bring the replica up to date so that "latest" is the source state
				if err := x.db.Sync(ctx); err != nil {
					return "", "", ""
				}
				if err := x.db.Replica.Sync(ctx); err != nil {
					return "", "", ""
				}
			}
			before, err := listDir(x.fc, x.epoch)
			if err != nil {
				hx.Fatal(err)
			}
			ref, rerr := x.restore("ref.db")
			if rerr != nil {
				return "violation", "C07/unrestorable-before-retention", fmt.Sprintf("step %d: Restore(latest) fails before the retention pass: %v", i, rerr)
			}
			inv, err := drv.Ask("inv F=" + fmtFiles(before, true))
			if err != nil {
				hx.Fatal(err)
			}
			count("hist-inv " + strings.Join(strings.Fields(inv)[:min(4, len(strings.Fields(inv)))], " "))
			if inv != "-" && (!strings.Contains(inv, "wf=1") || !strings.Contains(inv, "covered=1")) {
				return "disagreement", "C07/invariant-not-met-by-real-replica", fmt.Sprintf("step %d: a replica produced by the real code does not satisfy the invariant the theorems assume: %s on %s", i, inv, fmtFiles(before, false))
			}
			t0 := time.Now()
			thr := int(t0.Add(-retention).Sub(x.epoch).Milliseconds())
			var line string
			func() {
				defer func() {
					if p := recover(); p != nil {
						err = fmt.Errorf("PANIC: %v", p)
					}
				}()
				if opName == "cascade" {
					line = fmt.Sprintf("rep OP=cascade EN=%d THR=%d LV=%d F=%s LOC=", b2i(h.Enabled), thr, h.LV, fmtFiles(before, true))
					err = x.store.EnforceSnapshotRetention(ctx, x.db)
				} else {
					line = fmt.Sprintf("rep OP=l0ret EN=%d THR=%d LV=%d F=%s LOC=", b2i(h.Enabled), thr, h.LV, fmtFiles(before, true))
					err = x.db.EnforceL0RetentionByTime(ctx)
				}
			}()
			if err != nil {
				return "violation", "C07/retention-error", fmt.Sprintf("step %d: %s returned %v", i, op.Op, err)
			}
			if lag {
				line += " LAG=1"
			}
			after, lerr := listDir(x.fc, x.epoch)
			if lerr != nil {
				hx.Fatal(lerr)
			}
			nd := len(diff(before, after))
			count(fmt.Sprintf("hist-%s-deleted-%s", op.Op, bucket(nd)))
			if res != nil {
				res.Case(line, nd > 0)
			}
			// property oracle
			got, gerr := x.restore("got.db")
			if gerr != nil {
				return "violation", "C07/latest-lost", fmt.Sprintf("step %d: after %s (deleted %s) Restore(latest) fails: %v", i, op.Op, fmtFiles(diff(before, after), false), gerr)
			}
			if !bytes.Equal(got, ref) {
				return "violation", "C07/latest-changed", fmt.Sprintf("step %d: after %s (deleted %s) Restore(latest) differs from the restore taken just before", i, op.Op, fmtFiles(diff(before, after), false))
			}
			if len(level(before, 9)) > 0 && len(level(after, 9)) == 0 {
				return "violation", "C07/no-snapshot-left", fmt.Sprintf("step %d: all snapshots deleted", i)
			}
			b0, a0 := level(before, 0), level(after, 0)
			if len(b0) > 0 && adjacent(b0) && (len(a0) == 0 || !adjacent(a0) || a0[len(a0)-1] != b0[len(b0)-1]) {
				return "violation", "C07/l0-not-suffix", fmt.Sprintf("step %d: level-0 survivors %s of %s are not one contiguous run ending at the newest", i, fmtFiles(a0, false), fmtFiles(b0, false))
			}
			if lag {
				// the replica catches up: what retention left (remote and local) must still carry the
				// upload of the pending files, and the latest restore is then the source state
				if err := x.db.Replica.Sync(ctx); err != nil {
					return "violation", "C07/lagging-replica-cannot-catch-up", fmt.Sprintf("step %d: after %s on a lagging replica (deleted %s) Replica.Sync fails: %v", i, op.Op, fmtFiles(diff(before, after), false), err)
				}
				if got, gerr = x.restore("got2.db"); gerr != nil {
					return "violation", "C07/latest-lost", fmt.Sprintf("step %d: after %s on a lagging replica and the catch-up Restore(latest) fails: %v", i, op.Op, gerr)
				}
			}
			// source equality (logical): restored rows = source rows
			tmpf := filepath.Join(x.dir, "cmp.db")
			os.WriteFile(tmpf, got, 0o644)
			rs, e1 := dumpRows(tmpf)
			os.Remove(tmpf)
			os.Remove(tmpf + "-wal")
			os.Remove(tmpf + "-shm")
			var src string
			var e2 error
			if rows, qerr := x.sqldb.Query("SELECT id, hex(v) FROM t ORDER BY id"); qerr != nil {
				e2 = qerr
			} else {
				var sb strings.Builder
				for rows.Next() {
					var id int
					var v string
					rows.Scan(&id, &v)
					fmt.Fprintf(&sb, "%d=%s;", id, v)
				}
				rows.Close()
				src = sb.String()
			}
			if e1 != nil || e2 != nil || rs != src {
				return "violation", "C07/latest-not-source", fmt.Sprintf("step %d: after %s the restored latest state differs from the source database (%v %v)", i, op.Op, e1, e2)
			}
			// model correspondence on the real listing
			model, err := drv.Ask(line)
			if err != nil {
				hx.Fatal(err)
			}
			if time.Since(t0) < guardMs/2*time.Millisecond {
				impl := "ok remote=" + fmtFiles(after, false)
				if i := strings.Index(model, " local="); i >= 0 {
					model = model[:i]
				}
				if hx.Differs(impl, model) {
					return "disagreement", "C07/model-vs-impl-history-" + op.Op, fmt.Sprintf("step %d: impl=%q model=%q", i, impl, model)
				}
			}
		}
		if op.Op == "sync" || op.Op == "compact" || op.Op == "snapshot" {
			if k, sg, w := growth(i, pre); k != "" {
				return k, sg, w
			}
		}
	}
	return "", "", ""
}

func b2i(b bool) int {
	if b {
		return 1
	}
	return 0
}

func bucket(n int) string {
	switch {
	case n == 0:
		return "0"
	case n <= 3:
		return "1-3"
	default:
		return "4+"
	}
}

func shrinkHistory(h HCase, fails func(HCase) bool) HCase {
	for changed := true; changed; {
		changed = false
		for i := len(h.Ops) - 1; i >= 0; i-- {
			d := h
			d.Ops = append(append([]HOp(nil), h.Ops[:i]...), h.Ops[i+1:]...)
			if fails(d) {
				h = d
				changed = true
				break
			}
		}
	}
	return h
}

type payload struct {
	Stream  string `json:"stream"`
	Listing *LCase `json:"listing,omitempty"`
	History *HCase `json:"history,omitempty"`
}

func main() {
	o := hx.ParseFlags("C07")
	slog.SetDefault(quiet)
	tmp, err := os.MkdirTemp("", "c07-")
	if err != nil {
		hx.Fatal(err)
	}
	defer os.RemoveAll(tmp)
	drv, err := hx.StartDriver(o.Driver)
	if err != nil {
		hx.Fatal(err)
	}
	defer drv.Close()

	if o.Replay != "" {
		b, err := os.ReadFile(o.Replay)
		if err != nil {
			hx.Fatal(err)
		}
		var w struct {
			Replay payload `json:"replay"`
		}
		if err := json.Unmarshal(b, &w); err != nil {
			hx.Fatal(err)
		}
		var k, s, what string
		if w.Replay.Listing != nil {
			k, s, what = evalListing(tmp, drv, *w.Replay.Listing, nil)
			fmt.Println("line:", w.Replay.Listing.line())
		} else if w.Replay.History != nil {
			k, s, what = runHistory(tmp, drv, *w.Replay.History, nil)
		}
		fmt.Printf("kind=%q signature=%q\n%s\n", k, s, what)
		if k != "" {
			os.RemoveAll(tmp)
			os.Exit(1)
		}
		return
	}

	res := hx.NewResult(o, "c07")
	res.Rule = "listing case counts when the real retention call deleted at least one file; history retention pass counts when it deleted at least one file (distinct by canonical listing+threshold)"
	nList, nHist, hLen := 1500, 60, 40
	if o.Tier == "thorough" {
		nList, nHist, hLen = 12000, 500, 60
	}
	nViol, nDis := 0, 0
	report := func(kind, sig, what string, p payload) {
		if kind == "disagreement" {
			res.DisagreementsChecked++
			nDis++
			if nDis > 3 { // keep searching for a property violation, do not flood
				return
			}
		} else {
			nViol++
		}
		res.AddFinding(kind, sig, what, p)
	}
	// corpus first
	if o.Corpus != "" {
		ents, _ := filepath.Glob(filepath.Join(o.Corpus, "*.json"))
		sort.Strings(ents)
		for _, p := range ents {
			b, err := os.ReadFile(p)
			if err != nil {
				continue
			}
			var w struct {
				Replay payload `json:"replay"`
			}
			if json.Unmarshal(b, &w) != nil {
				continue
			}
			res.Count("corpus")
			if w.Replay.Listing != nil {
				if k, s, what := evalListing(tmp, drv, *w.Replay.Listing, res); k != "" {
					report(k, s, what, w.Replay)
				}
			} else if w.Replay.History != nil {
				if k, s, what := runHistory(tmp, drv, *w.Replay.History, res); k != "" {
					report(k, s, what, w.Replay)
				}
			}
		}
	}
	rnd := hx.NewRand(o.Seed)
	lr := rnd.Fork()
	for i := 0; i < nList && nViol < 3; i++ {
		c := genListing(lr)
		k, s, what := evalListing(tmp, drv, c, res)
		if k == "" {
			continue
		}
		if k == "disagreement" && nDis >= 3 {
			nDis++
			res.DisagreementsChecked++
			continue
		}
		c = shrinkListing(c, func(d LCase) bool {
			k2, s2, _ := evalListing(tmp, drv, d, nil)
			return k2 == k && s2 == s
		})
		_, _, what2 := evalListing(tmp, drv, c, nil)
		if what2 != "" {
			what = what2
		}
		report(k, s, what+" | "+c.line(), payload{Stream: "listing", Listing: &c})
	}
	hr := rnd.Fork()
	for i := 0; i < nHist && nViol < 3; i++ {
		h := genHistory(hr, hLen)
		k, s, what := runHistory(tmp, drv, h, res)
		res.Count("history")
		if k == "" {
			continue
		}
		if k == "disagreement" && nDis >= 3 {
			nDis++
			res.DisagreementsChecked++
			continue
		}
		h = shrinkHistory(h, func(d HCase) bool {
			k2, s2, _ := runHistory(tmp, drv, d, nil)
			return k2 == k && s2 == s
		})
		_, _, what2 := runHistory(tmp, drv, h, nil)
		if what2 != "" {
			what = what2
		}
		report(k, s, what, payload{Stream: "history", History: &h})
	}
	res.Notes = append(res.Notes, "listing stream: real DB/Compactor/Store retention calls on file replicas with ages +-10..30 s around the threshold (exact ms boundaries for DB.EnforceSnapshotRetention); history stream: real SQLite+DB+Store, files aged with os.Chtimes, restore compared before/after each pass")
	if err := res.Write(o.Out); err != nil {
		hx.Fatal(err)
	}
}
