// Engine c16: follow-mode restore. Primary = real SQLite + litestream over the file
// replica with compaction/retention; follower = child process running the real
// Replica.Restore(Follow) (package folchild), killed and restarted by the engine.
//
// Oracles (violations): at every instant the follower is idle its bytes equal the ordinary
// Restore(TXID=sidecar) (masking header bytes 18-19, 24-27); the sidecar TXID never
// regresses; once the replica stops changing the follower reaches the newest TXID;
// a restart after a kill is accepted whenever the sidecar TXID is bridgeable.
// Model comparison (disagreements): files applied by a single poll and the resume verdict.
package main

import (
	"bytes"
	"encoding/json"
	"fmt"
	"os"
	"os/exec"
	"path/filepath"
	"sort"
	"strconv"
	"strings"
	"sync"
	"syscall"
	"time"

	"github.com/benbjohnson/litestream"

	"verif/harness/folchild"
	"verif/harness/hx"
	"verif/harness/prim"
)

// Phase: the primary runs Ops while the follower is in some mode, then a check.
type Phase struct {
	Mode      string    `json:"mode"` // run|kill|readkill|step|down
	Ops       []prim.Op `json:"ops"`
	KillUs    int       `json:"kill_us,omitempty"`    // kill: SIGKILL this long after the ops start
	KillReads int       `json:"kill_reads,omitempty"` // readkill: self-kill at this reader event after restart
	SlowUs    int       `json:"slow_us,omitempty"`
	Snapshot  bool      `json:"snapshot,omitempty"` // take a snapshot before (re)starting the follower
}

type Case struct {
	Cfg    prim.Cfg `json:"cfg"`
	Init   []prim.Op `json:"init"`
	Phases []Phase  `json:"phases"`
}

type failure struct {
	kind, sig, what string
}

type world struct {
	c        Case
	dir      string
	p        *prim.Primary
	out      string
	logp     string
	cmd      *exec.Cmd
	waitc    chan error
	logOff   int64
	archive  map[int][]byte
	archived int
	lastSide int
	fails    []failure
	res      *hx.Result
	drv      *hx.Driver
	mu       *sync.Mutex
	canon    []string
	interest bool
	starts   int
	// maxOpened = highest TXID of any file the follower began to apply; dirty = its value at the
	// last kill: until the sidecar reaches it the file may legitimately hold a half-applied state
	maxOpened int
	dirty     int
}

func (w *world) fail(kind, sig, what string) {
	w.fails = append(w.fails, failure{kind, sig, what})
}

var t0 = time.Now()

func dbg(format string, a ...any) {
	if os.Getenv("C16_DEBUG") != "" {
		fmt.Fprintf(os.Stderr, "%8.3f "+format+"\n", append([]any{time.Since(t0).Seconds()}, a...)...)
	}
}

func (w *world) count(k string) {
	dbg("count %s", k)
	w.mu.Lock()
	w.res.Count(k)
	w.mu.Unlock()
}

func mask(b []byte) []byte {
	c := append([]byte(nil), b...)
	for _, i := range []int{18, 19, 24, 25, 26, 27} {
		if i < len(c) {
			c[i] = 0
		}
	}
	return c
}

// archiveNew stores Restore(TXID=t) for every TXID that appeared since the last call.
func (w *world) archiveNew() {
	fs, err := prim.Listing(w.p.Client)
	if err != nil {
		return
	}
	mx := prim.MaxTXID(fs)
	for t := w.archived + 1; t <= mx; t++ {
		b, err := prim.RestoreBytes(w.p.RepDir, w.dir, t)
		if err == nil {
			w.archive[t] = mask(b)
		} else {
			w.count("archive/miss")
		}
	}
	if mx > w.archived {
		w.archived = mx
	}
}

func (w *world) doOps(ops []prim.Op) error {
	for _, o := range ops {
		if err := w.p.Do(o); err != nil {
			return fmt.Errorf("primary op %s: %w", o, err)
		}
		w.count("op/" + o.K)
		w.archiveNew()
	}
	return nil
}

func (w *world) sidecar() int {
	t, err := litestream.ReadTXIDFile(w.out)
	if err != nil {
		return -1
	}
	if int(t) < w.lastSide {
		w.fail("violation", "C16/sidecar-regressed", fmt.Sprintf("sidecar TXID went from %d back to %d", w.lastSide, t))
	}
	if int(t) > w.lastSide {
		w.lastSide = int(t)
	}
	return int(t)
}

func (w *world) running() bool {
	if w.cmd == nil {
		return false
	}
	select {
	case err := <-w.waitc:
		w.waitc <- err
		return false
	default:
		return true
	}
}

func (w *world) start(killReads, slowUs int) error {
	args := []string{"-replica", w.p.RepDir, "-out", w.out, "-log", w.logp, "-interval", "2ms"}
	if killReads > 0 {
		args = append(args, "-killreads", strconv.Itoa(killReads))
	}
	if slowUs > 0 {
		args = append(args, "-slow", fmt.Sprintf("%dus", slowUs))
	}
	cmd := exec.Command(os.Args[0], args...)
	cmd.Env = append(os.Environ(), "VERIF_FOLLOWER=1")
	cmd.SysProcAttr = &syscall.SysProcAttr{Pdeathsig: syscall.SIGKILL}
	if err := cmd.Start(); err != nil {
		return err
	}
	w.cmd = cmd
	w.waitc = make(chan error, 1)
	go func(c *exec.Cmd, ch chan error) { ch <- c.Wait() }(cmd, w.waitc)
	w.starts++
	return nil
}

func (w *world) kill() {
	if w.cmd == nil {
		return
	}
	w.cmd.Process.Kill()
	<-w.waitc
	w.cmd = nil
	w.killed()
}

// killed: the follower died at an unknown point of a poll.
func (w *world) killed() {
	w.logLines()
	if w.maxOpened > w.dirty {
		w.dirty = w.maxOpened
	}
}

// logLines returns the log lines appended since the last call.
func (w *world) logLines() []string {
	f, err := os.Open(w.logp)
	if err != nil {
		return nil
	}
	defer f.Close()
	st, _ := f.Stat()
	if st.Size() <= w.logOff {
		return nil
	}
	b := make([]byte, st.Size()-w.logOff)
	n, _ := f.ReadAt(b, w.logOff)
	b = b[:n]
	i := bytes.LastIndexByte(b, '\n')
	if i < 0 {
		return nil
	}
	w.logOff += int64(i + 1)
	lines := strings.Split(string(b[:i]), "\n")
	for _, l := range lines {
		var a, mn, mx int
		if n, _ := fmt.Sscanf(l, "open %d %d %d", &a, &mn, &mx); n == 3 && mx > w.maxOpened {
			w.maxOpened = mx
		}
	}
	return lines
}

// waitLine waits for a log line with the given prefix (or the child's death); returns the lines seen.
func (w *world) waitLine(prefix string, d time.Duration) (seen []string, ok bool) {
	deadline := time.Now().Add(d)
	for {
		for _, l := range w.logLines() {
			seen = append(seen, l)
			if strings.HasPrefix(l, prefix) {
				ok = true
			}
		}
		if ok {
			return seen, true
		}
		if !w.running() || time.Now().After(deadline) {
			for _, l := range w.logLines() {
				seen = append(seen, l)
				if strings.HasPrefix(l, prefix) {
					ok = true
				}
			}
			return seen, ok
		}
		time.Sleep(300 * time.Microsecond)
	}
}

func (w *world) gate() bool {
	os.WriteFile(w.out+".gate", nil, 0o644)
	_, ok := w.waitLine("gate ", 10*time.Second)
	return ok
}

// ungate releases a gated follower and waits until it has left the gate (it logs `poll`).
func (w *world) ungate() {
	os.Remove(w.out + ".gate")
	os.Remove(w.out + ".go")
	if w.running() {
		w.waitLine("poll ", 2*time.Second)
	}
}

func (w *world) listing() []prim.F {
	fs, _ := prim.Listing(w.p.Client)
	return fs
}

// bridgeable: independent oracle — a chain of files of levels 0..8 leads from cur to the newest TXID.
func bridgeable(fs []prim.F, cur int) bool {
	mx := prim.MaxTXID(fs)
	for changed := true; changed && cur < mx; {
		changed = false
		for _, f := range fs {
			if f.L < litestream.SnapshotLevel && f.Min <= cur+1 && f.Max > cur {
				cur = f.Max
				changed = true
			}
		}
	}
	return cur >= mx
}

// checkIdle compares the (idle) follower's bytes with Restore(TXID=sidecar).
func (w *world) checkIdle(where string) {
	t := w.sidecar()
	b, err := os.ReadFile(w.out)
	if err != nil || t <= 0 {
		w.fail("violation", "C16/follower-unreadable", fmt.Sprintf("%s: sidecar=%d err=%v", where, t, err))
		return
	}
	if t < w.dirty || t < w.maxOpened {
		// killed while applying files up to TXID `dirty`, or a poll applied files up to
		// `maxOpened` and then failed before writing the sidecar (e.g. the follower fell
		// behind retention and cannot bridge the gap): the database is ahead of its sidecar;
		// those files are re-applied before the sidecar passes them
		w.count("check/skipped-half-applied")
		return
	}
	want, ok := w.archive[t]
	if !ok {
		w.count("check/no-archive")
		return
	}
	w.count("check/idle-compare")
	got := mask(b)
	if !bytes.Equal(got, want) {
		ps := w.c.Cfg.PageSize
		diff := []int{}
		for i := 0; i < max(len(got), len(want)); i += ps {
			a, b2 := []byte{}, []byte{}
			if i < len(got) {
				a = got[i:min(i+ps, len(got))]
			}
			if i < len(want) {
				b2 = want[i:min(i+ps, len(want))]
			}
			if !bytes.Equal(a, b2) && len(diff) < 8 {
				diff = append(diff, i/ps+1)
			}
		}
		sig := "C16/content-mismatch"
		if len(got) != len(want) {
			sig = "C16/size-mismatch"
		}
		w.fail("violation", sig, fmt.Sprintf("%s: follower at sidecar TXID %d differs from Restore(TXID=%d): size %d vs %d, first differing pages %v",
			where, t, t, len(got), len(want), diff))
	}
}

// converge waits for the sidecar to reach the newest TXID of the (now static) replica, then compares bytes.
func (w *world) converge(where string) {
	fs := w.listing()
	mx := prim.MaxTXID(fs)
	deadline := time.Now().Add(8 * time.Second)
	t := w.sidecar()
	for t < mx && time.Now().Before(deadline) && w.running() {
		time.Sleep(500 * time.Microsecond)
		t = w.sidecar()
	}
	if t < mx {
		if !w.running() {
			w.fail("violation", "C16/follower-died", fmt.Sprintf("%s: follower process exited: %v", where, w.logLines()))
			return
		}
		if bridgeable(fs, t) {
			w.fail("violation", "C16/no-convergence", fmt.Sprintf("%s: replica static at TXID %d, follower stuck at %d although a chain of files exists", where, mx, t))
		} else {
			w.count("converge/not-bridgeable")
		}
		return
	}
	w.count("converge/reached")
	if w.gate() {
		w.checkIdle(where)
	}
	w.ungate()
}

// restart starts the follower on an existing output and judges the resume validation.
func (w *world) restart(ph Phase, where string) bool {
	if ph.Snapshot {
		if err := w.doOps([]prim.Op{{K: "snapshot"}}); err != nil {
			w.fail("error", "C16/engine", err.Error())
			return false
		}
	}
	for attempt := 0; attempt < 2; attempt++ {
		fs := w.listing()
		t := w.sidecar()
		model, _ := w.ask(fmt.Sprintf("resume TX=%d F=%s", t, prim.FmtListing(fs, 0)))
		w.logLines()
		if err := w.start(ph.KillReads, ph.SlowUs); err != nil {
			w.fail("error", "C16/engine", err.Error())
			return false
		}
		// the resume verdict is visible as either the first poll or an error line
		seen, _ := w.waitLine("poll ", 10*time.Second)
		impl := "ok"
		for _, l := range seen {
			if strings.HasPrefix(l, "error ") {
				switch {
				case strings.Contains(l, "is ahead of"):
					impl = "err ahead"
				case strings.Contains(l, "is behind the earliest snapshot"):
					impl = "err behind"
				case strings.Contains(l, "no -txid file found"):
					impl = "err nosidecar"
				default:
					impl = "err other:" + l
				}
			}
		}
		w.canon = append(w.canon, "resume:"+impl)
		w.count("resume/" + strings.ReplaceAll(strings.SplitN(impl, ":", 2)[0], " ", "-"))
		if hx.Differs(impl, model) {
			w.fail("disagreement", "C16/resume-model", fmt.Sprintf("%s: resume TX=%d: impl %q model %q listing %s", where, t, impl, model, prim.FmtListing(fs, 0)))
		}
		if impl == "ok" {
			return true
		}
		w.kill()
		if t >= 1 && t <= prim.MaxTXID(fs) && bridgeable(fs, t) {
			snapMax := 0
			for _, f := range fs {
				if f.L == litestream.SnapshotLevel {
					snapMax = f.Max
				}
			}
			if impl == "err ahead" && t > snapMax {
				w.interest = true
				w.fail("violation", "C16/resume-ahead-of-snapshot", fmt.Sprintf("%s: restart rejected: sidecar TXID %d > newest snapshot max %d although files up to TXID %d bridge it", where, t, snapMax, prim.MaxTXID(fs)))
			} else {
				w.fail("violation", "C16/resume-rejected", fmt.Sprintf("%s: restart rejected (%s) although sidecar TXID %d <= %d is bridgeable", where, impl, t, prim.MaxTXID(fs)))
			}
		} else {
			w.count("resume/rejected-justified")
			return false
		}
		// continue the case the way an operator could: take a snapshot, try again
		if err := w.doOps([]prim.Op{{K: "write", A: 1, B: 50}, {K: "snapshot"}}); err != nil {
			w.fail("error", "C16/engine", err.Error())
			return false
		}
	}
	return false
}

func (w *world) ask(line string) (string, error) {
	w.mu.Lock()
	defer w.mu.Unlock()
	return w.drv.Ask(line)
}

// stepPolls lets the gated follower do single polls and compares each with the model.
func (w *world) stepPolls(where string) {
	for i := 0; i < 12; i++ {
		fs := w.listing()
		t := w.sidecar()
		model, _ := w.ask(fmt.Sprintf("poll AFTER=%d F=%s", t, prim.FmtListing(fs, 0)))
		os.WriteFile(w.out+".go", nil, 0o644)
		seen, ok := w.waitLine("gate ", 10*time.Second)
		if !ok {
			w.fail("violation", "C16/follower-died", fmt.Sprintf("%s: follower did not come back to the gate: %v", where, seen))
			return
		}
		var opened []string
		for _, l := range seen {
			var a, b, c int
			if n, _ := fmt.Sscanf(l, "open %d %d %d", &a, &b, &c); n == 3 {
				opened = append(opened, fmt.Sprintf("%d:%d:%d", a, b, c))
			}
		}
		t2 := w.sidecar()
		impl := fmt.Sprintf("ok %d %s", t2, strings.Join(opened, ","))
		w.canon = append(w.canon, "poll:"+impl)
		w.count("step/polls")
		if len(opened) > 0 {
			w.count("step/applied-files")
			for _, o := range opened {
				w.count("step/level-" + strings.SplitN(o, ":", 2)[0])
			}
		}
		if hx.Differs(impl, model) {
			w.fail("disagreement", "C16/poll-model", fmt.Sprintf("%s: poll AFTER=%d: impl %q model %q listing %s", where, t, impl, model, prim.FmtListing(fs, 0)))
		}
		w.checkIdle(where + fmt.Sprintf("/poll%d", i))
		if t2 == t {
			if t2 < prim.MaxTXID(fs) && bridgeable(fs, t2) {
				w.fail("violation", "C16/no-convergence", fmt.Sprintf("%s: a poll made no progress at TXID %d, replica max %d, chain exists", where, t2, prim.MaxTXID(fs)))
			}
			return
		}
	}
}

func runCase(c Case, res *hx.Result, drv *hx.Driver, mu *sync.Mutex) (fails []failure, canon string, interesting bool, err error) {
	dir, err := os.MkdirTemp("", "c16-")
	if err != nil {
		return nil, "", false, err
	}
	defer os.RemoveAll(dir)
	p, err := prim.New(dir, c.Cfg)
	if err != nil {
		return nil, "", false, err
	}
	defer p.Close()
	w := &world{c: c, dir: dir, p: p, out: filepath.Join(dir, "follower.db"), logp: filepath.Join(dir, "follower.log"),
		archive: map[int][]byte{}, res: res, drv: drv, mu: mu}
	defer w.kill()
	if err := w.doOps(c.Init); err != nil {
		return nil, "", false, err
	}
	if err := w.start(0, 0); err != nil {
		return nil, "", false, err
	}
	if _, ok := w.waitLine("poll ", 10*time.Second); !ok {
		return nil, "", false, fmt.Errorf("follower did not start: %v", w.logLines())
	}
	w.checkIdleSoon("init")
	for i, ph := range c.Phases {
		where := fmt.Sprintf("phase%d/%s", i, ph.Mode)
		w.count("phase/" + ph.Mode)
		if len(w.fails) > 0 && w.fails[len(w.fails)-1].kind == "error" {
			break
		}
		if !w.running() && ph.Mode != "down" {
			if !w.restart(Phase{Snapshot: ph.Snapshot}, where) {
				break
			}
		}
		switch ph.Mode {
		case "run": // follower polls freely while the primary advances; then the replica stands still
			if err := w.doOps(ph.Ops); err != nil {
				return w.fails, "", false, err
			}
			w.converge(where)
		case "kill": // SIGKILL at an arbitrary instant while the primary advances
			done := make(chan struct{})
			go func(cmd *exec.Cmd) {
				select {
				case <-time.After(time.Duration(ph.KillUs) * time.Microsecond):
				case <-done:
				}
				cmd.Process.Kill()
			}(w.cmd)
			err := w.doOps(ph.Ops)
			close(done)
			<-w.waitc
			w.cmd = nil
			if err != nil {
				return w.fails, "", false, err
			}
			lines := w.logLines()
			w.killed()
			w.count("kill/" + killState(lines))
			w.sidecar()
		case "down": // the primary advances while the follower is not running
			w.kill()
			if err := w.doOps(ph.Ops); err != nil {
				return w.fails, "", false, err
			}
		case "readkill": // follower is restarted so that it kills itself at the n-th reader event while catching up
			w.kill()
			if err := w.doOps(ph.Ops); err != nil {
				return w.fails, "", false, err
			}
			if !w.restart(ph, where) {
				break
			}
			select {
			case <-w.waitc:
				w.cmd = nil
				lines := w.logLines()
				w.killed()
				w.count("readkill/" + killState(lines))
			case <-time.After(300 * time.Millisecond):
				w.count("readkill/not-reached")
				w.kill() // disarm: the next phase restarts a follower without the self-kill
			}
			w.sidecar()
		case "step": // single polls against a known listing, compared with the model
			if !w.gate() {
				w.fail("violation", "C16/follower-died", where+": follower did not reach the gate")
				break
			}
			if err := w.doOps(ph.Ops); err != nil {
				return w.fails, "", false, err
			}
			w.stepPolls(where)
			w.ungate()
		}
	}
	// final: whatever happened, a running or restartable follower must reach the newest TXID
	if len(w.fails) == 0 || onlyKnownish(w.fails) {
		if !w.running() {
			if w.restart(Phase{}, "final") {
				w.converge("final")
			}
		} else {
			w.converge("final")
		}
	}
	sort.Strings(w.canon)
	return w.fails, fmt.Sprintf("%v|%v", c, w.canon), w.interest || w.starts > 1, nil
}

func onlyKnownish(fs []failure) bool {
	for _, f := range fs {
		if f.sig != "C16/resume-ahead-of-snapshot" {
			return false
		}
	}
	return true
}

// checkIdleSoon gates the follower, compares, ungates.
func (w *world) checkIdleSoon(where string) {
	if w.gate() {
		w.checkIdle(where)
	}
	w.ungate()
}

// killState classifies where a kill landed from the child's log.
func killState(lines []string) string {
	open := false
	for _, l := range lines {
		if strings.HasPrefix(l, "open ") {
			open = true
		} else if strings.HasPrefix(l, "close ") {
			open = false
		}
	}
	if open {
		return "mid-apply"
	}
	return "between-files"
}

// ---- generation ----

func genCase(rnd *hx.Rand, tier string) Case {
	// all eight legal SQLite page sizes (65536 is stored as 1 in the header: follow's special case)
	cfg := prim.Cfg{PageSize: []int{512, 1024, 2048, 4096, 4096, 8192, 16384, 32768, 65536, 65536}[rnd.Intn(10)], AutoVacuum: rnd.Chance(40)}
	c := Case{Cfg: cfg, Init: []prim.Op{{K: "write", A: 3 + rnd.Intn(20), B: 200 + rnd.Intn(2000)}, {K: "sync"}}}
	if rnd.Chance(70) {
		c.Init = append(c.Init, prim.Op{K: "snapshot"})
	}
	n := 3 + rnd.Intn(4)
	if tier == "thorough" {
		n += 3
	}
	for i := 0; i < n; i++ {
		ph := Phase{Ops: prim.GenHistory(rnd, 2+rnd.Intn(6), cfg), Snapshot: rnd.Chance(75)}
		if rnd.Chance(15) {
			// the follower falls behind retention while it is down: level 0 pruned after compaction,
			// levels 1-2 pruned below a fresh snapshot. The gap is then NOT bridgeable and the follower
			// must not apply anything across it.
			ops := []prim.Op{}
			for j := 0; j < 2+rnd.Intn(3); j++ {
				ops = append(ops, prim.Op{K: "write", A: 1 + rnd.Intn(8), B: 100 + rnd.Intn(2500)}, prim.Op{K: "sync"})
			}
			ops = append(ops, prim.Op{K: "compact", A: 1}, prim.Op{K: "compact", A: 2}, prim.Op{K: "snapshot"}, prim.Op{K: "retain", A: 2},
				prim.Op{K: "update", A: 1 + rnd.Intn(3), B: 100 + rnd.Intn(2500)}, prim.Op{K: "sync"},
				prim.Op{K: "write", A: 1 + rnd.Intn(8), B: 100 + rnd.Intn(2500)}, prim.Op{K: "sync"}, prim.Op{K: "compact", A: 1})
			c.Phases = append(c.Phases, Phase{Mode: "down", Ops: ops}, Phase{Mode: "run", Ops: prim.GenHistory(rnd, 1+rnd.Intn(3), cfg), Snapshot: true})
			continue
		}
		switch k := rnd.Intn(100); {
		case k < 25:
			ph.Mode = "run"
		case k < 45:
			ph.Mode = "kill"
			ph.KillUs = rnd.Intn(40000)
			ph.SlowUs = 0
		case k < 55:
			ph.Mode = "down"
		case k < 75:
			ph.Mode = "readkill"
			ph.KillReads = 1 + rnd.Intn(40)
		default:
			ph.Mode = "step"
		}
		c.Phases = append(c.Phases, ph)
	}
	return c
}

// ---- main ----

type replayFile struct {
	Replay Case `json:"replay"`
}

func loadCase(path string) (Case, error) {
	b, err := os.ReadFile(path)
	if err != nil {
		return Case{}, err
	}
	var rf replayFile
	if err := json.Unmarshal(b, &rf); err == nil && (len(rf.Replay.Phases) > 0 || len(rf.Replay.Init) > 0) {
		return rf.Replay, nil
	}
	var c Case
	err = json.Unmarshal(b, &c)
	return c, err
}

func shrink(c Case, sig string, res *hx.Result, drv *hx.Driver, mu *sync.Mutex) Case {
	still := func(x Case) bool {
		scratch := hx.NewResult(&hx.Opts{}, "shrink")
		fs, _, _, err := runCase(x, scratch, drv, mu)
		if err != nil {
			return false
		}
		for _, f := range fs {
			if f.sig == sig {
				return true
			}
		}
		return false
	}
	budget := 14
	for i := len(c.Phases) - 1; i >= 0 && budget > 0; i-- {
		x := c
		x.Phases = append(append([]Phase{}, c.Phases[:i]...), c.Phases[i+1:]...)
		budget--
		if still(x) {
			c = x
		}
	}
	for i := range c.Phases {
		for len(c.Phases[i].Ops) > 0 && budget > 0 {
			x := c
			x.Phases = append([]Phase{}, c.Phases...)
			x.Phases[i].Ops = c.Phases[i].Ops[:len(c.Phases[i].Ops)/2]
			budget--
			if !still(x) {
				break
			}
			c = x
		}
	}
	return c
}

func main() {
	if os.Getenv("VERIF_FOLLOWER") == "1" {
		folchild.Main()
		return
	}
	o := hx.ParseFlags("C16")
	res := hx.NewResult(o, "c16")
	res.Rule = "a case counts when the follower was restarted at least once (kill/resume exercised) or a finding was reproduced; distinct by (history, observed poll/resume outcomes)"
	drv, err := hx.StartDriver(o.Driver)
	if err != nil {
		hx.Fatal(err)
	}
	defer drv.Close()
	var mu sync.Mutex
	if o.Replay == "" {
		runSidecar(o, res, drv, nil)
	}

	reported := map[string]bool{}
	report := func(c Case, fails []failure, doShrink bool) {
		for _, f := range fails {
			mu.Lock()
			dup := reported[f.sig]
			reported[f.sig] = true
			if f.kind != "error" {
				res.Count("finding/" + f.sig)
			}
			mu.Unlock()
			if dup || f.kind == "error" {
				continue
			}
			cc := c
			if doShrink && f.kind == "violation" && f.sig != "C16/resume-ahead-of-snapshot" {
				cc = shrink(c, f.sig, res, drv, &mu)
			}
			mu.Lock()
			res.AddFinding(f.kind, f.sig, f.what, cc)
			mu.Unlock()
		}
	}

	if o.Replay != "" {
		if b, err := os.ReadFile(o.Replay); err == nil {
			var sr struct {
				Replay struct {
					Sidecar *SidecarCase `json:"sidecar"`
				} `json:"replay"`
			}
			if json.Unmarshal(b, &sr) == nil && sr.Replay.Sidecar != nil {
				if runSidecar(o, res, drv, sr.Replay.Sidecar) {
					os.Exit(1)
				}
				fmt.Println("replay passes")
				return
			}
		}
		c, err := loadCase(o.Replay)
		if err != nil {
			hx.Fatal(err)
		}
		fails, _, _, err := runCase(c, res, drv, &mu)
		if err != nil {
			hx.Fatal(err)
		}
		for _, f := range fails {
			fmt.Printf("%s %s: %s\n", f.kind, f.sig, f.what)
		}
		if len(fails) > 0 {
			os.Exit(1)
		}
		fmt.Println("replay passes")
		return
	}

	// corpus first
	if o.Corpus != "" {
		files, _ := filepath.Glob(filepath.Join(o.Corpus, "*.json"))
		sort.Strings(files)
		for _, f := range files {
			c, err := loadCase(f)
			if err != nil {
				res.Notes = append(res.Notes, "corpus file unreadable: "+f)
				continue
			}
			fails, canon, nt, err := runCase(c, res, drv, &mu)
			if err != nil {
				res.Notes = append(res.Notes, "corpus case error: "+err.Error())
				continue
			}
			res.Case(canon, nt)
			res.Count("corpus/cases")
			report(c, fails, false)
		}
	}

	rnd := hx.NewRand(o.Seed)
	budget := 75 * time.Second
	workers := 8
	if o.Tier == "thorough" {
		budget = 150 * time.Second
	}
	deadline := time.Now().Add(budget)
	var wg sync.WaitGroup
	cases := make(chan Case)
	for i := 0; i < workers; i++ {
		wg.Add(1)
		go func() {
			defer wg.Done()
			for c := range cases {
				fails, canon, nt, err := runCase(c, res, drv, &mu)
				mu.Lock()
				if err != nil {
					res.Count("case/engine-error")
					if len(res.Notes) < 5 {
						res.Notes = append(res.Notes, "engine error: "+err.Error())
					}
					mu.Unlock()
					continue
				}
				res.Case(canon, nt)
				res.Count(fmt.Sprintf("page-size/%d", c.Cfg.PageSize))
				if len(res.Samples) < 4 {
					res.Sample(c)
				}
				mu.Unlock()
				report(c, fails, true)
			}
		}()
	}
	first := true
	for time.Now().Before(deadline) {
		c := genCase(rnd.Fork(), o.Tier)
		if first { // every run has at least one 64 KiB-page follower with convergence and resume after kill
			first = false
			c.Cfg.PageSize = 65536
			c.Phases = append([]Phase{{Mode: "run", Ops: []prim.Op{{K: "write", A: 3, B: 900}, {K: "sync"}, {K: "update", A: 2, B: 700}, {K: "sync"}}}}, c.Phases...)
			res.Count("case/forced-page-size-65536")
		}
		cases <- c
	}
	close(cases)
	wg.Wait()
	if err := res.Write(o.Out); err != nil {
		hx.Fatal(err)
	}
}
