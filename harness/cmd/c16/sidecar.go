package main

// Stream `sidecar` of engine c16: WriteTXIDFile / ReadTXIDFile against lean/Litestream/Model/Sidecar.lean,
// plus the property's own oracles: every TXID written reads back; a torn content (any proper prefix
// of what WriteTXIDFile writes) is an error or the full value, never another position.

import (
	"encoding/hex"
	"fmt"
	"os"
	"path/filepath"

	"github.com/benbjohnson/litestream"
	"github.com/superfly/ltx"

	"verif/harness/hx"
)

type SidecarCase struct {
	Kind    string `json:"kind"` // write | content | absent
	TXID    uint64 `json:"txid,omitempty"`
	Content string `json:"content,omitempty"` // hex
}

func runSidecar(o *hx.Opts, res *hx.Result, drv *hx.Driver, only *SidecarCase) (failed bool) {
	dir, err := os.MkdirTemp("", "c16-sidecar-")
	if err != nil {
		hx.Fatal(err)
	}
	defer os.RemoveAll(dir)
	out := filepath.Join(dir, "out.db")
	rnd := hx.NewRand(o.Seed ^ 0x73696465)
	ask := func(line string) string {
		s, err := drv.Ask(line)
		if err != nil {
			hx.Fatal(err)
		}
		return s
	}
	found := map[string]bool{}
	report := func(kind, sig, what string, c SidecarCase) {
		failed = true
		if only != nil {
			fmt.Printf("%s: %s — %s\n", kind, sig, what)
			return
		}
		if !found[kind+sig] {
			found[kind+sig] = true
			res.AddFinding(kind, sig, what, map[string]any{"sidecar": c})
		}
	}
	read := func() string {
		t, err := litestream.ReadTXIDFile(out)
		if err != nil {
			return "err"
		}
		return fmt.Sprintf("ok %d", uint64(t))
	}
	writeCase := func(t uint64) {
		c := SidecarCase{Kind: "write", TXID: t}
		os.Remove(litestream.TXIDPath(out))
		if err := litestream.WriteTXIDFile(out, ltx.TXID(t)); err != nil {
			report("violation", "C16/sidecar-write-error", fmt.Sprintf("WriteTXIDFile(%d): %v", t, err), c)
			return
		}
		b, _ := os.ReadFile(litestream.TXIDPath(out))
		model := ask(fmt.Sprintf("sidecartext T=%d", t))
		res.Count("sidecar:write")
		res.Case(fmt.Sprintf("sidecar|write|%d", t), true)
		if hx.Differs(hex.EncodeToString(b), model) {
			report("disagreement", "C16/sidecar-text-model-vs-code", fmt.Sprintf("TXID %d: file holds %q, model %s", t, b, model), c)
		}
		if got := read(); got != fmt.Sprintf("ok %d", t) {
			report("violation", "C16/sidecar-roundtrip", fmt.Sprintf("TXID %d written, %s read back (file %q)", t, got, b), c)
		}
		if _, err := os.Stat(litestream.TXIDPath(out) + ".tmp"); err == nil {
			report("violation", "C16/sidecar-tmp-left", "temp file left behind after WriteTXIDFile", c)
		}
		// torn content: every proper prefix
		for k := 0; k < len(b); k++ {
			os.WriteFile(litestream.TXIDPath(out), b[:k], 0o644)
			got := read()
			m := ask("sidecar HEX=" + hex.EncodeToString(b[:k]))
			res.Count("sidecar:prefix")
			if hx.Differs(got, m) {
				report("disagreement", "C16/sidecar-read-model-vs-code", fmt.Sprintf("content %q: code %s, model %s", b[:k], got, m), SidecarCase{Kind: "content", Content: hex.EncodeToString(b[:k])})
			}
			if got != "err" && got != fmt.Sprintf("ok %d", t) {
				report("violation", "C16/sidecar-torn-misread", fmt.Sprintf("torn sidecar %q of TXID %d reads as %s", b[:k], t, got), SidecarCase{Kind: "content", Content: hex.EncodeToString(b[:k])})
			}
		}
	}
	contentCase := func(b []byte) {
		c := SidecarCase{Kind: "content", Content: hex.EncodeToString(b)}
		os.WriteFile(litestream.TXIDPath(out), b, 0o644)
		got := read()
		m := ask("sidecar HEX=" + c.Content)
		res.Count("sidecar:content:" + got[:2])
		res.Case("sidecar|content|"+c.Content, got != "err")
		if hx.Differs(got, m) {
			report("disagreement", "C16/sidecar-read-model-vs-code", fmt.Sprintf("content %q: code %s, model %s", b, got, m), c)
		}
	}
	absentCase := func() {
		os.Remove(litestream.TXIDPath(out))
		got := read()
		m := ask("sidecar ABSENT=1")
		res.Count("sidecar:absent")
		if hx.Differs(got, m) {
			report("disagreement", "C16/sidecar-read-model-vs-code", fmt.Sprintf("no sidecar: code %s, model %s", got, m), SidecarCase{Kind: "absent"})
		}
	}
	if only != nil {
		switch only.Kind {
		case "write":
			writeCase(only.TXID)
		case "absent":
			absentCase()
		default:
			b, _ := hex.DecodeString(only.Content)
			contentCase(b)
		}
		return failed
	}
	n := 300
	if o.Tier == "thorough" {
		n = 5000
	}
	absentCase()
	for _, t := range []uint64{0, 1, 9, 10, 15, 16, 255, 1<<31 - 1, 1 << 31, 1<<32 - 1, 1 << 32, 1<<63 - 1, 1 << 63, 1<<64 - 1} {
		writeCase(t)
	}
	alphabet := []byte("0123456789abcdefABCDEFgGxX_+- \t\n\r\v\f.\x00\xff")
	for k := 0; k < n; k++ {
		t := rnd.Uint64() >> uint(rnd.Intn(64))
		writeCase(t)
		// near-valid contents: 14..18 digits, mixed case, blanks around, one foreign byte
		var b []byte
		for i, m := 0, rnd.Intn(3); i < m; i++ {
			b = append(b, " \t\n\r\v\f"[rnd.Intn(6)])
		}
		for i, m := 0, 14+rnd.Intn(5); i < m; i++ {
			b = append(b, "0123456789abcdefABCDEF"[rnd.Intn(22)])
		}
		if rnd.Chance(25) {
			b[rnd.Intn(len(b))] = alphabet[rnd.Intn(len(alphabet))]
		}
		for i, m := 0, rnd.Intn(3); i < m; i++ {
			b = append(b, " \t\n\r\v\f"[rnd.Intn(6)])
		}
		contentCase(b)
	}
	return failed
}
