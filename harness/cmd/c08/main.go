// Engine c08: real CalcRestorePlan vs the Lean planner model, plus the C08 oracle.
package main

import (
	"context"
	"encoding/json"
	"errors"
	"fmt"
	"io"
	"log/slog"
	"os"
	"path/filepath"
	"runtime"
	"sort"
	"strings"
	"sync"
	"time"

	"github.com/benbjohnson/litestream"
	"github.com/benbjohnson/litestream/file"
	"github.com/superfly/ltx"

	"verif/harness/hx"
)

type F struct {
	L, Min, Max, Cr int
}

type Case struct {
	Files []F `json:"files"`
	T     int `json:"txid"`
	TS    int `json:"ts"` // -1 = none
	WF    bool `json:"wf"`
}

func (c Case) line(cmd string) string {
	var sb strings.Builder
	sb.WriteString(cmd)
	fmt.Fprintf(&sb, " T=%d TS=", c.T)
	if c.TS < 0 {
		sb.WriteString("-")
	} else {
		fmt.Fprintf(&sb, "%d", c.TS)
	}
	sb.WriteString(" F=")
	for i, f := range c.Files {
		if i > 0 {
			sb.WriteByte(',')
		}
		fmt.Fprintf(&sb, "%d:%d:%d:%d", f.L, f.Min, f.Max, f.Cr)
	}
	return sb.String()
}

// memClient lists files from memory; everything else is unused by the planner.
type memClient struct{ files []F }

var epoch = time.Unix(1700000000, 0).UTC()

func (m *memClient) Type() string                  { return "mem" }
func (m *memClient) Init(context.Context) error    { return nil }
func (m *memClient) SetLogger(*slog.Logger)        {}
func (m *memClient) DeleteAll(context.Context) error { return nil }
func (m *memClient) DeleteLTXFiles(context.Context, []*ltx.FileInfo) error { return nil }
func (m *memClient) OpenLTXFile(context.Context, int, ltx.TXID, ltx.TXID, int64, int64) (io.ReadCloser, error) {
	return nil, os.ErrNotExist
}
func (m *memClient) WriteLTXFile(context.Context, int, ltx.TXID, ltx.TXID, io.Reader) (*ltx.FileInfo, error) {
	return nil, errors.New("read-only")
}
func (m *memClient) LTXFiles(_ context.Context, level int, seek ltx.TXID, _ bool) (ltx.FileIterator, error) {
	var a []*ltx.FileInfo
	for _, f := range m.files {
		if f.L != level || ltx.TXID(f.Min) < seek {
			continue
		}
		a = append(a, &ltx.FileInfo{Level: f.L, MinTXID: ltx.TXID(f.Min), MaxTXID: ltx.TXID(f.Max),
			CreatedAt: epoch.Add(time.Duration(f.Cr) * time.Millisecond)})
	}
	return ltx.NewFileInfoSliceIterator(a), nil
}

var quiet = slog.New(slog.NewTextHandler(io.Discard, &slog.HandlerOptions{Level: slog.LevelError + 10}))

func canonImpl(infos []*ltx.FileInfo, err error) string {
	if err != nil {
		switch {
		case errors.Is(err, litestream.ErrTxNotAvailable):
			return "err txnotavailable"
		case strings.Contains(err.Error(), "non-contiguous"):
			return "err noncontiguous"
		case strings.Contains(err.Error(), "cannot specify both"):
			return "err both"
		}
		return "err other:" + err.Error()
	}
	parts := make([]string, len(infos))
	for i, f := range infos {
		parts[i] = fmt.Sprintf("%d:%d:%d", f.Level, f.MinTXID, f.MaxTXID)
	}
	return "ok " + strings.Join(parts, ",")
}

func runImpl(client litestream.ReplicaClient, c Case) ([]*ltx.FileInfo, error) {
	var ts time.Time
	if c.TS >= 0 {
		ts = epoch.Add(time.Duration(c.TS) * time.Millisecond)
	}
	return litestream.CalcRestorePlan(context.Background(), client, ltx.TXID(c.T), ts, quiet)
}

// ---- independent oracle (property C08 stated directly, brute force) ----

func elig(c Case, f F) bool {
	if c.T != 0 && f.Max > c.T {
		return false
	}
	if c.TS >= 0 && !(f.Cr < c.TS) {
		return false
	}
	return true
}

// reachable returns the set of chain ends reachable from 0 with eligible files.
func reachable(c Case) map[int]bool {
	r := map[int]bool{0: true}
	for changed := true; changed; {
		changed = false
		for _, f := range c.Files {
			if !elig(c, f) || r[f.Max] {
				continue
			}
			for cur := range r {
				if f.Min <= cur+1 && f.Max > cur {
					r[f.Max] = true
					changed = true
					break
				}
			}
		}
	}
	return r
}

// oracle returns "" if the implementation's answer satisfies C08 on this case.
func oracle(c Case, infos []*ltx.FileInfo, err error) string {
	if c.T != 0 && c.TS >= 0 {
		return ""
	}
	reach := reachable(c)
	maxReach := 0
	for k := range reach {
		if k > maxReach {
			maxReach = k
		}
	}
	exists := (c.T == 0 && maxReach > 0) || (c.T != 0 && reach[c.T])
	if err == nil {
		if len(infos) == 0 {
			return "empty-plan"
		}
		if infos[0].MinTXID != 1 {
			return "plan-does-not-start-at-1"
		}
		cur := ltx.TXID(0)
		for _, f := range infos {
			if !(f.MinTXID <= cur+1 && f.MaxTXID > cur) {
				return "plan-not-contiguous"
			}
			cur = f.MaxTXID
			found := false
			for _, g := range c.Files {
				if g.L == f.Level && ltx.TXID(g.Min) == f.MinTXID && ltx.TXID(g.Max) == f.MaxTXID {
					found = true
					if !elig(c, g) {
						return "plan-uses-filtered-file"
					}
				}
			}
			if !found {
				return "plan-uses-unknown-file"
			}
		}
		if c.T != 0 && int(cur) != c.T {
			return "plan-misses-target"
		}
		if c.T == 0 && int(cur) != maxReach {
			return "plan-not-maximal"
		}
		if c.T == 0 && c.TS < 0 {
			for _, g := range c.Files {
				if g.L < 9 && g.Min > int(cur)+1 {
					return "silent-stop-before-gap"
				}
			}
		}
		return ""
	}
	if !exists {
		return ""
	}
	if c.T == 0 && c.TS < 0 && strings.Contains(err.Error(), "non-contiguous") {
		for _, g := range c.Files {
			if g.L < 9 && g.Min > maxReach+1 {
				return ""
			}
		}
		return "spurious-gap-error"
	}
	return "error-though-chain-exists"
}

// ---- generators ----

type interval struct{ a, b int }

func keysFor(N int, wf bool) []F {
	var ks []F
	for _, l := range []int{0, 1, 2, 9} {
		for a := 1; a <= N; a++ {
			for b := a; b <= N; b++ {
				if wf && l == 9 && a != 1 {
					continue
				}
				ks = append(ks, F{L: l, Min: a, Max: b})
			}
		}
	}
	return ks
}

func subsets(n, k int, fn func(idx []int)) {
	idx := []int{}
	var rec func(start int)
	rec = func(start int) {
		fn(idx)
		if len(idx) == k {
			return
		}
		for i := start; i < n; i++ {
			idx = append(idx, i)
			rec(i + 1)
			idx = idx[:len(idx)-1]
		}
	}
	rec(0)
}

func realistic(r *hx.Rand) Case {
	n := 1 + r.Intn(24)
	var fs []F
	clock := 10
	times := make([]int, n+1)
	for i := 1; i <= n; i++ {
		clock += r.Intn(3) * 10
		times[i] = clock
	}
	for i := 1; i <= n; i++ {
		if !r.Chance(12) {
			fs = append(fs, F{0, i, i, times[i]})
		}
	}
	for _, lv := range []int{1, 2, 3} {
		pos := 1 + r.Intn(3)
		for pos <= n {
			w := 1 + r.Intn(2+lv*2)
			e := pos + w - 1
			if e > n {
				e = n
			}
			if !r.Chance(15) {
				fs = append(fs, F{lv, pos, e, times[e]})
			}
			pos = e + 1
			if r.Chance(10) {
				pos -= r.Intn(2) // overlap
				if pos < 1 {
					pos = 1
				}
			}
		}
	}
	ns := r.Intn(3)
	for i := 0; i < ns; i++ {
		e := 1 + r.Intn(n)
		fs = append(fs, F{9, 1, e, times[e] + r.Intn(2)*5})
	}
	// dedupe by key
	seen := map[[3]int]bool{}
	var out []F
	for _, f := range fs {
		k := [3]int{f.L, f.Min, f.Max}
		if !seen[k] {
			seen[k] = true
			out = append(out, f)
		}
	}
	// shuffle
	for i := len(out) - 1; i > 0; i-- {
		j := r.Intn(i + 1)
		out[i], out[j] = out[j], out[i]
	}
	c := Case{Files: out, TS: -1, WF: true}
	switch r.Intn(3) {
	case 0:
	case 1:
		c.T = 1 + r.Intn(n+1)
	case 2:
		c.TS = times[1+r.Intn(n)] + r.Intn(3) - 1
	}
	return c
}

func malformed(r *hx.Rand) Case {
	n := r.Intn(7)
	seen := map[[3]int]bool{}
	var out []F
	for i := 0; i < n; i++ {
		f := F{[]int{0, 1, 2, 9, 9}[r.Intn(5)], r.Intn(6), r.Intn(6), 10 * r.Intn(4)}
		k := [3]int{f.L, f.Min, f.Max}
		if !seen[k] {
			seen[k] = true
			out = append(out, f)
		}
	}
	c := Case{Files: out, TS: -1, WF: false}
	switch r.Intn(4) {
	case 1:
		c.T = r.Intn(7)
	case 2:
		c.TS = r.Intn(45)
	case 3:
		c.T = 1 + r.Intn(6)
		c.TS = r.Intn(45)
	}
	return c
}

// ---- evaluation ----

type evalOut struct {
	c          Case
	impl       string
	infos      []*ltx.FileInfo
	err        error
	oracleFail string
}

func main() {
	o := hx.ParseFlags("C08")
	res := hx.NewResult(o, "c08: CalcRestorePlan vs Lean planFiles + brute-force C08 oracle")
	res.Rule = "exhaustive: every set of <=k files with distinct (level,min,max) over TXIDs 1..N x levels {0,1,2,9} (level 9 starting at 1) x every created assignment from 3 values (for timestamp targets) x all TXID targets 0..N+1 and 7 timestamps; plus seeded realistic sets (<=~60 files), a malformed stream (model-vs-code only) and file-client runs (real names, mtimes). non-trivial = at least one file; distinct = canonical line text"
	if o.Replay != "" {
		replay(o)
		return
	}
	runNames(o, res, nil)
	nWorkers := runtime.NumCPU()
	N, K, nRandom, nMal, nFile := 4, 3, 20000, 20000, 300
	if o.Tier == "thorough" {
		N, K, nRandom, nMal, nFile = 5, 3, 300000, 200000, 3000
	}

	cases := make(chan []Case, 64)
	var wg sync.WaitGroup
	var mu sync.Mutex
	crVals := []int{10, 20, 30}
	tsVals := []int{5, 10, 15, 20, 25, 30, 35}

	worker := func() {
		defer wg.Done()
		drv, err := hx.StartDriver(o.Driver)
		if err != nil {
			hx.Fatal(err)
		}
		defer drv.Close()
		for batch := range cases {
			lines := make([]string, len(batch))
			outs := make([]evalOut, len(batch))
			for i, c := range batch {
				lines[i] = c.line("plan")
				infos, err := runImpl(&memClient{files: c.Files}, c)
				outs[i] = evalOut{c: c, impl: canonImpl(infos, err), infos: infos, err: err}
				if c.WF {
					outs[i].oracleFail = oracle(c, infos, err)
				}
			}
			model, err := drv.AskBatch(lines)
			if err != nil {
				hx.Fatal(err)
			}
			mu.Lock()
			for i, eo := range outs {
				res.Case(lines[i], len(eo.c.Files) > 0)
				res.Count("impl:" + strings.SplitN(strings.SplitN(eo.impl, ":", 2)[0], " ", 3)[0] + "-" + kindOf(eo.impl))
				if eo.c.T != 0 {
					res.Count("target:txid")
				} else if eo.c.TS >= 0 {
					res.Count("target:timestamp")
				} else {
					res.Count("target:latest")
				}
				if hx.Differs(eo.impl, model[i]) {
					res.DisagreementsChecked++
					sc := shrink(eo.c, func(c Case) bool { return disagree(drv, c) })
					res.AddFinding("disagreement", "C08/model-vs-impl", fmt.Sprintf("impl=%q model=%q", eo.impl, model[i]),
						map[string]any{"case": sc, "line": sc.line("plan"), "original": eo.c})
				}
				if eo.oracleFail != "" {
					sc := shrink(eo.c, func(c Case) bool {
						infos, err := runImpl(&memClient{files: c.Files}, c)
						return oracle(c, infos, err) == eo.oracleFail
					})
					res.AddFinding("violation", "C08/"+eo.oracleFail, fmt.Sprintf("CalcRestorePlan breaks C08 (%s): impl=%q", eo.oracleFail, eo.impl),
						map[string]any{"case": sc, "line": sc.line("plan"), "original": eo.c})
				}
				if res.Evaluations%200000 == 1 {
					res.Sample(map[string]any{"line": lines[i], "impl": eo.impl, "model": model[i]})
				}
			}
			mu.Unlock()
		}
	}
	for i := 0; i < nWorkers; i++ {
		wg.Add(1)
		go worker()
	}

	batch := make([]Case, 0, 512)
	emit := func(c Case) {
		batch = append(batch, c)
		if len(batch) == cap(batch) {
			cases <- batch
			batch = make([]Case, 0, 512)
		}
	}

	// corpus first
	if o.Corpus != "" {
		ents, _ := filepath.Glob(filepath.Join(o.Corpus, "*.json"))
		sort.Strings(ents)
		for _, p := range ents {
			b, err := os.ReadFile(p)
			if err != nil {
				continue
			}
			var w struct {
				Replay struct{ Case Case `json:"case"` } `json:"replay"`
			}
			if json.Unmarshal(b, &w) == nil {
				emit(w.Replay.Case)
				res.Count("corpus")
			}
		}
	}

	// exhaustive small scope
	keys := keysFor(N, true)
	subsets(len(keys), K, func(idx []int) {
		fs := make([]F, len(idx))
		for i, k := range idx {
			fs[i] = keys[k]
			fs[i].Cr = 10
		}
		for t := 0; t <= N+1; t++ {
			emit(Case{Files: append([]F(nil), fs...), T: t, TS: -1, WF: true})
		}
		// every created assignment x every timestamp
		nAssign := 1
		for range idx {
			nAssign *= len(crVals)
		}
		for a := 0; a < nAssign; a++ {
			g := append([]F(nil), fs...)
			x := a
			for i := range g {
				g[i].Cr = crVals[x%len(crVals)]
				x /= len(crVals)
			}
			for _, ts := range tsVals {
				emit(Case{Files: g, T: 0, TS: ts, WF: true})
			}
		}
	})
	// non-WF level-9 files in small scope (model vs code only)
	keysM := keysFor(3, false)
	subsets(len(keysM), 2, func(idx []int) {
		fs := make([]F, len(idx))
		for i, k := range idx {
			fs[i] = keysM[k]
			fs[i].Cr = 10
		}
		for t := 0; t <= 4; t++ {
			emit(Case{Files: fs, T: t, TS: -1, WF: false})
		}
	})
	rnd := hx.NewRand(o.Seed)
	for i := 0; i < nRandom; i++ {
		emit(realistic(rnd))
	}
	for i := 0; i < nMal; i++ {
		emit(malformed(rnd))
	}
	if len(batch) > 0 {
		cases <- batch
	}
	close(cases)
	wg.Wait()
	res.Exhaustive = false
	res.Notes = append(res.Notes, fmt.Sprintf("small-scope enumeration complete for N=%d k=%d; random/malformed streams are sampled", N, K))

	// file-client glue: real names, ParseFilename, readdir, mtime -> CreatedAt
	drv, err := hx.StartDriver(o.Driver)
	if err != nil {
		hx.Fatal(err)
	}
	tmp, err := os.MkdirTemp("", "c08-file-")
	if err != nil {
		hx.Fatal(err)
	}
	defer os.RemoveAll(tmp)
	for i := 0; i < nFile; i++ {
		c := realistic(rnd)
		dir := filepath.Join(tmp, fmt.Sprint(i))
		fc := file.NewReplicaClient(dir)
		for _, f := range c.Files {
			p := fc.LTXFilePath(f.L, ltx.TXID(f.Min), ltx.TXID(f.Max))
			os.MkdirAll(filepath.Dir(p), 0o755)
			os.WriteFile(p, nil, 0o644)
			mt := epoch.Add(time.Duration(f.Cr) * time.Millisecond)
			os.Chtimes(p, mt, mt)
		}
		infos, ierr := runImpl(fc, c)
		impl := canonImpl(infos, ierr)
		line := c.line("plan")
		model, err := drv.Ask(line)
		if err != nil {
			hx.Fatal(err)
		}
		res.Case("file|"+line, len(c.Files) > 0)
		res.Count("file-client")
		if hx.Differs(impl, model) {
			res.DisagreementsChecked++
			res.AddFinding("disagreement", "C08/model-vs-impl-fileclient", fmt.Sprintf("impl=%q model=%q", impl, model),
				map[string]any{"case": c, "line": line, "client": "file"})
		}
		if of := oracle(c, infos, ierr); of != "" {
			res.AddFinding("violation", "C08/"+of, fmt.Sprintf("CalcRestorePlan over file client breaks C08 (%s): impl=%q", of, impl),
				map[string]any{"case": c, "line": line, "client": "file"})
		}
		// spec predicate judged by Lean on the implementation's plan
		if ierr == nil && i%3 == 0 {
			var q []string
			for _, f := range infos {
				q = append(q, fmt.Sprintf("%d:%d:%d:%d", f.Level, f.MinTXID, f.MaxTXID, f.CreatedAt.Sub(epoch).Milliseconds()))
			}
			v, err := drv.Ask(c.line("chain") + " Q=" + strings.Join(q, ","))
			if err != nil {
				hx.Fatal(err)
			}
			res.Count("lean-validChain:" + v)
			if v != "valid" && v != "-" {
				res.AddFinding("violation", "C08/lean-validChain", "Lean validChain rejects the implementation's plan: "+impl,
					map[string]any{"case": c, "line": line, "client": "file"})
			}
		}
		os.RemoveAll(dir)
	}
	drv.Close()
	if err := res.Write(o.Out); err != nil {
		hx.Fatal(err)
	}
}

func kindOf(s string) string {
	if strings.HasPrefix(s, "ok") {
		return "plan"
	}
	f := strings.Fields(s)
	if len(f) > 1 {
		return strings.SplitN(f[1], ":", 2)[0]
	}
	return "?"
}

func disagree(drv *hx.Driver, c Case) bool {
	infos, err := runImpl(&memClient{files: c.Files}, c)
	m, derr := drv.Ask(c.line("plan"))
	if derr != nil {
		return false
	}
	return hx.Differs(canonImpl(infos, err), m)
}

// shrink removes files one at a time while the failure persists.
func shrink(c Case, fails func(Case) bool) Case {
	for changed := true; changed; {
		changed = false
		for i := range c.Files {
			d := c
			d.Files = append(append([]F(nil), c.Files[:i]...), c.Files[i+1:]...)
			if fails(d) {
				c = d
				changed = true
				break
			}
		}
	}
	return c
}

func replay(o *hx.Opts) {
	b, err := os.ReadFile(o.Replay)
	if err != nil {
		hx.Fatal(err)
	}
	var nr struct {
		Replay struct {
			Names *NameCase `json:"names"`
		} `json:"replay"`
	}
	if json.Unmarshal(b, &nr) == nil && nr.Replay.Names != nil {
		if runNames(o, hx.NewResult(o, "replay"), nr.Replay.Names) {
			os.Exit(1)
		}
		return
	}
	var w struct {
		Replay struct{ Case Case `json:"case"` } `json:"replay"`
	}
	if err := json.Unmarshal(b, &w); err != nil {
		hx.Fatal(err)
	}
	c := w.Replay.Case
	drv, err := hx.StartDriver(o.Driver)
	if err != nil {
		hx.Fatal(err)
	}
	defer drv.Close()
	infos, ierr := runImpl(&memClient{files: c.Files}, c)
	m, _ := drv.Ask(c.line("plan"))
	fmt.Printf("line:   %s\nimpl:   %s\nmodel:  %s\noracle: %q\n", c.line("plan"), canonImpl(infos, ierr), m, oracle(c, infos, ierr))
	if canonImpl(infos, ierr) != m || (c.WF && oracle(c, infos, ierr) != "") {
		os.Exit(1)
	}
}
