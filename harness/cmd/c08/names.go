package main

// Stream `names` of engine c08: the naming and listing layer under the planner (ltx.FormatFilename,
// ltx.ParseFilename, file client LTXFiles with seek) against lean/Litestream/Model/LtxName.lean, plus
// the property's own oracles: every TXID pair round-trips through its name, and a level directory
// holding formatted names (of any size, including empty files, with junk beside them) lists exactly
// the positions at or above seek, ascending.

import (
	"context"
	"encoding/hex"
	"fmt"
	"os"
	"path/filepath"
	"strings"

	"github.com/benbjohnson/litestream/file"
	"github.com/superfly/ltx"

	"verif/harness/hx"
)

type NameCase struct {
	Kind  string   `json:"kind"` // parse | fmt | list
	Name  string   `json:"name,omitempty"` // hex
	Min   uint64   `json:"min,omitempty"`
	Max   uint64   `json:"max,omitempty"`
	Seek  uint64   `json:"seek,omitempty"`
	Level int      `json:"level,omitempty"`
	Names []string `json:"names,omitempty"` // hex, files
	Sizes []int    `json:"sizes,omitempty"` // bytes written to each file
	Dirs  []string `json:"dirs,omitempty"`  // hex, sub-directories
}

var txBounds = []uint64{0, 1, 2, 9, 10, 15, 16, 255, 1<<31 - 1, 1 << 31, 1<<32 - 1, 1 << 32, 1<<63 - 1, 1 << 63, 1<<64 - 1}

func randTX(r *hx.Rand) uint64 {
	switch r.Intn(4) {
	case 0:
		return txBounds[r.Intn(len(txBounds))]
	case 1:
		return uint64(r.Intn(1 << 10))
	default:
		return r.Uint64() >> uint(r.Intn(64))
	}
}

func mutateName(r *hx.Rand, s string) string {
	b := []byte(s)
	pos := func() int { return r.Intn(len(b)) }
	switch r.Intn(10) {
	case 0:
		return strings.ToUpper(s[:33]) + s[33:]
	case 1:
		b[pos()] = "0123456789abcdefgG_.-xzAF"[r.Intn(25)]
	case 2:
		p := pos()
		b = append(b[:p], b[p+1:]...)
	case 3:
		p := pos()
		b = append(b[:p], append([]byte{"0123456789abcdef"[r.Intn(16)]}, b[p:]...)...)
	case 4:
		return s + "\n"
	case 5:
		return s + ".tmp"
	case 6:
		return "x" + s
	case 7:
		b[pos()] = byte(0x80 + r.Intn(0x7f))
	case 8:
		return s[:33] + []string{".ltx ", ".LTX", ".ltx.lz4", "", ".wal"}[r.Intn(5)]
	case 9:
		return s[:16] + "_" + s[17:]
	}
	return string(b)
}

func runNames(o *hx.Opts, res *hx.Result, only *NameCase) (failed bool) {
	drv, err := hx.StartDriver(o.Driver)
	if err != nil {
		hx.Fatal(err)
	}
	defer drv.Close()
	rnd := hx.NewRand(o.Seed ^ 0x6c74786e)
	ask := func(line string) string {
		out, err := drv.Ask(line)
		if err != nil {
			hx.Fatal(err)
		}
		return out
	}
	found := map[string]bool{}
	report := func(kind, sig, what string, c NameCase) {
		failed = true
		if only != nil {
			fmt.Printf("%s: %s — %s\n", kind, sig, what)
			return
		}
		if !found[kind+sig] {
			found[kind+sig] = true
			res.AddFinding(kind, sig, what, map[string]any{"names": c})
		}
	}
	parseOne := func(name string) {
		c := NameCase{Kind: "parse", Name: hex.EncodeToString([]byte(name))}
		impl := "none"
		if a, b, err := ltx.ParseFilename(name); err == nil {
			impl = fmt.Sprintf("ok %d:%d", uint64(a), uint64(b))
		}
		model := ask("lparse HEX=" + c.Name)
		res.Count("names:parse:" + strings.Fields(impl)[0])
		res.Case("lparse|"+c.Name, impl != "none")
		if hx.Differs(impl, model) {
			report("disagreement", "C08/names-parse-model-vs-code", fmt.Sprintf("name %q: code %s, model %s", name, impl, model), c)
		}
	}
	fmtOne := func(a, b uint64) {
		c := NameCase{Kind: "fmt", Min: a, Max: b}
		name := ltx.FormatFilename(ltx.TXID(a), ltx.TXID(b))
		model := ask(fmt.Sprintf("lfmt A=%d B=%d", a, b))
		res.Count("names:fmt")
		res.Case(fmt.Sprintf("lfmt|%d|%d", a, b), true)
		if hx.Differs(name, model) {
			report("disagreement", "C08/names-format-model-vs-code", fmt.Sprintf("%d-%d: code %q, model %q", a, b, name, model), c)
		}
		if x, y, err := ltx.ParseFilename(name); err != nil || uint64(x) != a || uint64(y) != b {
			report("violation", "C08/ltx-name-roundtrip", fmt.Sprintf("file %d-%d is stored as %q, which parses to %d-%d (%v)", a, b, name, x, y, err), c)
		}
		parseOne(name)
	}
	listOne := func(c NameCase) {
		dir, err := os.MkdirTemp("", "c08-names-")
		if err != nil {
			hx.Fatal(err)
		}
		defer os.RemoveAll(dir)
		client := file.NewReplicaClient(dir)
		lvl := client.LTXLevelDir(c.Level)
		os.MkdirAll(lvl, 0o755)
		var names []string
		for i, h := range c.Names {
			b, _ := hex.DecodeString(h)
			if os.WriteFile(filepath.Join(lvl, string(b)), make([]byte, c.Sizes[i]), 0o644) != nil {
				continue
			}
			names = append(names, h)
		}
		for _, h := range c.Dirs {
			b, _ := hex.DecodeString(h)
			os.Mkdir(filepath.Join(lvl, string(b)), 0o755)
		}
		itr, err := client.LTXFiles(context.Background(), c.Level, ltx.TXID(c.Seek), false)
		if err != nil {
			report("violation", "C08/listing-error", fmt.Sprintf("LTXFiles failed: %v", err), c)
			return
		}
		var got []string
		var prevA, prevB uint64
		for k := 0; itr.Next(); k++ {
			it := itr.Item()
			a, b := uint64(it.MinTXID), uint64(it.MaxTXID)
			got = append(got, fmt.Sprintf("%d:%d", a, b))
			if k > 0 && (a < prevA || (a == prevA && b < prevB)) {
				report("violation", "C08/listing-unsorted", fmt.Sprintf("listing not ascending: %d-%d before %d-%d", prevA, prevB, a, b), c)
			}
			if it.Level != c.Level {
				report("violation", "C08/listing-level", fmt.Sprintf("file %d-%d listed with level %d in level %d", a, b, it.Level, c.Level), c)
			}
			prevA, prevB = a, b
		}
		itr.Close()
		impl := "-"
		if len(got) > 0 {
			impl = strings.Join(got, ",")
		}
		// directory entries that are directories: LTXFiles does not look at the entry type, the model
		// is given them as names too
		all := append(append([]string{}, names...), c.Dirs...)
		model := ask(fmt.Sprintf("llist SEEK=%d N=%s", c.Seek, strings.Join(all, ",")))
		res.Count(fmt.Sprintf("names:list:files=%d", min(len(got), 8)))
		res.Case(fmt.Sprintf("llist|%d|%d|%s", c.Level, c.Seek, strings.Join(all, ",")), len(got) > 1)
		if hx.Differs(impl, model) {
			report("disagreement", "C08/names-listing-model-vs-code", fmt.Sprintf("LTXFiles(level %d, seek %d): code %s, model %s", c.Level, c.Seek, impl, model), c)
		}
		// oracle: every file written under its formatted name with min >= seek is listed — whatever its size
		have := map[string]bool{}
		for _, s := range got {
			have[s] = true
		}
		for i, h := range c.Names {
			b, _ := hex.DecodeString(h)
			var x, y uint64
			if n, _ := fmt.Sscanf(string(b), "%016x-%016x.ltx", &x, &y); n == 2 && string(b) == ltx.FormatFilename(ltx.TXID(x), ltx.TXID(y)) &&
				x >= c.Seek && !have[fmt.Sprintf("%d:%d", x, y)] {
				report("violation", "C08/listing-loses-file", fmt.Sprintf("file %q (%d bytes) is not in the listing of its level (seek %d): %s", b, c.Sizes[i], c.Seek, impl), c)
			}
		}
	}

	if only != nil {
		switch only.Kind {
		case "fmt":
			fmtOne(only.Min, only.Max)
		case "list":
			listOne(*only)
		default:
			b, _ := hex.DecodeString(only.Name)
			parseOne(string(b))
		}
		return failed
	}
	n := 3000
	if o.Tier == "thorough" {
		n = 50000
	}
	for _, a := range txBounds {
		for _, b := range txBounds {
			fmtOne(a, b)
		}
	}
	for k := 0; k < n; k++ {
		a, b := randTX(rnd), randTX(rnd)
		fmtOne(a, b)
		parseOne(mutateName(rnd, ltx.FormatFilename(ltx.TXID(a), ltx.TXID(b))))
	}
	for k := 0; k < n/30; k++ {
		c := NameCase{Kind: "list", Level: []int{0, 1, 2, 9}[rnd.Intn(4)]}
		seen := map[string]bool{}
		base := uint64(rnd.Intn(1 << 8))
		if rnd.Chance(10) {
			base = randTX(rnd)
		}
		m := 1 + rnd.Intn(14)
		for j := 0; j < m; j++ {
			a := base + uint64(rnd.Intn(12))
			b := a + uint64(rnd.Intn(4))
			name := ltx.FormatFilename(ltx.TXID(a), ltx.TXID(b))
			kind := rnd.Intn(10)
			if kind == 0 {
				name = mutateName(rnd, name)
			}
			if name == "" || name == "." || name == ".." || strings.ContainsAny(name, "/\x00") || seen[name] {
				continue
			}
			seen[name] = true
			h := hex.EncodeToString([]byte(name))
			if kind == 1 {
				c.Dirs = append(c.Dirs, h)
				continue
			}
			c.Names = append(c.Names, h)
			c.Sizes = append(c.Sizes, []int{0, 0, 1, 99, 100, 101, 4096}[rnd.Intn(7)])
		}
		switch rnd.Intn(3) {
		case 0:
			c.Seek = 0
		case 1:
			c.Seek = base + uint64(rnd.Intn(14))
		default:
			c.Seek = randTX(rnd)
		}
		listOne(c)
	}
	return failed
}
