// Scenario child as a stand-alone program (manual use); the code lives in package scn.
//
//	scenario -name <scenario> -root <dir> -phase run|recover [-acked <txid>] [-seed <n>] [-rounds <n>]
package main

import (
	"os"

	"verif/harness/scn"
)

func main() { os.Exit(scn.Main(os.Args[1:])) }
