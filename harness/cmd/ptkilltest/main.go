// ptkilltest: self-test for verif/harness/ptkill.
//
//	ptkilltest                 supervisor: record run, kill runs, completion run
//	ptkilltest all             same, with every k in 1..Total
//	ptkilltest run <root> <k> prog args..   supervise an arbitrary program
//	ptkilltest bench           slowdown measurement (20k small writes)
//	ptkilltest child <root>    (internal) multi-threaded file-system workload
//	ptkilltest wchild <dir> n  (internal) n small writes
package main

import (
	"fmt"
	"os"
	"os/exec"
	"path/filepath"
	"sort"
	"strings"
	"sync"
	"syscall"
	"time"

	"verif/harness/ptkill"
)

const chunk = 100 // bytes per write in the child

func main() {
	switch {
	case len(os.Args) >= 3 && os.Args[1] == "child":
		child(os.Args[2])
	case len(os.Args) >= 4 && os.Args[1] == "wchild":
		wchild(os.Args[2], os.Args[3])
	case len(os.Args) >= 2 && os.Args[1] == "bench":
		bench()
	case len(os.Args) >= 5 && os.Args[1] == "run":
		var k int
		fmt.Sscan(os.Args[3], &k)
		t0 := time.Now()
		res, err := ptkill.Run(ptkill.Options{Argv: os.Args[4:], Root: os.Args[2], KillAt: k, Stdout: os.Stdout, Stderr: os.Stderr})
		by := map[string]int{}
		for _, c := range res.Calls {
			by[c.Sys]++
		}
		fmt.Printf("err=%v killed=%v before=%+v exit=%d total=%d took=%v by-sys=%v\n", err, res.Killed, res.KilledBefore, res.ExitCode, res.Total, time.Since(t0).Round(time.Millisecond), by)
	default:
		if !supervisor() {
			fmt.Println("FAIL")
			os.Exit(1)
		}
		fmt.Println("PASS")
	}
}

func must(err error) {
	if err != nil {
		fmt.Fprintln(os.Stderr, "child:", err)
		os.Exit(3)
	}
}

// child: 3 goroutines working under root, plus activity outside root.
func child(root string) {
	outside := root + ".outside" // shares the string prefix, but is NOT under root
	var wg sync.WaitGroup
	for g := 0; g < 3; g++ {
		wg.Add(1)
		go func(g int) {
			defer wg.Done()
			dir := filepath.Join(root, fmt.Sprintf("d%d", g))
			must(os.Mkdir(dir, 0o755))
			data := []byte(strings.Repeat("x", chunk))
			for i := 0; i < 8; i++ {
				tmp := filepath.Join(dir, fmt.Sprintf("a.%d.tmp", i))
				f, err := os.Create(tmp)
				must(err)
				_, err = f.Write(data)
				must(err)
				if i%3 == 0 {
					_, err = f.WriteAt(data, chunk) // pwrite64
					must(err)
				}
				must(f.Sync())
				must(f.Close())
				if m, err := os.Open(filepath.Join(root, ".mark", fmt.Sprintf("x.%d.%d", g, i))); err == nil {
					m.Close()
				}
				// outside root: must not be counted
				must(os.WriteFile(filepath.Join(outside, fmt.Sprintf("o.%d.%d", g, i)), data, 0o644))
				must(os.Rename(tmp, filepath.Join(dir, fmt.Sprintf("a.%d", i))))
				if i%2 == 0 {
					must(os.Remove(filepath.Join(dir, fmt.Sprintf("a.%d", i))))
				}
				if g == 0 && i == 2 {
					exe, _ := os.Executable()                             // (os.Args[0] may be relative and g2 chdirs)
					must(exec.Command(exe, "wchild", outside, "3").Run()) // fork/exec under trace
				}
			}
			if g == 2 {
				must(os.Chdir(dir))
				must(os.Truncate("a.1", 7)) // relative path, truncate(2)
				for i := 1; i < 8; i += 2 {
					must(syscall.Unlink(filepath.Join(dir, fmt.Sprintf("a.%d", i))))
				}
				must(syscall.Rmdir(dir))
			}
		}(g)
	}
	wg.Wait()
}

func wchild(dir, ns string) {
	var n int
	fmt.Sscan(ns, &n)
	f, err := os.Create(filepath.Join(dir, "w.dat"))
	must(err)
	b := []byte("0123456789abcdef")
	for i := 0; i < n; i++ {
		_, err := f.Write(b)
		must(err)
		if len(os.Args) >= 5 { // "mix": 4 uninteresting syscalls per write
			var st syscall.Stat_t
			syscall.Fstat(int(f.Fd()), &st)
			f.ReadAt(b[:1], 0)
			f.Seek(0, 1)
			syscall.Getpid()
		}
	}
	must(f.Close())
}

// fresh creates <tmp>/root, <tmp>/root/.mark and <tmp>/root.outside.
func fresh() (tmp, root string) {
	tmp, err := os.MkdirTemp("/tmp", "ptkilltest-")
	if err != nil {
		panic(err)
	}
	root = filepath.Join(tmp, "root")
	for _, d := range []string{root, root + "/.mark", root + ".outside"} {
		if err := os.Mkdir(d, 0o755); err != nil {
			panic(err)
		}
	}
	return
}

// strays lists live processes whose command line mentions the child modes.
func strays() []string {
	var out []string
	ents, _ := os.ReadDir("/proc")
	for _, e := range ents {
		if e.Name()[0] < '0' || e.Name()[0] > '9' {
			continue
		}
		b, _ := os.ReadFile("/proc/" + e.Name() + "/cmdline")
		s := strings.ReplaceAll(string(b), "\x00", " ")
		if strings.Contains(s, "ptkilltest child ") || strings.Contains(s, "ptkilltest wchild ") {
			st, _ := os.ReadFile("/proc/" + e.Name() + "/stat")
			out = append(out, e.Name()+": "+s+" | "+string(st))
		}
	}
	return out
}

// model replays executed calls: path -> size (-1 = directory).
func model(calls []ptkill.Call) map[string]int {
	m := map[string]int{}
	for _, c := range calls {
		switch c.Sys {
		case "openat":
			if c.Flags&syscall.O_TRUNC != 0 {
				m[c.Path] = 0
			} else if _, ok := m[c.Path]; !ok {
				m[c.Path] = 0
			}
		case "write":
			m[c.Path] += chunk
		case "pwrite64":
			m[c.Path] = 2 * chunk
		case "truncate":
			m[c.Path] = 7
		case "renameat", "renameat2", "rename":
			m[c.Path2] = m[c.Path]
			delete(m, c.Path)
		case "unlinkat", "unlink", "rmdir":
			delete(m, c.Path)
		case "mkdirat", "mkdir":
			m[c.Path] = -1
		}
	}
	return m
}

func actual(root string) map[string]int {
	m := map[string]int{}
	filepath.Walk(root, func(p string, fi os.FileInfo, err error) error {
		if err != nil || p == root {
			return nil
		}
		if fi.IsDir() {
			if fi.Name() == ".mark" {
				return filepath.SkipDir
			}
			m[p] = -1
		} else {
			m[p] = int(fi.Size())
		}
		return nil
	})
	return m
}

func diff(want, got map[string]int) []string {
	var d []string
	for k, v := range want {
		if g, ok := got[k]; !ok {
			d = append(d, fmt.Sprintf("missing %s (want %d)", k, v))
		} else if g != v {
			d = append(d, fmt.Sprintf("%s: size %d, want %d", k, g, v))
		}
	}
	for k, v := range got {
		if _, ok := want[k]; !ok {
			d = append(d, fmt.Sprintf("unexpected %s (%d)", k, v))
		}
	}
	sort.Strings(d)
	return d
}

func counted(calls []ptkill.Call) (n, marks int) {
	for _, c := range calls {
		if c.Sys == "mark" {
			marks++
		} else {
			n++
		}
	}
	return
}

func runOnce(killAt int) (*ptkill.Result, string, string, error) {
	tmp, root := fresh()
	res, err := ptkill.Run(ptkill.Options{
		Argv: []string{os.Args[0], "child", root}, Root: root, KillAt: killAt,
		Stderr: os.Stderr, Timeout: 60 * time.Second,
	})
	return res, tmp, root, err
}

func supervisor() bool {
	ok := true
	bad := func(f string, a ...any) { ok = false; fmt.Printf("  ERROR: "+f+"\n", a...) }

	res, tmp, root, err := runOnce(0)
	if err != nil {
		fmt.Println("record run:", err)
		return false
	}
	n, marks := counted(res.Calls)
	fmt.Printf("record: Total=%d counted=%d marks=%d exit=%d killed=%v\n", res.Total, n, marks, res.ExitCode, res.Killed)
	for i, c := range res.Calls {
		if i >= 15 {
			break
		}
		fmt.Printf("  %3d %-9s %s %s flags=%#x\n", c.Seq, c.Sys, strings.TrimPrefix(c.Path, tmp), strings.TrimPrefix(c.Path2, tmp), c.Flags)
	}
	if res.Killed || res.ExitCode != 0 || n != res.Total || marks != 24 {
		bad("record run: unexpected result")
	}
	for _, c := range res.Calls {
		if c.Sys != "mark" && !strings.HasPrefix(c.Path, root+"/") && !strings.HasPrefix(c.Path2, root+"/") {
			bad("counted call outside root: %+v", c)
		}
	}
	if d := diff(model(res.Calls), actual(root)); len(d) > 0 {
		bad("record run: fs state differs from replay: %v", d)
	}
	os.RemoveAll(tmp)
	total := res.Total
	// The workload is deterministic per goroutine, so Total is stable across runs.

	ks := []int{1, 2, total / 2, total - 1, total}
	if len(os.Args) >= 2 && os.Args[1] == "all" { // every kill point
		ks = nil
		for k := 1; k <= total; k++ {
			ks = append(ks, k)
		}
	}
	for _, k := range ks {
		res, tmp, root, err := runOnce(k)
		if err != nil {
			bad("k=%d: %v", k, err)
			continue
		}
		n, _ := counted(res.Calls)
		kb := res.KilledBefore
		fmt.Printf("k=%d: killed=%v executed=%d total=%d before=%+v\n", k, res.Killed, n, res.Total, kb)
		if !res.Killed || kb == nil || res.ExitCode != -1 {
			bad("k=%d: not killed", k)
			os.RemoveAll(tmp)
			continue
		}
		if n != k-1 || res.Total != k || kb.Seq != k {
			bad("k=%d: executed=%d total=%d seq=%d", k, n, res.Total, kb.Seq)
		}
		// (c) the pending call had no effect ...
		exists := func(p string) bool { _, e := os.Lstat(p); return e == nil }
		want := model(res.Calls)
		switch kb.Sys {
		case "openat":
			if _, known := want[kb.Path]; !known && exists(kb.Path) {
				bad("k=%d: pending openat created %s", k, kb.Path)
			}
		case "renameat", "renameat2":
			if !exists(kb.Path) || exists(kb.Path2) {
				bad("k=%d: pending rename took effect", k)
			}
		case "unlinkat", "unlink":
			if !exists(kb.Path) {
				bad("k=%d: pending unlink took effect", k)
			}
		case "mkdirat":
			if exists(kb.Path) {
				bad("k=%d: pending mkdir took effect", k)
			}
		}
		// ... and the fs state is exactly the replay of the k-1 executed calls
		// (this also covers write/pwrite/truncate as pending calls).
		if d := diff(want, actual(root)); len(d) > 0 {
			bad("k=%d: fs state differs from replay of executed calls: %v", k, d)
		}
		// (d) nothing left behind
		if s := strays(); len(s) > 0 {
			bad("k=%d: stray processes: %v", k, s)
		}
		os.RemoveAll(tmp)
	}

	res, tmp, _, err = runOnce(total + 5)
	if err != nil || res.Killed || res.ExitCode != 0 || res.Total != total {
		bad("k=Total+5: err=%v res=%+v", err, res)
	} else {
		fmt.Printf("k=%d: ran to completion, exit=0, total=%d\n", total+5, res.Total)
	}
	os.RemoveAll(tmp)
	if s := strays(); len(s) > 0 {
		bad("stray processes at end: %v", s)
	}

	// Timeout path: child sleeps; must be killed, reaped, and reported as an error.
	tmp, root = fresh()
	t0 := time.Now()
	_, err = ptkill.Run(ptkill.Options{Argv: []string{"sleep", "30"}, Root: root, Timeout: 300 * time.Millisecond})
	if err == nil || time.Since(t0) > 5*time.Second {
		bad("timeout run: err=%v after %v", err, time.Since(t0))
	} else {
		fmt.Printf("timeout: %v (after %v)\n", err, time.Since(t0).Round(time.Millisecond))
	}
	os.RemoveAll(tmp)
	return ok
}

func bench() {
	tmp, root := fresh()
	defer os.RemoveAll(tmp)
	for _, argv := range [][]string{
		{os.Args[0], "wchild", root, "20000"},       // 20k writes
		{os.Args[0], "wchild", root, "4000", "mix"}, // 4k writes + 16k other syscalls
	} {
		t0 := time.Now()
		if err := exec.Command(argv[0], argv[1:]...).Run(); err != nil {
			panic(err)
		}
		plain := time.Since(t0)
		for _, killAt := range []int{0, 1 << 30} { // record only / with completion tracking
			t0 = time.Now()
			res, err := ptkill.Run(ptkill.Options{Argv: argv, Root: root, KillAt: killAt})
			if err != nil {
				panic(err)
			}
			sup := time.Since(t0)
			fmt.Printf("bench %v KillAt=%d: plain=%v supervised=%v (x%.1f), counted=%d, %.1f us/counted call\n",
				argv[2:], killAt, plain.Round(time.Millisecond), sup.Round(time.Millisecond), float64(sup)/float64(plain),
				res.Total, float64(sup.Microseconds())/float64(res.Total))
		}
	}
}
