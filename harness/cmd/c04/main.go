// Engine c04: histories with disturbances (litestream down/crashed/restarted,
// database replaced, local state lost or reset) followed by an acknowledged
// sync; the replica must restore to the source and must not silently stall.
package main

import (
	"fmt"
	"os"
	"strings"
	"sync"

	"verif/harness/histlib"
	"verif/harness/hx"
)

func main() {
	o := hx.ParseFlags("C04")
	res := hx.NewResult(o, "c04: disturbance histories on real SQLite + litestream")
	res.Rule = "seeded histories of 1-3 rounds of {app activity with syncs; a disturbance: clean stop + app activity (writes, any checkpoint mode, closing the last connection, VACUUM) + start as new DB object | start of the same DB object | crash | database file replaced by an older copy | meta directory removed | run-time ResetLocalState}; then SyncAndWait and Replica.Sync; non-trivial = at least one acknowledged instant after a disturbance checked by page-image comparison; distinct = canonical history text"
	or := histlib.Oracles{AckRestore: true, NoStall: true, FinalSyncOK: true, Classify: classify, TraceVerify: true}
	drv, err := hx.StartDriver(o.Driver)
	if err != nil {
		hx.Fatal(err)
	}
	defer drv.Close()
	if o.Replay != "" {
		os.Exit(histlib.ReplayMain(o, or))
	}
	histlib.RunEngine(o, res, histlib.EngineSpec{ID: "C04", Gen: histlib.GenC04, Oracles: or, NQuick: 250, NThorough: 5000,
		Extra: func(h histlib.History, st histlib.RunStats, res *hx.Result, mu *sync.Mutex) {
			mu.Lock()
			defer mu.Unlock()
			for _, v := range st.VerifyObs {
				if v.Real == "err" {
					res.Count("verify:real-error")
					continue
				}
				model, err := drv.Ask(v.Line)
				if err != nil {
					hx.Fatal(err)
				}
				res.Count("verify:" + strings.SplitN(v.Real, " idx", 2)[0] + strings.TrimPrefix(v.Real[strings.Index(v.Real, " clear"):], " "))
				if hx.Differs(v.Real, model) {
					res.DisagreementsChecked++
					res.AddFinding("disagreement", "C04/verify-model-vs-impl", fmt.Sprintf("verify: litestream decided %q, model %q", v.Real, model),
						map[string]any{"history": h, "text": h.String(), "line": v.Line})
				}
			}
		}})
	if err := res.Write(o.Out); err != nil {
		hx.Fatal(err)
	}
}

// classify refines the signature of one recorded finding (KNOWN_FINDINGS.json); any other
// failure keeps its generic signature and is reported as a violation.
//
// rollback-same-generation-identical-last-frame: while litestream was down the database file
// AND its WAL were rolled back to an earlier raw copy of the same WAL generation and a different
// history was written past the rollback point, such that the frame just before litestream's
// replicated position is byte-identical (same page number, same content, same salts) in both
// histories. verify's continuity test looks at that one frame only (lastPageMatch), so it
// continues incrementally and the frames rewritten between the rollback point and the position
// never reach the replica. The classification requires the facts, gathered independently from
// the files, to say exactly that: salts equal, position inside the WAL, the frame before the
// position present in the last L0 file, and the real decision "incremental at the position".
// (F3, the run-time reset of local state, was repaired in /repo by c352567 and is no longer classified.)
func classify(h histlib.History, at int, f *histlib.Fail) {
	rolled := false
	for i, op := range h.Ops {
		if i < at && op.K == "rollbackfiles" {
			rolled = true
		}
	}
	if !rolled {
		return
	}
	// Once the chain has been continued across the rewritten frames, every later acknowledged sync of the
	// same history restores from that chain: those failures are consequences of the recorded one.
	for _, e := range f.Earlier {
		if e == "rollback-same-generation-identical-last-frame" && (f.Sig == "ack-restore-differs" || f.Sig == "ack-restore-fails") {
			f.Sig = e
			return
		}
	}
	if f.Verify == nil || !lastFrameCoincides(f.Verify) {
		return
	}
	if f.Sig == "ack-restore-differs" || f.Sig == "ack-restore-fails" {
		f.Sig = "rollback-same-generation-identical-last-frame"
	}
}

func lastFrameCoincides(v *histlib.VerifyObs) bool {
	kv := map[string]string{}
	for _, t := range strings.Fields(v.Line) {
		if i := strings.IndexByte(t, '='); i > 0 {
			kv[t[:i]] = t[i+1:]
		}
	}
	var le int
	fmt.Sscanf(kv["LE"], "%d", &le)
	frames := strings.Split(kv["F"], ",")
	if kv["POS0"] != "0" || kv["LS"] != kv["HS"] || le < 2 || le > len(frames) {
		return false
	}
	fr := strings.SplitN(frames[le-1], ":", 2) // salt:pgno:tok
	if len(fr) != 2 || fr[0] != kv["LS"] {
		return false
	}
	found := false
	for _, p := range strings.Split(kv["LP"], ",") {
		if p == fr[1] {
			found = true
		}
	}
	return found && strings.HasPrefix(v.Real, fmt.Sprintf("snap=0 idx=%d ", le))
}
