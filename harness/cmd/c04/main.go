// Engine c04: histories with disturbances (litestream down/crashed/restarted,
// database replaced, local state lost or reset) followed by an acknowledged
// sync; the replica must restore to the source and must not silently stall.
package main

import (
	"fmt"
	"os"
	"strings"
	"sync"

	"verif/harness/histlib"
	"verif/harness/hx"
)

func main() {
	o := hx.ParseFlags("C04")
	res := hx.NewResult(o, "c04: disturbance histories on real SQLite + litestream")
	res.Rule = "seeded histories of 1-3 rounds of {app activity with syncs; a disturbance: clean stop + app activity (writes, any checkpoint mode, closing the last connection, VACUUM) + start as new DB object | start of the same DB object | crash | database file replaced by an older copy | meta directory removed | run-time ResetLocalState}; then SyncAndWait and Replica.Sync; non-trivial = at least one acknowledged instant after a disturbance checked by page-image comparison; distinct = canonical history text"
	or := histlib.Oracles{AckRestore: true, NoStall: true, FinalSyncOK: true, Classify: classify, TraceVerify: true}
	drv, err := hx.StartDriver(o.Driver)
	if err != nil {
		hx.Fatal(err)
	}
	defer drv.Close()
	if o.Replay != "" {
		os.Exit(histlib.ReplayMain(o, or))
	}
	histlib.RunEngine(o, res, histlib.EngineSpec{ID: "C04", Gen: histlib.GenC04, Oracles: or, NQuick: 250, NThorough: 5000,
		Extra: func(h histlib.History, st histlib.RunStats, res *hx.Result, mu *sync.Mutex) {
			mu.Lock()
			defer mu.Unlock()
			for _, v := range st.VerifyObs {
				if v.Real == "err" {
					res.Count("verify:real-error")
					continue
				}
				model, err := drv.Ask(v.Line)
				if err != nil {
					hx.Fatal(err)
				}
				res.Count("verify:" + strings.SplitN(v.Real, " idx", 2)[0] + strings.TrimPrefix(v.Real[strings.Index(v.Real, " clear"):], " "))
				if hx.Differs(v.Real, model) {
					res.DisagreementsChecked++
					res.AddFinding("disagreement", "C04/verify-model-vs-impl", fmt.Sprintf("verify: litestream decided %q, model %q", v.Real, model),
						map[string]any{"history": h, "text": h.String(), "line": v.Line})
				}
			}
		}})
	if err := res.Write(o.Out); err != nil {
		hx.Fatal(err)
	}
}

// classify refines the signature of failures that need a run-time
// ResetLocalState (what auto-recover does) before the failing operation: that
// pattern is the recorded finding F3 (KNOWN_FINDINGS.json); any other failure
// keeps its generic signature and is reported as a violation.
func classify(h histlib.History, at int, f *histlib.Fail) {
	for i, op := range h.Ops {
		if i < at && op.K == "autorecover" {
			f.Sig = "runtime-reset-local-state-restarts-below-replica"
			return
		}
	}
}
