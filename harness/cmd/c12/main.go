// Engine for C12 (concurrent daemon operations):
//
//	(1) static: every lock path extracted from /repo (Gen/Locks.lean, served by the Lean driver) is judged
//	    with the decidable predicates of the theorem (Balanced, RankRespecting, ReleasesAll); a failing path is
//	    turned into a concrete deadlock schedule by exhaustive exploration of its interleavings with the other
//	    operations' paths (Lean model) where possible;
//	(2) dynamic: the stress child harness/cmd/c12stress is built twice (plain and -race) against the same
//	    repository and run for several seeds / GOMAXPROCS; its oracle results and the race detector's stderr are
//	    collected. Data-race freedom is NOT covered by any theorem; the -race runs are the only support.
package main

import (
	"bytes"
	"context"
	"crypto/sha256"
	"encoding/hex"
	"encoding/json"
	"fmt"
	"os"
	"os/exec"
	"path/filepath"
	"regexp"
	"sort"
	"strconv"
	"strings"
	"syscall"
	"time"

	"verif/harness/hx"
)

type genPath struct {
	Op    string
	Index int
	Group string // "-" or group id
	Path  string
}

type replay struct {
	Kind      string     `json:"kind"` // "path" | "schedule" | "stress"
	Engine    string     `json:"engine"`
	Op        string     `json:"op,omitempty"`
	Index     int        `json:"index,omitempty"`
	Group     string     `json:"group,omitempty"`
	Path      string     `json:"path,omitempty"`
	Verdict   string     `json:"verdict,omitempty"`
	Threads   []string   `json:"threads,omitempty"`
	Groups    []string   `json:"groups,omitempty"`
	Schedule  string     `json:"model_schedule,omitempty"`
	Names     []string   `json:"thread_ops,omitempty"`
	Seed      uint64     `json:"seed,omitempty"`
	HoldMS    int        `json:"hold_ms,omitempty"`
	CloseMS   int        `json:"close_ms,omitempty"`
	Procs     int        `json:"procs,omitempty"`
	Race      bool       `json:"race,omitempty"`
	Monitors  bool       `json:"monitors,omitempty"`
	Profile   string     `json:"profile,omitempty"`
	Ops       [][]string `json:"schedule,omitempty"`
	Detail    string     `json:"detail,omitempty"`
	Resources string     `json:"resources,omitempty"`
}

const resourceLegend = "1 Store.wg, 2 DB.wg, 3 Store.mu, 4 DB.execSem, 5 Replica.wg, 6 Replica.syncSem, 7 DB.chkMu, 8 DB.mu, 9 DB.maxLTXFileInfos, 10 DB.pos, 11 DB.syncDiag, 12 Replica.mu, 13 Replica.muf, 14 DB.lastSuccessfulSyncMu, 15 HeartbeatClient.mu, 16 Server.wg; events a=Lock c=cancellable Acquire t=try ok f=try failed/cancelled r=release w=WaitGroup.Wait m=marker"

func ask(d *hx.Driver, line string) string {
	s, err := d.Ask(line)
	if err != nil {
		hx.Fatal(err)
	}
	return s
}

func loadGen(d *hx.Driver) []genPath {
	ans := ask(d, "ops")
	if !strings.HasPrefix(ans, "ops ") {
		return nil
	}
	var out []genPath
	for _, it := range strings.Split(strings.TrimPrefix(ans, "ops "), ",") {
		k := strings.LastIndex(it, ":")
		if k < 0 {
			continue
		}
		n, _ := strconv.Atoi(it[k+1:])
		for i := 0; i < n; i++ {
			a := ask(d, fmt.Sprintf("genpath OP=%s I=%d", it[:k], i))
			var g, p string
			for _, tok := range strings.Fields(a) {
				if strings.HasPrefix(tok, "G=") {
					g = tok[2:]
				}
				if strings.HasPrefix(tok, "P=") {
					p = tok[2:]
				}
			}
			out = append(out, genPath{Op: it[:k], Index: i, Group: g, Path: p})
		}
	}
	return out
}

// staticPhase judges all extracted paths; on failure looks for a concrete deadlock schedule in the model.
func staticPhase(o *hx.Opts, res *hx.Result, d *hx.Driver) {
	if o.NoModel {
		res.Notes = append(res.Notes, "static phase skipped: Lean driver unavailable")
		return
	}
	gen := loadGen(d)
	if len(gen) == 0 {
		res.AddFinding("disagreement", "C12/no-extracted-paths", "the driver serves no extracted lock paths", replay{Kind: "path", Engine: "c12"})
		return
	}
	// representatives for the schedule search: the longest path of every operation
	reps := map[string]genPath{}
	for _, g := range gen {
		if r, ok := reps[g.Op]; !ok || len(g.Path) > len(r.Path) {
			reps[g.Op] = g
		}
	}
	var repNames []string
	for n := range reps {
		repNames = append(repNames, n)
	}
	sort.Strings(repNames)
	reported := map[string]bool{}
	for _, g := range gen {
		spawned := strings.Contains(g.Op, "$go")
		res.Count("static/" + g.Op)
		nontrivial := strings.Count(g.Path, ",") >= 3
		res.Case("path|"+g.Op+"|"+g.Path, nontrivial)
		if spawned {
			continue // goroutines spawned inside operations may release what the spawner handed over
		}
		v := ask(d, fmt.Sprintf("judge P=%s G=%s X=1", g.Path, g.Group))
		if v == "ok" {
			continue
		}
		sigKind := "rank"
		if strings.Contains(v, "balanced=0") || strings.Contains(v, "releases=0") {
			sigKind = "leak"
		}
		sig := fmt.Sprintf("C12/path-%s/%s", sigKind, g.Op)
		if reported[sig] {
			continue
		}
		reported[sig] = true
		rp := replay{Kind: "path", Engine: "c12", Op: g.Op, Index: g.Index, Group: g.Group, Path: g.Path, Verdict: v, Resources: resourceLegend}
		if sigKind == "leak" {
			res.AddFinding("violation", sig, fmt.Sprintf("%s has a return path that does not release what it acquired (or releases what it does not hold): %s — path %s", g.Op, v, g.Path), rp)
			continue
		}
		// rank violation: look for a partner path that makes it a real deadlock in the model
		found := false
		for _, n := range repNames {
			q := reps[n]
			if strings.Contains(q.Op, "$go") {
				continue
			}
			a := ask(d, fmt.Sprintf("explore T=%s;%s G=%s,%s X=1", g.Path, q.Path, g.Group, q.Group))
			res.Count("static/explore")
			if strings.HasPrefix(a, "deadlock") {
				rp.Kind = "schedule"
				rp.Threads = []string{g.Path, q.Path}
				rp.Groups = []string{g.Group, q.Group}
				rp.Names = []string{g.Op, q.Op}
				rp.Schedule = strings.TrimPrefix(a, "deadlock ")
				res.AddFinding("violation", fmt.Sprintf("C12/deadlock-schedule/%s+%s", g.Op, q.Op),
					fmt.Sprintf("lock-order inversion: %s and %s deadlock under model schedule %s (threads %s | %s)", g.Op, q.Op, rp.Schedule, g.Path, q.Path), rp)
				found = true
				break
			}
		}
		if !found {
			res.AddFinding("disagreement", sig, fmt.Sprintf("%s: path violates the rank discipline (%s) but no two-operation deadlock schedule was found: %s", g.Op, v, g.Path), rp)
		}
	}
	res.Sample(map[string]any{"extracted_paths": len(gen), "operations": len(reps)})
}

// ---- dynamic phase

type childResult struct {
	Seed          uint64              `json:"seed"`
	Procs         int                 `json:"procs"`
	OpsTotal      int                 `json:"ops_total"`
	CallsStarted  int                 `json:"calls_started"`
	CallsFinished int                 `json:"calls_finished"`
	Distribution  map[string]int      `json:"distribution"`
	Schedule      [][]string          `json:"schedule"`
	Violations    []map[string]string `json:"violations"`
	Notes         []string            `json:"notes"`
	WallS         float64             `json:"wall_s"`
}

func repoDir() string {
	if r := os.Getenv("VERIF_REPO"); r != "" {
		return r
	}
	return "/repo"
}

func buildChild(race bool) (string, error) {
	name := "c12stress"
	if race {
		name += "-race"
	}
	args := []string{"build", "-tags", "verif"}
	if race {
		args = append(args, "-race")
	}
	if r := repoDir(); r != "/repo" {
		h := sha256.Sum256([]byte(r))
		suffix := hex.EncodeToString(h[:])[:8]
		name += "-alt-" + suffix
		mod := filepath.Join(".", ".alt-"+suffix+".mod")
		if _, err := os.Stat(mod); err != nil {
			src, err := os.ReadFile("go.mod")
			if err != nil {
				return "", err
			}
			os.WriteFile(mod, []byte(strings.ReplaceAll(string(src), "=> /repo", "=> "+r)), 0o644)
			sum, _ := os.ReadFile("go.sum")
			os.WriteFile(strings.TrimSuffix(mod, ".mod")+".sum", sum, 0o644)
		}
		args = append(args, "-modfile", mod)
	}
	out, _ := filepath.Abs(filepath.Join("bin", name))
	args = append(args, "-o", out, "./cmd/c12stress")
	ctx, cancel := context.WithTimeout(context.Background(), 25*time.Minute)
	defer cancel()
	cmd := exec.CommandContext(ctx, "go", args...)
	var buf bytes.Buffer
	cmd.Stdout, cmd.Stderr = &buf, &buf
	// serialise with other checks' go builds
	if lf, err := os.OpenFile("/verif/.locks/go", os.O_CREATE|os.O_RDWR, 0o644); err == nil {
		syscall.Flock(int(lf.Fd()), syscall.LOCK_EX)
		defer func() { syscall.Flock(int(lf.Fd()), syscall.LOCK_UN); lf.Close() }()
	}
	if err := cmd.Run(); err != nil {
		return "", fmt.Errorf("go %s: %v\n%s", strings.Join(args, " "), err, tail(buf.String(), 3000))
	}
	return out, nil
}

func tail(s string, n int) string {
	if len(s) > n {
		return s[len(s)-n:]
	}
	return s
}

type episode struct {
	seed     uint64
	procs    int
	race     bool
	monitors bool
	gor, ops int
	schedule [][]string
	profile  string // "core" | "lifecycle"
}

var lifecycleKnownKinds = map[string]bool{"final-sync-failed": true, "still-open": true, "restore-mismatch": true,
	"read-lock-leaked": true, "fd-leak": true}

// (snapshot-content-mismatch is handled next to them: it still occurs in the lifecycle profile after 94e7330)

var raceRe = regexp.MustCompile(`(?s)WARNING: DATA RACE.*?==================`)

// raceSignature names BOTH sides of a race report: the innermost litestream frame of each of the two access
// stacks (function names, no line numbers) and, where the source line at the reported file:line shows it, the
// struct field(s) being written / read there. The writing side comes first; two writes are sorted.
//
//	C12/data-race/DB.Close[f]~DB.writeLTXFromDB[f]
var (
	raceBlockRe   = regexp.MustCompile(`(?m)^(Write|Read|Previous write|Previous read|Atomic write|Previous atomic write|Atomic read|Previous atomic read) at [^\n]*\n((?:  [^\n]*\n)+)`)
	raceFrameRe   = regexp.MustCompile(`(?m)^  github\.com/benbjohnson/litestream((?:/[A-Za-z0-9_/-]+)?)\.([A-Za-z0-9_.()*\[\]]+)\(\)\n\s+(\S+):(\d+)`)
	raceHarnessRe = regexp.MustCompile(`(?m)^  main\.([A-Za-z0-9_.()*]+)\(\)\n`)
	raceSelRe     = regexp.MustCompile(`(&?)\b([A-Za-z_][A-Za-z0-9_]*)((?:\.[A-Za-z_][A-Za-z0-9_]*)+)(\s*\()?`)
)

var racePkgNames = map[string]bool{"fmt": true, "os": true, "io": true, "context": true, "time": true, "ltx": true, "filepath": true,
	"errors": true, "slog": true, "internal": true, "sql": true, "strings": true, "sync": true, "atomic": true, "semaphore": true,
	"bytes": true, "binary": true, "sort": true, "slices": true, "math": true, "crc64": true, "prometheus": true, "litestream": true,
	"path": true, "strconv": true, "rand": true, "log": true, "hex": true, "json": true, "lz4": true, "errgroup": true, "syscall": true}

// raceFields: struct fields touched on a source line (receiver variable dropped): `db.f = nil` -> f.
func raceFields(file string, line int, write bool) string {
	b, err := os.ReadFile(file)
	if err != nil {
		return ""
	}
	lines := strings.Split(string(b), "\n")
	if line < 1 || line > len(lines) {
		return ""
	}
	text := lines[line-1]
	if i := strings.Index(text, "//"); i >= 0 {
		text = text[:i]
	}
	scope := text
	if write {
		// left-hand side of an assignment, if any
		for i := 0; i < len(text); i++ {
			if text[i] == '=' && (i+1 >= len(text) || text[i+1] != '=') && (i == 0 || !strings.ContainsRune("=!<>", rune(text[i-1]))) {
				scope = text[:i]
				break
			}
		}
	}
	collect := func(t string, onlyAddr bool) []string {
		var out []string
		for _, m := range raceSelRe.FindAllStringSubmatch(t, -1) {
			if racePkgNames[m[2]] || (onlyAddr && m[1] == "") {
				continue
			}
			parts := strings.Split(strings.TrimPrefix(m[3], "."), ".")
			if m[4] != "" { // a call: the last component is the method
				parts = parts[:len(parts)-1]
			}
			if len(parts) == 0 {
				continue
			}
			out = append(out, strings.Join(parts, "."))
		}
		return out
	}
	fs := collect(scope, false)
	if write && (scope == text || len(fs) == 0) { // no field on a left-hand side: e.g. `if err := ….Scan(&db.pageSize)`
		if a := collect(text, true); len(a) > 0 {
			fs = a
		}
	}
	sort.Strings(fs)
	var u []string
	for _, f := range fs {
		if len(u) == 0 || u[len(u)-1] != f {
			u = append(u, f)
		}
	}
	return strings.Join(u, ",")
}

func raceSignature(rep string) string {
	type side struct {
		name  string
		write bool
	}
	var sides []side
	for _, b := range raceBlockRe.FindAllStringSubmatch(rep, -1) {
		m := raceFrameRe.FindStringSubmatch(b[2])
		if m == nil {
			// no litestream frame on this side: the access is made by the stress harness on memory handed out
			// by the litestream API (e.g. an element of the slice returned by Store.DBs()); name the harness function
			name := "(outside litestream)"
			if hm := raceHarnessRe.FindStringSubmatch(b[2]); hm != nil {
				n := strings.NewReplacer("(*", "", ")", "").Replace(hm[1])
				if i := strings.Index(n, ".func"); i > 0 {
					n = n[:i]
				}
				name = "stress." + n
			}
			sides = append(sides, side{name, strings.Contains(strings.ToLower(b[1]), "write")})
			continue
		}
		n := strings.NewReplacer("(*", "", ")", "").Replace(m[2])
		if i := strings.Index(n, ".func"); i > 0 {
			n = n[:i]
		}
		if m[1] != "" {
			n = m[1][strings.LastIndex(m[1], "/")+1:] + "." + n
		}
		w := strings.Contains(strings.ToLower(b[1]), "write")
		ln, _ := strconv.Atoi(m[4])
		if f := raceFields(m[3], ln, w); f != "" {
			n += "[" + f + "]"
		}
		sides = append(sides, side{n, w})
	}
	if len(sides) < 2 {
		return "unparsed"
	}
	a, b := sides[0], sides[1]
	if (!a.write && b.write) || (a.write == b.write && b.name < a.name) {
		a, b = b, a
	}
	return a.name + "~" + b.name
}

func runEpisode(bin string, e episode, timeout time.Duration) (*childResult, string, error) {
	tmp, err := os.MkdirTemp("", "c12-run-")
	if err != nil {
		return nil, "", err
	}
	defer os.RemoveAll(tmp)
	outp := filepath.Join(tmp, "result.json")
	args := []string{"-seed", fmt.Sprint(e.seed), "-procs", fmt.Sprint(e.procs), "-goroutines", fmt.Sprint(e.gor), "-ops", fmt.Sprint(e.ops), "-out", outp}
	// fault: the first level-0 listing DB.init makes for every fresh DB object fails (remote unreachable at
	// start-up): the first initialisation fails AFTER the read transaction was taken, the retry succeeds
	args = append(args, "-discipline", "strict", "-listfail", "1")
	if e.profile == "core" {
		// the operations of the property without the triggers of the findings recorded in KNOWN_FINDINGS.json
		// (object lifecycle races of Store.Register/Unregister/Enable/Disable/SyncDB, DB.init after a cancelled
		// context): every oracle kind counts here
		ex := "unreg,reg,regstorm,disable,enable,storesync"
		if e.monitors {
			// with the store's monitors running, snapshots/compactions/retention are theirs (one goroutine per
			// level, as in the daemon); API-level concurrent DB.Snapshot calls share one temp file (known, api-only)
			ex += ",snap,compact,snapret,l0ret"
		}
		args = append(args, "-nocancel", "-exclude", ex)
	}
	if e.monitors {
		args = append(args, "-monitors")
	}
	if e.schedule != nil {
		sp := filepath.Join(tmp, "schedule.json")
		b, _ := json.Marshal(e.schedule)
		os.WriteFile(sp, b, 0o644)
		args = append(args, "-schedule", sp)
	}
	ctx, cancel := context.WithTimeout(context.Background(), timeout)
	defer cancel()
	cmd := exec.CommandContext(ctx, bin, args...)
	cmd.SysProcAttr = &syscall.SysProcAttr{Setpgid: true}
	cmd.Cancel = func() error { return syscall.Kill(-cmd.Process.Pid, syscall.SIGKILL) }
	cmd.Env = append(os.Environ(), "TMPDIR="+tmp)
	var stderr bytes.Buffer
	cmd.Stderr = &stderr
	cmd.Stdout = &stderr
	runErr := cmd.Run()
	b, rerr := os.ReadFile(outp)
	if rerr != nil {
		if ctx.Err() != nil {
			return nil, stderr.String(), fmt.Errorf("stress child did not finish within %s (whole-episode watchdog)", timeout)
		}
		return nil, stderr.String(), fmt.Errorf("stress child failed: %v: %s", runErr, tail(stderr.String(), 2000))
	}
	var cr childResult
	if err := json.Unmarshal(b, &cr); err != nil {
		return nil, stderr.String(), err
	}
	return &cr, stderr.String(), nil
}

func dynamicPhase(o *hx.Opts, res *hx.Result, replayEp *episode) int {
	if _, err := os.Stat("cmd/c12stress/main.go"); err != nil {
		res.Notes = append(res.Notes, "dynamic phase skipped: cmd/c12stress not present")
		return 0
	}
	bins := map[bool]string{}
	needPlain, needRace := true, true
	if replayEp != nil {
		needPlain, needRace = !replayEp.race, replayEp.race
	}
	for _, race := range []bool{false, true} {
		if (race && !needRace) || (!race && !needPlain) {
			continue
		}
		t0 := time.Now()
		b, err := buildChild(race)
		if err != nil {
			hx.Fatal(fmt.Errorf("build of the stress child (race=%v) against %s failed: %w", race, repoDir(), err))
		}
		bins[race] = b
		res.Notes = append(res.Notes, fmt.Sprintf("built c12stress race=%v in %.0fs", race, time.Since(t0).Seconds()))
	}
	var eps []episode
	if replayEp != nil {
		eps = []episode{*replayEp}
	} else {
		r := hx.NewRand(o.Seed*1000003 + 12)
		procs := []int{1, 2, 4, 8, 16}
		nPlain, nRace, gor, ops := 3, 2, 8, 30
		if o.Tier == "thorough" {
			nPlain, nRace, gor, ops = 10, 6, 10, 50
		}
		if n, _ := strconv.Atoi(os.Getenv("C12_RACE_SURVEY")); n > 0 { // development aid: collect race signatures
			nPlain, nRace = 0, n
		}
		for i := 0; i < nPlain; i++ {
			eps = append(eps, episode{seed: r.Uint64() % 1000000, procs: procs[(int(o.Seed)+i)%len(procs)], gor: gor, ops: ops, monitors: i%3 == 2,
				profile: []string{"core", "lifecycle"}[i%2]})
		}
		for i := 0; i < nRace; i++ {
			eps = append(eps, episode{seed: r.Uint64() % 1000000, procs: procs[(int(o.Seed)+i+1)%len(procs)], race: true, gor: gor, ops: ops * 2 / 3, monitors: i%2 == 1,
				profile: []string{"lifecycle", "core"}[i%2]})
		}
	}
	failures := 0
	reported := map[string]bool{}
	for _, e := range eps {
		to := 150 * time.Second
		if e.race {
			to = 300 * time.Second
		}
		cr, stderr, err := runEpisode(bins[e.race], e, to)
		key := fmt.Sprintf("dyn/episodes race=%v", e.race)
		res.Count(key)
		rp := replay{Kind: "stress", Engine: "c12", Seed: e.seed, Procs: e.procs, Race: e.race, Monitors: e.monitors, Profile: e.profile}
		res.Count("dyn/profile " + e.profile)
		if err != nil {
			failures++
			rp.Detail = tail(stderr, 6000)
			res.AddFinding("violation", "C12/episode-hung-or-crashed", fmt.Sprintf("stress episode seed=%d procs=%d race=%v: %v", e.seed, e.procs, e.race, err), rp)
			continue
		}
		rp.Ops = cr.Schedule
		for k, v := range cr.Distribution {
			res.Distribution["dyn/"+k] += v
		}
		canon, _ := json.Marshal(cr.Schedule)
		res.Case(fmt.Sprintf("episode|%v|%d|%s", e.race, e.procs, canon), cr.CallsFinished >= 20)
		res.Sample(map[string]any{"seed": e.seed, "procs": e.procs, "race": e.race, "monitors": e.monitors, "calls": cr.CallsFinished, "wall_s": cr.WallS})
		if cr.CallsStarted != cr.CallsFinished {
			cr.Violations = append(cr.Violations, map[string]string{"kind": "calls-unfinished", "what": fmt.Sprintf("%d calls started, %d finished", cr.CallsStarted, cr.CallsFinished)})
		}
		for _, v := range cr.Violations {
			failures++
			sig := "C12/stress/" + v["kind"]
			switch {
			case e.profile == "lifecycle" && (lifecycleKnownKinds[v["kind"]] || v["kind"] == "snapshot-content-mismatch"):
				// consequences of the object-lifecycle findings (KNOWN_FINDINGS.json); the same kinds are
				// unmasked in the core profile, and deadlock / panic / regstorm / close-hung are never masked
				sig = "C12/lifecycle/" + v["kind"]
			case v["kind"] == "snapshot-content-mismatch" && strings.Contains(v["detail"], "= TXID+1"):
				// the snapshot holds pages of the NEXT transaction (the oracle's diagnostic found them at TXID+1)
				sig = "C12/stress/snapshot-holds-pages-of-next-txid"
			}
			if reported[sig] {
				continue
			}
			reported[sig] = true
			rp2 := rp
			rp2.Detail = tail(v["detail"], 20000)
			res.AddFinding("violation", sig, fmt.Sprintf("stress oracle (seed=%d procs=%d race=%v): %s: %s", e.seed, e.procs, e.race, v["kind"], v["what"]), rp2)
		}
		if e.race {
			for _, rep := range raceRe.FindAllString(stderr, -1) {
				if !strings.Contains(rep, "benbjohnson/litestream") {
					continue
				}
				failures++
				sig := "C12/data-race/" + raceSignature(rep)
				if reported[sig] {
					continue
				}
				reported[sig] = true
				rp2 := rp
				rp2.Detail = tail(rep, 12000)
				res.AddFinding("violation", sig, fmt.Sprintf("race detector report in litestream code (seed=%d procs=%d): %s (writer first; [fields] read off the reported source lines)", e.seed, e.procs, raceSignature(rep)), rp2)
			}
		}
	}
	return failures
}

func main() {
	o := hx.ParseFlags("C12")
	res := hx.NewResult(o, "c12:lock-paths+stress")
	res.Rule = "static: an extracted lock path with at least 4 events (distinct by operation and event list); dynamic: a stress episode in which at least 20 calls completed (distinct by build, GOMAXPROCS and the executed schedule)"
	if o.NoModel {
		// the proof step failed (that is reported by ./check). The driver does not depend on the proofs: if it was
		// rebuilt from the regenerated lock paths, use it to search for the concrete failing path / schedule.
		di, e1 := os.Stat(o.Driver)
		gi, e2 := os.Stat(filepath.Join(filepath.Dir(o.Driver), "../../../Litestream/Gen/Locks.lean"))
		if e1 == nil && e2 == nil && !di.ModTime().Before(gi.ModTime()) {
			hx.NoModel, o.NoModel = false, false
			res.Notes = append(res.Notes, "proof step failed; driver is current, static search runs")
		}
	}
	d, err := hx.StartDriver(o.Driver)
	if err != nil {
		hx.Fatal(err)
	}
	defer d.Close()

	if o.Replay != "" {
		b, err := os.ReadFile(o.Replay)
		if err != nil {
			hx.Fatal(err)
		}
		var w struct {
			Replay replay `json:"replay"`
		}
		if err := json.Unmarshal(b, &w); err != nil {
			hx.Fatal(err)
		}
		rp := w.Replay
		switch rp.Kind {
		case "close-scenario":
			if closeBehindBusyExecutor(res, rp.HoldMS, rp.CloseMS) {
				for _, f := range res.Findings {
					fmt.Println(f.Kind, f.Signature, f.What)
				}
				os.Exit(1)
			}
			fmt.Println("close scenario: Close completed its cleanup")
		case "path":
			v := ask(d, fmt.Sprintf("judge P=%s G=%s X=1", rp.Path, rp.Group))
			still := false
			for _, g := range loadGen(d) {
				if g.Op == rp.Op && g.Path == rp.Path {
					still = true
				}
			}
			fmt.Printf("path of %s: verdict %s; still extracted from the repository: %v\n", rp.Op, v, still)
			if v != "ok" && still {
				os.Exit(1)
			}
		case "schedule":
			a := ask(d, fmt.Sprintf("explore T=%s G=%s X=1", strings.Join(rp.Threads, ";"), strings.Join(rp.Groups, ",")))
			fmt.Printf("model exploration of %v: %s\n", rp.Names, a)
			if strings.HasPrefix(a, "deadlock") {
				os.Exit(1)
			}
		case "stress":
			e := episode{seed: rp.Seed, procs: rp.Procs, race: rp.Race, monitors: rp.Monitors, gor: len(rp.Ops), ops: 30, schedule: rp.Ops, profile: rp.Profile}
			if len(rp.Ops) == 0 {
				e.gor, e.schedule = 8, nil
			}
			if dynamicPhase(o, res, &e) > 0 {
				for _, f := range res.Findings {
					fmt.Println(f.Kind, f.Signature, f.What)
				}
				os.Exit(1)
			}
			fmt.Println("stress replay: no violation this time (schedules are not fully deterministic; re-run a few times)")
		default:
			hx.Fatal(fmt.Errorf("unknown replay kind %q", rp.Kind))
		}
		return
	}

	// corpus: replay payloads of past failures first
	if o.Corpus != "" {
		files, _ := filepath.Glob(filepath.Join(o.Corpus, "*.json"))
		sort.Strings(files)
		for _, f := range files {
			b, err := os.ReadFile(f)
			if err != nil {
				continue
			}
			var w struct {
				Replay replay `json:"replay"`
			}
			if json.Unmarshal(b, &w) != nil || w.Replay.Kind != "schedule" {
				continue
			}
			res.Count("corpus")
			a := ask(d, fmt.Sprintf("explore T=%s G=%s X=1", strings.Join(w.Replay.Threads, ";"), strings.Join(w.Replay.Groups, ",")))
			res.Case("corpus|"+f, true)
			_ = a
		}
	}

	if os.Getenv("C12_RACE_SURVEY") == "" {
		staticPhase(o, res, d)
		closeScenarios(res)
	}
	if os.Getenv("C12_SKIP_DYNAMIC") != "" { // development aid for mutation trials; never set by registered commands
		res.Notes = append(res.Notes, "dynamic phase skipped by C12_SKIP_DYNAMIC")
	} else {
		dynamicPhase(o, res, nil)
	}
	if err := res.Write(o.Out); err != nil {
		hx.Fatal(err)
	}
}
