package main

// Deterministic lifecycle scenario of engine c12: DB.Close queued behind a busy sync executor with a
// context that expires while it waits. C12 requires Close to complete its cleanup under any
// cancellation (theorem close_releases over the extracted paths); this runs the real code through
// exactly that interleaving and looks at what is left behind.
//
//   application: BEGIN IMMEDIATE (holds SQLite's write lock)
//   goroutine:   db.Checkpoint(PASSIVE)  — takes the executor, blocks on its write barrier
//   main:        db.Close(ctx, 300 ms)   — queues for the executor; ctx expires while queued
//   application: COMMIT after ~700 ms; the checkpoint ends; the executor is free
//
// Afterwards the DB object must be closed and hold nothing on the source: IsOpen() == false and the
// application's own TRUNCATE checkpoint is not blocked by a leftover read transaction.

import (
	"context"
	"database/sql"
	"fmt"
	"io"
	"log/slog"
	"os"
	"path/filepath"
	"time"

	"github.com/benbjohnson/litestream"
	"github.com/benbjohnson/litestream/file"
	_ "modernc.org/sqlite"

	"verif/harness/hx"
)

func closeBehindBusyExecutor(res *hx.Result, holdMS, closeMS int) (failed bool) {
	ctx := context.Background()
	dir, err := os.MkdirTemp("", "c12-close-")
	if err != nil {
		hx.Fatal(err)
	}
	defer os.RemoveAll(dir)
	path := filepath.Join(dir, "db")
	app, err := sql.Open("sqlite", "file:"+path+"?_pragma=busy_timeout(5000)&_pragma=journal_mode(wal)&_pragma=wal_autocheckpoint(0)")
	if err != nil {
		hx.Fatal(err)
	}
	defer app.Close()
	if _, err := app.Exec("CREATE TABLE t(id INTEGER PRIMARY KEY, v BLOB)"); err != nil {
		hx.Fatal(err)
	}
	for i := 0; i < 8; i++ {
		app.Exec("INSERT INTO t(v) VALUES(randomblob(3000))")
	}
	db := litestream.NewDB(path)
	db.MonitorInterval = 0
	db.SetLogger(slog.New(slog.NewTextHandler(io.Discard, nil)))
	db.Replica = litestream.NewReplicaWithClient(db, file.NewReplicaClient(filepath.Join(dir, "replica")))
	db.Replica.MonitorEnabled = false
	if err := db.Open(); err != nil {
		hx.Fatal(err)
	}
	if err := db.Sync(ctx); err != nil {
		hx.Fatal(err)
	}
	app.Exec("INSERT INTO t(v) VALUES(randomblob(3000))")
	conn, err := app.Conn(ctx)
	if err != nil {
		hx.Fatal(err)
	}
	if _, err := conn.ExecContext(ctx, "BEGIN IMMEDIATE"); err != nil {
		hx.Fatal(err)
	}
	conn.ExecContext(ctx, "INSERT INTO t(v) VALUES(randomblob(100))")
	ckDone := make(chan error, 1)
	go func() { ckDone <- db.Checkpoint(ctx, litestream.CheckpointModePassive) }()
	commitDone := make(chan struct{})
	go func() {
		time.Sleep(time.Duration(holdMS) * time.Millisecond)
		conn.ExecContext(ctx, "COMMIT")
		conn.Close()
		close(commitDone)
	}()
	time.Sleep(150 * time.Millisecond)
	cctx, cancel := context.WithTimeout(ctx, time.Duration(closeMS)*time.Millisecond)
	t0 := time.Now()
	closeErr := db.Close(cctx)
	took := time.Since(t0)
	cancel()
	<-commitDone
	select {
	case <-ckDone:
	case <-time.After(10 * time.Second):
		res.AddFinding("violation", "C12/lifecycle/checkpoint-hung-after-close", "db.Checkpoint did not return within 10 s after the application committed", map[string]any{"kind": "close-scenario", "hold_ms": holdMS, "close_ms": closeMS})
		return true
	}
	res.Count("close-scenario")
	res.Case(fmt.Sprintf("close-behind-busy-executor|%d|%d", holdMS, closeMS), true)
	var busy, logN, ckptN int
	qerr := app.QueryRow("PRAGMA wal_checkpoint(TRUNCATE)").Scan(&busy, &logN, &ckptN)
	open := db.IsOpen()
	if open || qerr != nil || busy != 0 {
		what := fmt.Sprintf("DB.Close(ctx with %d ms) queued behind a PASSIVE checkpoint blocked on the application's write lock (held %d ms) returned %v after %v; afterwards IsOpen()=%v and the application's wal_checkpoint(TRUNCATE) reports busy=%d (%v): Close left the database half-closed", closeMS, holdMS, closeErr, took.Round(time.Millisecond), open, busy, qerr)
		res.AddFinding("violation", "C12/lifecycle/close-abandoned-behind-busy-executor", what, map[string]any{"kind": "close-scenario", "hold_ms": holdMS, "close_ms": closeMS})
		if open { // do not leak it into the rest of the run
			db.Close(context.Background())
		}
		return true
	}
	return false
}

func closeScenarios(res *hx.Result) {
	for _, p := range [][2]int{{700, 300}, {400, 100}, {900, 1}} {
		if closeBehindBusyExecutor(res, p[0], p[1]) {
			return
		}
	}
}
