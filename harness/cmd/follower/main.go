// Follower child process of the C16 engine (see package folchild). The c16 engine
// normally re-executes itself in this mode; this binary is the same thing stand-alone
// (used for strace runs: `strace -f --inject=… ./follower -replica … -out … -log …`).
package main

import "verif/harness/folchild"

func main() { folchild.Main() }
