// Engine c20: the real s3.Leaser against an in-memory S3 with conditional-write
// semantics, under a deterministic scheduler that interleaves clients at the
// granularity of single S3 requests. Every schedule is replayed by the Lean
// lease model (disagreement) and judged by the C20 oracle (violation).
package main

import (
	"bytes"
	"context"
	"crypto/md5"
	"encoding/hex"
	"encoding/json"
	"errors"
	"fmt"
	"io"
	"log/slog"
	"os"
	"path/filepath"
	"runtime"
	"sort"
	"strings"
	"sync"
	"time"

	"github.com/aws/aws-sdk-go-v2/service/s3"
	"github.com/aws/smithy-go"
	"github.com/benbjohnson/litestream"
	lss3 "github.com/benbjohnson/litestream/s3"

	"verif/harness/hx"
)

// ---- case description -------------------------------------------------------

// Case: programs are ops joined by '.', ops: a+ a- (acquire, live / born-expired TTL), r+ r- (renew), x (release).
type Case struct {
	Progs   []string `json:"progs"`
	Init    string   `json:"init"`    // "-" or "<gen>:<owner>:+|-" (pre-seeded record)
	Missing string   `json:"missing"` // how a failed If-Match on a missing object is answered: "404" | "412"
	// Owners: the Owner strings of the instances: "d" (or "") distinct, "s" all the same, "e" all empty.
	// Who holds the lease is a matter of the instance, never of the Owner string.
	Owners string `json:"owners,omitempty"`
}

func (c Case) owners() string {
	if c.Owners == "" {
		return "d"
	}
	return c.Owners
}

type Replay struct {
	Case     Case  `json:"case"`
	Schedule []int `json:"schedule"`
}

func (c Case) line(sched []int) string {
	s := make([]string, len(sched))
	for i, x := range sched {
		s[i] = fmt.Sprint(x)
	}
	return fmt.Sprintf("lease N=%d L=%s INIT=%s M=%s P=%s S=%s", len(c.Progs), c.owners(), c.Init, c.Missing, strings.Join(c.Progs, ";"), strings.Join(s, ","))
}

func (c Case) size() int {
	n := 0
	for _, p := range c.Progs {
		if p != "" {
			n += strings.Count(p, ".") + 1
		}
	}
	return n*100 + len(c.Progs)
}

const ttl = time.Hour
const seedOwner = 9

const sameOwner, emptyOwner = 7, 8

// ownerString: the Owner label with model number o.
func ownerString(o int) string {
	switch o {
	case seedOwner:
		return "seed"
	case sameOwner:
		return "same"
	case emptyOwner:
		return ""
	}
	return fmt.Sprintf("c%d", o)
}

// ownerOf: the Owner string instance i is configured with under the given mode.
func ownerOf(mode string, i int) string {
	switch mode {
	case "s":
		return ownerString(sameOwner)
	case "e":
		return ownerString(emptyOwner)
	}
	return ownerString(i)
}

func inst(i int) string {
	if i < 0 {
		return "an earlier incarnation"
	}
	return fmt.Sprintf("instance %d", i)
}

func ownerID(s string) string {
	switch s {
	case "":
		return "-"
	case "seed":
		return fmt.Sprint(seedOwner)
	case "same":
		return fmt.Sprint(sameOwner)
	}
	return strings.TrimPrefix(s, "c")
}

// ---- in-memory S3 -----------------------------------------------------------

type apiErr struct{ code string }

func (e *apiErr) Error() string                 { return "api error " + e.code }
func (e *apiErr) ErrorCode() string             { return e.code }
func (e *apiErr) ErrorMessage() string          { return e.code }
func (e *apiErr) ErrorFault() smithy.ErrorFault { return smithy.FaultClient }

type opCtx struct {
	kind      string // acquire | renew | release
	leaseETag string
}

type world struct {
	// object
	exists bool
	body   []byte
	etag   string
	// bookkeeping
	missing412 bool
	writes     []string // etag of the k-th successful put (0 = pre-seeded)
	log        []string
	// oracle state
	haveLast     bool
	lastWriter   int // instance that wrote the stored / last stored record, -1 = pre-seeded
	lastGen      int64
	deletedSince bool
	viol         map[string]string // signature -> what
	// scheduler
	grant  []chan struct{}
	notify chan int
	cur    []opCtx
}

type ctxKey struct{}

func (w *world) gate(ctx context.Context) int {
	c := ctx.Value(ctxKey{}).(int)
	w.notify <- c
	<-w.grant[c]
	return c
}

func (w *world) wname(etag string) string {
	for i, e := range w.writes {
		if e == etag && e != "" {
			return fmt.Sprintf("w%d", i)
		}
	}
	return "w?"
}

func (w *world) violate(sig, what string) {
	if _, ok := w.viol[sig]; !ok {
		w.viol[sig] = what
	}
}

func etagOf(b []byte) string { h := md5.Sum(b); return `"` + hex.EncodeToString(h[:]) + `"` }

func (w *world) GetObject(ctx context.Context, in *s3.GetObjectInput, _ ...func(*s3.Options)) (*s3.GetObjectOutput, error) {
	c := w.gate(ctx)
	if !w.exists {
		w.log = append(w.log, fmt.Sprintf("%d/get=-", c))
		return nil, &apiErr{"NoSuchKey"}
	}
	w.log = append(w.log, fmt.Sprintf("%d/get=%s", c, w.wname(w.etag)))
	et := w.etag
	return &s3.GetObjectOutput{Body: io.NopCloser(bytes.NewReader(append([]byte(nil), w.body...))), ETag: &et}, nil
}

func (w *world) missingErr() (string, error) {
	if w.missing412 {
		return "412", &apiErr{"PreconditionFailed"}
	}
	return "404", &apiErr{"NoSuchKey"}
}

func (w *world) PutObject(ctx context.Context, in *s3.PutObjectInput, _ ...func(*s3.Options)) (*s3.PutObjectOutput, error) {
	c := w.gate(ctx)
	data, _ := io.ReadAll(in.Body)
	var rec litestream.Lease
	_ = json.Unmarshal(data, &rec)
	cond := "none"
	switch {
	case in.IfNoneMatch != nil && in.IfMatch != nil:
		cond = "both"
	case in.IfNoneMatch != nil:
		cond = "inm"
		if *in.IfNoneMatch != "*" {
			cond = "inm=" + *in.IfNoneMatch
		}
	case in.IfMatch != nil:
		cond = "im=" + w.wname(*in.IfMatch)
	}
	resp, err := "ok", error(nil)
	switch {
	case in.IfNoneMatch != nil && w.exists:
		resp, err = "412", &apiErr{"PreconditionFailed"}
	case in.IfMatch != nil && !w.exists:
		resp, err = w.missingErr()
	case in.IfMatch != nil && *in.IfMatch != w.etag:
		resp, err = "412", &apiErr{"PreconditionFailed"}
	}
	w.log = append(w.log, fmt.Sprintf("%d/put:%s:g%d:%s", c, cond, rec.Generation, resp))
	if err != nil {
		return nil, err
	}
	// ---- oracle, on S3-level facts only ----
	if w.exists {
		var old litestream.Lease
		_ = json.Unmarshal(w.body, &old)
		// all judged by INSTANCE (which client wrote the stored record), never by the Owner string
		if w.lastWriter != c && !old.IsExpired() {
			w.violate("C20/overwrote-live-lease", fmt.Sprintf("%s replaced the unexpired lease (generation %d, owner %q) written by %s, by a %s", inst(c), old.Generation, old.Owner, inst(w.lastWriter), w.cur[c].kind))
		}
		if w.cur[c].kind == "renew" && (w.cur[c].leaseETag != w.etag || w.lastWriter != c) {
			w.violate("C20/superseded-renew-succeeded", fmt.Sprintf("renew by %s succeeded over the record written by %s", inst(c), inst(w.lastWriter)))
		}
	} else if w.cur[c].kind == "renew" {
		w.violate("C20/superseded-renew-succeeded", fmt.Sprintf("renew by %s succeeded although the lease object is gone", inst(c)))
	}
	if w.haveLast && w.lastWriter != c && rec.Generation <= w.lastGen {
		if w.deletedSince && rec.Generation == 1 {
			w.violate("C20/generation-reset-after-release", fmt.Sprintf("%s acquired generation %d after %s held generation %d and released", inst(c), rec.Generation, inst(w.lastWriter), w.lastGen))
		} else {
			w.violate("C20/generation-not-increasing", fmt.Sprintf("%s wrote generation %d after %s wrote generation %d", inst(c), rec.Generation, inst(w.lastWriter), w.lastGen))
		}
	}
	w.haveLast, w.lastWriter, w.lastGen, w.deletedSince = true, c, rec.Generation, false
	w.exists, w.body, w.etag = true, data, etagOf(data)
	w.writes = append(w.writes, w.etag)
	et := w.etag
	return &s3.PutObjectOutput{ETag: &et}, nil
}

func (w *world) DeleteObject(ctx context.Context, in *s3.DeleteObjectInput, _ ...func(*s3.Options)) (*s3.DeleteObjectOutput, error) {
	c := w.gate(ctx)
	cond := "none"
	if in.IfMatch != nil {
		cond = "im=" + w.wname(*in.IfMatch)
	}
	resp, err := "ok", error(nil)
	switch {
	case in.IfMatch != nil && !w.exists:
		resp, err = w.missingErr()
	case in.IfMatch != nil && *in.IfMatch != w.etag:
		resp, err = "412", &apiErr{"PreconditionFailed"}
	}
	w.log = append(w.log, fmt.Sprintf("%d/del:%s:%s", c, cond, resp))
	if err != nil {
		return nil, err
	}
	if w.exists && (w.cur[c].leaseETag != w.etag || w.lastWriter != c) {
		w.violate("C20/superseded-release-succeeded", fmt.Sprintf("release by %s deleted the record written by %s", inst(c), inst(w.lastWriter)))
	}
	if w.exists {
		w.deletedSince = true
	}
	w.exists, w.body, w.etag = false, nil, ""
	return &s3.DeleteObjectOutput{}, nil
}

// ---- clients ---------------------------------------------------------------

type client struct {
	id      int
	l       *lss3.Leaser
	cur     *litestream.Lease
	active  bool
	results []string
}

var quiet = slog.New(slog.NewTextHandler(io.Discard, &slog.HandlerOptions{Level: slog.LevelError + 10}))

func (cl *client) do(ctx context.Context, w *world, op string) {
	if strings.HasSuffix(op, "-") {
		cl.l.TTL = -ttl
	} else {
		cl.l.TTL = ttl
	}
	et := ""
	if cl.cur != nil {
		et = cl.cur.ETag
	}
	switch op[0] {
	case 'a':
		w.cur[cl.id] = opCtx{"acquire", et}
		lease, err := cl.l.AcquireLease(ctx)
		var le *litestream.LeaseExistsError
		switch {
		case err == nil && lease != nil:
			cl.cur, cl.active = lease, true
			cl.results = append(cl.results, fmt.Sprintf("ok:g%d", lease.Generation))
		case errors.As(err, &le):
			cl.results = append(cl.results, "exists:"+ownerID(le.Owner))
		default:
			cl.results = append(cl.results, "err")
		}
	case 'r':
		w.cur[cl.id] = opCtx{"renew", et}
		lease, err := cl.l.RenewLease(ctx, cl.cur)
		switch {
		case err == nil && lease != nil:
			cl.cur, cl.active = lease, true
			cl.results = append(cl.results, fmt.Sprintf("ok:g%d", lease.Generation))
		case errors.Is(err, litestream.ErrLeaseNotHeld):
			cl.results = append(cl.results, "notheld")
		case errors.Is(err, lss3.ErrLeaseRequired):
			cl.results = append(cl.results, "required")
		default:
			cl.results = append(cl.results, "err")
		}
	case 'x':
		w.cur[cl.id] = opCtx{"release", et}
		err := cl.l.ReleaseLease(ctx, cl.cur)
		switch {
		case err == nil:
			cl.active = false
			cl.results = append(cl.results, "released")
		case errors.Is(err, litestream.ErrLeaseNotHeld):
			cl.results = append(cl.results, "notheld")
		case errors.Is(err, lss3.ErrLeaseAlreadyReleased):
			cl.results = append(cl.results, "alreadyreleased")
		case errors.Is(err, lss3.ErrLeaseRequired):
			cl.results = append(cl.results, "required")
		default:
			cl.results = append(cl.results, "err")
		}
	}
}

func (cl *client) holds() bool { return cl.active && cl.cur != nil && !cl.cur.IsExpired() }

// ---- one run under a schedule ---------------------------------------------------

type outcome struct {
	sched   []int   // the schedule actually followed
	enabled [][]int // enabled clients at each step
	impl    string  // canonical line, same format as the driver's
	viol    map[string]string
	nreq    int
}

// runCase executes the case following prefix, then always the lowest enabled client.
func runCase(c Case, prefix []int) outcome {
	n := len(c.Progs)
	w := &world{missing412: c.Missing == "412", viol: map[string]string{}, notify: make(chan int), cur: make([]opCtx, n)}
	w.writes = []string{""}
	if c.Init != "-" {
		var g, o int
		var sg string
		parts := strings.Split(c.Init, ":")
		fmt.Sscan(parts[0], &g)
		fmt.Sscan(parts[1], &o)
		sg = parts[2]
		exp := time.Now().Add(ttl)
		if sg == "-" {
			exp = time.Now().Add(-ttl)
		}
		owner := ownerString(o)
		b, _ := json.Marshal(&litestream.Lease{Generation: int64(g), ExpiresAt: exp, Owner: owner})
		w.exists, w.body, w.etag = true, b, etagOf(b)
		w.writes[0] = w.etag
		w.haveLast, w.lastWriter, w.lastGen = true, -1, int64(g)
	}
	clients := make([]*client, n)
	const finished = -1
	for i := range clients {
		l := lss3.NewLeaser()
		l.SetLogger(quiet)
		l.SetClient(w)
		l.Bucket, l.Path, l.Owner = "b", "", ownerOf(c.owners(), i)
		clients[i] = &client{id: i, l: l}
		w.grant = append(w.grant, make(chan struct{}))
	}
	done := make(chan int)
	for i := range clients {
		go func(cl *client) {
			ctx := context.WithValue(context.Background(), ctxKey{}, cl.id)
			if c.Progs[cl.id] != "" {
				for _, op := range strings.Split(c.Progs[cl.id], ".") {
					cl.do(ctx, w, op)
				}
			}
			done <- cl.id
		}(clients[i])
	}
	state := make([]int, n) // 0 running, 1 at gate, finished
	wait := func() {
		select {
		case c := <-w.notify:
			state[c] = 1
		case c := <-done:
			state[c] = finished
		}
	}
	for i := 0; i < n; i++ {
		wait()
	}
	var out outcome
	checkMutex := func() {
		var hs []string
		for _, cl := range clients {
			if state[cl.id] != 0 && cl.holds() {
				hs = append(hs, inst(cl.id))
			}
		}
		if len(hs) > 1 {
			w.violate("C20/mutex-two-holders", strings.Join(hs, " and ")+" both hold an unexpired lease (owner strings: "+c.owners()+")")
		}
	}
	checkMutex()
	for step := 0; ; step++ {
		var en []int
		for i := range state {
			if state[i] == 1 {
				en = append(en, i)
			}
		}
		if len(en) == 0 {
			break
		}
		pick := en[0]
		if step < len(prefix) {
			pick = prefix[step]
			ok := false
			for _, e := range en {
				ok = ok || e == pick
			}
			if !ok { // schedule names a client that has nothing to request: stop here (replay of a stale schedule)
				out.sched = append(out.sched, pick)
				out.enabled = append(out.enabled, en)
				w.log = append(w.log, fmt.Sprintf("%d/none", pick))
				continue
			}
		}
		out.sched = append(out.sched, pick)
		out.enabled = append(out.enabled, en)
		state[pick] = 0
		w.grant[pick] <- struct{}{}
		wait()
		checkMutex()
		if step > 200 {
			break
		}
	}
	var res, hs []string
	for _, cl := range clients {
		res = append(res, strings.Join(cl.results, ","))
		if cl.holds() {
			hs = append(hs, fmt.Sprint(cl.id))
		}
	}
	h := "-"
	if len(hs) > 0 {
		h = strings.Join(hs, ",")
	}
	out.impl = "R=" + strings.Join(w.log, ",") + " O=" + strings.Join(res, ";") + " H=" + h
	out.viol = w.viol
	out.nreq = len(w.log)
	return out
}

// allSchedules runs every interleaving of the case (depth-first, each leaf once), at most max leaves.
func allSchedules(c Case, max int, fn func(outcome)) (n int, complete bool) {
	var rec func(prefix []int) bool
	rec = func(prefix []int) bool {
		if n >= max {
			return false
		}
		o := runCase(c, prefix)
		n++
		fn(o)
		for i := len(o.sched) - 1; i >= len(prefix); i-- {
			for _, alt := range o.enabled[i] {
				if alt == o.sched[i] {
					continue
				}
				p := append(append([]int(nil), o.sched[:i]...), alt)
				if !rec(p) {
					return false
				}
			}
		}
		return true
	}
	complete = rec(nil)
	return
}

// ---- case generators ----------------------------------------------------------

func progs(alpha []string, maxLen int) []string {
	out := []string{}
	var rec func(cur []string)
	rec = func(cur []string) {
		if len(cur) > 0 {
			out = append(out, strings.Join(cur, "."))
		}
		if len(cur) == maxLen {
			return
		}
		for _, a := range alpha {
			rec(append(append([]string(nil), cur...), a))
		}
	}
	rec(nil)
	return out
}

type found struct {
	c     Case
	sched []int
	what  string
	impl  string
	model string
}

func main() {
	o := hx.ParseFlags("C20")
	res := hx.NewResult(o, "c20: real s3.Leaser vs in-memory conditional S3, all request-level interleavings, vs Lean lease model + C20 oracle")
	res.Rule = "a case = programs of 2-3 clients (instances) over {acquire, renew, release} x {live, born-expired TTL} x Owner strings {distinct, all the same, all empty} x pre-seeded record {none, live, expired; foreign or same Owner string} x missing-object answer {404, 412}; every interleaving of the clients' S3 requests is run (depth-first, each schedule once); non-trivial = at least two clients issue a request; distinct = canonical schedule line"
	if o.Replay != "" {
		replay(o)
		return
	}
	rnd := hx.NewRand(o.Seed)
	full5 := []string{"a+", "a-", "r+", "r-", "x"}
	inits := []string{"-", "3:9:+", "3:9:-"}
	var cases []Case
	add := func(ps []string, init, missing string) {
		cases = append(cases, Case{Progs: ps, Init: init, Missing: missing})
	}

	// corpus first
	var corpus []Replay
	if o.Corpus != "" {
		ents, _ := filepath.Glob(filepath.Join(o.Corpus, "*.json"))
		sort.Strings(ents)
		for _, p := range ents {
			b, err := os.ReadFile(p)
			if err != nil {
				continue
			}
			var wr struct {
				Replay Replay `json:"replay"`
			}
			if json.Unmarshal(b, &wr) == nil && len(wr.Replay.Case.Progs) > 0 {
				corpus = append(corpus, wr.Replay)
			}
		}
	}

	// A: 2 clients, every program of length <= 2 over the 5-letter alphabet, all inits, both missing answers
	p2 := progs(full5, 2)
	for i, a := range p2 {
		for _, b := range p2[i:] {
			for _, in := range inits {
				add([]string{a, b}, in, "404")
			}
			add([]string{a, b}, "-", "412")
			// the same programs run by instances sharing one Owner string / leaving it empty; the
			// pre-seeded record is an expired one of an earlier incarnation with that same Owner string
			for _, m := range []struct {
				mode string
				own  int
			}{{"s", sameOwner}, {"e", emptyOwner}} {
				cases = append(cases, Case{Progs: []string{a, b}, Init: "-", Missing: "404", Owners: m.mode})
				cases = append(cases, Case{Progs: []string{a, b}, Init: fmt.Sprintf("3:%d:-", m.own), Missing: "404", Owners: m.mode})
			}
		}
	}
	// B: 2 clients, length-3 programs, one TTL sign per client
	signed := func(sign string, maxLen int) []string {
		var out []string
		for _, p := range progs([]string{"a", "r", "x"}, maxLen) {
			q := strings.Split(p, ".")
			if len(q) != maxLen {
				continue
			}
			for i := range q {
				if q[i] != "x" {
					q[i] += sign
				}
			}
			out = append(out, strings.Join(q, "."))
		}
		return out
	}
	p3 := append(signed("+", 3), signed("-", 3)...)
	var b3 []Case
	for i, a := range p3 {
		for _, b := range p3[i:] {
			for _, in := range inits {
				b3 = append(b3, Case{Progs: []string{a, b}, Init: in, Missing: []string{"404", "412"}[(i+len(b3))%2], Owners: []string{"d", "s", "e"}[(i+len(b3)/3)%3]})
			}
		}
	}
	// C: 3 clients, programs of length <= 2, one sign per client
	pc := append(append(signed("+", 1), signed("-", 1)...), append(signed("+", 2), signed("-", 2)...)...)
	var c3 []Case
	for i, a := range pc {
		for j, b := range pc[i:] {
			for _, cc := range pc[i+j:] {
				c3 = append(c3, Case{Progs: []string{a, b, cc}, Init: inits[(i+j+len(c3))%3], Missing: "404", Owners: []string{"d", "s", "e"}[(j+len(c3)/3)%3]})
			}
		}
	}
	pickSome := func(cs []Case, k int) []Case {
		if k >= len(cs) {
			return cs
		}
		out := make([]Case, 0, k)
		for i := 0; i < k; i++ {
			out = append(out, cs[rnd.Intn(len(cs))])
		}
		return out
	}
	maxSched := 3000
	if o.Tier == "thorough" {
		maxSched = 60000
		cases = append(cases, b3...)
		cases = append(cases, pickSome(c3, 6000)...)
	} else {
		cases = append(cases, pickSome(b3, 1500)...)
		cases = append(cases, pickSome(c3, 300)...)
	}

	// ---- run ----
	var mu sync.Mutex
	best := map[string]found{} // signature -> smallest failing input
	note := func(kind, sig string, f found) {
		key := kind + "|" + sig
		old, ok := best[key]
		if !ok || f.c.size() < old.c.size() || (f.c.size() == old.c.size() && len(f.sched) < len(old.sched)) {
			best[key] = f
		}
	}
	incomplete := 0
	work := make(chan Case, 256)
	var wg sync.WaitGroup
	for wk := 0; wk < runtime.NumCPU(); wk++ {
		wg.Add(1)
		go func() {
			defer wg.Done()
			drv, err := hx.StartDriver(o.Driver)
			if err != nil {
				hx.Fatal(err)
			}
			defer drv.Close()
			for c := range work {
				var outs []outcome
				var lines []string
				_, complete := allSchedules(c, maxSched, func(oc outcome) {
					outs = append(outs, oc)
					lines = append(lines, c.line(oc.sched))
				})
				model, err := drv.AskBatch(lines)
				if err != nil {
					hx.Fatal(err)
				}
				mu.Lock()
				if !complete {
					incomplete++
				}
				res.Count(fmt.Sprintf("clients:%d", len(c.Progs)))
				res.Count("init:" + map[bool]string{true: "none", false: "seeded"}[c.Init == "-"])
				res.Count("missing-as:" + c.Missing)
				res.Count("owners:" + c.owners())
				for i, oc := range outs {
					active := map[byte]bool{}
					for _, e := range strings.Split(strings.TrimPrefix(strings.Fields(oc.impl)[0], "R="), ",") {
						if e != "" {
							active[e[0]] = true
						}
					}
					res.Case(lines[i], len(active) >= 2)
					for _, r := range strings.FieldsFunc(strings.TrimPrefix(strings.Fields(oc.impl)[1], "O="), func(r rune) bool { return r == ',' || r == ';' }) {
						res.Count("result:" + strings.SplitN(r, ":", 2)[0])
					}
					for _, k := range []string{":412", ":404", "get=-", "put:im=", "put:inm", "del:im="} {
						if strings.Contains(oc.impl, k) {
							res.Count("schedules-with " + k)
						}
					}
					if hx.Differs(oc.impl, model[i]) {
						res.DisagreementsChecked++
						note("disagreement", "C20/model-vs-impl", found{c: c, sched: oc.sched, impl: oc.impl, model: model[i], what: fmt.Sprintf("impl=%q model=%q", oc.impl, model[i])})
					}
					for sig, what := range oc.viol {
						note("violation", sig, found{c: c, sched: oc.sched, impl: oc.impl, model: model[i], what: what})
					}
					if res.Evaluations%50000 == 1 {
						res.Sample(map[string]any{"line": lines[i], "impl": oc.impl, "model": model[i]})
					}
				}
				mu.Unlock()
			}
		}()
	}
	for _, r := range corpus {
		oc := runCase(r.Case, r.Schedule)
		res.Count("corpus")
		mu.Lock()
		for sig, what := range oc.viol {
			note("violation", sig, found{c: r.Case, sched: oc.sched, impl: oc.impl, what: what})
		}
		mu.Unlock()
		work <- r.Case
	}
	for _, c := range cases {
		work <- c
	}
	close(work)
	wg.Wait()

	keys := make([]string, 0, len(best))
	for k := range best {
		keys = append(keys, k)
	}
	sort.Strings(keys)
	for _, k := range keys {
		f := best[k]
		kind, sig, _ := strings.Cut(k, "|")
		res.AddFinding(kind, sig, f.what+" — "+f.c.line(f.sched), map[string]any{"case": f.c, "schedule": f.sched, "line": f.c.line(f.sched), "impl": f.impl, "model": f.model})
	}
	res.Exhaustive = incomplete == 0
	res.Notes = append(res.Notes, fmt.Sprintf("%d cases; all interleavings enumerated for all but %d cases (cap %d schedules per case)", len(cases)+len(corpus), incomplete, maxSched))
	if err := res.Write(o.Out); err != nil {
		hx.Fatal(err)
	}
}

func replay(o *hx.Opts) {
	b, err := os.ReadFile(o.Replay)
	if err != nil {
		hx.Fatal(err)
	}
	var wr struct {
		Replay Replay `json:"replay"`
	}
	if err := json.Unmarshal(b, &wr); err != nil || len(wr.Replay.Case.Progs) == 0 {
		hx.Fatal(fmt.Errorf("not a c20 replay file: %v", err))
	}
	drv, err := hx.StartDriver(o.Driver)
	if err != nil {
		hx.Fatal(err)
	}
	defer drv.Close()
	oc := runCase(wr.Replay.Case, wr.Replay.Schedule)
	line := wr.Replay.Case.line(oc.sched)
	m, _ := drv.Ask(line)
	fmt.Printf("line:   %s\nimpl:   %s\nmodel:  %s\n", line, oc.impl, m)
	for sig, what := range oc.viol {
		fmt.Printf("oracle: %s — %s\n", sig, what)
	}
	if len(oc.viol) > 0 || hx.Differs(oc.impl, m) {
		os.Exit(1)
	}
}
