// Engine c11: real litestream scenarios under strace, judged by the Lean acceptor flushOK (driver)
// and by an independent Go statement of the C11 ordering rules (ORACLE); plus the statically
// extracted publish protocols (Gen/Publish.lean) checked against the rule and against what was observed.
package main

import (
	"encoding/json"
	"fmt"
	"os"
	"os/exec"
	"path/filepath"
	"reflect"
	"regexp"
	"sort"
	"strings"
	"time"

	"verif/harness/fstrace"
	"verif/harness/hx"
	"verif/harness/scn"
)

type Scenario struct {
	Name   string `json:"scenario"`
	Seed   uint64 `json:"seed"`
	Rounds int    `json:"rounds"`
}

const straceSet = "trace=openat,write,pwrite64,fsync,fdatasync,rename,renameat,renameat2,unlink,unlinkat,close,ftruncate,copy_file_range,sendfile"

// runScenario runs the child under strace and parses the trace.
func runScenario(sc Scenario, keep bool) (*fstrace.Trace, string, error) {
	root, err := os.MkdirTemp("", "verif-c11-")
	if err != nil {
		return nil, "", err
	}
	root, _ = filepath.EvalSymlinks(root)
	if !keep {
		defer os.RemoveAll(root)
	}
	trf := filepath.Join(root, "strace.out")
	self, _ := os.Executable()
	cmd := exec.Command("strace", "-f", "-y", "-s", "0", "-o", trf, "-e", straceSet,
		self, "child", "-name", sc.Name, "-root", filepath.Join(root, "w"), "-phase", "run",
		"-seed", fmt.Sprint(sc.Seed), "-rounds", fmt.Sprint(sc.Rounds))
	var out strings.Builder
	cmd.Stdout, cmd.Stderr = &out, &out
	done := make(chan error, 1)
	if err := cmd.Start(); err != nil {
		return nil, "", err
	}
	go func() { done <- cmd.Wait() }()
	select {
	case err = <-done:
	case <-time.After(180 * time.Second):
		cmd.Process.Kill()
		err = fmt.Errorf("scenario timed out")
	}
	if err != nil {
		return nil, out.String(), fmt.Errorf("scenario %v failed: %v: %s", sc, err, tail(out.String(), 600))
	}
	tr, perr := fstrace.Parse(trf, filepath.Join(root, "w"))
	return tr, out.String(), perr
}

func tail(s string, n int) string {
	if len(s) > n {
		return s[len(s)-n:]
	}
	return s
}

// signature of a dynamic violation: a predicate on the failing call, not on the scenario.
func signature(v fstrace.Verdict, evs []fstrace.Event) string {
	kind := map[int]string{0: "local", 1: "replica", 2: "output"}[v.Path.Tree]
	if v.Path.IsLTX() {
		kind += "-ltx"
	} else if strings.HasSuffix(v.Path.Str, "-txid") {
		kind += "-txid"
	} else if v.Path.Final {
		kind += "-db"
	}
	if v.Rule == "ack-before-dirsync" && v.Path.Tree == 0 && v.Path.IsLTX() {
		// the unflushed publication is a local copy of a file the replica already holds durably:
		// only DB.checkDatabaseBehindReplica fetches replica files into the local tree
		for _, pub := range fstrace.Observed(evs[:v.Index]) {
			if pub.Target.Key() == v.Path.Key() && pub.Fetched {
				return "C11/checkDatabaseBehindReplica-no-dir-fsync"
			}
		}
	}
	return "C11/" + v.Rule + "/" + kind
}

// repair makes the offending call acceptable so that judging can continue behind a (known) violation.
func repair(evs []fstrace.Event, v fstrace.Verdict) []fstrace.Event {
	out := append([]fstrace.Event(nil), evs[:v.Index]...)
	switch v.Rule {
	case "ack-before-dirsync":
		out = append(out, fstrace.Event{Kind: 'D', N: v.Path.Dir})
		out = append(out, evs[v.Index:]...)
	case "unsynced": // pretend the source had been flushed
		out = append(out, fstrace.Event{Kind: 'S', P: evs[v.Index].P})
		out = append(out, evs[v.Index:]...)
	default: // drop the offending call
		out = append(out, evs[v.Index+1:]...)
	}
	return out
}

var reJSON = regexp.MustCompile(`(?m)^-- JSON: (.*)$`)

func loadProtocols(driver string) ([]fstrace.Protocol, error) {
	// <lean>/.lake/build/bin/driver_c11 -> <lean>/Litestream/Gen/Publish.lean
	lean := filepath.Dir(filepath.Dir(filepath.Dir(filepath.Dir(driver))))
	b, err := os.ReadFile(filepath.Join(lean, "Litestream/Gen/Publish.lean"))
	if err != nil {
		return nil, err
	}
	m := reJSON.FindSubmatch(b)
	if m == nil {
		return nil, fmt.Errorf("Gen/Publish.lean has no JSON line (translator failed?)")
	}
	var w struct {
		Protocols []fstrace.Protocol `json:"protocols"`
	}
	if err := json.Unmarshal(m[1], &w); err != nil {
		return nil, err
	}
	return w.Protocols, nil
}

func protoFor(pub fstrace.Publication) string {
	switch {
	case pub.Target.IsLTX() && pub.Target.Tree == 0 && pub.Fetched:
		return "DB.checkDatabaseBehindReplica"
	case pub.Target.IsLTX() && pub.Target.Tree == 0:
		return "DB.sync"
	case pub.Target.IsLTX() && pub.Target.Tree == 1:
		return "file.ReplicaClient.WriteLTXFile"
	case strings.HasSuffix(pub.Target.Str, "-txid"):
		return "WriteTXIDFile"
	case strings.HasSuffix(pub.Target.Str, "restored3.db") || strings.Contains(pub.Target.Str, "/out/v3-"):
		return "Replica.RestoreV3"
	case pub.Target.Tree == 2:
		return "Replica.Restore"
	}
	return ""
}

type engine struct {
	o      *hx.Opts
	res    *hx.Result
	drv    *hx.Driver
	protos map[string]fstrace.Protocol
}

// judgeTrace: Lean acceptor vs Go oracle on one event list; violations become findings; returns #violations.
func (g *engine) judgeTrace(sc Scenario, label string, evs []fstrace.Event) int {
	nviol := 0
	for round := 0; round < 6; round++ {
		line := "trace E=" + fstrace.Line(evs)
		model, err := g.drv.Ask(line)
		if err != nil {
			hx.Fatal(err)
		}
		v := fstrace.Judge(evs)
		g.res.Case(fmt.Sprintf("%s/%s/%d:%s", sc.Name, label, round, line), len(evs) > 0)
		g.res.Count("verdict:" + strings.Join(strings.Fields(v.String())[:min(2, len(strings.Fields(v.String())))], "-"))
		if hx.Differs(v.String(), model) {
			g.res.DisagreementsChecked++
			g.res.AddFinding("disagreement", "C11/lean-vs-go-judge", fmt.Sprintf("Lean flushOK says %q, Go oracle says %q on scenario %s/%s", model, v.String(), sc.Name, label),
				map[string]any{"scenario": sc, "part": label, "line": line})
		}
		if v.OK {
			g.crashReplay(sc, label, evs)
			break
		}
		nviol++
		ctx := []string{}
		for i := max(0, v.Index-8); i <= v.Index && i < len(evs); i++ {
			ctx = append(ctx, fmt.Sprintf("%d: %s", i, evs[i].Human()))
		}
		g.res.AddFinding("violation", signature(v, evs),
			fmt.Sprintf("scenario %s/%s: rule %s broken by call %d (%s) on %s", sc.Name, label, v.Rule, v.Index, evs[v.Index].Human(), v.Path.Str),
			map[string]any{"scenario": sc, "part": label, "rule": v.Rule, "index": v.Index, "path": v.Path.Str, "calls_before": ctx, "lean": model, "line": line})
		evs = repair(evs, v)
	}
	return nviol
}

// crashReplay asks the model what a power failure may leave at the calls around every rename/unlink of an
// accepted trace: nothing partial may be visible (publish_durable evaluated on the real trace), and at every
// success marker nothing visible may vanish (ack_durable).
func (g *engine) crashReplay(sc Scenario, label string, evs []fstrace.Event) {
	e := fstrace.Line(evs)
	ks := map[int]bool{}
	for i, ev := range evs {
		if ev.Kind == 'R' || ev.Kind == 'U' {
			ks[i], ks[i+1] = true, true
			if i > 0 {
				ks[i-1] = true
			}
		}
		if ev.Kind == 'K' {
			ks[i] = true
		}
	}
	var order []int
	for k := range ks {
		order = append(order, k)
	}
	sort.Ints(order)
	if g.o.Tier != "thorough" && len(order) > 60 {
		r := hx.NewRand(g.o.Seed ^ uint64(len(evs)))
		for len(order) > 60 {
			i := r.Intn(len(order))
			order = append(order[:i], order[i+1:]...)
		}
	}
	var lines []string
	for _, k := range order {
		lines = append(lines, fmt.Sprintf("crash E=%s K=%d", e, k))
	}
	outs, err := g.drv.AskBatch(lines)
	if err != nil {
		hx.Fatal(err)
	}
	for i, o := range outs {
		if o == "-" {
			continue
		}
		k := order[i]
		g.res.Count("crash-points")
		f := strings.Fields(o)
		bad := len(f) != 3 || f[0] != "crash" || f[1] != "partial="
		if !bad && k < len(evs) && evs[k].Kind == 'K' && f[2] != "volatile=" {
			bad = true
		}
		if bad {
			g.res.AddFinding("disagreement", "C11/crash-replay-vs-flushOK", fmt.Sprintf("trace accepted by flushOK but crash point %d gives %q (scenario %s/%s)", k, o, sc.Name, label),
				map[string]any{"scenario": sc, "part": label, "k": k, "line": lines[i]})
			return
		}
	}
}

func (g *engine) runOne(sc Scenario) bool {
	tr, out, err := runScenario(sc, false)
	if err != nil {
		hx.Fatal(err)
	}
	g.res.Count("scenario:" + sc.Name)
	for _, m := range tr.Marks {
		if m.Kind == "ok" || m.Kind == "fail" {
			g.res.Count("op:" + m.Op + ":" + m.Kind)
		}
		if m.Kind == "fail" {
			// an operation failing on the unchanged tree is not a C11 matter, but it must be visible
			g.res.Notes = append(g.res.Notes, fmt.Sprintf("scenario %s seed %d: operation #%d %s failed: %s", sc.Name, sc.Seed, m.N, m.Op, tail(out, 300)))
		}
	}
	for k, v := range tr.Counts {
		g.res.Distribution[k] += v
	}
	g.res.Distribution["inplace-follow-writes"] += tr.InplaceFollowWrites
	nviol := 0
	parts := [][]fstrace.Event{tr.Events}
	if sc.Name == "follow" {
		// the follower publishes into the output tree concurrently with sync/upload operations on the
		// local and replica trees: judge the two projections separately (the rules never relate them)
		isOut := func(op string) bool { return strings.HasPrefix(op, "follow") || strings.HasPrefix(op, "restore") }
		parts = [][]fstrace.Event{
			fstrace.Project(tr.Events, map[int]bool{0: true, 1: true}, func(op string) bool { return !isOut(op) }),
			fstrace.Project(tr.Events, map[int]bool{2: true}, isOut)}
		nviol += g.judgeTrace(sc, "db+replica", parts[0])
		nviol += g.judgeTrace(sc, "output", parts[1])
	} else {
		nviol += g.judgeTrace(sc, "all", tr.Events)
	}
	var pubs []fstrace.Publication
	for _, part := range parts {
		pubs = append(pubs, fstrace.Observed(part)...)
	}
	// static vs observed
	for _, pub := range pubs {
		name := protoFor(pub)
		p, ok := g.protos[name]
		g.res.Count("published:" + name)
		if !ok {
			continue
		}
		want := fstrace.Normalize(p.Steps)
		obs := pub.Seq
		if strings.Contains(strings.Join(p.Steps, ","), "extWrite") {
			// an opaque flushing writer (SQLite checkpoint) may run zero, one or several times (one per WAL index)
			var c []string
			for _, x := range obs {
				c = append(c, x)
				if n := len(c); n >= 4 && c[n-1] == "fsync" && c[n-2] == "write" && c[n-3] == "fsync" && c[n-4] == "write" {
					c = c[:n-2]
				}
			}
			obs = c
		}
		if !reflect.DeepEqual(want, obs) && !reflect.DeepEqual(fstrace.NormalizeAlt(p.Steps), obs) {
			g.res.DisagreementsChecked++
			g.res.AddFinding("disagreement", "C11/static-vs-observed/"+name,
				fmt.Sprintf("extracted sequence of %s is %v but the observed calls publishing %s were %v", name, want, pub.Target.Str, pub.Seq),
				map[string]any{"scenario": sc, "protocol": name, "static": want, "observed": pub.Seq, "target": pub.Target.Str})
		}
	}
	if len(g.res.Samples) < 6 {
		g.res.Sample(map[string]any{"scenario": sc, "events": len(tr.Events), "publications": len(pubs), "violations": nviol,
			"first_events": fstrace.Line(tr.Events[:min(12, len(tr.Events))])})
	}
	return nviol > 0
}

func (g *engine) static() {
	protos, err := loadProtocols(g.o.Driver)
	if err != nil {
		g.res.AddFinding("disagreement", "C11/no-static-protocols", "regenerated publish protocols unavailable: "+err.Error(), map[string]any{"static": true})
		return
	}
	ans, err := g.drv.Ask("protocols")
	if err != nil {
		hx.Fatal(err)
	}
	lean := map[string]string{}
	if strings.HasPrefix(ans, "protocols ") {
		for _, kv := range strings.Split(strings.TrimPrefix(ans, "protocols "), ",") {
			if i := strings.LastIndex(kv, "="); i > 0 {
				lean[kv[:i]] = kv[i+1:]
			}
		}
	}
	for _, p := range protos {
		g.protos[p.Name] = p
		rule, idx := fstrace.WellOrdered(p.Steps)
		g.res.Case("static:"+p.Name+":"+strings.Join(p.Steps, ","), true)
		mine := "wo"
		if rule != "" {
			mine = "bad"
		}
		g.res.Count("static:" + mine)
		if l, ok := lean[p.Name]; ans != "-" && (!ok || !strings.HasPrefix(l, mine+":")) {
			g.res.DisagreementsChecked++
			g.res.AddFinding("disagreement", "C11/static-lean-vs-go", fmt.Sprintf("protocol %s: Lean says %q, Go oracle says %s %s", p.Name, l, mine, rule),
				map[string]any{"static": true, "protocol": p})
		}
		if rule != "" {
			base := p.Name
			if i := strings.IndexAny(base, "[+"); i >= 0 {
				base = base[:i]
			}
			fn := base[strings.LastIndex(base, ".")+1:]
			if base != p.Name { // a path variant (alternative exit / spliced callee) of the function
				fn += "-variant"
			}
			sig := "C11/" + fn + "-" + rule
			if rule == "ack-before-dirsync" {
				sig = "C11/" + fn + "-no-dir-fsync"
			}
			g.res.AddFinding("violation", sig,
				fmt.Sprintf("%s: success path %v breaks rule %s at step %d (%s)", p.Name, p.Steps, rule, idx, p.Steps[idx]),
				map[string]any{"static": true, "protocol": p.Name, "steps": p.Steps, "rule": rule, "index": idx})
		}
	}
}

func scenarios(o *hx.Opts) []Scenario {
	r := hx.NewRand(o.Seed)
	names := []string{"basic", "compact", "restore", "follow", "behind", "reopen", "restorev3", "pinned", "ckptbusy", "restoreside", "republish", "chunked"}
	var out []Scenario
	reps := 1
	if o.Tier == "thorough" {
		reps = 4
	}
	for rep := 0; rep < reps; rep++ {
		for _, n := range names {
			out = append(out, Scenario{Name: n, Seed: r.Uint64() % 1000000, Rounds: 2 + r.Intn(3)})
		}
	}
	return out
}

func main() {
	if len(os.Args) > 1 && os.Args[1] == "child" {
		os.Exit(scn.Main(os.Args[2:]))
	}
	o := hx.ParseFlags("C11")
	res := hx.NewResult(o, "c11: strace'd litestream scenarios judged by Lean flushOK + Go rule oracle; static publish protocols")
	res.Rule = "scenarios {basic, compact(+snapshot, retention), restore, follow(+txid sidecar), behind (baseline fetch, F8), reopen, restorev3 (legacy v0.3.x layouts through Restore and RestoreV3: snapshot only, committed WAL, header-only WAL segment, WAL ending mid-transaction, two WAL indexes, last index without commit, timestamp cutting the segment list), pinned (checkpoints that cannot restart the WAL because of an application reader: explicit PASSIVE/FULL/RESTART/TRUNCATE and the threshold PASSIVE inside Sync), ckptbusy (checkpoints under concurrent commits), restoreside (plain and follow-mode restore x {no sidecar, stale older sidecar, stale sidecar naming exactly the final TXID, stale -txid.tmp}; a follow-mode restore acknowledges when follow() opens the published output O_RDWR and again when Restore returns), republish (WriteLTXFile onto names that already exist in the file replica: upload retry of an L0 file, Snapshot twice at the same position, snapshot by a restarted idle process, repeated compaction), chunked (WAL backlog larger than MaxSyncWALBytes in {one frame, 16 KiB, 64 KiB}: bounded sync chunks, also with a checkpoint inside the same sync); a 16/64 KiB sync budget is mixed into the other scenarios by seed} x seeded sizes, each run once under strace -f -y; the full system-call trace restricted to the meta/replica/output trees is one case (non-trivial = at least one event; distinct = canonical event line); each regenerated static protocol is one case; crash points around every rename/unlink/ack are replayed in the model"
	drv, err := hx.StartDriver(o.Driver)
	if err != nil {
		hx.Fatal(err)
	}
	defer drv.Close()
	g := &engine{o: o, res: res, drv: drv, protos: map[string]fstrace.Protocol{}}
	if o.Replay != "" {
		os.Exit(g.replay())
	}
	g.static()
	// corpus first
	if files, _ := filepath.Glob(filepath.Join(o.Corpus, "*.json")); len(files) > 0 {
		sort.Strings(files)
		for _, f := range files {
			var w struct {
				Replay Scenario `json:"replay"`
			}
			b, _ := os.ReadFile(f)
			if json.Unmarshal(b, &w) == nil && w.Replay.Name != "" {
				res.Count("corpus")
				g.runOne(w.Replay)
			}
		}
	}
	for _, sc := range scenarios(o) {
		g.runOne(sc)
	}
	if err := res.Write(o.Out); err != nil {
		hx.Fatal(err)
	}
}

func (g *engine) replay() int {
	b, err := os.ReadFile(g.o.Replay)
	if err != nil {
		hx.Fatal(err)
	}
	var w struct {
		Replay struct {
			Scenario Scenario `json:"scenario"`
			Static   bool     `json:"static"`
			Protocol any      `json:"protocol"`
		} `json:"replay"`
	}
	if err := json.Unmarshal(b, &w); err != nil {
		hx.Fatal(err)
	}
	if w.Replay.Static {
		g.static()
	} else {
		g.static()
		g.res.Findings = g.res.Findings[:0]
		g.runOne(w.Replay.Scenario)
	}
	for _, f := range g.res.Findings {
		fmt.Printf("%s %s: %s\n", f.Kind, f.Signature, f.What)
	}
	if len(g.res.Findings) > 0 {
		return 1
	}
	fmt.Println("no finding reproduced")
	return 0
}
