// Engine c03 (kill engine): the scenario child (real litestream code) is run under a ptrace
// supervisor and SIGKILLed immediately before its k-th file-system-mutating system call; then the
// property's own ORACLE runs on what is left: every *.ltx under a final name verifies with the real
// decoder, restore output / -txid sidecar are whole, a new process opens the same directories
// without manual intervention, SyncAndWait succeeds, the last acknowledged TXID is restorable and a
// restore equals the source database; no *.tmp survives Open in the meta directory.
// The recorded system-call trace of every scenario is also judged by the Lean kill acceptor (driver).
package main

import (
	"bytes"
	"encoding/json"
	"fmt"
	"io/fs"
	"os"
	"os/exec"
	"path/filepath"
	"runtime"
	"sort"
	"strconv"
	"strings"
	"sync"
	"time"

	"verif/harness/fstrace"
	"verif/harness/hx"
	"verif/harness/ptkill"
	"verif/harness/scn"
)

type Scenario struct {
	Name   string `json:"scenario"`
	Seed   uint64 `json:"seed"`
	Rounds int    `json:"rounds"`
}

type KillCase struct {
	Scenario
	K    int          `json:"k"`
	Call *ptkill.Call `json:"call,omitempty"`
	// what the APPLICATION does between the kill and the restart ("" = nothing), see scn.runApp
	App      string `json:"app,omitempty"`
	NoInsert bool   `json:"noinsert,omitempty"` // restart: first sync without a fresh application commit
	// restart: n>0 = before any new application write run n-1 idle syncs, then DB.Snapshot, restore, compare
	SnapFirst int `json:"snapfirst,omitempty"`
}

// appVariant: seeded choice of the application's activity while litestream is dead.
func appVariant(r *hx.Rand) (string, bool) {
	noins := r.Chance(50)
	if r.Chance(35) {
		return "", noins
	}
	pre := []int{0, 2, 8, 20}[r.Intn(4)]
	mode := []string{"none", "PASSIVE", "PASSIVE", "FULL", "RESTART", "RESTART", "TRUNCATE", "TRUNCATE"}[r.Intn(8)]
	post := []int{0, 1, 1, 3, 15}[r.Intn(5)]
	cl := 0
	if r.Chance(30) {
		cl = 1
	}
	return fmt.Sprintf("pre=%d,mode=%s,post=%d,close=%d", pre, mode, post, cl), noins
}

func childArgv(sc Scenario, root, phase string, acked int) []string {
	self, _ := os.Executable()
	a := []string{self, "child", "-name", sc.Name, "-root", root, "-phase", phase, "-seed", fmt.Sprint(sc.Seed), "-rounds", fmt.Sprint(sc.Rounds)}
	if acked > 0 {
		a = append(a, "-acked", fmt.Sprint(acked))
	}
	return a
}

func mkRoot() (string, func()) {
	d, err := os.MkdirTemp("", "verif-c03-")
	if err != nil {
		hx.Fatal(err)
	}
	d, _ = filepath.EvalSymlinks(d)
	return filepath.Join(d, "w"), func() { os.RemoveAll(d) }
}

func pathClass(root, p string) string {
	rel, err := filepath.Rel(root, p)
	if err != nil || strings.HasPrefix(rel, "..") {
		return "outside"
	}
	tmp := strings.HasSuffix(p, ".tmp")
	switch {
	case strings.HasPrefix(rel, "src/.db-litestream"):
		if tmp {
			return "meta-tmp"
		}
		if strings.HasSuffix(p, ".ltx") {
			return "meta-ltx"
		}
		return "meta-other"
	case strings.HasPrefix(rel, "replica"):
		if tmp {
			return "replica-tmp"
		}
		if strings.HasSuffix(p, ".ltx") {
			return "replica-ltx"
		}
		return "replica-other"
	case strings.HasPrefix(rel, "out"):
		if tmp {
			return "out-tmp"
		}
		return "out-final"
	case strings.HasPrefix(rel, "src/db-wal"):
		return "src-wal"
	case strings.HasPrefix(rel, "src"):
		return "src-db"
	}
	return "other"
}

type recoverLine struct {
	Recover string `json:"recover"`
	Stage   string `json:"stage"`
	Detail  string `json:"detail"`
}

type outcome struct {
	kc                  KillCase
	killed              bool
	acked               int
	opAtKill            string
	rec                 recoverLine
	tmpLeft             []string
	raw                 string
	skippedFollowOutput bool
	followDetail        string
	appOut              string
	err                 error
}

// lastAcked: highest replica TXID acknowledged (upload / syncandwait / close) before the kill; op in progress.
func marksOf(calls []ptkill.Call) (acked int, curOp string, followActive bool) {
	for _, c := range calls {
		if c.Sys != "mark" {
			continue
		}
		f := strings.Split(c.Path, ".")
		switch f[0] {
		case "begin":
			if len(f) > 2 {
				curOp = f[2]
				if f[2] == "follow" {
					followActive = true
				}
			}
		case "ok", "fail":
			if len(f) > 2 && f[2] == "follow" {
				followActive = false
			}
			if f[0] == "ok" && len(f) > 3 && (f[2] == "upload" || f[2] == "syncandwait" || f[2] == "close") {
				if t, err := strconv.Atoi(f[3]); err == nil && t > acked {
					acked = t
				}
			}
			curOp = ""
		}
	}
	return
}

func runApp(sc Scenario, root, spec string, seed uint64) string {
	argv := append(childArgv(Scenario{Name: sc.Name, Seed: seed, Rounds: sc.Rounds}, root, "app", 0), "-app", spec)
	cmd := exec.Command(argv[0], argv[1:]...)
	done := make(chan struct{})
	var out []byte
	go func() { out, _ = cmd.CombinedOutput(); close(done) }()
	select {
	case <-done:
	case <-time.After(60 * time.Second):
		if cmd.Process != nil {
			cmd.Process.Kill()
		}
		<-done
	}
	return tailS(string(out), 300)
}

func runRecover(sc Scenario, root string, acked int, extra ...string) (recoverLine, string, error) {
	argv := append(childArgv(sc, root, "recover", acked), extra...)
	cmd := exec.Command(argv[0], argv[1:]...)
	var out, errb bytes.Buffer
	cmd.Stdout, cmd.Stderr = &out, &errb
	if err := cmd.Start(); err != nil {
		return recoverLine{}, "", err
	}
	done := make(chan error, 1)
	go func() { done <- cmd.Wait() }()
	select {
	case err := <-done:
		if err != nil {
			return recoverLine{Recover: "fail", Stage: "crash", Detail: err.Error() + ": " + tailS(errb.String(), 400)}, out.String(), nil
		}
	case <-time.After(90 * time.Second):
		cmd.Process.Kill()
		<-done
		return recoverLine{Recover: "fail", Stage: "hang", Detail: "recover phase did not finish in 90s"}, out.String(), nil
	}
	var last recoverLine
	for _, l := range strings.Split(out.String(), "\n") {
		var r recoverLine
		if json.Unmarshal([]byte(l), &r) == nil && r.Recover != "" {
			last = r
		}
	}
	if last.Recover == "" {
		last = recoverLine{Recover: "fail", Stage: "no-verdict", Detail: tailS(out.String()+errb.String(), 400)}
	}
	return last, out.String() + errb.String(), nil
}

func tailS(s string, n int) string {
	if len(s) > n {
		return s[len(s)-n:]
	}
	return s
}

func tmpFilesIn(dir string) []string {
	var out []string
	filepath.WalkDir(dir, func(p string, d fs.DirEntry, err error) error {
		if err == nil && !d.IsDir() && strings.HasSuffix(p, ".tmp") {
			out = append(out, p)
		}
		return nil
	})
	return out
}

func killOnce(kc KillCase) outcome {
	root, cleanup := mkRoot()
	defer cleanup()
	oc := outcome{kc: kc}
	res, err := ptkill.Run(ptkill.Options{Argv: childArgv(kc.Scenario, root, "run", 0), Root: root, KillAt: kc.K, Timeout: 120 * time.Second})
	if err != nil {
		oc.err = err
		return oc
	}
	oc.killed = res.Killed
	oc.kc.Call = res.KilledBefore
	var follow bool
	oc.acked, oc.opAtKill, follow = marksOf(res.Calls)
	if !res.Killed {
		return oc
	}
	var extra []string
	if kc.NoInsert {
		extra = append(extra, "-noinsert")
	}
	if kc.SnapFirst > 0 {
		extra = append(extra, "-snapfirst", fmt.Sprint(kc.SnapFirst))
	}
	if kc.App != "" {
		oc.appOut = runApp(kc.Scenario, root, kc.App, kc.Seed+uint64(kc.K))
	}
	rec, raw, err := runRecover(kc.Scenario, root, oc.acked, extra...)
	if err != nil {
		oc.err = err
		return oc
	}
	if rec.Recover == "fail" && rec.Stage == "output-check" && follow {
		// follow mode applies pages in place to the published output: recorded as its own (known) finding,
		// then the output is set aside so that the rest of the oracle still runs.
		oc.skippedFollowOutput = true
		oc.followDetail = rec.Detail
		for _, f := range []string{"restored.db", "restored.db-wal", "restored.db-shm"} {
			os.Remove(filepath.Join(root, "out", f))
		}
		rec, raw, err = runRecover(kc.Scenario, root, oc.acked, extra...)
		if err != nil {
			oc.err = err
			return oc
		}
	}
	oc.rec, oc.raw = rec, raw
	if rec.Recover == "ok" {
		oc.tmpLeft = tmpFilesIn(filepath.Join(root, "src", ".db-litestream"))
	}
	return oc
}

func scenarios(o *hx.Opts) []Scenario {
	r := hx.NewRand(o.Seed*7919 + 3)
	var out []Scenario
	for _, n := range []string{"basic", "compact", "restore", "follow", "behind", "reopen", "restorev3", "pinned", "ckptbusy", "l0ret", "chunked"} {
		out = append(out, Scenario{Name: n, Seed: r.Uint64() % 1000000, Rounds: 2 + r.Intn(2)})
	}
	return out
}

// pickKills: thorough = every k; quick = every rename/unlink on litestream-owned names and its neighbours
// (capped by seeded sampling) plus a seeded sample of the rest.
func pickKills(o *hx.Opts, root string, rec *ptkill.Result, r *hx.Rand, ckptWindow map[int]bool) []int {
	n := rec.Total
	if o.Tier == "thorough" {
		ks := make([]int, n)
		for i := range ks {
			ks[i] = i + 1
		}
		return ks
	}
	must := map[int]bool{}
	var other []int
	for _, c := range rec.Calls {
		if c.Seq == 0 {
			continue
		}

		cl := pathClass(root, c.Path)
		isRU := strings.HasPrefix(c.Sys, "rename") || strings.HasPrefix(c.Sys, "unlink")
		if isRU && cl != "src-db" && cl != "src-wal" && cl != "other" {
			for _, k := range []int{c.Seq - 1, c.Seq, c.Seq + 1} {
				if k >= 1 && k <= n {
					must[k] = true
				}
			}
		}
	}
	var ms []int
	for k := range must {
		ms = append(ms, k)
	}
	sort.Ints(ms)
	capMust, nOther := 10, 4
	for len(ms) > capMust {
		i := r.Intn(len(ms))
		ms = append(ms[:i], ms[i+1:]...)
	}
	for k := 1; k <= n; k++ {
		if !must[k] {
			other = append(other, k)
		}
	}
	for i := 0; i < nOther && len(other) > 0; i++ {
		j := r.Intn(len(other))
		ms = append(ms, other[j])
		other = append(other[:j], other[j+1:]...)
	}
	// always included (seeded cap 10): checkpoint staging opens, the call after a burst of deletes, every call
	// between the creation of a restore output's staging file and its rename
	var always []int
	for k := range ckptWindow {
		if !must[k] || !contains(ms, k) {
			always = append(always, k)
		}
	}
	sort.Ints(always)
	for len(always) > 10 {
		i := r.Intn(len(always))
		always = append(always[:i], always[i+1:]...)
	}
	ms = append(ms, always...)
	sort.Ints(ms)
	var uniq []int
	for i, k := range ms {
		if i == 0 || k != ms[i-1] {
			uniq = append(uniq, k)
		}
	}
	return uniq
}

func contains(a []int, k int) bool {
	for _, x := range a {
		if x == k {
			return true
		}
	}
	return false
}

type engine struct {
	o   *hx.Opts
	res *hx.Result
	mu  sync.Mutex
}

func (g *engine) record(oc outcome, root string) {
	g.mu.Lock()
	defer g.mu.Unlock()
	kc := oc.kc
	if oc.err != nil {
		g.res.Notes = append(g.res.Notes, fmt.Sprintf("kill run %v k=%d: supervisor error: %v", kc.Scenario, kc.K, oc.err))
		g.res.Count("supervisor-error")
		return
	}
	desc := "-"
	if kc.Call != nil {
		desc = kc.Call.Sys + ":" + pathClassAny(kc.Call.Path)
	}
	g.res.Case(fmt.Sprintf("%s/%d/%d/%d/%s/%v/%d", kc.Name, kc.Seed, kc.Rounds, kc.K, kc.App, kc.NoInsert, kc.SnapFirst), oc.killed)
	if !oc.killed {
		g.res.Count("kill-point-not-reached")
		return
	}
	g.res.Count("killed-before:" + desc)
	g.res.Count("killed-during-op:" + oc.opAtKill)
	g.res.Count("recover:" + oc.rec.Recover + ":" + oc.rec.Stage)
	if oc.acked > 0 {
		g.res.Count("with-acked-txid")
	}
	if oc.skippedFollowOutput {
		if g.res.Distribution["follow-inplace-output-malformed"] == 0 {
			// Reported once per run under a specific signature (KNOWN_FINDINGS: follow mode applies the pages of a
			// transaction in place, without a journal; C16 shows that a restarted follower heals the file).
			g.res.AddFinding("violation", "C03/follow-inplace-output-malformed",
				fmt.Sprintf("scenario %s killed before call %d (%s) while the follower applies pages in place: the published restore output is not a whole database: %s", kc.Name, kc.K, describe(kc.Call), tailS(oc.followDetail, 200)),
				map[string]any{"scenario": kc.Name, "seed": kc.Seed, "rounds": kc.Rounds, "k": kc.K, "call": kc.Call, "detail": oc.followDetail})
		}
		g.res.Count("follow-inplace-output-malformed")
	}
	if kc.App != "" {
		g.res.Count("app-while-down:" + strings.SplitN(strings.SplitN(kc.App, "mode=", 2)[1], ",", 2)[0])
	} else {
		g.res.Count("app-while-down:idle")
	}
	if kc.SnapFirst > 0 {
		g.res.Count(fmt.Sprintf("snapshot-before-first-write:idle-syncs=%d", kc.SnapFirst-1))
	}
	payload := map[string]any{"scenario": kc.Name, "seed": kc.Seed, "rounds": kc.Rounds, "k": kc.K, "app": kc.App, "noinsert": kc.NoInsert, "snapfirst": kc.SnapFirst, "call": kc.Call, "acked": oc.acked, "op": oc.opAtKill, "recover": oc.rec, "app_out": oc.appOut, "log": tailS(oc.raw, 1500)}
	if oc.rec.Recover == "fail" {
		sig := "C03/" + oc.rec.Stage + "/" + desc
		if oc.rec.Stage == "restore-retry" || oc.rec.Stage == "compare-after-snapshot" || oc.rec.Stage == "snapshot-after-restart" || oc.rec.Stage == "idle-sync" {
			sig = "C03/" + oc.rec.Stage
		} else if kc.App != "" { // what matters is what the application did while litestream was down, not the kill point
			sig = "C03/" + oc.rec.Stage + "/app-while-down:" + strings.SplitN(strings.SplitN(kc.App, "mode=", 2)[1], ",", 2)[0]
		}
		g.res.AddFinding("violation", sig,
			fmt.Sprintf("scenario %s killed before call %d (%s, during %q), application while down: %q, restart (snapfirst=%d noinsert=%v): stage %s fails: %s", kc.Name, kc.K, describe(kc.Call), oc.opAtKill, kc.App, kc.SnapFirst, kc.NoInsert, oc.rec.Stage, tailS(oc.rec.Detail, 300)), payload)
	} else if len(oc.tmpLeft) > 0 {
		payload["tmp_left"] = oc.tmpLeft
		g.res.AddFinding("violation", "C03/tmp-left-after-open",
			fmt.Sprintf("scenario %s killed before call %d (%s): staging files survive Open in the meta directory: %v", kc.Name, kc.K, describe(kc.Call), oc.tmpLeft), payload)
	}
	if len(g.res.Samples) < 6 && kc.K%7 == 0 {
		g.res.Sample(map[string]any{"scenario": kc.Scenario, "k": kc.K, "killed_before": describe(kc.Call), "acked": oc.acked, "recover": oc.rec.Recover})
	}
}

func pathClassAny(p string) string {
	i := strings.Index(p, "/w/")
	if i < 0 {
		return "other"
	}
	return pathClass(p[:i+2], p)
}

func describe(c *ptkill.Call) string {
	if c == nil {
		return "?"
	}
	s := c.Sys + " " + c.Path
	if c.Path2 != "" {
		s += " -> " + c.Path2
	}
	return s
}

// modelCheck: one strace'd run per scenario judged by the Lean kill acceptor and its Go statement;
// the model's kill replay must show no partial final name at any rename/unlink boundary.
func (g *engine) modelCheck(drv *hx.Driver, sc Scenario) {
	d, err := os.MkdirTemp("", "verif-c03s-")
	if err != nil {
		hx.Fatal(err)
	}
	defer os.RemoveAll(d)
	d, _ = filepath.EvalSymlinks(d)
	root := filepath.Join(d, "w")
	trf := filepath.Join(d, "strace.out")
	argv := childArgv(sc, root, "run", 0)
	cmd := exec.Command("strace", append([]string{"-f", "-y", "-s", "0", "-o", trf, "-e",
		"trace=openat,write,pwrite64,fsync,fdatasync,rename,renameat,renameat2,unlink,unlinkat,close,ftruncate,copy_file_range,sendfile"}, argv...)...)
	if out, err := cmd.CombinedOutput(); err != nil {
		hx.Fatal(fmt.Errorf("strace run of %v: %v: %s", sc, err, tailS(string(out), 300)))
	}
	tr, err := fstrace.Parse(trf, root)
	if err != nil {
		hx.Fatal(err)
	}
	line := fstrace.Line(tr.Events)
	model, err := drv.Ask("killok E=" + line)
	if err != nil {
		hx.Fatal(err)
	}
	mine := "ok"
	for i, e := range tr.Events {
		if (e.Kind == 'C' || e.Kind == 'W' || e.Kind == 'T') && e.P.Final {
			mine = fmt.Sprintf("bad direct-write %d", i)
			break
		}
		if e.Kind == 'R' && e.P.Final {
			mine = fmt.Sprintf("bad final-src %d", i)
			break
		}
	}
	g.mu.Lock()
	defer g.mu.Unlock()
	g.res.Case("trace:"+sc.Name+":"+line, len(tr.Events) > 0)
	g.res.Count("trace-verdict:" + strings.Fields(mine)[0])
	if hx.Differs(mine, model) {
		g.res.DisagreementsChecked++
		g.res.AddFinding("disagreement", "C03/lean-vs-go-killok", fmt.Sprintf("Lean killOK says %q, Go says %q (scenario %s)", model, mine, sc.Name), map[string]any{"scenario": sc, "line": line})
	}
	if mine != "ok" {
		f := strings.Fields(mine)
		i, _ := strconv.Atoi(f[2])
		g.res.AddFinding("violation", "C03/trace-"+f[1], fmt.Sprintf("scenario %s: call %d (%s) touches a final name directly", sc.Name, i, tr.Events[i].Human()),
			map[string]any{"scenario": sc, "index": i, "call": tr.Events[i].Human(), "line": line})
		return
	}
	var lines []string
	for i, e := range tr.Events {
		if e.Kind == 'R' || e.Kind == 'U' {
			lines = append(lines, fmt.Sprintf("kill E=%s K=%d", line, i), fmt.Sprintf("kill E=%s K=%d", line, i+1))
		}
	}
	if len(lines) > 80 {
		lines = lines[:80]
	}
	outs, err := drv.AskBatch(lines)
	if err != nil {
		hx.Fatal(err)
	}
	for i, o := range outs {
		g.res.Count("model-kill-points")
		if o != "-" && !strings.HasPrefix(o, "kill partial= ") {
			g.res.AddFinding("disagreement", "C03/model-kill-partial", fmt.Sprintf("killOK accepts the trace of %s but the model shows a partial final name: %q", sc.Name, o), map[string]any{"scenario": sc, "line": lines[i]})
			break
		}
	}
}

func main() {
	if len(os.Args) > 1 && os.Args[1] == "child" {
		os.Exit(scn.Main(os.Args[2:]))
	}
	o := hx.ParseFlags("C03")
	res := hx.NewResult(o, "c03: kill engine (ptrace supervisor, SIGKILL before the k-th mutating call) + restart oracle; recorded traces judged by Lean killOK")
	res.Rule = "scenarios {basic, compact(+snapshot, retention), restore, follow, behind, reopen, restorev3, pinned (reader blocks WAL restart), ckptbusy (commits during litestream's checkpoints), l0ret (L1 compaction + L0 retention with short L0Retention while a local L0 file still waits for upload), chunked (bounded sync chunks under a small MaxSyncWALBytes)}; one case = (scenario, seed, rounds, k): the child is killed immediately before its k-th file-system-mutating call under the scenario root (openat O_CREAT/O_TRUNC, write*, ftruncate, rename*, unlink*, mkdir*, copy_file_range...), then restarted; quick: every rename/unlink on litestream-owned names with its neighbours (seeded cap 10 per scenario, plus (seeded cap 10) every open of a staging file inside litestream's own checkpoint the first call after every burst of LTX deletes, and the calls between the creation of a restore output's staging file and its rename — there the restart re-runs the same restore to the same output path and requires success, a sound output and no staging file) + 4 seeded others per scenario; thorough: every k. Between the kill and the restart the application keeps working in its own process (seeded: commits, wal_checkpoint PASSIVE/FULL/RESTART/TRUNCATE, commits, connection closed or left open), and the restart's first sync runs with or without a fresh commit; in a seeded share of the cases the restarted process first runs 0-2 idle syncs and DB.Snapshot BEFORE any new application write, restores and compares with the source, then continues with or without a write. non-trivial = the kill point was reached"
	g := &engine{o: o, res: res}
	if o.Replay != "" {
		os.Exit(g.replay())
	}
	drv, err := hx.StartDriver(o.Driver)
	if err != nil {
		hx.Fatal(err)
	}
	defer drv.Close()
	var cases []KillCase
	// corpus first
	if files, _ := filepath.Glob(filepath.Join(o.Corpus, "*.json")); len(files) > 0 {
		sort.Strings(files)
		for _, f := range files {
			var w struct {
				Replay KillCase `json:"replay"`
			}
			b, _ := os.ReadFile(f)
			if json.Unmarshal(b, &w) == nil && w.Replay.Name != "" && w.Replay.K > 0 {
				cases = append(cases, w.Replay)
				res.Count("corpus")
			}
		}
	}
	r := hx.NewRand(o.Seed)
	for _, sc := range scenarios(o) {
		g.modelCheck(drv, sc)
		root, cleanup := mkRoot()
		rec, err := ptkill.Run(ptkill.Options{Argv: childArgv(sc, root, "run", 0), Root: root, Timeout: 120 * time.Second})
		if err != nil || rec.ExitCode != 0 {
			cleanup()
			hx.Fatal(fmt.Errorf("recording run of %v failed: %v (exit %v)", sc, err, rec))
		}
		// the complete run must itself recover (sanity of the oracle on the unkilled history)
		if rl, raw, _ := runRecover(sc, root, 0); rl.Recover != "ok" {
			res.AddFinding("violation", "C03/"+rl.Stage+"/unkilled", fmt.Sprintf("scenario %s: restart after a complete run fails at stage %s: %s", sc.Name, rl.Stage, rl.Detail),
				map[string]any{"scenario": sc, "k": 0, "recover": rl, "log": tailS(raw, 1500)})
		}
		res.Distribution["mutating-calls:"+sc.Name] = rec.Total
		for _, c := range rec.Calls {
			if c.Seq > 0 {
				res.Count("call:" + c.Sys + ":" + pathClass(root, c.Path))
			}
		}
		// kill points inside litestream's own checkpoint: immediately before it stages an LTX file
		ckpt := map[int]bool{}
		cur := ""
		prevDel, afterDelete := false, 0
		for _, c := range rec.Calls {
			if c.Sys == "mark" {
				f := strings.Split(c.Path, ".")
				if f[0] == "begin" && len(f) > 2 {
					cur = f[2]
				} else if f[0] == "ok" || f[0] == "fail" {
					cur = ""
				}
				continue
			}
			if cur == "checkpoint" && strings.HasPrefix(c.Sys, "open") && pathClass(root, c.Path) == "meta-tmp" {
				ckpt[c.Seq] = true
			}
			// between the creation of a restore output's staging file and its rename (the retry window)
			if pathClass(root, c.Path) == "out-tmp" && !strings.HasPrefix(c.Sys, "open") && !strings.HasPrefix(c.Sys, "unlink") && strings.HasSuffix(c.Path, ".db.tmp") {
				ckpt[c.Seq] = true
				afterDelete++
			}
			// the first call after a burst of LTX deletes (retention): the window between "files deleted" and
			// whatever litestream publishes next
			cl := pathClass(root, c.Path)
			isDel := strings.HasPrefix(c.Sys, "unlink") && (cl == "meta-ltx" || cl == "replica-ltx")
			if prevDel && !isDel {
				ckpt[c.Seq] = true
				afterDelete++
			}
			prevDel = isDel
		}
		res.Distribution["checkpoint-window-kill-points:"+sc.Name] = len(ckpt) - afterDelete
		res.Distribution["after-delete-burst-kill-points:"+sc.Name] = afterDelete
		vr := r.Fork()
		for _, k := range pickKills(o, root, rec, r.Fork(), ckpt) {
			app, noins := appVariant(vr)
			snap := 0
			if (app == "" && vr.Chance(70)) || (app != "" && vr.Chance(25)) {
				snap = 1 + vr.Intn(3) // 0, 1 or 2 idle syncs, then Snapshot before any new write
			}
			cases = append(cases, KillCase{Scenario: sc, K: k, App: app, NoInsert: noins, SnapFirst: snap})
			if ckpt[k] && (app != "" || !noins) {
				// the state the checkpoint itself left (with whatever the application committed meanwhile), untouched
				cases = append(cases, KillCase{Scenario: sc, K: k, NoInsert: true})
			}
		}
		cleanup()
	}
	workers := runtime.NumCPU() - 2
	if workers < 2 {
		workers = 2
	}
	if workers > 12 {
		workers = 12
	}
	ch := make(chan KillCase)
	var wg sync.WaitGroup
	for i := 0; i < workers; i++ {
		wg.Add(1)
		go func() {
			defer wg.Done()
			for kc := range ch {
				g.record(killOnce(kc), "")
			}
		}()
	}
	for _, kc := range cases {
		ch <- kc
	}
	close(ch)
	wg.Wait()
	if err := res.Write(o.Out); err != nil {
		hx.Fatal(err)
	}
}

func (g *engine) replay() int {
	b, err := os.ReadFile(g.o.Replay)
	if err != nil {
		hx.Fatal(err)
	}
	var w struct {
		Replay KillCase `json:"replay"`
	}
	if err := json.Unmarshal(b, &w); err != nil {
		hx.Fatal(err)
	}
	fails := 0
	// the kill point is a position in a (slightly) non-deterministic call sequence: try the recorded k and its neighbours
	for _, k := range []int{w.Replay.K, w.Replay.K - 1, w.Replay.K + 1} {
		if k < 1 {
			continue
		}
		kc := w.Replay
		kc.K = k
		oc := killOnce(kc)
		fmt.Printf("k=%d app=%q noinsert=%v snapfirst=%d killed=%v before=%s acked=%d recover=%s stage=%s detail=%s tmp_left=%v follow_output=%q\n", k, kc.App, kc.NoInsert, kc.SnapFirst, oc.killed, describe(oc.kc.Call), oc.acked, oc.rec.Recover, oc.rec.Stage, tailS(oc.rec.Detail, 300), oc.tmpLeft, oc.followDetail)
		if oc.killed && (oc.rec.Recover == "fail" || len(oc.tmpLeft) > 0 || oc.followDetail != "") {
			fails++
		}
	}
	if fails > 0 {
		return 1
	}
	fmt.Println("no failure reproduced")
	return 0
}
