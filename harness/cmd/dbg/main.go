// temporary debugging aid: run one history step by step and dump state
package main

import (
	"fmt"
	"os"

	"verif/harness/histlib"
)

func main() {
	h, ok := histlib.LoadHistory(os.Args[1])
	if !ok {
		fmt.Println("cannot load")
		os.Exit(2)
	}
	e, err := histlib.NewEnv(h.Cfg)
	if err != nil {
		panic(err)
	}
	defer e.Destroy()
	for i, op := range h.Ops {
		out, ack := e.Exec(op)
		fmt.Printf("#%d %s -> %s ack=%v\n", i, op, out, ack)
		for _, l := range e.Logs.Take() {
			fmt.Println("    log:", l)
		}
		fmt.Printf("    posix locks: db=%d shm=%d\n", histlib.PosixLocksOn(e.DBPath), histlib.PosixLocksOn(e.DBPath+"-shm"))
		w := histlib.ScanWAL(e.DBPath + "-wal")
		fi, _ := os.Stat(e.DBPath)
		var sz int64
		if fi != nil {
			sz = fi.Size()
		}
		fmt.Printf("    db=%d bytes wal: exists=%v size=%d ps=%d salt=%x/%x live=%d lastCommit=%d\n", sz, w.Exists, w.Size, w.PageSize, w.Salt1, w.Salt2, w.LiveFrames, w.LastCommit)
		for _, f := range e.Listing(0) {
			fmt.Printf("    L0 %d-%d size=%d\n", f.MinTXID, f.MaxTXID, f.Size)
		}
		if ack {
			fmt.Println("    restore-check:", e.CheckRestoreEqualsSource())
		}
	}
}
