//go:build vfs && verif

// Engine c18: VFS read replica. Real NewVFSFile/Open/ReadAt/FileSize/Pos/Lock/Unlock/
// SetTargetTime over the file replica written by a real primary (package prim) with
// growth, auto_vacuum shrink, VACUUM, compaction and retention of files being read.
// Polls are driven synchronously through the add-only hook /repo/verif_vfs.go.
//
// Oracle (violations): every page and the size vs Restore(TXID=Pos()) (masking the header
// bytes the VFS rewrites: 18-19, 24-27); the time-travel view vs Restore(Timestamp=T).
// Model comparison (disagreements): pos, maxTXID1, commit, index, pending after Open and
// after every poll / lock / unlock.
package main

import (
	"bytes"
	"context"
	"encoding/json"
	"fmt"
	"io"
	"os"
	"path/filepath"
	"sort"
	"strings"
	"sync"
	"time"

	"github.com/benbjohnson/litestream"
	"github.com/benbjohnson/litestream/file"
	_ "github.com/mattn/go-sqlite3"
	"github.com/psanford/sqlite3vfs"
	"github.com/superfly/ltx"

	"verif/harness/hx"
	"verif/harness/prim"
)

type Step struct {
	P *prim.Op `json:"p,omitempty"` // primary op
	V string   `json:"v,omitempty"` // vfs op: poll|lock|unlock|reopen|tt|check
	A int      `json:"a,omitempty"`
}

type Case struct {
	Cfg   prim.Cfg  `json:"cfg"`
	Init  []prim.Op `json:"init"`
	Steps []Step    `json:"steps"`
}

type failure struct{ kind, sig, what string }

// gateClient is the replica client the VFS file reads through: the file client plus a gate that,
// once armed, blocks the next OpenLTXFile (the poll goroutine fetching the page index / header of a
// new file) until released. It opens the window between "poll has listed/fetched" and "poll applies"
// in which the main goroutine calls SetTargetTime.
type gateClient struct {
	*file.ReplicaClient
	mu      sync.Mutex
	armed   bool
	blocked chan struct{}
	release chan struct{}
}

func (g *gateClient) arm() (blocked, release chan struct{}) {
	g.mu.Lock()
	defer g.mu.Unlock()
	g.armed, g.blocked, g.release = true, make(chan struct{}), make(chan struct{})
	return g.blocked, g.release
}

func (g *gateClient) disarm() {
	g.mu.Lock()
	g.armed = false
	g.mu.Unlock()
}

func (g *gateClient) OpenLTXFile(c context.Context, level int, minTXID, maxTXID ltx.TXID, offset, size int64) (io.ReadCloser, error) {
	g.mu.Lock()
	if g.armed {
		g.armed = false
		b, r := g.blocked, g.release
		g.mu.Unlock()
		close(b)
		<-r
	} else {
		g.mu.Unlock()
	}
	return g.ReplicaClient.OpenLTXFile(c, level, minTXID, maxTXID, offset, size)
}

type fileMeta struct {
	commit int
	pages  []int
}

type world struct {
	c       Case
	dir     string
	p       *prim.Primary
	client  *file.ReplicaClient
	gate    *gateClient
	f       *litestream.VFSFile
	ms      string // model state (driver format)
	archive map[int][]byte
	archN   int
	meta    map[string]fileMeta
	fails   []failure
	res     *hx.Result
	drv     *hx.Driver
	mu      *sync.Mutex
	canon   []string
	locked  bool
	lockImg []byte
	// sticky predicates for the known findings
	planShrink bool // the plan the index was built from has consecutive files with decreasing commit
	pollShrink bool // a poll since (re)open consumed a file with a commit below its predecessor's
	pollLagL1  bool // a poll consumed a level-1 file whose commit is below the commit reached via level 0 in the same poll
	pollL1Beyond bool // … or holding a page beyond the commit of a NEWER level-0 file consumed by the same poll
	pollL1Over bool // a poll consumed a level-1 file sharing a page with a NEWER level-0 file consumed by the same poll
	polls      int
	nontrivial bool
	lastPollErr string
	// family "lock held across polls": polls since Lock(SHARED), the poll (1-based, under the lock) that
	// consumed a shrinking commit, and whether the lock was released after at least one MORE poll
	lockPolls       int
	lockShrinkPoll  int
	lockShrinkMulti bool
	pollsSinceOp int // polls since the last primary op / reopen
}

var ctx = context.Background()

func (w *world) fail(kind, sig, what string) { w.fails = append(w.fails, failure{kind, sig, what}) }
func (w *world) count(k string) {
	w.mu.Lock()
	w.res.Count(k)
	w.mu.Unlock()
}
func (w *world) ask(line string) string {
	w.mu.Lock()
	defer w.mu.Unlock()
	s, err := w.drv.Ask(line)
	if err != nil {
		return "driver-error " + err.Error()
	}
	return s
}

func mask(b []byte) []byte {
	c := append([]byte(nil), b...)
	for _, i := range []int{18, 19, 24, 25, 26, 27} {
		if i < len(c) {
			c[i] = 0
		}
	}
	return c
}

func (w *world) archiveNew() {
	fs, err := prim.Listing(w.client)
	if err != nil {
		return
	}
	mx := prim.MaxTXID(fs)
	for t := w.archN + 1; t <= mx; t++ {
		if b, err := prim.RestoreBytes(w.p.RepDir, w.dir, t); err == nil {
			w.archive[t] = mask(b)
		} else {
			w.count("archive/miss")
		}
	}
	if mx > w.archN {
		w.archN = mx
	}
}

func key(l, mn, mx int) string { return fmt.Sprintf("%d:%d:%d", l, mn, mx) }

func (w *world) metaOf(l, mn, mx int) (fileMeta, error) {
	k := key(l, mn, mx)
	if m, ok := w.meta[k]; ok {
		return m, nil
	}
	info := &ltx.FileInfo{Level: l, MinTXID: ltx.TXID(mn), MaxTXID: ltx.TXID(mx)}
	if st, err := os.Stat(w.client.LTXFilePath(l, info.MinTXID, info.MaxTXID)); err == nil {
		info.Size = st.Size()
	}
	hdr, err := litestream.FetchLTXHeader(ctx, w.client, info)
	if err != nil {
		return fileMeta{}, err
	}
	idx, err := litestream.FetchPageIndex(ctx, w.client, info)
	if err != nil {
		return fileMeta{}, err
	}
	m := fileMeta{commit: int(hdr.Commit)}
	for pg := range idx {
		m.pages = append(m.pages, int(pg))
	}
	sort.Ints(m.pages)
	w.meta[k] = m
	return m, nil
}

// replicaArg renders R=… for the driver from the current listing.
func (w *world) replicaArg() (string, []prim.F) {
	fs, _ := prim.Listing(w.client)
	var parts []string
	for _, f := range fs {
		m, err := w.metaOf(f.L, f.Min, f.Max)
		if err != nil {
			continue
		}
		pg := make([]string, len(m.pages))
		for i, p := range m.pages {
			pg[i] = fmt.Sprint(p)
		}
		parts = append(parts, fmt.Sprintf("%d:%d:%d:%d:%s", f.L, f.Min, f.Max, m.commit, strings.Join(pg, ".")))
	}
	return strings.Join(parts, ";"), fs
}

func tok(e ltx.PageIndexElem) int64 {
	return int64(e.Level)*1000000000000 + int64(e.MinTXID)*1000000 + int64(e.MaxTXID)
}

func fmtIdx(m map[uint32]ltx.PageIndexElem) string {
	ks := make([]int, 0, len(m))
	for k := range m {
		ks = append(ks, int(k))
	}
	sort.Ints(ks)
	parts := make([]string, len(ks))
	for i, k := range ks {
		parts[i] = fmt.Sprintf("%d=%d", k, tok(m[uint32(k)]))
	}
	return strings.Join(parts, ",")
}

func b01(b bool) string {
	if b {
		return "1"
	}
	return "0"
}

func (w *world) pageSize() int { return w.c.Cfg.PageSize }

// implState renders the real VFSFile's state in the driver's format.
func (w *world) implState() string {
	idx, pend, pr, commit, m1 := w.f.VerifIndex()
	size, _ := w.f.FileSize()
	return fmt.Sprintf("S=%d:%d:%d:%s:%s:%s SIZE=%d IDX=%s PEND=%s", w.f.Pos().TXID, m1, commit,
		b01(w.f.LockType() >= sqlite3vfs.LockShared), b01(pr), b01(w.f.TargetTime() != nil), size/int64(w.pageSize()), fmtIdx(idx), fmtIdx(pend))
}

func stateArgs(ms string) string { // "S=… SIZE=… IDX=… PEND=…" -> args without SIZE
	var out []string
	for _, t := range strings.Fields(ms) {
		if !strings.HasPrefix(t, "SIZE=") {
			out = append(out, t)
		}
	}
	return strings.Join(out, " ")
}

// normS reduces the pending-replace/pending-truncate slot of `S=` to 0|1: the hook reports a flag,
// a model of the repaired code (proposed-fixes/C18-vfs-poll.diff) carries the truncation commit.
func normS(st string) string {
	i := strings.Index(st, "S=")
	if i < 0 {
		return st
	}
	j := strings.IndexByte(st[i:], ' ')
	if j < 0 {
		j = len(st) - i
	}
	f := strings.Split(st[i+2:i+j], ":")
	if len(f) == 6 && f[4] != "0" {
		f[4] = "1"
	}
	return st[:i+2] + strings.Join(f, ":") + st[i+j:]
}

func (w *world) compareModel(where, implPrefix, model string) {
	impl := implPrefix + w.implState()
	if hx.Differs(normS(impl), normS(model)) {
		w.fail("disagreement", "C18/model-"+strings.SplitN(where, "#", 2)[0], fmt.Sprintf("%s: impl %.700q model %.700q", where, impl, model))
	}
	if hx.Differs(normS(impl), normS(model)) {
		// resynchronise: the model continues from the implementation's state so that the rest of the
		// history still runs (the property oracle must get its chance after a disagreement)
		w.ms = w.implState()
	} else if strings.HasPrefix(model, "ok ") || strings.HasPrefix(model, "err noncontiguous ") {
		w.ms = strings.TrimPrefix(strings.TrimPrefix(model, "ok "), "err noncontiguous ")
	} else { // model off: follow the implementation
		w.ms = w.implState()
	}
}

func planShrinks(w *world, infos []*ltx.FileInfo) bool {
	prev := -1
	for _, i := range infos {
		m, err := w.metaOf(i.Level, int(i.MinTXID), int(i.MaxTXID))
		if err != nil {
			continue
		}
		if prev >= 0 && m.commit < prev {
			return true
		}
		prev = m.commit
	}
	return false
}

func planArg(infos []*ltx.FileInfo) string {
	parts := make([]string, len(infos))
	for i, f := range infos {
		parts[i] = key(f.Level, int(f.MinTXID), int(f.MaxTXID))
	}
	return strings.Join(parts, ",")
}

func (w *world) open() error {
	if w.f != nil {
		w.f.Close()
	}
	plan, err := litestream.CalcRestorePlan(ctx, w.client, 0, time.Time{}, prim.Quiet)
	if err != nil {
		return err
	}
	f := litestream.NewVFSFile(w.gate, "x.db", prim.Quiet)
	f.PollInterval = time.Hour
	if err := f.Open(); err != nil {
		return err
	}
	w.f = f
	w.locked = false
	w.planShrink = planShrinks(w, plan)
	w.pollShrink, w.pollLagL1, w.pollL1Over, w.pollL1Beyond = false, false, false, false
	w.lockPolls, w.lockShrinkPoll, w.lockShrinkMulti = 0, 0, false
	r, _ := w.replicaArg()
	model := w.ask(fmt.Sprintf("vopen PLAN=%s TT=0 R=%s", planArg(plan), r))
	w.compareModel("open", "ok ", model)
	w.count("vfs/open")
	if w.planShrink {
		w.count("vfs/open-plan-with-shrink")
	}
	w.check("open")
	return nil
}

// classify maps a failed comparison to a signature: the two known findings are predicates on the
// history (a shrinking commit in the plan / consumed by a poll) plus the shape of the failure.
func (w *world) classify(onlySizeTooBig bool, generic string) string {
	if os.Getenv("C18_NO_KNOWN") != "" {
		// validation of a repair: no failure is attributed to a recorded finding
		return generic
	}
	if onlySizeTooBig {
		// "every page equal, FileSize too large" is F6's shape only: stale high pages survive from an
		// Open on a plan that shrank. Every replace-index path (F7/F7b) rebuilds the index from scratch, so
		// once a poll replaced the index a too-large size is NOT explained by any known finding.
		if w.planShrink && !w.pollShrink && !w.pollLagL1 {
			return "C18/open-size-after-shrink"
		}
		if w.pollL1Beyond {
			return "C18/poll-l1-overrides-newer-l0"
		}
		if w.lockShrinkMulti {
			return "C18/size-after-shrink-lock-held-across-polls"
		}
		return generic
	}
	if w.pollShrink {
		return "C18/poll-replaces-index-on-shrink"
	}
	if w.pollLagL1 {
		return "C18/poll-replaces-index-on-lagging-l1"
	}
	if w.pollL1Over {
		return "C18/poll-l1-overrides-newer-l0"
	}
	return generic
}

// compareView reads every page through the VFS and compares with a restored image.
func (w *world) compareView(where string, want []byte, checkSize bool) {
	ps := w.pageSize()
	n := len(want) / ps
	var bad, missing []int
	buf := make([]byte, ps)
	for p := 1; p <= n; p++ {
		_, err := w.f.ReadAt(buf, int64(p-1)*int64(ps))
		if err != nil {
			if !strings.Contains(err.Error(), "page not found") {
				idx, _, _, _, _ := w.f.VerifIndex()
				e, ok := idx[uint32(p)]
				if _, serr := os.Stat(w.client.LTXFilePath(e.Level, e.MinTXID, e.MaxTXID)); ok && os.IsNotExist(serr) {
					// the index points at a file that retention deleted after the last poll (the VFS relies on
					// L0 retention being much longer than its poll interval): outside the property's domain,
					// counted, not alarmed; the comparison resumes after the next poll
					w.count("check/read-error-deleted-file")
					return
				}
				w.fail("violation", w.classify(false, "C18/read-error"), fmt.Sprintf("%s: at TXID %d ReadAt(page %d) fails although its file exists: %v", where, w.f.Pos().TXID, p, err))
				return
			}
			missing = append(missing, p)
			continue
		}
		got := buf
		if p == 1 {
			got = mask(buf)
		}
		if !bytes.Equal(got, want[(p-1)*ps:p*ps]) {
			bad = append(bad, p)
		}
	}
	size, _ := w.f.FileSize()
	w.count("check/compare")
	pos := w.f.Pos().TXID
	head := func(a []int) []int {
		if len(a) > 8 {
			return a[:8]
		}
		return a
	}
	switch {
	case len(missing) > 0:
		w.nontrivial = true
		w.fail("violation", w.classify(false, "C18/page-not-found"), fmt.Sprintf("%s: at TXID %d %d of %d pages are 'page not found' (first %v); FileSize %d vs restore %d", where, pos, len(missing), n, head(missing), size, len(want)))
	case len(bad) > 0:
		w.fail("violation", w.classify(false, "C18/page-mismatch"), fmt.Sprintf("%s: at TXID %d pages %v differ from the restore (%d of %d)", where, pos, head(bad), len(bad), n))
	case checkSize && size != int64(len(want)):
		w.nontrivial = true
		w.fail("violation", w.classify(size > int64(len(want)), "C18/size-mismatch"), fmt.Sprintf("%s: at TXID %d FileSize %d vs restore %d (all %d pages equal)", where, pos, size, len(want), n))
	}
}

func (w *world) check(where string) {
	if w.f.TargetTime() != nil {
		return
	}
	if w.locked {
		if w.lockImg != nil {
			w.compareView(where+"/locked", w.lockImg, false)
		}
		return
	}
	pos := int(w.f.Pos().TXID)
	want, ok := w.archive[pos]
	if !ok {
		w.count("check/no-archive")
		return
	}
	w.compareView(where, want, true)
}

func (w *world) poll(i int) {
	r, fs := w.replicaArg()
	posBefore := int(w.f.Pos().TXID)
	_, _, _, commitBefore, m1Before := w.f.VerifIndex()
	model := w.ask("vpoll " + stateArgs(w.ms) + " R=" + r)
	err := w.f.VerifPoll(ctx)
	prefix := "ok "
	w.lastPollErr = ""
	if err != nil {
		w.lastPollErr = err.Error()
		if strings.Contains(err.Error(), "non-contiguous") {
			prefix = "err noncontiguous "
		} else {
			prefix = "err other:" + err.Error() + " "
		}
		w.count("vfs/poll-error")
	}
	w.polls++
	w.pollsSinceOp++
	w.count("vfs/poll")
	posAfter := int(w.f.Pos().TXID)
	_, _, _, _, m1After := w.f.VerifIndex()
	if posAfter > posBefore {
		w.count("vfs/poll-progress")
	}
	// history predicate of F7: a consumed file's commit is below its predecessor's
	// history predicates of the known findings, computed from the files this poll consumed
	// (level 0: TXIDs (posBefore, ..], level 1: TXIDs (m1Before, m1After]) and their headers
	var l0, l1 []prim.F
	for _, f := range fs {
		if f.L == 0 && f.Min > posBefore && f.Max <= posAfter {
			l0 = append(l0, f)
		}
		if f.L == 1 && f.Min > int(m1Before) && f.Max <= int(m1After) {
			l1 = append(l1, f)
		}
	}
	// level-0 files are consumed only while contiguous from posBefore+1
	cont := l0[:0:0]
	next := posBefore + 1
	for _, f := range l0 {
		if f.Min != next {
			break
		}
		cont = append(cont, f)
		next = f.Max + 1
	}
	l0 = cont
	prev := int(commitBefore)
	shrunkBefore := w.pollShrink
	for _, f := range l0 {
		if m, e := w.metaOf(f.L, f.Min, f.Max); e == nil {
			if m.commit < prev {
				w.pollShrink = true
				w.count("vfs/poll-consumed-shrink")
			}
			prev = m.commit
		}
	}
	prevL1 := int(commitBefore)
	for _, g := range l1 {
		mg, e := w.metaOf(g.L, g.Min, g.Max)
		if e != nil {
			continue
		}
		if mg.commit < prev {
			if mg.commit < prevL1 {
				w.pollShrink = true
				w.count("vfs/poll-consumed-shrink")
			} else {
				// not a shrink of the database: the level-1 file merely lags behind the level-0 files
				w.pollLagL1 = true
				w.count("vfs/poll-l1-commit-below-l0")
			}
		}
		prev, prevL1 = mg.commit, mg.commit
		for _, f := range l0 {
			if f.Max <= g.Max {
				continue
			}
			mf, e := w.metaOf(f.L, f.Min, f.Max)
			if e != nil {
				continue
			}
			set := map[int]bool{}
			for _, p := range mg.pages {
				set[p] = true
			}
			for _, p := range mf.pages {
				if set[p] {
					w.pollL1Over = true
				}
			}
			// same merge order, other symptom: the older level-1 file holds pages beyond the commit of the
			// newer level-0 file (the database shrank in between) — they are merged back into the index
			for _, p := range mg.pages {
				if p > mf.commit {
					w.pollL1Beyond = true
				}
			}
		}
	}
	if w.pollL1Over {
		w.count("vfs/poll-l1-overrides-newer-l0")
	}
	if w.locked {
		w.lockPolls++
		if w.pollShrink && !shrunkBefore && w.lockShrinkPoll == 0 {
			w.lockShrinkPoll = w.lockPolls
			w.count("vfs/shrink-consumed-under-lock")
		}
	}
	if os.Getenv("C18_DEBUG") != "" {
		fmt.Fprintf(os.Stderr, "poll#%d R=%s\n  before %s\n  after  %s%s\n", i, r, stateArgs(w.ms), prefix, w.implState())
	}
	w.compareModel(fmt.Sprintf("poll#%d", i), prefix, model)
	w.canon = append(w.canon, fmt.Sprintf("poll:%d->%d", posBefore, posAfter))
	w.check(fmt.Sprintf("step%d/poll", i))
}

// timeTravel: SetTargetTime(T), compare the view with Restore(Timestamp=T), ResetTime, compare the
// latest view. With race, SetTargetTime is issued while a poll that has already listed a new file is
// blocked fetching it (gated client): the poll must not touch the historical view.
func (w *world) timeTravel(i, a int, race bool) {
	if w.locked {
		return
	}
	fs, _ := prim.Listing(w.client)
	if race { // a target time at or before the current position, so that the in-flight poll is strictly newer
		var old []prim.F
		for _, f := range fs {
			if f.Max <= int(w.f.Pos().TXID) {
				old = append(old, f)
			}
		}
		fs = old
	}
	if len(fs) == 0 {
		return
	}
	pick := fs[a%len(fs)]
	T := time.UnixMilli(pick.Created + 1).UTC()
	plan, perr := litestream.CalcRestorePlan(ctx, w.client, 0, T, prim.Quiet)
	var err error
	if race {
		blocked, release := w.gate.arm()
		done := make(chan error, 1)
		go func() { done <- w.f.VerifPoll(ctx) }()
		select {
		case <-blocked:
			w.count("vfs/tt-race-in-window")
			err = w.f.SetTargetTime(ctx, T)
			close(release)
			<-done
		case <-done: // nothing new to fetch: the poll never reached the gate
			w.gate.disarm()
			w.count("vfs/tt-race-no-window")
			err = w.f.SetTargetTime(ctx, T)
		case <-time.After(10 * time.Second):
			w.gate.disarm()
			close(release)
			<-done
			w.fail("error", "C18/engine", "gated poll neither blocked nor finished")
			return
		}
	} else {
		err = w.f.SetTargetTime(ctx, T)
	}
	if (err != nil) != (perr != nil) {
		w.fail("violation", "C18/time-travel-error", fmt.Sprintf("step%d: SetTargetTime err=%v but restore plan err=%v", i, err, perr))
	}
	if err == nil && perr == nil {
		w.count("vfs/time-travel")
		out := filepath.Join(w.dir, fmt.Sprintf("tt-%d", i))
		rep := litestream.NewReplicaWithClient(nil, file.NewReplicaClient(w.p.RepDir))
		rerr := rep.Restore(ctx, litestream.RestoreOptions{OutputPath: out, Timestamp: T})
		if rerr == nil {
			b, _ := os.ReadFile(out)
			os.Remove(out)
			w.planShrink, w.pollShrink, w.pollLagL1, w.pollL1Over, w.pollL1Beyond = planShrinks(w, plan), false, false, false, false
			w.compareView(fmt.Sprintf("step%d/time-travel", i), mask(b), true)
		}
		r, _ := w.replicaArg()
		model := w.ask(fmt.Sprintf("vopen PLAN=%s TT=1 R=%s", planArg(plan), r))
		impl := "ok " + w.implState()
		if hx.Differs(normS(impl), normS(model)) {
			w.fail("disagreement", "C18/model-timetravel", fmt.Sprintf("step%d: impl %.500q model %.500q", i, impl, model))
		}
	}
	// back to the latest view: ResetTime rebuilds from the newest plan
	plan2, _ := litestream.CalcRestorePlan(ctx, w.client, 0, time.Time{}, prim.Quiet)
	if err := w.f.ResetTime(ctx); err != nil {
		w.fail("violation", "C18/reset-time-error", err.Error())
		return
	}
	w.planShrink, w.pollShrink, w.pollLagL1, w.pollL1Over, w.pollL1Beyond = planShrinks(w, plan2), false, false, false, false
	r, _ := w.replicaArg()
	model := w.ask(fmt.Sprintf("vopen PLAN=%s TT=0 R=%s", planArg(plan2), r))
	w.compareModel("reset", "ok ", model)
	w.check(fmt.Sprintf("step%d/reset-time", i))
}

func runCase(c Case, res *hx.Result, drv *hx.Driver, mu *sync.Mutex) (fails []failure, canon string, nontrivial bool, err error) {
	dir, err := os.MkdirTemp("", "c18-")
	if err != nil {
		return nil, "", false, err
	}
	defer os.RemoveAll(dir)
	p, err := prim.New(dir, c.Cfg)
	if err != nil {
		return nil, "", false, err
	}
	defer p.Close()
	w := &world{c: c, dir: dir, p: p, client: file.NewReplicaClient(p.RepDir), gate: &gateClient{ReplicaClient: file.NewReplicaClient(p.RepDir)}, archive: map[int][]byte{}, meta: map[string]fileMeta{}, res: res, drv: drv, mu: mu}
	defer func() {
		if w.f != nil {
			w.f.Close()
		}
	}()
	for _, o := range c.Init {
		if err := p.Do(o); err != nil {
			return nil, "", false, fmt.Errorf("init %s: %w", o, err)
		}
		w.archiveNew()
	}
	if err := w.open(); err != nil {
		return nil, "", false, fmt.Errorf("open: %w", err)
	}
	for i, st := range c.Steps {
		if hasViolation(w.fails) {
			break
		}
		switch {
		case st.P != nil:
			if err := p.Do(*st.P); err != nil {
				return w.fails, "", false, fmt.Errorf("primary op %s: %w", *st.P, err)
			}
			w.count("op/" + st.P.K)
			w.pollsSinceOp = 0
			w.archiveNew()
		case st.V == "poll":
			w.poll(i)
		case st.V == "lock":
			if !w.locked {
				if err := w.f.Lock(sqlite3vfs.LockShared); err == nil {
					w.locked = true
					w.lockPolls, w.lockShrinkPoll = 0, 0
					w.lockImg = w.archive[int(w.f.Pos().TXID)]
					w.compareModel("lock", "ok ", w.ask("vlock "+stateArgs(w.ms)))
					w.count("vfs/lock")
				}
			}
		case st.V == "unlock":
			if w.locked {
				if err := w.f.Unlock(sqlite3vfs.LockNone); err == nil {
					w.locked = false
					if w.lockShrinkPoll > 0 && w.lockPolls > w.lockShrinkPoll {
						// the reader held SHARED across the poll that consumed the shrink AND at least one more poll
						w.lockShrinkMulti = true
						w.count("vfs/unlock-after-shrink-lock-held-across-polls")
					}
					w.compareModel("unlock", "ok ", w.ask("vunlock "+stateArgs(w.ms)))
					w.count("vfs/unlock")
					w.check(fmt.Sprintf("step%d/unlock", i))
				}
			}
		case st.V == "reopen":
			if err := w.open(); err != nil {
				return w.fails, "", false, fmt.Errorf("reopen: %w", err)
			}
		case st.V == "tt":
			w.timeTravel(i, st.A, false)
		case st.V == "ttrace":
			w.timeTravel(i, st.A, true)
		case st.V == "check":
			w.check(fmt.Sprintf("step%d/check", i))
		}
	}
	// liveness: the case ends with two polls on a static replica; unless a known defect already broke
	// the index, the VFS must have reached the newest TXID
	if !hasViolation(w.fails) && !w.locked && w.f.TargetTime() == nil && !w.pollShrink && !w.pollLagL1 && !w.pollL1Over && !w.pollL1Beyond && w.lastPollErr == "" && w.pollsSinceOp >= 2 {
		fs, _ := prim.Listing(w.client)
		// only when no level-0 file beyond Pos() was pruned before the VFS saw it (the VFS relies on L0
		// retention outlasting its poll interval; a VFS that fell behind pruned L0 files can stay stuck
		// because level 1 is listed from maxTXID1+1 — observed, outside the property's domain)
		next := int(w.f.Pos().TXID) + 1
		for _, f := range fs {
			if f.L == 0 && f.Min == next {
				next = f.Max + 1
			}
		}
		if mx := prim.MaxTXID(fs); next <= mx {
			w.count("check/behind-pruned-l0")
		} else if int(w.f.Pos().TXID) < mx {
			w.fail("violation", "C18/poll-stuck", fmt.Sprintf("replica static at TXID %d, VFS still at %d after two polls", mx, w.f.Pos().TXID))
		} else {
			w.count("check/caught-up")
		}
	}
	sort.Strings(w.canon)
	return w.fails, fmt.Sprintf("%v|%v", c, w.canon), w.polls > 0 || w.nontrivial, nil
}

func hasViolation(fs []failure) bool {
	for _, f := range fs {
		if f.kind != "disagreement" {
			return true
		}
	}
	return false
}

func genCase(rnd *hx.Rand, tier string) Case {
	cfg := prim.Cfg{PageSize: []int{4096, 4096, 1024, 8192}[rnd.Intn(4)], AutoVacuum: rnd.Chance(50)}
	c := Case{Cfg: cfg, Init: []prim.Op{{K: "write", A: 5 + rnd.Intn(40), B: 200 + rnd.Intn(3000)}, {K: "sync"}}}
	if rnd.Chance(50) {
		c.Init = append(c.Init, prim.Op{K: "snapshot"})
	}
	if rnd.Chance(30) {
		for _, o := range prim.GenHistory(rnd, 1+rnd.Intn(5), cfg) {
			c.Init = append(c.Init, o)
		}
	}
	if rnd.Chance(25) {
		// family "lock held across polls": a reader holds SHARED while a poll consumes a shrinking commit
		// (DELETE+VACUUM or incremental_vacuum) and at least one more poll ticks before it unlocks; then every
		// page and FileSize are compared with Restore(TXID=Pos())
		c.Init = []prim.Op{{K: "write", A: 30 + rnd.Intn(40), B: 800 + rnd.Intn(2500)}, {K: "sync"}}
		if rnd.Chance(50) {
			c.Init = append(c.Init, prim.Op{K: "snapshot"})
		}
		add := func(ops ...prim.Op) {
			for _, o := range ops {
				o := o
				c.Steps = append(c.Steps, Step{P: &o})
			}
		}
		if rnd.Chance(50) {
			add(prim.Op{K: "write", A: 1 + rnd.Intn(10), B: 200 + rnd.Intn(2500)}, prim.Op{K: "sync"})
			c.Steps = append(c.Steps, Step{V: "poll"})
		}
		c.Steps = append(c.Steps, Step{V: "lock"})
		if rnd.Chance(40) {
			add(prim.Op{K: "update", A: 1 + rnd.Intn(4), B: 200 + rnd.Intn(2500)}, prim.Op{K: "sync"})
			c.Steps = append(c.Steps, Step{V: "poll"})
		}
		if cfg.AutoVacuum && rnd.Chance(60) {
			add(prim.Op{K: "shrink", A: 2 + rnd.Intn(5), B: 5 + rnd.Intn(60)}, prim.Op{K: "sync"})
		} else {
			add(prim.Op{K: "shrink", A: 2 + rnd.Intn(5), B: 0}, prim.Op{K: "vacuum"}, prim.Op{K: "sync"})
		}
		c.Steps = append(c.Steps, Step{V: "poll"})
		for j := 0; j < 1+rnd.Intn(3); j++ {
			if rnd.Chance(50) {
				add(prim.Op{K: "write", A: 1 + rnd.Intn(4), B: 100 + rnd.Intn(1500)}, prim.Op{K: "sync"})
			}
			c.Steps = append(c.Steps, Step{V: "poll"})
		}
		c.Steps = append(c.Steps, Step{V: "unlock"}, Step{V: "poll"}, Step{V: "poll"})
		return c
	}
	if rnd.Chance(10) {
		// family "time travel inside a poll": growth, then one or more rounds of (new file; SetTargetTime
		// while the poll that discovered it is fetching; view vs Restore(Timestamp=T); ResetTime; polls)
		for j := 0; j < 1+rnd.Intn(3); j++ {
			w1, w2 := prim.Op{K: "write", A: 1 + rnd.Intn(10), B: 200 + rnd.Intn(2500)}, prim.Op{K: "sync"}
			c.Steps = append(c.Steps, Step{P: &w1}, Step{P: &w2}, Step{V: "poll"})
		}
		for j := 0; j < 1+rnd.Intn(2); j++ {
			w1, w2 := prim.Op{K: "update", A: 1 + rnd.Intn(3), B: 200 + rnd.Intn(2500)}, prim.Op{K: "sync"}
			c.Steps = append(c.Steps, Step{P: &w1}, Step{P: &w2}, Step{V: "ttrace", A: rnd.Intn(1000)}, Step{V: "poll"}, Step{V: "poll"})
		}
		return c
	}
	n := 6 + rnd.Intn(14)
	if tier == "thorough" {
		n += 10
	}
	for i := 0; i < n; i++ {
		switch k := rnd.Intn(100); {
		case k < 45:
			for _, o := range prim.GenHistory(rnd, 1+rnd.Intn(2), cfg) {
				o := o
				c.Steps = append(c.Steps, Step{P: &o})
			}
		case k < 75:
			c.Steps = append(c.Steps, Step{V: "poll"})
		case k < 82:
			c.Steps = append(c.Steps, Step{V: "lock"})
		case k < 90:
			c.Steps = append(c.Steps, Step{V: "unlock"})
		case k < 93:
			c.Steps = append(c.Steps, Step{V: "reopen"})
		case k < 96:
			c.Steps = append(c.Steps, Step{V: "tt", A: rnd.Intn(1000)})
		default: // a new file, then SetTargetTime inside the poll that fetches it
			w1, w2 := prim.Op{K: "update", A: 1 + rnd.Intn(3), B: 200 + rnd.Intn(2500)}, prim.Op{K: "sync"}
			c.Steps = append(c.Steps, Step{P: &w1}, Step{P: &w2}, Step{V: "ttrace", A: rnd.Intn(1000)})
		}
	}
	c.Steps = append(c.Steps, Step{V: "unlock"}, Step{V: "poll"}, Step{V: "poll"})
	return c
}

type replayFile struct {
	Replay Case `json:"replay"`
}

func loadCase(path string) (Case, error) {
	b, err := os.ReadFile(path)
	if err != nil {
		return Case{}, err
	}
	var rf replayFile
	if err := json.Unmarshal(b, &rf); err == nil && (len(rf.Replay.Steps) > 0 || len(rf.Replay.Init) > 0) {
		return rf.Replay, nil
	}
	var c Case
	err = json.Unmarshal(b, &c)
	return c, err
}

func shrink(c Case, sig string, drv *hx.Driver, mu *sync.Mutex) Case {
	still := func(x Case) bool {
		fs, _, _, err := runCase(x, hx.NewResult(&hx.Opts{}, "shrink"), drv, mu)
		if err != nil {
			return false
		}
		for _, f := range fs {
			if f.sig == sig {
				return true
			}
		}
		return false
	}
	budget := 40
	for chunk := max(len(c.Steps)/2, 1); chunk >= 1 && budget > 0; chunk /= 2 {
		for i := 0; i+chunk <= len(c.Steps) && budget > 0; {
			x := c
			x.Steps = append(append([]Step{}, c.Steps[:i]...), c.Steps[i+chunk:]...)
			budget--
			if still(x) {
				c = x
			} else {
				i += chunk
			}
		}
	}
	return c
}

// signatures that are predicates on the history (registered known findings have corpus witnesses
// already minimised); shrinking them again on every run only costs time
var historyPredicateSigs = map[string]bool{"C18/open-size-after-shrink": true, "C18/poll-replaces-index-on-shrink": true,
	"C18/poll-replaces-index-on-lagging-l1": true, "C18/poll-l1-overrides-newer-l0": true}

func main() {
	o := hx.ParseFlags("C18")
	res := hx.NewResult(o, "c18")
	res.Rule = "a case counts when the VFS polled at least once after Open (or reproduced a finding); distinct by (history, observed poll positions)"
	drv, err := hx.StartDriver(o.Driver)
	if err != nil {
		hx.Fatal(err)
	}
	defer drv.Close()
	var mu sync.Mutex
	reported := map[string]bool{}
	report := func(c Case, fails []failure, doShrink bool) {
		for _, f := range fails {
			mu.Lock()
			dup := reported[f.sig]
			reported[f.sig] = true
			res.Count("finding/" + f.sig)
			mu.Unlock()
			if dup {
				continue
			}
			cc := c
			if doShrink && f.kind == "violation" && !historyPredicateSigs[f.sig] {
				cc = shrink(c, f.sig, drv, &mu)
			}
			mu.Lock()
			res.AddFinding(f.kind, f.sig, f.what, cc)
			mu.Unlock()
		}
	}
	if o.Replay != "" {
		c, err := loadCase(o.Replay)
		if err != nil {
			hx.Fatal(err)
		}
		fails, _, _, err := runCase(c, res, drv, &mu)
		if err != nil {
			hx.Fatal(err)
		}
		for _, f := range fails {
			fmt.Printf("%s %s: %s\n", f.kind, f.sig, f.what)
		}
		if len(fails) > 0 {
			os.Exit(1)
		}
		fmt.Println("replay passes")
		return
	}
	if o.Corpus != "" {
		files, _ := filepath.Glob(filepath.Join(o.Corpus, "*.json"))
		sort.Strings(files)
		for _, f := range files {
			c, err := loadCase(f)
			if err != nil {
				res.Notes = append(res.Notes, "corpus file unreadable: "+f)
				continue
			}
			fails, canon, nt, err := runCase(c, res, drv, &mu)
			if err != nil {
				res.Notes = append(res.Notes, "corpus case error: "+err.Error())
				continue
			}
			res.Case(canon, nt)
			res.Count("corpus/cases")
			report(c, fails, false)
		}
	}
	rnd := hx.NewRand(o.Seed)
	budget := 60 * time.Second
	if o.Tier == "thorough" {
		budget = 150 * time.Second
	}
	deadline := time.Now().Add(budget)
	var wg sync.WaitGroup
	cases := make(chan Case)
	for i := 0; i < 8; i++ {
		wg.Add(1)
		go func() {
			defer wg.Done()
			for c := range cases {
				fails, canon, nt, err := runCase(c, res, drv, &mu)
				mu.Lock()
				if err != nil {
					res.Count("case/engine-error")
					if len(res.Notes) < 5 {
						res.Notes = append(res.Notes, "engine error: "+err.Error())
					}
					mu.Unlock()
					continue
				}
				res.Case(canon, nt)
				if len(res.Samples) < 3 {
					res.Sample(c)
				}
				mu.Unlock()
				report(c, fails, true)
			}
		}()
	}
	for time.Now().Before(deadline) {
		cases <- genCase(rnd.Fork(), o.Tier)
	}
	close(cases)
	wg.Wait()
	if err := res.Write(o.Out); err != nil {
		hx.Fatal(err)
	}
}
