// Engine c17: databases crossing the 1 GiB lock page.
//
// Runs the real DB.writeLTXFromDB / DB.writeLTXFromWAL (through the add-only hook
// /repo/verif_lockpage.go) on SPARSE database files whose committed range puts SQLite's lock
// page inside, last, or just beyond, for every page size; lists the page numbers of the produced
// LTX files with the real decoder; restores with the real ltx.Compactor + DecodeDatabaseTo.
//
// ORACLE (independent of the Lean model): no file contains the lock page; a snapshot holds exactly
// 1..commit minus the lock page; an incremental file holds exactly the WAL's pages plus the growth
// pages; every page image equals its source; the restored database equals the source at every
// non-lock page and is zero at the lock page.  Disagreement: page-number list != Lean emitdb/emitwal.
package main

import (
	"bytes"
	"context"
	"database/sql"
	"encoding/binary"
	"encoding/json"
	"fmt"
	"io"
	"log/slog"
	"os"
	"path/filepath"
	"sort"
	"strings"
	"sync"
	"time"

	"github.com/benbjohnson/litestream"
	"github.com/benbjohnson/litestream/file"
	"github.com/superfly/ltx"
	_ "modernc.org/sqlite"

	"verif/harness/hx"
)

var quiet = slog.New(slog.NewTextHandler(io.Discard, &slog.HandlerOptions{Level: slog.LevelError + 10}))

type Case struct {
	Kind       string   `json:"kind"` // "wal" | "snapshot"
	PageSize   uint32   `json:"page_size"`
	PrevCommit uint32   `json:"prev_commit"` // wal only
	Commit     uint32   `json:"commit"`
	Map        []uint32 `json:"map"`   // page numbers that have a WAL frame
	Marks      []uint32 `json:"marks"` // page numbers given non-zero content in the database file
	FilePages  uint32   `json:"file_pages,omitempty"` // snapshot: pages in the database FILE (0 = commit); pages beyond it exist only in the WAL
	Then       *Case    `json:"then,omitempty"` // snapshot: an incremental file applied on top before restoring
}

func (c Case) canon() string { b, _ := json.Marshal(c); return string(b) }

// page content: recognisable, derived from (source, pgno); never all-zero.
func fill(b []byte, src byte, pgno uint32) {
	for i := 0; i+8 <= len(b); i += 8 {
		binary.BigEndian.PutUint32(b[i:], pgno)
		b[i+4] = src
		b[i+5], b[i+6], b[i+7] = 0xA5, byte(i), byte(i >> 8)
	}
}

func isZero(b []byte) bool {
	for _, x := range b {
		if x != 0 {
			return false
		}
	}
	return true
}

type world struct {
	dir     string
	ps      uint32
	lock    uint32
	dbFile  *os.File
	walFile *os.File
	pageMap map[uint32]int64
	walN    int
}

func newWorld(root string, ps uint32) (*world, error) {
	dir, err := os.MkdirTemp(root, "w")
	if err != nil {
		return nil, err
	}
	w := &world{dir: dir, ps: ps, lock: ltx.LockPgno(ps), pageMap: map[uint32]int64{}}
	if w.dbFile, err = os.Create(filepath.Join(dir, "db")); err != nil {
		return nil, err
	}
	if w.walFile, err = os.Create(filepath.Join(dir, "db-wal")); err != nil {
		return nil, err
	}
	if _, err := w.walFile.Write(make([]byte, litestream.WALHeaderSize)); err != nil {
		return nil, err
	}
	return w, nil
}

func (w *world) close() {
	w.dbFile.Close()
	w.walFile.Close()
	os.RemoveAll(w.dir)
}

// setDB sizes the sparse database file and writes the marked pages (and garbage in the lock page:
// nothing may ever read it into a replica).
func (w *world) setDB(commit uint32, marks []uint32) error {
	if err := w.dbFile.Truncate(int64(commit) * int64(w.ps)); err != nil {
		return err
	}
	buf := make([]byte, w.ps)
	for _, p := range marks {
		if p == 0 || p > commit {
			continue
		}
		fill(buf, 'D', p)
		if p == w.lock {
			for i := range buf {
				buf[i] = 0xFF
			}
		}
		if _, err := w.dbFile.WriteAt(buf, int64(p-1)*int64(w.ps)); err != nil {
			return err
		}
	}
	return nil
}

// setWAL appends one frame per page number (content source 'W') and records the offsets.
func (w *world) setWAL(pgnos []uint32) error {
	w.pageMap = map[uint32]int64{}
	frame := make([]byte, litestream.WALFrameHeaderSize+int(w.ps))
	for _, p := range pgnos {
		off := int64(litestream.WALHeaderSize) + int64(w.walN)*int64(len(frame))
		binary.BigEndian.PutUint32(frame[0:], p)
		fill(frame[litestream.WALFrameHeaderSize:], 'W', p)
		if _, err := w.walFile.WriteAt(frame, off); err != nil {
			return err
		}
		w.pageMap[p] = off
		w.walN++
	}
	return nil
}

// expectPage: the source image of page p given what the database file and the WAL map hold.
func (w *world) expectPage(p uint32, marks map[uint32]bool, buf []byte) {
	for i := range buf {
		buf[i] = 0
	}
	if _, ok := w.pageMap[p]; ok {
		fill(buf, 'W', p)
	} else if marks[p] {
		fill(buf, 'D', p)
	}
}

type outFile struct {
	path  string
	pgnos []uint32 // page numbers in file order
	err   error
}

// scanLTX lists the page numbers of an LTX file with the real decoder and checks each image.
func scanLTX(path string, check func(pgno uint32, data []byte) string) ([]uint32, string, error) {
	f, err := os.Open(path)
	if err != nil {
		return nil, "", err
	}
	defer f.Close()
	dec := ltx.NewDecoder(f)
	if err := dec.DecodeHeader(); err != nil {
		return nil, "", err
	}
	data := make([]byte, dec.Header().PageSize)
	var pgnos []uint32
	bad := ""
	for {
		var ph ltx.PageHeader
		if err := dec.DecodePage(&ph, data); err == io.EOF {
			break
		} else if err != nil {
			return pgnos, bad, err
		}
		pgnos = append(pgnos, ph.Pgno)
		if bad == "" {
			bad = check(ph.Pgno, data)
		}
	}
	return pgnos, bad, dec.Close()
}

func runs(p []uint32) string {
	if len(p) == 0 {
		return ""
	}
	var parts []string
	a, b := p[0], p[0]
	flush := func() {
		if a == b {
			parts = append(parts, fmt.Sprint(a))
		} else {
			parts = append(parts, fmt.Sprintf("%d-%d", a, b))
		}
	}
	for _, x := range p[1:] {
		if x == b+1 {
			b = x
			continue
		}
		flush()
		a, b = x, x
	}
	flush()
	return strings.Join(parts, ",")
}

func joinU(p []uint32) string {
	s := make([]string, len(p))
	for i, x := range p {
		s[i] = fmt.Sprint(x)
	}
	return strings.Join(s, ",")
}

// sparseWriter keeps the restored database sparse: zero pages become holes.
type sparseWriter struct {
	f   *os.File
	off int64
}

func (s *sparseWriter) Write(b []byte) (int, error) {
	if isZero(b) {
		s.off += int64(len(b))
		return len(b), nil
	}
	n, err := s.f.WriteAt(b, s.off)
	s.off += int64(n)
	return n, err
}

type verdict struct {
	violation string
	disagree  string
	notes     []string
}

// writeOne produces one LTX file with the real writer.
func (w *world) writeOne(c Case, txid uint64, path string) error {
	f, err := os.Create(path)
	if err != nil {
		return err
	}
	defer f.Close()
	enc, err := ltx.NewEncoder(f)
	if err != nil {
		return err
	}
	if err := enc.EncodeHeader(ltx.Header{Version: ltx.Version, Flags: ltx.HeaderFlagNoChecksum, PageSize: w.ps, Commit: c.Commit,
		MinTXID: ltx.TXID(txid), MaxTXID: ltx.TXID(txid), Timestamp: 1700000000000 + int64(txid)}); err != nil {
		return err
	}
	ctx := context.Background()
	if c.Kind == "snapshot" {
		err = litestream.VerifWriteLTXFromDB(ctx, enc, w.dbFile, w.walFile, int(w.ps), c.Commit, w.pageMap)
	} else {
		err = litestream.VerifWriteLTXFromWAL(ctx, enc, w.dbFile, w.walFile, int(w.ps), c.PrevCommit, c.Commit, w.pageMap)
	}
	if err != nil {
		return err
	}
	return enc.Close()
}

func run(c Case, drv *hx.Driver, root string) (v verdict) {
	w, err := newWorld(root, c.PageSize)
	if err != nil {
		hx.Fatal(err)
	}
	defer w.close()
	marks := map[uint32]bool{}
	filePages := c.Commit
	if c.FilePages != 0 && c.Kind == "snapshot" {
		filePages = c.FilePages // growth beyond the file is still only in the WAL
	}
	for _, p := range c.Marks {
		if p <= filePages {
			marks[p] = true
		}
	}
	if err := w.setDB(filePages, c.Marks); err != nil {
		hx.Fatal(err)
	}
	if err := w.setWAL(c.Map); err != nil {
		hx.Fatal(err)
	}
	hasLockFrame := false
	for _, p := range c.Map {
		if p == w.lock {
			hasLockFrame = true
		}
	}
	txid := uint64(5)
	if c.Kind == "snapshot" {
		txid = 1
	}
	path := filepath.Join(w.dir, "out.ltx")
	werr := w.writeOne(c, txid, path)

	// model
	var line string
	if c.Kind == "snapshot" {
		line = fmt.Sprintf("emitdb PS=%d COMMIT=%d", c.PageSize, c.Commit)
	} else {
		line = fmt.Sprintf("emitwal PS=%d PREV=%d COMMIT=%d M=%s", c.PageSize, c.PrevCommit, c.Commit, joinU(c.Map))
	}
	model, err := drv.Ask(line)
	if err != nil {
		hx.Fatal(err)
	}
	if werr != nil {
		impl := "err other:" + werr.Error()
		if strings.Contains(werr.Error(), "cannot encode lock page") {
			impl = "err lockpage"
		}
		if hx.Differs(impl, model) {
			v.disagree = fmt.Sprintf("%s: impl=%q model=%q", line, impl, model)
		}
		if !(hasLockFrame && c.Kind == "wal") && !(hasLockFrame && c.Kind == "snapshot") {
			v.violation = fmt.Sprintf("sync of a database crossing the lock page fails: %v", werr)
		}
		return
	}
	buf := make([]byte, c.PageSize)
	pgnos, bad, err := scanLTX(path, func(p uint32, data []byte) string {
		w.expectPage(p, marks, buf)
		if !bytes.Equal(buf, data) {
			return fmt.Sprintf("page %d image in the LTX file differs from its source", p)
		}
		return ""
	})
	if err != nil {
		v.violation = "produced LTX file unreadable: " + err.Error()
		return
	}
	impl := "ok " + runs(pgnos)
	if hx.Differs(impl, model) {
		v.disagree = fmt.Sprintf("%s: impl=%q model=%q", line, impl, model)
	}
	// oracle on page numbers
	for _, p := range pgnos {
		if p == w.lock {
			v.violation = fmt.Sprintf("LTX file contains the lock page %d (page size %d)", p, c.PageSize)
			return
		}
	}
	var want []uint32
	if c.Kind == "snapshot" {
		for p := uint32(1); p <= c.Commit; p++ {
			if p != w.lock {
				want = append(want, p)
			}
		}
	} else {
		set := map[uint32]bool{}
		for _, p := range c.Map {
			set[p] = true
		}
		if c.Commit > c.PrevCommit {
			for p := c.PrevCommit + 1; p <= c.Commit; p++ {
				if p != w.lock {
					set[p] = true
				}
			}
		}
		for p := range set {
			want = append(want, p)
		}
		sort.Slice(want, func(i, j int) bool { return want[i] < want[j] })
	}
	if runs(want) != runs(pgnos) {
		v.violation = fmt.Sprintf("%s file holds pages %s, expected %s", c.Kind, runs(pgnos), runs(want))
		return
	}
	if bad != "" {
		v.violation = bad
		return
	}
	if c.Kind != "snapshot" {
		return
	}
	// restore: snapshot (+ optional incremental on top) through the real compactor and DecodeDatabaseTo
	files := []string{path}
	finalCommit := c.Commit
	snapMap := w.pageMap
	var incMarks map[uint32]bool
	var incMap map[uint32]int64
	if c.Then != nil {
		t := *c.Then
		t.Kind, t.PageSize, t.PrevCommit = "wal", c.PageSize, c.Commit
		incMarks = map[uint32]bool{}
		for _, p := range t.Marks {
			incMarks[p] = true
		}
		// the database file grows/shrinks to the new commit; new marks are written (growth pages come from the file)
		if err := w.setDB(t.Commit, t.Marks); err != nil {
			hx.Fatal(err)
		}
		if err := w.setWAL(t.Map); err != nil {
			hx.Fatal(err)
		}
		incMap = w.pageMap
		p2 := filepath.Join(w.dir, "inc.ltx")
		if err := w.writeOne(t, 2, p2); err != nil {
			v.violation = fmt.Sprintf("incremental sync growing %d -> %d pages across the lock page fails: %v", c.Commit, t.Commit, err)
			return
		}
		pg2, _, err := scanLTX(p2, func(uint32, []byte) string { return "" })
		if err != nil {
			v.violation = "incremental LTX unreadable: " + err.Error()
			return
		}
		for _, p := range pg2 {
			if p == w.lock {
				v.violation = fmt.Sprintf("incremental LTX file contains the lock page %d", p)
				return
			}
		}
		m2, err := drv.Ask(fmt.Sprintf("emitwal PS=%d PREV=%d COMMIT=%d M=%s", c.PageSize, c.Commit, t.Commit, joinU(t.Map)))
		if err != nil {
			hx.Fatal(err)
		}
		if a := "ok " + runs(pg2); hx.Differs(a, m2) && v.disagree == "" {
			v.disagree = fmt.Sprintf("emitwal (growth after snapshot): impl=%q model=%q", a, m2)
		}
		files = append(files, p2)
		finalCommit = t.Commit
	}
	var rdrs []io.Reader
	for _, p := range files {
		f, err := os.Open(p)
		if err != nil {
			hx.Fatal(err)
		}
		defer f.Close()
		rdrs = append(rdrs, f)
	}
	outPath := filepath.Join(w.dir, "restored")
	out, err := os.Create(outPath)
	if err != nil {
		hx.Fatal(err)
	}
	defer out.Close()
	pr, pw := io.Pipe()
	go func() {
		cp, err := ltx.NewCompactor(pw, rdrs)
		if err != nil {
			pw.CloseWithError(err)
			return
		}
		cp.HeaderFlags = ltx.HeaderFlagNoChecksum
		pw.CloseWithError(cp.Compact(context.Background()))
	}()
	sw := &sparseWriter{f: out}
	if err := ltx.NewDecoder(pr).DecodeDatabaseTo(sw); err != nil {
		pr.CloseWithError(err)
		v.violation = fmt.Sprintf("restore of a database with %d pages (lock page %d) fails: %v", finalCommit, w.lock, err)
		return
	}
	if err := out.Truncate(sw.off); err != nil {
		hx.Fatal(err)
	}
	if sw.off != int64(finalCommit)*int64(c.PageSize) {
		v.violation = fmt.Sprintf("restored size %d bytes, expected %d pages of %d", sw.off, finalCommit, c.PageSize)
		return
	}
	// compare every page
	got := make([]byte, c.PageSize)
	exp := make([]byte, c.PageSize)
	for p := uint32(1); p <= finalCommit; p++ {
		// cheap skip of holes: only pages that could be non-zero are read individually; the rest is verified by a bulk zero scan below
		interesting := p == w.lock || marks[p] || incMarks[p]
		if _, ok := snapMap[p]; ok {
			interesting = true
		}
		if _, ok := incMap[p]; ok {
			interesting = true
		}
		if !interesting {
			continue
		}
		if _, err := out.ReadAt(got, int64(p-1)*int64(c.PageSize)); err != nil {
			hx.Fatal(err)
		}
		for i := range exp {
			exp[i] = 0
		}
		switch {
		case p == w.lock:
		case incMap != nil && hasKey(incMap, p):
			fill(exp, 'W', p)
		case incMarks[p] && p > c.Commit: // growth page read from the database file by the incremental sync
			fill(exp, 'D', p)
		case hasKey(snapMap, p):
			fill(exp, 'W', p)
		case marks[p]:
			fill(exp, 'D', p)
		}
		if !bytes.Equal(got, exp) {
			if p == w.lock {
				v.violation = fmt.Sprintf("restored lock page %d is not empty", p)
			} else {
				v.violation = fmt.Sprintf("restored page %d differs from the source (page size %d, commit %d)", p, c.PageSize, finalCommit)
			}
			return
		}
	}
	// everything else must be zero: count non-zero pages in the whole file
	nz, err := countNonZeroPages(out, int(c.PageSize))
	if err != nil {
		hx.Fatal(err)
	}
	wantNZ := 0
	for p := uint32(1); p <= finalCommit; p++ {
		if p == w.lock {
			continue
		}
		if hasKey(incMap, p) || (incMarks[p] && p > c.Commit) || hasKey(snapMap, p) || marks[p] {
			wantNZ++
		}
	}
	if nz != wantNZ {
		v.violation = fmt.Sprintf("restored database has %d non-zero pages, source has %d", nz, wantNZ)
	}
	return
}

func hasKey(m map[uint32]int64, p uint32) bool { _, ok := m[p]; return ok }

func countNonZeroPages(f *os.File, ps int) (int, error) {
	if _, err := f.Seek(0, io.SeekStart); err != nil {
		return 0, err
	}
	const chunk = 1 << 22
	buf := make([]byte, chunk)
	n := 0
	for {
		k, err := io.ReadFull(f, buf)
		for i := 0; i+ps <= k; i += ps {
			if !isZero(buf[i : i+ps]) {
				n++
			}
		}
		if err == io.EOF || err == io.ErrUnexpectedEOF {
			return n, nil
		}
		if err != nil {
			return n, err
		}
	}
}

var pageSizes = []uint32{512, 1024, 2048, 4096, 8192, 16384, 32768, 65536}

func nearPages(r *hx.Rand, lock, commit uint32, withLock bool) []uint32 {
	set := map[uint32]bool{}
	for i := 0; i < 2+r.Intn(5); i++ {
		p := lock - 4 + uint32(r.Intn(9))
		if p >= 1 && p <= commit && (p != lock || withLock) {
			set[p] = true
		}
	}
	for i := 0; i < r.Intn(4); i++ {
		p := 1 + uint32(r.Intn(50))
		if p <= commit {
			set[p] = true
		}
	}
	var out []uint32
	for p := range set {
		out = append(out, p)
	}
	sort.Slice(out, func(i, j int) bool { return out[i] < out[j] })
	return out
}

func genWal(r *hx.Rand, ps uint32) Case {
	lock := ltx.LockPgno(ps)
	c := Case{Kind: "wal", PageSize: ps}
	switch r.Intn(7) {
	case 0: // growth across the boundary in one sync
		c.PrevCommit = lock - 1 - uint32(r.Intn(4))
		c.Commit = lock + uint32(r.Intn(5))
	case 1: // lock page is the last page
		c.PrevCommit = lock - uint32(r.Intn(3)) - 1
		c.Commit = lock
	case 2: // lock page just beyond
		c.PrevCommit = lock - 2 - uint32(r.Intn(3))
		c.Commit = lock - 1
	case 3: // already beyond, no growth
		c.PrevCommit = lock + 3
		c.Commit = lock + 3
	case 4: // shrink across the boundary
		c.PrevCommit = lock + 2
		c.Commit = lock - 1 - uint32(r.Intn(2))
	case 5: // growth starting exactly at the lock page
		c.PrevCommit = lock
		c.Commit = lock + 1 + uint32(r.Intn(3))
	default: // large growth from far below
		c.PrevCommit = lock - 300 - uint32(r.Intn(200))
		c.Commit = lock + uint32(r.Intn(200))
	}
	c.Map = nearPages(r, lock, c.Commit, r.Chance(6))
	// marks: growth pages and some others have content in the database file; lock page gets garbage
	for p := c.PrevCommit + 1; p <= c.Commit && p-c.PrevCommit < 600; p++ {
		if r.Chance(70) {
			c.Marks = append(c.Marks, p)
		}
	}
	if lock <= c.Commit {
		c.Marks = append(c.Marks, lock)
	}
	return c
}

func genSnap(r *hx.Rand, ps uint32, place int, then bool) Case {
	lock := ltx.LockPgno(ps)
	c := Case{Kind: "snapshot", PageSize: ps}
	switch place {
	case 0:
		c.Commit = lock + 1 + uint32(r.Intn(4)) // inside
	case 1:
		c.Commit = lock // last
	default:
		c.Commit = lock - 1 // just beyond
	}
	c.Map = nearPages(r, lock, c.Commit, false)
	c.Marks = []uint32{1, 2, lock - 1, lock, lock + 1, c.Commit}
	sort.Slice(c.Marks, func(i, j int) bool { return c.Marks[i] < c.Marks[j] })
	if then {
		t := Case{Kind: "wal", PageSize: ps}
		if place == 0 {
			t.Commit = c.Commit + uint32(r.Intn(3))
		} else {
			t.Commit = lock + 1 + uint32(r.Intn(3)) // growth across the boundary on top of the snapshot
		}
		t.Map = nearPages(r, lock, t.Commit, false)
		for p := c.Commit + 1; p <= t.Commit; p++ {
			t.Marks = append(t.Marks, p)
		}
		c.Then = &t
	}
	return c
}

// genSnapFile: the database FILE is shorter than (0) / exactly at (1) / just past (2) the lock page
// while the committed size (from the WAL) is beyond it: every page past the file is in the WAL map.
func genSnapFile(r *hx.Rand, ps uint32, place int) Case {
	lock := ltx.LockPgno(ps)
	c := Case{Kind: "snapshot", PageSize: ps, Commit: lock + 1 + uint32(r.Intn(4))}
	switch place {
	case 0:
		c.FilePages = lock - 2 - uint32(r.Intn(4))
	case 1:
		c.FilePages = lock - 1
	default:
		c.FilePages = lock
	}
	set := map[uint32]bool{}
	for _, p := range nearPages(r, lock, c.FilePages, false) {
		set[p] = true
	}
	for p := c.FilePages + 1; p <= c.Commit; p++ {
		if p != lock {
			set[p] = true
		}
	}
	for p := range set {
		c.Map = append(c.Map, p)
	}
	sort.Slice(c.Map, func(i, j int) bool { return c.Map[i] < c.Map[j] })
	for _, p := range []uint32{1, 2, c.FilePages - 1, c.FilePages, lock} {
		if p <= c.FilePages {
			c.Marks = append(c.Marks, p)
		}
	}
	sort.Slice(c.Marks, func(i, j int) bool { return c.Marks[i] < c.Marks[j] })
	return c
}

func sigOf(v string) string {
	switch {
	case strings.Contains(v, "contains the lock page"):
		return "lock-page-in-file"
	case strings.Contains(v, "lock page") && strings.Contains(v, "not empty"):
		return "lock-page-not-empty"
	case strings.Contains(v, "follower database is"):
		return "size"
	case strings.Contains(v, "lock page") && strings.Contains(v, "missing"):
		return "lock-page-missing"
	case strings.Contains(v, "fails"), strings.Contains(v, "did not reach"), strings.Contains(v, "stopped before"):
		return "operation-fails"
	case strings.Contains(v, "holds pages"):
		return "page-set"
	}
	return "page-content"
}

// ---- real SQLite, database FILE below / at / just past the lock page while the WAL is beyond it ----

// ShortCase: a real SQLite database whose file has BasePages pages (sparse, in-header page count
// patched) and whose uncheckpointed WAL grows it past the lock page; every full-database encoder
// of litestream then runs on it: variant "first-sync" (snapshot on first sync after open, then
// DB.Snapshot), variant "verify-snapshot" (a replicated database is checkpointed and grown across
// the lock page while litestream is stopped; the next sync finds a restarted WAL and re-snapshots).
type ShortCase struct {
	PageSize  uint32 `json:"page_size"`
	BasePages uint32 `json:"base_pages"`
	Variant   string `json:"variant"`
	Rows      int    `json:"rows"`
}

func (c ShortCase) canon() string { b, _ := json.Marshal(c); return "short|" + string(b) }

func genShort(r *hx.Rand, ps uint32, place int, variant string) ShortCase {
	lock := ltx.LockPgno(ps)
	c := ShortCase{PageSize: ps, Variant: variant}
	switch place {
	case 0:
		c.BasePages = lock - 2 - uint32(r.Intn(5)) // file ends below the lock page
	case 1:
		c.BasePages = lock - 1 // file is exactly 1 GiB
	default:
		c.BasePages = lock // file ends with the lock page
	}
	if variant == "verify-snapshot" {
		// litestream's own two bookkeeping tables add two pages before the checkpoint: the
		// checkpointed file then has lock-1 (exactly 1 GiB) or lock-3 pages
		c.BasePages = lock - 3 - uint32(r.Intn(2)*2)
	}
	// enough rows of ~0.9 page each to get well past the lock page
	c.Rows = 12 + r.Intn(10)
	if ps < 65536 {
		c.Rows = int(uint32(c.Rows) * (65536 / ps))
	}
	return c
}

func runShort(c ShortCase, root string) (violation string, stats map[string]int) {
	stats = map[string]int{}
	ctx := context.Background()
	dir, err := os.MkdirTemp(root, "short")
	if err != nil {
		hx.Fatal(err)
	}
	defer os.RemoveAll(dir)
	ps := int(c.PageSize)
	lock := ltx.LockPgno(c.PageSize)
	dbPath := filepath.Join(dir, "db")
	open := func() *sql.DB {
		d, err := sql.Open("sqlite", dbPath)
		if err != nil {
			hx.Fatal(err)
		}
		d.SetMaxOpenConns(1)
		return d
	}
	must := func(d *sql.DB, q string) {
		if _, err := d.Exec(q); err != nil {
			hx.Fatal(fmt.Errorf("%s: %w", q, err))
		}
	}
	// 1. small rollback-mode database, then extend it sparsely and patch the in-header page count
	app := open()
	must(app, fmt.Sprintf("PRAGMA page_size = %d", ps))
	must(app, "CREATE TABLE t (id INTEGER PRIMARY KEY, b BLOB)")
	must(app, "INSERT INTO t (b) VALUES (randomblob(300))")
	app.Close()
	f, err := os.OpenFile(dbPath, os.O_RDWR, 0)
	if err != nil {
		hx.Fatal(err)
	}
	if err := f.Truncate(int64(c.BasePages) * int64(ps)); err != nil {
		hx.Fatal(err)
	}
	var n [4]byte
	binary.BigEndian.PutUint32(n[:], c.BasePages)
	if _, err := f.WriteAt(n[:], 28); err != nil {
		hx.Fatal(err)
	}
	f.Close()
	app = open()
	defer app.Close()
	var mode string
	if err := app.QueryRow("PRAGMA journal_mode = wal").Scan(&mode); err != nil || mode != "wal" {
		hx.Fatal(fmt.Errorf("journal_mode=%q: %v", mode, err))
	}
	must(app, "PRAGMA wal_autocheckpoint = 0")
	grow := func() uint32 {
		for i := 0; i < c.Rows; i++ {
			must(app, fmt.Sprintf("INSERT INTO t (b) VALUES (randomblob(%d))", ps*9/10))
		}
		var pc uint32
		if err := app.QueryRow("PRAGMA page_count").Scan(&pc); err != nil {
			hx.Fatal(err)
		}
		return pc
	}
	filePagesNow := func() uint32 {
		fi, err := os.Stat(dbPath)
		if err != nil {
			hx.Fatal(err)
		}
		return uint32(fi.Size() / int64(ps))
	}
	replicaDir := filepath.Join(dir, "replica")
	client := file.NewReplicaClient(replicaDir)
	newDB := func() *litestream.DB {
		db := litestream.NewDB(dbPath)
		db.MonitorInterval = 0
		db.Replica = litestream.NewReplicaWithClient(db, client)
		db.Replica.MonitorEnabled = false
		db.ShutdownSyncTimeout = 0
		db.SetLogger(quiet)
		return db
	}
	where := fmt.Sprintf("page size %d, database file %d pages, lock page %d", ps, c.BasePages, lock)

	var db *litestream.DB
	if c.Variant == "verify-snapshot" {
		// replicate the below-lock database first, stop litestream, checkpoint, grow across the lock page
		must(app, "INSERT INTO t (b) VALUES (randomblob(100))")
		db = newDB()
		if err := db.Open(); err != nil {
			hx.Fatal(err)
		}
		for i := 0; i < 2; i++ {
			if err := db.Sync(ctx); err != nil {
				db.Close(ctx)
				return fmt.Sprintf("sync of the database below the lock page fails (%s): %v", where, err), stats
			}
			if err := db.Replica.Sync(ctx); err != nil {
				db.Close(ctx)
				return fmt.Sprintf("replica sync fails (%s): %v", where, err), stats
			}
			must(app, "UPDATE t SET b = randomblob(120) WHERE id = 1")
		}
		if err := db.Sync(ctx); err == nil {
			db.Replica.Sync(ctx)
		}
		db.Close(ctx)
		var busy, a, b int
		if err := app.QueryRow("PRAGMA wal_checkpoint(TRUNCATE)").Scan(&busy, &a, &b); err != nil || busy != 0 {
			stats["setup-miss:checkpoint-busy"]++
			return "", stats
		}
	}
	pageCount := grow()
	fp := filePagesNow()
	if pageCount <= lock {
		stats["setup-miss:did-not-cross"]++
		return "", stats
	}
	switch {
	case fp < lock-1:
		stats["file-below-lock"]++
	case fp == lock-1:
		stats["file-exactly-1GiB"]++
	case fp == lock:
		stats["file-ends-with-lock-page"]++
	default:
		stats["file-beyond-lock"]++
	}
	db = newDB()
	if err := db.Open(); err != nil {
		hx.Fatal(err)
	}
	closed := false
	defer func() {
		if !closed {
			db.Close(ctx)
		}
	}()
	what := "first sync after open (snapshot)"
	if c.Variant == "verify-snapshot" {
		what = "sync after the WAL was restarted while litestream was stopped (verify-triggered snapshot)"
	}
	if err := db.Sync(ctx); err != nil {
		return fmt.Sprintf("%s fails with the growth across the lock page still in the WAL (%s, %d pages committed): %v", what, where, pageCount, err), stats
	}
	if err := db.Replica.Sync(ctx); err != nil {
		return fmt.Sprintf("replica sync fails (%s): %v", where, err), stats
	}
	// litestream's first sync may itself add pages (its bookkeeping tables): re-read the committed size
	if err := app.QueryRow("PRAGMA page_count").Scan(&pageCount); err != nil {
		hx.Fatal(err)
	}
	// was the newest L0 file a full snapshot?
	if pos, err := db.Pos(); err == nil {
		if pg, _, err := scanLTX(client.LTXFilePath(0, pos.TXID, pos.TXID), func(uint32, []byte) string { return "" }); err == nil {
			if uint32(len(pg)) == pageCount-1 {
				stats["l0-full-snapshot"]++
			} else {
				stats["l0-incremental"]++
			}
		}
	}
	if _, err := db.Snapshot(ctx); err != nil {
		return fmt.Sprintf("DB.Snapshot fails with the growth across the lock page still in the WAL (%s, %d pages committed): %v", where, pageCount, err), stats
	}
	// SnapshotReader (what remote snapshot uploads stream): must be a decodable snapshot without the lock page
	if _, rd, err := db.SnapshotReader(ctx); err != nil {
		return fmt.Sprintf("DB.SnapshotReader fails (%s): %v", where, err), stats
	} else {
		dec := ltx.NewDecoder(rd)
		var cnt countWriter
		derr := dec.DecodeDatabaseTo(&cnt)
		rd.Close()
		if derr != nil {
			return fmt.Sprintf("DB.SnapshotReader stream does not decode (%s): %v", where, derr), stats
		}
		if err := app.QueryRow("PRAGMA page_count").Scan(&pageCount); err != nil {
			hx.Fatal(err)
		}
		if cnt.n != int64(pageCount)*int64(ps) {
			return fmt.Sprintf("DB.SnapshotReader stream decodes to %d bytes, expected %d pages (%s)", cnt.n, pageCount, where), stats
		}
		stats["snapshot-reader-ok"]++
	}
	if fp2 := filePagesNow(); fp2 != fp {
		stats["file-grew-during-run"]++
	}
	// no replicated file may contain the lock page
	for _, lvl := range []int{0, litestream.SnapshotLevel} {
		itr, err := client.LTXFiles(ctx, lvl, 0, false)
		if err != nil {
			hx.Fatal(err)
		}
		for itr.Next() {
			info := itr.Item()
			pgnos, _, err := scanLTX(client.LTXFilePath(info.Level, info.MinTXID, info.MaxTXID), func(uint32, []byte) string { return "" })
			if err != nil {
				itr.Close()
				return fmt.Sprintf("file L%d %d-%d unreadable (%s): %v", lvl, info.MinTXID, info.MaxTXID, where, err), stats
			}
			stats[fmt.Sprintf("files-L%d", lvl)]++
			for _, p := range pgnos {
				if p == lock {
					itr.Close()
					return fmt.Sprintf("file L%d %d-%d contains the lock page %d (%s)", lvl, info.MinTXID, info.MaxTXID, p, where), stats
				}
			}
		}
		itr.Close()
	}
	// restore (latest, and the snapshot alone) and compare with the source = file overlaid by the committed WAL
	for _, plan := range []string{"latest", "snapshot-only"} {
		out := filepath.Join(dir, "restored-"+plan)
		opt := litestream.NewRestoreOptions()
		opt.OutputPath = out
		if plan == "snapshot-only" {
			itr, _ := client.LTXFiles(ctx, litestream.SnapshotLevel, 0, false)
			for itr.Next() {
				opt.TXID = itr.Item().MaxTXID
			}
			itr.Close()
		}
		if err := db.Replica.Restore(ctx, opt); err != nil {
			return fmt.Sprintf("restore (%s) fails (%s): %v", plan, where, err), stats
		}
		why := compareFiles(dbPath, out, ps, lock)
		os.Remove(out)
		if why != "" {
			return fmt.Sprintf("restore (%s): %s (%s)", plan, why, where), stats
		}
		stats["restore-"+plan+"-ok"]++
	}
	closed = true
	if err := db.Close(ctx); err != nil {
		stats["close-error"]++
	}
	return "", stats
}

type countWriter struct{ n int64 }

func (c *countWriter) Write(b []byte) (int, error) { c.n += int64(len(b)); return len(b), nil }

// ---- follow-mode restore over synthesised LTX replicas crossing the lock page ----

// FStep is one LTX file published to the replica: it moves the database to Commit pages.
// Level 0 = one L0 file (one TXID); Level 1 = one level-1 file spanning two TXIDs with no L0 files
// for them (the follower must bridge the gap from the higher level).
type FStep struct {
	Commit uint32 `json:"commit"`
	Level  int    `json:"level"`
}

// FollowCase: Steps[0] is the snapshot (TXID 1). The first Initial steps are on the replica
// before `Restore(Follow=true)` starts (they form the initial restore); the remaining ones are
// published one at a time and must be applied by the follow loop.
type FollowCase struct {
	PageSize uint32  `json:"page_size"`
	Initial  int     `json:"initial"`
	Steps    []FStep `json:"steps"`
}

func (c FollowCase) canon() string { b, _ := json.Marshal(c); return "follow|" + string(b) }

func genFollow(r *hx.Rand, ps uint32, kind int) FollowCase {
	lock := ltx.LockPgno(ps)
	small := uint32(2 + r.Intn(3))
	c := FollowCase{PageSize: ps, Initial: 1}
	L := func(commit uint32, level int) FStep { return FStep{Commit: commit, Level: level} }
	switch kind {
	case 0: // everything through the follow loop, L0 files: one-file jump from a small database to the lock page as last page
		c.Steps = []FStep{L(small, 0), L(lock, 0), L(lock+1, 0), L(lock-1, 0), L(lock, 0), L(lock+3, 0), L(lock, 0), L(small, 0)}
	case 1: // the initial restore itself ends on the lock page; later files come from level 1 (gap fill)
		c.Initial = 2
		c.Steps = []FStep{L(small, 0), L(lock, 0), L(lock+1, 1), L(lock-1, 1), L(lock, 1), L(lock+3, 0), L(lock-1, 0)}
	case 2: // one-file jump to just beyond / inside, then onto the lock page by growth of one page
		c.Steps = []FStep{L(small, 0), L(lock-1, 0), L(lock, 0), L(lock+1, 1), L(lock, 0)}
	case 3:
		c.Steps = []FStep{L(small, 0), L(lock+3, 0), L(small, 0), L(lock, 1), L(lock+1, 0)}
	default:
		c.Initial = 2
		c.Steps = []FStep{L(small, 0), L(lock+1, 0), L(lock, 0), L(lock-1, 1), L(lock, 1)}
	}
	return c
}

// followPage builds the image of page p written by transaction txid (page 1 is a SQLite header
// good enough for the follower: page size at offset 16, page count at offset 28).
func followPage(buf []byte, ps uint32, p uint32, txid uint64, commit uint32) {
	fill(buf, byte('a'+txid%26), p)
	if p == 1 {
		copy(buf, "SQLite format 3\x00")
		code := ps
		if ps == 65536 {
			code = 1
		}
		binary.BigEndian.PutUint16(buf[16:], uint16(code))
		buf[18], buf[19] = 2, 2
		binary.BigEndian.PutUint32(buf[24:], uint32(txid))
		binary.BigEndian.PutUint32(buf[28:], commit)
	}
}

func runFollow(c FollowCase, root string) (violation string, stats map[string]int) {
	stats = map[string]int{}
	dir, err := os.MkdirTemp(root, "follow")
	if err != nil {
		hx.Fatal(err)
	}
	defer os.RemoveAll(dir)
	ps := c.PageSize
	lock := ltx.LockPgno(ps)
	client := file.NewReplicaClient(filepath.Join(dir, "replica"))
	bg := context.Background()
	where := fmt.Sprintf("page size %d, lock page %d", ps, lock)

	// expected image: non-zero pages only
	expect := map[uint32][]byte{}
	var commit uint32
	txid := uint64(0)
	zero := make([]byte, ps)

	// publish writes the LTX file(s) of one step with the real encoder and updates the expectation.
	publish := func(st FStep) ltx.TXID {
		prev := commit
		minTx := txid + 1
		maxTx := minTx
		if st.Level == 1 {
			maxTx = minTx + 1
		}
		var buf bytes.Buffer
		enc, err := ltx.NewEncoder(&buf)
		if err != nil {
			hx.Fatal(err)
		}
		if err := enc.EncodeHeader(ltx.Header{Version: ltx.Version, Flags: ltx.HeaderFlagNoChecksum, PageSize: ps, Commit: st.Commit,
			MinTXID: ltx.TXID(minTx), MaxTXID: ltx.TXID(maxTx), Timestamp: 1700000000000 + int64(maxTx)}); err != nil {
			hx.Fatal(err)
		}
		// pages: page 1 always; every growth page (growth-complete, as litestream writes them), a few of
		// them and one existing page with content; never the lock page (the encoder refuses it anyway)
		content := map[uint32]bool{1: true}
		if m := minU32(prev, st.Commit); m >= 2 {
			content[2+uint32(maxTx)%(m-1)] = true // one already existing page is rewritten
		} else if prev == 0 && st.Commit >= 2 {
			content[2] = true
		}
		for _, p := range []uint32{lock - 1, lock + 1, 65536, 65537, 65538, st.Commit} {
			if p > prev && p <= st.Commit && p != lock {
				content[p] = true
			}
		}
		page := make([]byte, ps)
		emit := func(p uint32) {
			if p == lock || p == 0 || p > st.Commit {
				return
			}
			if content[p] {
				followPage(page, ps, p, maxTx, st.Commit)
				expect[p] = append([]byte(nil), page...)
			} else {
				copy(page, zero)
				delete(expect, p)
			}
			if err := enc.EncodePage(ltx.PageHeader{Pgno: p}, page); err != nil {
				hx.Fatal(fmt.Errorf("encode page %d: %w", p, err))
			}
		}
		if minTx == 1 {
			for p := uint32(1); p <= st.Commit; p++ {
				emit(p)
			}
		} else {
			var ps_ []uint32
			for p := range content {
				if p <= prev && p <= st.Commit {
					ps_ = append(ps_, p)
				}
			}
			sort.Slice(ps_, func(i, j int) bool { return ps_[i] < ps_[j] })
			for _, p := range ps_ {
				emit(p)
			}
			for p := prev + 1; p <= st.Commit; p++ {
				emit(p)
			}
		}
		if err := enc.Close(); err != nil {
			hx.Fatal(err)
		}
		for p := range expect {
			if p > st.Commit {
				delete(expect, p)
			}
		}
		if _, err := client.WriteLTXFile(bg, st.Level, ltx.TXID(minTx), ltx.TXID(maxTx), bytes.NewReader(buf.Bytes())); err != nil {
			hx.Fatal(err)
		}
		commit = st.Commit
		txid = maxTx
		stats[fmt.Sprintf("published-L%d", st.Level)]++
		return ltx.TXID(maxTx)
	}

	out := filepath.Join(dir, "follower.db")
	// check compares the follower database with the expectation (and optionally a plain restore).
	check := func(when string, plain bool) string {
		f, err := os.Open(out)
		if err != nil {
			return fmt.Sprintf("follower database unreadable %s: %v", when, err)
		}
		defer f.Close()
		fi, _ := f.Stat()
		if want := int64(commit) * int64(ps); fi.Size() != want {
			return fmt.Sprintf("follower database is %d bytes (%d pages) %s, committed size is %d pages (%s)", fi.Size(), fi.Size()/int64(ps), when, commit, where)
		}
		got := make([]byte, ps)
		if lock <= commit {
			if _, err := f.ReadAt(got, int64(lock-1)*int64(ps)); err != nil {
				return fmt.Sprintf("follower lock page %d missing %s: %v (%s)", lock, when, err, where)
			}
			if !isZero(got) {
				return fmt.Sprintf("follower lock page %d is not empty %s (%s)", lock, when, where)
			}
			stats["lock-page-present-and-empty"]++
		}
		mask := func(b []byte, p uint32) {
			if p == 1 {
				b[18], b[19] = 0, 0
				copy(b[24:28], []byte{0, 0, 0, 0})
			}
		}
		for p, want := range expect {
			if _, err := f.ReadAt(got, int64(p-1)*int64(ps)); err != nil {
				return fmt.Sprintf("follower page %d unreadable %s: %v", p, when, err)
			}
			w := append([]byte(nil), want...)
			mask(w, p)
			mask(got, p)
			if !bytes.Equal(got, w) {
				return fmt.Sprintf("follower page %d differs from the replicated state %s (%s)", p, when, where)
			}
		}
		nz, err := countNonZeroPages(f, int(ps))
		if err != nil {
			hx.Fatal(err)
		}
		if nz != len(expect) {
			return fmt.Sprintf("follower database has %d non-zero pages %s, replicated state has %d (%s)", nz, when, len(expect), where)
		}
		if !plain {
			return ""
		}
		// reference: a plain restore to the follower's TXID
		ref := filepath.Join(dir, "plain.db")
		defer os.Remove(ref)
		opt := litestream.NewRestoreOptions()
		opt.OutputPath = ref
		opt.TXID = ltx.TXID(txid)
		if err := litestream.NewReplicaWithClient(nil, client).Restore(bg, opt); err != nil {
			return fmt.Sprintf("plain Restore(TXID=%d) fails %s: %v (%s)", txid, when, err, where)
		}
		g, err := os.Open(ref)
		if err != nil {
			hx.Fatal(err)
		}
		defer g.Close()
		gi, _ := g.Stat()
		if gi.Size() != fi.Size() {
			return fmt.Sprintf("follower database is %d bytes, plain Restore(TXID=%d) gives %d bytes %s (%s)", fi.Size(), txid, gi.Size(), when, where)
		}
		a, b := make([]byte, 1<<20), make([]byte, 1<<20)
		f.Seek(0, io.SeekStart)
		for off := int64(0); off < gi.Size(); off += int64(len(a)) {
			n1, _ := io.ReadFull(f, a)
			n2, _ := io.ReadFull(g, b)
			if off == 0 && n1 >= 28 && n2 >= 28 {
				mask(a, 1)
				mask(b, 1)
			}
			if n1 != n2 || !bytes.Equal(a[:n1], b[:n2]) {
				return fmt.Sprintf("follower database differs from plain Restore(TXID=%d) near byte %d %s (%s)", txid, off, when, where)
			}
		}
		stats["plain-restore-compared"]++
		return ""
	}

	for i := 0; i < c.Initial && i < len(c.Steps); i++ {
		publish(c.Steps[i])
	}
	ctx, cancel := context.WithCancel(bg)
	done := make(chan error, 1)
	go func() {
		opt := litestream.NewRestoreOptions()
		opt.OutputPath = out
		opt.Follow = true
		opt.FollowInterval = 20 * time.Millisecond
		rep := litestream.NewReplicaWithClient(nil, client)
		done <- rep.Restore(ctx, opt)
	}()
	stop := func() {
		cancel()
		select {
		case <-done:
		case <-time.After(60 * time.Second):
		}
	}
	defer stop()
	waitFor := func(target ltx.TXID) string {
		deadline := time.Now().Add(240 * time.Second)
		for time.Now().Before(deadline) {
			select {
			case err := <-done:
				done <- err
				return fmt.Sprintf("follow-mode restore stopped before reaching TXID %d: %v (%s)", target, err, where)
			default:
			}
			if t, err := litestream.ReadTXIDFile(out); err == nil && t >= target {
				return ""
			}
			time.Sleep(15 * time.Millisecond)
		}
		return fmt.Sprintf("follow-mode restore did not reach TXID %d within 240 s (committed size %d pages, %s)", target, commit, where)
	}
	if why := waitFor(ltx.TXID(txid)); why != "" {
		return why, stats
	}
	if why := check(fmt.Sprintf("after the initial restore to TXID %d (%d pages)", txid, commit), commit >= lock-1); why != "" {
		return why, stats
	}
	stats["initial-restore-ok"]++
	plainLeft := 2
	for i := c.Initial; i < len(c.Steps); i++ {
		st := c.Steps[i]
		prev := commit
		target := publish(st)
		if why := waitFor(target); why != "" {
			return why, stats
		}
		plain := false
		if plainLeft > 0 && (st.Commit == lock && prev < lock || i == len(c.Steps)-1) {
			plain = true
			plainLeft--
		}
		how := "L0 file"
		if st.Level == 1 {
			how = "level-1 gap-fill file"
		}
		if why := check(fmt.Sprintf("after the follow loop applied the %s for TXID %d (%d -> %d pages)", how, target, prev, st.Commit), plain); why != "" {
			stats["failed-step"] = i + 1
			return why, stats
		}
		switch {
		case st.Commit == lock:
			stats["applied:lock-last"]++
		case st.Commit > lock:
			stats["applied:lock-inside"]++
		case st.Commit == lock-1:
			stats["applied:lock-just-beyond"]++
		default:
			stats["applied:small"]++
		}
	}
	return "", stats
}

func minU32(a, b uint32) uint32 {
	if a < b {
		return a
	}
	return b
}

// ---- thorough: one real SQLite database > 1 GiB (page size 65536) end to end ----

func realBig(res *hx.Result, root string) {
	ctx := context.Background()
	dir, err := os.MkdirTemp(root, "big")
	if err != nil {
		hx.Fatal(err)
	}
	defer os.RemoveAll(dir)
	const ps = 65536
	lock := ltx.LockPgno(ps)
	dbPath := filepath.Join(dir, "db")
	app, err := sql.Open("sqlite", dbPath)
	if err != nil {
		hx.Fatal(err)
	}
	defer app.Close()
	app.SetMaxOpenConns(1)
	must := func(q string) {
		if _, err := app.Exec(q); err != nil {
			hx.Fatal(fmt.Errorf("%s: %w", q, err))
		}
	}
	must("PRAGMA page_size=65536")
	must("PRAGMA journal_mode=OFF")
	must("PRAGMA synchronous=OFF")
	must("CREATE TABLE t (id INTEGER PRIMARY KEY, v BLOB)")
	// fill to just below the lock page without a journal (fast), then switch to WAL
	must("BEGIN")
	for {
		must("INSERT INTO t (v) VALUES (zeroblob(65000))")
		var n int
		app.QueryRow("PRAGMA page_count").Scan(&n)
		if uint32(n) >= lock-8 {
			break
		}
	}
	must("COMMIT")
	must("PRAGMA journal_mode=wal")
	must("PRAGMA wal_autocheckpoint=0")
	must("PRAGMA synchronous=NORMAL")
	db := litestream.NewDB(dbPath)
	db.MonitorInterval = 0
	client := file.NewReplicaClient(filepath.Join(dir, "replica"))
	db.Replica = litestream.NewReplicaWithClient(db, client)
	db.Replica.MonitorEnabled = false
	db.SetLogger(quiet)
	if err := db.Open(); err != nil {
		hx.Fatal(err)
	}
	defer db.Close(ctx)
	fail := func(what string) {
		res.AddFinding("violation", "C17/real-"+sigOf(what), what, map[string]any{"stream": "real-sqlite", "page_size": ps})
	}
	step := func(name string, f func() error) bool {
		if err := f(); err != nil {
			fail(fmt.Sprintf("real >1 GiB database: %s fails: %v", name, err))
			return false
		}
		return true
	}
	syncAll := func() error {
		if err := db.Sync(ctx); err != nil {
			return err
		}
		return db.Replica.Sync(ctx)
	}
	if !step("initial sync (snapshot below the lock page)", syncAll) {
		return
	}
	// grow across the lock page in one transaction => one incremental sync with growth over the boundary
	must("BEGIN")
	for i := 0; i < 24; i++ {
		must("INSERT INTO t (v) VALUES (randomblob(65000))")
	}
	must("COMMIT")
	var n int
	app.QueryRow("PRAGMA page_count").Scan(&n)
	res.Notes = append(res.Notes, fmt.Sprintf("real database: %d pages of 65536 after growth (lock page %d)", n, lock))
	if uint32(n) <= lock {
		fail("real database did not grow past the lock page")
		return
	}
	if !step("incremental sync with growth across the lock page", syncAll) {
		return
	}
	must("UPDATE t SET v = randomblob(100) WHERE id = 3")
	if !step("sync", syncAll) {
		return
	}
	if !step("compaction to level 1", func() error { _, err := db.Compact(ctx, 1); return err }) {
		return
	}
	if !step("snapshot", func() error { _, err := db.Snapshot(ctx); return err }) {
		return
	}
	// no file may contain the lock page
	for _, lvl := range []int{0, 1, litestream.SnapshotLevel} {
		itr, err := client.LTXFiles(ctx, lvl, 0, false)
		if err != nil {
			hx.Fatal(err)
		}
		for itr.Next() {
			info := itr.Item()
			pgnos, _, err := scanLTX(client.LTXFilePath(info.Level, info.MinTXID, info.MaxTXID), func(uint32, []byte) string { return "" })
			if err != nil {
				fail(fmt.Sprintf("real database: file L%d %d-%d unreadable: %v", lvl, info.MinTXID, info.MaxTXID, err))
				return
			}
			res.Count(fmt.Sprintf("real:files-L%d", lvl))
			for _, p := range pgnos {
				if p == lock {
					fail(fmt.Sprintf("real database: file L%d %d-%d contains the lock page %d", lvl, info.MinTXID, info.MaxTXID, p))
					return
				}
			}
		}
		itr.Close()
	}
	// checkpoint so that the database file alone is the source image
	if !step("checkpoint", func() error { return db.Checkpoint(ctx, litestream.CheckpointModeTruncate) }) {
		return
	}
	if !step("final sync", syncAll) {
		return
	}
	for _, plan := range []string{"latest", "snapshot-only"} {
		out := filepath.Join(dir, "restored-"+plan)
		opt := litestream.NewRestoreOptions()
		opt.OutputPath = out
		if plan == "snapshot-only" {
			// restore to the snapshot's TXID: plan = the level-9 file alone
			itr, _ := client.LTXFiles(ctx, litestream.SnapshotLevel, 0, false)
			for itr.Next() {
				opt.TXID = itr.Item().MaxTXID
			}
			itr.Close()
		}
		if !step("restore ("+plan+")", func() error { return db.Replica.Restore(ctx, opt) }) {
			return
		}
		if plan == "latest" {
			if why := compareFiles(dbPath, out, ps, lock); why != "" {
				fail("real >1 GiB database: " + why)
				os.Remove(out)
				return
			}
		} else {
			// lock page must be zero; size must be whole pages
			f, err := os.Open(out)
			if err != nil {
				hx.Fatal(err)
			}
			b := make([]byte, ps)
			if _, err := f.ReadAt(b, int64(lock-1)*ps); err == nil && !isZero(b) {
				fail("real >1 GiB database: restored lock page is not empty (snapshot plan)")
			}
			f.Close()
		}
		os.Remove(out)
		res.Case("real|"+plan, true)
		res.Count("real:restore-" + plan)
	}
}

// walOverlay returns the committed page images of the live WAL (frames whose salts match the
// header, up to the last commit frame): the source database is the file overlaid by these.
func walOverlay(walPath string, ps int) (map[uint32][]byte, uint32) {
	b, err := os.ReadFile(walPath)
	if err != nil || len(b) < litestream.WALHeaderSize {
		return nil, 0
	}
	salt := b[16:24]
	frame := litestream.WALFrameHeaderSize + ps
	pending := map[uint32][]byte{}
	out := map[uint32][]byte{}
	var commit uint32
	for off := litestream.WALHeaderSize; off+frame <= len(b); off += frame {
		h := b[off : off+litestream.WALFrameHeaderSize]
		if !bytes.Equal(h[8:16], salt) {
			break
		}
		pgno := binary.BigEndian.Uint32(h[0:])
		pending[pgno] = b[off+litestream.WALFrameHeaderSize : off+frame]
		if sz := binary.BigEndian.Uint32(h[4:]); sz != 0 {
			for k, v := range pending {
				out[k] = v
			}
			pending = map[uint32][]byte{}
			commit = sz
		}
	}
	return out, commit
}

func compareFiles(src, dst string, ps int, lock uint32) string {
	overlay, wcommit := walOverlay(src+"-wal", ps)
	a, err := os.Open(src)
	if err != nil {
		return err.Error()
	}
	defer a.Close()
	b, err := os.Open(dst)
	if err != nil {
		return err.Error()
	}
	defer b.Close()
	sa, _ := a.Stat()
	sb, _ := b.Stat()
	srcSize := sa.Size()
	if wcommit != 0 {
		srcSize = int64(wcommit) * int64(ps)
	}
	if srcSize != sb.Size() {
		return fmt.Sprintf("restored size %d != source size %d", sb.Size(), srcSize)
	}
	x, y := make([]byte, ps), make([]byte, ps)
	for p := uint32(1); int64(p)*int64(ps) <= srcSize; p++ {
		for i := range x {
			x[i] = 0
		}
		if int64(p)*int64(ps) <= sa.Size() {
			if _, err := a.ReadAt(x, int64(p-1)*int64(ps)); err != nil {
				return err.Error()
			}
		}
		if w, ok := overlay[p]; ok {
			copy(x, w)
		}
		if _, err := io.ReadFull(b, y); err != nil {
			return err.Error()
		}
		if p == lock {
			if !isZero(y) {
				return fmt.Sprintf("restored lock page %d is not empty", p)
			}
			continue
		}
		if !bytes.Equal(x, y) {
			return fmt.Sprintf("restored page %d differs from the source", p)
		}
	}
	return ""
}

func main() {
	o := hx.ParseFlags("C17")
	slog.SetDefault(quiet) // a Replica without a DB logs through the default logger
	res := hx.NewResult(o, "c17: real writeLTXFromDB/writeLTXFromWAL on sparse files across the lock page vs Lean emittedFromDB/emittedFromWAL + restore oracle")
	res.Rule = "beyond-4-GiB family (page size 65536, page 65537 = byte offset 2^32): incremental files whose growth pages lie just below / above the mark and one sparse snapshot of 65541+ pages with planted pages on both sides and distinct content in the low pages a 32-bit offset would alias, each page image compared with its source and the snapshot restored and compared; thorough adds a real SQLite database file > 4 GiB (first sync, Snapshot, Restore compare) and a follow-mode follower growing beyond 4 GiB; follow-mode family: Restore(Follow=true) over synthesised growth-complete LTX replicas (real ltx.Encoder) whose database jumps in one applied file from a few pages to lockPgno-1 / lockPgno / lockPgno+1 / lockPgno+3 and shrinks back across the boundary, as initial restore, as L0 files applied by the follow loop and as level-1 gap-fill files; after every applied file: follower size = commit*pageSize, lock page present and zero, every page equals the replicated state, and (at lock-page-last states and at the end) byte-equal to a plain Restore(TXID=sidecar); file-vs-WAL family: database FILE below / exactly at / just past the lock page while the WAL's commit size is beyond it, on the hook-level snapshot writer (sparse files) and on real SQLite databases (sparse file with patched header page count, growth across the lock page in the uncheckpointed WAL) through first sync after open, verify-triggered re-snapshot after a WAL restart, DB.Snapshot, DB.SnapshotReader, Restore (latest and snapshot-only) with page compare and lock-page scan of every replicated file; incremental path: for each of the 8 page sizes, seeded cases with (prevCommit, commit) placing the lock page inside / last / just beyond / growth across the boundary in one sync / shrink across it / growth from the lock page, WAL page sets around the boundary (rarely including the lock page itself: expected encoder refusal); snapshot path: sparse databases of 1 GiB+ with the lock page inside / last / just beyond, optionally followed by an incremental file growing across the boundary, restored through ltx.Compactor + DecodeDatabaseTo and compared at every page. thorough adds all page sizes for the snapshot path and one real SQLite database > 1 GiB (page size 65536). non-trivial = every case; distinct = canonical JSON"
	root, err := os.MkdirTemp("", "c17-")
	if err != nil {
		hx.Fatal(err)
	}
	defer os.RemoveAll(root)
	drv, err := hx.StartDriver(o.Driver)
	if err != nil {
		hx.Fatal(err)
	}
	defer drv.Close()

	record := func(c Case, v verdict, secs float64) bool {
		res.Case(c.canon(), true)
		res.Count(fmt.Sprintf("%s:ps=%d", c.Kind, c.PageSize))
		lock := ltx.LockPgno(c.PageSize)
		switch {
		case c.Commit > lock:
			res.Count(c.Kind + ":lock-inside")
		case c.Commit == lock:
			res.Count(c.Kind + ":lock-last")
		default:
			res.Count(c.Kind + ":lock-beyond")
		}
		if c.Kind == "wal" && c.PrevCommit < lock && c.Commit >= lock {
			res.Count("wal:growth-across-boundary")
		}
		if c.Then != nil {
			res.Count("snapshot:then-incremental")
		}
		if v.violation != "" {
			res.AddFinding("violation", "C17/"+sigOf(v.violation), v.violation, map[string]any{"case": c})
		}
		if v.disagree != "" {
			res.DisagreementsChecked++
			res.AddFinding("disagreement", "C17/model-vs-impl", v.disagree, map[string]any{"case": c})
		}
		if c.Kind == "snapshot" {
			res.Sample(map[string]any{"kind": c.Kind, "page_size": c.PageSize, "commit": c.Commit, "lock": lock, "then": c.Then != nil, "seconds": secs})
		}
		return v.violation == "" && v.disagree == ""
	}
	eval := func(c Case) bool {
		t0 := time.Now()
		v := run(c, drv, root)
		return record(c, v, time.Since(t0).Seconds())
	}
	// evalPar runs the (slow, ~1 GiB each) snapshot cases concurrently, each with its own driver.
	recordShort := func(c ShortCase, v string, stats map[string]int, secs float64) {
		res.Case(c.canon(), true)
		res.Count(fmt.Sprintf("real-short:%s:ps=%d", c.Variant, c.PageSize))
		for k, n := range stats {
			res.Distribution["real-short:"+k] += n
		}
		res.Sample(map[string]any{"kind": "real-short", "variant": c.Variant, "page_size": c.PageSize, "base_pages": c.BasePages, "seconds": secs})
		if v != "" {
			res.AddFinding("violation", "C17/real-"+sigOf(v), v, map[string]any{"short": c})
		}
	}
	recordFollow := func(c FollowCase, v string, stats map[string]int, secs float64) {
		res.Case(c.canon(), true)
		res.Count(fmt.Sprintf("follow:ps=%d", c.PageSize))
		for k, n := range stats {
			if k != "failed-step" {
				res.Distribution["follow:"+k] += n
			}
		}
		res.Sample(map[string]any{"kind": "follow", "page_size": c.PageSize, "initial": c.Initial, "steps": c.Steps, "seconds": secs})
		if v != "" {
			mc := c
			if n := stats["failed-step"]; n > 0 && n <= len(c.Steps) {
				mc.Steps = c.Steps[:n] // the steps after the failing one were never run
			}
			res.AddFinding("violation", "C17/follow-"+sigOf(v), v, map[string]any{"follow": mc, "original": c})
		}
	}
	// evalPar runs the slow (~1 GiB each) cases concurrently: hook-level snapshot cases (each with
	// its own driver) and real-SQLite short-file scenarios.
	evalPar := func(cs []Case, shorts []ShortCase, follows []FollowCase) {
		type out struct {
			v     verdict
			sv    string
			stats map[string]int
			secs  float64
		}
		outs := make([]out, len(cs)+len(shorts)+len(follows))
		var wg sync.WaitGroup
		sem := make(chan struct{}, 8)
		for i := 0; i < len(outs); i++ {
			wg.Add(1)
			go func(i int) {
				defer wg.Done()
				sem <- struct{}{}
				defer func() { <-sem }()
				t0 := time.Now()
				if i >= len(cs)+len(shorts) {
					v, st := runFollow(follows[i-len(cs)-len(shorts)], root)
					outs[i] = out{sv: v, stats: st, secs: time.Since(t0).Seconds()}
					return
				}
				if i >= len(cs) {
					v, st := runShort(shorts[i-len(cs)], root)
					outs[i] = out{sv: v, stats: st, secs: time.Since(t0).Seconds()}
					return
				}
				d, err := hx.StartDriver(o.Driver)
				if err != nil {
					hx.Fatal(err)
				}
				defer d.Close()
				outs[i] = out{v: run(cs[i], d, root), secs: time.Since(t0).Seconds()}
			}(i)
		}
		wg.Wait()
		for i, c := range cs {
			record(c, outs[i].v, outs[i].secs)
		}
		for i, c := range shorts {
			o := outs[len(cs)+i]
			recordShort(c, o.sv, o.stats, o.secs)
		}
		for i, c := range follows {
			o := outs[len(cs)+len(shorts)+i]
			recordFollow(c, o.sv, o.stats, o.secs)
		}
	}

	if o.Replay != "" {
		b, err := os.ReadFile(o.Replay)
		if err != nil {
			hx.Fatal(err)
		}
		var rf struct {
			Replay struct {
				Case   Case        `json:"case"`
				Short  *ShortCase  `json:"short"`
				Follow *FollowCase `json:"follow"`
			} `json:"replay"`
		}
		if err := json.Unmarshal(b, &rf); err != nil {
			hx.Fatal(err)
		}
		if rf.Replay.Follow != nil {
			v, st := runFollow(*rf.Replay.Follow, root)
			fmt.Printf("follow case: %s\nstats: %v\nviolation: %q\n", rf.Replay.Follow.canon(), st, v)
			if v != "" {
				os.Exit(1)
			}
			return
		}
		if rf.Replay.Short != nil {
			v, st := runShort(*rf.Replay.Short, root)
			fmt.Printf("real-short case: %s\nstats: %v\nviolation: %q\n", rf.Replay.Short.canon(), st, v)
			if v != "" {
				os.Exit(1)
			}
			return
		}
		v := run(rf.Replay.Case, drv, root)
		fmt.Printf("case: %s\nviolation: %q\ndisagreement: %q\n", rf.Replay.Case.canon(), v.violation, v.disagree)
		if v.violation != "" || v.disagree != "" {
			os.Exit(1)
		}
		return
	}
	if o.Corpus != "" {
		ents, _ := filepath.Glob(filepath.Join(o.Corpus, "*.json"))
		sort.Strings(ents)
		for _, p := range ents {
			b, err := os.ReadFile(p)
			if err != nil {
				continue
			}
			var rf struct {
				Replay struct {
					Case   Case        `json:"case"`
					Short  *ShortCase  `json:"short"`
					Follow *FollowCase `json:"follow"`
				} `json:"replay"`
			}
			if json.Unmarshal(b, &rf) != nil {
				continue
			}
			if rf.Replay.Follow != nil {
				res.Count("corpus")
				t0 := time.Now()
				v, st := runFollow(*rf.Replay.Follow, root)
				recordFollow(*rf.Replay.Follow, v, st, time.Since(t0).Seconds())
			} else if rf.Replay.Short != nil {
				res.Count("corpus")
				t0 := time.Now()
				v, st := runShort(*rf.Replay.Short, root)
				recordShort(*rf.Replay.Short, v, st, time.Since(t0).Seconds())
			} else if rf.Replay.Case.PageSize != 0 {
				res.Count("corpus")
				eval(rf.Replay.Case)
			}
		}
	}
	if os.Getenv("C17_REAL_ONLY") != "" {
		realBig(res, root)
		for _, f := range res.Findings {
			fmt.Println(f.Kind, f.Signature, f.What)
		}
		fmt.Println("real-only run done; findings:", len(res.Findings), res.Notes)
		return
	}
	rnd := hx.NewRand(o.Seed)
	nWal := 60
	snapSizes := []uint32{65536, 16384}
	if o.Tier == "thorough" {
		nWal = 400
		snapSizes = []uint32{65536, 32768, 16384, 8192, 4096, 2048, 1024, 512}
	}
	for _, ps := range pageSizes {
		for i := 0; i < nWal; i++ {
			eval(genWal(rnd, ps))
		}
	}
	var snaps []Case
	for i, ps := range snapSizes {
		if i == 0 || o.Tier == "thorough" {
			snaps = append(snaps, genSnap(rnd, ps, 0, true), genSnap(rnd, ps, 1, true), genSnap(rnd, ps, 2, true))
		} else {
			_ = i // quick: the second page size is covered by a short-file case below
		}
	}
	// database FILE below / exactly at / just past the lock page while the WAL's commit is beyond it
	var shorts []ShortCase
	if o.Tier == "thorough" {
		for _, ps := range []uint32{65536, 32768, 4096} {
			for place := 0; place < 3; place++ {
				snaps = append(snaps, genSnapFile(rnd, ps, place))
			}
		}
		for place := 0; place < 3; place++ {
			shorts = append(shorts, genShort(rnd, 65536, place, "first-sync"))
		}
		shorts = append(shorts, genShort(rnd, 65536, 1, "verify-snapshot"), genShort(rnd, 65536, 1, "verify-snapshot"),
			genShort(rnd, 32768, 0, "first-sync"), genShort(rnd, 4096, 0, "first-sync"), genShort(rnd, 4096, 1, "verify-snapshot"))
	} else {
		snaps = append(snaps, genSnapFile(rnd, 65536, 0), genSnapFile(rnd, 65536, 1), genSnapFile(rnd, 16384, int(o.Seed%3)))
		shorts = append(shorts, genShort(rnd, 65536, int(o.Seed%2), "first-sync"), genShort(rnd, 65536, 1, "verify-snapshot"))
	}
	// beyond 4 GiB (page size 65536: page 65537 starts at byte offset 2^32): data pages just below and
	// just above the mark, distinct content in the low pages a 32-bit offset would alias them to
	const mark = uint32(65537) // first page at an offset >= 4 GiB
	for k := 0; k < 4; k++ { // cheap: incremental path, growth pages read from the file above 4 GiB
		prev := mark - 3 - uint32(rnd.Intn(4))
		c := Case{Kind: "wal", PageSize: 65536, PrevCommit: prev, Commit: mark + 2 + uint32(rnd.Intn(6)), Map: []uint32{1, 2, mark - 1, mark + 1}}
		if k%2 == 1 {
			c.Map = []uint32{3}
		}
		for p := uint32(1); p <= 4; p++ {
			c.Marks = append(c.Marks, p)
		}
		for p := prev; p <= c.Commit; p++ {
			c.Marks = append(c.Marks, p)
		}
		eval(c)
		res.Count("wal:beyond-4GiB")
	}
	big := Case{Kind: "snapshot", PageSize: 65536, Commit: mark + 4 + uint32(rnd.Intn(5)), Map: []uint32{3, mark - 1, mark + 2},
		Marks: []uint32{1, 2, 3, 4, 5, mark - 2, mark - 1, mark, mark + 1, mark + 2, mark + 3}}
	big.Then = &Case{Kind: "wal", PageSize: 65536, Commit: big.Commit + 3, Map: []uint32{2, mark}, Marks: []uint32{big.Commit + 1, big.Commit + 2, big.Commit + 3}}
	snaps = append(snaps, big)
	if o.Tier == "thorough" {
		// a real SQLite database whose file is already larger than 4 GiB (sparse), grown further in the WAL
		shorts = append(shorts, ShortCase{PageSize: 65536, BasePages: mark + 3, Variant: "first-sync", Rows: 12})
	}
	// follow-mode restore over synthesised replicas that grow / shrink across the lock page
	var follows []FollowCase
	if o.Tier == "thorough" {
		for kind := 0; kind < 5; kind++ {
			follows = append(follows, genFollow(rnd, 65536, kind))
		}
		follows = append(follows, genFollow(rnd, 32768, 0), genFollow(rnd, 32768, 1), genFollow(rnd, 4096, 0), genFollow(rnd, 4096, 4))
		// follower database beyond 4 GiB: pages applied above the mark, then a shrink back below it
		follows = append(follows, FollowCase{PageSize: 65536, Initial: 1, Steps: []FStep{{Commit: 3}, {Commit: mark + 3}, {Commit: mark + 5, Level: 1}, {Commit: mark - 2}}})
	} else {
		follows = append(follows, genFollow(rnd, 65536, 0), genFollow(rnd, 65536, 1+int(o.Seed%4)))
	}
	if len(res.Findings) < 4 {
		evalPar(snaps, shorts, follows)
	}
	if o.Tier == "thorough" && len(res.Findings) == 0 {
		realBig(res, root)
	}
	if err := res.Write(o.Out); err != nil {
		hx.Fatal(err)
	}
}
