// Package folchild is the follower child process of the C16 engine: the real
// Replica.Restore with Follow into its own output path, over the file replica
// client wrapped by a logging/gating/self-killing ReplicaClient.  It is linked
// into cmd/follower (stand-alone binary) and into cmd/c16 (which re-executes
// itself with VERIF_FOLLOWER=1), so the engine needs no second binary.
//
// Log file (append-only, one write per line):
//   poll <seek>            applyNewLTXFiles listed level 0 (start of a poll)
//   gate <seek>            blocked at the start of a poll because <out>.gate exists
//   open <l> <min> <max>   OpenLTXFile (applyLTXFile begins)
//   close <l> <min> <max>  the reader was closed (applyLTXFile returned)
//   selfkill <n>           the n-th read event reached -killreads: SIGKILL to self
//   error <msg>            Restore returned an error
//   exit                   Restore returned nil (context cancelled)
package folchild

import (
	"context"
	"flag"
	"fmt"
	"io"
	"log/slog"
	"os"
	"os/signal"
	"sync"
	"sync/atomic"
	"syscall"
	"time"

	"github.com/benbjohnson/litestream"
	"github.com/benbjohnson/litestream/file"
	"github.com/superfly/ltx"
)

type logClient struct {
	litestream.ReplicaClient
	mu        sync.Mutex
	log       *os.File
	out       string
	following atomic.Bool
	events    atomic.Int64
	killReads int64
	slow      time.Duration
}

func (c *logClient) logf(format string, a ...any) {
	c.mu.Lock()
	defer c.mu.Unlock()
	fmt.Fprintf(c.log, format+"\n", a...)
}

func (c *logClient) LTXFiles(ctx context.Context, level int, seek ltx.TXID, useMetadata bool) (ltx.FileIterator, error) {
	if level == 0 && seek >= 1 { // applyNewLTXFiles: Client.LTXFiles(ctx, 0, currentTXID+1, false)
		c.following.Store(true)
		if _, err := os.Stat(c.out + ".gate"); err == nil {
			c.logf("gate %d", seek)
			for {
				if _, err := os.Stat(c.out + ".go"); err == nil {
					os.Remove(c.out + ".go")
					break
				}
				if _, err := os.Stat(c.out + ".gate"); err != nil {
					break
				}
				select {
				case <-ctx.Done():
					return nil, ctx.Err()
				case <-time.After(300 * time.Microsecond):
				}
			}
		}
		c.logf("poll %d", seek)
	}
	return c.ReplicaClient.LTXFiles(ctx, level, seek, useMetadata)
}

func (c *logClient) event() {
	if !c.following.Load() {
		return
	}
	n := c.events.Add(1)
	if c.killReads > 0 && n == c.killReads {
		c.logf("selfkill %d", n)
		syscall.Kill(os.Getpid(), syscall.SIGKILL)
		time.Sleep(time.Hour)
	}
	if c.slow > 0 {
		time.Sleep(c.slow)
	}
}

type logReader struct {
	io.ReadCloser
	c           *logClient
	l, min, max int
}

func (r *logReader) Read(p []byte) (int, error) {
	r.c.event()
	return r.ReadCloser.Read(p)
}

func (r *logReader) Close() error {
	r.c.event()
	err := r.ReadCloser.Close()
	if r.c.following.Load() {
		r.c.logf("close %d %d %d", r.l, r.min, r.max)
	}
	return err
}

func (c *logClient) OpenLTXFile(ctx context.Context, level int, minTXID, maxTXID ltx.TXID, offset, size int64) (io.ReadCloser, error) {
	rc, err := c.ReplicaClient.OpenLTXFile(ctx, level, minTXID, maxTXID, offset, size)
	if err != nil {
		return nil, err
	}
	if !c.following.Load() {
		return rc, nil
	}
	c.logf("open %d %d %d", level, minTXID, maxTXID)
	return &logReader{ReadCloser: rc, c: c, l: level, min: int(minTXID), max: int(maxTXID)}, nil
}

// Main parses os.Args[1:] and runs the follower until SIGTERM/SIGINT. Exit code 2 on a Restore error.
func Main() {
	fs := flag.NewFlagSet("follower", flag.ExitOnError)
	rep := fs.String("replica", "", "replica directory (file client)")
	out := fs.String("out", "", "output database path")
	logp := fs.String("log", "", "event log path")
	interval := fs.Duration("interval", 2*time.Millisecond, "follow interval")
	killReads := fs.Int64("killreads", 0, "SIGKILL self at the n-th reader event of follow mode")
	slow := fs.Duration("slow", 0, "sleep per reader event")
	fs.Parse(os.Args[1:])
	lf, err := os.OpenFile(*logp, os.O_CREATE|os.O_WRONLY|os.O_APPEND, 0o644)
	if err != nil {
		fmt.Fprintln(os.Stderr, err)
		os.Exit(3)
	}
	slog.SetDefault(slog.New(slog.NewTextHandler(io.Discard, &slog.HandlerOptions{Level: slog.LevelError + 10})))
	c := &logClient{ReplicaClient: file.NewReplicaClient(*rep), log: lf, out: *out, killReads: *killReads, slow: *slow}
	ctx, stop := signal.NotifyContext(context.Background(), syscall.SIGTERM, syscall.SIGINT)
	defer stop()
	r := litestream.NewReplicaWithClient(nil, c)
	err = r.Restore(ctx, litestream.RestoreOptions{OutputPath: *out, Follow: true, FollowInterval: *interval})
	if err != nil {
		c.logf("error %s", err.Error())
		os.Exit(2)
	}
	c.logf("exit")
}
