module verif/harness

go 1.25.0

toolchain go1.25.13

require (
	github.com/benbjohnson/litestream v0.0.0
	github.com/superfly/ltx v0.5.2
	modernc.org/sqlite v1.49.1
)

require (
	github.com/beorn7/perks v1.0.1 // indirect
	github.com/cespare/xxhash/v2 v2.3.0 // indirect
	github.com/dustin/go-humanize v1.0.1 // indirect
	github.com/google/uuid v1.6.0 // indirect
	github.com/lmittmann/tint v1.1.3 // indirect
	github.com/mattn/go-isatty v0.0.20 // indirect
	github.com/matttproud/golang_protobuf_extensions/v2 v2.0.0 // indirect
	github.com/pierrec/lz4/v4 v4.1.23 // indirect
	github.com/prometheus/client_golang v1.17.0 // indirect
	github.com/prometheus/client_model v0.5.0 // indirect
	github.com/prometheus/common v0.45.0 // indirect
	github.com/prometheus/procfs v0.12.0 // indirect
	github.com/remyoudompheng/bigfft v0.0.0-20230129092748-24d4a6f8daec // indirect
	golang.org/x/sync v0.21.0 // indirect
	golang.org/x/sys v0.45.0 // indirect
	google.golang.org/protobuf v1.36.11 // indirect
	modernc.org/libc v1.72.0 // indirect
	modernc.org/mathutil v1.7.1 // indirect
	modernc.org/memory v1.11.0 // indirect
)

replace github.com/benbjohnson/litestream => /repo
