// Package fstrace turns `strace -f -y` output of a scenario child into the event
// language of lean/Litestream/Model/Fs.lean, and re-implements the flushOK rule in Go
// (the engine's independent ORACLE; the Lean acceptor is asked through the driver).
package fstrace

import (
	"bufio"
	"fmt"
	"os"
	"path/filepath"
	"regexp"
	"sort"
	"strconv"
	"strings"
)

// Path mirrors Litestream.Fs.Path.
type Path struct {
	Dir, Name int
	Final     bool
	Tree      int // 0 local meta dir, 1 replica dir, 2 restore output dir
	Level     int
	Min, Max  int
	Str       string // absolute path (not sent to the driver)
}

func (p Path) Key() string { return fmt.Sprintf("%d.%d", p.Dir, p.Name) }
func (p Path) Tok() string {
	f := 0
	if p.Final {
		f = 1
	}
	return fmt.Sprintf("%d.%d.%d.%d.%d.%d", p.Dir, p.Name, f, p.Tree, p.Min, p.Max)
}
func (p Path) IsLTX() bool { return p.Final && p.Max > 0 }

// Event mirrors Litestream.Fs.Event. Kind: C W S X R D U T K.
type Event struct {
	Kind byte
	P, Q Path   // Q: rename target
	N    int    // D: directory id; K: operation number
	Line int    // line in the strace output (for replay files)
	Op   string // K: operation name
	Sys  string
}

func (e Event) Tok() string {
	switch e.Kind {
	case 'R':
		return "R" + e.P.Tok() + ">" + e.Q.Tok()
	case 'D', 'K':
		return fmt.Sprintf("%c%d", e.Kind, e.N)
	}
	return string(e.Kind) + e.P.Tok()
}

func (e Event) Human() string {
	switch e.Kind {
	case 'R':
		return "rename " + e.P.Str + " -> " + e.Q.Str
	case 'D':
		return "fsync-dir " + e.P.Str
	case 'K':
		return fmt.Sprintf("ok #%d %s", e.N, e.Op)
	}
	return map[byte]string{'C': "create ", 'W': "write ", 'S': "fsync ", 'X': "close ", 'U': "unlink ", 'T': "truncate "}[e.Kind] + e.P.Str
}

func Line(evs []Event) string {
	parts := make([]string, len(evs))
	for i, e := range evs {
		parts[i] = e.Tok()
	}
	return strings.Join(parts, ";")
}

// Mark is a sentinel open of the scenario child.
type Mark struct {
	Kind string // begin ok fail hbegin hend abegin aend
	N    int
	Op   string
	TXID int
	At   int // number of events before it
}

type Trace struct {
	Root                string
	Events              []Event
	Marks               []Mark
	Dirs                map[string]int
	Counts              map[string]int
	InplaceFollowWrites int
}

var (
	reLine     = regexp.MustCompile(`^(\d+)\s+(\w+)\((.*)\)\s+=\s+(-?\d+|\?)`)
	reUnfin    = regexp.MustCompile(`^(\d+)\s+(\w+)\((.*) <unfinished \.\.\.>$`)
	reResumed  = regexp.MustCompile(`^(\d+)\s+<\.\.\. (\w+) resumed>(.*)$`)
	reFd       = regexp.MustCompile(`^(\d+)<([^>]*)>`)
	reStr      = `"((?:[^"\\]|\\.)*)"`
	reDirfd    = `(AT_FDCWD(?:<[^>]*>)?|\d+<[^>]*>)`
	reOpenat   = regexp.MustCompile(`^` + reDirfd + `, ` + reStr + `, ([A-Z_|0-9a-zx]+)`)
	reRename   = regexp.MustCompile(`^` + reDirfd + `, ` + reStr + `, ` + reDirfd + `, ` + reStr)
	reRename1  = regexp.MustCompile(`^` + reStr + `, ` + reStr)
	reUnlinkat = regexp.MustCompile(`^` + reDirfd + `, ` + reStr)
	reUnlink   = regexp.MustCompile(`^` + reStr)
	reLTX      = regexp.MustCompile(`^([0-9a-f]{16})-([0-9a-f]{16})\.ltx$`)
)

func joinDirfd(dirfd, p string) string {
	if filepath.IsAbs(p) || dirfd == "AT_FDCWD" {
		return p
	}
	if strings.HasPrefix(dirfd, "AT_FDCWD<") {
		return filepath.Join(strings.TrimSuffix(strings.TrimPrefix(dirfd, "AT_FDCWD<"), ">"), p)
	}
	if m := reFd.FindStringSubmatch(dirfd); m != nil {
		return filepath.Join(strings.TrimSuffix(m[2], " (deleted)"), p)
	}
	return p
}

type classifier struct {
	root  string
	dirs  map[string]int
	names map[string]int
}

// classify returns the model path of an absolute path, ok=false if the path is outside the property's scope.
func (c *classifier) classify(abs string) (Path, bool) {
	abs = strings.TrimSuffix(abs, " (deleted)")
	rel, err := filepath.Rel(c.root, abs)
	if err != nil || strings.HasPrefix(rel, "..") {
		return Path{}, false
	}
	base := filepath.Base(abs)
	p := Path{Str: abs, Tree: 9}
	switch {
	case strings.HasPrefix(rel, "src/.db-litestream/"):
		p.Tree = 0
	case strings.HasPrefix(rel, "replica/"):
		p.Tree = 1
	case strings.HasPrefix(rel, "out/"):
		p.Tree = 2
	default:
		return Path{}, false
	}
	switch {
	case strings.HasSuffix(base, ".tmp"):
		p.Final = false
	case reLTX.MatchString(base):
		m := reLTX.FindStringSubmatch(base)
		mn, _ := strconv.ParseUint(m[1], 16, 63)
		mx, _ := strconv.ParseUint(m[2], 16, 63)
		p.Final, p.Min, p.Max = true, int(mn), int(mx)
		p.Level, _ = strconv.Atoi(filepath.Base(filepath.Dir(abs)))
	case p.Tree == 2 && (strings.HasSuffix(base, ".db") || strings.HasSuffix(base, "-txid")):
		p.Final = true
	default:
		return Path{}, false
	}
	d := filepath.Dir(abs)
	if _, ok := c.dirs[d]; !ok {
		c.dirs[d] = len(c.dirs) + 1
	}
	if _, ok := c.names[abs]; !ok {
		c.names[abs] = len(c.names) + 1
	}
	p.Dir, p.Name = c.dirs[d], c.names[abs]
	return p, true
}

// Parse reads strace output (-f -y) of a scenario child rooted at root.
func Parse(file, root string) (*Trace, error) {
	f, err := os.Open(file)
	if err != nil {
		return nil, err
	}
	defer f.Close()
	sc := bufio.NewScanner(f)
	sc.Buffer(make([]byte, 1<<20), 1<<24)
	pendingUnfin := map[string]string{}
	type rec struct {
		sys, args, ret string
		line           int
	}
	var recs []rec
	ln := 0
	for sc.Scan() {
		ln++
		s := sc.Text()
		if m := reUnfin.FindStringSubmatch(s); m != nil {
			pendingUnfin[m[1]] = m[2] + "(" + m[3]
			continue
		}
		if m := reResumed.FindStringSubmatch(s); m != nil {
			if head, ok := pendingUnfin[m[1]]; ok {
				delete(pendingUnfin, m[1])
				s = m[1] + " " + head + m[3]
			} else {
				continue
			}
		}
		m := reLine.FindStringSubmatch(s)
		if m == nil {
			continue
		}
		recs = append(recs, rec{m[2], m[3], m[4], ln})
	}
	if err := sc.Err(); err != nil {
		return nil, err
	}
	c := &classifier{root: root, dirs: map[string]int{}, names: map[string]int{}}
	tr := &Trace{Root: root, Counts: map[string]int{}}
	// pass 1: learn which directories hold classified files (so that fsync(fd<dir>) is recognised)
	for _, r := range recs {
		switch r.sys {
		case "openat":
			if m := reOpenat.FindStringSubmatch(r.args); m != nil {
				c.classify(joinDirfd(m[1], unq(m[2])))
			}
		case "renameat", "renameat2":
			if m := reRename.FindStringSubmatch(r.args); m != nil {
				c.classify(joinDirfd(m[1], unq(m[2])))
				c.classify(joinDirfd(m[3], unq(m[4])))
			}
		}
	}
	inH := false
	curOp := ""
	noCreate := map[string]bool{} // final non-LTX paths opened without O_CREAT/O_TRUNC (in-place update)
	add := func(e Event) {
		if inH {
			tr.Counts["dropped-harness-action"]++
			return
		}
		// collapse runs of writes to the same path
		if e.Kind == 'W' && len(tr.Events) > 0 {
			l := tr.Events[len(tr.Events)-1]
			if l.Kind == 'W' && l.P.Key() == e.P.Key() {
				tr.Counts["write-collapsed"]++
				return
			}
		}
		tr.Events = append(tr.Events, e)
		tr.Counts["ev:"+string(e.Kind)]++
	}
	for _, r := range recs {
		ok := r.ret != "?" && !strings.HasPrefix(r.ret, "-")
		switch r.sys {
		case "openat":
			m := reOpenat.FindStringSubmatch(r.args)
			if m == nil {
				continue
			}
			abs := joinDirfd(m[1], unq(m[2]))
			if strings.HasPrefix(abs, filepath.Join(root, ".mark")+"/") {
				mk := parseMark(filepath.Base(abs), len(tr.Events))
				switch mk.Kind {
				case "hbegin":
					inH = true
				case "hend":
					inH = false
				case "begin":
					curOp = mk.Op
				case "ok":
					add(Event{Kind: 'K', N: mk.N, Op: mk.Op, Line: r.line})
				}
				tr.Marks = append(tr.Marks, mk)
				continue
			}
			if !ok {
				continue
			}
			p, in := c.classify(abs)
			if !in {
				continue
			}
			if strings.Contains(m[3], "O_CREAT") || strings.Contains(m[3], "O_TRUNC") {
				delete(noCreate, abs)
				add(Event{Kind: 'C', P: p, Line: r.line, Sys: r.sys})
			} else if strings.Contains(m[3], "O_RDWR") || strings.Contains(m[3], "O_WRONLY") {
				noCreate[abs] = true
				// follow() opens the published output for in-place apply: from here on the follower serves /
				// resumes from <out> + <out>-txid, so this is where a follow-mode restore ACKNOWLEDGES its
				// initial restore: the output's and the sidecar's directory entries must be durable by now.
				if p.Final && !p.IsLTX() && strings.HasSuffix(abs, ".db") && curOpIsFollow(curOp, tr.Marks) {
					add(Event{Kind: 'K', N: 0, Op: "follow-start", Line: r.line})
				}
			}
		case "write", "pwrite64", "fsync", "fdatasync", "close", "ftruncate", "copy_file_range", "sendfile":
			if !ok {
				continue
			}
			args := r.args
			if r.sys == "copy_file_range" { // (fd_in, off_in, fd_out, ...): the written file is the third argument
				f := strings.SplitN(args, ", ", 3)
				if len(f) < 3 {
					continue
				}
				args = f[2]
			}
			m := reFd.FindStringSubmatch(args)
			if m == nil {
				continue
			}
			abs := strings.TrimSuffix(m[2], " (deleted)")
			if r.sys == "fsync" || r.sys == "fdatasync" {
				if id, isDir := c.dirs[abs]; isDir {
					add(Event{Kind: 'D', N: id, P: Path{Str: abs}, Line: r.line, Sys: r.sys})
					continue
				}
			}
			p, in := c.classify(abs)
			if !in {
				continue
			}
			k := map[string]byte{"write": 'W', "pwrite64": 'W', "copy_file_range": 'W', "sendfile": 'W', "fsync": 'S', "fdatasync": 'S', "close": 'X', "ftruncate": 'T'}[r.sys]
			// follow mode applies pages in place to the already published restore output: governed by C16, not C11
			if (k == 'W' || k == 'S' || k == 'X' || k == 'T') && p.Final && !p.IsLTX() && noCreate[abs] && curOpIsFollow(curOp, tr.Marks) {
				tr.InplaceFollowWrites++
				continue
			}
			add(Event{Kind: k, P: p, Line: r.line, Sys: r.sys})
		case "rename", "renameat", "renameat2":
			if !ok {
				continue
			}
			var a, b string
			if r.sys == "rename" {
				m := reRename1.FindStringSubmatch(r.args)
				if m == nil {
					continue
				}
				a, b = unq(m[1]), unq(m[2])
			} else {
				m := reRename.FindStringSubmatch(r.args)
				if m == nil {
					continue
				}
				a, b = joinDirfd(m[1], unq(m[2])), joinDirfd(m[3], unq(m[4]))
			}
			pa, ina := c.classify(a)
			pb, inb := c.classify(b)
			if !ina && !inb {
				continue
			}
			if !ina || !inb {
				tr.Counts["rename-across-scope"]++
				if !ina { // something unknown renamed onto a classified name: model the source as an unflushed staging file
					pa = Path{Dir: pb.Dir, Name: 1 << 20, Tree: pb.Tree, Str: a}
					add(Event{Kind: 'C', P: pa, Line: r.line})
					add(Event{Kind: 'W', P: pa, Line: r.line})
				} else {
					add(Event{Kind: 'U', P: pa, Line: r.line})
					continue
				}
			}
			add(Event{Kind: 'R', P: pa, Q: pb, Line: r.line, Sys: r.sys})
		case "unlink", "unlinkat":
			if !ok {
				continue
			}
			var a string
			if r.sys == "unlink" {
				m := reUnlink.FindStringSubmatch(r.args)
				if m == nil {
					continue
				}
				a = unq(m[1])
			} else {
				m := reUnlinkat.FindStringSubmatch(r.args)
				if m == nil {
					continue
				}
				a = joinDirfd(m[1], unq(m[2]))
			}
			if p, in := c.classify(a); in {
				add(Event{Kind: 'U', P: p, Line: r.line, Sys: r.sys})
			}
		}
	}
	tr.Dirs = c.dirs
	return tr, nil
}

func curOpIsFollow(cur string, marks []Mark) bool {
	// the follower runs concurrently with later operations: it is active from its begin mark to its ok/fail mark
	active := false
	for _, m := range marks {
		if m.Op == "follow" {
			active = m.Kind == "begin"
		}
	}
	return active || cur == "follow"
}

func unq(s string) string {
	if u, err := strconv.Unquote(`"` + s + `"`); err == nil {
		return u
	}
	return s
}

func parseMark(base string, at int) Mark {
	f := strings.Split(base, ".")
	m := Mark{Kind: f[0], At: at}
	if len(f) > 1 {
		m.N, _ = strconv.Atoi(f[1])
	}
	if len(f) > 2 {
		m.Op = f[2]
	}
	if len(f) > 3 {
		m.TXID, _ = strconv.Atoi(f[3])
	}
	return m
}

// Project keeps the events of the given trees and the success markers of the operations selected by keepOp.
func Project(evs []Event, trees map[int]bool, keepOp func(op string) bool) []Event {
	var out []Event
	for _, e := range evs {
		switch e.Kind {
		case 'K':
			if keepOp(e.Op) {
				out = append(out, e)
			}
		case 'D':
			out = append(out, e)
		case 'R':
			if trees[e.Q.Tree] || trees[e.P.Tree] {
				out = append(out, e)
			}
		default:
			if trees[e.P.Tree] {
				out = append(out, e)
			}
		}
	}
	return out
}

// ---------------------------------------------------------------- Go oracle (independent re-implementation of the rule)

type Verdict struct {
	OK    bool
	Rule  string
	Index int
	Path  Path // the path the rule is about
}

func (v Verdict) String() string {
	if v.OK {
		return "ok"
	}
	return fmt.Sprintf("bad %s %d", v.Rule, v.Index)
}

type ostate struct {
	next            int
	bound           map[string]int
	written, synced map[int]int
	pending         []Path
	durable         []Path
}

func covers(g, f Path) bool {
	return g.Key() != f.Key() && g.Final && (g.Tree == 1 || g.Tree == f.Tree) && g.Min <= f.Min && f.Max <= g.Max && g.Max > 0
}

// Judge is the Go statement of C11's ordering rules: the first call that breaks one, or OK.
func Judge(evs []Event) Verdict {
	s := &ostate{bound: map[string]int{}, written: map[int]int{}, synced: map[int]int{}}
	for i, e := range evs {
		bad := func(rule string, p Path) Verdict { return Verdict{Rule: rule, Index: i, Path: p} }
		switch e.Kind {
		case 'C':
			if e.P.Final {
				return bad("direct-write", e.P)
			}
			s.bound[e.P.Key()] = s.next
			s.next++
		case 'W', 'T':
			if e.P.Final {
				return bad("direct-write", e.P)
			}
			if ino, ok := s.bound[e.P.Key()]; ok {
				s.written[ino]++
			}
		case 'S':
			if ino, ok := s.bound[e.P.Key()]; ok {
				s.synced[ino] = s.written[ino]
			}
		case 'R':
			if e.P.Final {
				return bad("final-src", e.P)
			}
			ino, ok := s.bound[e.P.Key()]
			if e.Q.Final {
				if !ok {
					return bad("src-missing", e.P)
				}
				if s.synced[ino] != s.written[ino] {
					return bad("unsynced", e.Q)
				}
				s.pending = append([]Path{e.Q}, s.pending...)
			}
			if ok {
				s.bound[e.Q.Key()] = ino
			} else {
				delete(s.bound, e.Q.Key())
			}
			delete(s.bound, e.P.Key())
		case 'D':
			var keep []Path
			for _, p := range s.pending {
				if p.Dir == e.N {
					if p.Max > 0 {
						s.durable = append(s.durable, p)
					}
				} else {
					keep = append(keep, p)
				}
			}
			s.pending = keep
		case 'U':
			if e.P.Final && e.P.Max > 0 {
				found := false
				for _, g := range s.durable {
					if covers(g, e.P) {
						found = true
					}
				}
				if !found {
					return bad("delete-uncovered", e.P)
				}
			}
			s.pending = without(s.pending, e.P)
			s.durable = without(s.durable, e.P)
			delete(s.bound, e.P.Key())
		case 'K':
			if len(s.pending) > 0 {
				return bad("ack-before-dirsync", s.pending[len(s.pending)-1])
			}
		}
	}
	return Verdict{OK: true}
}

// DurableAt returns the LTX files the oracle considers durable after the first k events.
func DurableAt(evs []Event, k int) []Path {
	var pending, durable []Path
	for i, e := range evs {
		if i >= k {
			break
		}
		switch e.Kind {
		case 'R':
			if e.Q.Final {
				pending = append(pending, e.Q)
			}
		case 'D':
			var keep []Path
			for _, p := range pending {
				if p.Dir == e.N {
					if p.Max > 0 {
						durable = append(durable, p)
					}
				} else {
					keep = append(keep, p)
				}
			}
			pending = keep
		case 'U':
			pending, durable = without(pending, e.P), without(durable, e.P)
		}
	}
	return durable
}

func without(ps []Path, p Path) []Path {
	var out []Path
	for _, q := range ps {
		if q.Key() != p.Key() {
			out = append(out, q)
		}
	}
	return out
}

// ---------------------------------------------------------------- static protocols (Gen/Publish.lean JSON line)

type Protocol struct {
	Name  string   `json:"name"`
	Steps []string `json:"steps"`
}

// WellOrdered is the Go statement of the static rule; returns "" or the rule broken and the step index.
func WellOrdered(steps []string) (string, int) {
	tmpBound, dirty, pending := false, false, false
	for i, st := range steps {
		f := strings.Fields(st)
		role := ""
		if len(f) > 1 {
			role = f[1]
		}
		switch f[0] {
		case "create":
			if role == "final" {
				return "direct-write", i
			}
			tmpBound, dirty = true, false
		case "write", "extWrite":
			if role == "final" {
				return "direct-write", i
			}
			if tmpBound && f[0] == "write" {
				dirty = true
			}
			// extWrite (SQLite checkpoint): flushes what it writes, but may write nothing: dirty stays as it is
		case "fsync":
			if role == "tmp" && tmpBound {
				dirty = false
			}
		case "rename":
			if role == "final" {
				return "final-src", i
			}
			if len(f) < 3 || f[2] != "final" {
				return "rename-staging", i
			}
			if !tmpBound {
				return "src-missing", i
			}
			if dirty {
				return "unsynced", i
			}
			tmpBound, dirty, pending = false, false, true
		case "fsyncDir":
			pending = false
		case "remove":
			if role == "tmp" {
				tmpBound, dirty = false, false
			} else {
				return "remove-final", i // the final name is never unlinked by a publisher: rename replaces it
			}
		case "ok":
			if pending {
				return "ack-before-dirsync", i
			}
		}
	}
	return "", -1
}

// Normalize reduces a static step list to what is comparable with an observed per-file sequence.
// NormalizeAlt is Normalize for the behaviour in which an extWrite step writes (and flushes) nothing.
func NormalizeAlt(steps []string) []string {
	var kept []string
	for _, st := range steps {
		if !strings.HasPrefix(st, "extWrite") {
			kept = append(kept, st)
		}
	}
	return Normalize(kept)
}

func Normalize(steps []string) []string {
	var out []string
	push := func(s string) {
		if s == "write" && len(out) > 0 && out[len(out)-1] == "write" {
			return
		}
		out = append(out, s)
	}
	for _, st := range steps {
		f := strings.Fields(st)
		switch f[0] {
		case "create", "write", "fsync", "rename", "fsyncDir":
			push(f[0])
		case "extWrite":
			push("write")
			push("fsync")
		}
	}
	return out
}

// Observed extracts, for every rename onto a final name, the per-file call sequence
// (create/write/fsync of the staging file since its creation, rename, fsyncDir before the next success marker).
type Publication struct {
	Target  Path
	Seq     []string
	Index   int
	Fetched bool // a local copy of a file the replica already holds durably (checkDatabaseBehindReplica)
}

func Observed(evs []Event) []Publication {
	var out []Publication
	for i, e := range evs {
		if e.Kind != 'R' || !e.Q.Final {
			continue
		}
		var seq []string
		start := 0
		for j := i - 1; j >= 0; j-- {
			if evs[j].Kind == 'C' && evs[j].P.Key() == e.P.Key() {
				start = j
				break
			}
		}
		for j := start; j < i; j++ {
			if evs[j].Kind == 'R' || evs[j].Kind == 'D' || evs[j].Kind == 'K' || evs[j].P.Key() != e.P.Key() {
				continue
			}
			n := map[byte]string{'C': "create", 'W': "write", 'S': "fsync", 'T': "write"}[evs[j].Kind]
			if n == "" || (n == "write" && len(seq) > 0 && seq[len(seq)-1] == "write") {
				continue
			}
			seq = append(seq, n)
		}
		seq = append(seq, "rename")
		for j := i + 1; j < len(evs); j++ {
			if evs[j].Kind == 'K' {
				break
			}
			if evs[j].Kind == 'S' && evs[j].P.Key() == e.Q.Key() {
				seq = append(seq, "fsync")
			}
			if evs[j].Kind == 'D' && evs[j].N == e.Q.Dir {
				seq = append(seq, "fsyncDir")
				break
			}
		}
		pub := Publication{Target: e.Q, Seq: seq, Index: i}
		if e.Q.Tree == 0 && e.Q.IsLTX() {
			for _, g := range DurableAt(evs, i) {
				if g.Tree == 1 && g.Level == e.Q.Level && g.Min == e.Q.Min && g.Max == e.Q.Max {
					pub.Fetched = true
				}
			}
		}
		out = append(out, pub)
	}
	return out
}

func SortedCounts(m map[string]int) []string {
	ks := make([]string, 0, len(m))
	for k := range m {
		ks = append(ks, k)
	}
	sort.Strings(ks)
	return ks
}
