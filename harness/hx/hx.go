// Package hx holds what every harness engine shares: the PRNG, the pipe to the
// Lean driver, result/replay files.
package hx

import (
	"bufio"
	"crypto/sha256"
	"encoding/hex"
	"encoding/json"
	"flag"
	"fmt"
	"io"
	"os"
	"os/exec"
	"path/filepath"
	"sort"
	"strings"
	"time"
)

// Rand is SplitMix64; every random choice of a run derives from VERIF_SEED.
type Rand struct{ s uint64 }

func NewRand(seed uint64) *Rand { return &Rand{s: seed} }
func (r *Rand) Uint64() uint64 {
	r.s += 0x9E3779B97F4A7C15
	z := r.s
	z = (z ^ (z >> 30)) * 0xBF58476D1CE4E5B9
	z = (z ^ (z >> 27)) * 0x94D049BB133111EB
	return z ^ (z >> 31)
}
func (r *Rand) Intn(n int) int {
	if n <= 0 {
		return 0
	}
	return int(r.Uint64() % uint64(n))
}
func (r *Rand) Bool() bool      { return r.Uint64()&1 == 1 }
func (r *Rand) Chance(p int) bool { return r.Intn(100) < p } // p percent
func (r *Rand) Fork() *Rand     { return NewRand(r.Uint64()) }

// Driver is a running Lean driver process answering one line per line.
type Driver struct {
	cmd *exec.Cmd
	in  io.WriteCloser
	out *bufio.Reader
	N   int
}

// NoModel makes StartDriver return a stub whose answers are "-" (compared against nothing).
var NoModel bool

func StartDriver(path string) (*Driver, error) {
	if NoModel {
		return &Driver{}, nil
	}
	cmd := exec.Command(path)
	in, err := cmd.StdinPipe()
	if err != nil {
		return nil, err
	}
	out, err := cmd.StdoutPipe()
	if err != nil {
		return nil, err
	}
	cmd.Stderr = os.Stderr
	if err := cmd.Start(); err != nil {
		return nil, err
	}
	return &Driver{cmd: cmd, in: in, out: bufio.NewReaderSize(out, 1<<20)}, nil
}

// Ask sends one line and returns the driver's one-line answer.
func (d *Driver) Ask(line string) (string, error) {
	if d.cmd == nil {
		return "-", nil
	}
	if strings.ContainsAny(line, "\n\r") {
		return "", fmt.Errorf("line contains newline")
	}
	if _, err := io.WriteString(d.in, line+"\n"); err != nil {
		return "", err
	}
	s, err := d.out.ReadString('\n')
	if err != nil {
		return "", fmt.Errorf("driver died: %w", err)
	}
	d.N++
	return strings.TrimRight(s, "\n"), nil
}

// AskBatch pipelines many lines (writer goroutine + reader) for throughput.
func (d *Driver) AskBatch(lines []string) ([]string, error) {
	if d.cmd == nil {
		out := make([]string, len(lines))
		for i := range out {
			out[i] = "-"
		}
		return out, nil
	}
	errc := make(chan error, 1)
	go func() {
		w := bufio.NewWriterSize(d.in, 1<<20)
		for _, l := range lines {
			if _, err := w.WriteString(l + "\n"); err != nil {
				errc <- err
				return
			}
		}
		errc <- w.Flush()
	}()
	out := make([]string, 0, len(lines))
	for range lines {
		s, err := d.out.ReadString('\n')
		if err != nil {
			return out, fmt.Errorf("driver died: %w", err)
		}
		out = append(out, strings.TrimRight(s, "\n"))
	}
	d.N += len(lines)
	return out, <-errc
}

func (d *Driver) Close() {
	if d.cmd == nil {
		return
	}
	d.in.Close()
	d.cmd.Wait()
}

// Differs reports a model/implementation disagreement (never when the model is off).
func Differs(impl, model string) bool { return model != "-" && impl != model }

// Finding is one thing the engine wants the check script to classify.
type Finding struct {
	Kind      string `json:"kind"`      // "violation" (oracle: property fails on impl) | "disagreement" (model vs impl)
	Signature string `json:"signature"` // stable key matched against KNOWN_FINDINGS.json
	What      string `json:"what"`
	Replay    string `json:"replay"` // path of the replay file
}

// Result is what an engine writes for the check script.
type Result struct {
	Engine              string         `json:"engine"`
	Evaluations         int            `json:"evaluations"`
	DistinctNontrivial  int            `json:"distinct_nontrivial"`
	Rule                string         `json:"rule"`
	Samples             []any          `json:"samples"`
	Exhaustive          bool           `json:"exhaustive"`
	DisagreementsChecked int           `json:"disagreements_checked"`
	Distribution        map[string]int `json:"distribution"`
	Findings            []Finding      `json:"findings"`
	Notes               []string       `json:"notes,omitempty"`
	WallS               float64        `json:"wall_s"`
	start               time.Time
	seen                map[string]struct{}
	outDir              string
	id                  string
	seed                uint64
}

// Common flags.
type Opts struct {
	Tier   string
	Seed   uint64
	Driver string
	Out    string // result json path
	Replays string
	Replay string // replay file to re-run, if any
	Corpus string
	ID     string
	NoModel bool // the Lean build is broken: run oracles only
}

func ParseFlags(id string) *Opts {
	o := &Opts{ID: id}
	flag.StringVar(&o.Tier, "tier", "quick", "quick|thorough")
	flag.Uint64Var(&o.Seed, "seed", 1, "seed")
	flag.StringVar(&o.Driver, "driver", "/verif/lean/.lake/build/bin/driver", "lean driver binary")
	flag.StringVar(&o.Out, "out", "", "result json")
	flag.StringVar(&o.Replays, "replays", "/verif/replays", "replay dir")
	flag.StringVar(&o.Replay, "replay", "", "replay file")
	flag.StringVar(&o.Corpus, "corpus", "", "corpus dir")
	flag.BoolVar(&o.NoModel, "nomodel", false, "skip model comparison (Lean build broken); oracles only")
	flag.StringVar(&o.ID, "id", id, "property id")
	flag.Parse()
	NoModel = o.NoModel
	return o
}

func NewResult(o *Opts, engine string) *Result {
	return &Result{Engine: engine, Distribution: map[string]int{}, start: time.Now(),
		seen: map[string]struct{}{}, outDir: o.Replays, id: o.ID, seed: o.Seed, Findings: []Finding{}, Samples: []any{}}
}

func (r *Result) Count(key string) { r.Distribution[key]++ }

// Case records one evaluated case; canon is its canonical text, nontrivial by the engine's rule.
func (r *Result) Case(canon string, nontrivial bool) {
	r.Evaluations++
	if !nontrivial {
		return
	}
	h := sha256.Sum256([]byte(canon))
	k := string(h[:12])
	if _, ok := r.seen[k]; !ok {
		r.seen[k] = struct{}{}
		r.DistinctNontrivial++
	}
}

func (r *Result) Sample(v any) {
	if len(r.Samples) < 6 {
		r.Samples = append(r.Samples, v)
	}
}

// AddFinding writes a replay file and records the finding (at most 20 kept).
func (r *Result) AddFinding(kind, signature, what string, replay any) {
	replaceAt := -1
	if len(r.Findings) >= 20 {
		// the list is full: a violation (the property's own oracle failed on a concrete input) is never
		// dropped in favour of model-vs-code disagreements — it takes the place of the last one
		if kind != "violation" {
			return
		}
		for i := len(r.Findings) - 1; i >= 0; i-- {
			if r.Findings[i].Kind != "violation" {
				replaceAt = i
				break
			}
		}
		if replaceAt < 0 {
			return
		}
	}
	os.MkdirAll(r.outDir, 0o755)
	b, _ := json.MarshalIndent(map[string]any{"property": r.id, "kind": kind, "signature": signature, "what": what,
		"seed": r.seed, "replay": replay}, "", " ")
	h := sha256.Sum256(b)
	p := filepath.Join(r.outDir, fmt.Sprintf("%s-%d-%s.json", r.id, r.seed, hex.EncodeToString(h[:4])))
	os.WriteFile(p, b, 0o644)
	if replaceAt >= 0 {
		r.Findings[replaceAt] = Finding{Kind: kind, Signature: signature, What: what, Replay: p}
		return
	}
	r.Findings = append(r.Findings, Finding{Kind: kind, Signature: signature, What: what, Replay: p})
}

func (r *Result) Write(path string) error {
	r.WallS = time.Since(r.start).Seconds()
	b, err := json.MarshalIndent(r, "", " ")
	if err != nil {
		return err
	}
	if path == "" {
		_, err = os.Stdout.Write(append(b, '\n'))
		return err
	}
	return os.WriteFile(path, b, 0o644)
}

func SortedKeys(m map[string]int) []string {
	ks := make([]string, 0, len(m))
	for k := range m {
		ks = append(ks, k)
	}
	sort.Strings(ks)
	return ks
}

func Fatal(err error) {
	fmt.Fprintln(os.Stderr, "harness error:", err)
	os.Exit(3)
}
