"""Per-property configuration of ./check (lean modules, audited namespaces,
regenerated facts, engines)."""

CHECKS = {
    "C08": {
        "lean_modules": ["Litestream.Props.C08"],
        "namespaces": ["Litestream.C08"],
        "required_theorems": [
            "Litestream.C08.plan_sound", "Litestream.C08.plan_complete", "Litestream.C08.plan_reaches_max",
            "Litestream.C08.plan_reports_gap", "Litestream.C08.gap_error_justified", "Litestream.C08.plan_error_means_none",
            "Litestream.C08.planFiles_sound", "Litestream.C08.planFiles_complete",
            "Litestream.C08.gen_better_eq", "Litestream.C08.gen_snapshotLevel_eq",
        ],
        "gen": ["Plan"],
        "engines": [{"bin": "c08"}],
        "trusted_base": [
            "ReplicaClient contract: LTXFiles lists one level sorted by (min,max) (ltx.NewFileInfoSliceIterator); modelled as sortFiles",
        ],
        "assumptions": [
            "file sets are well-formed (1<=min<=max, level-9 files start at TXID 1) for the theorems; outside that the model is still compared with the code (malformed stream), E2 in DESIGN.md",
        ],
    },
}
