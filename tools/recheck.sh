#!/bin/bash
# tools/recheck.sh <name> <PROP>
# Re-runs ./check <PROP> quick against a fresh scratch worktree of /repo with seeded/<name>/patch.diff
# applied (after a check was strengthened); appends the outcome to seeded/<name>/recheck.log.
set -u
NAME=$1; PROP=$2
D=/verif/seeded/$NAME; WT=/tmp/recheck-$NAME
git -C /repo worktree remove --force $WT >/dev/null 2>&1
git -C /repo worktree add --detach $WT HEAD >/dev/null 2>&1 || exit 2
git -C $WT apply $D/patch.diff || { echo "patch does not apply" | tee -a $D/recheck.log; git -C /repo worktree remove --force $WT; exit 2; }
cd /verif
echo "== recheck $(date -u +%FT%TZ) verif=$(git rev-parse --short HEAD) repo=$(git -C /repo rev-parse --short HEAD)" >> $D/recheck.log
( VERIF_REPO=$WT ./check $PROP quick ) > $D/recheck-check.log 2>&1; RC=$?
grep -h "VIOLATION\|KNOWN-FINDING" $D/recheck-check.log | cut -c1-300 >> $D/recheck.log
echo "check $PROP quick against seeded tree: exit $RC" | tee -a $D/recheck.log
git -C /repo worktree remove --force $WT
