#!/usr/bin/env python3
"""Rewrite the 'Seeded changes' table in DESIGN.md from seeded/*/meta.json."""
import glob, json, os, re
ROOT = os.path.dirname(os.path.dirname(os.path.abspath(__file__)))
rows = []
for p in sorted(glob.glob(os.path.join(ROOT, "seeded", "*", "meta.json"))):
    m = json.load(open(p))
    name = os.path.basename(os.path.dirname(p))
    how = "; ".join(sorted({re.sub(r".*replay=\S+\s*", "", v).strip() or "concrete replay" for v in m.get("violation_lines", [])})) or "-"
    rl = os.path.join(os.path.dirname(p), "recheck.log")
    if os.path.exists(rl):
        txt = open(rl).read()
        last = txt.strip().split("== recheck")[-1]
        mm = re.search(r"exit (\d+)", last)
        concrete = bool(re.search(r"^VIOLATION .*replay=\S+\s*$", last, flags=re.M))
        head = last.strip().splitlines()[0] if last.strip() else ""
        m["check_result"] += " — re-run after strengthening (%s): %s" % (head.strip(), ("exit 1, concrete replay" if concrete else "exit 1, no-failing-input-found") if mm and mm.group(1) == "1" else "exit %s" % (mm.group(1) if mm else "?"))
    rows.append("| `seeded/%s` | %s | %s | %s | %s |" % (name, m["property"], m["change"].replace("|", "/"), m["needs_to_manifest"].replace("|", "/"), m["check_result"].replace("|", "/")))
import collections
stat = collections.Counter()
for p in sorted(glob.glob(os.path.join(ROOT, "seeded", "*", "meta.json"))):
    r = json.load(open(p))["check_result"]
    rl = os.path.join(os.path.dirname(p), "recheck.log")
    rechecked = os.path.exists(rl) and "exit 1" in open(rl).read().strip().split("== recheck")[-1]
    if rechecked and (r.startswith("missed") or "tie only" in r):
        stat["missed (or tie-only) at first, caught after the check was strengthened (re-run recorded in recheck.log)"] += 1
    elif r.startswith("caught") and "(T) tie only" not in r and "first run by the (T)" not in r:
        stat["caught at the first run with a concrete replay"] += 1
    elif "tie only" in r and "missed" not in r.split("tie only")[0]:
        stat["caught at the first run by a (T) tie / model disagreement only (no-failing-input-found)"] += 1
    elif r.startswith("missed at first") or "caught after" in r or "caught: first run by" in r:
        stat["missed (or tie-only) at first, caught with a concrete replay after the check was strengthened"] += 1
    elif r.startswith("missed by") and "caught by the" in r:
        stat["missed by the named property's check, caught by a sibling property's check (strengthening of the named check requested/done)"] += 1
    elif r.startswith("missed"):
        stat["missed at the first run (strengthening requested; see recheck.log when present)"] += 1
    else:
        stat["other"] += 1
summary = "The runs recorded below used `VERIF_REPO=<scratch worktree with the patch>` (tools/seedcheck.sh, tools/recheck.sh), so that /repo itself stayed untouched while other checks were running; the literal procedure — `git -C /repo apply <patch>`, `./check <property> quick`, `git -C /repo checkout -- .` — was exercised as well (C13-seed3 and C08-seed3: VIOLATION with the patch applied in /repo, exit 0 again after the checkout).\n\n" + "Summary of %d seeded changes: " % sum(stat.values()) + "; ".join("%d %s" % (v, k) for k, v in stat.most_common()) + ".\n\n"
table = summary + "\n".join(["| directory | property | change | needs to manifest | `./check <property> quick` on the changed tree |", "|---|---|---|---|---|"] + rows)
begin, end = "<!-- SEEDED-BEGIN -->", "<!-- SEEDED-END -->"
d = open(os.path.join(ROOT, "DESIGN.md")).read()
block = begin + "\n" + table + "\n" + end
if begin in d:
    d = re.sub(re.escape(begin) + r".*?" + re.escape(end), lambda _: block, d, flags=re.S)
else:
    d += "\n\n## Seeded changes and which checks catch them\n\nEach change was written by a fresh sub-agent that saw only the property text and a scratch worktree of /repo; each was confirmed independently (`tools/seedcheck.sh`: builds, vets, its demonstration fails with the change and passes without it) and then run through the property's quick check with `VERIF_REPO=<worktree>`. `patch.diff`, the demonstration, `SEEDED.md` (the author's notes) and `meta.json` are in the directory named.\n\n" + block + "\n"
open(os.path.join(ROOT, "DESIGN.md"), "w").write(d)
print(len(rows), "rows")
