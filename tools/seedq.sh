#!/bin/bash
# usage: seedq.sh P1 P2 ... : sequential seedchecks
for P in "$@"; do /verif/tools/seedcheck.sh $P /tmp/wt-$P-s9 $P-seed9 > /tmp/seedcheck-$P.log 2>&1; done
