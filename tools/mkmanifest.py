#!/usr/bin/env python3
"""Assemble /verif/MANIFEST.json from checks.d/*.json and not_applicable.json."""
import glob, json, os
ROOT = os.path.dirname(os.path.dirname(os.path.abspath(__file__)))
checks, engines = [], []
claimed = set()
for p in sorted(glob.glob(os.path.join(ROOT, "checks.d", "*.json"))):
    c = json.load(open(p))
    if c.get("disabled"):
        continue
    pid = c["id"]
    claimed.add(pid)
    checks.append({
        "property_id": pid,
        "quick_cmd": "./check %s quick" % pid,
        "thorough_cmd": "./check %s thorough" % pid,
        "evidence_file": "/verif/evidence/%s.json" % pid,
        "replay_cmd_template": "./check %s --replay {path}" % pid,
        "engine": ",".join(e["bin"] for e in c.get("engines", [])) or "lean",
        "level_claimed": {"category": c.get("level", "proof"), "text": c["level_text"], "design_ref": c.get("design_ref", "DESIGN.md §3")},
        "level_note": c["level_note"],
        "technique": c["technique"],
    })
    for e in c.get("engines", []):
        engines.append({"name": e["bin"], "path": "/verif/harness/cmd/" + e["bin"], "serves_properties": [pid],
                        "kind_free_text": e.get("kind", "differential harness: real Go code in-process vs compiled Lean model over a line protocol, plus property oracle")})
props = [json.loads(l)["id"] for l in open(os.path.join(ROOT, "properties.jsonl"))]
na_reasons = json.load(open(os.path.join(ROOT, "not_applicable.json"))) if os.path.exists(os.path.join(ROOT, "not_applicable.json")) else {}
na = [{"property_id": p, "reason": na_reasons.get(p, "check not built yet in this round (no machinery claims it); see DESIGN.md §3 for the planned model and theorems")}
      for p in props if p not in claimed]
# merge engines serving several properties
merged = {}
for e in engines:
    if e["name"] in merged:
        merged[e["name"]]["serves_properties"] = sorted(set(merged[e["name"]]["serves_properties"] + e["serves_properties"]))
    else:
        merged[e["name"]] = e
hooks = json.load(open(os.path.join(ROOT, "hooks.json")))
m = {
    "version": 1,
    "setup_cmd": "./check setup",
    "hooks": hooks,
    "engines": list(merged.values()),
    "checks": checks,
    "notes": "Every check is ./check <id> <tier>: regenerate Gen/*.lean from /repo (translator), lake build of the property's theorems, axiom audit, build the Go harness against /repo with -tags verif, run real code vs compiled Lean model + property oracle, classify, KNOWN_FINDINGS filter, evidence. See DESIGN.md.",
    "not_applicable": na,
}
json.dump(m, open(os.path.join(ROOT, "MANIFEST.json"), "w"), indent=1)
print("MANIFEST.json: %d checks, %d not_applicable" % (len(checks), len(na)))
