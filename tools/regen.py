#!/usr/bin/env python3
"""Regenerate every lean/Litestream/Gen/*.lean from /repo (or VERIF_REPO) — what each ./check does for its own facts.
Useful before a stand-alone `lake build` after trial runs against scratch trees left other trees' facts behind."""
import glob, json, os, subprocess, sys
ROOT = os.path.dirname(os.path.dirname(os.path.abspath(__file__)))
repo = os.environ.get("VERIF_REPO", "/repo")
env = dict(os.environ, GOFLAGS="-mod=mod", GOPROXY="off")
subprocess.run(["go", "build", "-o", "bin/translator", "."], cwd=os.path.join(ROOT, "translator"), env=env, check=True)
facts = set()
for f in glob.glob(os.path.join(ROOT, "checks.d", "*.json")):
    facts |= set(json.load(open(f)).get("gen", []))
bad = 0
for g in sorted(facts):
    r = subprocess.run([os.path.join(ROOT, "translator/bin/translator"), "-repo", repo, "-fact", g, "-o", os.path.join(ROOT, "lean/Litestream/Gen", g + ".lean")], capture_output=True, text=True)
    print(g, "ok" if r.returncode == 0 else "FAILED " + r.stderr.strip()[:200])
    bad += r.returncode != 0
sys.exit(1 if bad else 0)
