#!/bin/bash
# tools/seedcheck.sh <PROP> <worktree> <name>
# Confirms a seeded change independently (build, vet, demo fails with / passes without),
# runs ./check <PROP> quick against the worktree (VERIF_REPO) and stores the result in seeded/<name>/.
set -u
PROP=$1; WT=$2; NAME=${3:-$1}
export GOFLAGS=-mod=mod GOPROXY=off
OUT=/verif/seeded/$NAME; mkdir -p $OUT
cd $WT || exit 2
CHANGED=$(git diff --name-only | grep -v 'seeded_demo' | tr '\n' ' ')
git diff -- $CHANGED > $OUT/patch.diff
DEMO=$(ls seeded_demo_test.go seeded_demo*_test.go 2>/dev/null | head -3 | tr '\n' ' ')
[ -d seeded_demo ] && cp -r seeded_demo $OUT/ 
for f in $DEMO SEEDED.md; do [ -f $f ] && cp $f $OUT/; done
echo "== changed: $CHANGED" | tee $OUT/confirm.log
( go build ./... && go vet . ) >> $OUT/confirm.log 2>&1; echo "build+vet rc=$?" | tee -a $OUT/confirm.log
RUNDEMO="go test -count=1 -run Seeded -timeout 10m ."
[ -z "$DEMO" ] && [ -d seeded_demo ] && RUNDEMO="go run ./seeded_demo"
[ -f s3/seeded_demo_test.go ] && { RUNDEMO="env -u AWS_CA_BUNDLE go test -count=1 -run Seeded ./s3/"; cp s3/seeded_demo_test.go $OUT/; }
grep -q 'tags vfs' SEEDED.md 2>/dev/null && [ -d seeded_demo ] && RUNDEMO="env CGO_ENABLED=1 go run -tags vfs ./seeded_demo"
( $RUNDEMO ) > $OUT/demo_with.log 2>&1; W=$?; echo "demo WITH change rc=$W (expect non-zero)" | tee -a $OUT/confirm.log
git apply -R $OUT/patch.diff
( $RUNDEMO ) > $OUT/demo_without.log 2>&1; WO=$?; echo "demo WITHOUT change rc=$WO (expect 0)" | tee -a $OUT/confirm.log
git apply $OUT/patch.diff
cd /verif
( VERIF_REPO=$WT ./check $PROP quick ) > $OUT/check.log 2>&1; RC=$?
grep -h "VIOLATION\|KNOWN-FINDING" $OUT/check.log | cut -c1-300 | tee -a $OUT/confirm.log
echo "check $PROP quick against seeded tree: exit $RC" | tee -a $OUT/confirm.log
# alt engines are left in place: another run (a builder, the queue) may be using them; they are git-ignored
