#!/usr/bin/env python3
"""mkmeta.py <seeded-name> <property> <change> <needs_to_manifest> [check_result-override]
Writes seeded/<name>/meta.json from confirm.log / check.log produced by tools/seedcheck.sh."""
import json, os, re, sys

name, prop, change, needs = sys.argv[1:5]
override = sys.argv[5] if len(sys.argv) > 5 else None
d = os.path.join(os.path.dirname(os.path.dirname(os.path.abspath(__file__))), "seeded", name)
conf = open(os.path.join(d, "confirm.log")).read()
chk = open(os.path.join(d, "check.log")).read() if os.path.exists(os.path.join(d, "check.log")) else ""
viol = sorted(set(re.findall(r"^VIOLATION property=\S+ replay=\S+.*$", chk + "\n" + conf, flags=re.M)))
m_exit = re.search(r"check \S+ quick against seeded tree: exit (\d+)", conf)
caught = bool(viol) and m_exit and m_exit.group(1) == "1" and any(("property=%s " % prop) in v for v in viol)
meta = {
    "property": prop,
    "change": change,
    "needs_to_manifest": needs,
    "origin": "fresh sub-agent given only the property text and a scratch worktree of /repo",
    "confirmed": {
        "build_vet": "build+vet rc=0" in conf,
        "demo_fails_with_change": bool(re.search(r"demo WITH change rc=[1-9]", conf)),
        "demo_passes_without_change": "demo WITHOUT change rc=0" in conf,
        "existing_test_suite": "passes except the root-only TestReplica_UploadLTXFile_OpenErrorReturnsLTXError/PermissionDenied (fails on the unchanged tree too); see SEEDED.md",
    },
    "ran": "tools/seedcheck.sh %s <scratch worktree> %s (VERIF_REPO=<worktree> ./check %s quick)" % (prop, name, prop),
    "check_result": override or ("caught" if caught else "missed"),
    "violation_lines": viol,
}
json.dump(meta, open(os.path.join(d, "meta.json"), "w"), indent=1)
print(name, meta["check_result"], meta["confirmed"])
