package main

import "strings"

// VerifySteps: the guarded assignments to the decision (info.*), the state it clears, the helper
// calls and the returns of DB.verifyWithExecutor, in source order.
func init() {
	facts["VerifySteps"] = func(repo string) (string, error) {
		p, err := loadPkg(repo)
		if err != nil {
			return "", err
		}
		fd, err := p.funcDecl("DB", "verifyWithExecutor")
		if err != nil {
			return "", err
		}
		st := guardedSteps(&tctx{p: p}, fd, map[string]bool{"lastPageMatch": true, "detectFullCheckpoint": true, "readWALHeader": true},
			true, []string{"info.", "exec.state.", "saltMatch", "prevWALOffset"})
		// returns that only wrap an error carry long text; keep "return info, nil" and collapse the rest
		var out [][2]string
		for _, s := range st {
			if strings.HasPrefix(s[0], "return ") && s[0] != "return info,nil" {
				s[0] = "return error"
			}
			out = append(out, s)
		}
		var sb strings.Builder
		sb.WriteString("namespace Litestream.Gen.VerifySteps\n\n/-- (step, enclosing guard) of DB.verifyWithExecutor in source order -/\ndef steps : List (String × String) := " + leanStrPairs(out) + "\n\nend Litestream.Gen.VerifySteps\n")
		return sb.String(), nil
	}
}
