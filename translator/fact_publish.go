package main

import (
	"fmt"
	"go/ast"
	"go/parser"
	"go/token"
	"go/types"
	"os"
	"path/filepath"
	"strings"
)

// Publish: the ordered file-system "publish protocol" calls (create / write / fsync / close /
// rename / fsyncDir / remove) on the success path of the functions that stage a file under a
// temporary name and rename it into place. See lean/Litestream/Model/Fs.lean for the step type.

type pubWalker struct {
	p        *pkg
	repo     string
	recv     string            // receiver identifier of the walked function ("" for plain functions)
	recvType string            // receiver type name
	handles  map[string]string // open-file variable -> role of the name it is reachable under
	alias    map[string]string // encoder variable -> file-handle variable
	pathRole map[string]string // path variable -> role, where the spelling alone does not decide
	steps    []string
	defers   []*ast.CallExpr
	depth    int // 1 inside an inlined callee
	// path-sensitive variants: assume maps the text of a (negation-stripped) condition to its assumed
	// value; exitIf is the top-level alternative-exit `if` this walk leaves the function through.
	assume map[string]bool
	exitIf *ast.IfStmt
	guards []ast.Expr // conditions of step-contributing optional blocks taken on the main path
}

// pubSplice: plain in-package functions that are extraction targets themselves.
var pubSplice = map[string]bool{"WriteTXIDFile": true}

// pubExclusive: staging files created with O_EXCL (a retry after a kill finds the stale file and fails).
var pubExclusive []string

var errPubExit = fmt.Errorf("left through an alternative exit")

// condKey strips parentheses and leading negations: (text of the base condition, negated?).
func condKey(e ast.Expr) (string, bool) {
	neg := false
	for {
		switch x := e.(type) {
		case *ast.ParenExpr:
			e = x.X
			continue
		case *ast.UnaryExpr:
			if x.Op == token.NOT {
				neg = !neg
				e = x.X
				continue
			}
		}
		return types.ExprString(e), neg
	}
}

// assumed reports the assumed truth value of cond on the walked path, if any.
func (w *pubWalker) assumed(cond ast.Expr) (val, known bool) {
	base, neg := condKey(cond)
	v, ok := w.assume[base]
	return v != neg, ok
}

func (w *pubWalker) runDefers() error {
	ds := w.defers
	for i := len(ds) - 1; i >= 0; i-- {
		var err error
		if fl, ok := ds[i].Fun.(*ast.FuncLit); ok {
			err = w.stmts(fl.Body.List)
		} else {
			err = w.expr(ds[i], nil)
		}
		if err != nil {
			return err
		}
	}
	return nil
}

func (w *pubWalker) emit(s string) {
	if strings.HasPrefix(s, "write ") && len(w.steps) > 0 && w.steps[len(w.steps)-1] == s {
		return // collapse consecutive writes to the same file
	}
	w.steps = append(w.steps, s)
}

func (w *pubWalker) role(e ast.Expr) string {
	if id, ok := e.(*ast.Ident); ok {
		if r, ok := w.pathRole[id.Name]; ok {
			return r
		}
	}
	if strings.Contains(strings.ToLower(types.ExprString(e)), "tmp") {
		return "tmp"
	}
	return "final"
}

// fileOf resolves an expression to the file-handle variable it denotes or writes through.
func (w *pubWalker) fileOf(e ast.Expr) (string, bool) {
	id, ok := e.(*ast.Ident)
	if !ok {
		return "", false
	}
	if h, ok := w.alias[id.Name]; ok {
		return h, true
	}
	_, ok = w.handles[id.Name]
	return id.Name, ok
}

func pubIsErrTest(cond ast.Expr) bool {
	found := false
	ast.Inspect(cond, func(n ast.Node) bool {
		if b, ok := n.(*ast.BinaryExpr); ok && b.Op == token.NEQ {
			x, ok1 := b.X.(*ast.Ident)
			y, ok2 := b.Y.(*ast.Ident)
			if ok1 && ok2 && y.Name == "nil" && strings.Contains(strings.ToLower(x.Name), "err") {
				found = true
			}
		}
		return true
	})
	return found
}

func pubHasReturn(list []ast.Stmt) bool {
	for _, s := range list {
		if _, ok := s.(*ast.ReturnStmt); ok {
			return true
		}
	}
	return false
}

func (w *pubWalker) stmts(list []ast.Stmt) error {
	for _, s := range list {
		if err := w.stmt(s); err != nil {
			return err
		}
	}
	return nil
}

func (w *pubWalker) stmt(s ast.Stmt) error {
	switch s := s.(type) {
	case *ast.IfStmt:
		return w.ifStmt(s)
	case *ast.BlockStmt:
		return w.stmts(s.List)
	case *ast.ExprStmt:
		return w.expr(s.X, nil)
	case *ast.AssignStmt:
		for i, r := range s.Rhs {
			lhs := s.Lhs
			if len(s.Rhs) > 1 {
				lhs = s.Lhs[i : i+1]
			}
			if err := w.expr(r, lhs); err != nil {
				return err
			}
		}
	case *ast.DeferStmt:
		w.defers = append(w.defers, s.Call)
	case *ast.ReturnStmt:
		return fmt.Errorf("return on the success path before the end of the function (%s)", w.p.fset.Position(s.Pos()))
	}
	return nil // declarations, loops, switch, go, select, inc/dec: not part of the protocol
}

// branch runs f on a copy of the state and returns the steps and defers it added.
func (w *pubWalker) branch(f func() error) ([]string, []*ast.CallExpr, pubWalker, error) {
	saved := *w
	w.handles, w.alias, w.pathRole = pubCopy(saved.handles), pubCopy(saved.alias), pubCopy(saved.pathRole)
	w.steps = append([]string(nil), saved.steps...)
	w.defers = append([]*ast.CallExpr(nil), saved.defers...)
	err := f()
	after := *w
	*w = saved
	return after.steps[len(saved.steps):], after.defers[len(saved.defers):], after, err
}

func pubCopy(m map[string]string) map[string]string {
	c := map[string]string{}
	for k, v := range m {
		c[k] = v
	}
	return c
}

func (w *pubWalker) ifStmt(s *ast.IfStmt) error {
	if s.Init != nil {
		if err := w.stmt(s.Init); err != nil {
			return err
		}
	}
	if pubIsErrTest(s.Cond) { // body is the error path; an else chain continues the success path
		if s.Else != nil {
			return w.stmt(s.Else)
		}
		return nil
	}
	thenExits := pubHasReturn(s.Body.List)
	if s.Else == nil {
		if thenExits {
			if s == w.exitIf { // this variant leaves the function here
				n := len(s.Body.List)
				ret, ok := s.Body.List[n-1].(*ast.ReturnStmt)
				if !ok {
					return fmt.Errorf("alternative exit at %s does not end in a return", w.p.fset.Position(s.Pos()))
				}
				if err := w.stmts(s.Body.List[:n-1]); err != nil {
					return err
				}
				for _, r := range ret.Results {
					if err := w.expr(r, nil); err != nil {
						return err
					}
				}
				if err := w.runDefers(); err != nil {
					return err
				}
				w.emit("ok")
				return errPubExit
			}
			return nil // alternative exit not taken on this path
		}
		if v, known := w.assumed(s.Cond); known {
			if !v {
				return nil // the condition is false on this path
			}
			return w.stmts(s.Body.List)
		}
		// condition not determined by the path: the block is taken here, and if it contributes protocol
		// steps it is recorded as a guard so that the path on which it is skipped is extracted as well
		// (a guarded fsyncDir is not an fsyncDir on every path)
		before := len(w.steps)
		if err := w.stmts(s.Body.List); err != nil {
			return err
		}
		if len(w.steps) > before && w.depth == 0 && w.exitIf == nil {
			w.guards = append(w.guards, s.Cond)
		}
		return nil
	}
	if v, known := w.assumed(s.Cond); known {
		if v {
			return w.stmts(s.Body.List)
		}
		return w.stmt(s.Else)
	}
	elseExits := false
	if b, ok := s.Else.(*ast.BlockStmt); ok {
		elseExits = pubHasReturn(b.List)
	}
	switch {
	case thenExits && elseExits:
		return nil
	case thenExits:
		return w.stmt(s.Else)
	case elseExits:
		return w.stmts(s.Body.List)
	}
	s1, d1, _, err := w.branch(func() error { return w.stmts(s.Body.List) })
	if err != nil {
		return err
	}
	s2, d2, after, err := w.branch(func() error { return w.stmt(s.Else) })
	if err != nil {
		return err
	}
	if strings.Join(s1, ";") != strings.Join(s2, ";") || len(d1) != len(d2) {
		return fmt.Errorf("if/else at %s: branches differ: [%s] vs [%s]", w.p.fset.Position(s.Pos()), strings.Join(s1, ", "), strings.Join(s2, ", "))
	}
	*w = after
	return nil
}

// expr classifies every call in e, innermost first; lhs are the variables e is assigned to.
func (w *pubWalker) expr(e ast.Expr, lhs []ast.Expr) error {
	var stack []ast.Node
	var calls []*ast.CallExpr
	ast.Inspect(e, func(n ast.Node) bool {
		if n == nil {
			if c, ok := stack[len(stack)-1].(*ast.CallExpr); ok {
				calls = append(calls, c)
			}
			stack = stack[:len(stack)-1]
			return true
		}
		if _, ok := n.(*ast.FuncLit); ok {
			return false
		}
		stack = append(stack, n)
		return true
	})
	for _, c := range calls {
		var l []ast.Expr
		if ast.Expr(c) == e {
			l = lhs
		}
		if err := w.call(c, l); err != nil {
			return err
		}
	}
	return nil
}

func (w *pubWalker) call(c *ast.CallExpr, lhs []ast.Expr) error {
	fun := types.ExprString(c.Fun)
	lhs0 := ""
	if len(lhs) > 0 {
		if id, ok := lhs[0].(*ast.Ident); ok && id.Name != "_" {
			lhs0 = id.Name
		}
	}
	arg := func(i int) ast.Expr {
		if i < len(c.Args) {
			return c.Args[i]
		}
		return &ast.Ident{Name: "_"}
	}
	create := func(r string) {
		w.emit("create " + r)
		if lhs0 != "" {
			w.handles[lhs0] = r
			delete(w.alias, lhs0)
		}
	}
	if pubSplice[fun] && w.depth == 0 {
		// another extracted protocol called on the success path: spliced in afterwards (every variant of it)
		w.emit("call " + fun)
		return nil
	}
	method, recv := "", ast.Expr(nil)
	if sel, ok := c.Fun.(*ast.SelectorExpr); ok {
		method, recv = sel.Sel.Name, sel.X
	}
	if path, isTemp, ok := pubCreate(c); ok {
		if len(c.Args) >= 2 && strings.Contains(types.ExprString(c.Args[1]), "O_EXCL") {
			pubExclusive = append(pubExclusive, w.p.fset.Position(c.Pos()).String())
		}
		if isTemp {
			create("tmp")
		} else {
			create(w.role(path))
		}
		return nil
	}
	switch {
	case fun == "os.Rename" && len(c.Args) == 2:
		a, b := w.role(c.Args[0]), w.role(c.Args[1])
		w.emit("rename " + a + " " + b)
		for h, r := range w.handles { // the open file follows the inode
			if r == a {
				w.handles[h] = b
			}
		}
		return nil
	case fun == "os.Remove" && len(c.Args) == 1:
		w.emit("remove " + w.role(c.Args[0]))
		return nil
	case fun == "internal.FsyncDir" && len(c.Args) == 1:
		ip, err := loadPkg(filepath.Join(w.repo, "internal"))
		if err != nil {
			return err
		}
		fd, err := ip.funcDecl("", "FsyncDir")
		if err != nil {
			return err
		}
		if !pubIsDirSync(fd) {
			return fmt.Errorf("internal.FsyncDir does not open its argument and call Sync")
		}
		w.emit("fsyncDir " + w.dirRole(c.Args[0]))
		return nil
	case fun == "io.Copy" || fun == "fmt.Fprintln" || fun == "fmt.Fprintf" || fun == "fmt.Fprint" || method == "DecodeDatabaseTo":
		if h, ok := w.fileOf(arg(0)); ok {
			w.emit("write " + w.handles[h])
		}
		return nil
	case fun == "ltx.NewEncoder":
		if h, ok := w.fileOf(arg(0)); ok && lhs0 != "" {
			w.alias[lhs0] = h
		}
		return nil
	}
	if id, ok := recv.(*ast.Ident); ok {
		if h, isAlias := w.alias[id.Name]; isAlias {
			switch method {
			case "EncodeHeader", "EncodePage", "Close": // Close writes the trailer
				w.emit("write " + w.handles[h])
			}
			return nil
		}
		if r, isHandle := w.handles[id.Name]; isHandle {
			switch method {
			case "Write", "WriteString", "WriteAt":
				w.emit("write " + r)
			case "Sync":
				w.emit("fsync " + r)
			case "Close":
				w.emit("close " + r)
			case "Name":
				if lhs0 != "" {
					w.pathRole[lhs0] = r
				}
			}
			return nil
		}
	}
	// in-package callee?
	var fd *ast.FuncDecl
	if id, ok := c.Fun.(*ast.Ident); ok {
		fd, _ = w.p.funcDecl("", id.Name)
	} else if id, ok := recv.(*ast.Ident); ok && w.recv != "" && id.Name == w.recv {
		fd, _ = w.p.funcDecl(w.recvType, method)
	}
	if fd == nil || fd.Body == nil {
		return nil
	}
	name := fd.Name.Name
	params := pubParams(fd)
	actual := func(param ast.Expr) (ast.Expr, bool) { // call-site argument bound to a callee parameter
		id, ok := param.(*ast.Ident)
		for i, pn := range params {
			if ok && pn == id.Name && i < len(c.Args) {
				return c.Args[i], true
			}
		}
		return nil, false
	}
	if pubIsDirSync(fd) && len(c.Args) == 1 {
		w.emit("fsyncDir " + w.dirRole(c.Args[0]))
		return nil
	}
	// checkpoint of a WAL into the file by SQLite (a write we do not see as an os call)
	ckpt := pubFindCall(fd.Body, func(k *ast.CallExpr) bool { return types.ExprString(k.Fun) == "checkpointV3" })
	if name == "checkpointV3" || name == "applyWALSegmentsV3" || ckpt != nil {
		target := ast.Expr(nil)
		if name == "checkpointV3" {
			target = arg(0)
		} else if ckpt != nil && len(ckpt.Args) == 1 {
			target, _ = actual(ckpt.Args[0])
		}
		cfd, err := w.p.funcDecl("", "checkpointV3")
		if err != nil {
			return fmt.Errorf("%s: %w", name, err)
		}
		lit := false
		ast.Inspect(cfd, func(n ast.Node) bool {
			if b, ok := n.(*ast.BasicLit); ok && b.Kind == token.STRING && strings.Contains(b.Value, "wal_checkpoint") {
				lit = true
			}
			return true
		})
		if target == nil || !lit {
			return fmt.Errorf("%s: cannot tie the call to a wal_checkpoint of one of its path arguments", name)
		}
		w.emit("extWrite " + w.role(target))
		return nil
	}
	for _, a := range c.Args { // an open file (or its encoder) handed to our own code: it writes
		if h, ok := w.fileOf(a); ok {
			w.emit("write " + w.handles[h])
			return nil
		}
	}
	if w.depth > 0 {
		return nil
	}
	// inline one level if the callee creates a file at a path it receives as a parameter
	in := &pubWalker{p: w.p, repo: w.repo, recvType: w.recvType, handles: map[string]string{}, alias: map[string]string{}, pathRole: map[string]string{}, depth: 1}
	if fd.Recv != nil && len(fd.Recv.List) == 1 && len(fd.Recv.List[0].Names) == 1 {
		in.recv = fd.Recv.List[0].Names[0].Name
	}
	pubFindCall(fd.Body, func(k *ast.CallExpr) bool {
		if path, isTemp, ok := pubCreate(k); ok && !isTemp {
			if a, ok := actual(path); ok {
				in.pathRole[path.(*ast.Ident).Name] = w.role(a)
			}
		}
		return false
	})
	if len(in.pathRole) == 0 {
		return nil
	}
	if err := in.body(fd.Body.List, false); err != nil {
		return fmt.Errorf("%s: %w", name, err)
	}
	for _, s := range in.steps {
		w.emit(s)
	}
	return nil
}

// pubCreate recognises the calls that create (or truncate-create) a file and returns its path argument.
func pubCreate(c *ast.CallExpr) (path ast.Expr, isTemp, ok bool) {
	fun := types.ExprString(c.Fun)
	method := ""
	if sel, ok := c.Fun.(*ast.SelectorExpr); ok {
		method = sel.Sel.Name
	}
	switch {
	case fun == "os.CreateTemp":
		return nil, true, true
	case len(c.Args) >= 1 && (fun == "os.Create" || fun == "internal.CreateFile"):
		return c.Args[0], false, true
	case len(c.Args) >= 2 && (fun == "os.OpenFile" || method == "openLTXFile") && strings.Contains(types.ExprString(c.Args[1]), "O_CREATE"):
		return c.Args[0], false, true
	}
	return nil, false, false
}

func (w *pubWalker) dirRole(e ast.Expr) string {
	if c, ok := e.(*ast.CallExpr); ok && types.ExprString(c.Fun) == "filepath.Dir" && len(c.Args) == 1 {
		return w.role(c.Args[0])
	}
	return w.role(e)
}

func pubParams(fd *ast.FuncDecl) []string {
	var out []string
	for _, f := range fd.Type.Params.List {
		if len(f.Names) == 0 {
			out = append(out, "_")
		}
		for _, n := range f.Names {
			out = append(out, n.Name)
		}
	}
	return out
}

func pubFindCall(n ast.Node, pred func(*ast.CallExpr) bool) *ast.CallExpr {
	var hit *ast.CallExpr
	ast.Inspect(n, func(n ast.Node) bool {
		if c, ok := n.(*ast.CallExpr); ok && hit == nil && pred(c) {
			hit = c
		}
		return hit == nil
	})
	return hit
}

// pubIsDirSync: a one-parameter function that os.Open()s its parameter and calls .Sync().
func pubIsDirSync(fd *ast.FuncDecl) bool {
	ps := pubParams(fd)
	if len(ps) != 1 || fd.Body == nil {
		return false
	}
	open := pubFindCall(fd.Body, func(c *ast.CallExpr) bool {
		return types.ExprString(c.Fun) == "os.Open" && len(c.Args) == 1 && types.ExprString(c.Args[0]) == ps[0]
	})
	sync := pubFindCall(fd.Body, func(c *ast.CallExpr) bool {
		s, ok := c.Fun.(*ast.SelectorExpr)
		return ok && s.Sel.Name == "Sync" && len(c.Args) == 0
	})
	return open != nil && sync != nil
}

// body walks a function body: statements, the final return's expressions, the deferred calls
// (LIFO), and — for the walked function itself — `ok` for the final `return …, nil`.
func (w *pubWalker) body(list []ast.Stmt, top bool) error {
	var last *ast.ReturnStmt
	if n := len(list); n > 0 {
		if r, ok := list[n-1].(*ast.ReturnStmt); ok {
			last, list = r, list[:n-1]
		}
	}
	if top {
		ok := last != nil && len(last.Results) > 0
		if ok {
			id, isID := last.Results[len(last.Results)-1].(*ast.Ident)
			ok = isID && id.Name == "nil"
		}
		if !ok {
			return fmt.Errorf("the last top-level statement is not a `return …, nil`")
		}
	}
	if err := w.stmts(list); err != nil {
		return err
	}
	if last != nil {
		for _, r := range last.Results {
			if err := w.expr(r, nil); err != nil {
				return err
			}
		}
	}
	if err := w.runDefers(); err != nil {
		return err
	}
	if top {
		w.emit("ok")
	}
	return nil
}

// pubErrorExit: the block's return hands back an error value (fmt.Errorf, errors.New, an Err… value).
func pubErrorExit(list []ast.Stmt) bool {
	ret, ok := list[len(list)-1].(*ast.ReturnStmt)
	if !ok || len(ret.Results) == 0 {
		return false
	}
	last := types.ExprString(ret.Results[len(ret.Results)-1])
	for _, p := range []string{"fmt.Errorf(", "errors.New(", "Err", "err", "NewLTXError(", "litestream.Err"} {
		if strings.HasPrefix(last, p) {
			return true
		}
	}
	return false
}

type pubVariant struct {
	name  string
	steps []string
}

// pubExtract returns the main success path of the function and one variant per top-level alternative
// exit (`if <non-error condition> { …; return … }` directly in the function body). Paths are made
// consistent by condition text: on the main path every exit condition is false (so a block guarded by
// its negation is taken), on variant i exit conditions before i are false and condition i is true.
func pubExtract(p *pkg, repo, recvType, fn, name string) ([]pubVariant, error) {
	fd, err := p.funcDecl(recvType, fn)
	if err != nil {
		return nil, err
	}
	if fd.Body == nil {
		return nil, fmt.Errorf("%s: no body", name)
	}
	var exits []*ast.IfStmt
	for _, st := range fd.Body.List {
		if is, ok := st.(*ast.IfStmt); ok && is.Else == nil && !pubIsErrTest(is.Cond) && pubHasReturn(is.Body.List) && !pubErrorExit(is.Body.List) {
			exits = append(exits, is)
		}
	}
	var mainGuards []ast.Expr
	var skip ast.Expr // guard condition assumed false on this walk
	walk := func(exit int) ([]string, error) {
		w := &pubWalker{p: p, repo: repo, recvType: recvType, handles: map[string]string{}, alias: map[string]string{}, pathRole: map[string]string{}, assume: map[string]bool{}}
		if fd.Recv != nil && len(fd.Recv.List) == 1 && len(fd.Recv.List[0].Names) == 1 {
			w.recv = fd.Recv.List[0].Names[0].Name
		}
		for i, is := range exits {
			base, neg := condKey(is.Cond)
			if exit >= 0 && i > exit {
				break
			}
			w.assume[base] = (i == exit) != neg
		}
		if exit >= 0 {
			w.exitIf = exits[exit]
		}
		if skip != nil {
			base, neg := condKey(skip)
			w.assume[base] = neg // cond false
		}
		defer func() {
			if exit < 0 && skip == nil {
				mainGuards = w.guards
			}
		}()
		if err := w.body(fd.Body.List, true); err != nil && err != errPubExit {
			return nil, err
		} else if exit >= 0 && err != errPubExit {
			return nil, fmt.Errorf("alternative exit %d was not reached", exit)
		}
		return w.steps, nil
	}
	main, err := walk(-1)
	if err != nil {
		return nil, fmt.Errorf("%s: %w", name, err)
	}
	all := " " + strings.Join(main, ", ") + ","
	if !strings.Contains(all, " create ") || !strings.Contains(all, " rename ") || main[len(main)-1] != "ok" {
		return nil, fmt.Errorf("%s: extracted sequence is not a publish protocol (needs create, rename, final ok): [%s]", name, strings.Join(main, ", "))
	}
	out := []pubVariant{{name, main}}
	for _, g := range mainGuards {
		skip = g
		steps, err := walk(-1)
		skip = nil
		if err != nil {
			return nil, fmt.Errorf("%s[!(%s)]: %w", name, types.ExprString(g), err)
		}
		out = append(out, pubVariant{name + "[!(" + types.ExprString(g) + ")]", steps})
	}
	for i, is := range exits {
		steps, err := walk(i)
		if err != nil {
			return nil, fmt.Errorf("%s[%s]: %w", name, types.ExprString(is.Cond), err)
		}
		out = append(out, pubVariant{name + "[" + types.ExprString(is.Cond) + "]", steps})
	}
	return out, nil
}

func init() {
	facts["Publish"] = func(repo string) (string, error) {
		pubExclusive = nil
		root, err := loadPkg(repo)
		if err != nil {
			return "", err
		}
		filePkg, err := loadPkg(filepath.Join(repo, "file"))
		if err != nil {
			return "", err
		}
		type target struct {
			p             *pkg
			src, recv, fn string
			name          string
		}
		ts := []target{
			{root, "db.go", "DB", "sync", "DB.sync"},
			{filePkg, "file/replica_client.go", "ReplicaClient", "WriteLTXFile", "file.ReplicaClient.WriteLTXFile"},
			{root, "replica.go", "Replica", "Restore", "Replica.Restore"},
			{root, "replica.go", "Replica", "RestoreV3", "Replica.RestoreV3"},
			{root, "replica.go", "", "WriteTXIDFile", "WriteTXIDFile"},
			{root, "db.go", "DB", "checkDatabaseBehindReplica", "DB.checkDatabaseBehindReplica"},
		}
		// vfs.go carries the `vfs` build tag, which loadPkg skips: parse it into a copy of the package.
		vfsPath := filepath.Join(repo, "vfs.go")
		if _, statErr := os.Stat(vfsPath); statErr == nil {
			f, err := parser.ParseFile(root.fset, vfsPath, nil, parser.ParseComments)
			if err != nil {
				return "", err
			}
			vp := &pkg{fset: root.fset, files: map[string]*ast.File{"vfs.go": f}, dir: repo}
			for n, rf := range root.files {
				vp.files[n] = rf
			}
			if _, err := vp.funcDecl("Hydrator", "saveMeta"); err == nil {
				ts = append(ts, target{vp, "vfs.go", "Hydrator", "saveMeta", "Hydrator.saveMeta"})
			}
		} else if !os.IsNotExist(statErr) {
			return "", statErr
		}
		var sb, js strings.Builder
		var ids []string
		sb.WriteString("import Litestream.Model.Fs\nnamespace Litestream.Gen\nopen Litestream.Fs\n\n")
		type entry struct {
			pubVariant
			id, doc string
		}
		var mains, variants []entry
		byFn := map[string][]pubVariant{}
		for _, t := range ts {
			vs, err := pubExtract(t.p, repo, t.recv, t.fn, t.name)
			if err != nil {
				return "", err
			}
			byFn[t.fn] = vs
			decl := t.fn
			if t.recv != "" {
				decl = "(*" + t.recv + ")." + t.fn
			}
			for i, v := range vs {
				e := entry{v, "proto_" + strings.ReplaceAll(t.name, ".", "_"), t.src + ": " + decl}
				if i == 0 {
					mains = append(mains, e)
				} else {
					e.id += fmt.Sprintf("_exit%d", i)
					e.doc += " on the path `" + strings.TrimSuffix(strings.SplitN(v.name, "[", 2)[1], "]") + "`"
					variants = append(variants, e)
				}
			}
		}
		// splice called protocols (every variant of the callee, without its final ok) into their callers
		var expanded []entry
		for _, e := range append(mains, variants...) {
			todo := []entry{e}
			for len(todo) > 0 {
				cur := todo[0]
				todo = todo[1:]
				at := -1
				for i, st := range cur.steps {
					if strings.HasPrefix(st, "call ") {
						at = i
						break
					}
				}
				if at < 0 {
					expanded = append(expanded, cur)
					continue
				}
				callee := strings.TrimPrefix(cur.steps[at], "call ")
				cvs, ok := byFn[callee]
				if !ok {
					return "", fmt.Errorf("%s calls %s, which was not extracted", cur.name, callee)
				}
				for j, cv := range cvs {
					n := entry{cur.pubVariant, cur.id, cur.doc}
					n.steps = append(append(append([]string(nil), cur.steps[:at]...), cv.steps[:len(cv.steps)-1]...), cur.steps[at+1:]...)
					n.name = cur.name + "+" + cv.name
					n.id = fmt.Sprintf("%s_c%d", cur.id, j)
					todo = append(todo, n)
				}
			}
		}
		for i, e := range expanded {
			var lean, quoted []string
			for _, s := range e.steps {
				lean = append(lean, "."+strings.ReplaceAll(s, " ", " ."))
				quoted = append(quoted, `"`+s+`"`)
			}
			ids = append(ids, e.id)
			fmt.Fprintf(&sb, "/-- %s -/\ndef %s : Protocol := ⟨%q, [%s]⟩\n\n", e.doc, e.id, e.name, strings.Join(lean, ", "))
			if i > 0 {
				js.WriteString(",")
			}
			fmt.Fprintf(&js, `{"name":%q,"steps":[%s]}`, e.name, strings.Join(quoted, ","))
		}
		fmt.Fprintf(&sb, "def publishProtocols : List Protocol := [%s]\n\n", strings.Join(ids, ", "))
		seen := map[string]bool{}
		var excl []string
		for _, e := range pubExclusive {
			e = strings.TrimPrefix(e, repo+"/")
			if !seen[e] {
				seen[e] = true
				excl = append(excl, fmt.Sprintf("%q", e))
			}
		}
		fmt.Fprintf(&sb, "/-- staging files of the publishing functions that are created exclusively (O_EXCL): after a kill the stale\n    staging file makes the retry's first step fail unless it is removed first -/\ndef exclusiveStagingCreates : List String := [%s]\n\n", strings.Join(excl, ", "))
		openTmp, err := openRemovesTmp(root)
		if err != nil {
			return "", err
		}
		fmt.Fprintf(&sb, "/-- db.go: (*DB).Open calls removeTmpFiles(db.metaPath) on its success path before marking the DB opened,\n    and litestream.go removeTmpFiles removes (os.Remove) the names ending in \".tmp\" it walks over. -/\ndef openRemovesTmp : Bool := %v\n\nend Litestream.Gen\n", openTmp)
		fmt.Fprintf(&sb, "-- JSON: {\"protocols\":[%s]}\n", js.String())
		return sb.String(), nil
	}
}

// openRemovesTmp reports whether (*DB).Open calls removeTmpFiles(db.metaPath) at the top level of its body
// (in an `if err := …; err != nil` statement or as a plain call) before the assignment `db.opened = true`,
// and whether removeTmpFiles walks the tree and calls os.Remove guarded by a ".tmp" suffix test.
func openRemovesTmp(root *pkg) (bool, error) {
	fd, err := root.funcDecl("DB", "Open")
	if err != nil {
		return false, err
	}
	called := false
	for _, st := range fd.Body.List {
		var call ast.Expr
		switch x := st.(type) {
		case *ast.IfStmt:
			if as, ok := x.Init.(*ast.AssignStmt); ok && len(as.Rhs) == 1 {
				call = as.Rhs[0]
			}
		case *ast.ExprStmt:
			call = x.X
		case *ast.AssignStmt:
			if len(x.Lhs) == 1 && len(x.Rhs) == 1 {
				if sel, ok := x.Lhs[0].(*ast.SelectorExpr); ok && sel.Sel.Name == "opened" {
					if id, ok := x.Rhs[0].(*ast.Ident); ok && id.Name == "true" {
						goto done
					}
				}
				call = x.Rhs[0]
			}
		}
		if ce, ok := call.(*ast.CallExpr); ok {
			if id, ok := ce.Fun.(*ast.Ident); ok && id.Name == "removeTmpFiles" && len(ce.Args) == 1 {
				if sel, ok := ce.Args[0].(*ast.SelectorExpr); ok && sel.Sel.Name == "metaPath" {
					called = true
				}
			}
		}
	}
done:
	rd, err := root.funcDecl("", "removeTmpFiles")
	if err != nil {
		return false, err
	}
	hasRemove, hasSuffix := false, false
	ast.Inspect(rd.Body, func(n ast.Node) bool {
		switch x := n.(type) {
		case *ast.CallExpr:
			if sel, ok := x.Fun.(*ast.SelectorExpr); ok {
				if id, ok := sel.X.(*ast.Ident); ok && id.Name == "os" && sel.Sel.Name == "Remove" {
					hasRemove = true
				}
			}
		case *ast.BasicLit:
			if x.Value == `".tmp"` {
				hasSuffix = true
			}
		}
		return true
	})
	return called && hasRemove && hasSuffix, nil
}
