package main

import (
	"fmt"
	"go/ast"
	"strings"
)

// guardedCalls lists, in source order, every call in fd's body whose callee name is in `calls`,
// as "name(args)" together with the conjunction of the enclosing if-conditions (else branches
// negated; an `if x, err := f(); err != nil {} else if x {}` chain keeps its init statements'
// calls attributed to the enclosing guard).  Returns are recorded as "return" when wantReturns.
func guardedCalls(c *tctx, fd *ast.FuncDecl, calls map[string]bool, wantReturns bool) [][2]string {
	return guardedSteps(c, fd, calls, wantReturns, nil)
}

// guardedSteps is guardedCalls plus assignments whose left-hand side starts with one of assignPrefixes
// (recorded as "set lhs = rhs").
func guardedSteps(c *tctx, fd *ast.FuncDecl, calls map[string]bool, wantReturns bool, assignPrefixes []string) [][2]string {
	norm := func(s string) string { return strings.Join(strings.Fields(s), " ") }
	var out [][2]string
	callsIn := func(n ast.Node, conds []string) {
		if n == nil {
			return
		}
		ast.Inspect(n, func(m ast.Node) bool {
			if _, ok := m.(*ast.FuncLit); ok {
				return false
			}
			ce, ok := m.(*ast.CallExpr)
			if !ok {
				return true
			}
			name := ""
			switch f := ce.Fun.(type) {
			case *ast.Ident:
				name = f.Name
			case *ast.SelectorExpr:
				name = f.Sel.Name
			}
			if calls[name] {
				var as []string
				for _, a := range ce.Args {
					as = append(as, norm(c.src(a)))
				}
				out = append(out, [2]string{fmt.Sprintf("%s(%s)", name, strings.Join(as, ",")), strings.Join(conds, " && ")})
			}
			return true
		})
	}
	var walk func(n ast.Stmt, conds []string)
	walk = func(n ast.Stmt, conds []string) {
		switch x := n.(type) {
		case nil:
		case *ast.BlockStmt:
			for _, s := range x.List {
				walk(s, conds)
			}
		case *ast.IfStmt:
			if x.Init != nil {
				walk(x.Init, conds)
			}
			callsIn(x.Cond, conds)
			cs := append(append([]string{}, conds...), norm(c.src(x.Cond)))
			walk(x.Body, cs)
			if x.Else != nil {
				walk(x.Else, append(append([]string{}, conds...), "!("+norm(c.src(x.Cond))+")"))
			}
		case *ast.ReturnStmt:
			for _, r := range x.Results {
				callsIn(r, conds)
			}
			if wantReturns {
				var rs []string
				for _, r := range x.Results {
					rs = append(rs, norm(c.src(r)))
				}
				out = append(out, [2]string{"return " + strings.Join(rs, ","), strings.Join(conds, " && ")})
			}
		case *ast.AssignStmt:
			for i, l := range x.Lhs {
				lhs := norm(c.src(l))
				for _, pre := range assignPrefixes {
					if strings.HasPrefix(lhs, pre) {
						rhs := "?"
						if i < len(x.Rhs) {
							rhs = norm(c.src(x.Rhs[i]))
						} else if len(x.Rhs) == 1 {
							rhs = norm(c.src(x.Rhs[0]))
						}
						out = append(out, [2]string{"set " + lhs + " = " + rhs, strings.Join(conds, " && ")})
						break
					}
				}
			}
			callsIn(n, conds)
		case *ast.ForStmt:
			walk(x.Body, append(append([]string{}, conds...), "for"))
		case *ast.RangeStmt:
			walk(x.Body, append(append([]string{}, conds...), "for"))
		default:
			callsIn(n, conds)
		}
	}
	walk(fd.Body, nil)
	return out
}

func leanStrPairs(ps [][2]string) string {
	var ss []string
	for _, p := range ps {
		ss = append(ss, fmt.Sprintf("(%q, %q)", p[0], p[1]))
	}
	return "[\n  " + strings.Join(ss, ",\n  ") + "\n]"
}
