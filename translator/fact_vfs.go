package main

import (
	"fmt"
	"go/ast"
	"go/parser"
	"go/token"
	"path/filepath"
	"strings"
)

// Vfs: the shape of (*VFSFile).pollReplicaClient (vfs.go, build tag vfs) that the Lean poll handler
// (Model/Vfs.lean pollReplica: "if v.target then unchanged else apply", one atomic step) relies on:
// the `f.targetTime != nil` test sits INSIDE the f.mu critical section that applies the polled
// updates — after the top-level `f.mu.Lock()` (+ `defer f.mu.Unlock()`), before the loop that merges
// `combined` into the index — with no unlock in between, and no other early return on the target
// time before the listing/fetching. pollSteps lists the recognised top-level statements in order.
func init() {
	facts["Vfs"] = func(repo string) (string, error) {
		fset := token.NewFileSet()
		file, err := parser.ParseFile(fset, filepath.Join(repo, "vfs.go"), nil, 0)
		if err != nil {
			return "", err
		}
		var fd *ast.FuncDecl
		for _, d := range file.Decls {
			if f, ok := d.(*ast.FuncDecl); ok && f.Name.Name == "pollReplicaClient" && f.Recv != nil {
				fd = f
			}
		}
		if fd == nil {
			return "", fmt.Errorf("vfs.go: (*VFSFile).pollReplicaClient not found")
		}
		isMuCall := func(e ast.Expr, name string) bool { // f.mu.<name>()
			ce, ok := e.(*ast.CallExpr)
			if !ok {
				return false
			}
			s, ok := ce.Fun.(*ast.SelectorExpr)
			if !ok || s.Sel.Name != name {
				return false
			}
			m, ok := s.X.(*ast.SelectorExpr)
			return ok && m.Sel.Name == "mu"
		}
		mentions := func(n ast.Node, what string) bool {
			found := false
			ast.Inspect(n, func(x ast.Node) bool {
				switch v := x.(type) {
				case *ast.SelectorExpr:
					if v.Sel.Name == what {
						found = true
					}
				case *ast.Ident:
					if v.Name == what {
						found = true
					}
				}
				return true
			})
			return found
		}
		returns := func(b *ast.BlockStmt) bool {
			for _, st := range b.List {
				if _, ok := st.(*ast.ReturnStmt); ok {
					return true
				}
			}
			return false
		}
		var steps []string
		for _, st := range fd.Body.List {
			switch s := st.(type) {
			case *ast.ExprStmt:
				if isMuCall(s.X, "Lock") {
					steps = append(steps, "lock")
				} else if isMuCall(s.X, "Unlock") {
					steps = append(steps, "unlock")
				}
			case *ast.DeferStmt:
				if isMuCall(s.Call, "Unlock") {
					steps = append(steps, "defer-unlock")
				}
			case *ast.AssignStmt:
				if mentions(s, "pollLevel") {
					steps = append(steps, "pollLevel")
				}
			case *ast.IfStmt:
				if (mentions(s.Cond, "targetTime") || mentions(s.Cond, "hasTargetTime")) && returns(s.Body) {
					steps = append(steps, "target-check")
				}
			case *ast.RangeStmt:
				if id, ok := s.X.(*ast.Ident); ok && id.Name == "combined" {
					steps = append(steps, "apply")
				}
			}
		}
		// atomic: the LAST lock before apply is followed (without unlock) by the only target-check, then apply
		atomic := false
		apply, lastLock, checks, check := -1, -1, 0, -1
		for i, s := range steps {
			switch s {
			case "apply":
				if apply < 0 {
					apply = i
				}
			case "target-check":
				checks++
				check = i
			}
		}
		if apply < 0 {
			return "", fmt.Errorf("pollReplicaClient: the loop merging `combined` into the index was not found")
		}
		for i := 0; i < apply; i++ {
			if steps[i] == "lock" {
				lastLock = i
			}
		}
		if checks == 1 && lastLock >= 0 && lastLock < check && check < apply {
			atomic = true
			for i := lastLock + 1; i < apply; i++ {
				if steps[i] == "unlock" {
					atomic = false
				}
			}
		}
		q := make([]string, len(steps))
		for i, s := range steps {
			q[i] = fmt.Sprintf("%q", s)
		}
		var sb strings.Builder
		sb.WriteString("namespace Litestream.Gen\n\n")
		fmt.Fprintf(&sb, "/-- vfs.go pollReplicaClient: recognised top-level statements in source order -/\ndef vfsPollSteps : List String := [%s]\n\n", strings.Join(q, ", "))
		fmt.Fprintf(&sb, "/-- the target-time test is made inside the critical section that applies the updates -/\ndef vfsPollTargetCheckAtomic : Bool := %v\n\nend Litestream.Gen\n", atomic)
		return sb.String(), nil
	}
}
