package main

import (
	"fmt"
	"go/ast"
	"strings"
)

// Checkpoint: calcWALSize, exceedsTruncateThreshold, effectiveTruncatePageN and the constants they use (db.go, litestream.go).
func init() {
	facts["Checkpoint"] = func(repo string) (string, error) {
		p, err := loadPkg(repo)
		if err != nil {
			return "", err
		}
		c := &tctx{p: p, fields: map[string]string{}, consts: map[string]string{
			"WALHeaderSize": "walHeaderSize", "WALFrameHeaderSize": "walFrameHeaderSize",
			"DefaultTruncatePageN": "defaultTruncatePageN",
		}}
		var sb strings.Builder
		sb.WriteString("namespace Litestream.Gen.Ck\n\n")
		for _, k := range [][2]string{{"WALHeaderSize", "walHeaderSize"}, {"WALFrameHeaderSize", "walFrameHeaderSize"},
			{"DefaultTruncatePageN", "defaultTruncatePageN"}, {"DefaultMinCheckpointPageN", "defaultMinCheckpointPageN"}} {
			e, err := p.constExpr(k[0])
			if err != nil {
				return "", err
			}
			v, err := (&tctx{p: p, fields: map[string]string{}, consts: map[string]string{}}).nat(e)
			if err != nil {
				return "", fmt.Errorf("%s: %w", k[0], err)
			}
			fmt.Fprintf(&sb, "def %s : Nat := %s\n", k[1], v)
		}
		// calcWALSize(pageSize, pageN)
		fd, err := p.funcDecl("", "calcWALSize")
		if err != nil {
			return "", err
		}
		names := paramNames(fd)
		if len(names) != 2 {
			return "", fmt.Errorf("calcWALSize: unexpected parameters")
		}
		body, err := c.ifChain(fd.Body.List, "nat")
		if err != nil {
			return "", fmt.Errorf("calcWALSize: %w", err)
		}
		fmt.Fprintf(&sb, "\n/-- db.go: calcWALSize -/\ndef calcWALSize (%s %s : Nat) : Nat :=\n  %s\n", names[0], names[1], body)
		// effectiveTruncatePageN: receiver field db.TruncatePageN -> parameter
		fd, err = p.funcDecl("DB", "effectiveTruncatePageN")
		if err != nil {
			return "", err
		}
		c2 := &tctx{p: p, fields: map[string]string{}, consts: map[string]string{"db.TruncatePageN": "truncatePageN", "DefaultTruncatePageN": "defaultTruncatePageN"}}
		body, err = c2.ifChain(fd.Body.List, "nat")
		if err != nil {
			return "", fmt.Errorf("effectiveTruncatePageN: %w", err)
		}
		fmt.Fprintf(&sb, "\n/-- db.go: (*DB).effectiveTruncatePageN -/\ndef effectiveTruncatePageN (truncatePageN : Nat) : Nat :=\n  %s\n", body)
		// exceedsTruncateThreshold
		fd, err = p.funcDecl("DB", "exceedsTruncateThreshold")
		if err != nil {
			return "", err
		}
		pn := paramNames(fd)
		if len(pn) != 1 {
			return "", fmt.Errorf("exceedsTruncateThreshold: unexpected parameters")
		}
		c3 := &tctx{p: p, fields: map[string]string{}, consts: map[string]string{"db.pageSize": "pageSize"}}
		// inline the call db.effectiveTruncatePageN() and calcWALSize(...)
		c3.calls = map[string]string{"db.effectiveTruncatePageN": "effectiveTruncatePageN truncatePageN", "calcWALSize": "calcWALSize"}
		body, err = c3.ifChain(fd.Body.List, "bool")
		if err != nil {
			return "", fmt.Errorf("exceedsTruncateThreshold: %w", err)
		}
		fmt.Fprintf(&sb, "\n/-- db.go: (*DB).exceedsTruncateThreshold -/\ndef exceedsTruncateThreshold (pageSize truncatePageN %s : Nat) : Bool :=\n  %s\n", pn[0], body)
		sb.WriteString("\nend Litestream.Gen.Ck\n")
		return sb.String(), nil
	}
}

func paramNames(fd *ast.FuncDecl) []string {
	var out []string
	for _, f := range fd.Type.Params.List {
		for _, n := range f.Names {
			out = append(out, n.Name)
		}
	}
	return out
}
