package main

import (
	"fmt"
	"go/ast"
	"strings"
)

// Checkpoint: calcWALSize, exceedsTruncateThreshold, effectiveTruncatePageN and the constants they use (db.go, litestream.go).
func init() {
	facts["Checkpoint"] = func(repo string) (string, error) {
		p, err := loadPkg(repo)
		if err != nil {
			return "", err
		}
		c := &tctx{p: p, fields: map[string]string{}, consts: map[string]string{
			"WALHeaderSize": "walHeaderSize", "WALFrameHeaderSize": "walFrameHeaderSize",
			"DefaultTruncatePageN": "defaultTruncatePageN",
		}}
		var sb strings.Builder
		sb.WriteString("namespace Litestream.Gen.Ck\n\n")
		for _, k := range [][2]string{{"WALHeaderSize", "walHeaderSize"}, {"WALFrameHeaderSize", "walFrameHeaderSize"},
			{"DefaultTruncatePageN", "defaultTruncatePageN"}, {"DefaultMinCheckpointPageN", "defaultMinCheckpointPageN"}} {
			e, err := p.constExpr(k[0])
			if err != nil {
				return "", err
			}
			v, err := (&tctx{p: p, fields: map[string]string{}, consts: map[string]string{}}).nat(e)
			if err != nil {
				return "", fmt.Errorf("%s: %w", k[0], err)
			}
			fmt.Fprintf(&sb, "def %s : Nat := %s\n", k[1], v)
		}
		// calcWALSize(pageSize, pageN)
		fd, err := p.funcDecl("", "calcWALSize")
		if err != nil {
			return "", err
		}
		names := paramNames(fd)
		if len(names) != 2 {
			return "", fmt.Errorf("calcWALSize: unexpected parameters")
		}
		body, err := c.ifChain(fd.Body.List, "nat")
		if err != nil {
			return "", fmt.Errorf("calcWALSize: %w", err)
		}
		fmt.Fprintf(&sb, "\n/-- db.go: calcWALSize -/\ndef calcWALSize (%s %s : Nat) : Nat :=\n  %s\n", names[0], names[1], body)
		// effectiveTruncatePageN: receiver field db.TruncatePageN -> parameter
		fd, err = p.funcDecl("DB", "effectiveTruncatePageN")
		if err != nil {
			return "", err
		}
		c2 := &tctx{p: p, fields: map[string]string{}, consts: map[string]string{"db.TruncatePageN": "truncatePageN", "DefaultTruncatePageN": "defaultTruncatePageN"}}
		body, err = c2.ifChain(fd.Body.List, "nat")
		if err != nil {
			return "", fmt.Errorf("effectiveTruncatePageN: %w", err)
		}
		fmt.Fprintf(&sb, "\n/-- db.go: (*DB).effectiveTruncatePageN -/\ndef effectiveTruncatePageN (truncatePageN : Nat) : Nat :=\n  %s\n", body)
		// exceedsTruncateThreshold
		fd, err = p.funcDecl("DB", "exceedsTruncateThreshold")
		if err != nil {
			return "", err
		}
		pn := paramNames(fd)
		if len(pn) != 1 {
			return "", fmt.Errorf("exceedsTruncateThreshold: unexpected parameters")
		}
		c3 := &tctx{p: p, fields: map[string]string{}, consts: map[string]string{"db.pageSize": "pageSize"}}
		// inline the call db.effectiveTruncatePageN() and calcWALSize(...)
		c3.calls = map[string]string{"db.effectiveTruncatePageN": "effectiveTruncatePageN truncatePageN", "calcWALSize": "calcWALSize"}
		body, err = c3.ifChain(fd.Body.List, "bool")
		if err != nil {
			return "", fmt.Errorf("exceedsTruncateThreshold: %w", err)
		}
		fmt.Fprintf(&sb, "\n/-- db.go: (*DB).exceedsTruncateThreshold -/\ndef exceedsTruncateThreshold (pageSize truncatePageN %s : Nat) : Bool :=\n  %s\n", pn[0], body)
		// the two gates around the checkpoint decision: syncLocked's `if … { checkpointIfNeeded }` and Sync's loop exit
		gate, err := condAround(p, "DB", "syncLocked", "checkpointIfNeeded")
		if err != nil {
			return "", err
		}
		g1, err := boolExpr(p, gate)
		if err != nil {
			return "", fmt.Errorf("syncLocked gate: %w", err)
		}
		fmt.Fprintf(&sb, "\n/-- db.go: syncLocked — the condition under which checkpointIfNeeded runs -/\ndef checkpointGate (synced limited syncedToWALEnd exceedsTruncate : Bool) : Bool :=\n  %s\n", g1)
		exit, err := condAround(p, "DB", "Sync", "return nil")
		if err != nil {
			return "", err
		}
		g2, err := boolExpr(p, exit)
		if err != nil {
			return "", fmt.Errorf("Sync loop exit: %w", err)
		}
		fmt.Fprintf(&sb, "\n/-- db.go: Sync — the condition under which the chunk loop stops -/\ndef syncLoopExit (synced limited syncedToWALEnd exceedsTruncate : Bool) : Bool :=\n  %s\n", g2)
		// checkpointIfNeeded: every checkpoint it can issue, with mode and guard, and its returns
		fd, err = p.funcDecl("DB", "checkpointIfNeeded")
		if err != nil {
			return "", err
		}
		gc := guardedCalls(&tctx{p: p}, fd, map[string]bool{"checkpointWithExecutor": true}, true)
		sb.WriteString("\n/-- db.go: checkpointIfNeeded — (checkpoint call or return, enclosing guard) in source order -/\ndef ifNeededSteps : List (String × String) := " + leanStrPairs(gc) + "\n")
		sb.WriteString("\nend Litestream.Gen.Ck\n")
		return sb.String(), nil
	}
}

func paramNames(fd *ast.FuncDecl) []string {
	var out []string
	for _, f := range fd.Type.Params.List {
		for _, n := range f.Names {
			out = append(out, n.Name)
		}
	}
	return out
}

// condAround returns the condition of the innermost `if` in recv.fn whose body (not else) contains
// a call to `callee` (or, for "return nil", a `return nil` statement directly in its body).
func condAround(p *pkg, recv, fn, callee string) (ast.Expr, error) {
	fd, err := p.funcDecl(recv, fn)
	if err != nil {
		return nil, err
	}
	var found ast.Expr
	ast.Inspect(fd.Body, func(n ast.Node) bool {
		is, ok := n.(*ast.IfStmt)
		if !ok {
			return true
		}
		hit := false
		for _, st := range is.Body.List {
			if callee == "return nil" {
				if rs, ok := st.(*ast.ReturnStmt); ok && len(rs.Results) == 1 {
					if id, ok := rs.Results[0].(*ast.Ident); ok && id.Name == "nil" {
						// only the `else if` exit of the loop carries the result-based condition
						if _, isBin := is.Cond.(*ast.BinaryExpr); isBin && strings.Contains((&tctx{p: p}).src(is.Cond), "result.") {
							hit = true
						}
					}
				}
				continue
			}
			ast.Inspect(st, func(m ast.Node) bool {
				if ce, ok := m.(*ast.CallExpr); ok {
					if sel, ok := ce.Fun.(*ast.SelectorExpr); ok && sel.Sel.Name == callee {
						hit = true
					}
				}
				return true
			})
		}
		if hit {
			found = is.Cond
		}
		return true
	})
	if found == nil {
		return nil, fmt.Errorf("%s.%s: no `if` around %s found", recv, fn, callee)
	}
	return found, nil
}

// boolExpr translates a condition over result.synced / result.limited / result.syncedToWALEnd /
// db.exceedsTruncateThreshold(...) into a Lean Bool term.
func boolExpr(p *pkg, e ast.Expr) (string, error) {
	switch x := e.(type) {
	case *ast.ParenExpr:
		s, err := boolExpr(p, x.X)
		return "(" + s + ")", err
	case *ast.UnaryExpr:
		if x.Op.String() == "!" {
			s, err := boolExpr(p, x.X)
			return "!" + s, err
		}
	case *ast.BinaryExpr:
		op := map[string]string{"||": " || ", "&&": " && "}[x.Op.String()]
		if op != "" {
			a, err := boolExpr(p, x.X)
			if err != nil {
				return "", err
			}
			b, err := boolExpr(p, x.Y)
			if err != nil {
				return "", err
			}
			return "(" + a + op + b + ")", nil
		}
	case *ast.SelectorExpr:
		if id, ok := x.X.(*ast.Ident); ok && id.Name == "result" {
			switch x.Sel.Name {
			case "synced", "limited", "syncedToWALEnd":
				return x.Sel.Name, nil
			}
		}
	case *ast.CallExpr:
		if sel, ok := x.Fun.(*ast.SelectorExpr); ok && sel.Sel.Name == "exceedsTruncateThreshold" && len(x.Args) == 1 {
			if (&tctx{p: p}).src(x.Args[0]) == "result.origWALSize" {
				return "exceedsTruncate", nil
			}
		}
	}
	return "", fmt.Errorf("condition outside the translatable subset: %s", (&tctx{p: p}).src(e))
}
