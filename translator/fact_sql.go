package main

import (
	"fmt"
	"go/ast"
	"go/token"
	"sort"
	"strconv"
	"strings"
)

// Sql: every SQL statement litestream issues against the source database
// (db.go, litestream.go: calls on db.db and on *sql.Tx values), every Commit
// call, and every file-system call whose path argument is the database path.
func init() {
	facts["Sql"] = func(repo string) (string, error) {
		p, err := loadPkg(repo)
		if err != nil {
			return "", err
		}
		sqlMethods := map[string]bool{"ExecContext": true, "QueryRowContext": true, "QueryContext": true, "Exec": true, "Query": true, "QueryRow": true, "PrepareContext": true, "Prepare": true}
		fsFuncs := map[string]bool{"Open": true, "OpenFile": true, "Create": true, "WriteFile": true, "Truncate": true, "Remove": true, "RemoveAll": true, "Rename": true, "Chtimes": true, "Chmod": true}
		var inv, commits, opens, passed, recvKinds []string
		files := []string{"db.go", "litestream.go", "store.go", "compactor.go", "server.go", "heartbeat.go", "log.go", "wal_reader.go"}
		for _, fn := range files {
			f, ok := p.files[fn]
			if !ok {
				continue
			}
			for _, d := range f.Decls {
				fd, ok := d.(*ast.FuncDecl)
				if !ok || fd.Body == nil {
					continue
				}
				// local string assignments (rawsql := `...` + mode + `...`)
				locals := map[string]ast.Expr{}
				ast.Inspect(fd.Body, func(n ast.Node) bool {
					if as, ok := n.(*ast.AssignStmt); ok && len(as.Lhs) == 1 && len(as.Rhs) == 1 {
						if id, ok := as.Lhs[0].(*ast.Ident); ok {
							locals[id.Name] = as.Rhs[0]
						}
					}
					return true
				})
				var strOf func(e ast.Expr) (string, bool)
				strOf = func(e ast.Expr) (string, bool) {
					switch x := e.(type) {
					case *ast.BasicLit:
						if x.Kind == token.STRING {
							s, err := strconv.Unquote(x.Value)
							return s, err == nil
						}
					case *ast.BinaryExpr:
						if x.Op == token.ADD {
							a, ok1 := strOf(x.X)
							b, ok2 := strOf(x.Y)
							return a + b, ok1 && ok2
						}
					case *ast.Ident:
						if r, ok := locals[x.Name]; ok {
							if _, isIdent := r.(*ast.Ident); !isIdent {
								if s, ok := strOf(r); ok {
									return s, true
								}
							}
						}
						return "<" + x.Name + ">", true
					}
					return "", false
				}
				ast.Inspect(fd.Body, func(n ast.Node) bool {
					ce, ok := n.(*ast.CallExpr)
					if !ok {
						return true
					}
					// the path of the database file (or its -shm) handed to any function other than os.* (listed
					// below), path arithmetic, metrics labels, logging and error formatting: a helper that opens it
					{
						callee := strings.Join(strings.Fields((&tctx{p: p}).src(ce.Fun)), "")
						last := callee
						if i := strings.LastIndex(last, "."); i >= 0 {
							last = last[i+1:]
						}
						benign := map[string]bool{"WithLabelValues": true, "Errorf": true, "Sprintf": true, "Info": true, "Debug": true, "Error": true, "Warn": true,
							"With": true, "Base": true, "Dir": true, "Join": true, "Stat": true, "Lstat": true, "append": true, "Clean": true, "Abs": true, "Log": true}
						if !strings.HasPrefix(callee, "os.") && !benign[last] {
							for _, a := range ce.Args {
								s := strings.Join(strings.Fields((&tctx{p: p}).src(a)), "")
								if s == "db.path" || s == "db.Path()" || strings.Contains(s, "SHMPath()") {
									passed = append(passed, fd.Name.Name+": "+callee+"("+s+")")
								}
							}
						}
					}
					sel, ok := ce.Fun.(*ast.SelectorExpr)
					if !ok {
						return true
					}
					recv := (&tctx{p: p}).src(sel.X)
					if sel.Sel.Name == "Commit" && len(ce.Args) == 0 {
						commits = append(commits, fd.Name.Name+": "+recv+".Commit()")
					}
					if sqlMethods[sel.Sel.Name] && (recv == "db.db" || strings.HasSuffix(strings.ToLower(recv), "tx") || recv == "sqlDB") {
						for _, a := range ce.Args {
							if s, ok := strOf(a); ok && !strings.HasPrefix(s, "<ctx") {
								if s == "<ctx>" {
									continue
								}
								kind := "db"
								if strings.HasSuffix(strings.ToLower(recv), "tx") {
									kind = "tx"
								}
								inv = append(inv, fd.Name.Name+"\x00"+strings.Join(strings.Fields(s), " ")+"\x00"+kind)
								break
							}
						}
					}
					if id, ok := sel.X.(*ast.Ident); ok && id.Name == "os" && fsFuncs[sel.Sel.Name] && len(ce.Args) > 0 {
						isDBPath := func(a string) bool {
							a = strings.Join(strings.Fields(a), "")
							return a == "db.path" || a == "db.Path()" || strings.Contains(a, "WALPath()") || strings.Contains(a, "SHMPath()") ||
								strings.Contains(a, "db.path+") || strings.Contains(a, "db.Path()+")
						}
						for _, a := range ce.Args {
							if isDBPath((&tctx{p: p}).src(a)) {
								opens = append(opens, fd.Name.Name+": os."+sel.Sel.Name+"("+strings.Join(strings.Fields((&tctx{p: p}).src(a)), "")+")")
								break
							}
						}
					}
					return true
				})
			}
		}
		sort.Strings(inv)
		sort.Strings(commits)
		sort.Strings(opens)
		if len(inv) == 0 {
			return "", fmt.Errorf("no SQL statements found: the extraction no longer matches the code")
		}
		var sb strings.Builder
		sb.WriteString("namespace Litestream.Gen.Sql\n\n/-- (function, statement) for every SQL statement issued against the source database -/\ndef inventory : List (String × String) := [\n")
		for i, s := range inv {
			parts := strings.SplitN(s, "\x00", 3)
			sep := ","
			if i == len(inv)-1 {
				sep = ""
			}
			fmt.Fprintf(&sb, "  (%s, %s)%s\n", strconv.Quote(parts[0]), strconv.Quote(parts[1]), sep)
			recvKinds = append(recvKinds, fmt.Sprintf("(%s, %s, %s)", strconv.Quote(parts[0]), strconv.Quote(parts[1]), strconv.Quote(parts[2])))
		}
		sb.WriteString("]\n\n/-- (function, statement, receiver kind): \"tx\" = issued on a *sql.Tx, \"db\" = on the pool (autocommit) -/\ndef receivers : List (String × String × String) := [\n  " + strings.Join(recvKinds, ",\n  ") + "\n")
		sb.WriteString("]\n\n/-- every `.Commit()` call in the files that touch the source database -/\ndef commitCalls : List String := [")
		for i, s := range commits {
			if i > 0 {
				sb.WriteString(", ")
			}
			sb.WriteString(strconv.Quote(s))
		}
		sb.WriteString("]\n\n/-- every file-modifying or file-opening os.* call (Open, OpenFile, Create, WriteFile, Truncate, Remove, RemoveAll, Rename, Chtimes, Chmod) with the database path, its -wal or its -shm among the arguments -/\ndef dbPathCalls : List String := [")
		for i, s := range opens {
			if i > 0 {
				sb.WriteString(", ")
			}
			sb.WriteString(strconv.Quote(s))
		}
		sb.WriteString("]\n\n/-- every call (other than os.*, path arithmetic, metric labels, logging, error formatting) that is handed the path of the database file or of its -shm -/\ndef dbPathPassedTo : List String := [")
		sort.Strings(passed)
		for i, s := range passed {
			if i > 0 {
				sb.WriteString(", ")
			}
			sb.WriteString(strconv.Quote(s))
		}
		sb.WriteString("]\n\nend Litestream.Gen.Sql\n")
		return sb.String(), nil
	}
}
