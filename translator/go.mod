module verif/translator

go 1.25.0

toolchain go1.25.13
