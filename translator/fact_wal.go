package main

import (
	"fmt"
	"go/ast"
	"go/token"
	"sort"
	"strings"
)

// Wal: constants of the WAL format as the code states them —
// WALHeaderSize / WALFrameHeaderSize (litestream.go), the two magic values with the
// byte order each selects and the version literal (wal_reader.go readHeader), and the
// byte offsets at which readHeader / readFrame decode their big-endian fields.
func init() {
	facts["Wal"] = func(repo string) (string, error) {
		p, err := loadPkg(repo)
		if err != nil {
			return "", err
		}
		c := &tctx{p: p, fields: map[string]string{}, consts: map[string]string{}}
		constNat := func(name string) (string, error) {
			e, err := p.constExpr(name)
			if err != nil {
				return "", err
			}
			lit, ok := e.(*ast.BasicLit)
			if !ok || lit.Kind != token.INT {
				return "", fmt.Errorf("%s is not an integer literal: %s", name, c.src(e))
			}
			return strings.ReplaceAll(lit.Value, "_", ""), nil
		}
		hs, err := constNat("WALHeaderSize")
		if err != nil {
			return "", err
		}
		fhs, err := constNat("WALFrameHeaderSize")
		if err != nil {
			return "", err
		}
		rh, err := p.funcDecl("WALReader", "readHeader")
		if err != nil {
			return "", err
		}
		// magic switch: case <lit>: r.bo = binary.<Order>
		magics := map[string]string{}
		var version string
		var walkErr error
		ast.Inspect(rh.Body, func(n ast.Node) bool {
			switch s := n.(type) {
			case *ast.SwitchStmt:
				for _, st := range s.Body.List {
					cc := st.(*ast.CaseClause)
					if len(cc.List) == 0 {
						continue // default
					}
					if len(cc.List) != 1 || len(cc.Body) != 1 {
						walkErr = fmt.Errorf("readHeader: magic case outside the translatable subset: %s", c.src(cc))
						return false
					}
					lit, ok := cc.List[0].(*ast.BasicLit)
					as, ok2 := cc.Body[0].(*ast.AssignStmt)
					if !ok || !ok2 || len(as.Rhs) != 1 {
						walkErr = fmt.Errorf("readHeader: magic case outside the translatable subset: %s", c.src(cc))
						return false
					}
					sel, ok := as.Rhs[0].(*ast.SelectorExpr)
					if !ok {
						walkErr = fmt.Errorf("readHeader: magic case does not select a byte order: %s", c.src(cc))
						return false
					}
					magics[sel.Sel.Name] = lit.Value
				}
			case *ast.IfStmt:
				if as, ok := s.Init.(*ast.AssignStmt); ok && len(as.Lhs) == 1 {
					if id, ok := as.Lhs[0].(*ast.Ident); ok && id.Name == "version" {
						be, ok := s.Cond.(*ast.BinaryExpr)
						if !ok || be.Op != token.NEQ {
							walkErr = fmt.Errorf("readHeader: version test is not `version != <lit>`: %s", c.src(s.Cond))
							return false
						}
						lit, ok := be.Y.(*ast.BasicLit)
						if !ok {
							walkErr = fmt.Errorf("readHeader: version test is not against a literal: %s", c.src(s.Cond))
							return false
						}
						version = lit.Value
					}
				}
			}
			return true
		})
		if walkErr != nil {
			return "", walkErr
		}
		if magics["LittleEndian"] == "" || magics["BigEndian"] == "" || len(magics) != 2 {
			return "", fmt.Errorf("readHeader: expected exactly the LittleEndian and BigEndian magic cases, got %v", magics)
		}
		if version == "" {
			return "", fmt.Errorf("readHeader: version test not found")
		}
		rf, err := p.funcDecl("WALReader", "readFrame")
		if err != nil {
			return "", err
		}
		var sb strings.Builder
		sb.WriteString("namespace Litestream.Gen.Wal\n\n")
		fmt.Fprintf(&sb, "/-- litestream.go: WALHeaderSize -/\ndef walHeaderSize : Nat := %s\n", hs)
		fmt.Fprintf(&sb, "/-- litestream.go: WALFrameHeaderSize -/\ndef walFrameHeaderSize : Nat := %s\n", fhs)
		fmt.Fprintf(&sb, "/-- wal_reader.go readHeader: magic selecting binary.LittleEndian -/\ndef magicLittleEndian : Nat := %s\n", magics["LittleEndian"])
		fmt.Fprintf(&sb, "/-- wal_reader.go readHeader: magic selecting binary.BigEndian -/\ndef magicBigEndian : Nat := %s\n", magics["BigEndian"])
		fmt.Fprintf(&sb, "/-- wal_reader.go readHeader: accepted version -/\ndef walVersion : Nat := %s\n", version)
		fmt.Fprintf(&sb, "/-- wal_reader.go readHeader: `binary.BigEndian.Uint32(hdr[N:])` decodes, by offset -/\ndef readHeaderFields : List (Nat × String) := %s\n", leanPairs(be32Offsets(rh.Body)))
		fmt.Fprintf(&sb, "/-- wal_reader.go readFrame: `binary.BigEndian.Uint32(hdr[N:])` decodes, by offset -/\ndef readFrameFields : List (Nat × String) := %s\n", leanPairs(be32Offsets(rf.Body)))
		sb.WriteString("\nend Litestream.Gen.Wal\n")
		return sb.String(), nil
	}
}

type offName struct {
	off  string
	name string
}

// be32Offsets collects `x := binary.BigEndian.Uint32(hdr[N:])` (also inside switch init / plain assignment).
func be32Offsets(body *ast.BlockStmt) []offName {
	var out []offName
	ast.Inspect(body, func(n ast.Node) bool {
		as, ok := n.(*ast.AssignStmt)
		if !ok || len(as.Lhs) != 1 || len(as.Rhs) != 1 {
			return true
		}
		call, ok := as.Rhs[0].(*ast.CallExpr)
		if !ok || len(call.Args) != 1 {
			return true
		}
		sel, ok := call.Fun.(*ast.SelectorExpr)
		if !ok || sel.Sel.Name != "Uint32" {
			return true
		}
		in, ok := sel.X.(*ast.SelectorExpr)
		if !ok || in.Sel.Name != "BigEndian" {
			return true
		}
		sl, ok := call.Args[0].(*ast.SliceExpr)
		if !ok || sl.High != nil {
			return true
		}
		base, ok := sl.X.(*ast.Ident)
		if !ok || base.Name != "hdr" {
			return true
		}
		lit, ok := sl.Low.(*ast.BasicLit)
		if !ok {
			return true
		}
		name := "?"
		switch l := as.Lhs[0].(type) {
		case *ast.Ident:
			name = l.Name
		case *ast.SelectorExpr:
			name = l.Sel.Name
		}
		out = append(out, offName{lit.Value, name})
		return true
	})
	sort.SliceStable(out, func(i, j int) bool {
		if len(out[i].off) != len(out[j].off) {
			return len(out[i].off) < len(out[j].off)
		}
		return out[i].off < out[j].off
	})
	return out
}

func leanPairs(l []offName) string {
	var parts []string
	for _, e := range l {
		parts = append(parts, fmt.Sprintf("(%s, %q)", e.off, e.name))
	}
	return "[" + strings.Join(parts, ", ") + "]"
}
